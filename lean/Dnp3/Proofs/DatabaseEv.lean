import Dnp3.Proofs.DbTables
/-!
# Proofs about the outstation database model (C03 / C11 / C13 component level)

Operations, invariants (`Ordered`, `TotalExact`, `WrittenExact`) and their preservation by every
operation (an overflow that discards a `Written` record takes it out of `written` too — the repair of
D3); `clearWritten`, `reset`, `select`, `writeEvents`, `kept`; the class bits and the overflow flag;
`TypeBounded` / `events_within_capacity` (the shared event list never exceeds the sum of the per-type
maxima).  All statements range over the eight point types of `Gen.DbT.Ty`; the generated per-type
tables are resolved with the lemmas of `Dnp3.Proofs.DbTables`.
-/
namespace Dnp3.DbProofs
open Dnp3 Dnp3.DbM

/-! ## operations -/

inductive DbOp where
  | add (t : PtType) (idx cls : Nat)
  | update (t : PtType) (idx : Nat) (value : Int) (flags time : Nat)
  | select (h : ReadHdr)
  | write (cap : Nat)
  | unsol (c1 c2 c3 : Bool) (cap : Nat)
  | clear
  | reset
deriving DecidableEq, Repr

def step (db : Db) : DbOp → Db
  | .add t idx cls => (db.add t idx cls).1
  | .update t idx v f tm => (db.update t idx v f tm).1
  | .select h => (db.select h).1
  | .write cap => (db.writeResponse cap).1
  | .unsol c1 c2 c3 cap => (db.writeUnsolicited c1 c2 c3 cap).1
  | .clear => db.clearWritten.1
  | .reset => db.reset

def run (db : Db) (ops : List DbOp) : Db := ops.foldl step db

theorem run_append (db : Db) (a b : List DbOp) : run db (a ++ b) = run (run db a) b := by
  simp [run, List.foldl_append]

/-! ## counting -/

theorem TyVec.get_ofFn {α : Type} (f : PtType → α) (t : PtType) : (TyVec.ofFn f).get t = f t := by
  cases t <;> rfl

theorem TyVec.get_set {α : Type} (v : TyVec α) (t u : PtType) (x : α) :
    (v.set t x).get u = if u = t then x else v.get u := by
  cases t <;> cases u <;> rfl

theorem TyVec.get_const {α : Type} (x : α) (t : PtType) : (TyVec.const x).get t = x := by
  cases t <;> rfl

theorem TyVec.ext' {α : Type} {a b : TyVec α} (h : ∀ u, a.get u = b.get u) : a = b := by
  have h1 := h .binary; have h2 := h .doubleBitBinary; have h3 := h .binaryOutputStatus
  have h4 := h .counter; have h5 := h .frozenCounter; have h6 := h .analog
  have h7 := h .analogOutputStatus; have h8 := h .octetString
  cases a; cases b
  simp only [TyVec.get] at h1 h2 h3 h4 h5 h6 h7 h8
  simp only [h1, h2, h3, h4, h5, h6, h7, h8]

/-- the counters a list of records should produce, restricted to the records satisfying `p` -/
def tallyBy (p : EvRec → Bool) (l : List EvRec) : Counters :=
  { c1 := l.countP (fun r => p r && r.cls == 1)
    c2 := l.countP (fun r => p r && r.cls == 2)
    c3 := l.countP (fun r => p r && r.cls == 3)
    types := TyVec.ofFn fun u => l.countP (fun r => p r && r.ty == u) }

def isWritten (r : EvRec) : Bool := r.st == .written
def anyRec (_ : EvRec) : Bool := true

/-- `total` equals the per-class / per-type counts of the records -/
def TotalExact (db : Db) : Prop := db.total = tallyBy anyRec db.events
/-- `written` equals the per-class / per-type counts of the `Written` records -/
def WrittenExact (db : Db) : Prop := db.written = tallyBy isWritten db.events
def CountersExact (db : Db) : Prop := TotalExact db ∧ WrittenExact db

/-- events oldest first: ids strictly increasing along the list, all below `next` -/
def Ordered (db : Db) : Prop :=
  db.events.Pairwise (fun a b => a.id < b.id) ∧ ∀ r ∈ db.events, r.id < db.next

/-- two counters are equal when the three class counts and every type count agree -/
theorem Counters.ext' {a b : Counters}
    (h : ∀ u : PtType, a.c1 = b.c1 ∧ a.c2 = b.c2 ∧ a.c3 = b.c3 ∧ a.ty u = b.ty u) : a = b := by
  have h0 := h .binary
  have ht : a.types = b.types := TyVec.ext' fun u => (h u).2.2.2
  cases a; cases b; simp_all

theorem tallyBy_nil (p : EvRec → Bool) : tallyBy p [] = {} := rfl

theorem tallyBy_ty (p : EvRec → Bool) (l : List EvRec) (u : PtType) :
    (tallyBy p l).ty u = l.countP (fun r => p r && r.ty == u) := by
  simp only [tallyBy, Counters.ty, TyVec.get_ofFn]

/-! ### field-level arithmetic of the counters

every lemma speaks about the three class counts and about the count of ONE arbitrary type `u` -/

def b2n (b : Bool) : Nat := if b then 1 else 0

@[simp] theorem b2n_true : b2n true = 1 := rfl
@[simp] theorem b2n_false : b2n false = 0 := rfl

theorem incCls_fields (c : Counters) (k : Nat) (u : PtType) :
    (c.incCls k).c1 = c.c1 + b2n (k == 1) ∧ (c.incCls k).c2 = c.c2 + b2n (k == 2) ∧
    (c.incCls k).c3 = c.c3 + b2n (k == 3) ∧ (c.incCls k).ty u = c.ty u := by
  by_cases h1 : k = 1 <;> by_cases h2 : k = 2 <;> by_cases h3 : k = 3 <;>
    simp_all [Counters.incCls, Counters.ty, b2n]

theorem decCls_fields (c : Counters) (k : Nat) (u : PtType) :
    (c.decCls k).c1 = c.c1 - b2n (k == 1) ∧ (c.decCls k).c2 = c.c2 - b2n (k == 2) ∧
    (c.decCls k).c3 = c.c3 - b2n (k == 3) ∧ (c.decCls k).ty u = c.ty u := by
  by_cases h1 : k = 1 <;> by_cases h2 : k = 2 <;> by_cases h3 : k = 3 <;>
    simp_all [Counters.decCls, Counters.ty, b2n]

theorem incTy_fields (c : Counters) (t u : PtType) :
    (c.incTy t).c1 = c.c1 ∧ (c.incTy t).c2 = c.c2 ∧ (c.incTy t).c3 = c.c3 ∧
    (c.incTy t).ty u = c.ty u + b2n (t == u) := by
  refine ⟨rfl, rfl, rfl, ?_⟩
  simp only [Counters.incTy, Counters.ty, TyVec.get_set]
  by_cases h : u = t
  · subst h; simp
  · have h' : (t == u) = false := by simpa using Ne.symm h
    simp [h, h']

theorem decTy_fields (c : Counters) (t u : PtType) :
    (c.decTy t).c1 = c.c1 ∧ (c.decTy t).c2 = c.c2 ∧ (c.decTy t).c3 = c.c3 ∧
    (c.decTy t).ty u = c.ty u - b2n (t == u) := by
  refine ⟨rfl, rfl, rfl, ?_⟩
  simp only [Counters.decTy, Counters.ty, TyVec.get_set]
  by_cases h : u = t
  · subst h; simp
  · have h' : (t == u) = false := by simpa using Ne.symm h
    simp [h, h']

theorem inc_fields (c : Counters) (r : EvRec) (u : PtType) :
    (c.inc r).c1 = c.c1 + b2n (r.cls == 1) ∧ (c.inc r).c2 = c.c2 + b2n (r.cls == 2) ∧
    (c.inc r).c3 = c.c3 + b2n (r.cls == 3) ∧ (c.inc r).ty u = c.ty u + b2n (r.ty == u) := by
  have h1 := incTy_fields c r.ty u
  have h2 := incCls_fields (c.incTy r.ty) r.cls u
  simp only [Counters.inc, DbTables.typeCounterModify_own]; omega

theorem dec_fields (c : Counters) (r : EvRec) (u : PtType) :
    (c.dec r).c1 = c.c1 - b2n (r.cls == 1) ∧ (c.dec r).c2 = c.c2 - b2n (r.cls == 2) ∧
    (c.dec r).c3 = c.c3 - b2n (r.cls == 3) ∧ (c.dec r).ty u = c.ty u - b2n (r.ty == u) := by
  have h1 := decCls_fields c r.cls u
  have h2 := decTy_fields (c.decCls r.cls) r.ty u
  simp only [Counters.dec, DbTables.countersDecrement_own]; omega

theorem countP_cons_b2n (p : EvRec → Bool) (r : EvRec) (l : List EvRec) :
    (r :: l).countP p = l.countP p + b2n (p r) := by
  cases h : p r <;> simp [h]

theorem tallyBy_cons_fields (p : EvRec → Bool) (r : EvRec) (l : List EvRec) (u : PtType) :
    (tallyBy p (r :: l)).c1 = (tallyBy p l).c1 + b2n (p r && r.cls == 1) ∧
    (tallyBy p (r :: l)).c2 = (tallyBy p l).c2 + b2n (p r && r.cls == 2) ∧
    (tallyBy p (r :: l)).c3 = (tallyBy p l).c3 + b2n (p r && r.cls == 3) ∧
    (tallyBy p (r :: l)).ty u = (tallyBy p l).ty u + b2n (p r && r.ty == u) := by
  simp only [tallyBy_ty]
  simp only [tallyBy, countP_cons_b2n]; simp

theorem tallyBy_append_fields (p : EvRec → Bool) (a b : List EvRec) (u : PtType) :
    (tallyBy p (a ++ b)).c1 = (tallyBy p a).c1 + (tallyBy p b).c1 ∧
    (tallyBy p (a ++ b)).c2 = (tallyBy p a).c2 + (tallyBy p b).c2 ∧
    (tallyBy p (a ++ b)).c3 = (tallyBy p a).c3 + (tallyBy p b).c3 ∧
    (tallyBy p (a ++ b)).ty u = (tallyBy p a).ty u + (tallyBy p b).ty u := by
  simp only [tallyBy_ty]
  simp [tallyBy, List.countP_append]

/-- adding a record to the front adds one to its class and to its type, if it is counted -/
theorem tallyBy_cons (p : EvRec → Bool) (r : EvRec) (l : List EvRec) :
    tallyBy p (r :: l) = if p r then (tallyBy p l).inc r else tallyBy p l := by
  cases hp : p r
  · refine Counters.ext' fun u => ?_
    have e := tallyBy_cons_fields p r l u
    simp only [hp, Bool.false_and, b2n_false, Nat.add_zero] at e
    simpa using e
  · refine Counters.ext' fun u => ?_
    have e := tallyBy_cons_fields p r l u
    have f := inc_fields (tallyBy p l) r u
    simp only [hp, Bool.true_and] at e
    simp only [if_true]
    omega

/-- `remove_first(is_type)`: the list is the discarded record put back in front of a gap -/
theorem removeFirstTy_spec (t : PtType) :
    ∀ (l : List EvRec) (d : EvRec) (rest : List EvRec), removeFirstTy t l = some (d, rest) →
      d.ty = t ∧ ∃ pre post, l = pre ++ d :: post ∧ rest = pre ++ post ∧ ∀ r ∈ pre, r.ty ≠ t := by
  intro l
  induction l with
  | nil => intro d rest h; simp [removeFirstTy] at h
  | cons r rs ih =>
    intro d rest h
    unfold removeFirstTy at h
    by_cases hr : r.ty = t
    · simp only [hr, if_true, Option.some.injEq, Prod.mk.injEq] at h
      obtain ⟨rfl, rfl⟩ := h
      exact ⟨hr, [], rs, rfl, rfl, by simp⟩
    · simp only [hr, if_false] at h
      cases hrec : removeFirstTy t rs with
      | none => simp [hrec] at h
      | some pr =>
        obtain ⟨d', rest'⟩ := pr
        simp only [hrec, Option.some.injEq, Prod.mk.injEq] at h
        obtain ⟨rfl, rfl⟩ := h
        obtain ⟨hty, pre, post, h1, h2, h3⟩ := ih d' rest' hrec
        refine ⟨hty, r :: pre, post, by simp [h1], by simp [h2], ?_⟩
        intro x hx
        rcases List.mem_cons.mp hx with rfl | hx
        · exact hr
        · exact h3 x hx

theorem removeFirstTy_none (t : PtType) :
    ∀ (l : List EvRec), removeFirstTy t l = none → ∀ r ∈ l, r.ty ≠ t := by
  intro l
  induction l with
  | nil => intro _ r hr; simp at hr
  | cons r rs ih =>
    intro h x hx
    unfold removeFirstTy at h
    by_cases hr : r.ty = t
    · simp [hr] at h
    · simp only [hr, if_false] at h
      cases hrec : removeFirstTy t rs with
      | some pr => simp [hrec] at h
      | none =>
        rcases List.mem_cons.mp hx with rfl | hx
        · exact hr
        · exact ih hrec x hx

/-! ## `insert` -/

/-- the record `insert` appends -/
def mkRec (db : Db) (idx cls : Nat) (t : PtType) (m : Meas) (dv : Nat) : EvRec :=
  { id := db.next, index := idx, cls := cls, ty := t, m := m, defVar := dv, selVar := dv }

/-- the three outcomes of `EventBuffer::insert` (the generated `Insertable` row resolved) -/
theorem insert_cases (db : Db) (idx cls : Nat) (t : PtType) (m : Meas) (dv : Nat) :
    (db.evCfg.get t = 0 ∧ db.insert idx cls t m dv = (db, .typeMaxIsZero)) ∨
    (db.evCfg.get t ≠ 0 ∧ ∃ d rest, db.total.ty t = db.evCfg.get t ∧ removeFirstTy t db.events = some (d, rest) ∧
      db.insert idx cls t m dv =
        ({ db with next := db.next + 1, events := rest ++ [mkRec db idx cls t m dv]
                   total := (((db.total.decTy t).decCls d.cls).incCls cls).incTy t
                   written := if d.st = .written then (db.written.decTy t).decCls d.cls else db.written
                   overflown := true }, .overflow db.next d.id)) ∨
    (db.evCfg.get t ≠ 0 ∧ (db.total.ty t ≠ db.evCfg.get t ∨ removeFirstTy t db.events = none) ∧
      db.insert idx cls t m dv =
        ({ db with next := db.next + 1, events := db.events ++ [mkRec db idx cls t m dv]
                   total := (db.total.incCls cls).incTy t }, .ok db.next)) := by
  unfold Db.insert mkRec
  simp only [DbTables.insertable_own]
  by_cases h0 : db.evCfg.get t = 0
  · left; simp [h0]
  · right
    simp only [h0, if_false]
    by_cases hfull : db.total.ty t = db.evCfg.get t
    · cases hrem : removeFirstTy t db.events with
      | none => right; exact ⟨h0, Or.inr rfl, by rw [if_pos hfull]⟩
      | some pr =>
        obtain ⟨d, rest⟩ := pr
        left; exact ⟨h0, d, rest, hfull, rfl, by rw [if_pos hfull]⟩
    · right; exact ⟨h0, Or.inl hfull, by rw [if_neg hfull]⟩

theorem tallyBy_singleton_any (r : EvRec) (u : PtType) :
    (tallyBy anyRec [r]).c1 = b2n (r.cls == 1) ∧ (tallyBy anyRec [r]).c2 = b2n (r.cls == 2) ∧
    (tallyBy anyRec [r]).c3 = b2n (r.cls == 3) ∧ (tallyBy anyRec [r]).ty u = b2n (r.ty == u) := by
  have := tallyBy_cons_fields anyRec r [] u
  have hz : (tallyBy anyRec []).ty u = 0 := by simp [tallyBy_ty]
  simp only [tallyBy_nil, anyRec, Bool.true_and] at this hz
  simpa [hz] using this

theorem b2n_le_one (b : Bool) : b2n b ≤ 1 := by cases b <;> simp

/-- `total` stays exact through every insert (overflow included) -/
theorem insert_total (db : Db) (idx cls : Nat) (t : PtType) (m : Meas) (dv : Nat)
    (h : TotalExact db) : TotalExact (db.insert idx cls t m dv).1 := by
  rcases insert_cases db idx cls t m dv with ⟨_, he⟩ | ⟨_, d, rest, hfull, hrem, he⟩ | ⟨_, _, he⟩
  · rw [he]; exact h
  · rw [he]
    obtain ⟨hty, pre, post, hl, hr, _⟩ := removeFirstTy_spec t _ _ _ hrem
    subst hr
    unfold TotalExact at h ⊢
    simp only
    refine Counters.ext' fun u => ?_
    have e1 := tallyBy_append_fields anyRec (pre ++ post) [mkRec db idx cls t m dv] u
    have e2 := tallyBy_singleton_any (mkRec db idx cls t m dv) u
    have e3 := tallyBy_append_fields anyRec pre (d :: post) u
    have e4 := tallyBy_cons_fields anyRec d post u
    have e5 := tallyBy_append_fields anyRec pre post u
    have f1 := decTy_fields db.total t u
    have f2 := decCls_fields (db.total.decTy t) d.cls u
    have f3 := incCls_fields ((db.total.decTy t).decCls d.cls) cls u
    have f4 := incTy_fields (((db.total.decTy t).decCls d.cls).incCls cls) t u
    rw [hl] at h
    simp only [anyRec, Bool.true_and, mkRec] at e1 e2 e3 e4 e5 ⊢
    have b1 := b2n_le_one (d.cls == 1); have b2 := b2n_le_one (d.cls == 2)
    have b3 := b2n_le_one (d.cls == 3)
    have hb : b2n (t == u) = b2n (d.ty == u) := by rw [hty]
    simp only [h] at f1 f2 f3 f4 ⊢
    omega
  · rw [he]
    unfold TotalExact at h ⊢
    simp only
    refine Counters.ext' fun u => ?_
    have e1 := tallyBy_append_fields anyRec db.events [mkRec db idx cls t m dv] u
    have e2 := tallyBy_singleton_any (mkRec db idx cls t m dv) u
    have f3 := incCls_fields db.total cls u
    have f4 := incTy_fields (db.total.incCls cls) t u
    have hc : (mkRec db idx cls t m dv).cls = cls := rfl
    have ht : (mkRec db idx cls t m dv).ty = t := rfl
    rw [hc, ht] at e2
    simp only [h] at f3 f4 ⊢
    omega

theorem tallyBy_remove_unwritten (pre post : List EvRec) (d : EvRec) (hd : isWritten d = false) :
    tallyBy isWritten (pre ++ d :: post) = tallyBy isWritten (pre ++ post) := by
  refine Counters.ext' fun u => ?_
  have e3 := tallyBy_append_fields isWritten pre (d :: post) u
  have e4 := tallyBy_cons_fields isWritten d post u
  have e5 := tallyBy_append_fields isWritten pre post u
  simp only [hd, Bool.false_and, b2n_false] at e4
  omega

theorem tallyBy_append_unwritten (l : List EvRec) (r : EvRec) (hr : isWritten r = false) :
    tallyBy isWritten (l ++ [r]) = tallyBy isWritten l := by
  refine Counters.ext' fun u => ?_
  have e1 := tallyBy_append_fields isWritten l [r] u
  have e2 : (tallyBy isWritten [r]).c1 = 0 ∧ (tallyBy isWritten [r]).c2 = 0 ∧ (tallyBy isWritten [r]).c3 = 0 ∧
      (tallyBy isWritten [r]).ty u = 0 := by
    refine ⟨?_, ?_, ?_, ?_⟩
    · simp [tallyBy, hr]
    · simp [tallyBy, hr]
    · simp [tallyBy, hr]
    · rw [tallyBy_ty]; simp [hr]
  omega

/-- the `Written` tally without a `Written` record `d`: one less in its class and in its type -/
theorem tallyBy_remove_written (pre post : List EvRec) (d : EvRec) (hd : isWritten d = true) (u : PtType) :
    (tallyBy isWritten (pre ++ post)).c1 = (tallyBy isWritten (pre ++ d :: post)).c1 - b2n (d.cls == 1) ∧
    (tallyBy isWritten (pre ++ post)).c2 = (tallyBy isWritten (pre ++ d :: post)).c2 - b2n (d.cls == 2) ∧
    (tallyBy isWritten (pre ++ post)).c3 = (tallyBy isWritten (pre ++ d :: post)).c3 - b2n (d.cls == 3) ∧
    (tallyBy isWritten (pre ++ post)).ty u = (tallyBy isWritten (pre ++ d :: post)).ty u - b2n (d.ty == u) := by
  have e3 := tallyBy_append_fields isWritten pre (d :: post) u
  have e4 := tallyBy_cons_fields isWritten d post u
  have e5 := tallyBy_append_fields isWritten pre post u
  simp only [hd, Bool.true_and] at e4
  omega

/-- `written` stays exact through every insert: a discarded `Written` record is taken out of
    `written` (type and class), any other discard leaves it alone -/
theorem insert_written (db : Db) (idx cls : Nat) (t : PtType) (m : Meas) (dv : Nat)
    (h : WrittenExact db) : WrittenExact (db.insert idx cls t m dv).1 := by
  have hmk : isWritten (mkRec db idx cls t m dv) = false := rfl
  rcases insert_cases db idx cls t m dv with ⟨_, he⟩ | ⟨_, d, rest, hfull, hrem, he⟩ | ⟨_, _, he⟩
  · rw [he]; exact h
  · rw [he]
    obtain ⟨hty, pre, post, hl, hr, _⟩ := removeFirstTy_spec t _ _ _ hrem
    subst hr
    unfold WrittenExact at h ⊢
    simp only
    rw [tallyBy_append_unwritten _ _ hmk]
    by_cases hst : d.st = .written
    · rw [if_pos hst]
      have hd : isWritten d = true := by simp [isWritten, hst]
      rw [hl] at h
      refine Counters.ext' fun u => ?_
      have e := tallyBy_remove_written pre post d hd u
      have f1 := decTy_fields db.written t u
      have f2 := decCls_fields (db.written.decTy t) d.cls u
      have hb : b2n (t == u) = b2n (d.ty == u) := by rw [hty]
      simp only [h] at f1 f2 ⊢
      omega
    · rw [if_neg hst]
      have hd : isWritten d = false := by
        simp only [isWritten]; cases hs' : d.st <;> simp_all
      rw [← tallyBy_remove_unwritten pre post d hd, ← hl]
      exact h
  · rw [he]
    unfold WrittenExact at h ⊢
    simp only
    rw [tallyBy_append_unwritten _ _ hmk]
    exact h

/-- the decrements of `insert` never underflow (the Rust `Count::decrement` is a checked `-= 1`):
    with exact counters, the record an overflow discards is counted in `total` — type and class — and,
    when it is `Written`, in `written` as well -/
theorem insert_decrements_no_underflow (db : Db) (t : PtType) (d : EvRec) (rest : List EvRec)
    (h : CountersExact db) (hrem : removeFirstTy t db.events = some (d, rest)) :
    1 ≤ db.total.ty t ∧ (d.cls = 1 ∨ d.cls = 2 ∨ d.cls = 3 → 1 ≤ (db.total.decTy t).cls d.cls) ∧
    (d.st = .written →
      1 ≤ db.written.ty t ∧ (d.cls = 1 ∨ d.cls = 2 ∨ d.cls = 3 → 1 ≤ (db.written.decTy t).cls d.cls)) := by
  obtain ⟨hty, pre, post, hl, _, _⟩ := removeFirstTy_spec t _ _ _ hrem
  obtain ⟨ht, hw⟩ := h
  unfold TotalExact at ht
  unfold WrittenExact at hw
  rw [hl] at ht hw
  subst hty
  have a3 := tallyBy_append_fields anyRec pre (d :: post) d.ty
  have a4 := tallyBy_cons_fields anyRec d post d.ty
  have w3 := tallyBy_append_fields isWritten pre (d :: post) d.ty
  have w4 := tallyBy_cons_fields isWritten d post d.ty
  have f1 := decTy_fields db.total d.ty d.ty
  have g1 := decTy_fields db.written d.ty d.ty
  simp only [anyRec, Bool.true_and, beq_self_eq_true, b2n_true] at a4
  refine ⟨?_, ?_, ?_⟩
  · simp only [ht]; omega
  · rintro (hc | hc | hc) <;> simp only [Counters.cls, hc, ht, beq_self_eq_true, b2n_true] at f1 a3 a4 ⊢ <;> omega
  · intro hst
    have hd : isWritten d = true := by simp [isWritten, hst]
    simp only [hd, Bool.true_and, beq_self_eq_true, b2n_true] at w4
    refine ⟨?_, ?_⟩
    · simp only [hw]; omega
    · rintro (hc | hc | hc) <;> simp only [Counters.cls, hc, hw, beq_self_eq_true, b2n_true] at g1 w3 w4 ⊢ <;> omega

theorem insert_ordered (db : Db) (idx cls : Nat) (t : PtType) (m : Meas) (dv : Nat)
    (h : Ordered db) : Ordered (db.insert idx cls t m dv).1 := by
  obtain ⟨hp, hn⟩ := h
  have key : ∀ l : List EvRec, l.Sublist db.events →
      (l ++ [mkRec db idx cls t m dv]).Pairwise (fun a b => a.id < b.id) ∧
      ∀ r ∈ l ++ [mkRec db idx cls t m dv], r.id < db.next + 1 := by
    intro l hl
    constructor
    · rw [List.pairwise_append]
      refine ⟨hp.sublist hl, by simp, ?_⟩
      intro a ha b hb
      simp only [List.mem_singleton] at hb
      subst hb
      exact hn a (hl.subset ha)
    · intro r hr
      rcases List.mem_append.mp hr with hr | hr
      · exact Nat.lt_succ_of_lt (hn r (hl.subset hr))
      · simp only [List.mem_singleton] at hr; subst hr; exact Nat.lt_succ_self _
  rcases insert_cases db idx cls t m dv with ⟨_, he⟩ | ⟨_, d, rest, hfull, hrem, he⟩ | ⟨_, _, he⟩
  · rw [he]; exact ⟨hp, hn⟩
  · rw [he]
    obtain ⟨_, pre, post, hl, hr, _⟩ := removeFirstTy_spec t _ _ _ hrem
    subst hr
    have hsub : (pre ++ post).Sublist db.events := by
      rw [hl]; exact List.Sublist.append (List.Sublist.refl _) (List.sublist_cons_self _ _)
    exact key _ hsub
  · rw [he]; exact key _ (List.Sublist.refl _)

/-! ## frame: operations that leave the event buffer alone -/

/-- the event-buffer part of two databases coincides -/
def EbEq (db db' : Db) : Prop :=
  db'.events = db.events ∧ db'.total = db.total ∧ db'.written = db.written ∧ db'.next = db.next ∧
  db'.evCfg = db.evCfg ∧ db'.overflown = db.overflown

theorem EbEq.refl (db : Db) : EbEq db db := ⟨rfl, rfl, rfl, rfl, rfl, rfl⟩
theorem EbEq.trans {a b c : Db} (h1 : EbEq a b) (h2 : EbEq b c) : EbEq a c := by
  obtain ⟨a1, a2, a3, a4, a5, a6⟩ := h1
  obtain ⟨b1, b2, b3, b4, b5, b6⟩ := h2
  exact ⟨b1.trans a1, b2.trans a2, b3.trans a3, b4.trans a4, b5.trans a5, b6.trans a6⟩

theorem EbEq.ordered {db db' : Db} (h : EbEq db db') (ho : Ordered db) : Ordered db' := by
  obtain ⟨h1, _, _, h4, _, _⟩ := h
  unfold Ordered at *; rw [h1, h4]; exact ho
theorem EbEq.total {db db' : Db} (h : EbEq db db') (ho : TotalExact db) : TotalExact db' := by
  obtain ⟨h1, h2, _, _, _, _⟩ := h
  unfold TotalExact at *; rw [h1, h2]; exact ho
theorem EbEq.written {db db' : Db} (h : EbEq db db') (ho : WrittenExact db) : WrittenExact db' := by
  obtain ⟨h1, _, h3, _, _, _⟩ := h
  unfold WrittenExact at *; rw [h1, h3]; exact ho

theorem setMap_eb (db : Db) (t : PtType) (m : List (Nat × Point)) : EbEq db (db.setMap t m) :=
  ⟨rfl, rfl, rfl, rfl, rfl, rfl⟩

theorem setMutMap_eb (db : Db) (t : PtType) (m : List (Nat × Point)) : EbEq db (db.setMutMap t m) :=
  ⟨rfl, rfl, rfl, rfl, rfl, rfl⟩

theorem addCfg_eb (db : Db) (t : PtType) (idx cls sv ev dbd : Nat) : EbEq db (db.addCfg t idx cls sv ev dbd).1 := by
  unfold Db.addCfg
  split
  · exact setMutMap_eb _ _ _
  · exact EbEq.refl _

theorem add_eb (db : Db) (t : PtType) (idx cls : Nat) : EbEq db (db.add t idx cls).1 :=
  addCfg_eb db t _ cls _ _ _

theorem pushSel_eb (db : Db) (it : SelItem) : EbEq db (db.pushSel it).1 := by
  unfold Db.pushSel; split <;> exact ⟨rfl, rfl, rfl, rfl, rfl, rfl⟩

theorem selectStatic_eb (db : Db) (t : PtType) (var : Option Nat) (range : Option (Nat × Nat)) :
    EbEq db (db.selectStatic t var range).1 := by
  unfold Db.selectStatic
  split
  · exact EbEq.refl _
  · exact EbEq.trans (setMutMap_eb _ _ _) (pushSel_eb _ _)

/-- a fold whose every step leaves the event buffer alone leaves it alone -/
theorem foldl_eb {α β : Type} (f : Db × β → α → Db × β) (hf : ∀ p a, EbEq p.1 (f p a).1) :
    ∀ (l : List α) (p : Db × β), EbEq p.1 (l.foldl f p).1 := by
  intro l
  induction l with
  | nil => intro p; exact EbEq.refl _
  | cons a as ih => intro p; exact EbEq.trans (hf p a) (ih (f p a))

theorem selectClass0_eb (db : Db) : EbEq db db.selectClass0.1 := by
  unfold Db.selectClass0
  refine foldl_eb _ ?_ _ (db, 0)
  intro p t
  split
  · exact selectStatic_eb _ _ _ _
  · exact EbEq.refl _

/-! ## `update` -/

def infoOf : InsertResult → UpdInfo
  | .typeMaxIsZero => .noEvent
  | .ok id => .created id
  | .overflow c d => .overflow c d

/-- `update2` (any `UpdateOptions`) = a change of the static maps only, optionally followed by one `insert`
    of the new measurement with the point's class and configured event variation -/
theorem updateOpt_spec (db : Db) (t : PtType) (idx : Nat) (m : Meas) (o : UpdOpts) :
    ∃ db0, EbEq db db0 ∧
      (db.updateOpt t idx m o = (db0, .noPoint) ∨ db.updateOpt t idx m o = (db0, .noEvent) ∨
       ∃ p, pmLookup (db.getMutMap t) idx = some p ∧ p.cls ≠ 0 ∧ db.updateOpt t idx m o =
          ((db0.insert idx p.cls t m p.evar).1, infoOf (db0.insert idx p.cls t m p.evar).2)) := by
  unfold Db.updateOpt
  cases hl : pmLookup (db.getMutMap t) idx with
  | none => exact ⟨db, EbEq.refl _, Or.inl rfl⟩
  | some p =>
    simp only []
    by_cases hev : wantsEvent t p m o.mode = true
    · rw [if_pos hev]
      by_cases hc : p.cls = 0
      · rw [if_pos hc]; exact ⟨_, setMutMap_eb _ _ _, Or.inr (Or.inl rfl)⟩
      · rw [if_neg hc]
        refine ⟨db.setMutMap t (pmSet (db.getMutMap t) idx
            { (if o.updateStatic = true then { p with current := m } else p) with lastEvent := m }),
          setMutMap_eb db t _, Or.inr (Or.inr ⟨p, rfl, hc, ?_⟩)⟩
        split <;> rename_i heq <;> simp only [heq, infoOf]
    · rw [if_neg hev]; exact ⟨_, setMutMap_eb _ _ _, Or.inr (Or.inl rfl)⟩

/-- … with the default options (`UpdateOptions::detect_event()`) -/
theorem update_spec (db : Db) (t : PtType) (idx : Nat) (m : Meas) :
    ∃ db0, EbEq db db0 ∧
      (db.updateM t idx m = (db0, .noPoint) ∨ db.updateM t idx m = (db0, .noEvent) ∨
       ∃ p, pmLookup (db.getMutMap t) idx = some p ∧ p.cls ≠ 0 ∧ db.updateM t idx m =
          ((db0.insert idx p.cls t m p.evar).1, infoOf (db0.insert idx p.cls t m p.evar).2)) :=
  updateOpt_spec db t idx m {}

/-- the same for the session model's entry point: `Db.update` is `Db.updateOpt` on the decoded
    (type, index, measurement, options) -/
theorem update_spec_enc (db : Db) (t : PtType) (idx : Nat) (v : Int) (f tm : Nat) :
    ∃ db0, EbEq db db0 ∧
      (db.update t idx v f tm = (db0, .noPoint) ∨ db.update t idx v f tm = (db0, .noEvent) ∨
       ∃ t' idx' cls m dv, db.update t idx v f tm =
          ((db0.insert idx' cls t' m dv).1, infoOf (db0.insert idx' cls t' m dv).2)) := by
  unfold Db.update
  obtain ⟨db0, he, h1 | h1 | ⟨p, _, _, h1⟩⟩ :=
    updateOpt_spec db (decodeUpd t idx v f tm).1 (decodeUpd t idx v f tm).2.1 (decodeUpd t idx v f tm).2.2.1
      (decodeUpd t idx v f tm).2.2.2
  · exact ⟨db0, he, Or.inl h1⟩
  · exact ⟨db0, he, Or.inr (Or.inl h1)⟩
  · exact ⟨db0, he, Or.inr (Or.inr ⟨_, _, p.cls, _, p.evar, h1⟩)⟩

theorem updateOpt_ordered (db : Db) (t : PtType) (idx : Nat) (m : Meas) (o : UpdOpts) (h : Ordered db) :
    Ordered (db.updateOpt t idx m o).1 := by
  obtain ⟨db0, he, h1 | h1 | ⟨p, _, _, h1⟩⟩ := updateOpt_spec db t idx m o <;> rw [h1]
  · exact he.ordered h
  · exact he.ordered h
  · exact insert_ordered _ _ _ _ _ _ (he.ordered h)

theorem updateOpt_total (db : Db) (t : PtType) (idx : Nat) (m : Meas) (o : UpdOpts) (h : TotalExact db) :
    TotalExact (db.updateOpt t idx m o).1 := by
  obtain ⟨db0, he, h1 | h1 | ⟨p, _, _, h1⟩⟩ := updateOpt_spec db t idx m o <;> rw [h1]
  · exact he.total h
  · exact he.total h
  · exact insert_total _ _ _ _ _ _ (he.total h)

theorem updateOpt_written (db : Db) (t : PtType) (idx : Nat) (m : Meas) (o : UpdOpts) (h : WrittenExact db) :
    WrittenExact (db.updateOpt t idx m o).1 := by
  obtain ⟨db0, he, h1 | h1 | ⟨p, _, _, h1⟩⟩ := updateOpt_spec db t idx m o <;> rw [h1]
  · exact he.written h
  · exact he.written h
  · exact insert_written _ _ _ _ _ _ (he.written h)

theorem updateM_ordered (db : Db) (t : PtType) (idx : Nat) (m : Meas) (h : Ordered db) :
    Ordered (db.updateM t idx m).1 := updateOpt_ordered db t idx m {} h

theorem updateM_total (db : Db) (t : PtType) (idx : Nat) (m : Meas) (h : TotalExact db) :
    TotalExact (db.updateM t idx m).1 := updateOpt_total db t idx m {} h

theorem updateM_written (db : Db) (t : PtType) (idx : Nat) (m : Meas) (h : WrittenExact db) :
    WrittenExact (db.updateM t idx m).1 := updateOpt_written db t idx m {} h

theorem update_ordered (db : Db) (t : PtType) (idx : Nat) (v : Int) (f tm : Nat) (h : Ordered db) :
    Ordered (db.update t idx v f tm).1 := updateOpt_ordered db _ _ _ _ h

theorem update_total (db : Db) (t : PtType) (idx : Nat) (v : Int) (f tm : Nat) (h : TotalExact db) :
    TotalExact (db.update t idx v f tm).1 := updateOpt_total db _ _ _ _ h

theorem update_written (db : Db) (t : PtType) (idx : Nat) (v : Int) (f tm : Nat) (h : WrittenExact db) :
    WrittenExact (db.update t idx v f tm).1 := updateOpt_written db _ _ _ _ h

/-! ## record-by-record relations between two event lists -/

inductive Pointwise {α : Type} (R : α → α → Prop) : List α → List α → Prop where
  | nil : Pointwise R [] []
  | cons {a b : α} {as bs : List α} : R a b → Pointwise R as bs → Pointwise R (a :: as) (b :: bs)

theorem Pointwise.refl' {α : Type} {R : α → α → Prop} (h : ∀ a, R a a) : ∀ l : List α, Pointwise R l l
  | [] => .nil
  | a :: as => .cons (h a) (Pointwise.refl' h as)

theorem Pointwise.mono {α : Type} {R S : α → α → Prop} (h : ∀ a b, R a b → S a b) {l l' : List α}
    (p : Pointwise R l l') : Pointwise S l l' := by
  induction p with
  | nil => exact .nil
  | cons hr _ ih => exact .cons (h _ _ hr) ih

theorem Pointwise.length_eq {α : Type} {R : α → α → Prop} {l l' : List α} (p : Pointwise R l l') :
    l'.length = l.length := by
  induction p with
  | nil => rfl
  | cons _ _ ih => simp [ih]

theorem Pointwise.map_eq {α β : Type} {R : α → α → Prop} (f : α → β) (h : ∀ a b, R a b → f b = f a)
    {l l' : List α} (p : Pointwise R l l') : l'.map f = l.map f := by
  induction p with
  | nil => rfl
  | cons hr _ ih => simp [h _ _ hr, ih]

theorem Pointwise.comp {α : Type} {R S T : α → α → Prop} (h : ∀ a b c, R a b → S b c → T a c)
    {l l' l'' : List α} (p : Pointwise R l l') (q : Pointwise S l' l'') : Pointwise T l l'' := by
  induction p generalizing l'' with
  | nil => cases q; exact .nil
  | cons hr _ ih => cases q with | cons hs q' => exact .cons (h _ _ _ hr hs) (ih q')

/-- everything about a record except its selection state and selected variation -/
def core (r : EvRec) : Nat × Nat × Nat × PtType × Meas × Nat := (r.id, r.index, r.cls, r.ty, r.m, r.defVar)

theorem core_id {a b : EvRec} (h : core b = core a) : b.id = a.id := by
  simp only [core, Prod.mk.injEq] at h; exact h.1
theorem core_cls {a b : EvRec} (h : core b = core a) : b.cls = a.cls := by
  simp only [core, Prod.mk.injEq] at h; exact h.2.2.1
theorem core_ty {a b : EvRec} (h : core b = core a) : b.ty = a.ty := by
  simp only [core, Prod.mk.injEq] at h; exact h.2.2.2.1

/-- counters only look at class, type and (for `written`) the predicate -/
theorem tallyBy_congr (p : EvRec → Bool) {R : EvRec → EvRec → Prop}
    (h : ∀ a b, R a b → core b = core a ∧ p b = p a) {l l' : List EvRec} (pw : Pointwise R l l') :
    tallyBy p l' = tallyBy p l := by
  induction pw with
  | nil => rfl
  | @cons a b as bs hr _ ih =>
    obtain ⟨hc, hp⟩ := h _ _ hr
    refine Counters.ext' fun u => ?_
    have e1 := tallyBy_cons_fields p a as u
    have e2 := tallyBy_cons_fields p b bs u
    rw [hp, core_cls hc, core_ty hc, ih] at e2
    omega

theorem ordered_of_ids {l l' : List EvRec} (n : Nat) (h : l'.map (·.id) = l.map (·.id))
    (ho : l.Pairwise (fun a b => a.id < b.id) ∧ ∀ r ∈ l, r.id < n) :
    l'.Pairwise (fun a b => a.id < b.id) ∧ ∀ r ∈ l', r.id < n := by
  obtain ⟨hp, hn⟩ := ho
  constructor
  · have : (l.map (·.id)).Pairwise (· < ·) := List.pairwise_map.mpr hp
    rw [← h] at this
    exact List.pairwise_map.mp this
  · intro r hr
    have : r.id ∈ l'.map (·.id) := List.mem_map.mpr ⟨r, hr, rfl⟩
    rw [h] at this
    obtain ⟨r0, hr0, he⟩ := List.mem_map.mp this
    rw [← he]; exact hn r0 hr0

/-! ## `select` (events) -/

/-- one record under a selection: unchanged, or `Unselected` → `Selected` with some variation -/
def SelStep (a b : EvRec) : Prop :=
  b = a ∨ (a.st = .unselected ∧ ∃ v, b = { a with st := .selected, selVar := v })

theorem SelStep.core {a b : EvRec} (h : SelStep a b) : core b = core a ∧ isWritten b = isWritten a := by
  rcases h with rfl | ⟨hu, v, rfl⟩
  · exact ⟨rfl, rfl⟩
  · simp only [DbProofs.core, isWritten, hu, true_and]; decide

/-- `EventBuffer::select` only ever moves records from `Unselected` to `Selected` -/
theorem selectEvents_pointwise (p : EvRec → Bool) (var : Option Nat) :
    ∀ (l : List EvRec) (lim : Option Nat), Pointwise SelStep l (selectEvents p var lim l).1 := by
  intro l
  induction l with
  | nil => intro lim; cases lim <;> simp [selectEvents] <;> exact .nil
  | cons r rs ih =>
    intro lim
    by_cases hz : lim = some 0
    · subst hz
      simp only [selectEvents]
      exact Pointwise.refl' (R := SelStep) (fun a => Or.inl rfl) _
    · rw [selectEvents.eq_3 _ _ _ _ _ (by intro h; exact hz h)]
      split
      · rename_i hc
        exact .cons (Or.inr ⟨hc.1, _, rfl⟩) (ih _)
      · exact .cons (Or.inl rfl) (ih _)

/-- the event buffer after a selection: records moved `Unselected` → `Selected`, nothing else -/
def EbSel (db db' : Db) : Prop :=
  Pointwise SelStep db.events db'.events ∧ db'.total = db.total ∧ db'.written = db.written ∧
  db'.next = db.next ∧ db'.evCfg = db.evCfg ∧ db'.overflown = db.overflown

theorem EbEq.toSel {db db' : Db} (h : EbEq db db') : EbSel db db' := by
  obtain ⟨h1, h2, h3, h4, h5, h6⟩ := h
  refine ⟨?_, h2, h3, h4, h5, h6⟩
  rw [h1]; exact Pointwise.refl' (R := SelStep) (fun a => Or.inl rfl) _

theorem EbSel.ordered {db db' : Db} (h : EbSel db db') (ho : Ordered db) : Ordered db' := by
  obtain ⟨h1, _, _, h4, _, _⟩ := h
  unfold Ordered at *; rw [h4]
  exact ordered_of_ids _ (h1.map_eq (·.id) (fun a b hs => core_id hs.core.1)) ho
theorem EbSel.total {db db' : Db} (h : EbSel db db') (ho : TotalExact db) : TotalExact db' := by
  obtain ⟨h1, h2, _, _, _, _⟩ := h
  unfold TotalExact at *; rw [h2, ho]
  exact (tallyBy_congr anyRec (fun a b hs => ⟨hs.core.1, rfl⟩) h1).symm
theorem EbSel.written {db db' : Db} (h : EbSel db db') (ho : WrittenExact db) : WrittenExact db' := by
  obtain ⟨h1, _, h3, _, _, _⟩ := h
  unfold WrittenExact at *; rw [h3, ho]
  exact (tallyBy_congr isWritten (fun a b hs => hs.core) h1).symm

/-- `DatabaseHandle::select` never touches the event buffer except to move records from
    `Unselected` to `Selected` -/
theorem select_sel (db : Db) (h : ReadHdr) : EbSel db (db.select h).1 := by
  unfold Db.select
  split
  · exact (selectClass0_eb db).toSel
  · exact ⟨selectEvents_pointwise _ _ _ _, rfl, rfl, rfl, rfl, rfl⟩
  · exact ⟨selectEvents_pointwise _ _ _ _, rfl, rfl, rfl, rfl, rfl⟩
  · exact (EbEq.refl db).toSel
  · exact (selectStatic_eb db _ _ _).toSel
  · split
    · exact (EbEq.refl db).toSel
    · exact (pushSel_eb db _).toSel
  · exact (EbEq.refl db).toSel
  · split <;> exact (EbEq.refl db).toSel
  · split
    · exact (EbEq.refl db).toSel
    · split
      · split
        · exact ⟨Pointwise.refl' (R := SelStep) (fun a => Or.inl rfl) _, rfl, rfl, rfl, rfl, rfl⟩
        · exact (EbEq.refl db).toSel
      · exact (EbEq.refl db).toSel
  · exact (EbEq.refl db).toSel
  · exact (EbEq.refl db).toSel
  · exact (EbEq.refl db).toSel

/-! ## `write_events` -/

def isSelected (r : EvRec) : Bool := r.st == .selected

/-- mark the first `n` `Selected` records (in list order) `Written` -/
def markFirst : Nat → List EvRec → List EvRec
  | 0, l => l
  | _, [] => []
  | n + 1, r :: rs =>
    if r.st = .selected then { r with st := .written } :: markFirst n rs else r :: markFirst (n + 1) rs

theorem markFirst_nil (n : Nat) : markFirst n [] = [] := by cases n <;> rfl

theorem markFirst_cons_sel (n : Nat) (r : EvRec) (rs : List EvRec) (h : r.st = .selected) :
    markFirst (n + 1) (r :: rs) = { r with st := .written } :: markFirst n rs := by
  simp [markFirst, h]

theorem markFirst_cons_other (n : Nat) (r : EvRec) (rs : List EvRec) (h : r.st ≠ .selected) :
    markFirst n (r :: rs) = r :: markFirst n rs := by
  cases n with
  | zero => simp [markFirst]
  | succ n => simp [markFirst, h]

/-- `write_events` marks `Written` exactly a prefix (in list order) of the `Selected` records:
    the records it reports as written; it is complete iff that prefix is all of them, and
    otherwise the next `Selected` record did not fit -/
theorem evLoop_spec (cap : Nat) :
    ∀ (l : List EvRec) (used : Nat) (cur : Option EvCur),
      (evLoop cap l used cur).1 = markFirst (evLoop cap l used cur).2.1.length l ∧
      (evLoop cap l used cur).2.1 = (l.filter isSelected).take (evLoop cap l used cur).2.1.length ∧
      ((evLoop cap l used cur).2.2 = true → (evLoop cap l used cur).2.1 = l.filter isSelected) ∧
      ((evLoop cap l used cur).2.2 = false →
        (evLoop cap l used cur).2.1.length < (l.filter isSelected).length) := by
  intro l
  induction l with
  | nil => intro used cur; simp [evLoop, markFirst]
  | cons r rs ih =>
    intro used cur
    unfold evLoop
    by_cases hs : r.st = .selected
    · have hsel : isSelected r = true := by simp [isSelected, hs]
      simp only [hs, if_true]
      by_cases hfit : used + evCost cur r ≤ cap
      · simp only [hfit, if_true]
        obtain ⟨i1, i2, i3, i4⟩ := ih (used + evCost cur r) (some (evNext cur r))
        refine ⟨?_, ?_, ?_, ?_⟩
        · simp only [List.length_cons]
          rw [markFirst_cons_sel _ _ _ hs, ← i1]
        · simp only [List.length_cons, List.filter_cons, hsel, if_true, List.take_succ_cons]
          rw [← i2]
        · intro hc
          simp only [List.filter_cons, hsel, if_true]
          rw [i3 hc]
        · intro hc
          simp only [List.length_cons, List.filter_cons, hsel, if_true]
          exact Nat.succ_lt_succ (i4 hc)
      · simp only [hfit, if_false]
        refine ⟨by simp [markFirst], by simp, by simp, ?_⟩
        intro _; simp [hsel]
    · have hsel : isSelected r = false := by simp [isSelected, hs]
      simp only [hs, if_false]
      obtain ⟨i1, i2, i3, i4⟩ := ih used cur
      refine ⟨?_, ?_, ?_, ?_⟩
      · rw [markFirst_cons_other _ _ _ hs, ← i1]
      · simp only [List.filter_cons, hsel]; exact i2
      · intro hc; simp only [List.filter_cons, hsel]; exact i3 hc
      · intro hc; simp only [List.filter_cons, hsel]; exact i4 hc

/-- one record under `write_events`: unchanged, or `Selected` → `Written` -/
def WrStep (a b : EvRec) : Prop := b = a ∨ (a.st = .selected ∧ b = { a with st := .written })

theorem WrStep.core {a b : EvRec} (h : WrStep a b) : core b = core a := by
  rcases h with rfl | ⟨_, rfl⟩ <;> rfl

theorem markFirst_pointwise : ∀ (l : List EvRec) (n : Nat), Pointwise WrStep l (markFirst n l) := by
  intro l
  induction l with
  | nil => intro n; rw [markFirst_nil]; exact .nil
  | cons r rs ih =>
    intro n
    cases n with
    | zero => simp only [markFirst]; exact Pointwise.refl' (R := WrStep) (fun a => Or.inl rfl) _
    | succ n =>
      by_cases hs : r.st = .selected
      · rw [markFirst_cons_sel _ _ _ hs]; exact .cons (Or.inr ⟨hs, rfl⟩) (ih n)
      · rw [markFirst_cons_other _ _ _ hs]; exact .cons (Or.inl rfl) (ih (n + 1))

theorem foldl_inc_fields (u : PtType) : ∀ (w : List EvRec) (c : Counters),
    (w.foldl Counters.inc c).c1 = c.c1 + (tallyBy anyRec w).c1 ∧
    (w.foldl Counters.inc c).c2 = c.c2 + (tallyBy anyRec w).c2 ∧
    (w.foldl Counters.inc c).c3 = c.c3 + (tallyBy anyRec w).c3 ∧
    (w.foldl Counters.inc c).ty u = c.ty u + (tallyBy anyRec w).ty u := by
  intro w
  induction w with
  | nil => intro c; simp [tallyBy_ty]; simp [tallyBy]
  | cons r rs ih =>
    intro c
    have e1 := ih (c.inc r)
    have e2 := inc_fields c r u
    have e3 := tallyBy_cons_fields anyRec r rs u
    simp only [anyRec, Bool.true_and] at e3
    simp only [List.foldl_cons]
    omega

/-- marking the first `n` selected records adds exactly their tally to the `Written` tally -/
theorem markFirst_tally (u : PtType) : ∀ (l : List EvRec) (n : Nat),
    (tallyBy isWritten (markFirst n l)).c1 = (tallyBy isWritten l).c1 + (tallyBy anyRec ((l.filter isSelected).take n)).c1 ∧
    (tallyBy isWritten (markFirst n l)).c2 = (tallyBy isWritten l).c2 + (tallyBy anyRec ((l.filter isSelected).take n)).c2 ∧
    (tallyBy isWritten (markFirst n l)).c3 = (tallyBy isWritten l).c3 + (tallyBy anyRec ((l.filter isSelected).take n)).c3 ∧
    (tallyBy isWritten (markFirst n l)).ty u = (tallyBy isWritten l).ty u + (tallyBy anyRec ((l.filter isSelected).take n)).ty u := by
  intro l
  induction l with
  | nil => intro n; rw [markFirst_nil]; simp [tallyBy_ty]; simp [tallyBy]
  | cons r rs ih =>
    intro n
    cases n with
    | zero => simp [markFirst, tallyBy_ty]; simp [tallyBy]
    | succ n =>
      by_cases hs : r.st = .selected
      · have hsel : isSelected r = true := by simp [isSelected, hs]
        rw [markFirst_cons_sel _ _ _ hs]
        simp only [List.filter_cons, hsel, if_true, List.take_succ_cons]
        have e1 := tallyBy_cons_fields isWritten { r with st := .written } (markFirst n rs) u
        have e2 := tallyBy_cons_fields isWritten r rs u
        have e3 := tallyBy_cons_fields anyRec r ((rs.filter isSelected).take n) u
        have e4 := ih n
        have h1 : isWritten { r with st := .written } = true := rfl
        have h2 : isWritten r = false := by simp [isWritten, hs]
        simp only [h1, h2, anyRec, Bool.true_and, Bool.false_and, b2n_false] at e1 e2 e3
        omega
      · have hsel : isSelected r = false := by simp [isSelected, hs]
        rw [markFirst_cons_other _ _ _ hs]
        simp only [List.filter_cons, hsel]
        have e1 := tallyBy_cons_fields isWritten r (markFirst (n + 1) rs) u
        have e2 := tallyBy_cons_fields isWritten r rs u
        have e4 := ih (n + 1)
        simp only [Bool.false_eq_true, if_false]
        omega

/-- what `Db.writeEvents` does to the event buffer: the first `n` selected records become
    `Written`, `written` grows by their tally -/
theorem writeEvents_spec (db : Db) (cap : Nat) :
    ∃ n, (db.writeEvents cap).1.events = markFirst n db.events ∧
      (db.writeEvents cap).2.1 = (db.events.filter isSelected).take n ∧
      n = (db.writeEvents cap).2.1.length ∧
      (db.writeEvents cap).1.written = ((db.events.filter isSelected).take n).foldl Counters.inc db.written ∧
      (db.writeEvents cap).1.total = db.total ∧ (db.writeEvents cap).1.next = db.next ∧
      (db.writeEvents cap).1.evCfg = db.evCfg ∧ (db.writeEvents cap).1.overflown = db.overflown ∧
      (db.writeEvents cap).1.queue = db.queue ∧ (db.writeEvents cap).1.maps = db.maps ∧
      (db.writeEvents cap).1.czero = db.czero ∧ (db.writeEvents cap).1.selCap = db.selCap ∧
      ((db.writeEvents cap).2.2 = true → n = (db.events.filter isSelected).length) ∧
      ((db.writeEvents cap).2.2 = false → n < (db.events.filter isSelected).length) := by
  obtain ⟨i1, i2, i3, i4⟩ := evLoop_spec cap db.events 0 none
  refine ⟨(evLoop cap db.events 0 none).2.1.length, ?_⟩
  refine ⟨i1, i2, rfl, ?_, rfl, rfl, rfl, rfl, rfl, rfl, rfl, rfl, ?_, i4⟩
  · show (evLoop cap db.events 0 none).2.1.foldl Counters.inc db.written = _
    rw [← i2]
  · intro hc
    have : (evLoop cap db.events 0 none).2.1 = db.events.filter isSelected := i3 hc
    rw [this]

/-- records change only by `Selected` → `Written` -/
def EbWr (db db' : Db) : Prop :=
  Pointwise WrStep db.events db'.events ∧ db'.total = db.total ∧ db'.next = db.next ∧
  db'.evCfg = db.evCfg ∧ db'.overflown = db.overflown

theorem writeEvents_ordered (db : Db) (cap : Nat) (h : Ordered db) : Ordered (db.writeEvents cap).1 := by
  obtain ⟨n, h1, _, _, _, _, h6, _⟩ := writeEvents_spec db cap
  unfold Ordered at *
  rw [h1, h6]
  exact ordered_of_ids _ ((markFirst_pointwise db.events n).map_eq (·.id) (fun a b hs => core_id hs.core)) h

theorem writeEvents_total (db : Db) (cap : Nat) (h : TotalExact db) : TotalExact (db.writeEvents cap).1 := by
  obtain ⟨n, h1, _, _, _, h5, _⟩ := writeEvents_spec db cap
  unfold TotalExact at *
  rw [h1, h5, h]
  exact (tallyBy_congr anyRec (fun a b hs => ⟨hs.core, rfl⟩) (markFirst_pointwise db.events n)).symm

theorem writeEvents_written (db : Db) (cap : Nat) (h : WrittenExact db) :
    WrittenExact (db.writeEvents cap).1 := by
  obtain ⟨n, h1, _, _, h4, _⟩ := writeEvents_spec db cap
  unfold WrittenExact at *
  rw [h1, h4, h]
  refine Counters.ext' fun u => ?_
  have e1 := foldl_inc_fields u ((db.events.filter isSelected).take n) (tallyBy isWritten db.events)
  have e2 := markFirst_tally u db.events n
  omega

/-! ## `reset`, `clearWritten` -/

theorem reset_pointwise (l : List EvRec) :
    Pointwise (fun a b => b = { a with st := .unselected }) l (l.map (fun r => { r with st := .unselected })) := by
  induction l with
  | nil => exact .nil
  | cons r rs ih => exact .cons rfl ih

theorem tallyBy_none (p : EvRec → Bool) (l : List EvRec) (h : ∀ r ∈ l, p r = false) : tallyBy p l = {} := by
  induction l with
  | nil => rfl
  | cons r rs ih =>
    refine Counters.ext' fun u => ?_
    have e := tallyBy_cons_fields p r rs u
    rw [ih (fun x hx => h x (List.mem_cons_of_mem _ hx)), h r (List.mem_cons_self ..)] at e
    simp only [Bool.false_and, b2n_false] at e
    simp only [] at e ⊢
    omega

/-- `reset` releases nothing and returns every record to `Unselected` -/
theorem reset_spec (db : Db) :
    db.reset.events = db.events.map (fun r => { r with st := .unselected }) ∧
    db.reset.events.map core = db.events.map core ∧
    (∀ r ∈ db.reset.events, r.st = .unselected) ∧
    db.reset.total = db.total ∧ db.reset.written = {} ∧ db.reset.next = db.next ∧
    db.reset.evCfg = db.evCfg ∧ db.reset.overflown = db.overflown ∧ db.reset.queue = [] := by
  refine ⟨rfl, ?_, ?_, rfl, rfl, rfl, rfl, rfl, rfl⟩
  · exact (reset_pointwise db.events).map_eq core (fun a b hb => by rw [hb]; rfl)
  · intro r hr
    simp only [Db.reset, List.mem_map] at hr
    obtain ⟨a, _, rfl⟩ := hr
    rfl

theorem reset_ordered (db : Db) (h : Ordered db) : Ordered db.reset := by
  unfold Ordered at *
  exact ordered_of_ids _ ((reset_pointwise db.events).map_eq (·.id) (fun a b hb => by rw [hb])) h

theorem reset_total (db : Db) (h : TotalExact db) : TotalExact db.reset := by
  unfold TotalExact at *
  show db.total = _
  rw [h]
  exact (tallyBy_congr anyRec (fun a b hb => by rw [hb]; exact ⟨rfl, rfl⟩) (reset_pointwise db.events)).symm

/-- `reset` re-establishes `WrittenExact` whatever the state was (it heals D3) -/
theorem reset_written (db : Db) : WrittenExact db.reset := by
  unfold WrittenExact
  show ({} : Counters) = _
  rw [tallyBy_none]
  intro r hr
  have := (reset_spec db).2.2.1 r hr
  simp [isWritten, this]

theorem foldl_dec_fields (u : PtType) : ∀ (g : List EvRec) (c : Counters),
    (g.foldl Counters.dec c).c1 = c.c1 - (tallyBy anyRec g).c1 ∧
    (g.foldl Counters.dec c).c2 = c.c2 - (tallyBy anyRec g).c2 ∧
    (g.foldl Counters.dec c).c3 = c.c3 - (tallyBy anyRec g).c3 ∧
    (g.foldl Counters.dec c).ty u = c.ty u - (tallyBy anyRec g).ty u := by
  intro g
  induction g with
  | nil => intro c; simp [tallyBy_ty]; simp [tallyBy]
  | cons r rs ih =>
    intro c
    have e1 := ih (c.dec r)
    have e2 := dec_fields c r u
    have e3 := tallyBy_cons_fields anyRec r rs u
    simp only [anyRec, Bool.true_and] at e3
    simp only [List.foldl_cons]
    obtain ⟨a1, a2, a3, a4⟩ := e1
    obtain ⟨b1, b2, b3, b4⟩ := e2
    obtain ⟨c1, c2, c3, c4⟩ := e3
    refine ⟨?_, ?_, ?_, ?_⟩
    · clear a2 a3 a4 b2 b3 b4 c2 c3 c4; omega
    · clear a1 a3 a4 b1 b3 b4 c1 c3 c4; omega
    · clear a1 a2 a4 b1 b2 b4 c1 c2 c4; omega
    · clear a1 a2 a3 b1 b2 b3 c1 c2 c3; omega

theorem tallyBy_filter_split (q : EvRec → Bool) (l : List EvRec) (u : PtType) :
    (tallyBy anyRec l).c1 = (tallyBy anyRec (l.filter q)).c1 + (tallyBy anyRec (l.filter (fun r => !q r))).c1 ∧
    (tallyBy anyRec l).c2 = (tallyBy anyRec (l.filter q)).c2 + (tallyBy anyRec (l.filter (fun r => !q r))).c2 ∧
    (tallyBy anyRec l).c3 = (tallyBy anyRec (l.filter q)).c3 + (tallyBy anyRec (l.filter (fun r => !q r))).c3 ∧
    (tallyBy anyRec l).ty u = (tallyBy anyRec (l.filter q)).ty u + (tallyBy anyRec (l.filter (fun r => !q r))).ty u := by
  induction l with
  | nil => simp [tallyBy_ty]; simp [tallyBy]
  | cons r rs ih =>
    have e0 := tallyBy_cons_fields anyRec r rs u
    cases hq : q r
    · have e1 := tallyBy_cons_fields anyRec r (rs.filter (fun r => !q r)) u
      simp only [List.filter_cons, hq, Bool.not_false, if_true, Bool.false_eq_true, if_false]
      omega
    · have e1 := tallyBy_cons_fields anyRec r (rs.filter q) u
      simp only [List.filter_cons, hq, Bool.not_true, if_true, Bool.false_eq_true, if_false]
      omega

/-- `clearWritten` removes exactly the `Written` records and reports their ids in list order -/
theorem clear_spec (db : Db) :
    db.clearWritten.1.events = db.events.filter (fun r => !isWritten r) ∧
    db.clearWritten.2.1 = (db.events.filter isWritten).map (·.id) ∧
    db.clearWritten.1.written = {} ∧ db.clearWritten.1.next = db.next ∧
    db.clearWritten.1.evCfg = db.evCfg ∧
    db.clearWritten.1.total = (db.events.filter isWritten).foldl Counters.dec db.total ∧
    db.clearWritten.2.2 = (db.clearWritten.1.total.c1, db.clearWritten.1.total.c2, db.clearWritten.1.total.c3) ∧
    db.clearWritten.1.queue = db.queue ∧ db.clearWritten.1.maps = db.maps ∧ db.clearWritten.1.czero = db.czero := by
  unfold Db.clearWritten
  simp only []
  have hf : (fun r : EvRec => r.st != EvState.written) = (fun r => !isWritten r) := by
    funext r; simp [isWritten, bne]
  have hg : (fun r : EvRec => r.st == EvState.written) = isWritten := rfl
  split <;> simp only [hf, hg] <;> (repeat' constructor)

theorem clear_ordered (db : Db) (h : Ordered db) : Ordered db.clearWritten.1 := by
  obtain ⟨h1, _, _, h4, _⟩ := clear_spec db
  obtain ⟨hp, hn⟩ := h
  unfold Ordered
  rw [h1, h4]
  exact ⟨hp.sublist List.filter_sublist, fun r hr => hn r (List.mem_filter.mp hr).1⟩

theorem clear_total (db : Db) (h : TotalExact db) : TotalExact db.clearWritten.1 := by
  obtain ⟨h1, _, _, _, _, h6, _⟩ := clear_spec db
  unfold TotalExact at *
  rw [h1, h6, h]
  refine Counters.ext' fun u => ?_
  have e1 := foldl_dec_fields u (db.events.filter isWritten) (tallyBy anyRec db.events)
  have e2 := tallyBy_filter_split isWritten db.events u
  omega

/-- `clearWritten` re-establishes `WrittenExact` whatever the state was (it heals D3) -/
theorem clear_written (db : Db) : WrittenExact db.clearWritten.1 := by
  obtain ⟨h1, _, h3, _⟩ := clear_spec db
  unfold WrittenExact
  rw [h1, h3, tallyBy_none]
  intro r hr
  have := (List.mem_filter.mp hr).2
  simpa using this

/-! ## response writing: event-buffer part -/

theorem writeResponse_eb (db : Db) (cap : Nat) : EbEq (db.writeEvents cap).1 (db.writeResponse cap).1 := by
  unfold Db.writeResponse
  simp only []
  split <;> exact ⟨rfl, rfl, rfl, rfl, rfl, rfl⟩

/-- the event-buffer state after `write_unsolicited` is: reset, select the classes, then either
    nothing (no record selected) or `write_events` -/
theorem writeUnsolicited_eb (db : Db) (c1 c2 c3 : Bool) (cap : Nat) :
    ∃ dbs, EbSel db.reset dbs ∧
      ((db.writeUnsolicited c1 c2 c3 cap).1 = dbs ∨
       (db.writeUnsolicited c1 c2 c3 cap).1 = (dbs.writeEvents cap).1) := by
  unfold Db.writeUnsolicited
  simp only []
  refine ⟨{ db.reset with events := (selectEvents (fun r => (c1 && r.cls == 1) || (c2 && r.cls == 2) || (c3 && r.cls == 3)) none none db.reset.events).1 },
    ⟨selectEvents_pointwise _ _ _ _, rfl, rfl, rfl, rfl, rfl⟩, ?_⟩
  split
  · left; rfl
  · right; rfl

/-! ## every operation preserves the invariants -/

theorem ordered_step (db : Db) (op : DbOp) (h : Ordered db) : Ordered (step db op) := by
  cases op with
  | add t idx cls => exact (add_eb db t idx cls).ordered h
  | update t idx v f tm => exact update_ordered db t idx v f tm h
  | select hd => exact (select_sel db hd).ordered h
  | write cap => exact (writeResponse_eb db cap).ordered (writeEvents_ordered db cap h)
  | unsol c1 c2 c3 cap =>
    obtain ⟨dbs, hs, he | he⟩ := writeUnsolicited_eb db c1 c2 c3 cap
    · show Ordered (db.writeUnsolicited c1 c2 c3 cap).1
      rw [he]; exact hs.ordered (reset_ordered db h)
    · show Ordered (db.writeUnsolicited c1 c2 c3 cap).1
      rw [he]; exact writeEvents_ordered _ _ (hs.ordered (reset_ordered db h))
  | clear => exact clear_ordered db h
  | reset => exact reset_ordered db h

theorem total_step (db : Db) (op : DbOp) (h : TotalExact db) : TotalExact (step db op) := by
  cases op with
  | add t idx cls => exact (add_eb db t idx cls).total h
  | update t idx v f tm => exact update_total db t idx v f tm h
  | select hd => exact (select_sel db hd).total h
  | write cap => exact (writeResponse_eb db cap).total (writeEvents_total db cap h)
  | unsol c1 c2 c3 cap =>
    obtain ⟨dbs, hs, he | he⟩ := writeUnsolicited_eb db c1 c2 c3 cap
    · show TotalExact (db.writeUnsolicited c1 c2 c3 cap).1
      rw [he]; exact hs.total (reset_total db h)
    · show TotalExact (db.writeUnsolicited c1 c2 c3 cap).1
      rw [he]; exact writeEvents_total _ _ (hs.total (reset_total db h))
  | clear => exact clear_total db h
  | reset => exact reset_total db h

theorem written_step (db : Db) (op : DbOp) (h : WrittenExact db) : WrittenExact (step db op) := by
  cases op with
  | add t idx cls => exact (add_eb db t idx cls).written h
  | update t idx v f tm => exact update_written db t idx v f tm h
  | select hd => exact (select_sel db hd).written h
  | write cap => exact (writeResponse_eb db cap).written (writeEvents_written db cap h)
  | unsol c1 c2 c3 cap =>
    obtain ⟨dbs, hsel, he | he⟩ := writeUnsolicited_eb db c1 c2 c3 cap
    · show WrittenExact (db.writeUnsolicited c1 c2 c3 cap).1
      rw [he]; exact hsel.written (reset_written db)
    · show WrittenExact (db.writeUnsolicited c1 c2 c3 cap).1
      rw [he]; exact writeEvents_written _ _ (hsel.written (reset_written db))
  | clear => exact clear_written db
  | reset => exact reset_written db

instance (db : Db) : Decidable (TotalExact db) := by unfold TotalExact; exact inferInstance
instance (db : Db) : Decidable (WrittenExact db) := by unfold WrittenExact; exact inferInstance
instance (db : Db) : Decidable (CountersExact db) := by unfold CountersExact; exact inferInstance
instance (db : Db) : Decidable (Ordered db) := by unfold Ordered; exact inferInstance

/-- in an `Ordered` buffer a record is determined by its id -/
theorem ordered_id_inj {l : List EvRec} (hp : l.Pairwise (fun a b => a.id < b.id)) {x r : EvRec}
    (hx : x ∈ l) (hr : r ∈ l) (hid : x.id = r.id) : x = r := by
  induction l with
  | nil => simp at hx
  | cons a as ih =>
    obtain ⟨h1, h2⟩ := List.pairwise_cons.mp hp
    rcases List.mem_cons.mp hx with rfl | hx' <;> rcases List.mem_cons.mp hr with rfl | hr'
    · rfl
    · exact absurd hid (Nat.ne_of_lt (h1 r hr'))
    · exact absurd hid.symm (Nat.ne_of_lt (h1 x hx'))
    · exact ih h2 hx' hr'

theorem newCfg_ordered (ev : TyVec Nat) (cz : TyVec Bool) (sel : Option Nat) : Ordered (Db.newCfg ev cz sel) := by
  simp [Ordered, Db.newCfg]
theorem newCfg_total (ev : TyVec Nat) (cz : TyVec Bool) (sel : Option Nat) : TotalExact (Db.newCfg ev cz sel) := rfl
theorem newCfg_written (ev : TyVec Nat) (cz : TyVec Bool) (sel : Option Nat) :
    WrittenExact (Db.newCfg ev cz sel) := rfl

theorem new_ordered (evMax : Nat) (sel : Option Nat) : Ordered (Db.new evMax sel) := newCfg_ordered _ _ sel
theorem new_total (evMax : Nat) (sel : Option Nat) : TotalExact (Db.new evMax sel) := newCfg_total _ _ sel
theorem new_written (evMax : Nat) (sel : Option Nat) : WrittenExact (Db.new evMax sel) := newCfg_written _ _ sel

theorem ordered_run (db : Db) (ops : List DbOp) (h : Ordered db) : Ordered (run db ops) := by
  induction ops generalizing db with
  | nil => exact h
  | cons op ops ih => exact ih _ (ordered_step db op h)

theorem total_run (db : Db) (ops : List DbOp) (h : TotalExact db) : TotalExact (run db ops) := by
  induction ops generalizing db with
  | nil => exact h
  | cons op ops ih => exact ih _ (total_step db op h)

theorem written_run (db : Db) (ops : List DbOp) (h : WrittenExact db) : WrittenExact (run db ops) := by
  induction ops generalizing db with
  | nil => exact h
  | cons op ops ih => exact ih _ (written_step db op h)

theorem counters_step (db : Db) (op : DbOp) (h : CountersExact db) : CountersExact (step db op) :=
  ⟨total_step db op h.1, written_step db op h.2⟩

theorem counters_run (db : Db) (ops : List DbOp) (h : CountersExact db) : CountersExact (run db ops) :=
  ⟨total_run db ops h.1, written_run db ops h.2⟩

theorem newCfg_counters (ev : TyVec Nat) (cz : TyVec Bool) (sel : Option Nat) :
    CountersExact (Db.newCfg ev cz sel) :=
  ⟨newCfg_total ev cz sel, newCfg_written ev cz sel⟩

theorem new_counters (evMax : Nat) (sel : Option Nat) : CountersExact (Db.new evMax sel) :=
  ⟨new_total evMax sel, new_written evMax sel⟩

/-! ## `kept`: nothing but a reported overflow discard and `clearWritten` removes a record -/

/-- `r` survives in `l'` (same id, index, class, type, measurement, default variation) -/
def SurvivesIn (r : EvRec) (l' : List EvRec) : Prop := ∃ r' ∈ l', core r' = core r

theorem survives_of_map_core {l l' : List EvRec} (h : l'.map core = l.map core) (r : EvRec) (hr : r ∈ l) :
    SurvivesIn r l' := by
  have : core r ∈ l.map core := List.mem_map.mpr ⟨r, hr, rfl⟩
  rw [← h] at this
  obtain ⟨r', hr', he⟩ := List.mem_map.mp this
  exact ⟨r', hr', he⟩

theorem survives_trans {r r' : EvRec} {l : List EvRec} (h : core r' = core r) (h2 : SurvivesIn r' l) :
    SurvivesIn r l := by
  obtain ⟨x, hx, he⟩ := h2
  exact ⟨x, hx, he.trans h⟩

theorem EbSel.survives {db db' : Db} (h : EbSel db db') (r : EvRec) (hr : r ∈ db.events) :
    SurvivesIn r db'.events :=
  survives_of_map_core (h.1.map_eq core (fun _ _ hs => hs.core.1)) r hr

theorem writeEvents_survives (db : Db) (cap : Nat) (r : EvRec) (hr : r ∈ db.events) :
    SurvivesIn r (db.writeEvents cap).1.events := by
  obtain ⟨n, h1, _⟩ := writeEvents_spec db cap
  rw [h1]
  exact survives_of_map_core ((markFirst_pointwise db.events n).map_eq core (fun a b hs => hs.core)) r hr

theorem reset_survives (db : Db) (r : EvRec) (hr : r ∈ db.events) : SurvivesIn r db.reset.events :=
  survives_of_map_core (reset_spec db).2.1 r hr

/-- an insert keeps every record except the one it reports as discarded -/
theorem insert_survives (db : Db) (idx cls : Nat) (t : PtType) (m : Meas) (dv : Nat) (r : EvRec)
    (hr : r ∈ db.events) :
    SurvivesIn r (db.insert idx cls t m dv).1.events ∨
    ∃ c, (db.insert idx cls t m dv).2 = .overflow c r.id := by
  rcases insert_cases db idx cls t m dv with ⟨_, he⟩ | ⟨_, d, rest, hfull, hrem, he⟩ | ⟨_, _, he⟩
  · rw [he]; exact Or.inl ⟨r, hr, rfl⟩
  · rw [he]
    obtain ⟨_, pre, post, hl, hrest, _⟩ := removeFirstTy_spec t _ _ _ hrem
    rw [hl] at hr
    rcases List.mem_append.mp hr with h | h
    · exact Or.inl ⟨r, by simp [hrest, h], rfl⟩
    · rcases List.mem_cons.mp h with h | h
      · right; exact ⟨db.next, by rw [h]⟩
      · exact Or.inl ⟨r, by simp [hrest, h], rfl⟩
  · rw [he]; exact Or.inl ⟨r, by simp [hr], rfl⟩

/-- the only ways a record leaves the buffer -/
def Lost (db : Db) (op : DbOp) (r : EvRec) : Prop :=
  match op with
  | .update t idx v f tm => ∃ c, (db.update t idx v f tm).2 = .overflow c r.id
  | .clear => r.id ∈ db.clearWritten.2.1
  | _ => False

/-- `kept`: after any operation every record is still in the buffer with its identity and
    contents, unless the operation was an update that REPORTED it as the overflow discard, or a
    `clearWritten` that reported its id as released -/
theorem kept (db : Db) (op : DbOp) (r : EvRec) (hr : r ∈ db.events) :
    SurvivesIn r (step db op).events ∨ Lost db op r := by
  cases op with
  | add t idx cls =>
    left; show SurvivesIn r (db.add t idx cls).1.events
    rw [(add_eb db t idx cls).1]; exact ⟨r, hr, rfl⟩
  | update t idx v f tm =>
    show SurvivesIn r (db.update t idx v f tm).1.events ∨ ∃ c, (db.update t idx v f tm).2 = .overflow c r.id
    obtain ⟨db0, he, h1 | h1 | ⟨t', idx', cls, m, dv, h1⟩⟩ := update_spec_enc db t idx v f tm <;> rw [h1]
    · left; simp only []; rw [he.1]; exact ⟨r, hr, rfl⟩
    · left; simp only []; rw [he.1]; exact ⟨r, hr, rfl⟩
    · have hr0 : r ∈ db0.events := by rw [he.1]; exact hr
      rcases insert_survives db0 idx' cls t' m dv r hr0 with h | ⟨c, h⟩
      · exact Or.inl h
      · right; exact ⟨c, by simp only [h, infoOf]⟩
  | select hd => exact Or.inl ((select_sel db hd).survives r hr)
  | write cap =>
    left; show SurvivesIn r (db.writeResponse cap).1.events
    rw [(writeResponse_eb db cap).1]; exact writeEvents_survives db cap r hr
  | unsol c1 c2 c3 cap =>
    left; show SurvivesIn r (db.writeUnsolicited c1 c2 c3 cap).1.events
    obtain ⟨dbs, hs, he | he⟩ := writeUnsolicited_eb db c1 c2 c3 cap <;> rw [he]
    · obtain ⟨r1, hr1, e1⟩ := reset_survives db r hr
      exact survives_trans e1 (hs.survives r1 hr1)
    · obtain ⟨r1, hr1, e1⟩ := reset_survives db r hr
      obtain ⟨r2, hr2, e2⟩ := hs.survives r1 hr1
      exact survives_trans (e2.trans e1) (writeEvents_survives dbs cap r2 hr2)
  | clear =>
    show SurvivesIn r db.clearWritten.1.events ∨ r.id ∈ db.clearWritten.2.1
    obtain ⟨h1, h2, _⟩ := clear_spec db
    rw [h1, h2]
    cases hw : isWritten r
    · left; exact ⟨r, List.mem_filter.mpr ⟨hr, by simp [hw]⟩, rfl⟩
    · right; exact List.mem_map.mpr ⟨r, List.mem_filter.mpr ⟨hr, hw⟩, rfl⟩
  | reset => exact Or.inl (reset_survives db r hr)

/-- the overflow discard is the OLDEST record of the type: everything before it in the buffer
    is of another type, and (with `Ordered`) every other record of the type has a larger id -/
theorem overflow_discards_oldest (db : Db) (idx cls : Nat) (t : PtType) (m : Meas) (dv : Nat) (c dId : Nat)
    (ho : Ordered db) (h : (db.insert idx cls t m dv).2 = .overflow c dId) :
    ∃ d ∈ db.events, d.id = dId ∧ d.ty = t ∧
      (db.insert idx cls t m dv).1.overflown = true ∧
      ∀ r ∈ db.events, r.ty = t → r ≠ d → d.id < r.id := by
  rcases insert_cases db idx cls t m dv with ⟨_, he⟩ | ⟨_, d, rest, hfull, hrem, he⟩ | ⟨_, _, he⟩
  · rw [he] at h; simp at h
  · rw [he] at h ⊢
    simp only [InsertResult.overflow.injEq] at h
    obtain ⟨hty, pre, post, hl, _, hpre⟩ := removeFirstTy_spec t _ _ _ hrem
    refine ⟨d, by rw [hl]; simp, h.2, hty, rfl, ?_⟩
    intro r hr hrt hne
    rw [hl] at hr
    have hp := ho.1
    rw [hl, List.pairwise_append] at hp
    rcases List.mem_append.mp hr with hm | hm
    · exact absurd hrt (hpre r hm)
    · rcases List.mem_cons.mp hm with hm | hm
      · exact absurd hm hne
      · exact (List.pairwise_cons.mp hp.2.1).1 r hm
  · rw [he] at h; simp at h

/-! ## internal indications (C13 component level) -/

theorem countP_split_written (q : EvRec → Bool) (l : List EvRec) :
    l.countP (fun r => anyRec r && q r) =
      l.countP (fun r => isWritten r && q r) + l.countP (fun r => !isWritten r && q r) := by
  induction l with
  | nil => rfl
  | cons r rs ih =>
    simp only [countP_cons_b2n]
    rw [ih]
    cases isWritten r <;> cases q r <;> simp [anyRec] <;> omega

/-- with exact counters the class bits tell the truth and the checked subtraction cannot panic:
    bit c is set iff the buffer holds a class-c record that is not `Written` -/
theorem class_bits_exact_of_counters (db : Db) (h : CountersExact db) :
    ∃ b1 b2 b3, db.unwrittenClasses = some (b1, b2, b3) ∧
      (b1 = true ↔ ∃ r ∈ db.events, r.cls = 1 ∧ r.st ≠ .written) ∧
      (b2 = true ↔ ∃ r ∈ db.events, r.cls = 2 ∧ r.st ≠ .written) ∧
      (b3 = true ↔ ∃ r ∈ db.events, r.cls = 3 ∧ r.st ≠ .written) := by
  obtain ⟨ht, hw⟩ := h
  unfold TotalExact at ht; unfold WrittenExact at hw
  have s1 := countP_split_written (fun r => r.cls == 1) db.events
  have s2 := countP_split_written (fun r => r.cls == 2) db.events
  have s3 := countP_split_written (fun r => r.cls == 3) db.events
  have key : ∀ k : Nat, (0 < db.events.countP (fun r => !isWritten r && r.cls == k)) ↔
      ∃ r ∈ db.events, r.cls = k ∧ r.st ≠ .written := by
    intro k
    rw [List.countP_pos_iff]
    constructor
    · rintro ⟨r, hr, hp⟩
      simp only [isWritten, Bool.and_eq_true, Bool.not_eq_true', beq_eq_false_iff_ne, beq_iff_eq] at hp
      exact ⟨r, hr, hp.2, hp.1⟩
    · rintro ⟨r, hr, hc, hs⟩
      refine ⟨r, hr, ?_⟩
      simp only [isWritten, Bool.and_eq_true, Bool.not_eq_true', beq_eq_false_iff_ne, beq_iff_eq]
      exact ⟨hs, hc⟩
  have t1 : db.total.c1 = db.events.countP (fun r => anyRec r && r.cls == 1) := by rw [ht]; rfl
  have t2 : db.total.c2 = db.events.countP (fun r => anyRec r && r.cls == 2) := by rw [ht]; rfl
  have t3 : db.total.c3 = db.events.countP (fun r => anyRec r && r.cls == 3) := by rw [ht]; rfl
  have w1 : db.written.c1 = db.events.countP (fun r => isWritten r && r.cls == 1) := by rw [hw]; rfl
  have w2 : db.written.c2 = db.events.countP (fun r => isWritten r && r.cls == 2) := by rw [hw]; rfl
  have w3 : db.written.c3 = db.events.countP (fun r => isWritten r && r.cls == 3) := by rw [hw]; rfl
  unfold Db.unwrittenClasses
  split
  · rename_i hc; omega
  · refine ⟨_, _, _, rfl, ?_, ?_, ?_⟩
    · rw [← key 1, decide_eq_true_iff]; omega
    · rw [← key 2, decide_eq_true_iff]; omega
    · rw [← key 3, decide_eq_true_iff]; omega

/-- the overflow flag is raised by every discard … -/
theorem overflow_set_on_discard (db : Db) (idx cls : Nat) (t : PtType) (m : Meas) (dv c d : Nat)
    (h : (db.insert idx cls t m dv).2 = .overflow c d) : (db.insert idx cls t m dv).1.isOverflown = true := by
  rcases insert_cases db idx cls t m dv with ⟨_, he⟩ | ⟨_, _, _, _, _, he⟩ | ⟨_, _, he⟩ <;> rw [he] at h ⊢
  · simp at h
  · rfl
  · simp at h

/-- … never lowered by an insert … -/
theorem overflow_kept_by_insert (db : Db) (idx cls : Nat) (t : PtType) (m : Meas) (dv : Nat)
    (h : db.isOverflown = true) : (db.insert idx cls t m dv).1.isOverflown = true := by
  rcases insert_cases db idx cls t m dv with ⟨_, he⟩ | ⟨_, _, _, _, _, he⟩ | ⟨_, _, he⟩ <;> rw [he]
  · exact h
  · rfl
  · exact h

/-- `is_any_full` with the generated `Insertable` rows resolved -/
theorem isAnyFull_eq (db : Db) :
    db.isAnyFull = Gen.DbT.isAnyFull.any fun t =>
      (db.evCfg.get t != 0 && decide (db.total.ty t ≥ db.evCfg.get t)) := by
  unfold Db.isAnyFull
  congr 1
  funext t
  simp only [Db.isFull, DbTables.insertable_own]

/-- … and after `clearWritten` it is set iff it was set and some type is still at capacity -/
theorem overflow_after_clear (db : Db) :
    db.clearWritten.1.isOverflown = (db.isOverflown && db.clearWritten.1.isAnyFull) := by
  unfold Db.clearWritten
  simp only []
  split
  · rename_i hf
    simp only [Db.isOverflown, hf, Bool.and_true]
  · rename_i hf
    simp only [Db.isOverflown]
    simp only [Bool.not_eq_true] at hf
    simp only [isAnyFull_eq] at hf ⊢
    rw [hf, Bool.and_false]

/-- with exact totals, "some type is at capacity" is a statement about the records -/
theorem isAnyFull_iff (db : Db) (h : TotalExact db) :
    db.isAnyFull = true ↔
      ∃ t, db.evCfg.get t ≠ 0 ∧ db.evCfg.get t ≤ db.events.countP (fun r => r.ty == t) := by
  unfold TotalExact at h
  have hc : ∀ t, db.total.ty t = db.events.countP (fun r => r.ty == t) := by
    intro t; rw [h, tallyBy_ty]; simp [anyRec]
  rw [isAnyFull_eq, List.any_eq_true]
  constructor
  · rintro ⟨t, _, ht⟩
    simp only [Bool.and_eq_true, bne_iff_ne, ne_eq, decide_eq_true_eq, hc] at ht
    exact ⟨t, ht.1, ht.2⟩
  · rintro ⟨t, h0, hle⟩
    refine ⟨t, DbTables.mem_isAnyFull t, ?_⟩
    simp only [Bool.and_eq_true, bne_iff_ne, ne_eq, decide_eq_true_eq, hc]
    exact ⟨h0, hle⟩

/-! ## the shared event list never exceeds its capacity

The library keeps all events in one `VecList` whose capacity is `EventBufferConfig::max_events` = the
sum of the per-type maxima; the model abstracts it to an unbounded `List`.  That is sound: no type
ever holds more records than its maximum (`TypeBounded`, an invariant), every record has exactly one
type, so the list is never longer than that sum. -/

/-- no type holds more events than its configured maximum -/
def TypeBounded (db : Db) : Prop := ∀ t, db.total.ty t ≤ db.evCfg.get t

theorem TypeBounded.of_eq {db db' : Db} (h1 : db'.total = db.total) (h2 : db'.evCfg = db.evCfg)
    (hb : TypeBounded db) : TypeBounded db' := by
  intro t; rw [h1, h2]; exact hb t

theorem EbEq.typeBounded {db db' : Db} (h : EbEq db db') (hb : TypeBounded db) : TypeBounded db' :=
  TypeBounded.of_eq h.2.1 h.2.2.2.2.1 hb
theorem EbSel.typeBounded {db db' : Db} (h : EbSel db db') (hb : TypeBounded db) : TypeBounded db' :=
  TypeBounded.of_eq h.2.1 h.2.2.2.2.1 hb

/-- an insert into a type below its maximum adds one; into a full type it replaces one -/
theorem insert_typeBounded (db : Db) (idx cls : Nat) (t : PtType) (m : Meas) (dv : Nat)
    (h : TotalExact db) (hb : TypeBounded db) : TypeBounded (db.insert idx cls t m dv).1 := by
  rcases insert_cases db idx cls t m dv with ⟨_, he⟩ | ⟨h0, d, rest, hfull, hrem, he⟩ | ⟨h0, hne, he⟩
  · rw [he]; exact hb
  · rw [he]
    intro u
    simp only
    have f1 := decTy_fields db.total t u
    have f2 := decCls_fields (db.total.decTy t) d.cls u
    have f3 := incCls_fields ((db.total.decTy t).decCls d.cls) cls u
    have f4 := incTy_fields (((db.total.decTy t).decCls d.cls).incCls cls) t u
    have hu := hb u
    by_cases htu : t = u
    · subst htu
      simp only [beq_self_eq_true, b2n_true] at f1 f4
      omega
    · have h' : (t == u) = false := by simpa using htu
      simp only [h', b2n_false] at f1 f4
      omega
  · rw [he]
    intro u
    simp only
    have f3 := incCls_fields db.total cls u
    have f4 := incTy_fields (db.total.incCls cls) t u
    have hu := hb u
    by_cases htu : t = u
    · subst htu
      simp only [beq_self_eq_true, b2n_true] at f4
      have hlt : db.total.ty t ≠ db.evCfg.get t := by
        rcases hne with hne | hnone
        · exact hne
        · intro hfull
          have hz : db.total.ty t = 0 := by
            unfold TotalExact at h
            rw [h, tallyBy_ty, List.countP_eq_zero]
            intro r hr
            have := removeFirstTy_none t _ hnone r hr
            simpa [anyRec] using this
          exact h0 (hfull ▸ hz)
      omega
    · have h' : (t == u) = false := by simpa using htu
      simp only [h', b2n_false] at f4
      omega

theorem updateOpt_typeBounded (db : Db) (t : PtType) (idx : Nat) (m : Meas) (o : UpdOpts) (h : TotalExact db)
    (hb : TypeBounded db) : TypeBounded (db.updateOpt t idx m o).1 := by
  obtain ⟨db0, he, h1 | h1 | ⟨p, _, _, h1⟩⟩ := updateOpt_spec db t idx m o <;> rw [h1]
  · exact he.typeBounded hb
  · exact he.typeBounded hb
  · exact insert_typeBounded _ _ _ _ _ _ (he.total h) (he.typeBounded hb)

theorem updateM_typeBounded (db : Db) (t : PtType) (idx : Nat) (m : Meas) (h : TotalExact db)
    (hb : TypeBounded db) : TypeBounded (db.updateM t idx m).1 := updateOpt_typeBounded db t idx m {} h hb

theorem writeEvents_typeBounded (db : Db) (cap : Nat) (hb : TypeBounded db) :
    TypeBounded (db.writeEvents cap).1 := by
  obtain ⟨n, _, _, _, _, h5, _, h7, _⟩ := writeEvents_spec db cap
  exact TypeBounded.of_eq h5 h7 hb

theorem reset_typeBounded (db : Db) (hb : TypeBounded db) : TypeBounded db.reset :=
  TypeBounded.of_eq (db := db) rfl rfl hb

theorem clear_typeBounded (db : Db) (hb : TypeBounded db) : TypeBounded db.clearWritten.1 := by
  obtain ⟨_, _, _, _, h5, h6, _⟩ := clear_spec db
  intro u
  rw [h5, h6]
  have e := (foldl_dec_fields u (db.events.filter isWritten) db.total).2.2.2
  have hu := hb u
  omega

/-- `TypeBounded` is an invariant (given exact totals) -/
theorem typeBounded_step (db : Db) (op : DbOp) (h : TotalExact db) (hb : TypeBounded db) :
    TypeBounded (step db op) := by
  cases op with
  | add t idx cls => exact (add_eb db t idx cls).typeBounded hb
  | update t idx v f tm => exact updateOpt_typeBounded db _ _ _ _ h hb
  | select hd => exact (select_sel db hd).typeBounded hb
  | write cap => exact (writeResponse_eb db cap).typeBounded (writeEvents_typeBounded db cap hb)
  | unsol c1 c2 c3 cap =>
    obtain ⟨dbs, hs, he | he⟩ := writeUnsolicited_eb db c1 c2 c3 cap
    · show TypeBounded (db.writeUnsolicited c1 c2 c3 cap).1
      rw [he]; exact hs.typeBounded (reset_typeBounded db hb)
    · show TypeBounded (db.writeUnsolicited c1 c2 c3 cap).1
      rw [he]; exact writeEvents_typeBounded _ _ (hs.typeBounded (reset_typeBounded db hb))
  | clear => exact clear_typeBounded db hb
  | reset => exact reset_typeBounded db hb

theorem typeBounded_run (db : Db) (ops : List DbOp) (h : TotalExact db) (hb : TypeBounded db) :
    TypeBounded (run db ops) := by
  induction ops generalizing db with
  | nil => exact hb
  | cons op ops ih => exact ih _ (total_step db op h) (typeBounded_step db op h hb)

theorem newCfg_typeBounded (ev : TyVec Nat) (cz : TyVec Bool) (sel : Option Nat) :
    TypeBounded (Db.newCfg ev cz sel) := by
  intro t
  simp [Db.newCfg, Counters.ty, TyVec.get_const]

/-- a fresh database satisfies both hypotheses of `typeBounded_step`, and so does every state reached
    from it -/
example : TotalExact (run (Db.newCfg (TyVec.const 1) (TyVec.const true) none)
      [.add .counter 0 1, .update .counter 0 5 1 0, .update .counter 0 6 1 0]) ∧
    TypeBounded (run (Db.newCfg (TyVec.const 1) (TyVec.const true) none)
      [.add .counter 0 1, .update .counter 0 5 1 0, .update .counter 0 6 1 0]) :=
  ⟨total_run _ _ (newCfg_total _ _ _), typeBounded_run _ _ (newCfg_total _ _ _) (newCfg_typeBounded _ _ _)⟩

/-- no operation changes the configured maxima -/
theorem insert_evCfg (db : Db) (idx cls : Nat) (t : PtType) (m : Meas) (dv : Nat) :
    (db.insert idx cls t m dv).1.evCfg = db.evCfg := by
  rcases insert_cases db idx cls t m dv with ⟨_, he⟩ | ⟨_, _, _, _, _, he⟩ | ⟨_, _, he⟩ <;> rw [he]

theorem evCfg_step (db : Db) (op : DbOp) : (step db op).evCfg = db.evCfg := by
  cases op with
  | add t idx cls => exact (add_eb db t idx cls).2.2.2.2.1
  | update t idx v f tm =>
    show (db.update t idx v f tm).1.evCfg = db.evCfg
    obtain ⟨db0, he, h1 | h1 | ⟨t', idx', cls, m, dv, h1⟩⟩ := update_spec_enc db t idx v f tm <;> rw [h1]
    · exact he.2.2.2.2.1
    · exact he.2.2.2.2.1
    · exact (insert_evCfg _ _ _ _ _ _).trans he.2.2.2.2.1
  | select hd => exact (select_sel db hd).2.2.2.2.1
  | write cap =>
    exact ((writeResponse_eb db cap).2.2.2.2.1).trans (writeEvents_spec db cap).choose_spec.2.2.2.2.2.2.1
  | unsol c1 c2 c3 cap =>
    show (db.writeUnsolicited c1 c2 c3 cap).1.evCfg = db.evCfg
    obtain ⟨dbs, hs, he | he⟩ := writeUnsolicited_eb db c1 c2 c3 cap <;> rw [he]
    · exact hs.2.2.2.2.1
    · exact ((writeEvents_spec dbs cap).choose_spec.2.2.2.2.2.2.1).trans hs.2.2.2.2.1
  | clear => exact (clear_spec db).2.2.2.2.1
  | reset => rfl

theorem evCfg_run (db : Db) (ops : List DbOp) : (run db ops).evCfg = db.evCfg := by
  induction ops generalizing db with
  | nil => rfl
  | cons op ops ih => exact (ih _).trans (evCfg_step db op)

theorem sum_map_add (ts : List PtType) (f g : PtType → Nat) :
    (ts.map fun t => f t + g t).sum = (ts.map f).sum + (ts.map g).sum := by
  induction ts with
  | nil => rfl
  | cons a as ih => simp only [List.map_cons, List.sum_cons, ih]; omega

theorem sum_map_le (ts : List PtType) (f g : PtType → Nat) (h : ∀ t, f t ≤ g t) :
    (ts.map f).sum ≤ (ts.map g).sum := by
  induction ts with
  | nil => exact Nat.le_refl _
  | cons a as ih => simp only [List.map_cons, List.sum_cons]; have := h a; omega

/-- summing "is `x` this type?" over a list of types counts the occurrences of `x` -/
theorem sum_map_b2n_eq_count (x : PtType) (ts : List PtType) :
    (ts.map fun t => b2n (x == t)).sum = ts.count x := by
  induction ts with
  | nil => rfl
  | cons a as ih =>
    simp only [List.map_cons, List.sum_cons, ih, List.count_cons]
    by_cases h : x = a
    · subst h; simp; omega
    · have h1 : (x == a) = false := by simpa using h
      have h2 : (a == x) = false := by simpa using Ne.symm h
      simp [h1, h2]

/-- every record has exactly one type: over a list that mentions every type once, the per-type counts
    add up to the length -/
theorem length_eq_sum_countP (ts : List PtType) (hts : ∀ t, ts.count t = 1) (l : List EvRec) :
    l.length = (ts.map fun t => l.countP (fun r => r.ty == t)).sum := by
  induction l with
  | nil =>
    have : ∀ ts : List PtType, (ts.map fun t => ([] : List EvRec).countP (fun r => r.ty == t)).sum = 0 := by
      intro ts; induction ts with
      | nil => rfl
      | cons a as ih => simp only [List.map_cons, List.sum_cons, ih]; rfl
    rw [this]; rfl
  | cons r rs ih =>
    have e : (fun t => (r :: rs).countP (fun r => r.ty == t)) =
        fun t => rs.countP (fun r => r.ty == t) + b2n (r.ty == t) := by
      funext t; exact countP_cons_b2n _ r rs
    rw [e, sum_map_add, ← ih, sum_map_b2n_eq_count, hts, List.length_cons]

/-- the capacity of the library's shared event `VecList` (`EventBufferConfig::max_events`, the sum of
    the per-type maxima) is never exceeded: abstracting it to an unbounded list loses nothing -/
theorem events_within_capacity (ev : TyVec Nat) (cz : TyVec Bool) (sel : Option Nat) (ops : List DbOp) :
    (run (Db.newCfg ev cz sel) ops).events.length ≤ (Gen.DbT.maxEventsSum.map fun t => ev.get t).sum := by
  have ht : TotalExact (run (Db.newCfg ev cz sel) ops) := total_run _ ops (newCfg_total ev cz sel)
  have hb : TypeBounded (run (Db.newCfg ev cz sel) ops) :=
    typeBounded_run _ ops (newCfg_total ev cz sel) (newCfg_typeBounded ev cz sel)
  have hc : (run (Db.newCfg ev cz sel) ops).evCfg = ev := evCfg_run _ ops
  rw [length_eq_sum_countP _ DbTables.maxEventsSum_each_once]
  apply sum_map_le
  intro t
  have := hb t
  unfold TotalExact at ht
  rw [hc, ht, tallyBy_ty] at this
  simpa [anyRec] using this

end Dnp3.DbProofs
