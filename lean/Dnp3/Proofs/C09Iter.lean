import Dnp3.Model.ObjectIter
import Dnp3.Proofs.C09Walk
/-! helper lemmas for `iter_agrees` (C09) -/
namespace Dnp3.App
open Dnp3.Gen

/-- a payload of exactly `size * n` octets is cut into exactly `n` objects of `size` octets whose
    concatenation is the payload -/
theorem chunks_spec (size n : Nat) (hs : 0 < size) : ∀ data : List Nat, data.length = size * n →
    (chunks size data).length = n ∧ (chunks size data).flatten = data ∧ ∀ c ∈ chunks size data, c.length = size := by
  induction n with
  | zero =>
    intro data hl
    have : data = [] := List.eq_nil_of_length_eq_zero (by simpa using hl)
    subst this
    rw [chunks]
    have hne : size ≠ 0 := by omega
    have h0 : ¬ (0 = size) := by omega
    simp [hne, h0]
  | succ n ih =>
    intro data hl
    have hge : size ≤ data.length := by rw [hl, Nat.mul_succ]; omega
    have htake : (data.take size).length = size := by simp [List.length_take]; omega
    have hdrop : (data.drop size).length = size * n := by simp [List.length_drop, hl, Nat.mul_succ]
    obtain ⟨h1, h2, h3⟩ := ih (data.drop size) hdrop
    rw [chunks]
    have hne : size ≠ 0 := by omega
    simp only [hne, ↓reduceDIte, htake]
    refine ⟨by simp [h1], by simp [h2], ?_⟩
    intro c hc
    rcases List.mem_cons.mp hc with hc | hc
    · subst hc; exact htake
    · exact h3 c hc

/-- `RangeIterator` indices: consecutive from `start` as long as they stay within u16 -/
theorem withIndices_spec (cs : List (List Nat)) : ∀ start, start + cs.length ≤ 65536 →
    (withIndices start cs).map (·.bytes) = cs ∧
    (withIndices start cs).map (·.index) = (List.range cs.length).map (fun i => some (start + i)) := by
  induction cs with
  | nil => intro s _; simp [withIndices]
  | cons c cs ih =>
    intro s hs
    simp only [List.length_cons] at hs
    have hmin : min (s + 1) 65535 = s + 1 ∨ cs = [] := by
      by_cases h : cs = []
      · exact Or.inr h
      · left
        have : 0 < cs.length := List.length_pos_iff.mpr h
        omega
    rcases hmin with hmin | hnil
    · obtain ⟨h1, h2⟩ := ih (s + 1) (by omega)
      simp only [withIndices, hmin, List.map_cons, h1, h2, List.length_cons, List.range_succ_eq_map, List.map_map]
      refine ⟨trivial, ?_⟩
      simp only [Nat.add_zero, List.cons.injEq, true_and]
      apply List.map_congr_left
      intro a _; simp only [Function.comp]; congr 1; omega
    · subst hnil
      simp [withIndices]

theorem take?_of_le {n : Nat} {bs : List Nat} (h : n ≤ bs.length) : take? n bs = some (bs.take n, bs.drop n) := by
  unfold take?
  have : (bs.take n).length = n := by simp [List.length_take]; omega
  simp [this]

/-- `RangedBytesIterator` never panics when the announced last index `index + rem - 1` is a u16 — whatever the
    payload (also a truncated one): the `index += 1` is only executed when another item remains -/
theorem iterRangedBytes_no_panic (size : Nat) : ∀ (rem : Nat) (data : List Nat) (index : Nat), index + rem ≤ 65536 →
    ∃ items, iterRangedBytes size data index rem = .ok items := by
  intro rem
  induction rem with
  | zero => intro data index _; exact ⟨[], by simp [iterRangedBytes]⟩
  | succ rem ih =>
    intro data index hle
    cases ht : take? size data with
    | none => exact ⟨[], by simp only [iterRangedBytes, ht]⟩
    | some pr =>
      obtain ⟨b, rest⟩ := pr
      by_cases hrem : 0 < rem
      · obtain ⟨items, hi⟩ := ih rest (index + 1) (by omega)
        have hlt : ¬ index ≥ 65535 := by omega
        exact ⟨⟨some index, b⟩ :: items, by simp only [iterRangedBytes, ht, hrem, hlt, ↓reduceIte, hi]⟩
      · obtain ⟨items, hi⟩ := ih rest index (by omega)
        exact ⟨⟨some index, b⟩ :: items, by simp only [iterRangedBytes, ht, hrem, ↓reduceIte, hi]⟩

/-- `RangedBytesIterator` over a payload of exactly `size * rem` octets starting at `index`, last index
    `index + rem - 1 ≤ 65535` (65535 included): all `rem` items come out, with consecutive indices, and their
    octets concatenate to the payload, `size` octets each -/
theorem iterRangedBytes_spec (size : Nat) : ∀ (rem : Nat) (data : List Nat) (index : Nat), data.length = size * rem →
    index + rem ≤ 65536 → ∃ items, iterRangedBytes size data index rem = .ok items ∧ items.length = rem ∧
        items.map (·.index) = (List.range rem).map (fun i => some (index + i)) ∧
        (items.map (·.bytes)).flatten = data ∧ ∀ it ∈ items, it.bytes.length = size := by
  intro rem
  induction rem with
  | zero =>
    intro data index hl _
    have : data = [] := List.eq_nil_of_length_eq_zero (by simpa using hl)
    subst this
    exact ⟨[], by simp [iterRangedBytes]⟩
  | succ rem ih =>
    intro data index hl hle
    have hge : size ≤ data.length := by rw [hl, Nat.mul_succ]; omega
    have hdrop : (data.drop size).length = size * rem := by simp [List.length_drop, hl, Nat.mul_succ]
    by_cases hrem : 0 < rem
    · obtain ⟨items, hi, hlen, hidx, hby, hsz⟩ := ih (data.drop size) (index + 1) hdrop (by omega)
      have hlt : ¬ index ≥ 65535 := by omega
      have htake : (data.take size).length = size := by simp [List.length_take]; omega
      refine ⟨⟨some index, data.take size⟩ :: items, ?_, by simp [hlen], ?_, ?_, ?_⟩
      · simp only [iterRangedBytes, take?_of_le hge, hrem, hlt, ↓reduceIte, hi]
      · simp only [List.map_cons, hidx, List.range_succ_eq_map, List.map_map, Nat.add_zero, List.cons.injEq, true_and]
        apply List.map_congr_left
        intro a _; simp only [Function.comp]; congr 1; omega
      · simp only [List.map_cons, List.flatten_cons, hby, List.take_append_drop]
      · intro it hit
        rcases List.mem_cons.mp hit with hit | hit
        · subst hit; exact htake
        · exact hsz it hit
    · have h0 : rem = 0 := by omega
      subst h0
      have hnil : data.drop size = [] := List.eq_nil_of_length_eq_zero (by simpa using hdrop)
      have htake : (data.take size).length = size := by simp [List.length_take]; omega
      refine ⟨[⟨some index, data.take size⟩], ?_, rfl, ?_, ?_, ?_⟩
      · simp only [iterRangedBytes, take?_of_le hge, Nat.lt_irrefl, ↓reduceIte]
      · simp
      · have := List.take_append_drop size data
        rw [hnil, List.append_nil] at this
        simp [this]
      · intro it hit
        rw [List.mem_singleton] at hit
        subst hit; exact htake

end Dnp3.App
