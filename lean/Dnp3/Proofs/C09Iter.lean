import Dnp3.Model.ObjectIter
import Dnp3.Proofs.C09Walk
/-! helper lemmas for `iter_agrees` (C09) -/
namespace Dnp3.App
open Dnp3.Gen

/-- a payload of exactly `size * n` octets is cut into exactly `n` objects of `size` octets whose
    concatenation is the payload -/
theorem chunks_spec (size n : Nat) (hs : 0 < size) : ∀ data : List Nat, data.length = size * n →
    (chunks size data).length = n ∧ (chunks size data).flatten = data ∧ ∀ c ∈ chunks size data, c.length = size := by
  induction n with
  | zero =>
    intro data hl
    have : data = [] := List.eq_nil_of_length_eq_zero (by simpa using hl)
    subst this
    rw [chunks]
    have hne : size ≠ 0 := by omega
    have h0 : ¬ (0 = size) := by omega
    simp [hne, h0]
  | succ n ih =>
    intro data hl
    have hge : size ≤ data.length := by rw [hl, Nat.mul_succ]; omega
    have htake : (data.take size).length = size := by simp [List.length_take]; omega
    have hdrop : (data.drop size).length = size * n := by simp [List.length_drop, hl, Nat.mul_succ]
    obtain ⟨h1, h2, h3⟩ := ih (data.drop size) hdrop
    rw [chunks]
    have hne : size ≠ 0 := by omega
    simp only [hne, ↓reduceDIte, htake]
    refine ⟨by simp [h1], by simp [h2], ?_⟩
    intro c hc
    rcases List.mem_cons.mp hc with hc | hc
    · subst hc; exact htake
    · exact h3 c hc

/-- `RangeIterator` indices: consecutive from `start` as long as they stay within u16 -/
theorem withIndices_spec (cs : List (List Nat)) : ∀ start, start + cs.length ≤ 65536 →
    (withIndices start cs).map (·.bytes) = cs ∧
    (withIndices start cs).map (·.index) = (List.range cs.length).map (fun i => some (start + i)) := by
  induction cs with
  | nil => intro s _; simp [withIndices]
  | cons c cs ih =>
    intro s hs
    simp only [List.length_cons] at hs
    have hmin : min (s + 1) 65535 = s + 1 ∨ cs = [] := by
      by_cases h : cs = []
      · exact Or.inr h
      · left
        have : 0 < cs.length := List.length_pos_iff.mpr h
        omega
    rcases hmin with hmin | hnil
    · obtain ⟨h1, h2⟩ := ih (s + 1) (by omega)
      simp only [withIndices, hmin, List.map_cons, h1, h2, List.length_cons, List.range_succ_eq_map, List.map_map]
      refine ⟨trivial, ?_⟩
      simp only [Nat.add_zero, List.cons.injEq, true_and]
      apply List.map_congr_left
      intro a _; simp only [Function.comp]; congr 1; omega
    · subst hnil
      simp [withIndices]

theorem take?_of_le {n : Nat} {bs : List Nat} (h : n ≤ bs.length) : take? n bs = some (bs.take n, bs.drop n) := by
  unfold take?
  have : (bs.take n).length = n := by simp [List.length_take]; omega
  simp [this]

/-- `RangedBytesIterator` over a payload of exactly `size * rem` octets starting at `index`: all `rem` items
    come out iff the last index is below 65535; otherwise the unguarded `index += 1` overflows (D2) -/
theorem iterRangedBytes_spec (size : Nat) : ∀ (rem : Nat) (data : List Nat) (index : Nat), data.length = size * rem →
    (index + rem ≤ 65535 → ∃ items, iterRangedBytes size data index rem = .ok items ∧ items.length = rem ∧
        items.map (·.index) = (List.range rem).map (fun i => some (index + i)) ∧
        (items.map (·.bytes)).flatten = data) ∧
    (0 < rem → index ≤ 65535 → index + rem > 65535 → iterRangedBytes size data index rem = .error .addOverflow) := by
  intro rem
  induction rem with
  | zero =>
    intro data index hl
    have : data = [] := List.eq_nil_of_length_eq_zero (by simpa using hl)
    subst this
    exact ⟨fun _ => ⟨[], by simp [iterRangedBytes]⟩, fun h => absurd h (by omega)⟩
  | succ rem ih =>
    intro data index hl
    have hge : size ≤ data.length := by rw [hl, Nat.mul_succ]; omega
    have hdrop : (data.drop size).length = size * rem := by simp [List.length_drop, hl, Nat.mul_succ]
    obtain ⟨ih1, ih2⟩ := ih (data.drop size) (index + 1) hdrop
    constructor
    · intro hle
      obtain ⟨items, hi, hlen, hidx, hby⟩ := ih1 (by omega)
      have hlt : ¬ index ≥ 65535 := by omega
      refine ⟨⟨some index, data.take size⟩ :: items, ?_, by simp [hlen], ?_, ?_⟩
      · simp only [iterRangedBytes, take?_of_le hge, hlt, ↓reduceIte, hi]
      · simp only [List.map_cons, hidx, List.range_succ_eq_map, List.map_map, Nat.add_zero, List.cons.injEq, true_and]
        apply List.map_congr_left
        intro a _; simp only [Function.comp]; congr 1; omega
      · simp only [List.map_cons, List.flatten_cons, hby, List.take_append_drop]
    · intro _ hidx hgt
      by_cases h65 : index ≥ 65535
      · simp only [iterRangedBytes, take?_of_le hge, h65, ↓reduceIte]
      · have hrem : 0 < rem := by omega
        have := ih2 hrem (by omega) (by omega)
        simp only [iterRangedBytes, take?_of_le hge, h65, ↓reduceIte, this]

end Dnp3.App
