import Dnp3.Model.TimeSync
import Dnp3.Model.Outstation
import Dnp3.Model.MasterSession
import Dnp3.Proofs.Master
/-!
# C18 — helper lemmas linking the master / outstation session models with `TimeSync`
-/
namespace Dnp3.Proofs.C18Link
open Dnp3 Dnp3.TimeSync

/-- the outcome the master reports for each `TimeSync` error -/
def syncOutcome : SyncError → Master.Outcome
  | .badOutstationDelay d => .tsBadDelay d
  | .overflow => .tsOverflow
  | .stillNeedsTime => .tsStillNeedsTime
  | .unexpectedObjects => .task .unexpectedHeaders
  | .noSystemTime => .tsNoSystemTime

/-- `TimeSyncTask` success bookkeeping: the promise completes with `Ok`, the automatic task becomes idle -/
def tsSuccess (a : Master.Acc) (dest : Nat) (uid : Option Nat) : Master.Acc :=
  match uid with
  | none => Master.modAssoc a dest (·.doneAuto .timeSync)
  | some u => Master.complete a u .ok

theorem syncOutcome_ne_ok (e : SyncError) : syncOutcome e ≠ .ok := by
  cases e <;> simp [syncOutcome]

/-- what `tsReportError` adds to the outputs -/
theorem tsReportError_outs (a : Master.Acc) (dest : Nat) (uid : Option Nat) (o : Master.Outcome) :
    (Master.tsReportError a dest uid o).2 =
      a.2 ++ (match uid with | none => [] | some u => [Master.MOut.complete u o]) := by
  cases uid <;> simp [Master.tsReportError, Master.modAssoc, Master.complete, Master.emit]

theorem tsSuccess_outs (a : Master.Acc) (dest : Nat) (uid : Option Nat) :
    (tsSuccess a dest uid).2 =
      a.2 ++ (match uid with | none => [] | some u => [Master.MOut.complete u .ok]) := by
  cases uid <;> simp [tsSuccess, Master.modAssoc, Master.complete, Master.emit]

theorem tsAdd_eq (c p : Nat) (hc : c ≤ maxTs) :
    tsAdd c p = if c + p > 281474976710655 then none else some (c + p) := by
  unfold tsAdd maxTs at *
  by_cases h : p > 281474976710655 - c
  · have : c + p > 281474976710655 := by omega
    simp [h, this]
  · have : ¬ c + p > 281474976710655 := by omega
    simp [h, this]

open Dnp3.Master (MOut Outcome Who ReadType validateNonRead badIin2 notifyLinkActivity modAssoc MState.getAssoc)


/-- the promise completions among a list of outputs -/
def completions (outs : List MOut) : List (Nat × Outcome) :=
  outs.filterMap fun o => match o with | .complete u oc => some (u, oc) | _ => none

theorem completions_append (x y : List MOut) : completions (x ++ y) = completions x ++ completions y := by
  simp [completions, List.filterMap_append]

/-- `b` differs from `a` only in the associations and in outputs that complete no promise -/
def Frame (a b : Master.Acc) : Prop :=
  b.1 = { a.1 with assocs := b.1.assocs } ∧ completions b.2 = completions a.2

theorem Frame.refl (a : Master.Acc) : Frame a a := ⟨rfl, rfl⟩

theorem Frame.trans {a b c : Master.Acc} (h1 : Frame a b) (h2 : Frame b c) : Frame a c := by
  refine ⟨?_, h2.2.trans h1.2⟩
  rw [h2.1, h1.1]

theorem frame_modAssoc (a : Master.Acc) (addr : Nat) (f : Master.Assoc → Master.Assoc) :
    Frame a (Master.modAssoc a addr f) := ⟨rfl, rfl⟩

def NotComplete (o : MOut) : Prop := ∀ u oc, o ≠ .complete u oc

theorem frame_emit (a : Master.Acc) (o : MOut) (h : NotComplete o) : Frame a (Master.emit a o) := by
  refine ⟨rfl, ?_⟩
  unfold Master.emit
  rw [completions_append]
  cases o <;> simp [completions]
  exact absurd rfl (h _ _)

theorem frame_deliverHeader (a : Master.Acc) (who : Who) (h : ObjHdr) : Frame a (Master.deliverHeader a who h) := by
  unfold Master.deliverHeader
  repeat' split
  all_goals first
    | exact Frame.refl _
    | exact frame_emit _ _ (by intro u oc h; cases h)

theorem frame_foldl_deliverHeader (who : Who) (hs : List ObjHdr) (a : Master.Acc) :
    Frame a (hs.foldl (fun a h => Master.deliverHeader a who h) a) := by
  induction hs generalizing a with
  | nil => exact Frame.refl _
  | cons h t ih => exact (frame_deliverHeader a who h).trans (ih _)

theorem frame_deliver (a : Master.Acc) (who : Who) (rt : ReadType) (r : Master.Resp) (hs : List ObjHdr) :
    Frame a (Master.deliver a who rt r hs) := by
  unfold Master.deliver
  exact ((frame_emit a _ (by intro u oc h; cases h)).trans (frame_foldl_deliverHeader who hs _)).trans
    (frame_emit _ _ (by intro u oc h; cases h))

macro "frame_step" : tactic => `(tactic| first
  | assumption
  | exact Frame.refl _
  | (refine Frame.trans ?_ (frame_emit _ _ (by intro u oc h; cases h)))
  | (refine Frame.trans ?_ (frame_modAssoc _ _ _))
  | (refine Frame.trans ?_ (frame_deliver _ _ _ _ _))
  | (refine Frame.trans ?_ (frame_foldl_deliverHeader _ _ _)))

/-- unsolicited handling touches only the associations and completes no promise -/
theorem doUnsolicited_frame (a : Master.Acc) (src : Nat) (r : Master.Resp) :
    Frame a (Master.doUnsolicited a src r) := by
  unfold Master.doUnsolicited
  split
  · exact Frame.refl _
  · dsimp only
    split
    · frame_step
    · rename_i x hx
      generalize Master.handleUnsolicited x.isIntegrityComplete x.lastUnsol r = d
      obtain ⟨v, du, de, co⟩ := d
      cases v <;> cases du <;> cases co <;> cases ho : r.objects <;>
        simp only [Bool.not_true, Bool.not_false, Bool.false_eq_true, if_true, if_false] <;>
        repeat frame_step

theorem validateNonRead_accept_iff (dest seq src : Nat) (r : Master.Resp) :
    validateNonRead dest seq src r = .accept ↔
      (r.unsol = false ∧ src = dest ∧ r.ctrl.seq = seq ∧ r.ctrl.fir = true ∧ r.ctrl.fin = true ∧
       badIin2 r.iin2 = false) := by
  unfold validateNonRead
  by_cases h1 : r.unsol <;> by_cases h2 : src = dest <;> by_cases h3 : r.ctrl.seq = seq <;>
    cases h4 : r.ctrl.fir <;> cases h5 : r.ctrl.fin <;> cases h6 : badIin2 r.iin2 <;> simp [h1, h2, h3]

theorem notify_getAssoc' (a : Master.Acc) (src dest : Nat) :
    ((notifyLinkActivity a src).1.getAssoc dest).isSome = (a.1.getAssoc dest).isSome := by
  unfold notifyLinkActivity modAssoc MState.getAssoc
  exact Dnp3.Proofs.Master.find_map_addr a.1.assocs _ (by intro y; split <;> rfl) dest


theorem u48_wire_round_trip (t : Nat) (ht : t ≤ maxTs) : Dnp3.u48le (Master.le48 t) = t := by
  unfold Dnp3.u48le Master.le48 maxTs at *
  simp only [List.getD_cons_zero, List.getD_cons_succ]
  omega


end Dnp3.Proofs.C18Link
