import Dnp3.Proofs.OutstationC03A
import Dnp3.Proofs.Database
import Dnp3.Model.Pair
import Dnp3.Proofs.Pair
/-!
# C02 — events: released only upon the awaited confirm; the stale-confirm counterexample (D32)

* `Ev.cleared`, `Reach.cleared`, `release_needs_awaited_confirm`: an `event_cleared id` callback among the outputs
  of ONE step of the outstation session model (any state, any input) is emitted at a confirm point of that step:
  the fragment the step looks at is a CONFIRM (function 0) whose UNS bit and sequence number are exactly those
  the session awaits (solicited series / DATA unsolicited series), and `id` is the id of a record that is
  `Written` in the database at that point.
* `d32`: kernel-checked run of the pair model (no `inject`, no `cut`, no overflow) in which an event record is
  released although no fragment carrying it was ever delivered to the master's handler: after sixteen READs
  whose answers are stalled on the wire the 4-bit sequence number wraps, the master accepts the OLD answer with
  sequence number 0 and its CONFIRM releases the events of the NEW answer with sequence number 0.
* `noLateResponse`: a decidable check on the group history of a cut-free, inject-free run ("every solicited
  response handed to the master was transmitted after the request the master sent last"); false on the D32 run,
  true on the same run without the stall.  Not proved to be sufficient for the at-least-once clause.
-/
namespace Dnp3.Proofs.C02Events
open Dnp3 Dnp3.Proofs.Frame Dnp3.Proofs.Skel Dnp3.Proofs.C03

theorem noConfirmCb_cleared {a a' : Acc} (h : NoConfirmCb a a') (id : Nat)
    (hm : OOut.cb (.eventCleared id) ∈ a'.2) : OOut.cb (.eventCleared id) ∈ a.2 := by
  obtain ⟨l, e, hl⟩ := h
  rw [e] at hm
  rcases List.mem_append.mp hm with h | h
  · exact h
  · exact absurd (by simp [OOut.kind, Cb.kind]) (hl _ h)

/-- an `event_cleared` callback is emitted by a primitive event of the session only at a confirm point, and then
    for the id of a record that is `Written` in the database at that point -/
theorem Ev.cleared {pf : Option Frag} {a a' : Acc} (h : Ev pf a a') (id : Nat)
    (hm : OOut.cb (.eventCleared id) ∈ a'.2) :
    OOut.cb (.eventCleared id) ∈ a.2 ∨ (ConfirmPoint pf a ∧ id ∈ a.1.db.clearWritten.2.1) := by
  cases h with
  | solConf sr dl c f ctrl objs raw hmo hq hu hs =>
    rw [clearWrittenEvents_eq] at hm
    rcases List.mem_append.mp hm with h1 | h2
    · rcases List.mem_append.mp h1 with h | h
      · exact .inl h
      · simp at h
    · rcases List.mem_append.mp h2 with h3 | h4
      · rcases List.mem_append.mp h3 with h | h
        · simp at h
        · obtain ⟨x, hx, e⟩ := List.mem_map.mp h
          have : x = id := by simpa using e
          subst this
          exact .inr ⟨⟨f, ctrl, objs, raw, hq, Or.inl ⟨sr, dl, c, hmo, hu, hs⟩⟩, hx⟩
      · simp at h4
  | unsolConf resp isNull retries dl f ctrl objs raw hmo hq hu hs =>
    cases isNull with
    | true =>
      left
      refine noConfirmCb_cleared (a := a) ?_ id hm
      exact ⟨[.cb (.unsolConfirmed resp.ctrl.seq)], rfl, by simp [OOut.kind, Cb.kind]⟩
    | false =>
      rw [afterUnsolSeries_data_confirmed, clearWrittenEvents_eq] at hm
      rcases List.mem_append.mp hm with h1 | h2
      · rcases List.mem_append.mp h1 with h | h
        · exact .inl h
        · simp at h
      · rcases List.mem_append.mp h2 with h3 | h4
        · rcases List.mem_append.mp h3 with h | h
          · simp at h
          · obtain ⟨x, hx, e⟩ := List.mem_map.mp h
            have : x = id := by simpa using e
            subst this
            exact .inr ⟨⟨f, ctrl, objs, raw, hq, Or.inr ⟨resp, retries, dl, hmo, hu, hs⟩⟩, hx⟩
        · simp at h4
  | house s' hh =>
    obtain ⟨n, l, lr, p, hp, e⟩ := hh
    subst e
    exact .inl hm
  | plainCb c hc =>
    refine .inl (noConfirmCb_cleared (NoConfirmCb.emit a _ ?_) id hm)
    cases c <;> simp_all [Cb.plain, OOut.kind, Cb.kind]
  | die => exact .inl (noConfirmCb_cleared (a := a) ⟨[.panic], rfl, by simp [OOut.kind]⟩ id hm)
  | wsol dst r a' r' hw => exact .inl (noConfirmCb_cleared (writeSolicited_nrel _ _ _ _ _ hw).2 id hm)
  | rsol dst r => exact .inl (noConfirmCb_cleared (NRel.ofFrame (repeatSolicited_frame _ _ _) rfl (by decide)).2 id hm)
  | dbReset => exact .inl hm
  | clrDeferred => exact .inl hm
  | reqIdle f ctrl func objs raw a' ser hq hh =>
    exact .inl (noConfirmCb_cleared (handleRequestFromIdle_nrel _ _ _ _ _ _ _ _ hh).2 id hm)
  | enterSol sr c => exact .inl (noConfirmCb_cleared (NRel.ofFrame (enterSolWait_frame _ _ _) rfl (by decide)).2 id hm)
  | setSolWait sr dl c => exact .inl hm
  | chkStart a' hc => exact .inl (noConfirmCb_cleared (ChkCase.nrel (checkUnsolicited_cases _ _ hc) a' (Or.inl rfl)).2 id hm)
  | chkIdle a' n hc => exact .inl (noConfirmCb_cleared (ChkCase.nrel (checkUnsolicited_cases _ _ hc) a' (Or.inr ⟨n, rfl⟩)).2 id hm)
  | defWait n a' hd => exact .inl (noConfirmCb_cleared (DefCase.nrel (handleDeferredRead_cases _ _ _ hd) a' (Or.inl rfl)).2 id hm)
  | defDone n a' hd => exact .inl (noConfirmCb_cleared (DefCase.nrel (handleDeferredRead_cases _ _ _ hd) a' (Or.inr rfl)).2 id hm)
  | finishPass n => exact .inl (noConfirmCb_cleared (NRel.ofFrame (finishPass_frame _ _) (finishPass_db _ _) (by decide)).2 id hm)
  | fmtRead fir seq iin2 => exact .inl hm
  | uwSolConfirm resp isNull retries dl f ctrl objs raw _ _ _ =>
    left
    split at hm
    · exact hm
    · exact hm
  | bcast f m ctrl func objs raw a' _ _ _ hp => exact .inl (noConfirmCb_cleared (processBroadcast_nrel _ _ _ _ _ _ _ _ hp).2 id hm)
  | uwBcastSeen resp isNull retries dl f m ctrl func objs raw _ _ _ _ _ => exact .inl hm
  | nonRead f ctrl func hs raw a' r _ _ _ _ hn => exact .inl (noConfirmCb_cleared (handleNonRead_nrel _ _ _ _ _ _ _ _ hn).2 id hm)
  | uwDisable resp isNull retries dl f ctrl hs raw _ _ =>
    exact .inl (noConfirmCb_cleared (afterUnsolSeries_unconfirmed _ _).2 id hm)
  | deferSet f ctrl hs raw _ _ => exact .inl hm
  | uwTimeoutEnd resp isNull retries dl _ _ =>
    left
    have h1 := noConfirmCb_cleared (afterUnsolSeries_unconfirmed (emitCb a (.unsolTimeout resp.ctrl.seq false)) isNull).2 id hm
    exact noConfirmCb_cleared (NoConfirmCb.emit a _ (by simp [OOut.kind, Cb.kind])) id h1
  | uwRetry resp isNull retries retries' dl _ _ _ =>
    left
    refine noConfirmCb_cleared (a := a) ⟨[.cb (.unsolTimeout resp.ctrl.seq true),
      .tx a.1.cfg.master ((writeAt a.1.unsolBuf 0 (respHeader resp)).take (max 4 resp.size))], ?_, ?_⟩ id hm
    · simp [repeatUnsolicited, emitCb, emit]
    · simp [OOut.kind, Cb.kind]

theorem Reach.cleared {pf : Option Frag} {a0 a : Acc} (h : Reach pf a0 a) (id : Nat)
    (hm : OOut.cb (.eventCleared id) ∈ a.2) :
    OOut.cb (.eventCleared id) ∈ a0.2 ∨
      ∃ b, Reach pf a0 b ∧ ConfirmPoint pf b ∧ id ∈ b.1.db.clearWritten.2.1 := by
  induction h with
  | refl => exact .inl hm
  | tail hab hbc ih =>
    rename_i b c
    rcases Ev.cleared hbc id hm with h1 | ⟨hcp, hid⟩
    · exact ih h1
    · exact .inr ⟨b, hab, hcp, hid⟩

/-- **an event is released only upon the confirm the session awaits.**  If one step of the outstation session
    model (any state `s`, any input) emits `event_cleared id`, then the step ran the session machinery
    (`StepInit`) on a fragment `pf` (`StepFrag`: for an `rx` input the fragment just received), and at some point
    `b` of the step (`Reach`) the session was at a confirm point: `pf` is a CONFIRM (function code 0), and either a
    solicited series awaits exactly its sequence number (UNS clear), or a DATA unsolicited series does (UNS set);
    and `id` is the id of a record that is `Written` in the database at that point (`clearWritten` releases
    exactly the `Written` records, `clear_releases_exactly_written`) -/
theorem release_needs_awaited_confirm (env : OEnv) (s : OState) (inp : OInput) (id : Nat)
    (hrel : OOut.cb (.eventCleared id) ∈ (Outstation.step env s inp).2) :
    ∃ pf s0 o0 b, StepInit env s inp pf s0 o0 ∧ StepFrag env s inp pf ∧ Reach pf (s0, o0) b ∧
      ConfirmPoint pf b ∧ id ∈ (b.1.db.events.filter DbProofs.isWritten).map (·.id) := by
  rcases step_reach env s inp with ⟨f, _, e⟩ | e | ⟨pf, s0, o0, hi, hr⟩
  · rw [e] at hrel; cases hrel
  · rw [e] at hrel; cases hrel
  · rcases Reach.cleared hr id hrel with h0 | ⟨b, hb, hcp, hid⟩
    · have := hi.keep.2 _ h0
      simp [OOut.kind, Cb.kind] at this
    · refine ⟨pf, s0, o0, b, hi, hi.frag, hb, hcp, ?_⟩
      rw [← (DbProofs.clear_spec b.1.db).2.1]
      exact hid

/-- a CONFIRM of a solicited fragment with sequence number 3 received while the session awaits exactly it -/
example : ConfirmPoint (some ⟨7, 1, none, [0xC3, 0]⟩)
    (({ OState.init {} 10 with mode := .solWait ⟨3, false⟩ 5000 .fromRequest } : OState), []) :=
  ⟨⟨7, 1, none, [0xC3, 0]⟩, ⟨true, true, false, false, 3⟩, parseObjects false 0 [], [], ⟨rfl, rfl⟩,
    Or.inl ⟨⟨3, false⟩, 5000, .fromRequest, rfl, rfl, rfl⟩⟩

/-! ## D32 — the counterexample to "every event not reported as discarded reaches the handler at least once" -/

section D32
open Dnp3.Pair Dnp3.DbM

/-- the start state of the D32 run: default outstation, ten events per type, the master's automatic tasks
    switched off (`dis = int = en = 0`), no wire delay -/
def d32Start : PState × List Group := Pair.start {} (legacyEv 10) {} 2048 { dis := 0, int := 0, en := 0 } none 0 0

/-- sixteen user READs of class 1 (sequence numbers 0 … 15), each followed by 6 s of silence -/
def d32Polls : List PInput :=
  (List.range 16).flatMap fun k => [PInput.user (.read (.single k 1 false)), .tick 6000]

def d32Ops : List PInput :=
  [.add .binary 0 1, .txn [.bin 0 true 1 100], .setHold false true] ++ d32Polls ++
  [.txn [.bin 0 false 1 200], .user (.read (.single 16 1 false)), .setHold false false]

/-- every `handle_*` call with data among the groups -/
def deliveriesOf (gs : List Group) : List Master.MOut :=
  gs.flatMap fun g => match g with
    | .m outs => outs.filter fun o => match o with | .deliverHdr .. => true | .deliverAbsTime .. => true | _ => false
    | _ => []

/-- every `event_cleared` id among the groups -/
def clearedOf (gs : List Group) : List Nat :=
  gs.flatMap fun g => match g with
    | .o outs => outs.filterMap fun o => match o with | .cb (.eventCleared id) => some id | _ => none
    | _ => []

def isInjectOrCut : PInput → Bool
  | .inject .. => true
  | .cut => true
  | _ => false

/-- **D32, kernel-checked.**  The run `d32Ops` from `d32Start` contains no `inject` and no `cut`.
    Before its last op (the release of the stalled direction) the outstation's event buffer holds the records
    with ids 0 (binary input 0 = 1) and 1 (binary input 0 = 0), both `Written`: carried by the answer to the 17th
    READ, which awaits its confirm.  Over the WHOLE run the master's handler receives exactly one `handle_*` call
    with data: g2v1 index 0, flags 0x81 — event 0.  The last op makes the outstation emit `event_cleared 0` and
    `event_cleared 1`; afterwards the buffer is empty and no overflow was ever flagged.  Record 1 was released and
    never delivered. -/
theorem events_at_least_once_counterexample :
    let r := Pair.run d32Start.1 d32Ops
    let r1 := Pair.run d32Start.1 d32Ops.dropLast
    d32Ops.all (fun op => !isInjectOrCut op) = true ∧
    r1.1.o.db.events.map (fun e => (e.id, e.index, e.m.value, e.st)) = [(0, 0, 1, .written), (1, 0, 0, .written)] ∧
    clearedOf (d32Start.2 ++ r1.2.flatten) = [] ∧
    deliveriesOf (d32Start.2 ++ r.2.flatten) = [.deliverHdr (.assoc 1024) 2 1 0x28 [(0, [0x81])]] ∧
    clearedOf (d32Start.2 ++ r.2.flatten) = [0, 1] ∧
    r.1.o.db.events = [] ∧ r.1.o.db.overflown = false ∧ r1.1.o.db.overflown = false := by
  decide +kernel

end D32

section Fresh
open Dnp3.Pair Dnp3.Proofs.Pair

/-! ## a decidable freshness check on the group history of a cut-free, inject-free run -/

/-- for every payload the outstation put on the wire, in order: the index of the group that transmitted it -/
def sentPosO (gs : List Group) : List Nat :=
  gs.zipIdx.flatMap fun gi => match gi.1 with
    | .o outs => (oPayloads outs).map fun _ => gi.2
    | _ => []

/-- is the payload a solicited response fragment (function code 0x81)? -/
def isSolResponse : Payload → Bool
  | .frag _ _ (_ :: 0x81 :: _) => true
  | _ => false

/-- does the master transmit a request (a fragment whose function code is not CONFIRM)? -/
def hasRequest (outs : List Master.MOut) : Bool :=
  outs.any fun o => match o with
    | .tx _ (_ :: f :: _) => f != 0
    | _ => false

/-- walk the history: `j` = payloads handed to the master so far, `lastReq` = index of the last group in which the
    master transmitted a request -/
def noLateGo (pos : List Nat) : List (Group × Nat) → Nat → Option Nat → Bool
  | [], _, _ => true
  | (g, i) :: rest, j, lastReq =>
    match g with
    | .m outs => noLateGo pos rest j (if hasRequest outs then some i else lastReq)
    | .delivered false items =>
      let ok := (items.zipIdx).all fun itk =>
        !isSolResponse itk.1.p ||
          (match lastReq with
           | none => true
           | some q => decide (q < pos.getD (j + itk.2) 0))
      ok && noLateGo pos rest (j + items.length) lastReq
    | _ => noLateGo pos rest j lastReq

/-- **"every solicited response handed to the master was transmitted after the request the master sent last"**,
    as a decidable predicate on the group history of a run WITHOUT `cut` and WITHOUT `inject` (there the `k`-th
    payload handed to the master is the `k`-th payload the outstation transmitted: the relay is FIFO and loses
    nothing).  It excludes the stale responses of D32; it is NOT proved here to imply (L1) -/
def noLateResponse (gs : List Group) : Bool := noLateGo (sentPosO gs) gs.zipIdx 0 none

/-- it fails on the D32 run … -/
example : noLateResponse (d32Start.2 ++ (Pair.run d32Start.1 d32Ops).2.flatten) = false := by decide +kernel

/-- … and holds on the same run without the stall (`setHold` ops removed): every answer arrives in time -/
example : noLateResponse (d32Start.2 ++ (Pair.run d32Start.1
    (d32Ops.filter fun op => match op with | .setHold .. => false | _ => true)).2.flatten) = true := by decide +kernel

end Fresh

end Dnp3.Proofs.C02Events
