import Lean
import Dnp3.Model.Pair
import Dnp3.Proofs.C18Link
/-!
# C18 / C2 — the LAN procedure over the PAIR model, by symbolic evaluation

Endpoint steps whose control flow does not depend on the symbolic times are closed by
`kernel_rfl` (the proof term is `Eq.refl lhs`; the kernel performs the definitional unfolding,
no axiom is involved).  The steps with time-dependent decisions (relay, response time-outs,
the 48-bit check of WRITE g50v3) are unfolded with generic lemmas.
-/
namespace Dnp3.Proofs.C18Pair
open Dnp3 Dnp3.Pair

open Lean Elab Tactic Meta in
/-- close `a = b` by `Eq.refl a`, leaving the definitional-equality check to the kernel -/
elab "kernel_rfl" : tactic => do
  let g ← getMainGoal
  let t ← whnfR (← g.getType)
  let some (_, lhs, _) := t.eq? | throwError "kernel_rfl: not an equality"
  g.assign (← mkEqRefl lhs)

/-! ## the relay -/

theorem pump_idle (f : Nat) (s : PState) (g : List Group)
    (h1 : dueCount s.now s.m2o.q = 0) (h2 : dueCount s.now s.o2m.q = 0) : pump (f + 1) s g = (s, g) := by
  rw [pump]; simp [h1, h2]

theorem pump_toO (f : Nat) (s : PState) (g : List Group) (k : Nat)
    (h1 : dueCount s.now s.m2o.q = k) (hk : 0 < k) :
    pump (f + 1) s g =
      pump f (deliverItems { s with m2o := { s.m2o with q := s.m2o.q.drop k, consumed := 0 } } true (s.m2o.q.take k)).1
        (g ++ (deliverItems { s with m2o := { s.m2o with q := s.m2o.q.drop k, consumed := 0 } } true (s.m2o.q.take k)).2) := by
  rw [pump]; simp [h1, hk]

theorem pump_toM (f : Nat) (s : PState) (g : List Group) (k : Nat)
    (h1 : dueCount s.now s.m2o.q = 0) (h2 : dueCount s.now s.o2m.q = k) (hk : 0 < k) :
    pump (f + 1) s g =
      pump f (deliverItems { s with o2m := { s.o2m with q := s.o2m.q.drop k, consumed := 0 } } false (s.o2m.q.take k)).1
        (g ++ (deliverItems { s with o2m := { s.o2m with q := s.o2m.q.drop k, consumed := 0 } } false (s.o2m.q.take k)).2) := by
  rw [pump]; simp [h1, h2, hk]

theorem tick_stop (f : Nat) (s : PState) (target t : Nat) (g : List Group)
    (h1 : nextDue s = some t) (h2 : t ≤ target) :
    tickLoop (f + 1) s target g =
      tickLoop f (pump pumpFuel (advance s (t - s.now)).1 (g ++ (advance s (t - s.now)).2)).1 target
        (pump pumpFuel (advance s (t - s.now)).1 (g ++ (advance s (t - s.now)).2)).2 := by
  rw [tickLoop]; simp [h1, h2]

theorem tick_done (f : Nat) (s : PState) (target t : Nat) (g : List Group)
    (h1 : nextDue s = some t) (h2 : ¬ t ≤ target) (h3 : ¬ target > s.now) :
    tickLoop (f + 1) s target g = (s, g) := by
  rw [tickLoop]; simp [h1, h2, h3]

theorem user_step (M M' : Master.MState) (O : OState) (env : OEnv) (n base dm db : Nat) (t : Master.Task)
    (outs : List Master.MOut) (dst' : Nat) (bytes : List Nat) (hdm : 0 < dm)
    (hM : Master.step { M with clock := masterClock (some base) n } (.user outstationAddr t) = (M', outs))
    (henq : ∀ s', enqM s' outs =
      { s' with m2o := s'.m2o.push s'.now (.frag masterAddr dst' bytes) (fragWire bytes.length) }) :
    Pair.step ⟨M, O, env, n, some base, ⟨dm, false, 0, []⟩, ⟨db, false, 0, []⟩⟩ (.user t) =
      (⟨M', O, env, n, some base,
        ⟨dm, false, 0, [⟨some (n + dm), fragWire bytes.length, .frag masterAddr dst' bytes⟩]⟩, ⟨db, false, 0, []⟩⟩,
       [.m outs]) := by
  have h1 : ¬ (n + dm ≤ n) := by omega
  simp only [Pair.step, mstep, hM, henq, pumpFuel]
  rw [pump_idle] <;> simp [dueCount, Dir.push, h1]

theorem tick_toO (M M' : Master.MState) (O O' O'' : OState) (env : OEnv) (n d base dm db len src dst : Nat)
    (data : List Nat) (outs : List OOut) (dst' : Nat) (bytes : List Nat) (hdb : 0 < db)
    (hM : Master.step { M with clock := masterClock (some base) (n + d) } (.tick d) = (M', []))
    (hO : Outstation.step env O (.tick d) = (O', []))
    (hrx : Outstation.step env O' (.rx src dst data) = (O'', outs))
    (henq : ∀ s', enqO s' outs =
      { s' with o2m := s'.o2m.push s'.now (.frag outstationAddr dst' bytes) (fragWire bytes.length) }) :
    Pair.step ⟨M, O, env, n, some base, ⟨dm, false, 0, [⟨some (n + d), len, .frag src dst data⟩]⟩, ⟨db, false, 0, []⟩⟩
        (.tick d) =
      (⟨M', O'', env, n + d, some base, ⟨dm, false, 0, []⟩,
        ⟨db, false, 0, [⟨some (n + d + db), fragWire bytes.length, .frag outstationAddr dst' bytes⟩]⟩⟩,
       [.time (n + d), .m [], .o [], .delivered true [⟨some (n + d), len, .frag src dst data⟩], .o outs]) := by
  have h1 : ¬ (n + d + db ≤ n + d) := by omega
  have e1 : n + d - n = d := by omega
  simp only [Pair.step, tickFuel]
  rw [tick_stop 199 _ _ (n + d) _ (by simp [nextDue]) (Nat.le_refl _)]
  have hadv : advance ⟨M, O, env, n, some base, ⟨dm, false, 0, [⟨some (n + d), len, .frag src dst data⟩]⟩, ⟨db, false, 0, []⟩⟩ (n + d - n) =
      (⟨M', O', env, n + d, some base, ⟨dm, false, 0, [⟨some (n + d), len, .frag src dst data⟩]⟩, ⟨db, false, 0, []⟩⟩,
       [.time (n + d), .m [], .o []]) := by
    simp [advance, mstep, ostep, e1, hM, hO, enqM, enqO]
  rw [hadv]
  simp only [pumpFuel]
  rw [pump_toO 399 _ _ 1 (by simp [dueCount]) (by decide)]
  have hdel : deliverItems ⟨M', O', env, n + d, some base, ⟨dm, false, 0, []⟩, ⟨db, false, 0, []⟩⟩ true
        [⟨some (n + d), len, .frag src dst data⟩] =
      (⟨M', O'', env, n + d, some base, ⟨dm, false, 0, []⟩,
        ⟨db, false, 0, [⟨some (n + d + db), fragWire bytes.length, .frag outstationAddr dst' bytes⟩]⟩⟩,
       [.delivered true [⟨some (n + d), len, .frag src dst data⟩], .o outs]) := by
    simp [deliverItems, ostep, hrx, henq, Dir.push]
  simp only [List.take, List.drop]
  rw [hdel]
  rw [pump_idle 398 _ _ (by simp [dueCount]) (by simp [dueCount, h1])]
  rw [tick_done 198 _ _ (n + d + db) _ (by simp [nextDue]) h1 (by simp)]
  simp

/-! ## the outstation's idle pass -/

/-- one idle pass that finds a request which needs no confirmation -/
theorem runPass_request (fuel : Nat) (a a2 : Dnp3.Acc) (s' : OState) (f : Frag) (ctrl : AppCtrl) (func : Nat)
    (objects : Except Nat (List ObjHdr)) (raw : List Nat)
    (hpop : popRequest { a.1 with notified := false } = (s', .request f ctrl func objects raw))
    (hreq : handleRequestFromIdle (onLinkActivity { s' with pending := none }, a.2) f ctrl func objects raw =
      some (a2, none)) :
    runPass (fuel + 1) a = afterRequest (runPass fuel) a2 := by
  rw [runPass]
  simp only [hpop, hreq]

/-- a new non-read request that is answered -/
theorem handleRequestFromIdle_newNonRead (a a1 a2 : Dnp3.Acc) (f : Frag) (ctrl : AppCtrl) (func : Nat)
    (objects : Except Nat (List ObjHdr)) (raw : List Nat) (hs : List ObjHdr) (r r2 : Dnp3.Resp)
    (hc : classify a.1 f ctrl func objects = .newNonRead hs)
    (hn : handleNonRead a func ctrl.seq f.id hs raw = some (a1, some r))
    (hw : writeSolicited a1 f.src r = some (a2, r2)) (hcon : r2.ctrl.con = false) :
    handleRequestFromIdle a f ctrl func objects raw =
      some (({ a2.1 with lastReq := some ⟨ctrl.seq, f.data, some r2, none⟩ }, a2.2), none) := by
  unfold handleRequestFromIdle
  simp only [hc, hn, hw, hcon]
  simp

/-- WRITE of g50v3 (count 1) when a time was recorded and the sum fits 48 bits -/
theorem handleNonRead_write_last (a : Dnp3.Acc) (seq fid t0 : Nat) (data raw : List Nat)
    (hr : a.1.lastRecorded = some t0) (hfit : ¬ Dnp3.u48le data + (a.1.now - t0) > 281474976710655) :
    handleNonRead a 2 seq fid [⟨50, 3, 7, 1, 0, data⟩] raw =
      some (emitCb ({ a.1 with lastRecorded := none }, a.2) (.writeTime (Dnp3.u48le data + (a.1.now - t0))),
            some { emptySolicited seq (timeResultIin a.1) with iin2 := timeResultIin a.1 ||| 0 }) := by
  simp [handleNonRead, handleWrite, handleWriteHeader, hr, hfit, objectsAllowed, emptySolicited]

/-! ## literal states and endpoint steps -/

def acfg : Master.ACfg := { dis := 0, int := 0, en := 0 }

/-- the master of the start configuration, up to the fields that change during the run -/
def Mlit (clk : Option Nat) (now seq live : Nat) (cr : Master.AutoState) (mode : Master.Mode) : Master.MState :=
  { txSize := 2048, now := now, clock := clk,
    assocs := [{ addr := 1024, cfg := acfg, seq := seq, auto := { clearRestart := cr } }],
    ring := [1024], mode := mode, live := live }

/-- the outstation of the start configuration, up to the fields that change during the run -/
def Olit (n : Nat) (rec : Option Nat) (lr : Option LastReq) (fid : Nat) (sb : List Nat) : OState :=
  { cfg := {}, script := {}, now := n, mode := .idle .untilEvent, restart := true, lastReq := lr,
    lastRecorded := rec, solBuf := sb, unsolBuf := List.replicate 2048 0, db := Db.new 10 none, frameId := fid }

/-- the master's clock of the pair at virtual time `n` (`Pair.masterClock`) -/
def mclk (base n : Nat) : Nat := min (base + n) Pair.maxTs

theorem masterClock_some (base n : Nat) : masterClock (some base) n = some (mclk base n) := rfl

theorem mclk_le (base n : Nat) : mclk base n ≤ 281474976710655 := Nat.min_le_right _ _

theorem mclk_le_self (base n : Nat) : mclk base n ≤ base + n := Nat.min_le_left _ _

theorem mclk_eq (base n : Nat) (h : base + n ≤ 281474976710655) : mclk base n = base + n := Nat.min_eq_left h

def S0 (base a b : Nat) : PState :=
  { m := Mlit (some (mclk base 0)) 0 0 0 .idle (.idle none), o := Olit 0 none none 0 (List.replicate 2048 0), env := {}, now := 0,
    base := some base, m2o := { delay := a }, o2m := { delay := b } }

theorem start_eq (base a b : Nat) :
    (Pair.start {} 10 {} 2048 acfg (some base) a b).1 = S0 base a b := by kernel_rfl

def tsk : Master.NonReadTask := .timeSync (some 7) (.recordCurrent none)

theorem m_user (clk : Nat) :
    Master.step (Mlit (some clk) 0 0 0 .idle (.idle none)) (.user 1024 (.nonRead tsk)) =
      (Mlit (some clk) 0 1 1 .idle (.waitNonRead 1024 (.timeSync (some 7) (.recordCurrent (some clk))) 0 24 (0 + 5000)),
       [.taskStart 1024 .timeSync 24 0, .tx 1024 [192, 24]]) := by kernel_rfl

theorem m_rx1 (clk : Option Nat) (n t dl : Nat) :
    Master.step (Mlit clk n 1 1 .idle (.waitNonRead 1024 (.timeSync (some 7) (.recordCurrent (some t))) 0 24 dl))
        (.rx 1024 1 [192, 129, 128, 0]) =
      (Mlit clk n 2 1 .pending (.waitNonRead 1024 (.timeSync (some 7) (.writeLast t)) 1 24 (n + 5000)),
       [.tx 1024 ([193, 2, 50, 3, 7, 1] ++ Master.le48 t)]) := by kernel_rfl

theorem m_rx2 (clk : Option Nat) (n t dl : Nat) :
    Master.step (Mlit clk n 2 1 .pending (.waitNonRead 1024 (.timeSync (some 7) (.writeLast t)) 1 24 dl))
        (.rx 1024 1 [193, 129, 128, 0]) =
      (Mlit clk n 3 0 .pending (.waitNonRead 1024 (.auto .clearRestart 0) 2 2 (n + 5000)),
       [.complete 7 .ok, .taskSuccess 1024 .timeSync 24 1, .taskStart 1024 .clearRestartBit 2 2,
        .tx 1024 [194, 2, 80, 1, 0, 7, 7, 0]]) := by kernel_rfl

theorem o_rx1 (n : Nat) (sb : List Nat) :
    Outstation.step {} (Olit n none none 0 sb) (.rx 1 1024 [192, 24]) =
      (Olit n (some n) (some ⟨0, [192, 24], some ⟨⟨true, true, false, false, 0⟩, 129, 128, 0, 0⟩, none⟩) 1
        (writeAt sb 0 [192, 129, 128, 0]),
       [.tx 1 [192, 129, 128, 0]]) := by kernel_rfl

def lr1 : LastReq := ⟨0, [192, 24], some ⟨⟨true, true, false, false, 0⟩, 129, 128, 0, 0⟩, none⟩

def wfrag (v : Nat) : List Nat := [193, 2, 50, 3, 7, 1] ++ Master.le48 v
def wreq (v : Nat) : Frag := ⟨1, 1, none, wfrag v⟩
def wresp : Dnp3.Resp := ⟨⟨true, true, false, false, 1⟩, 129, 128, 0, 0⟩

theorem o_write_pass (n t0 v : Nat) (sb : List Nat) (hv : v ≤ 281474976710655) (hfit : v + (n - t0) ≤ 281474976710655) :
    runPass 64 ({ Olit n (some t0) (some lr1) 2 sb with pending := some (wreq v) }, []) =
    .blocked (Olit n none (some ⟨1, wfrag v, some wresp, none⟩) 2 (writeAt sb 0 [193, 129, 128, 0]),
     [.cb (.writeTime (v + (n - t0))), .tx 1 [193, 129, 128, 0]]) := by
  have hu : Dnp3.u48le (Master.le48 v) = v := Dnp3.Proofs.C18Link.u48_wire_round_trip v hv
  have hno : ¬ (Dnp3.u48le (Master.le48 v) + (n - t0) > 281474976710655) := by rw [hu]; omega
  have hpop : popRequest { ({ Olit n (some t0) (some lr1) 2 sb with pending := some (wreq v) } : OState) with notified := false } =
      ({ Olit n (some t0) (some lr1) 2 sb with pending := some (wreq v) },
       .request (wreq v) ⟨true, true, false, false, 1⟩ 2 (.ok [⟨50, 3, 7, 1, 0, Master.le48 v⟩]) ([50, 3, 7, 1] ++ Master.le48 v)) := by
    kernel_rfl
  have hc : classify (onLinkActivity { ({ Olit n (some t0) (some lr1) 2 sb with pending := some (wreq v) } : OState) with pending := none })
      (wreq v) ⟨true, true, false, false, 1⟩ 2 (.ok [⟨50, 3, 7, 1, 0, Master.le48 v⟩]) =
      .newNonRead [⟨50, 3, 7, 1, 0, Master.le48 v⟩] := by kernel_rfl
  have hn := handleNonRead_write_last (Olit n (some t0) (some lr1) 2 sb, []) 1 1 t0 (Master.le48 v)
    ([50, 3, 7, 1] ++ Master.le48 v) rfl hno
  have hw : writeSolicited (emitCb ({ (Olit n (some t0) (some lr1) 2 sb) with lastRecorded := none }, [])
        (.writeTime (Dnp3.u48le (Master.le48 v) + (n - t0)))) 1
        { emptySolicited 1 (timeResultIin (Olit n (some t0) (some lr1) 2 sb)) with
          iin2 := timeResultIin (Olit n (some t0) (some lr1) 2 sb) ||| 0 } =
      some ((Olit n none (some lr1) 2 (writeAt sb 0 [193, 129, 128, 0]),
             [.cb (.writeTime (Dnp3.u48le (Master.le48 v) + (n - t0))), .tx 1 [193, 129, 128, 0]]), wresp) := by
    kernel_rfl
  have hreq := handleRequestFromIdle_newNonRead
    (onLinkActivity { ({ Olit n (some t0) (some lr1) 2 sb with pending := some (wreq v) } : OState) with pending := none }, [])
    _ _ (wreq v) ⟨true, true, false, false, 1⟩ 2 (.ok [⟨50, 3, 7, 1, 0, Master.le48 v⟩]) ([50, 3, 7, 1] ++ Master.le48 v)
    _ _ _ hc hn hw rfl
  rw [runPass_request 63 _ _ _ _ _ _ _ _ hpop hreq, hu]
  kernel_rfl


/-- the whole step: WRITE g50v3 carrying `v` reaches the idle outstation at `n`, `t0` was recorded -/
theorem o_write (n t0 v : Nat) (sb : List Nat) (hv : v ≤ 281474976710655) (hfit : v + (n - t0) ≤ 281474976710655) :
    Outstation.step {} (Olit n (some t0) (some lr1) 1 sb) (.rx 1 1024 (wfrag v)) =
      (Olit n none (some ⟨1, wfrag v, some wresp, none⟩) 2 (writeAt sb 0 [193, 129, 128, 0]),
       [.cb (.writeTime (v + (n - t0))), .tx 1 [193, 129, 128, 0]]) := by
  have h1 : Outstation.step {} (Olit n (some t0) (some lr1) 1 sb) (.rx 1 1024 (wfrag v)) =
      finishStep (settle 8 (runPass 64 ({ Olit n (some t0) (some lr1) 2 sb with pending := some (wreq v) }, []))) := by
    kernel_rfl
  rw [h1, o_write_pass n t0 v sb hv hfit]
  kernel_rfl

theorem o_tick (n d : Nat) (rec : Option Nat) (lr : Option LastReq) (fid : Nat) (sb : List Nat) :
    Outstation.step {} (Olit n rec lr fid sb) (.tick d) = (Olit (n + d) rec lr fid sb, []) := by kernel_rfl

/-- no response time-out while the deadline is in the future -/
theorem m_tick (clk : Option Nat) (n d seq live : Nat) (cr : Master.AutoState) (dest : Nat) (t : Master.NonReadTask)
    (sq fc dl : Nat) (h : n + d < dl) :
    Master.step (Mlit clk n seq live cr (.waitNonRead dest t sq fc dl)) (.tick d) =
      (Mlit clk (n + d) seq live cr (.waitNonRead dest t sq fc dl), []) := by
  have h' : ¬ dl ≤ n + d := by omega
  simp [Master.step, Mlit, Master.onTime, Master.resolve, Master.loopFuel, Master.checkShutdown, h']

theorem tick_toM (M M' M'' : Master.MState) (O O' : OState) (env : OEnv) (n d base dm db len src dst : Nat)
    (data : List Nat) (outs : List Master.MOut) (dst' : Nat) (bytes : List Nat) (hdm : 0 < dm)
    (hM : Master.step { M with clock := masterClock (some base) (n + d) } (.tick d) = (M', []))
    (hO : Outstation.step env O (.tick d) = (O', []))
    (hrx : Master.step { M' with clock := masterClock (some base) (n + d) } (.rx src dst data) = (M'', outs))
    (henq : ∀ s', enqM s' outs =
      { s' with m2o := s'.m2o.push s'.now (.frag masterAddr dst' bytes) (fragWire bytes.length) }) :
    Pair.step ⟨M, O, env, n, some base, ⟨dm, false, 0, []⟩, ⟨db, false, 0, [⟨some (n + d), len, .frag src dst data⟩]⟩⟩
        (.tick d) =
      (⟨M'', O', env, n + d, some base,
        ⟨dm, false, 0, [⟨some (n + d + dm), fragWire bytes.length, .frag masterAddr dst' bytes⟩]⟩, ⟨db, false, 0, []⟩⟩,
       [.time (n + d), .m [], .o [], .delivered false [⟨some (n + d), len, .frag src dst data⟩], .m outs]) := by
  have h1 : ¬ (n + d + dm ≤ n + d) := by omega
  have e1 : n + d - n = d := by omega
  simp only [Pair.step, tickFuel]
  rw [tick_stop 199 _ _ (n + d) _ (by simp [nextDue]) (Nat.le_refl _)]
  have hadv : advance ⟨M, O, env, n, some base, ⟨dm, false, 0, []⟩, ⟨db, false, 0, [⟨some (n + d), len, .frag src dst data⟩]⟩⟩ (n + d - n) =
      (⟨M', O', env, n + d, some base, ⟨dm, false, 0, []⟩, ⟨db, false, 0, [⟨some (n + d), len, .frag src dst data⟩]⟩⟩,
       [.time (n + d), .m [], .o []]) := by
    simp [advance, mstep, ostep, e1, hM, hO, enqM, enqO]
  rw [hadv]
  simp only [pumpFuel]
  rw [pump_toM 399 _ _ 1 (by simp [dueCount]) (by simp [dueCount]) (by decide)]
  have hdel : deliverItems ⟨M', O', env, n + d, some base, ⟨dm, false, 0, []⟩, ⟨db, false, 0, []⟩⟩ false
        [⟨some (n + d), len, .frag src dst data⟩] =
      (⟨M'', O', env, n + d, some base,
        ⟨dm, false, 0, [⟨some (n + d + dm), fragWire bytes.length, .frag masterAddr dst' bytes⟩]⟩, ⟨db, false, 0, []⟩⟩,
       [.delivered false [⟨some (n + d), len, .frag src dst data⟩], .m outs]) := by
    simp [deliverItems, mstep, hrx, henq, Dir.push]
  simp only [List.take, List.drop]
  rw [hdel]
  rw [pump_idle 398 _ _ (by simp [dueCount, h1]) (by simp [dueCount])]
  rw [tick_done 198 _ _ (n + d + dm) _ (by simp [nextDue]) h1 (by simp)]
  simp

theorem run6 (s0 s1 s2 s3 s4 s5 s6 : PState) (i1 i2 i3 i4 i5 i6 : PInput) (g1 g2 g3 g4 g5 g6 : List Group)
    (e1 : Pair.step s0 i1 = (s1, g1)) (e2 : Pair.step s1 i2 = (s2, g2)) (e3 : Pair.step s2 i3 = (s3, g3))
    (e4 : Pair.step s3 i4 = (s4, g4)) (e5 : Pair.step s4 i5 = (s5, g5)) (e6 : Pair.step s5 i6 = (s6, g6)) :
    Pair.run s0 [i1, i2, i3, i4, i5, i6] = (s6, [g1, g2, g3, g4, g5, g6]) := by
  simp only [Pair.run, e1, e2, e3, e4, e5, e6]

/-- the ops of the LAN scenario -/
def lanOps (a b c : Nat) : List PInput :=
  [.user (.nonRead (.timeSync (some 7) (.recordCurrent none))), .setDelay true c, .tick a, .tick b, .tick c, .tick b]

/-- the complete observable trace of the LAN scenario -/
theorem lan_pair_trace (base a b c : Nat) (ha : 0 < a) (hb : 0 < b) (hc : 0 < c)
    (h1 : a + b < 5000) (h2 : c + b < 5000) (hfit : base + (b + c) ≤ 281474976710655) :
    (Pair.run (S0 base a b) (lanOps a b c)).2 =
      [ [.m [.taskStart 1024 .timeSync 24 0, .tx 1024 [192, 24]]],
        [],
        [.time (0 + a), .m [], .o [], .delivered true [⟨some (0 + a), 15, .frag 1 1024 [192, 24]⟩],
         .o [.tx 1 [192, 129, 128, 0]]],
        [.time (0 + a + b), .m [], .o [], .delivered false [⟨some (0 + a + b), 17, .frag 1024 1 [192, 129, 128, 0]⟩],
         .m [.tx 1024 (wfrag (mclk base 0))]],
        [.time (0 + a + b + c), .m [], .o [],
         .delivered true [⟨some (0 + a + b + c), 25, .frag 1 1024 (wfrag (mclk base 0))⟩],
         .o [.cb (.writeTime (mclk base 0 + (0 + a + b + c - (0 + a)))), .tx 1 [193, 129, 128, 0]]],
        [.time (0 + a + b + c + b), .m [], .o [],
         .delivered false [⟨some (0 + a + b + c + b), 17, .frag 1024 1 [193, 129, 128, 0]⟩],
         .m [.complete 7 .ok, .taskSuccess 1024 .timeSync 24 1, .taskStart 1024 .clearRestartBit 2 2,
             .tx 1024 [194, 2, 80, 1, 0, 7, 7, 0]]] ] := by
  have hk1 := mclk_le base 0
  have hk2 := mclk_le_self base 0
  have e1 := user_step (Mlit (some (mclk base 0)) 0 0 0 .idle (.idle none)) _ (Olit 0 none none 0 (List.replicate 2048 0)) {} 0 base a b
    (.nonRead tsk) _ 1024 [192, 24] ha (m_user (mclk base 0)) (by intro s'; rfl)
  have e2 : Pair.step ⟨Mlit (some (mclk base 0)) 0 1 1 .idle (.waitNonRead 1024 (.timeSync (some 7) (.recordCurrent (some (mclk base 0)))) 0 24 (0 + 5000)),
      Olit 0 none none 0 (List.replicate 2048 0), {}, 0, some base,
      ⟨a, false, 0, [⟨some (0 + a), fragWire [192, 24].length, .frag masterAddr 1024 [192, 24]⟩]⟩, ⟨b, false, 0, []⟩⟩ (.setDelay true c) =
      (⟨Mlit (some (mclk base 0)) 0 1 1 .idle (.waitNonRead 1024 (.timeSync (some 7) (.recordCurrent (some (mclk base 0)))) 0 24 (0 + 5000)),
      Olit 0 none none 0 (List.replicate 2048 0), {}, 0, some base,
      ⟨c, false, 0, [⟨some (0 + a), fragWire [192, 24].length, .frag masterAddr 1024 [192, 24]⟩]⟩, ⟨b, false, 0, []⟩⟩, []) := rfl
  have e3 := tick_toO (Mlit (some (mclk base 0)) 0 1 1 .idle (.waitNonRead 1024 (.timeSync (some 7) (.recordCurrent (some (mclk base 0)))) 0 24 (0 + 5000)))
    _ (Olit 0 none none 0 (List.replicate 2048 0)) _ _ {} 0 a base c b (fragWire [192, 24].length) masterAddr 1024 [192, 24]
    _ 1 [192, 129, 128, 0] hb
    (m_tick (some (mclk base (0 + a))) 0 a 1 1 .idle 1024 _ 0 24 (0 + 5000) (by omega))
    (o_tick 0 a none none 0 _) (o_rx1 (0 + a) _) (by intro s'; rfl)
  have e4 := tick_toM
    (Mlit (some (mclk base (0 + a))) (0 + a) 1 1 .idle (.waitNonRead 1024 (.timeSync (some 7) (.recordCurrent (some (mclk base 0)))) 0 24 (0 + 5000)))
    _ _ (Olit (0 + a) (some (0 + a)) (some lr1) 1 (writeAt (List.replicate 2048 0) 0 [192, 129, 128, 0])) _ {}
    (0 + a) b base c b (fragWire [192, 129, 128, 0].length) outstationAddr 1 [192, 129, 128, 0]
    _ 1024 (wfrag (mclk base 0)) hc
    (m_tick (some (mclk base (0 + a + b))) (0 + a) b 1 1 .idle 1024 _ 0 24 (0 + 5000) (by omega))
    (o_tick (0 + a) b _ _ 1 _) (m_rx1 (some (mclk base (0 + a + b))) (0 + a + b) (mclk base 0) (0 + 5000)) (by intro s'; rfl)
  have e5 := tick_toO
    (Mlit (some (mclk base (0 + a + b))) (0 + a + b) 2 1 .pending (.waitNonRead 1024 (.timeSync (some 7) (.writeLast (mclk base 0))) 1 24 (0 + a + b + 5000)))
    _ (Olit (0 + a + b) (some (0 + a)) (some lr1) 1 (writeAt (List.replicate 2048 0) 0 [192, 129, 128, 0])) _ _ {}
    (0 + a + b) c base c b (fragWire (wfrag (mclk base 0)).length) masterAddr 1024 (wfrag (mclk base 0))
    _ 1 [193, 129, 128, 0] hb
    (m_tick (some (mclk base (0 + a + b + c))) (0 + a + b) c 2 1 .pending 1024 _ 1 24 (0 + a + b + 5000) (by omega))
    (o_tick (0 + a + b) c _ _ 1 _) (o_write (0 + a + b + c) (0 + a) (mclk base 0) _ (by omega) (by omega)) (by intro s'; rfl)
  have e6 := tick_toM
    (Mlit (some (mclk base (0 + a + b + c))) (0 + a + b + c) 2 1 .pending (.waitNonRead 1024 (.timeSync (some 7) (.writeLast (mclk base 0))) 1 24 (0 + a + b + 5000)))
    _ _ (Olit (0 + a + b + c) none (some ⟨1, wfrag (mclk base 0), some wresp, none⟩) 2
          (writeAt (writeAt (List.replicate 2048 0) 0 [192, 129, 128, 0]) 0 [193, 129, 128, 0])) _ {}
    (0 + a + b + c) b base c b (fragWire [193, 129, 128, 0].length) outstationAddr 1 [193, 129, 128, 0]
    _ 1024 [194, 2, 80, 1, 0, 7, 7, 0] hc
    (m_tick (some (mclk base (0 + a + b + c + b))) (0 + a + b + c) b 2 1 .pending 1024 _ 1 24 (0 + a + b + 5000) (by omega))
    (o_tick (0 + a + b + c) b _ _ 2 _) (m_rx2 (some (mclk base (0 + a + b + c + b))) (0 + a + b + c + b) (mclk base 0) (0 + a + b + 5000))
    (by intro s'; rfl)
  rw [show Pair.run (S0 base a b) (lanOps a b c) = _ from run6 _ _ _ _ _ _ _ _ _ _ _ _ _ _ _ _ _ _ _ e1 e2 e3 e4 e5 e6]
  kernel_rfl

/-! ## non-LAN -/

def OlitD (r n : Nat) (rec : Option Nat) (lr : Option LastReq) (fid : Nat) (sb : List Nat) : OState :=
  { Olit n rec lr fid sb with script := { delayMs := r } }

theorem script_step (M : Master.MState) (env : OEnv) (n r : Nat) (b : Option Nat) (m2o o2m : Dir) :
    Pair.step ⟨M, Olit n none none 0 (List.replicate 2048 0), env, n, b, m2o, o2m⟩ (.script fun s => { s with delayMs := r }) =
      (⟨M, OlitD r n none none 0 (List.replicate 2048 0), env, n, b, m2o, o2m⟩, [.o []]) := by kernel_rfl

def tskD : Master.NonReadTask := .timeSync (some 7) (.measureDelay none)

theorem m_userD (clk : Nat) :
    Master.step (Mlit (some clk) 0 0 0 .idle (.idle none)) (.user 1024 (.nonRead tskD)) =
      (Mlit (some clk) 0 1 1 .idle (.waitNonRead 1024 (.timeSync (some 7) (.measureDelay (some 0))) 0 23 (0 + 5000)),
       [.taskStart 1024 .timeSync 23 0, .tx 1024 [192, 23]]) := by kernel_rfl

def dfrag (r : Nat) : List Nat := [192, 129, 128, 0, 52, 2, 7, 1, r % 256, r / 256 % 256]
def lrD : LastReq := ⟨0, [192, 23], some ⟨⟨true, true, false, false, 0⟩, 129, 128, 0, 10⟩, none⟩
def sbD (r : Nat) : List Nat :=
  writeAt (writeAt (List.replicate 2048 0) 4 [52, 2, 7, 1, r % 256, r / 256 % 256]) 0 [192, 129, 128, 0]

theorem o_tickD (r n d : Nat) (rec : Option Nat) (lr : Option LastReq) (fid : Nat) (sb : List Nat) :
    Outstation.step {} (OlitD r n rec lr fid sb) (.tick d) = (OlitD r (n + d) rec lr fid sb, []) := by kernel_rfl

theorem o_rxD (r n : Nat) :
    Outstation.step {} (OlitD r n none none 0 (List.replicate 2048 0)) (.rx 1 1024 [192, 23]) =
      (OlitD r n none (some lrD) 1 (sbD r), [.tx 1 (dfrag r)]) := by kernel_rfl

open Dnp3.Master (handleResponse onFragment parseResponse validateNonRead notifyLinkActivity modAssoc runSingle
  singleCountHeader tsReportError) in
/-- an accepted reply (not asking for a confirmation) while a non-read task waits (any task) -/
theorem onFragment_accept (a : Master.Acc) (src dest : Nat) (frag : List Nat) (t : Master.NonReadTask)
    (seq fc0 dl : Nat) (r : Master.Resp)
    (hm : a.1.mode = .waitNonRead dest t seq fc0 dl) (hp : parseResponse frag = some r)
    (hv : validateNonRead dest seq src r = .accept) (hcon : r.ctrl.con = false)
    (hassoc : (a.1.getAssoc dest).isSome) :
    onFragment a src frag =
      (match handleResponse (modAssoc (notifyLinkActivity a src) dest (·.processIin r.iin1 r.iin2)) dest t r with
       | (a2, .error e) => .appDone a2 dest t.taskType fc0 (.error e)
       | (a2, .ok none) => .appDone a2 dest t.taskType fc0 (.ok seq)
       | (a2, .ok (some next)) => runSingle a2 dest next t.taskType fc0) := by
  have h1 := Dnp3.Proofs.C18Link.notify_getAssoc' a src dest
  rw [hassoc] at h1
  unfold Master.onFragment
  simp only [hm, hp, hv, hcon, Bool.false_eq_true, if_false]
  cases hg : (notifyLinkActivity a src).1.getAssoc dest with
  | none => rw [hg] at h1; simp at h1
  | some x =>
    simp only
    generalize handleResponse _ dest t r = res
    obtain ⟨a2, e⟩ := res
    cases e with
    | error e => rfl
    | ok o => cases o <;> rfl

open Dnp3.Master (handleResponse singleCountHeader tsReportError) in
theorem hr_measure_ok (a : Master.Acc) (dest : Nat) (uid : Option Nat) (t0 r c : Nat) (R : Master.Resp)
    (hs : singleCountHeader R = some ⟨52, 2, 7, 1, 0, [r % 256, r / 256 % 256]⟩) (hr : r < 65536)
    (hc : a.1.clock = some c) (hle : r ≤ a.1.now - t0) (hfit : c + (a.1.now - t0 - r) / 2 ≤ 281474976710655) :
    handleResponse a dest (.timeSync uid (.measureDelay (some t0))) R =
      (a, .ok (some (.timeSync uid (.writeAbs (some (c + (a.1.now - t0 - r) / 2)))))) := by
  have hu : Master.u16le [r % 256, r / 256 % 256] = r := by simp [Master.u16le]; omega
  have h1 : ¬ a.1.now - t0 < r := by omega
  have h2 : ¬ c + (a.1.now - t0 - r) / 2 > 281474976710655 := by omega
  unfold Master.handleResponse
  simp [hs, hu, h1, hc, h2]

open Dnp3.Master (handleResponse singleCountHeader tsReportError) in
theorem hr_measure_bad (a : Master.Acc) (dest : Nat) (uid : Option Nat) (t0 r : Nat) (R : Master.Resp)
    (hs : singleCountHeader R = some ⟨52, 2, 7, 1, 0, [r % 256, r / 256 % 256]⟩) (hr : r < 65536)
    (hlt : a.1.now - t0 < r) :
    handleResponse a dest (.timeSync uid (.measureDelay (some t0))) R =
      (tsReportError a dest uid (.tsBadDelay r), .error .unexpectedHeaders) := by
  have hu : Master.u16le [r % 256, r / 256 % 256] = r := by simp [Master.u16le]; omega
  unfold Master.handleResponse
  simp [hs, hu, hlt]

def dresp (r : Nat) : Master.Resp :=
  ⟨⟨true, true, false, false, 0⟩, false, 128, 0, [52, 2, 7, 1, r % 256, r / 256 % 256],
   some [⟨52, 2, 7, 1, 0, [r % 256, r / 256 % 256]⟩]⟩

def wfragA (v : Nat) : List Nat := [193, 2, 50, 1, 7, 1] ++ Master.le48 v

/-- the reply to DELAY_MEASURE is accepted: WRITE g50v1 follows -/
theorem m_rxD_ok (c n t0 r dl : Nat) (hr : r < 65536) (hle : r ≤ n - t0)
    (hfit : c + (n - t0 - r) / 2 ≤ 281474976710655) :
    Master.step (Mlit (some c) n 1 1 .idle (.waitNonRead 1024 (.timeSync (some 7) (.measureDelay (some t0))) 0 23 dl))
        (.rx 1024 1 (dfrag r)) =
      (Mlit (some c) n 2 1 .pending
        (.waitNonRead 1024 (.timeSync (some 7) (.writeAbs (some (c + (n - t0 - r) / 2)))) 1 23 (n + 5000)),
       [.tx 1024 (wfragA (c + (n - t0 - r) / 2))]) := by
  have h1 : Master.step (Mlit (some c) n 1 1 .idle (.waitNonRead 1024 (.timeSync (some 7) (.measureDelay (some t0))) 0 23 dl))
        (.rx 1024 1 (dfrag r)) =
      Master.checkShutdown (Master.resolve Master.loopFuel (Master.onFragment
        (Mlit (some c) n 1 1 .idle (.waitNonRead 1024 (.timeSync (some 7) (.measureDelay (some t0))) 0 23 dl), []) 1024 (dfrag r))) := by
    kernel_rfl
  have hp : Master.parseResponse (dfrag r) = some (dresp r) := by kernel_rfl
  have hof := onFragment_accept
    (Mlit (some c) n 1 1 .idle (.waitNonRead 1024 (.timeSync (some 7) (.measureDelay (some t0))) 0 23 dl), []) 1024 1024
    (dfrag r) _ 0 23 dl (dresp r) rfl hp (by kernel_rfl) rfl rfl
  have ha1 : Master.modAssoc (Master.notifyLinkActivity
      (Mlit (some c) n 1 1 .idle (.waitNonRead 1024 (.timeSync (some 7) (.measureDelay (some t0))) 0 23 dl), []) 1024) 1024
      (·.processIin (dresp r).iin1 (dresp r).iin2) =
      (Mlit (some c) n 1 1 .pending (.waitNonRead 1024 (.timeSync (some 7) (.measureDelay (some t0))) 0 23 dl), []) := by
    kernel_rfl
  rw [ha1] at hof
  rw [hr_measure_ok _ 1024 (some 7) t0 r c (dresp r) rfl hr rfl hle hfit] at hof
  rw [h1, hof]
  kernel_rfl

/-- the reply to DELAY_MEASURE reports more than the round trip: failure, no WRITE -/
theorem m_rxD_bad (c n t0 r dl : Nat) (hr : r < 65536) (hlt : n - t0 < r) :
    Master.step (Mlit (some c) n 1 1 .idle (.waitNonRead 1024 (.timeSync (some 7) (.measureDelay (some t0))) 0 23 dl))
        (.rx 1024 1 (dfrag r)) =
      (Mlit (some c) n 2 0 .pending (.waitNonRead 1024 (.auto .clearRestart 0) 1 2 (n + 5000)),
       [.complete 7 (.tsBadDelay r), .taskFail 1024 .timeSync .unexpectedHeaders,
        .taskStart 1024 .clearRestartBit 2 1, .tx 1024 [193, 2, 80, 1, 0, 7, 7, 0]]) := by
  have h1 : Master.step (Mlit (some c) n 1 1 .idle (.waitNonRead 1024 (.timeSync (some 7) (.measureDelay (some t0))) 0 23 dl))
        (.rx 1024 1 (dfrag r)) =
      Master.checkShutdown (Master.resolve Master.loopFuel (Master.onFragment
        (Mlit (some c) n 1 1 .idle (.waitNonRead 1024 (.timeSync (some 7) (.measureDelay (some t0))) 0 23 dl), []) 1024 (dfrag r))) := by
    kernel_rfl
  have hp : Master.parseResponse (dfrag r) = some (dresp r) := by kernel_rfl
  have hof := onFragment_accept
    (Mlit (some c) n 1 1 .idle (.waitNonRead 1024 (.timeSync (some 7) (.measureDelay (some t0))) 0 23 dl), []) 1024 1024
    (dfrag r) _ 0 23 dl (dresp r) rfl hp (by kernel_rfl) rfl rfl
  have ha1 : Master.modAssoc (Master.notifyLinkActivity
      (Mlit (some c) n 1 1 .idle (.waitNonRead 1024 (.timeSync (some 7) (.measureDelay (some t0))) 0 23 dl), []) 1024) 1024
      (·.processIin (dresp r).iin1 (dresp r).iin2) =
      (Mlit (some c) n 1 1 .pending (.waitNonRead 1024 (.timeSync (some 7) (.measureDelay (some t0))) 0 23 dl), []) := by
    kernel_rfl
  rw [ha1] at hof
  rw [hr_measure_bad _ 1024 (some 7) t0 r (dresp r) rfl hr hlt] at hof
  rw [h1, hof]
  kernel_rfl

theorem o_writeA (r n v : Nat) (sb : List Nat) :
    Outstation.step {} (OlitD r n none (some lrD) 1 sb) (.rx 1 1024 (wfragA v)) =
      (OlitD r n none (some ⟨1, wfragA v, some wresp, none⟩) 2 (writeAt sb 0 [193, 129, 128, 0]),
       [.cb (.writeTime (Dnp3.u48le (Master.le48 v))), .tx 1 [193, 129, 128, 0]]) := by kernel_rfl

theorem m_rx2A (clk : Option Nat) (n t dl : Nat) :
    Master.step (Mlit clk n 2 1 .pending (.waitNonRead 1024 (.timeSync (some 7) (.writeAbs (some t))) 1 23 dl))
        (.rx 1024 1 [193, 129, 128, 0]) =
      (Mlit clk n 3 0 .pending (.waitNonRead 1024 (.auto .clearRestart 0) 2 2 (n + 5000)),
       [.complete 7 .ok, .taskSuccess 1024 .timeSync 23 1, .taskStart 1024 .clearRestartBit 2 2,
        .tx 1024 [194, 2, 80, 1, 0, 7, 7, 0]]) := by kernel_rfl

theorem run7 (s0 s1 s2 s3 s4 s5 s6 s7 : PState) (i1 i2 i3 i4 i5 i6 i7 : PInput) (g1 g2 g3 g4 g5 g6 g7 : List Group)
    (e1 : Pair.step s0 i1 = (s1, g1)) (e2 : Pair.step s1 i2 = (s2, g2)) (e3 : Pair.step s2 i3 = (s3, g3))
    (e4 : Pair.step s3 i4 = (s4, g4)) (e5 : Pair.step s4 i5 = (s5, g5)) (e6 : Pair.step s5 i6 = (s6, g6))
    (e7 : Pair.step s6 i7 = (s7, g7)) :
    Pair.run s0 [i1, i2, i3, i4, i5, i6, i7] = (s7, [g1, g2, g3, g4, g5, g6, g7]) := by
  simp only [Pair.run, e1, e2, e3, e4, e5, e6, e7]

theorem run4 (s0 s1 s2 s3 s4 : PState) (i1 i2 i3 i4 : PInput) (g1 g2 g3 g4 : List Group)
    (e1 : Pair.step s0 i1 = (s1, g1)) (e2 : Pair.step s1 i2 = (s2, g2)) (e3 : Pair.step s2 i3 = (s3, g3))
    (e4 : Pair.step s3 i4 = (s4, g4)) :
    Pair.run s0 [i1, i2, i3, i4] = (s4, [g1, g2, g3, g4]) := by
  simp only [Pair.run, e1, e2, e3, e4]

/-- the ops of the non-LAN scenario: the outstation reports `r` ms of processing delay -/
def nonlanOps (r a b c : Nat) : List PInput :=
  [.script fun s => { s with delayMs := r }, .user (.nonRead (.timeSync (some 7) (.measureDelay none))),
   .setDelay true c, .tick a, .tick b, .tick c, .tick b]

/-- the time the master computes: clock at the reply + half of (round trip − reported delay) -/
def nonlanTs (base a b r : Nat) : Nat := mclk base (0 + a + b) + (0 + a + b - 0 - r) / 2

theorem nonlan_pair_trace (base a b c r : Nat) (ha : 0 < a) (hb : 0 < b) (hc : 0 < c)
    (h1 : a + b < 5000) (h2 : c + b < 5000) (hr : r ≤ a + b) (hr16 : r < 65536)
    (hfit : base + (a + b) + (a + b - r) / 2 ≤ 281474976710655) :
    (Pair.run (S0 base a b) (nonlanOps r a b c)).2 =
      [ [.o []],
        [.m [.taskStart 1024 .timeSync 23 0, .tx 1024 [192, 23]]],
        [],
        [.time (0 + a), .m [], .o [], .delivered true [⟨some (0 + a), 15, .frag 1 1024 [192, 23]⟩],
         .o [.tx 1 (dfrag r)]],
        [.time (0 + a + b), .m [], .o [], .delivered false [⟨some (0 + a + b), 23, .frag 1024 1 (dfrag r)⟩],
         .m [.tx 1024 (wfragA (nonlanTs base a b r))]],
        [.time (0 + a + b + c), .m [], .o [],
         .delivered true [⟨some (0 + a + b + c), 25, .frag 1 1024 (wfragA (nonlanTs base a b r))⟩],
         .o [.cb (.writeTime (Dnp3.u48le (Master.le48 (nonlanTs base a b r)))), .tx 1 [193, 129, 128, 0]]],
        [.time (0 + a + b + c + b), .m [], .o [],
         .delivered false [⟨some (0 + a + b + c + b), 17, .frag 1024 1 [193, 129, 128, 0]⟩],
         .m [.complete 7 .ok, .taskSuccess 1024 .timeSync 23 1, .taskStart 1024 .clearRestartBit 2 2,
             .tx 1024 [194, 2, 80, 1, 0, 7, 7, 0]]] ] := by
  have e0 := script_step (Mlit (some (mclk base 0)) 0 0 0 .idle (.idle none)) {} 0 r (some base) ⟨a, false, 0, []⟩ ⟨b, false, 0, []⟩
  have e1 := user_step (Mlit (some (mclk base 0)) 0 0 0 .idle (.idle none)) _ (OlitD r 0 none none 0 (List.replicate 2048 0)) {} 0 base a b
    (.nonRead tskD) _ 1024 [192, 23] ha (m_userD (mclk base 0)) (by intro s'; rfl)
  have e2 : Pair.step ⟨Mlit (some (mclk base 0)) 0 1 1 .idle (.waitNonRead 1024 (.timeSync (some 7) (.measureDelay (some 0))) 0 23 (0 + 5000)),
      OlitD r 0 none none 0 (List.replicate 2048 0), {}, 0, some base,
      ⟨a, false, 0, [⟨some (0 + a), fragWire [192, 23].length, .frag masterAddr 1024 [192, 23]⟩]⟩, ⟨b, false, 0, []⟩⟩ (.setDelay true c) =
      (⟨Mlit (some (mclk base 0)) 0 1 1 .idle (.waitNonRead 1024 (.timeSync (some 7) (.measureDelay (some 0))) 0 23 (0 + 5000)),
      OlitD r 0 none none 0 (List.replicate 2048 0), {}, 0, some base,
      ⟨c, false, 0, [⟨some (0 + a), fragWire [192, 23].length, .frag masterAddr 1024 [192, 23]⟩]⟩, ⟨b, false, 0, []⟩⟩, []) := rfl
  have e3 := tick_toO (Mlit (some (mclk base 0)) 0 1 1 .idle (.waitNonRead 1024 (.timeSync (some 7) (.measureDelay (some 0))) 0 23 (0 + 5000)))
    _ (OlitD r 0 none none 0 (List.replicate 2048 0)) _ _ {} 0 a base c b (fragWire [192, 23].length) masterAddr 1024 [192, 23]
    _ 1 (dfrag r) hb
    (m_tick (some (mclk base (0 + a))) 0 a 1 1 .idle 1024 _ 0 23 (0 + 5000) (by omega))
    (o_tickD r 0 a none none 0 _) (o_rxD r (0 + a)) (by intro s'; rfl)
  have e4 := tick_toM
    (Mlit (some (mclk base (0 + a))) (0 + a) 1 1 .idle (.waitNonRead 1024 (.timeSync (some 7) (.measureDelay (some 0))) 0 23 (0 + 5000)))
    _ _ (OlitD r (0 + a) none (some lrD) 1 (sbD r)) _ {}
    (0 + a) b base c b (fragWire (dfrag r).length) outstationAddr 1 (dfrag r)
    _ 1024 (wfragA (nonlanTs base a b r)) hc
    (m_tick (some (mclk base (0 + a + b))) (0 + a) b 1 1 .idle 1024 _ 0 23 (0 + 5000) (by omega))
    (o_tickD r (0 + a) b _ _ 1 _)
    (m_rxD_ok (mclk base (0 + a + b)) (0 + a + b) 0 r (0 + 5000) hr16 (by omega)
      (by have : 0 + a + b - 0 - r = a + b - r := by omega
          have hk := mclk_le_self base (0 + a + b)
          rw [this]; omega))
    (by intro s'; rfl)
  have e5 := tick_toO
    (Mlit (some (mclk base (0 + a + b))) (0 + a + b) 2 1 .pending
      (.waitNonRead 1024 (.timeSync (some 7) (.writeAbs (some (nonlanTs base a b r)))) 1 23 (0 + a + b + 5000)))
    _ (OlitD r (0 + a + b) none (some lrD) 1 (sbD r)) _ _ {}
    (0 + a + b) c base c b (fragWire (wfragA (nonlanTs base a b r)).length) masterAddr 1024 (wfragA (nonlanTs base a b r))
    _ 1 [193, 129, 128, 0] hb
    (m_tick (some (mclk base (0 + a + b + c))) (0 + a + b) c 2 1 .pending 1024 _ 1 23 (0 + a + b + 5000) (by omega))
    (o_tickD r (0 + a + b) c _ _ 1 _) (o_writeA r (0 + a + b + c) (nonlanTs base a b r) _) (by intro s'; rfl)
  have e6 := tick_toM
    (Mlit (some (mclk base (0 + a + b + c))) (0 + a + b + c) 2 1 .pending
      (.waitNonRead 1024 (.timeSync (some 7) (.writeAbs (some (nonlanTs base a b r)))) 1 23 (0 + a + b + 5000)))
    _ _ (OlitD r (0 + a + b + c) none (some ⟨1, wfragA (nonlanTs base a b r), some wresp, none⟩) 2
          (writeAt (sbD r) 0 [193, 129, 128, 0])) _ {}
    (0 + a + b + c) b base c b (fragWire [193, 129, 128, 0].length) outstationAddr 1 [193, 129, 128, 0]
    _ 1024 [194, 2, 80, 1, 0, 7, 7, 0] hc
    (m_tick (some (mclk base (0 + a + b + c + b))) (0 + a + b + c) b 2 1 .pending 1024 _ 1 23 (0 + a + b + 5000) (by omega))
    (o_tickD r (0 + a + b + c) b _ _ 2 _)
    (m_rx2A (some (mclk base (0 + a + b + c + b))) (0 + a + b + c + b) (nonlanTs base a b r) (0 + a + b + 5000))
    (by intro s'; rfl)
  rw [show Pair.run (S0 base a b) (nonlanOps r a b c) = _ from
    run7 _ _ _ _ _ _ _ _ _ _ _ _ _ _ _ _ _ _ _ _ _ _ e0 e1 e2 e3 e4 e5 e6]
  kernel_rfl

/-- the ops of the failing non-LAN scenario -/
def nonlanBadOps (r a b : Nat) : List PInput :=
  [.script fun s => { s with delayMs := r }, .user (.nonRead (.timeSync (some 7) (.measureDelay none))),
   .tick a, .tick b]

theorem nonlan_pair_bad_trace (base a b r : Nat) (ha : 0 < a) (hb : 0 < b)
    (h1 : a + b < 5000) (hr : a + b < r) (hr16 : r < 65536) :
    (Pair.run (S0 base a b) (nonlanBadOps r a b)).2 =
      [ [.o []],
        [.m [.taskStart 1024 .timeSync 23 0, .tx 1024 [192, 23]]],
        [.time (0 + a), .m [], .o [], .delivered true [⟨some (0 + a), 15, .frag 1 1024 [192, 23]⟩],
         .o [.tx 1 (dfrag r)]],
        [.time (0 + a + b), .m [], .o [], .delivered false [⟨some (0 + a + b), 23, .frag 1024 1 (dfrag r)⟩],
         .m [.complete 7 (.tsBadDelay r), .taskFail 1024 .timeSync .unexpectedHeaders,
             .taskStart 1024 .clearRestartBit 2 1, .tx 1024 [193, 2, 80, 1, 0, 7, 7, 0]]] ] := by
  have e0 := script_step (Mlit (some (mclk base 0)) 0 0 0 .idle (.idle none)) {} 0 r (some base) ⟨a, false, 0, []⟩ ⟨b, false, 0, []⟩
  have e1 := user_step (Mlit (some (mclk base 0)) 0 0 0 .idle (.idle none)) _ (OlitD r 0 none none 0 (List.replicate 2048 0)) {} 0 base a b
    (.nonRead tskD) _ 1024 [192, 23] ha (m_userD (mclk base 0)) (by intro s'; rfl)
  have e3 := tick_toO (Mlit (some (mclk base 0)) 0 1 1 .idle (.waitNonRead 1024 (.timeSync (some 7) (.measureDelay (some 0))) 0 23 (0 + 5000)))
    _ (OlitD r 0 none none 0 (List.replicate 2048 0)) _ _ {} 0 a base a b (fragWire [192, 23].length) masterAddr 1024 [192, 23]
    _ 1 (dfrag r) hb
    (m_tick (some (mclk base (0 + a))) 0 a 1 1 .idle 1024 _ 0 23 (0 + 5000) (by omega))
    (o_tickD r 0 a none none 0 _) (o_rxD r (0 + a)) (by intro s'; rfl)
  have e4 := tick_toM
    (Mlit (some (mclk base (0 + a))) (0 + a) 1 1 .idle (.waitNonRead 1024 (.timeSync (some 7) (.measureDelay (some 0))) 0 23 (0 + 5000)))
    _ _ (OlitD r (0 + a) none (some lrD) 1 (sbD r)) _ {}
    (0 + a) b base a b (fragWire (dfrag r).length) outstationAddr 1 (dfrag r)
    _ 1024 [193, 2, 80, 1, 0, 7, 7, 0] ha
    (m_tick (some (mclk base (0 + a + b))) (0 + a) b 1 1 .idle 1024 _ 0 23 (0 + 5000) (by omega))
    (o_tickD r (0 + a) b _ _ 1 _)
    (m_rxD_bad (mclk base (0 + a + b)) (0 + a + b) 0 r (0 + 5000) hr16 (by omega))
    (by intro s'; rfl)
  rw [show Pair.run (S0 base a b) (nonlanBadOps r a b) = _ from run4 _ _ _ _ _ _ _ _ _ _ _ _ _ e0 e1 e3 e4]
  kernel_rfl

/-- the times handed to the outstation application (`write_absolute_time` callbacks) over a whole run -/
def writeTimes (gs : List (List Group)) : List Nat :=
  gs.flatten.flatMap fun g => match g with
    | .o outs => outs.filterMap fun o => match o with | .cb (.writeTime t) => some t | _ => none
    | _ => []

/-- the promise completions of the master over a whole run -/
def completionsOf (gs : List (List Group)) : List (Nat × Master.Outcome) :=
  gs.flatten.flatMap fun g => match g with
    | .m outs => outs.filterMap fun o => match o with | .complete u oc => some (u, oc) | _ => none
    | _ => []

/-- the virtual times at which the outstation was handed a time: (virtual time of the op's last
    clock jump, time written) -/
def writeInstants (gs : List (List Group)) : List (Nat × Nat) :=
  gs.flatMap fun op =>
    let t := op.foldl (fun acc g => match g with | .time t => some t | _ => acc) none
    match t with
    | none => []
    | some t => (writeTimes [op]).map fun w => (t, w)

end Dnp3.Proofs.C18Pair
