import Dnp3.Proofs.DbTables
import Dnp3.Proofs.DatabaseEv
import Dnp3.Proofs.DatabaseStatic
import Dnp3.Proofs.DatabaseCap
import Dnp3.Proofs.DatabaseX
/-!
# Proofs about the outstation database model (C03 / C11 / C13 component level)

`DbTables`: well-formedness of the generated per-type tables; `DatabaseEv`: operations, invariants
(`Ordered`, `TotalExact`, `WrittenExact`) and their preservation by every operation, `clearWritten`,
`reset`, `select`, `writeEvents`, `kept`, the indications; `DatabaseStatic`: the static database and
READ series; `DatabaseCap`: progress and capacity.
-/
