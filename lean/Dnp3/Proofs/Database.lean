import Dnp3.Model.Database
/-!
# Proofs about the outstation database model (C03 / C11 / C13 component level)

Operations, invariants (`Ordered`, `TotalExact`, `WrittenExact`) and their preservation by every
operation (an overflow that discards a `Written` record takes it out of `written` too — the repair of
D3); `clearWritten`, `reset`, `select`, `writeEvents`, `kept`; static write resumption.
-/
namespace Dnp3.DbProofs
open Dnp3 Dnp3.DbM

/-! ## operations -/

inductive DbOp where
  | add (t : PtType) (idx cls : Nat)
  | update (t : PtType) (idx : Nat) (value : Int) (flags time : Nat)
  | select (h : ReadHdr)
  | write (cap : Nat)
  | unsol (c1 c2 c3 : Bool) (cap : Nat)
  | clear
  | reset
deriving DecidableEq, Repr

def step (db : Db) : DbOp → Db
  | .add t idx cls => (db.add t idx cls).1
  | .update t idx v f tm => (db.update t idx v f tm).1
  | .select h => (db.select h).1
  | .write cap => (db.writeResponse cap).1
  | .unsol c1 c2 c3 cap => (db.writeUnsolicited c1 c2 c3 cap).1
  | .clear => db.clearWritten.1
  | .reset => db.reset

def run (db : Db) (ops : List DbOp) : Db := ops.foldl step db

theorem run_append (db : Db) (a b : List DbOp) : run db (a ++ b) = run (run db a) b := by
  simp [run, List.foldl_append]

/-! ## counting -/

/-- the counters a list of records should produce, restricted to the records satisfying `p` -/
def tallyBy (p : EvRec → Bool) (l : List EvRec) : Counters :=
  { c1 := l.countP (fun r => p r && r.cls == 1)
    c2 := l.countP (fun r => p r && r.cls == 2)
    c3 := l.countP (fun r => p r && r.cls == 3)
    bin := l.countP (fun r => p r && r.ty == .binary)
    an := l.countP (fun r => p r && r.ty == .analog) }

def isWritten (r : EvRec) : Bool := r.st == .written
def anyRec (_ : EvRec) : Bool := true

/-- `total` equals the per-class / per-type counts of the records -/
def TotalExact (db : Db) : Prop := db.total = tallyBy anyRec db.events
/-- `written` equals the per-class / per-type counts of the `Written` records -/
def WrittenExact (db : Db) : Prop := db.written = tallyBy isWritten db.events
def CountersExact (db : Db) : Prop := TotalExact db ∧ WrittenExact db

/-- events oldest first: ids strictly increasing along the list, all below `next` -/
def Ordered (db : Db) : Prop :=
  db.events.Pairwise (fun a b => a.id < b.id) ∧ ∀ r ∈ db.events, r.id < db.next

theorem Counters.ext' {a b : Counters} (h1 : a.c1 = b.c1) (h2 : a.c2 = b.c2) (h3 : a.c3 = b.c3)
    (h4 : a.bin = b.bin) (h5 : a.an = b.an) : a = b := by
  cases a; cases b; simp_all

theorem tallyBy_nil (p : EvRec → Bool) : tallyBy p [] = {} := rfl

/-- adding a record to the front adds one to its class and to its type, if it is counted -/
theorem tallyBy_cons (p : EvRec → Bool) (r : EvRec) (l : List EvRec) :
    tallyBy p (r :: l) = if p r then (tallyBy p l).inc r else tallyBy p l := by
  cases hp : p r <;> simp only [tallyBy, List.countP_cons, hp, Bool.false_and, Bool.true_and]
  · simp
  · apply Counters.ext' <;>
      simp only [Counters.inc, Counters.incTy, Counters.incCls] <;>
      (rcases r with ⟨id, index, cls, ty, m, dv, sv, st⟩; simp only;
       cases ty <;> (by_cases h1 : cls = 1 <;> by_cases h2 : cls = 2 <;> by_cases h3 : cls = 3 <;>
        simp_all) )

/-! ### field-level arithmetic of the counters -/

def b2n (b : Bool) : Nat := if b then 1 else 0

@[simp] theorem b2n_true : b2n true = 1 := rfl
@[simp] theorem b2n_false : b2n false = 0 := rfl

theorem incCls_fields (c : Counters) (k : Nat) :
    (c.incCls k).c1 = c.c1 + b2n (k == 1) ∧ (c.incCls k).c2 = c.c2 + b2n (k == 2) ∧
    (c.incCls k).c3 = c.c3 + b2n (k == 3) ∧ (c.incCls k).bin = c.bin ∧ (c.incCls k).an = c.an := by
  by_cases h1 : k = 1 <;> by_cases h2 : k = 2 <;> by_cases h3 : k = 3 <;>
    simp_all [Counters.incCls, b2n]

theorem decCls_fields (c : Counters) (k : Nat) :
    (c.decCls k).c1 = c.c1 - b2n (k == 1) ∧ (c.decCls k).c2 = c.c2 - b2n (k == 2) ∧
    (c.decCls k).c3 = c.c3 - b2n (k == 3) ∧ (c.decCls k).bin = c.bin ∧ (c.decCls k).an = c.an := by
  by_cases h1 : k = 1 <;> by_cases h2 : k = 2 <;> by_cases h3 : k = 3 <;>
    simp_all [Counters.decCls, b2n]

theorem incTy_fields (c : Counters) (t : PtType) :
    (c.incTy t).c1 = c.c1 ∧ (c.incTy t).c2 = c.c2 ∧ (c.incTy t).c3 = c.c3 ∧
    (c.incTy t).bin = c.bin + b2n (t == .binary) ∧ (c.incTy t).an = c.an + b2n (t == .analog) := by
  cases t <;> simp [Counters.incTy, b2n]

theorem decTy_fields (c : Counters) (t : PtType) :
    (c.decTy t).c1 = c.c1 ∧ (c.decTy t).c2 = c.c2 ∧ (c.decTy t).c3 = c.c3 ∧
    (c.decTy t).bin = c.bin - b2n (t == .binary) ∧ (c.decTy t).an = c.an - b2n (t == .analog) := by
  cases t <;> simp [Counters.decTy, b2n]

theorem inc_fields (c : Counters) (r : EvRec) :
    (c.inc r).c1 = c.c1 + b2n (r.cls == 1) ∧ (c.inc r).c2 = c.c2 + b2n (r.cls == 2) ∧
    (c.inc r).c3 = c.c3 + b2n (r.cls == 3) ∧ (c.inc r).bin = c.bin + b2n (r.ty == .binary) ∧
    (c.inc r).an = c.an + b2n (r.ty == .analog) := by
  have h1 := incTy_fields c r.ty
  have h2 := incCls_fields (c.incTy r.ty) r.cls
  simp only [Counters.inc]; omega

theorem dec_fields (c : Counters) (r : EvRec) :
    (c.dec r).c1 = c.c1 - b2n (r.cls == 1) ∧ (c.dec r).c2 = c.c2 - b2n (r.cls == 2) ∧
    (c.dec r).c3 = c.c3 - b2n (r.cls == 3) ∧ (c.dec r).bin = c.bin - b2n (r.ty == .binary) ∧
    (c.dec r).an = c.an - b2n (r.ty == .analog) := by
  have h1 := decCls_fields c r.cls
  have h2 := decTy_fields (c.decCls r.cls) r.ty
  simp only [Counters.dec]; omega

theorem countP_cons_b2n (p : EvRec → Bool) (r : EvRec) (l : List EvRec) :
    (r :: l).countP p = l.countP p + b2n (p r) := by
  cases h : p r <;> simp [h]

theorem tallyBy_cons_fields (p : EvRec → Bool) (r : EvRec) (l : List EvRec) :
    (tallyBy p (r :: l)).c1 = (tallyBy p l).c1 + b2n (p r && r.cls == 1) ∧
    (tallyBy p (r :: l)).c2 = (tallyBy p l).c2 + b2n (p r && r.cls == 2) ∧
    (tallyBy p (r :: l)).c3 = (tallyBy p l).c3 + b2n (p r && r.cls == 3) ∧
    (tallyBy p (r :: l)).bin = (tallyBy p l).bin + b2n (p r && r.ty == .binary) ∧
    (tallyBy p (r :: l)).an = (tallyBy p l).an + b2n (p r && r.ty == .analog) := by
  simp only [tallyBy, countP_cons_b2n]; simp

theorem tallyBy_append_fields (p : EvRec → Bool) (a b : List EvRec) :
    (tallyBy p (a ++ b)).c1 = (tallyBy p a).c1 + (tallyBy p b).c1 ∧
    (tallyBy p (a ++ b)).c2 = (tallyBy p a).c2 + (tallyBy p b).c2 ∧
    (tallyBy p (a ++ b)).c3 = (tallyBy p a).c3 + (tallyBy p b).c3 ∧
    (tallyBy p (a ++ b)).bin = (tallyBy p a).bin + (tallyBy p b).bin ∧
    (tallyBy p (a ++ b)).an = (tallyBy p a).an + (tallyBy p b).an := by
  simp [tallyBy, List.countP_append]

/-- `remove_first(is_type)`: the list is the discarded record put back in front of a gap -/
theorem removeFirstTy_spec (t : PtType) :
    ∀ (l : List EvRec) (d : EvRec) (rest : List EvRec), removeFirstTy t l = some (d, rest) →
      d.ty = t ∧ ∃ pre post, l = pre ++ d :: post ∧ rest = pre ++ post ∧ ∀ r ∈ pre, r.ty ≠ t := by
  intro l
  induction l with
  | nil => intro d rest h; simp [removeFirstTy] at h
  | cons r rs ih =>
    intro d rest h
    unfold removeFirstTy at h
    by_cases hr : r.ty = t
    · simp only [hr, if_true, Option.some.injEq, Prod.mk.injEq] at h
      obtain ⟨rfl, rfl⟩ := h
      exact ⟨hr, [], rs, rfl, rfl, by simp⟩
    · simp only [hr, if_false] at h
      cases hrec : removeFirstTy t rs with
      | none => simp [hrec] at h
      | some pr =>
        obtain ⟨d', rest'⟩ := pr
        simp only [hrec, Option.some.injEq, Prod.mk.injEq] at h
        obtain ⟨rfl, rfl⟩ := h
        obtain ⟨hty, pre, post, h1, h2, h3⟩ := ih d' rest' hrec
        refine ⟨hty, r :: pre, post, by simp [h1], by simp [h2], ?_⟩
        intro x hx
        rcases List.mem_cons.mp hx with rfl | hx
        · exact hr
        · exact h3 x hx

theorem removeFirstTy_none (t : PtType) :
    ∀ (l : List EvRec), removeFirstTy t l = none → ∀ r ∈ l, r.ty ≠ t := by
  intro l
  induction l with
  | nil => intro _ r hr; simp at hr
  | cons r rs ih =>
    intro h x hx
    unfold removeFirstTy at h
    by_cases hr : r.ty = t
    · simp [hr] at h
    · simp only [hr, if_false] at h
      cases hrec : removeFirstTy t rs with
      | some pr => simp [hrec] at h
      | none =>
        rcases List.mem_cons.mp hx with rfl | hx
        · exact hr
        · exact ih hrec x hx

/-! ## `insert` -/

/-- the record `insert` appends -/
def mkRec (db : Db) (idx cls : Nat) (t : PtType) (m : Meas) (dv : Nat) : EvRec :=
  { id := db.next, index := idx, cls := cls, ty := t, m := m, defVar := dv, selVar := dv }

/-- the three outcomes of `EventBuffer::insert` -/
theorem insert_cases (db : Db) (idx cls : Nat) (t : PtType) (m : Meas) (dv : Nat) :
    (db.evMax = 0 ∧ db.insert idx cls t m dv = (db, .typeMaxIsZero)) ∨
    (db.evMax ≠ 0 ∧ ∃ d rest, db.total.ty t = db.evMax ∧ removeFirstTy t db.events = some (d, rest) ∧
      db.insert idx cls t m dv =
        ({ db with next := db.next + 1, events := rest ++ [mkRec db idx cls t m dv]
                   total := (((db.total.decTy t).decCls d.cls).incCls cls).incTy t
                   written := if d.st = .written then (db.written.decTy t).decCls d.cls else db.written
                   overflown := true }, .overflow db.next d.id)) ∨
    (db.evMax ≠ 0 ∧ (db.total.ty t ≠ db.evMax ∨ removeFirstTy t db.events = none) ∧
      db.insert idx cls t m dv =
        ({ db with next := db.next + 1, events := db.events ++ [mkRec db idx cls t m dv]
                   total := (db.total.incCls cls).incTy t }, .ok db.next)) := by
  unfold Db.insert mkRec
  by_cases h0 : db.evMax = 0
  · left; simp [h0]
  · right
    simp only [h0, if_false]
    by_cases hfull : db.total.ty t = db.evMax
    · cases hrem : removeFirstTy t db.events with
      | none => right; exact ⟨h0, Or.inr rfl, by rw [if_pos hfull]⟩
      | some pr =>
        obtain ⟨d, rest⟩ := pr
        left; exact ⟨h0, d, rest, hfull, rfl, by rw [if_pos hfull]⟩
    · right; exact ⟨h0, Or.inl hfull, by rw [if_neg hfull]⟩

theorem tallyBy_singleton_any (r : EvRec) :
    (tallyBy anyRec [r]).c1 = b2n (r.cls == 1) ∧ (tallyBy anyRec [r]).c2 = b2n (r.cls == 2) ∧
    (tallyBy anyRec [r]).c3 = b2n (r.cls == 3) ∧ (tallyBy anyRec [r]).bin = b2n (r.ty == .binary) ∧
    (tallyBy anyRec [r]).an = b2n (r.ty == .analog) := by
  have := tallyBy_cons_fields anyRec r []
  simp only [tallyBy_nil, anyRec, Bool.true_and] at this
  simpa using this

theorem b2n_le_one (b : Bool) : b2n b ≤ 1 := by cases b <;> simp

/-- `total` stays exact through every insert (overflow included) -/
theorem insert_total (db : Db) (idx cls : Nat) (t : PtType) (m : Meas) (dv : Nat)
    (h : TotalExact db) : TotalExact (db.insert idx cls t m dv).1 := by
  rcases insert_cases db idx cls t m dv with ⟨_, he⟩ | ⟨_, d, rest, hfull, hrem, he⟩ | ⟨_, _, he⟩
  · rw [he]; exact h
  · rw [he]
    obtain ⟨hty, pre, post, hl, hr, _⟩ := removeFirstTy_spec t _ _ _ hrem
    subst hr
    unfold TotalExact at h ⊢
    simp only
    have e1 := tallyBy_append_fields anyRec (pre ++ post) [mkRec db idx cls t m dv]
    have e2 := tallyBy_singleton_any (mkRec db idx cls t m dv)
    have e3 := tallyBy_append_fields anyRec pre (d :: post)
    have e4 := tallyBy_cons_fields anyRec d post
    have e5 := tallyBy_append_fields anyRec pre post
    have f1 := decTy_fields db.total t
    have f2 := decCls_fields (db.total.decTy t) d.cls
    have f3 := incCls_fields ((db.total.decTy t).decCls d.cls) cls
    have f4 := incTy_fields (((db.total.decTy t).decCls d.cls).incCls cls) t
    rw [hl] at h
    simp only [anyRec, Bool.true_and, mkRec] at e1 e2 e3 e4 e5 ⊢
    have b1 := b2n_le_one (d.cls == 1); have b2 := b2n_le_one (d.cls == 2)
    have b3 := b2n_le_one (d.cls == 3)
    have hb : b2n (t == .binary) = b2n (d.ty == .binary) := by rw [hty]
    have ha : b2n (t == .analog) = b2n (d.ty == .analog) := by rw [hty]
    apply Counters.ext' <;> simp only [h] at f1 f2 f3 f4 ⊢ <;> omega
  · rw [he]
    unfold TotalExact at h ⊢
    simp only
    have e1 := tallyBy_append_fields anyRec db.events [mkRec db idx cls t m dv]
    have e2 := tallyBy_singleton_any (mkRec db idx cls t m dv)
    have f3 := incCls_fields db.total cls
    have f4 := incTy_fields (db.total.incCls cls) t
    have hc : (mkRec db idx cls t m dv).cls = cls := rfl
    have ht : (mkRec db idx cls t m dv).ty = t := rfl
    rw [hc, ht] at e2
    apply Counters.ext' <;> simp only [h] at f3 f4 ⊢ <;> omega

theorem tallyBy_remove_unwritten (pre post : List EvRec) (d : EvRec) (hd : isWritten d = false) :
    tallyBy isWritten (pre ++ d :: post) = tallyBy isWritten (pre ++ post) := by
  have e3 := tallyBy_append_fields isWritten pre (d :: post)
  have e4 := tallyBy_cons_fields isWritten d post
  have e5 := tallyBy_append_fields isWritten pre post
  simp only [hd, Bool.false_and, b2n_false] at e4
  apply Counters.ext' <;> omega

theorem tallyBy_append_unwritten (l : List EvRec) (r : EvRec) (hr : isWritten r = false) :
    tallyBy isWritten (l ++ [r]) = tallyBy isWritten l := by
  have e1 := tallyBy_append_fields isWritten l [r]
  have e2 : (tallyBy isWritten [r]).c1 = 0 ∧ (tallyBy isWritten [r]).c2 = 0 ∧ (tallyBy isWritten [r]).c3 = 0 ∧
      (tallyBy isWritten [r]).bin = 0 ∧ (tallyBy isWritten [r]).an = 0 := by
    simp [tallyBy, hr]
  apply Counters.ext' <;> omega

/-- the `Written` tally without a `Written` record `d`: one less in its class and in its type -/
theorem tallyBy_remove_written (pre post : List EvRec) (d : EvRec) (hd : isWritten d = true) :
    (tallyBy isWritten (pre ++ post)).c1 = (tallyBy isWritten (pre ++ d :: post)).c1 - b2n (d.cls == 1) ∧
    (tallyBy isWritten (pre ++ post)).c2 = (tallyBy isWritten (pre ++ d :: post)).c2 - b2n (d.cls == 2) ∧
    (tallyBy isWritten (pre ++ post)).c3 = (tallyBy isWritten (pre ++ d :: post)).c3 - b2n (d.cls == 3) ∧
    (tallyBy isWritten (pre ++ post)).bin = (tallyBy isWritten (pre ++ d :: post)).bin - b2n (d.ty == .binary) ∧
    (tallyBy isWritten (pre ++ post)).an = (tallyBy isWritten (pre ++ d :: post)).an - b2n (d.ty == .analog) := by
  have e3 := tallyBy_append_fields isWritten pre (d :: post)
  have e4 := tallyBy_cons_fields isWritten d post
  have e5 := tallyBy_append_fields isWritten pre post
  simp only [hd, Bool.true_and] at e4
  omega

/-- `written` stays exact through every insert: a discarded `Written` record is taken out of
    `written` (type and class), any other discard leaves it alone -/
theorem insert_written (db : Db) (idx cls : Nat) (t : PtType) (m : Meas) (dv : Nat)
    (h : WrittenExact db) : WrittenExact (db.insert idx cls t m dv).1 := by
  have hmk : isWritten (mkRec db idx cls t m dv) = false := rfl
  rcases insert_cases db idx cls t m dv with ⟨_, he⟩ | ⟨_, d, rest, hfull, hrem, he⟩ | ⟨_, _, he⟩
  · rw [he]; exact h
  · rw [he]
    obtain ⟨hty, pre, post, hl, hr, _⟩ := removeFirstTy_spec t _ _ _ hrem
    subst hr
    unfold WrittenExact at h ⊢
    simp only
    rw [tallyBy_append_unwritten _ _ hmk]
    by_cases hst : d.st = .written
    · rw [if_pos hst]
      have hd : isWritten d = true := by simp [isWritten, hst]
      have e := tallyBy_remove_written pre post d hd
      have f1 := decTy_fields db.written t
      have f2 := decCls_fields (db.written.decTy t) d.cls
      have hb : b2n (t == .binary) = b2n (d.ty == .binary) := by rw [hty]
      have ha : b2n (t == .analog) = b2n (d.ty == .analog) := by rw [hty]
      rw [hl] at h
      apply Counters.ext' <;> simp only [h] at f1 f2 ⊢ <;> omega
    · rw [if_neg hst]
      have hd : isWritten d = false := by
        simp only [isWritten]; cases hs' : d.st <;> simp_all
      rw [← tallyBy_remove_unwritten pre post d hd, ← hl]
      exact h
  · rw [he]
    unfold WrittenExact at h ⊢
    simp only
    rw [tallyBy_append_unwritten _ _ hmk]
    exact h

/-- the decrements of `insert` never underflow (the Rust `Count::decrement` is a checked `-= 1`):
    with exact counters, the record an overflow discards is counted in `total` — type and class — and,
    when it is `Written`, in `written` as well -/
theorem insert_decrements_no_underflow (db : Db) (t : PtType) (d : EvRec) (rest : List EvRec)
    (h : CountersExact db) (hrem : removeFirstTy t db.events = some (d, rest)) :
    1 ≤ db.total.ty t ∧ (d.cls = 1 ∨ d.cls = 2 ∨ d.cls = 3 → 1 ≤ (db.total.decTy t).cls d.cls) ∧
    (d.st = .written →
      1 ≤ db.written.ty t ∧ (d.cls = 1 ∨ d.cls = 2 ∨ d.cls = 3 → 1 ≤ (db.written.decTy t).cls d.cls)) := by
  obtain ⟨hty, pre, post, hl, _, _⟩ := removeFirstTy_spec t _ _ _ hrem
  obtain ⟨ht, hw⟩ := h
  unfold TotalExact at ht
  unfold WrittenExact at hw
  rw [hl] at ht hw
  have a3 := tallyBy_append_fields anyRec pre (d :: post)
  have a4 := tallyBy_cons_fields anyRec d post
  have w3 := tallyBy_append_fields isWritten pre (d :: post)
  have w4 := tallyBy_cons_fields isWritten d post
  have f1 := decTy_fields db.total t
  have g1 := decTy_fields db.written t
  simp only [anyRec, Bool.true_and] at a4
  subst hty
  refine ⟨?_, ?_, ?_⟩
  · cases hd : d.ty <;> simp only [Counters.ty, ht, hd, beq_self_eq_true, b2n_true] at a3 a4 ⊢ <;> omega
  · rintro (hc | hc | hc) <;> simp only [Counters.cls, hc, ht, beq_self_eq_true, b2n_true] at f1 a3 a4 ⊢ <;> omega
  · intro hst
    have hd : isWritten d = true := by simp [isWritten, hst]
    simp only [hd, Bool.true_and] at w4
    refine ⟨?_, ?_⟩
    · cases hd' : d.ty <;> simp only [Counters.ty, hw, hd', beq_self_eq_true, b2n_true] at w3 w4 ⊢ <;> omega
    · rintro (hc | hc | hc) <;> simp only [Counters.cls, hc, hw, beq_self_eq_true, b2n_true] at g1 w3 w4 ⊢ <;> omega

theorem insert_ordered (db : Db) (idx cls : Nat) (t : PtType) (m : Meas) (dv : Nat)
    (h : Ordered db) : Ordered (db.insert idx cls t m dv).1 := by
  obtain ⟨hp, hn⟩ := h
  have key : ∀ l : List EvRec, l.Sublist db.events →
      (l ++ [mkRec db idx cls t m dv]).Pairwise (fun a b => a.id < b.id) ∧
      ∀ r ∈ l ++ [mkRec db idx cls t m dv], r.id < db.next + 1 := by
    intro l hl
    constructor
    · rw [List.pairwise_append]
      refine ⟨hp.sublist hl, by simp, ?_⟩
      intro a ha b hb
      simp only [List.mem_singleton] at hb
      subst hb
      exact hn a (hl.subset ha)
    · intro r hr
      rcases List.mem_append.mp hr with hr | hr
      · exact Nat.lt_succ_of_lt (hn r (hl.subset hr))
      · simp only [List.mem_singleton] at hr; subst hr; exact Nat.lt_succ_self _
  rcases insert_cases db idx cls t m dv with ⟨_, he⟩ | ⟨_, d, rest, hfull, hrem, he⟩ | ⟨_, _, he⟩
  · rw [he]; exact ⟨hp, hn⟩
  · rw [he]
    obtain ⟨_, pre, post, hl, hr, _⟩ := removeFirstTy_spec t _ _ _ hrem
    subst hr
    have hsub : (pre ++ post).Sublist db.events := by
      rw [hl]; exact List.Sublist.append (List.Sublist.refl _) (List.sublist_cons_self _ _)
    exact key _ hsub
  · rw [he]; exact key _ (List.Sublist.refl _)

/-! ## frame: operations that leave the event buffer alone -/

/-- the event-buffer part of two databases coincides -/
def EbEq (db db' : Db) : Prop :=
  db'.events = db.events ∧ db'.total = db.total ∧ db'.written = db.written ∧ db'.next = db.next ∧
  db'.evMax = db.evMax ∧ db'.overflown = db.overflown

theorem EbEq.refl (db : Db) : EbEq db db := ⟨rfl, rfl, rfl, rfl, rfl, rfl⟩
theorem EbEq.trans {a b c : Db} (h1 : EbEq a b) (h2 : EbEq b c) : EbEq a c := by
  obtain ⟨a1, a2, a3, a4, a5, a6⟩ := h1
  obtain ⟨b1, b2, b3, b4, b5, b6⟩ := h2
  exact ⟨b1.trans a1, b2.trans a2, b3.trans a3, b4.trans a4, b5.trans a5, b6.trans a6⟩

theorem EbEq.ordered {db db' : Db} (h : EbEq db db') (ho : Ordered db) : Ordered db' := by
  obtain ⟨h1, _, _, h4, _, _⟩ := h
  unfold Ordered at *; rw [h1, h4]; exact ho
theorem EbEq.total {db db' : Db} (h : EbEq db db') (ho : TotalExact db) : TotalExact db' := by
  obtain ⟨h1, h2, _, _, _, _⟩ := h
  unfold TotalExact at *; rw [h1, h2]; exact ho
theorem EbEq.written {db db' : Db} (h : EbEq db db') (ho : WrittenExact db) : WrittenExact db' := by
  obtain ⟨h1, _, h3, _, _, _⟩ := h
  unfold WrittenExact at *; rw [h1, h3]; exact ho

theorem setMap_eb (db : Db) (t : PtType) (m : List (Nat × Point)) : EbEq db (db.setMap t m) := by
  cases t <;> exact ⟨rfl, rfl, rfl, rfl, rfl, rfl⟩

theorem add_eb (db : Db) (t : PtType) (idx cls : Nat) : EbEq db (db.add t idx cls).1 := by
  unfold Db.add
  split
  · exact setMap_eb _ _ _
  · exact EbEq.refl _

theorem pushSel_eb (db : Db) (it : SelItem) : EbEq db (db.pushSel it).1 := by
  unfold Db.pushSel; split <;> exact ⟨rfl, rfl, rfl, rfl, rfl, rfl⟩

theorem selectStatic_eb (db : Db) (t : PtType) (var : Option Nat) (range : Option (Nat × Nat)) :
    EbEq db (db.selectStatic t var range).1 := by
  unfold Db.selectStatic
  split
  · exact EbEq.refl _
  · exact EbEq.trans (setMap_eb _ _ _) (pushSel_eb _ _)

theorem selectClass0_eb (db : Db) : EbEq db db.selectClass0.1 := by
  unfold Db.selectClass0
  exact EbEq.trans (selectStatic_eb db .binary none none) (selectStatic_eb _ .analog none none)

/-! ## `update` -/

def infoOf : InsertResult → UpdInfo
  | .typeMaxIsZero => .noEvent
  | .ok id => .created id
  | .overflow c d => .overflow c d

/-- `update` = a change of the static maps only, optionally followed by one `insert` -/
theorem update_spec (db : Db) (t : PtType) (idx : Nat) (v : Int) (f tm : Nat) :
    ∃ db0, EbEq db db0 ∧
      (db.update t idx v f tm = (db0, .noPoint) ∨ db.update t idx v f tm = (db0, .noEvent) ∨
       ∃ cls m, db.update t idx v f tm =
          ((db0.insert idx cls t m (defaultEventVar t)).1, infoOf (db0.insert idx cls t m (defaultEventVar t)).2)) := by
  unfold Db.update
  cases hl : pmLookup (db.map t) idx with
  | none => exact ⟨db, EbEq.refl _, Or.inl rfl⟩
  | some p =>
    simp only []
    generalize mkMeas t v f tm = m
    by_cases hev : isEvent t p.lastEvent m = true
    · rw [if_pos hev]
      by_cases hc : p.cls = 0
      · rw [if_pos hc]; exact ⟨_, setMap_eb _ _ _, Or.inr (Or.inl rfl)⟩
      · rw [if_neg hc]
        refine ⟨db.setMap t (pmSet (db.map t) idx { p with current := m, lastEvent := m }),
          setMap_eb db t _, Or.inr (Or.inr ⟨p.cls, m, ?_⟩)⟩
        split <;> rename_i heq <;> simp only [heq, infoOf]
    · rw [if_neg hev]; exact ⟨_, setMap_eb _ _ _, Or.inr (Or.inl rfl)⟩

theorem update_ordered (db : Db) (t : PtType) (idx : Nat) (v : Int) (f tm : Nat) (h : Ordered db) :
    Ordered (db.update t idx v f tm).1 := by
  obtain ⟨db0, he, h1 | h1 | ⟨cls, m, h1⟩⟩ := update_spec db t idx v f tm <;> rw [h1]
  · exact he.ordered h
  · exact he.ordered h
  · exact insert_ordered _ _ _ _ _ _ (he.ordered h)

theorem update_total (db : Db) (t : PtType) (idx : Nat) (v : Int) (f tm : Nat) (h : TotalExact db) :
    TotalExact (db.update t idx v f tm).1 := by
  obtain ⟨db0, he, h1 | h1 | ⟨cls, m, h1⟩⟩ := update_spec db t idx v f tm <;> rw [h1]
  · exact he.total h
  · exact he.total h
  · exact insert_total _ _ _ _ _ _ (he.total h)

theorem update_written (db : Db) (t : PtType) (idx : Nat) (v : Int) (f tm : Nat) (h : WrittenExact db) :
    WrittenExact (db.update t idx v f tm).1 := by
  obtain ⟨db0, he, h1 | h1 | ⟨cls, m, h1⟩⟩ := update_spec db t idx v f tm <;> rw [h1]
  · exact he.written h
  · exact he.written h
  · exact insert_written _ _ _ _ _ _ (he.written h)

/-! ## record-by-record relations between two event lists -/

inductive Pointwise {α : Type} (R : α → α → Prop) : List α → List α → Prop where
  | nil : Pointwise R [] []
  | cons {a b : α} {as bs : List α} : R a b → Pointwise R as bs → Pointwise R (a :: as) (b :: bs)

theorem Pointwise.refl' {α : Type} {R : α → α → Prop} (h : ∀ a, R a a) : ∀ l : List α, Pointwise R l l
  | [] => .nil
  | a :: as => .cons (h a) (Pointwise.refl' h as)

theorem Pointwise.mono {α : Type} {R S : α → α → Prop} (h : ∀ a b, R a b → S a b) {l l' : List α}
    (p : Pointwise R l l') : Pointwise S l l' := by
  induction p with
  | nil => exact .nil
  | cons hr _ ih => exact .cons (h _ _ hr) ih

theorem Pointwise.length_eq {α : Type} {R : α → α → Prop} {l l' : List α} (p : Pointwise R l l') :
    l'.length = l.length := by
  induction p with
  | nil => rfl
  | cons _ _ ih => simp [ih]

theorem Pointwise.map_eq {α β : Type} {R : α → α → Prop} (f : α → β) (h : ∀ a b, R a b → f b = f a)
    {l l' : List α} (p : Pointwise R l l') : l'.map f = l.map f := by
  induction p with
  | nil => rfl
  | cons hr _ ih => simp [h _ _ hr, ih]

theorem Pointwise.comp {α : Type} {R S T : α → α → Prop} (h : ∀ a b c, R a b → S b c → T a c)
    {l l' l'' : List α} (p : Pointwise R l l') (q : Pointwise S l' l'') : Pointwise T l l'' := by
  induction p generalizing l'' with
  | nil => cases q; exact .nil
  | cons hr _ ih => cases q with | cons hs q' => exact .cons (h _ _ _ hr hs) (ih q')

/-- everything about a record except its selection state and selected variation -/
def core (r : EvRec) : Nat × Nat × Nat × PtType × Meas × Nat := (r.id, r.index, r.cls, r.ty, r.m, r.defVar)

theorem core_id {a b : EvRec} (h : core b = core a) : b.id = a.id := by
  simp only [core, Prod.mk.injEq] at h; exact h.1
theorem core_cls {a b : EvRec} (h : core b = core a) : b.cls = a.cls := by
  simp only [core, Prod.mk.injEq] at h; exact h.2.2.1
theorem core_ty {a b : EvRec} (h : core b = core a) : b.ty = a.ty := by
  simp only [core, Prod.mk.injEq] at h; exact h.2.2.2.1

/-- counters only look at class, type and (for `written`) the predicate -/
theorem tallyBy_congr (p : EvRec → Bool) {R : EvRec → EvRec → Prop}
    (h : ∀ a b, R a b → core b = core a ∧ p b = p a) {l l' : List EvRec} (pw : Pointwise R l l') :
    tallyBy p l' = tallyBy p l := by
  induction pw with
  | nil => rfl
  | @cons a b as bs hr _ ih =>
    obtain ⟨hc, hp⟩ := h _ _ hr
    have e1 := tallyBy_cons_fields p a as
    have e2 := tallyBy_cons_fields p b bs
    rw [hp, core_cls hc, core_ty hc, ih] at e2
    apply Counters.ext' <;> omega

theorem ordered_of_ids {l l' : List EvRec} (n : Nat) (h : l'.map (·.id) = l.map (·.id))
    (ho : l.Pairwise (fun a b => a.id < b.id) ∧ ∀ r ∈ l, r.id < n) :
    l'.Pairwise (fun a b => a.id < b.id) ∧ ∀ r ∈ l', r.id < n := by
  obtain ⟨hp, hn⟩ := ho
  constructor
  · have : (l.map (·.id)).Pairwise (· < ·) := List.pairwise_map.mpr hp
    rw [← h] at this
    exact List.pairwise_map.mp this
  · intro r hr
    have : r.id ∈ l'.map (·.id) := List.mem_map.mpr ⟨r, hr, rfl⟩
    rw [h] at this
    obtain ⟨r0, hr0, he⟩ := List.mem_map.mp this
    rw [← he]; exact hn r0 hr0

/-! ## `select` (events) -/

/-- one record under a selection: unchanged, or `Unselected` → `Selected` with some variation -/
def SelStep (a b : EvRec) : Prop :=
  b = a ∨ (a.st = .unselected ∧ ∃ v, b = { a with st := .selected, selVar := v })

theorem SelStep.core {a b : EvRec} (h : SelStep a b) : core b = core a ∧ isWritten b = isWritten a := by
  rcases h with rfl | ⟨hu, v, rfl⟩
  · exact ⟨rfl, rfl⟩
  · simp only [DbProofs.core, isWritten, hu, true_and]; decide

/-- `EventBuffer::select` only ever moves records from `Unselected` to `Selected` -/
theorem selectEvents_pointwise (p : EvRec → Bool) (var : Option Nat) :
    ∀ (l : List EvRec) (lim : Option Nat), Pointwise SelStep l (selectEvents p var lim l).1 := by
  intro l
  induction l with
  | nil => intro lim; cases lim <;> simp [selectEvents] <;> exact .nil
  | cons r rs ih =>
    intro lim
    by_cases hz : lim = some 0
    · subst hz
      simp only [selectEvents]
      exact Pointwise.refl' (R := SelStep) (fun a => Or.inl rfl) _
    · rw [selectEvents.eq_3 _ _ _ _ _ (by intro h; exact hz h)]
      split
      · rename_i hc
        exact .cons (Or.inr ⟨hc.1, _, rfl⟩) (ih _)
      · exact .cons (Or.inl rfl) (ih _)

/-- the event buffer after a selection: records moved `Unselected` → `Selected`, nothing else -/
def EbSel (db db' : Db) : Prop :=
  Pointwise SelStep db.events db'.events ∧ db'.total = db.total ∧ db'.written = db.written ∧
  db'.next = db.next ∧ db'.evMax = db.evMax ∧ db'.overflown = db.overflown

theorem EbEq.toSel {db db' : Db} (h : EbEq db db') : EbSel db db' := by
  obtain ⟨h1, h2, h3, h4, h5, h6⟩ := h
  refine ⟨?_, h2, h3, h4, h5, h6⟩
  rw [h1]; exact Pointwise.refl' (R := SelStep) (fun a => Or.inl rfl) _

theorem EbSel.ordered {db db' : Db} (h : EbSel db db') (ho : Ordered db) : Ordered db' := by
  obtain ⟨h1, _, _, h4, _, _⟩ := h
  unfold Ordered at *; rw [h4]
  exact ordered_of_ids _ (h1.map_eq (·.id) (fun a b hs => core_id hs.core.1)) ho
theorem EbSel.total {db db' : Db} (h : EbSel db db') (ho : TotalExact db) : TotalExact db' := by
  obtain ⟨h1, h2, _, _, _, _⟩ := h
  unfold TotalExact at *; rw [h2, ho]
  exact (tallyBy_congr anyRec (fun a b hs => ⟨hs.core.1, rfl⟩) h1).symm
theorem EbSel.written {db db' : Db} (h : EbSel db db') (ho : WrittenExact db) : WrittenExact db' := by
  obtain ⟨h1, _, h3, _, _, _⟩ := h
  unfold WrittenExact at *; rw [h3, ho]
  exact (tallyBy_congr isWritten (fun a b hs => hs.core) h1).symm

/-- `DatabaseHandle::select` never touches the event buffer except to move records from
    `Unselected` to `Selected` -/
theorem select_sel (db : Db) (h : ReadHdr) : EbSel db (db.select h).1 := by
  unfold Db.select
  split
  · exact (selectClass0_eb db).toSel
  · exact ⟨selectEvents_pointwise _ _ _ _, rfl, rfl, rfl, rfl, rfl⟩
  · exact ⟨selectEvents_pointwise _ _ _ _, rfl, rfl, rfl, rfl, rfl⟩
  · exact (EbEq.refl db).toSel
  · exact (selectStatic_eb db _ _ _).toSel
  · split
    · exact (EbEq.refl db).toSel
    · exact (pushSel_eb db _).toSel
  · split
    · exact (EbEq.refl db).toSel
    · exact (pushSel_eb db _).toSel
  · exact (EbEq.refl db).toSel
  · split <;> exact (EbEq.refl db).toSel
  · split
    · exact (EbEq.refl db).toSel
    · split
      · split
        · exact ⟨Pointwise.refl' (R := SelStep) (fun a => Or.inl rfl) _, rfl, rfl, rfl, rfl, rfl⟩
        · exact (EbEq.refl db).toSel
      · exact (EbEq.refl db).toSel
  · exact (EbEq.refl db).toSel
  · exact (EbEq.refl db).toSel
  · exact (EbEq.refl db).toSel

/-! ## `write_events` -/

def isSelected (r : EvRec) : Bool := r.st == .selected

/-- mark the first `n` `Selected` records (in list order) `Written` -/
def markFirst : Nat → List EvRec → List EvRec
  | 0, l => l
  | _, [] => []
  | n + 1, r :: rs =>
    if r.st = .selected then { r with st := .written } :: markFirst n rs else r :: markFirst (n + 1) rs

theorem markFirst_nil (n : Nat) : markFirst n [] = [] := by cases n <;> rfl

theorem markFirst_cons_sel (n : Nat) (r : EvRec) (rs : List EvRec) (h : r.st = .selected) :
    markFirst (n + 1) (r :: rs) = { r with st := .written } :: markFirst n rs := by
  simp [markFirst, h]

theorem markFirst_cons_other (n : Nat) (r : EvRec) (rs : List EvRec) (h : r.st ≠ .selected) :
    markFirst n (r :: rs) = r :: markFirst n rs := by
  cases n with
  | zero => simp [markFirst]
  | succ n => simp [markFirst, h]

/-- `write_events` marks `Written` exactly a prefix (in list order) of the `Selected` records:
    the records it reports as written; it is complete iff that prefix is all of them, and
    otherwise the next `Selected` record did not fit -/
theorem evLoop_spec (cap : Nat) :
    ∀ (l : List EvRec) (used : Nat) (cur : Option EvCur),
      (evLoop cap l used cur).1 = markFirst (evLoop cap l used cur).2.1.length l ∧
      (evLoop cap l used cur).2.1 = (l.filter isSelected).take (evLoop cap l used cur).2.1.length ∧
      ((evLoop cap l used cur).2.2 = true → (evLoop cap l used cur).2.1 = l.filter isSelected) ∧
      ((evLoop cap l used cur).2.2 = false →
        (evLoop cap l used cur).2.1.length < (l.filter isSelected).length) := by
  intro l
  induction l with
  | nil => intro used cur; simp [evLoop, markFirst]
  | cons r rs ih =>
    intro used cur
    unfold evLoop
    by_cases hs : r.st = .selected
    · have hsel : isSelected r = true := by simp [isSelected, hs]
      simp only [hs, if_true]
      by_cases hfit : used + evCost cur r ≤ cap
      · simp only [hfit, if_true]
        obtain ⟨i1, i2, i3, i4⟩ := ih (used + evCost cur r) (some (evNext cur r))
        refine ⟨?_, ?_, ?_, ?_⟩
        · simp only [List.length_cons]
          rw [markFirst_cons_sel _ _ _ hs, ← i1]
        · simp only [List.length_cons, List.filter_cons, hsel, if_true, List.take_succ_cons]
          rw [← i2]
        · intro hc
          simp only [List.filter_cons, hsel, if_true]
          rw [i3 hc]
        · intro hc
          simp only [List.length_cons, List.filter_cons, hsel, if_true]
          exact Nat.succ_lt_succ (i4 hc)
      · simp only [hfit, if_false]
        refine ⟨by simp [markFirst], by simp, by simp, ?_⟩
        intro _; simp [hsel]
    · have hsel : isSelected r = false := by simp [isSelected, hs]
      simp only [hs, if_false]
      obtain ⟨i1, i2, i3, i4⟩ := ih used cur
      refine ⟨?_, ?_, ?_, ?_⟩
      · rw [markFirst_cons_other _ _ _ hs, ← i1]
      · simp only [List.filter_cons, hsel]; exact i2
      · intro hc; simp only [List.filter_cons, hsel]; exact i3 hc
      · intro hc; simp only [List.filter_cons, hsel]; exact i4 hc

/-- one record under `write_events`: unchanged, or `Selected` → `Written` -/
def WrStep (a b : EvRec) : Prop := b = a ∨ (a.st = .selected ∧ b = { a with st := .written })

theorem WrStep.core {a b : EvRec} (h : WrStep a b) : core b = core a := by
  rcases h with rfl | ⟨_, rfl⟩ <;> rfl

theorem markFirst_pointwise : ∀ (l : List EvRec) (n : Nat), Pointwise WrStep l (markFirst n l) := by
  intro l
  induction l with
  | nil => intro n; rw [markFirst_nil]; exact .nil
  | cons r rs ih =>
    intro n
    cases n with
    | zero => simp only [markFirst]; exact Pointwise.refl' (R := WrStep) (fun a => Or.inl rfl) _
    | succ n =>
      by_cases hs : r.st = .selected
      · rw [markFirst_cons_sel _ _ _ hs]; exact .cons (Or.inr ⟨hs, rfl⟩) (ih n)
      · rw [markFirst_cons_other _ _ _ hs]; exact .cons (Or.inl rfl) (ih (n + 1))

theorem foldl_inc_fields : ∀ (w : List EvRec) (c : Counters),
    (w.foldl Counters.inc c).c1 = c.c1 + (tallyBy anyRec w).c1 ∧
    (w.foldl Counters.inc c).c2 = c.c2 + (tallyBy anyRec w).c2 ∧
    (w.foldl Counters.inc c).c3 = c.c3 + (tallyBy anyRec w).c3 ∧
    (w.foldl Counters.inc c).bin = c.bin + (tallyBy anyRec w).bin ∧
    (w.foldl Counters.inc c).an = c.an + (tallyBy anyRec w).an := by
  intro w
  induction w with
  | nil => intro c; simp [tallyBy]
  | cons r rs ih =>
    intro c
    have e1 := ih (c.inc r)
    have e2 := inc_fields c r
    have e3 := tallyBy_cons_fields anyRec r rs
    simp only [anyRec, Bool.true_and] at e3
    simp only [List.foldl_cons]
    omega

/-- marking the first `n` selected records adds exactly their tally to the `Written` tally -/
theorem markFirst_tally : ∀ (l : List EvRec) (n : Nat),
    (tallyBy isWritten (markFirst n l)).c1 = (tallyBy isWritten l).c1 + (tallyBy anyRec ((l.filter isSelected).take n)).c1 ∧
    (tallyBy isWritten (markFirst n l)).c2 = (tallyBy isWritten l).c2 + (tallyBy anyRec ((l.filter isSelected).take n)).c2 ∧
    (tallyBy isWritten (markFirst n l)).c3 = (tallyBy isWritten l).c3 + (tallyBy anyRec ((l.filter isSelected).take n)).c3 ∧
    (tallyBy isWritten (markFirst n l)).bin = (tallyBy isWritten l).bin + (tallyBy anyRec ((l.filter isSelected).take n)).bin ∧
    (tallyBy isWritten (markFirst n l)).an = (tallyBy isWritten l).an + (tallyBy anyRec ((l.filter isSelected).take n)).an := by
  intro l
  induction l with
  | nil => intro n; rw [markFirst_nil]; simp [tallyBy]
  | cons r rs ih =>
    intro n
    cases n with
    | zero => simp [markFirst, tallyBy]
    | succ n =>
      by_cases hs : r.st = .selected
      · have hsel : isSelected r = true := by simp [isSelected, hs]
        rw [markFirst_cons_sel _ _ _ hs]
        simp only [List.filter_cons, hsel, if_true, List.take_succ_cons]
        have e1 := tallyBy_cons_fields isWritten { r with st := .written } (markFirst n rs)
        have e2 := tallyBy_cons_fields isWritten r rs
        have e3 := tallyBy_cons_fields anyRec r ((rs.filter isSelected).take n)
        have e4 := ih n
        have h1 : isWritten { r with st := .written } = true := rfl
        have h2 : isWritten r = false := by simp [isWritten, hs]
        simp only [h1, h2, anyRec, Bool.true_and, Bool.false_and, b2n_false] at e1 e2 e3
        omega
      · have hsel : isSelected r = false := by simp [isSelected, hs]
        rw [markFirst_cons_other _ _ _ hs]
        simp only [List.filter_cons, hsel]
        have e1 := tallyBy_cons_fields isWritten r (markFirst (n + 1) rs)
        have e2 := tallyBy_cons_fields isWritten r rs
        have e4 := ih (n + 1)
        simp only [Bool.false_eq_true, if_false]
        omega

/-- what `Db.writeEvents` does to the event buffer: the first `n` selected records become
    `Written`, `written` grows by their tally -/
theorem writeEvents_spec (db : Db) (cap : Nat) :
    ∃ n, (db.writeEvents cap).1.events = markFirst n db.events ∧
      (db.writeEvents cap).2.1 = (db.events.filter isSelected).take n ∧
      n = (db.writeEvents cap).2.1.length ∧
      (db.writeEvents cap).1.written = ((db.events.filter isSelected).take n).foldl Counters.inc db.written ∧
      (db.writeEvents cap).1.total = db.total ∧ (db.writeEvents cap).1.next = db.next ∧
      (db.writeEvents cap).1.evMax = db.evMax ∧ (db.writeEvents cap).1.overflown = db.overflown ∧
      (db.writeEvents cap).1.queue = db.queue ∧ (db.writeEvents cap).1.bins = db.bins ∧
      (db.writeEvents cap).1.ans = db.ans ∧ (db.writeEvents cap).1.selCap = db.selCap ∧
      ((db.writeEvents cap).2.2 = true → n = (db.events.filter isSelected).length) ∧
      ((db.writeEvents cap).2.2 = false → n < (db.events.filter isSelected).length) := by
  obtain ⟨i1, i2, i3, i4⟩ := evLoop_spec cap db.events 0 none
  refine ⟨(evLoop cap db.events 0 none).2.1.length, ?_⟩
  refine ⟨i1, i2, rfl, ?_, rfl, rfl, rfl, rfl, rfl, rfl, rfl, rfl, ?_, i4⟩
  · show (evLoop cap db.events 0 none).2.1.foldl Counters.inc db.written = _
    rw [← i2]
  · intro hc
    have : (evLoop cap db.events 0 none).2.1 = db.events.filter isSelected := i3 hc
    rw [this]

/-- records change only by `Selected` → `Written` -/
def EbWr (db db' : Db) : Prop :=
  Pointwise WrStep db.events db'.events ∧ db'.total = db.total ∧ db'.next = db.next ∧
  db'.evMax = db.evMax ∧ db'.overflown = db.overflown

theorem writeEvents_ordered (db : Db) (cap : Nat) (h : Ordered db) : Ordered (db.writeEvents cap).1 := by
  obtain ⟨n, h1, _, _, _, _, h6, _⟩ := writeEvents_spec db cap
  unfold Ordered at *
  rw [h1, h6]
  exact ordered_of_ids _ ((markFirst_pointwise db.events n).map_eq (·.id) (fun a b hs => core_id hs.core)) h

theorem writeEvents_total (db : Db) (cap : Nat) (h : TotalExact db) : TotalExact (db.writeEvents cap).1 := by
  obtain ⟨n, h1, _, _, _, h5, _⟩ := writeEvents_spec db cap
  unfold TotalExact at *
  rw [h1, h5, h]
  exact (tallyBy_congr anyRec (fun a b hs => ⟨hs.core, rfl⟩) (markFirst_pointwise db.events n)).symm

theorem writeEvents_written (db : Db) (cap : Nat) (h : WrittenExact db) :
    WrittenExact (db.writeEvents cap).1 := by
  obtain ⟨n, h1, _, _, h4, _⟩ := writeEvents_spec db cap
  unfold WrittenExact at *
  rw [h1, h4, h]
  have e1 := foldl_inc_fields ((db.events.filter isSelected).take n) (tallyBy isWritten db.events)
  have e2 := markFirst_tally db.events n
  apply Counters.ext' <;> omega

/-! ## `reset`, `clearWritten` -/

theorem reset_pointwise (l : List EvRec) :
    Pointwise (fun a b => b = { a with st := .unselected }) l (l.map (fun r => { r with st := .unselected })) := by
  induction l with
  | nil => exact .nil
  | cons r rs ih => exact .cons rfl ih

theorem tallyBy_none (p : EvRec → Bool) (l : List EvRec) (h : ∀ r ∈ l, p r = false) : tallyBy p l = {} := by
  induction l with
  | nil => rfl
  | cons r rs ih =>
    have e := tallyBy_cons_fields p r rs
    rw [ih (fun x hx => h x (List.mem_cons_of_mem _ hx)), h r (List.mem_cons_self ..)] at e
    simp only [Bool.false_and, b2n_false] at e
    apply Counters.ext' <;> simp only [] <;> omega

/-- `reset` releases nothing and returns every record to `Unselected` -/
theorem reset_spec (db : Db) :
    db.reset.events = db.events.map (fun r => { r with st := .unselected }) ∧
    db.reset.events.map core = db.events.map core ∧
    (∀ r ∈ db.reset.events, r.st = .unselected) ∧
    db.reset.total = db.total ∧ db.reset.written = {} ∧ db.reset.next = db.next ∧
    db.reset.evMax = db.evMax ∧ db.reset.overflown = db.overflown ∧ db.reset.queue = [] := by
  refine ⟨rfl, ?_, ?_, rfl, rfl, rfl, rfl, rfl, rfl⟩
  · exact (reset_pointwise db.events).map_eq core (fun a b hb => by rw [hb]; rfl)
  · intro r hr
    simp only [Db.reset, List.mem_map] at hr
    obtain ⟨a, _, rfl⟩ := hr
    rfl

theorem reset_ordered (db : Db) (h : Ordered db) : Ordered db.reset := by
  unfold Ordered at *
  exact ordered_of_ids _ ((reset_pointwise db.events).map_eq (·.id) (fun a b hb => by rw [hb])) h

theorem reset_total (db : Db) (h : TotalExact db) : TotalExact db.reset := by
  unfold TotalExact at *
  show db.total = _
  rw [h]
  exact (tallyBy_congr anyRec (fun a b hb => by rw [hb]; exact ⟨rfl, rfl⟩) (reset_pointwise db.events)).symm

/-- `reset` re-establishes `WrittenExact` whatever the state was (it heals D3) -/
theorem reset_written (db : Db) : WrittenExact db.reset := by
  unfold WrittenExact
  show ({} : Counters) = _
  rw [tallyBy_none]
  intro r hr
  have := (reset_spec db).2.2.1 r hr
  simp [isWritten, this]

theorem foldl_dec_fields : ∀ (g : List EvRec) (c : Counters),
    (g.foldl Counters.dec c).c1 = c.c1 - (tallyBy anyRec g).c1 ∧
    (g.foldl Counters.dec c).c2 = c.c2 - (tallyBy anyRec g).c2 ∧
    (g.foldl Counters.dec c).c3 = c.c3 - (tallyBy anyRec g).c3 ∧
    (g.foldl Counters.dec c).bin = c.bin - (tallyBy anyRec g).bin ∧
    (g.foldl Counters.dec c).an = c.an - (tallyBy anyRec g).an := by
  intro g
  induction g with
  | nil => intro c; simp [tallyBy]
  | cons r rs ih =>
    intro c
    have e1 := ih (c.dec r)
    have e2 := dec_fields c r
    have e3 := tallyBy_cons_fields anyRec r rs
    simp only [anyRec, Bool.true_and] at e3
    simp only [List.foldl_cons]
    obtain ⟨a1, a2, a3, a4, a5⟩ := e1
    obtain ⟨b1, b2, b3, b4, b5⟩ := e2
    obtain ⟨c1, c2, c3, c4, c5⟩ := e3
    refine ⟨?_, ?_, ?_, ?_, ?_⟩
    · clear a2 a3 a4 a5 b2 b3 b4 b5 c2 c3 c4 c5; omega
    · clear a1 a3 a4 a5 b1 b3 b4 b5 c1 c3 c4 c5; omega
    · clear a1 a2 a4 a5 b1 b2 b4 b5 c1 c2 c4 c5; omega
    · clear a1 a2 a3 a5 b1 b2 b3 b5 c1 c2 c3 c5; omega
    · clear a1 a2 a3 a4 b1 b2 b3 b4 c1 c2 c3 c4; omega

theorem tallyBy_filter_split (q : EvRec → Bool) (l : List EvRec) :
    (tallyBy anyRec l).c1 = (tallyBy anyRec (l.filter q)).c1 + (tallyBy anyRec (l.filter (fun r => !q r))).c1 ∧
    (tallyBy anyRec l).c2 = (tallyBy anyRec (l.filter q)).c2 + (tallyBy anyRec (l.filter (fun r => !q r))).c2 ∧
    (tallyBy anyRec l).c3 = (tallyBy anyRec (l.filter q)).c3 + (tallyBy anyRec (l.filter (fun r => !q r))).c3 ∧
    (tallyBy anyRec l).bin = (tallyBy anyRec (l.filter q)).bin + (tallyBy anyRec (l.filter (fun r => !q r))).bin ∧
    (tallyBy anyRec l).an = (tallyBy anyRec (l.filter q)).an + (tallyBy anyRec (l.filter (fun r => !q r))).an := by
  induction l with
  | nil => simp [tallyBy]
  | cons r rs ih =>
    have e0 := tallyBy_cons_fields anyRec r rs
    cases hq : q r
    · have e1 := tallyBy_cons_fields anyRec r (rs.filter (fun r => !q r))
      simp only [List.filter_cons, hq, Bool.not_false, if_true, Bool.false_eq_true, if_false]
      omega
    · have e1 := tallyBy_cons_fields anyRec r (rs.filter q)
      simp only [List.filter_cons, hq, Bool.not_true, if_true, Bool.false_eq_true, if_false]
      omega

/-- `clearWritten` removes exactly the `Written` records and reports their ids in list order -/
theorem clear_spec (db : Db) :
    db.clearWritten.1.events = db.events.filter (fun r => !isWritten r) ∧
    db.clearWritten.2.1 = (db.events.filter isWritten).map (·.id) ∧
    db.clearWritten.1.written = {} ∧ db.clearWritten.1.next = db.next ∧
    db.clearWritten.1.evMax = db.evMax ∧
    db.clearWritten.1.total = (db.events.filter isWritten).foldl Counters.dec db.total ∧
    db.clearWritten.2.2 = (db.clearWritten.1.total.c1, db.clearWritten.1.total.c2, db.clearWritten.1.total.c3) ∧
    db.clearWritten.1.queue = db.queue ∧ db.clearWritten.1.bins = db.bins ∧ db.clearWritten.1.ans = db.ans := by
  unfold Db.clearWritten
  simp only []
  have hf : (fun r : EvRec => r.st != EvState.written) = (fun r => !isWritten r) := by
    funext r; simp [isWritten, bne]
  have hg : (fun r : EvRec => r.st == EvState.written) = isWritten := rfl
  split <;> simp only [hf, hg] <;> (repeat' constructor)

theorem clear_ordered (db : Db) (h : Ordered db) : Ordered db.clearWritten.1 := by
  obtain ⟨h1, _, _, h4, _⟩ := clear_spec db
  obtain ⟨hp, hn⟩ := h
  unfold Ordered
  rw [h1, h4]
  exact ⟨hp.sublist List.filter_sublist, fun r hr => hn r (List.mem_filter.mp hr).1⟩

theorem clear_total (db : Db) (h : TotalExact db) : TotalExact db.clearWritten.1 := by
  obtain ⟨h1, _, _, _, _, h6, _⟩ := clear_spec db
  unfold TotalExact at *
  rw [h1, h6, h]
  have e1 := foldl_dec_fields (db.events.filter isWritten) (tallyBy anyRec db.events)
  have e2 := tallyBy_filter_split isWritten db.events
  apply Counters.ext' <;> omega

/-- `clearWritten` re-establishes `WrittenExact` whatever the state was (it heals D3) -/
theorem clear_written (db : Db) : WrittenExact db.clearWritten.1 := by
  obtain ⟨h1, _, h3, _⟩ := clear_spec db
  unfold WrittenExact
  rw [h1, h3, tallyBy_none]
  intro r hr
  have := (List.mem_filter.mp hr).2
  simpa using this

/-! ## response writing: event-buffer part -/

theorem writeResponse_eb (db : Db) (cap : Nat) : EbEq (db.writeEvents cap).1 (db.writeResponse cap).1 := by
  unfold Db.writeResponse
  simp only []
  split <;> exact ⟨rfl, rfl, rfl, rfl, rfl, rfl⟩

/-- the event-buffer state after `write_unsolicited` is: reset, select the classes, then either
    nothing (no record selected) or `write_events` -/
theorem writeUnsolicited_eb (db : Db) (c1 c2 c3 : Bool) (cap : Nat) :
    ∃ dbs, EbSel db.reset dbs ∧
      ((db.writeUnsolicited c1 c2 c3 cap).1 = dbs ∨
       (db.writeUnsolicited c1 c2 c3 cap).1 = (dbs.writeEvents cap).1) := by
  unfold Db.writeUnsolicited
  simp only []
  refine ⟨{ db.reset with events := (selectEvents (fun r => (c1 && r.cls == 1) || (c2 && r.cls == 2) || (c3 && r.cls == 3)) none none db.reset.events).1 },
    ⟨selectEvents_pointwise _ _ _ _, rfl, rfl, rfl, rfl, rfl⟩, ?_⟩
  split
  · left; rfl
  · right; rfl

/-! ## every operation preserves the invariants -/

theorem ordered_step (db : Db) (op : DbOp) (h : Ordered db) : Ordered (step db op) := by
  cases op with
  | add t idx cls => exact (add_eb db t idx cls).ordered h
  | update t idx v f tm => exact update_ordered db t idx v f tm h
  | select hd => exact (select_sel db hd).ordered h
  | write cap => exact (writeResponse_eb db cap).ordered (writeEvents_ordered db cap h)
  | unsol c1 c2 c3 cap =>
    obtain ⟨dbs, hs, he | he⟩ := writeUnsolicited_eb db c1 c2 c3 cap
    · show Ordered (db.writeUnsolicited c1 c2 c3 cap).1
      rw [he]; exact hs.ordered (reset_ordered db h)
    · show Ordered (db.writeUnsolicited c1 c2 c3 cap).1
      rw [he]; exact writeEvents_ordered _ _ (hs.ordered (reset_ordered db h))
  | clear => exact clear_ordered db h
  | reset => exact reset_ordered db h

theorem total_step (db : Db) (op : DbOp) (h : TotalExact db) : TotalExact (step db op) := by
  cases op with
  | add t idx cls => exact (add_eb db t idx cls).total h
  | update t idx v f tm => exact update_total db t idx v f tm h
  | select hd => exact (select_sel db hd).total h
  | write cap => exact (writeResponse_eb db cap).total (writeEvents_total db cap h)
  | unsol c1 c2 c3 cap =>
    obtain ⟨dbs, hs, he | he⟩ := writeUnsolicited_eb db c1 c2 c3 cap
    · show TotalExact (db.writeUnsolicited c1 c2 c3 cap).1
      rw [he]; exact hs.total (reset_total db h)
    · show TotalExact (db.writeUnsolicited c1 c2 c3 cap).1
      rw [he]; exact writeEvents_total _ _ (hs.total (reset_total db h))
  | clear => exact clear_total db h
  | reset => exact reset_total db h

theorem written_step (db : Db) (op : DbOp) (h : WrittenExact db) : WrittenExact (step db op) := by
  cases op with
  | add t idx cls => exact (add_eb db t idx cls).written h
  | update t idx v f tm => exact update_written db t idx v f tm h
  | select hd => exact (select_sel db hd).written h
  | write cap => exact (writeResponse_eb db cap).written (writeEvents_written db cap h)
  | unsol c1 c2 c3 cap =>
    obtain ⟨dbs, hsel, he | he⟩ := writeUnsolicited_eb db c1 c2 c3 cap
    · show WrittenExact (db.writeUnsolicited c1 c2 c3 cap).1
      rw [he]; exact hsel.written (reset_written db)
    · show WrittenExact (db.writeUnsolicited c1 c2 c3 cap).1
      rw [he]; exact writeEvents_written _ _ (hsel.written (reset_written db))
  | clear => exact clear_written db
  | reset => exact reset_written db

instance (db : Db) : Decidable (TotalExact db) := by unfold TotalExact; exact inferInstance
instance (db : Db) : Decidable (WrittenExact db) := by unfold WrittenExact; exact inferInstance
instance (db : Db) : Decidable (CountersExact db) := by unfold CountersExact; exact inferInstance
instance (db : Db) : Decidable (Ordered db) := by unfold Ordered; exact inferInstance

/-- in an `Ordered` buffer a record is determined by its id -/
theorem ordered_id_inj {l : List EvRec} (hp : l.Pairwise (fun a b => a.id < b.id)) {x r : EvRec}
    (hx : x ∈ l) (hr : r ∈ l) (hid : x.id = r.id) : x = r := by
  induction l with
  | nil => simp at hx
  | cons a as ih =>
    obtain ⟨h1, h2⟩ := List.pairwise_cons.mp hp
    rcases List.mem_cons.mp hx with rfl | hx' <;> rcases List.mem_cons.mp hr with rfl | hr'
    · rfl
    · exact absurd hid (Nat.ne_of_lt (h1 r hr'))
    · exact absurd hid.symm (Nat.ne_of_lt (h1 x hx'))
    · exact ih h2 hx' hr'

theorem new_ordered (evMax : Nat) (sel : Option Nat) : Ordered (Db.new evMax sel) := by
  simp [Ordered, Db.new]
theorem new_total (evMax : Nat) (sel : Option Nat) : TotalExact (Db.new evMax sel) := rfl
theorem new_written (evMax : Nat) (sel : Option Nat) : WrittenExact (Db.new evMax sel) := rfl

theorem ordered_run (db : Db) (ops : List DbOp) (h : Ordered db) : Ordered (run db ops) := by
  induction ops generalizing db with
  | nil => exact h
  | cons op ops ih => exact ih _ (ordered_step db op h)

theorem total_run (db : Db) (ops : List DbOp) (h : TotalExact db) : TotalExact (run db ops) := by
  induction ops generalizing db with
  | nil => exact h
  | cons op ops ih => exact ih _ (total_step db op h)

theorem written_run (db : Db) (ops : List DbOp) (h : WrittenExact db) : WrittenExact (run db ops) := by
  induction ops generalizing db with
  | nil => exact h
  | cons op ops ih => exact ih _ (written_step db op h)

theorem counters_step (db : Db) (op : DbOp) (h : CountersExact db) : CountersExact (step db op) :=
  ⟨total_step db op h.1, written_step db op h.2⟩

theorem counters_run (db : Db) (ops : List DbOp) (h : CountersExact db) : CountersExact (run db ops) :=
  ⟨total_run db ops h.1, written_run db ops h.2⟩

theorem new_counters (evMax : Nat) (sel : Option Nat) : CountersExact (Db.new evMax sel) :=
  ⟨new_total evMax sel, new_written evMax sel⟩

/-! ## `kept`: nothing but a reported overflow discard and `clearWritten` removes a record -/

/-- `r` survives in `l'` (same id, index, class, type, measurement, default variation) -/
def SurvivesIn (r : EvRec) (l' : List EvRec) : Prop := ∃ r' ∈ l', core r' = core r

theorem survives_of_map_core {l l' : List EvRec} (h : l'.map core = l.map core) (r : EvRec) (hr : r ∈ l) :
    SurvivesIn r l' := by
  have : core r ∈ l.map core := List.mem_map.mpr ⟨r, hr, rfl⟩
  rw [← h] at this
  obtain ⟨r', hr', he⟩ := List.mem_map.mp this
  exact ⟨r', hr', he⟩

theorem survives_trans {r r' : EvRec} {l : List EvRec} (h : core r' = core r) (h2 : SurvivesIn r' l) :
    SurvivesIn r l := by
  obtain ⟨x, hx, he⟩ := h2
  exact ⟨x, hx, he.trans h⟩

theorem EbSel.survives {db db' : Db} (h : EbSel db db') (r : EvRec) (hr : r ∈ db.events) :
    SurvivesIn r db'.events :=
  survives_of_map_core (h.1.map_eq core (fun _ _ hs => hs.core.1)) r hr

theorem writeEvents_survives (db : Db) (cap : Nat) (r : EvRec) (hr : r ∈ db.events) :
    SurvivesIn r (db.writeEvents cap).1.events := by
  obtain ⟨n, h1, _⟩ := writeEvents_spec db cap
  rw [h1]
  exact survives_of_map_core ((markFirst_pointwise db.events n).map_eq core (fun a b hs => hs.core)) r hr

theorem reset_survives (db : Db) (r : EvRec) (hr : r ∈ db.events) : SurvivesIn r db.reset.events :=
  survives_of_map_core (reset_spec db).2.1 r hr

/-- an insert keeps every record except the one it reports as discarded -/
theorem insert_survives (db : Db) (idx cls : Nat) (t : PtType) (m : Meas) (dv : Nat) (r : EvRec)
    (hr : r ∈ db.events) :
    SurvivesIn r (db.insert idx cls t m dv).1.events ∨
    ∃ c, (db.insert idx cls t m dv).2 = .overflow c r.id := by
  rcases insert_cases db idx cls t m dv with ⟨_, he⟩ | ⟨_, d, rest, hfull, hrem, he⟩ | ⟨_, _, he⟩
  · rw [he]; exact Or.inl ⟨r, hr, rfl⟩
  · rw [he]
    obtain ⟨_, pre, post, hl, hrest, _⟩ := removeFirstTy_spec t _ _ _ hrem
    rw [hl] at hr
    rcases List.mem_append.mp hr with h | h
    · exact Or.inl ⟨r, by simp [hrest, h], rfl⟩
    · rcases List.mem_cons.mp h with h | h
      · right; exact ⟨db.next, by rw [h]⟩
      · exact Or.inl ⟨r, by simp [hrest, h], rfl⟩
  · rw [he]; exact Or.inl ⟨r, by simp [hr], rfl⟩

/-- the only ways a record leaves the buffer -/
def Lost (db : Db) (op : DbOp) (r : EvRec) : Prop :=
  match op with
  | .update t idx v f tm => ∃ c, (db.update t idx v f tm).2 = .overflow c r.id
  | .clear => r.id ∈ db.clearWritten.2.1
  | _ => False

/-- `kept`: after any operation every record is still in the buffer with its identity and
    contents, unless the operation was an update that REPORTED it as the overflow discard, or a
    `clearWritten` that reported its id as released -/
theorem kept (db : Db) (op : DbOp) (r : EvRec) (hr : r ∈ db.events) :
    SurvivesIn r (step db op).events ∨ Lost db op r := by
  cases op with
  | add t idx cls =>
    left; show SurvivesIn r (db.add t idx cls).1.events
    rw [(add_eb db t idx cls).1]; exact ⟨r, hr, rfl⟩
  | update t idx v f tm =>
    show SurvivesIn r (db.update t idx v f tm).1.events ∨ ∃ c, (db.update t idx v f tm).2 = .overflow c r.id
    obtain ⟨db0, he, h1 | h1 | ⟨cls, m, h1⟩⟩ := update_spec db t idx v f tm <;> rw [h1]
    · left; simp only []; rw [he.1]; exact ⟨r, hr, rfl⟩
    · left; simp only []; rw [he.1]; exact ⟨r, hr, rfl⟩
    · have hr0 : r ∈ db0.events := by rw [he.1]; exact hr
      rcases insert_survives db0 idx cls t m (defaultEventVar t) r hr0 with h | ⟨c, h⟩
      · exact Or.inl h
      · right; exact ⟨c, by simp only [h, infoOf]⟩
  | select hd => exact Or.inl ((select_sel db hd).survives r hr)
  | write cap =>
    left; show SurvivesIn r (db.writeResponse cap).1.events
    rw [(writeResponse_eb db cap).1]; exact writeEvents_survives db cap r hr
  | unsol c1 c2 c3 cap =>
    left; show SurvivesIn r (db.writeUnsolicited c1 c2 c3 cap).1.events
    obtain ⟨dbs, hs, he | he⟩ := writeUnsolicited_eb db c1 c2 c3 cap <;> rw [he]
    · obtain ⟨r1, hr1, e1⟩ := reset_survives db r hr
      exact survives_trans e1 (hs.survives r1 hr1)
    · obtain ⟨r1, hr1, e1⟩ := reset_survives db r hr
      obtain ⟨r2, hr2, e2⟩ := hs.survives r1 hr1
      exact survives_trans (e2.trans e1) (writeEvents_survives dbs cap r2 hr2)
  | clear =>
    show SurvivesIn r db.clearWritten.1.events ∨ r.id ∈ db.clearWritten.2.1
    obtain ⟨h1, h2, _⟩ := clear_spec db
    rw [h1, h2]
    cases hw : isWritten r
    · left; exact ⟨r, List.mem_filter.mpr ⟨hr, by simp [hw]⟩, rfl⟩
    · right; exact List.mem_map.mpr ⟨r, List.mem_filter.mpr ⟨hr, hw⟩, rfl⟩
  | reset => exact Or.inl (reset_survives db r hr)

/-- the overflow discard is the OLDEST record of the type: everything before it in the buffer
    is of another type, and (with `Ordered`) every other record of the type has a larger id -/
theorem overflow_discards_oldest (db : Db) (idx cls : Nat) (t : PtType) (m : Meas) (dv : Nat) (c dId : Nat)
    (ho : Ordered db) (h : (db.insert idx cls t m dv).2 = .overflow c dId) :
    ∃ d ∈ db.events, d.id = dId ∧ d.ty = t ∧
      (db.insert idx cls t m dv).1.overflown = true ∧
      ∀ r ∈ db.events, r.ty = t → r ≠ d → d.id < r.id := by
  rcases insert_cases db idx cls t m dv with ⟨_, he⟩ | ⟨_, d, rest, hfull, hrem, he⟩ | ⟨_, _, he⟩
  · rw [he] at h; simp at h
  · rw [he] at h ⊢
    simp only [InsertResult.overflow.injEq] at h
    obtain ⟨hty, pre, post, hl, _, hpre⟩ := removeFirstTy_spec t _ _ _ hrem
    refine ⟨d, by rw [hl]; simp, h.2, hty, rfl, ?_⟩
    intro r hr hrt hne
    rw [hl] at hr
    have hp := ho.1
    rw [hl, List.pairwise_append] at hp
    rcases List.mem_append.mp hr with hm | hm
    · exact absurd hrt (hpre r hm)
    · rcases List.mem_cons.mp hm with hm | hm
      · exact absurd hm hne
      · exact (List.pairwise_cons.mp hp.2.1).1 r hm
  · rw [he] at h; simp at h

/-! ## internal indications (C13 component level) -/

theorem countP_split_written (q : EvRec → Bool) (l : List EvRec) :
    l.countP (fun r => anyRec r && q r) =
      l.countP (fun r => isWritten r && q r) + l.countP (fun r => !isWritten r && q r) := by
  induction l with
  | nil => rfl
  | cons r rs ih =>
    simp only [countP_cons_b2n]
    rw [ih]
    cases isWritten r <;> cases q r <;> simp [anyRec] <;> omega

/-- with exact counters the class bits tell the truth and the checked subtraction cannot panic:
    bit c is set iff the buffer holds a class-c record that is not `Written` -/
theorem class_bits_exact_of_counters (db : Db) (h : CountersExact db) :
    ∃ b1 b2 b3, db.unwrittenClasses = some (b1, b2, b3) ∧
      (b1 = true ↔ ∃ r ∈ db.events, r.cls = 1 ∧ r.st ≠ .written) ∧
      (b2 = true ↔ ∃ r ∈ db.events, r.cls = 2 ∧ r.st ≠ .written) ∧
      (b3 = true ↔ ∃ r ∈ db.events, r.cls = 3 ∧ r.st ≠ .written) := by
  obtain ⟨ht, hw⟩ := h
  unfold TotalExact at ht; unfold WrittenExact at hw
  have s1 := countP_split_written (fun r => r.cls == 1) db.events
  have s2 := countP_split_written (fun r => r.cls == 2) db.events
  have s3 := countP_split_written (fun r => r.cls == 3) db.events
  have key : ∀ k : Nat, (0 < db.events.countP (fun r => !isWritten r && r.cls == k)) ↔
      ∃ r ∈ db.events, r.cls = k ∧ r.st ≠ .written := by
    intro k
    rw [List.countP_pos_iff]
    constructor
    · rintro ⟨r, hr, hp⟩
      simp only [isWritten, Bool.and_eq_true, Bool.not_eq_true', beq_eq_false_iff_ne, beq_iff_eq] at hp
      exact ⟨r, hr, hp.2, hp.1⟩
    · rintro ⟨r, hr, hc, hs⟩
      refine ⟨r, hr, ?_⟩
      simp only [isWritten, Bool.and_eq_true, Bool.not_eq_true', beq_eq_false_iff_ne, beq_iff_eq]
      exact ⟨hs, hc⟩
  have t1 : db.total.c1 = db.events.countP (fun r => anyRec r && r.cls == 1) := by rw [ht]; rfl
  have t2 : db.total.c2 = db.events.countP (fun r => anyRec r && r.cls == 2) := by rw [ht]; rfl
  have t3 : db.total.c3 = db.events.countP (fun r => anyRec r && r.cls == 3) := by rw [ht]; rfl
  have w1 : db.written.c1 = db.events.countP (fun r => isWritten r && r.cls == 1) := by rw [hw]; rfl
  have w2 : db.written.c2 = db.events.countP (fun r => isWritten r && r.cls == 2) := by rw [hw]; rfl
  have w3 : db.written.c3 = db.events.countP (fun r => isWritten r && r.cls == 3) := by rw [hw]; rfl
  unfold Db.unwrittenClasses
  split
  · rename_i hc; omega
  · refine ⟨_, _, _, rfl, ?_, ?_, ?_⟩
    · rw [← key 1, decide_eq_true_iff]; omega
    · rw [← key 2, decide_eq_true_iff]; omega
    · rw [← key 3, decide_eq_true_iff]; omega

/-- the overflow flag is raised by every discard … -/
theorem overflow_set_on_discard (db : Db) (idx cls : Nat) (t : PtType) (m : Meas) (dv c d : Nat)
    (h : (db.insert idx cls t m dv).2 = .overflow c d) : (db.insert idx cls t m dv).1.isOverflown = true := by
  rcases insert_cases db idx cls t m dv with ⟨_, he⟩ | ⟨_, _, _, _, _, he⟩ | ⟨_, _, he⟩ <;> rw [he] at h ⊢
  · simp at h
  · rfl
  · simp at h

/-- … never lowered by an insert … -/
theorem overflow_kept_by_insert (db : Db) (idx cls : Nat) (t : PtType) (m : Meas) (dv : Nat)
    (h : db.isOverflown = true) : (db.insert idx cls t m dv).1.isOverflown = true := by
  rcases insert_cases db idx cls t m dv with ⟨_, he⟩ | ⟨_, _, _, _, _, he⟩ | ⟨_, _, he⟩ <;> rw [he]
  · exact h
  · rfl
  · exact h

/-- … and after `clearWritten` it is set iff it was set and some type is still at capacity -/
theorem overflow_after_clear (db : Db) :
    db.clearWritten.1.isOverflown = (db.isOverflown && db.clearWritten.1.isAnyFull) := by
  unfold Db.clearWritten
  simp only []
  split
  · rename_i hf
    simp only [Db.isOverflown, hf, Bool.and_true]
  · rename_i hf
    simp only [Db.isOverflown]
    simp only [Bool.not_eq_true] at hf
    simp only [Db.isAnyFull] at hf ⊢
    rw [hf, Bool.and_false]

/-- with exact totals, "some type is at capacity" is a statement about the records -/
theorem isAnyFull_iff (db : Db) (h : TotalExact db) :
    db.isAnyFull = true ↔ db.evMax ≠ 0 ∧
      (db.evMax ≤ db.events.countP (fun r => r.ty == .binary) ∨ db.evMax ≤ db.events.countP (fun r => r.ty == .analog)) := by
  unfold TotalExact at h
  unfold Db.isAnyFull
  rw [h]
  simp [tallyBy, anyRec]

/-! ## static database (C11 component level) -/

/-- keys strictly ascending: the `BTreeMap` order -/
def KeysSorted (m : List (Nat × Point)) : Prop := m.Pairwise (fun a b => a.1 < b.1)
def StaticSorted (db : Db) : Prop := KeysSorted db.bins ∧ KeysSorted db.ans

instance (db : Db) : Decidable (StaticSorted db) := by unfold StaticSorted KeysSorted; exact inferInstance

theorem pmInsert_spec : ∀ (m : List (Nat × Point)) (k : Nat) (p : Point) (m' : List (Nat × Point)),
    pmInsert m k p = some m' → KeysSorted m →
      KeysSorted m' ∧ ∀ x, x ∈ m' ↔ (x = (k, p) ∨ x ∈ m) := by
  intro m
  induction m with
  | nil =>
    intro k p m' h _
    simp only [pmInsert, Option.some.injEq] at h
    subst h
    exact ⟨by simp [KeysSorted], by simp⟩
  | cons a rest ih =>
    intro k p m' h hs
    obtain ⟨i, q⟩ := a
    obtain ⟨h1, h2⟩ := List.pairwise_cons.mp hs
    unfold pmInsert at h
    by_cases e : i = k
    · simp [e] at h
    · simp only [e, if_false] at h
      by_cases lt : k < i
      · simp only [lt, if_true, Option.some.injEq] at h
        subst h
        refine ⟨?_, by simp⟩
        apply List.pairwise_cons.mpr
        refine ⟨?_, hs⟩
        intro x hx
        rcases List.mem_cons.mp hx with rfl | hx
        · exact lt
        · exact Nat.lt_trans lt (h1 x hx)
      · simp only [lt, if_false] at h
        cases hr : pmInsert rest k p with
        | none => simp [hr] at h
        | some r =>
          simp only [hr, Option.some.injEq] at h
          subst h
          obtain ⟨s1, s2⟩ := ih k p r hr h2
          refine ⟨?_, ?_⟩
          · apply List.pairwise_cons.mpr
            refine ⟨?_, s1⟩
            intro x hx
            rcases (s2 x).mp hx with rfl | hx
            · simp only; omega
            · exact h1 x hx
          · intro x
            simp only [List.mem_cons, s2 x]
            constructor
            · rintro (h | h | h)
              · exact Or.inr (Or.inl h)
              · exact Or.inl h
              · exact Or.inr (Or.inr h)
            · rintro (h | h | h)
              · exact Or.inr (Or.inl h)
              · exact Or.inl h
              · exact Or.inr (Or.inr h)

/-- `pmSet` keeps the keys and, at every key, the `selected` cell -/
theorem pmSet_keys (m : List (Nat × Point)) (k : Nat) (p : Point) :
    (pmSet m k p).map (·.1) = m.map (·.1) := by
  induction m with
  | nil => rfl
  | cons a rest ih =>
    obtain ⟨i, q⟩ := a
    unfold pmSet
    by_cases e : i = k <;> simp [e, ih]

theorem pmLookup_mem : ∀ (m : List (Nat × Point)) (k : Nat) (p : Point),
    pmLookup m k = some p → (k, p) ∈ m := by
  intro m
  induction m with
  | nil => intro k p h; simp [pmLookup] at h
  | cons a rest ih =>
    intro k p h
    obtain ⟨i, q⟩ := a
    unfold pmLookup at h
    by_cases e : i = k
    · simp only [e, if_true, Option.some.injEq] at h
      subst h; subst e; exact List.mem_cons_self ..
    · simp only [e, if_false] at h
      by_cases lt : k < i
      · simp [lt] at h
      · simp only [lt, if_false] at h
        exact List.mem_cons_of_mem _ (ih k p h)

/-- what a queue entry reads of a point: its key and its `selected` cell -/
def selView (m : List (Nat × Point)) : List (Nat × Meas) := m.map (fun x => (x.1, x.2.selected))

theorem pmSet_selView (m : List (Nat × Point)) (k : Nat) (p q : Point) (hq : pmLookup m k = some q)
    (hsel : p.selected = q.selected) (hs : KeysSorted m) : selView (pmSet m k p) = selView m := by
  induction m with
  | nil => rfl
  | cons a rest ih =>
    obtain ⟨i, x⟩ := a
    obtain ⟨h1, h2⟩ := List.pairwise_cons.mp hs
    unfold pmLookup at hq
    unfold pmSet
    by_cases e : i = k
    · simp only [e, if_true, Option.some.injEq] at hq
      subst hq
      simp [e, selView, hsel]
    · simp only [e, if_false] at hq ⊢
      by_cases lt : k < i
      · simp [lt] at hq
      · simp only [lt, if_false] at hq
        have := ih hq h2
        simp only [selView, List.map_cons] at this ⊢
        rw [this]

theorem keysSorted_of_keys {m m' : List (Nat × Point)} (h : m'.map (·.1) = m.map (·.1)) (hs : KeysSorted m) :
    KeysSorted m' := by
  unfold KeysSorted at *
  have : (m.map (·.1)).Pairwise (· < ·) := List.pairwise_map.mpr hs
  rw [← h] at this
  exact List.pairwise_map.mp this

theorem snapshot_keys (a b : Nat) (m : List (Nat × Point)) : (snapshot a b m).map (·.1) = m.map (·.1) := by
  induction m with
  | nil => rfl
  | cons x rest ih =>
    obtain ⟨i, p⟩ := x
    simp only [snapshot, List.map_cons, ih]
    split <;> rfl

/-- `select_range_with_variation`: inside the range `selected` becomes `current`; outside nothing changes -/
theorem snapshot_spec (a b : Nat) (m : List (Nat × Point)) :
    snapshot a b m = m.map (fun x => if a ≤ x.1 ∧ x.1 ≤ b then (x.1, { x.2 with selected := x.2.current }) else x) := by
  induction m with
  | nil => rfl
  | cons x rest ih =>
    obtain ⟨i, p⟩ := x
    simp only [snapshot, List.map_cons, ih]

/-- the objects of a queue entry depend on the maps only through keys and `selected` cells -/
theorem itemObjs_congr (db db' : Db) (it : SelItem) (hb : selView db'.bins = selView db.bins)
    (ha : selView db'.ans = selView db.ans) : itemObjs db' it = itemObjs db it := by
  have key : ∀ (m : List (Nat × Point)) (f : Nat → Meas → SObj),
      (m.filter (fun p => inRange it p.1)).map (fun p => f p.1 p.2.selected) =
      ((selView m).filter (fun p => inRange it p.1)).map (fun p => f p.1 p.2) := by
    intro m f
    induction m with
    | nil => rfl
    | cons x rest ih =>
      simp only [selView, List.map_cons, List.filter_cons] at ih ⊢
      split <;> simp [ih]
  unfold itemObjs
  cases it.kind with
  | binary var =>
    simp only []
    rw [key db'.bins (fun i m => { idx := i, g := 1, v := promoteBin (var.getD 2) m, m := m }),
        key db.bins (fun i m => { idx := i, g := 1, v := promoteBin (var.getD 2) m, m := m }), hb]
  | analog var =>
    simp only []
    rw [key db'.ans (fun i m => { idx := i, g := 30, v := var.getD 1, m := m }),
        key db.ans (fun i m => { idx := i, g := 30, v := var.getD 1, m := m }), ha]
  | deadband var =>
    simp only []
    rw [key db'.ans (fun i _ => { idx := i, g := 34, v := var.getD 3, m := { value := 0, flags := 0 } }),
        key db.ans (fun i _ => { idx := i, g := 34, v := var.getD 3, m := { value := 0, flags := 0 } }), ha]
  | other => rfl

/-- `write_typed_range`: either everything was written, or the list splits at the first object
    that did not fit, whose index is reported -/
theorem stLoop_split (cap : Nat) : ∀ (objs : List SObj) (used : Nat) (cur : Option StCur),
    ((stLoop cap objs used cur).2.2 = none → (stLoop cap objs used cur).1 = objs) ∧
    (∀ i, (stLoop cap objs used cur).2.2 = some i →
      ∃ o rest, objs = (stLoop cap objs used cur).1 ++ o :: rest ∧ o.idx = i) := by
  intro objs
  induction objs with
  | nil => intro used cur; simp [stLoop]
  | cons o os ih =>
    intro used cur
    unfold stLoop
    by_cases hfit : used + stCost cur o ≤ cap
    · simp only [hfit, if_true]
      obtain ⟨i1, i2⟩ := ih (used + stCost cur o) (some (stNext cur o))
      refine ⟨fun h => by rw [i1 h], fun i h => ?_⟩
      obtain ⟨x, rest, e1, e2⟩ := i2 i h
      exact ⟨x, rest, by simp only [List.cons_append]; rw [← e1], e2⟩
    · simp only [hfit, if_false]
      refine ⟨fun h => by simp at h, fun i h => ?_⟩
      simp only [Option.some.injEq] at h
      exact ⟨o, os, rfl, h⟩

/-- restricting a range to start at the key of one of its entries keeps exactly that entry and
    what follows it -/
theorem filter_suffix (m : List (Nat × Point)) (hs : KeysSorted m) (it : SelItem)
    (A B : List (Nat × Point)) (x : Nat × Point)
    (h : m.filter (fun p => inRange it p.1) = A ++ x :: B) :
    m.filter (fun p => inRange { it with start := x.1 } p.1) = x :: B := by
  have hx : x ∈ m.filter (fun p => inRange it p.1) := by rw [h]; simp
  have hxr : inRange it x.1 = true := (List.mem_filter.mp hx).2
  simp only [inRange, Bool.and_eq_true, decide_eq_true_eq] at hxr
  have e : (fun p : Nat × Point => inRange { it with start := x.1 } p.1) =
      (fun p => decide (x.1 ≤ p.1) && inRange it p.1) := by
    funext p
    simp only [inRange]
    by_cases c1 : x.1 ≤ p.1 <;> by_cases c2 : p.1 ≤ it.stop <;> by_cases c3 : it.start ≤ p.1 <;> simp [c1, c2, c3]
    omega
  rw [e, ← List.filter_filter, h]
  have hsub : (A ++ x :: B).Pairwise (fun a b => a.1 < b.1) := by
    rw [← h]; exact hs.sublist List.filter_sublist
  rw [List.pairwise_append] at hsub
  obtain ⟨_, hxB, hAx⟩ := hsub
  obtain ⟨hB, _⟩ := List.pairwise_cons.mp hxB
  rw [List.filter_append]
  have hA : A.filter (fun p => decide (x.1 ≤ p.1)) = [] := by
    rw [List.filter_eq_nil_iff]
    intro a ha
    have := hAx a ha x (List.mem_cons_self ..)
    simp only [decide_eq_true_eq]; omega
  have hB' : (x :: B).filter (fun p => decide (x.1 ≤ p.1)) = x :: B := by
    rw [List.filter_eq_self]
    intro b hb
    rcases List.mem_cons.mp hb with rfl | hb
    · simp
    · have := hB b hb; simp only [decide_eq_true_eq]; omega
  rw [hA, hB', List.nil_append]

/-- the objects of a queue entry, as a map over the filtered point map -/
def objOf (it : SelItem) (p : Nat × Point) : SObj :=
  match it.kind with
  | .binary var => { idx := p.1, g := 1, v := promoteBin (var.getD 2) p.2.selected, m := p.2.selected }
  | .analog var => { idx := p.1, g := 30, v := var.getD 1, m := p.2.selected }
  | .deadband var => { idx := p.1, g := 34, v := var.getD 3, m := { value := 0, flags := 0 } }
  | .other => { idx := p.1, g := 0, v := 0, m := {} }

def mapOf (db : Db) (it : SelItem) : List (Nat × Point) :=
  match it.kind with
  | .binary _ => db.bins
  | .analog _ => db.ans
  | .deadband _ => db.ans
  | .other => []

theorem itemObjs_eq (db : Db) (it : SelItem) :
    itemObjs db it = ((mapOf db it).filter (fun p => inRange it p.1)).map (objOf it) := by
  unfold itemObjs mapOf objOf
  cases it.kind <;> simp

theorem objOf_idx (it : SelItem) (p : Nat × Point) : (objOf it p).idx = p.1 := by
  unfold objOf; cases it.kind <;> rfl

/-- resuming a queue entry at the index that did not fit selects exactly the unwritten rest -/
theorem itemObjs_resume (db : Db) (hs : StaticSorted db) (it : SelItem) (w rest : List SObj) (o : SObj)
    (h : itemObjs db it = w ++ o :: rest) : itemObjs db { it with start := o.idx } = o :: rest := by
  have hsm : KeysSorted (mapOf db it) := by
    unfold mapOf; cases it.kind <;> simp only [] <;> first | exact hs.1 | exact hs.2 | exact List.Pairwise.nil
  rw [itemObjs_eq] at h
  obtain ⟨A, R, hAR, hA, hR⟩ := List.map_eq_append_iff.mp h
  obtain ⟨x, B, hxB, hx, hB⟩ := List.map_eq_cons_iff.mp hR
  subst hxB
  have := filter_suffix (mapOf db it) hsm it A B x hAR
  have e1 : mapOf db { it with start := o.idx } = mapOf db it := rfl
  have e2 : objOf { it with start := o.idx } = objOf it := rfl
  rw [itemObjs_eq, e1, e2]
  have e3 : o.idx = x.1 := by rw [← hx, objOf_idx]
  rw [e3, this, List.map_cons, hx, hB]

/-- everything still selected, as one object list -/
def pending (db : Db) (q : List SelItem) : List SObj := (q.map (itemObjs db)).flatten

/-- conservation: what one `StaticDatabase::write` emits, followed by what remains selected
    afterwards, is exactly what was selected before — nothing repeated, nothing skipped -/
theorem qLoop_conserves (db : Db) (hs : StaticSorted db) (cap : Nat) :
    ∀ (q : List SelItem) (used : Nat),
      (qLoop db cap q used).1.flatten ++ pending db (qLoop db cap q used).2.1 = pending db q := by
  intro q
  induction q with
  | nil => intro used; simp [qLoop, pending]
  | cons it its ih =>
    intro used
    unfold qLoop
    obtain ⟨i1, i2⟩ := stLoop_split cap (itemObjs db it) used none
    cases hf : (stLoop cap (itemObjs db it) used none).2.2 with
    | none =>
      have hw := i1 hf
      have : stLoop cap (itemObjs db it) used none =
          ((stLoop cap (itemObjs db it) used none).1, (stLoop cap (itemObjs db it) used none).2.1, none) := by
        rw [← hf]
      rw [this]
      simp only [List.flatten_cons]
      rw [List.append_assoc, ih, hw]
      simp [pending]
    | some i =>
      obtain ⟨o, rest, e1, e2⟩ := i2 i hf
      have : stLoop cap (itemObjs db it) used none =
          ((stLoop cap (itemObjs db it) used none).1, (stLoop cap (itemObjs db it) used none).2.1, some i) := by
        rw [← hf]
      rw [this]
      simp only [List.flatten_cons, List.flatten_nil, List.append_nil]
      have hres := itemObjs_resume db hs it _ rest o e1
      rw [e2] at hres
      simp only [pending, List.map_cons, List.flatten_cons, hres]
      rw [← List.append_assoc, ← e1]

/-! ### a READ series: writes until complete, with updates (and confirms) in between -/

/-- the static side of two databases reads the same: keys, `selected` cells, selection queue -/
def StSame (db db' : Db) : Prop :=
  selView db'.bins = selView db.bins ∧ selView db'.ans = selView db.ans ∧ db'.queue = db.queue

theorem StSame.refl (db : Db) : StSame db db := ⟨rfl, rfl, rfl⟩
theorem StSame.trans {a b c : Db} (h1 : StSame a b) (h2 : StSame b c) : StSame a c :=
  ⟨h2.1.trans h1.1, h2.2.1.trans h1.2.1, h2.2.2.trans h1.2.2⟩

theorem keysSorted_of_selView {m m' : List (Nat × Point)} (h : selView m' = selView m) (hs : KeysSorted m) :
    KeysSorted m' := by
  apply keysSorted_of_keys _ hs
  have := congrArg (List.map (·.1)) h
  simp only [selView, List.map_map] at this
  exact this

theorem StSame.sorted {db db' : Db} (h : StSame db db') (hs : StaticSorted db) : StaticSorted db' :=
  ⟨keysSorted_of_selView h.1 hs.1, keysSorted_of_selView h.2.1 hs.2⟩

theorem StSame.pending {db db' : Db} (h : StSame db db') (q : List SelItem) : pending db' q = pending db q := by
  unfold DbProofs.pending
  congr 1
  apply List.map_congr_left
  intro it _
  exact itemObjs_congr db db' it h.1 h.2.1

theorem insert_stSame (db : Db) (idx cls : Nat) (t : PtType) (m : Meas) (dv : Nat) :
    StSame db (db.insert idx cls t m dv).1 := by
  rcases insert_cases db idx cls t m dv with ⟨_, he⟩ | ⟨_, _, _, _, _, he⟩ | ⟨_, _, he⟩ <;> rw [he] <;>
    exact ⟨rfl, rfl, rfl⟩

/-- an update never changes a key, a `selected` cell or the selection queue -/
theorem update_stSame (db : Db) (hs : StaticSorted db) (t : PtType) (idx : Nat) (v : Int) (f tm : Nat) :
    StSame db (db.update t idx v f tm).1 := by
  unfold Db.update
  cases hl : pmLookup (db.map t) idx with
  | none => exact StSame.refl db
  | some p =>
    simp only []
    generalize mkMeas t v f tm = m
    have hmap : ∀ p' : Point, p'.selected = p.selected → StSame db (db.setMap t (pmSet (db.map t) idx p')) := by
      intro p' hp'
      cases t with
      | binary => exact ⟨pmSet_selView _ _ _ _ hl hp' hs.1, rfl, rfl⟩
      | analog => exact ⟨rfl, pmSet_selView _ _ _ _ hl hp' hs.2, rfl⟩
    by_cases hev : isEvent t p.lastEvent m = true
    · rw [if_pos hev]
      by_cases hc : p.cls = 0
      · rw [if_pos hc]; exact hmap _ rfl
      · rw [if_neg hc]
        have h1 := hmap { p with current := m, lastEvent := m } rfl
        have h2 := insert_stSame (db.setMap t (pmSet (db.map t) idx { p with current := m, lastEvent := m })) idx p.cls t m (defaultEventVar t)
        split <;> rename_i heq <;> (have := h1.trans h2; rw [heq] at this; exact this)
    · rw [if_neg hev]; exact hmap _ rfl

/-- the static objects one `write_response_headers` emits (one list per queue entry touched) -/
def writeStaticObjs (db : Db) (cap : Nat) : List (List SObj) :=
  if (db.writeEvents cap).2.2 then
    (qLoop (db.writeEvents cap).1 cap (db.writeEvents cap).1.queue (encodeEvents none (db.writeEvents cap).2.1).length).1
  else []

theorem writeEvents_stSame (db : Db) (cap : Nat) : StSame db (db.writeEvents cap).1 := by
  obtain ⟨_, _, _, _, _, _, _, _, _, h10, h11, h12, _⟩ := writeEvents_spec db cap
  exact ⟨by rw [h11], by rw [h12], h10⟩

/-- the response = event encodings, then the encodings of `writeStaticObjs`; the maps are not
    touched; and what was written plus what stays selected is what was selected -/
theorem writeResponse_static (db : Db) (hs : StaticSorted db) (cap : Nat) :
    (db.writeResponse cap).2.1 =
      encodeEvents none (db.writeEvents cap).2.1 ++ (writeStaticObjs db cap).flatMap (encodeStatic none) ∧
    selView (db.writeResponse cap).1.bins = selView db.bins ∧
    selView (db.writeResponse cap).1.ans = selView db.ans ∧
    (writeStaticObjs db cap).flatten ++ pending db (db.writeResponse cap).1.queue = pending db db.queue ∧
    ((db.writeResponse cap).2.2.2 = true ↔ (db.writeResponse cap).1.queue = [] ∧ (db.writeEvents cap).2.2 = true) := by
  have hsame := writeEvents_stSame db cap
  have hs1 := hsame.sorted hs
  unfold Db.writeResponse writeStaticObjs
  simp only []
  by_cases hc : (db.writeEvents cap).2.2 = true
  · simp only [hc, if_true]
    have hcons := qLoop_conserves (db.writeEvents cap).1 hs1 cap (db.writeEvents cap).1.queue
      (encodeEvents none (db.writeEvents cap).2.1).length
    rw [hsame.pending, hsame.pending, hsame.2.2] at hcons
    refine ⟨by first | rfl | trivial, hsame.1, hsame.2.1, hcons, ?_⟩
    simp [List.isEmpty_iff]
  · simp only [hc]
    refine ⟨by simp, hsame.1, hsame.2.1, by simp [hsame.2.2], ?_⟩
    simp

/-- the operations that may occur between the request and the last fragment of its answer -/
inductive SOp where
  | write (cap : Nat)
  | update (t : PtType) (idx : Nat) (value : Int) (flags time : Nat)
  | clear
deriving DecidableEq, Repr

def sstep (db : Db) : SOp → Db
  | .write cap => (db.writeResponse cap).1
  | .update t idx v f tm => (db.update t idx v f tm).1
  | .clear => db.clearWritten.1

/-- static objects emitted by one operation -/
def sobjs (db : Db) : SOp → List SObj
  | .write cap => (writeStaticObjs db cap).flatten
  | _ => []

def seriesEnd (db : Db) (ops : List SOp) : Db := ops.foldl sstep db

def seriesObjs : Db → List SOp → List SObj
  | _, [] => []
  | db, op :: ops => sobjs db op ++ seriesObjs (sstep db op) ops

/-- one step of a series: emitted objects + what stays selected = what was selected; the maps
    keep their keys and `selected` cells -/
theorem sstep_conserves (db : Db) (hs : StaticSorted db) (op : SOp) :
    StaticSorted (sstep db op) ∧
    sobjs db op ++ pending (sstep db op) (sstep db op).queue = pending db db.queue := by
  cases op with
  | write cap =>
    obtain ⟨_, h2, h3, h4, _⟩ := writeResponse_static db hs cap
    have hsame : StSame db { (db.writeResponse cap).1 with queue := db.queue } := ⟨h2, h3, rfl⟩
    refine ⟨⟨keysSorted_of_selView h2 hs.1, keysSorted_of_selView h3 hs.2⟩, ?_⟩
    show (writeStaticObjs db cap).flatten ++ pending (db.writeResponse cap).1 (db.writeResponse cap).1.queue = _
    have : pending (db.writeResponse cap).1 (db.writeResponse cap).1.queue =
        pending db (db.writeResponse cap).1.queue := by
      unfold pending
      congr 1
      apply List.map_congr_left
      intro it _
      exact itemObjs_congr db _ it h2 h3
    rw [this, h4]
  | update t idx v f tm =>
    have h := update_stSame db hs t idx v f tm
    refine ⟨h.sorted hs, ?_⟩
    show [] ++ pending (db.update t idx v f tm).1 (db.update t idx v f tm).1.queue = _
    rw [List.nil_append, h.2.2, h.pending]
  | clear =>
    obtain ⟨_, _, _, _, _, _, _, h8, h9, h10⟩ := clear_spec db
    have h : StSame db db.clearWritten.1 := ⟨by rw [h9], by rw [h10], h8⟩
    refine ⟨h.sorted hs, ?_⟩
    show [] ++ pending db.clearWritten.1 db.clearWritten.1.queue = _
    rw [List.nil_append, h.2.2, h.pending]

/-- over a whole series (writes, updates, confirms in any order): the objects of all fragments
    so far, followed by what is still selected, are exactly what the request selected -/
theorem series_conserves (ops : List SOp) : ∀ (db : Db), StaticSorted db →
    seriesObjs db ops ++ pending (seriesEnd db ops) (seriesEnd db ops).queue = pending db db.queue := by
  induction ops with
  | nil => intro db _; simp [seriesObjs, seriesEnd]
  | cons op ops ih =>
    intro db hs
    obtain ⟨hs', hc⟩ := sstep_conserves db hs op
    have := ih (sstep db op) hs'
    simp only [seriesObjs, seriesEnd, List.foldl_cons] at this ⊢
    rw [List.append_assoc, this, hc]

/-- what a queue entry stands for: every existing point of its range exactly once, in ascending
    index order, carrying the point's `selected` cell -/
theorem itemObjs_exactly_once (db : Db) (hs : StaticSorted db) (it : SelItem) :
    (itemObjs db it).Pairwise (fun a b => a.idx < b.idx) ∧
    (itemObjs db it).map (·.idx) = ((mapOf db it).filter (fun p => inRange it p.1)).map (·.1) ∧
    (∀ var, it.kind = .binary var ∨ it.kind = .analog var →
      (itemObjs db it).map (fun o => (o.idx, o.m)) =
        ((mapOf db it).filter (fun p => inRange it p.1)).map (fun p => (p.1, p.2.selected))) := by
  have hsm : KeysSorted (mapOf db it) := by
    unfold mapOf; cases it.kind <;> simp only [] <;> first | exact hs.1 | exact hs.2 | exact List.Pairwise.nil
  rw [itemObjs_eq]
  refine ⟨?_, ?_, ?_⟩
  · rw [List.pairwise_map]
    simp only [objOf_idx]
    exact hsm.sublist List.filter_sublist
  · simp only [List.map_map]
    apply List.map_congr_left
    intro p _; simp [objOf_idx]
  · intro var hk
    simp only [List.map_map]
    apply List.map_congr_left
    intro p _
    rcases hk with hk | hk <;> simp [objOf, hk]

/-- `select` of a static header snapshots: the entry it queues stands for the CURRENT values of
    the existing points of the range at that moment -/
theorem selectStatic_snapshot (db : Db) (t : PtType) (var : Option Nat) (a b : Nat)
    (hroom : db.queue.length ≠ db.selCap) :
    let db' := (db.selectStatic t var (some (a, b))).1
    let it : SelItem := { kind := kindOf t var, start := a, stop := b }
    db'.queue = db.queue ++ [it] ∧
    (itemObjs db' it).map (fun o => (o.idx, o.m)) =
      ((db.map t).filter (fun p => inRange it p.1)).map (fun p => (p.1, p.2.current)) := by
  simp only []
  unfold Db.selectStatic
  simp only []
  unfold Db.pushSel
  have hq : (db.setMap t (snapshot a b (db.map t))).queue = db.queue := by cases t <;> rfl
  have hc : (db.setMap t (snapshot a b (db.map t))).selCap = db.selCap := by cases t <;> rfl
  rw [hq, hc, if_neg hroom]
  refine ⟨rfl, ?_⟩
  rw [itemObjs_eq]
  have hm : mapOf ({ db.setMap t (snapshot a b (db.map t)) with queue := db.queue ++ [{ kind := kindOf t var, start := a, stop := b }] }, 0).fst
      { kind := kindOf t var, start := a, stop := b } = snapshot a b (db.map t) := by
    cases t <;> rfl
  have hm' : ∀ X : List (Nat × Point), X = snapshot a b (db.map t) →
      List.map (fun o : SObj => (o.idx, o.m)) (List.map (objOf { kind := kindOf t var, start := a, stop := b })
          (List.filter (fun p : Nat × Point => inRange { kind := kindOf t var, start := a, stop := b } p.1) X)) =
        List.map (fun p : Nat × Point => (p.1, p.2.current))
          (List.filter (fun p : Nat × Point => inRange { kind := kindOf t var, start := a, stop := b } p.1) (db.map t)) := by
    intro X hX
    subst hX
    rw [snapshot_spec, List.filter_map, List.map_map, List.map_map]
    have hf : ((fun p : Nat × Point => inRange { kind := kindOf t var, start := a, stop := b } p.1) ∘
        (fun x : Nat × Point => if a ≤ x.1 ∧ x.1 ≤ b then (x.1, { x.2 with selected := x.2.current }) else x)) =
        (fun p => inRange { kind := kindOf t var, start := a, stop := b } p.1) := by
      funext x
      simp only [Function.comp]
      split <;> rfl
    rw [hf]
    apply List.map_congr_left
    intro p hp
    have hr := (List.mem_filter.mp hp).2
    simp only [inRange, Bool.and_eq_true, decide_eq_true_eq] at hr
    simp only [Function.comp, hr, and_self, if_true]
    cases t <;> simp [objOf, kindOf]
  exact hm' _ hm

/-! ### the maps stay sorted under every operation -/

/-- keys of both maps unchanged -/
def KeysSame (db db' : Db) : Prop :=
  db'.bins.map (·.1) = db.bins.map (·.1) ∧ db'.ans.map (·.1) = db.ans.map (·.1)

theorem KeysSame.sorted {db db' : Db} (h : KeysSame db db') (hs : StaticSorted db) : StaticSorted db' :=
  ⟨keysSorted_of_keys h.1 hs.1, keysSorted_of_keys h.2 hs.2⟩

theorem KeysSame.refl (db : Db) : KeysSame db db := ⟨rfl, rfl⟩
theorem KeysSame.trans {a b c : Db} (h1 : KeysSame a b) (h2 : KeysSame b c) : KeysSame a c :=
  ⟨h2.1.trans h1.1, h2.2.trans h1.2⟩

theorem pushSel_keys (db : Db) (it : SelItem) : KeysSame db (db.pushSel it).1 := by
  unfold Db.pushSel; split <;> exact ⟨rfl, rfl⟩

theorem selectStatic_keys (db : Db) (t : PtType) (var : Option Nat) (range : Option (Nat × Nat)) :
    KeysSame db (db.selectStatic t var range).1 := by
  unfold Db.selectStatic
  split
  · exact KeysSame.refl db
  · rename_i a b _
    have h1 : KeysSame db (db.setMap t (snapshot a b (db.map t))) := by
      cases t
      · exact ⟨snapshot_keys a b db.bins, rfl⟩
      · exact ⟨rfl, snapshot_keys a b db.ans⟩
    exact h1.trans (pushSel_keys _ _)

theorem select_keys (db : Db) (h : ReadHdr) : KeysSame db (db.select h).1 := by
  unfold Db.select
  split
  · unfold Db.selectClass0
    exact (selectStatic_keys db .binary none none).trans (selectStatic_keys _ .analog none none)
  · exact ⟨rfl, rfl⟩
  · exact ⟨rfl, rfl⟩
  · exact KeysSame.refl db
  · exact selectStatic_keys db _ _ _
  · split
    · exact KeysSame.refl db
    · exact pushSel_keys db _
  · split
    · exact KeysSame.refl db
    · exact pushSel_keys db _
  · exact KeysSame.refl db
  · split <;> exact KeysSame.refl db
  · split
    · exact KeysSame.refl db
    · split
      · split
        · exact ⟨rfl, rfl⟩
        · exact KeysSame.refl db
      · exact KeysSame.refl db
  · exact KeysSame.refl db
  · exact KeysSame.refl db
  · exact KeysSame.refl db

theorem add_sorted (db : Db) (t : PtType) (idx cls : Nat) (hs : StaticSorted db) :
    StaticSorted (db.add t idx cls).1 := by
  unfold Db.add
  cases h : pmInsert (db.map t) idx { cls := normClass cls } with
  | none => exact hs
  | some m =>
    cases t
    · exact ⟨(pmInsert_spec _ _ _ _ h hs.1).1, hs.2⟩
    · exact ⟨hs.1, (pmInsert_spec _ _ _ _ h hs.2).1⟩

theorem writeUnsolicited_maps (db : Db) (c1 c2 c3 : Bool) (cap : Nat) :
    (db.writeUnsolicited c1 c2 c3 cap).1.bins = db.bins ∧ (db.writeUnsolicited c1 c2 c3 cap).1.ans = db.ans := by
  unfold Db.writeUnsolicited
  simp only []
  split
  · exact ⟨rfl, rfl⟩
  · obtain ⟨_, _, _, _, _, _, _, _, _, _, h11, h12, _⟩ := writeEvents_spec
      { db.reset with events := (selectEvents (fun r => (c1 && r.cls == 1) || (c2 && r.cls == 2) || (c3 && r.cls == 3)) none none db.reset.events).1 } cap
    exact ⟨h11, h12⟩

theorem sorted_step (db : Db) (op : DbOp) (hs : StaticSorted db) : StaticSorted (step db op) := by
  cases op with
  | add t idx cls => exact add_sorted db t idx cls hs
  | update t idx v f tm => exact (update_stSame db hs t idx v f tm).sorted hs
  | select hd => exact (select_keys db hd).sorted hs
  | write cap =>
    obtain ⟨_, h2, h3, _⟩ := writeResponse_static db hs cap
    exact ⟨keysSorted_of_selView h2 hs.1, keysSorted_of_selView h3 hs.2⟩
  | unsol c1 c2 c3 cap =>
    obtain ⟨h1, h2⟩ := writeUnsolicited_maps db c1 c2 c3 cap
    show StaticSorted (db.writeUnsolicited c1 c2 c3 cap).1
    unfold StaticSorted; rw [h1, h2]; exact hs
  | clear =>
    obtain ⟨_, _, _, _, _, _, _, _, h9, h10⟩ := clear_spec db
    show StaticSorted db.clearWritten.1
    unfold StaticSorted; rw [h9, h10]; exact hs
  | reset => exact hs

theorem sorted_run (db : Db) (ops : List DbOp) (h : StaticSorted db) : StaticSorted (run db ops) := by
  induction ops generalizing db with
  | nil => exact h
  | cons op ops ih => exact ih _ (sorted_step db op h)

theorem new_sorted (evMax : Nat) (sel : Option Nat) : StaticSorted (Db.new evMax sel) :=
  ⟨List.Pairwise.nil, List.Pairwise.nil⟩

/-! ### progress -/

/-- if `write_events` stops early it has written something, or not even a first object fits -/
theorem evLoop_progress (cap : Nat) : ∀ (l : List EvRec) (used : Nat) (cur : Option EvCur),
    (evLoop cap l used cur).2.2 = false →
      (evLoop cap l used cur).2.1 ≠ [] ∨ ∃ r ∈ l, cap < used + evCost cur r := by
  intro l
  induction l with
  | nil => intro used cur h; simp [evLoop] at h
  | cons r rs ih =>
    intro used cur h
    unfold evLoop at h ⊢
    by_cases hs : r.st = .selected
    · simp only [hs, if_true] at h ⊢
      by_cases hfit : used + evCost cur r ≤ cap
      · simp only [hfit, if_true] at h ⊢
        left; simp
      · simp only [hfit, if_false] at h ⊢
        right; exact ⟨r, List.mem_cons_self .., by omega⟩
    · simp only [hs, if_false] at h ⊢
      rcases ih used cur h with h1 | ⟨x, hx, hc⟩
      · exact Or.inl h1
      · exact Or.inr ⟨x, List.mem_cons_of_mem _ hx, hc⟩

/-- no event object with its header needs more than 22 octets -/
theorem evCost_le (cur : Option EvCur) (r : EvRec) : evCost cur r ≤ 22 := by
  have h1 : evObjSize r.ty r.selVar ≤ 15 := by
    unfold evObjSize; split <;> omega
  have h2 : usesCto r.ty r.selVar = true → evObjSize r.ty r.selVar = 3 := by
    intro h
    simp only [usesCto, Bool.and_eq_true, beq_iff_eq] at h
    rw [h.1, h.2]; rfl
  have h3 : (if usesCto r.ty r.selVar = true then 10 else 0) + 5 + 2 + evObjSize r.ty r.selVar ≤ 22 := by
    by_cases hc : usesCto r.ty r.selVar = true
    · rw [if_pos hc, h2 hc]; decide
    · rw [if_neg hc]; omega
  unfold evCost
  split
  · split
    · omega
    · exact h3
  · exact h3

/-- no static object with its header needs more than 16 octets -/
theorem stCost_le (cur : Option StCur) (o : SObj) : stCost cur o ≤ 16 := by
  have h1 : stObjSize o.g o.v ≤ 9 := by
    unfold stObjSize; split <;> omega
  unfold stCost
  split <;> (try split) <;> (try split) <;> (try split) <;> omega

theorem stLoop_progress (cap : Nat) (objs : List SObj) (used : Nat) (cur : Option StCur) :
    ((stLoop cap objs used cur).1 = [] → (stLoop cap objs used cur).2.1 = used) ∧
    (∀ i, (stLoop cap objs used cur).2.2 = some i →
      (stLoop cap objs used cur).1 ≠ [] ∨ ∃ o, cap < used + stCost cur o) := by
  cases objs with
  | nil => simp [stLoop]
  | cons o os =>
    unfold stLoop
    by_cases hfit : used + stCost cur o ≤ cap
    · simp only [hfit, if_true]
      exact ⟨fun h => by simp at h, fun _ _ => Or.inl (by simp)⟩
    · simp only [hfit, if_false]
      exact ⟨fun _ => by first | rfl | trivial, fun _ _ => Or.inr ⟨o, by omega⟩⟩

/-- if `StaticDatabase::write` leaves something selected it has written something, or not even
    one object with its header fits behind what is already in the buffer -/
theorem qLoop_progress (db : Db) (cap : Nat) : ∀ (q : List SelItem) (used : Nat),
    (qLoop db cap q used).2.1 ≠ [] → (qLoop db cap q used).1.flatten ≠ [] ∨ cap < used + 16 := by
  intro q
  induction q with
  | nil => intro used h; simp [qLoop] at h
  | cons it its ih =>
    intro used h
    unfold qLoop at h ⊢
    obtain ⟨p1, p2⟩ := stLoop_progress cap (itemObjs db it) used none
    cases hf : (stLoop cap (itemObjs db it) used none).2.2 with
    | none =>
      have e : stLoop cap (itemObjs db it) used none =
          ((stLoop cap (itemObjs db it) used none).1, (stLoop cap (itemObjs db it) used none).2.1, none) := by
        rw [← hf]
      rw [e] at h ⊢
      simp only [] at h ⊢
      by_cases hw : (stLoop cap (itemObjs db it) used none).1 = []
      · have hu := p1 hw
        rw [hu] at h ⊢
        rcases ih used h with h1 | h1
        · left; simp only [List.flatten_cons, hw, List.nil_append]; exact h1
        · exact Or.inr h1
      · left
        simp only [List.flatten_cons]
        intro hc
        exact hw (List.append_eq_nil_iff.mp hc).1
    | some i =>
      have e : stLoop cap (itemObjs db it) used none =
          ((stLoop cap (itemObjs db it) used none).1, (stLoop cap (itemObjs db it) used none).2.1, some i) := by
        rw [← hf]
      rw [e]
      simp only [List.flatten_cons, List.flatten_nil, List.append_nil]
      rcases p2 i hf with h1 | ⟨o, ho⟩
      · exact Or.inl h1
      · right; have := stCost_le none o; omega

/-- `progress`: when one object together with its header fits the buffer (22 octets suffice for
    every modelled variation), a response that is not complete carries at least one object -/
theorem write_progress (db : Db) (cap : Nat) (hcap : 22 ≤ cap)
    (hinc : (db.writeResponse cap).2.2.2 = false) :
    (db.writeEvents cap).2.1 ≠ [] ∨ (writeStaticObjs db cap).flatten ≠ [] := by
  by_cases hw : ¬ (db.writeEvents cap).2.1 = []
  · exact Or.inl hw
  have hw : (db.writeEvents cap).2.1 = [] := Decidable.not_not.mp hw
  right
  unfold Db.writeResponse at hinc
  unfold writeStaticObjs
  simp only [] at hinc
  by_cases hc : (db.writeEvents cap).2.2 = true
  · simp only [hc, if_true] at hinc ⊢
    have hq : (qLoop (db.writeEvents cap).1 cap (db.writeEvents cap).1.queue
        (encodeEvents none (db.writeEvents cap).2.1).length).2.1 ≠ [] := by
      intro he
      rw [he] at hinc
      simp at hinc
    rcases qLoop_progress _ cap _ _ hq with h | h
    · exact h
    · rw [hw] at h
      simp [encodeEvents] at h
      omega
  · exfalso
    have hcf : (db.writeEvents cap).2.2 = false := by simpa using hc
    have := evLoop_progress cap db.events 0 none hcf
    rcases this with h | ⟨r, _, hr⟩
    · exact h hw
    · have := evCost_le none r; omega

/-! ## the cost the writers charge is the length of what they write -/

theorem le16_len (n : Nat) : (le16 n).length = 2 := rfl
theorem le32_len (n : Nat) : (le32 n).length = 4 := rfl
theorem le48_len (n : Nat) : (le48 n).length = 6 := rfl
theorem le64_len (n : Nat) : (le64 n).length = 8 := rfl

theorem evObj_length (cto : Nat) (r : EvRec) : (evObj cto r).length = evObjSize r.ty r.selVar := by
  rcases r with ⟨id, index, cls, ty, m, dv, sv, st⟩
  simp only
  cases ty
  · have : sv = 1 ∨ sv = 2 ∨ sv = 3 ∨ (sv ≠ 1 ∧ sv ≠ 2 ∧ sv ≠ 3) := by omega
    rcases this with rfl | rfl | rfl | ⟨h1, h2, h3⟩
    · rfl
    · rfl
    · rfl
    · unfold evObj evObjSize
      split <;> simp_all
  · have : sv = 1 ∨ sv = 2 ∨ sv = 3 ∨ sv = 4 ∨ sv = 5 ∨ sv = 6 ∨ sv = 7 ∨ sv = 8 ∨
        (sv ≠ 1 ∧ sv ≠ 2 ∧ sv ≠ 3 ∧ sv ≠ 4 ∧ sv ≠ 5 ∧ sv ≠ 6 ∧ sv ≠ 7 ∧ sv ≠ 8) := by omega
    rcases this with rfl | rfl | rfl | rfl | rfl | rfl | rfl | rfl | h
    · rfl
    · rfl
    · rfl
    · rfl
    · rfl
    · rfl
    · rfl
    · rfl
    · unfold evObj evObjSize
      split <;> simp_all

theorem stObjBytes_length (o : SObj) : (stObjBytes o).length = stObjSize o.g o.v := by
  rcases o with ⟨idx, g, v, m⟩
  simp only
  unfold stObjBytes stObjSize
  split <;> first | rfl | (split <;> simp_all [le16_len, le32_len, le64_len])

theorem evHeader_length (r : EvRec) (n : Nat) :
    (evHeader r n).length = (if usesCto r.ty r.selVar = true then 10 else 0) + 5 := by
  unfold evHeader ctoHeader
  by_cases h : usesCto r.ty r.selVar = true <;> simp [h, le16_len, le48_len]

/-- one record's octets have exactly the length the writer charged for it -/
theorem encodeEvents_cons (cur : Option EvCur) (r : EvRec) (rs : List EvRec) :
    ∃ X, encodeEvents cur (r :: rs) = X ++ encodeEvents (some (evNext cur r)) rs ∧ X.length = evCost cur r := by
  have fresh : ∃ X, evHeader r (1 + evRunLen (EvCur.start r) rs) ++ le16 r.index ++ evObj r.m.time r
        ++ encodeEvents (some (EvCur.start r)) rs = X ++ encodeEvents (some (EvCur.start r)) rs ∧
      X.length = (if usesCto r.ty r.selVar = true then 10 else 0) + 5 + 2 + evObjSize r.ty r.selVar := by
    refine ⟨evHeader r (1 + evRunLen (EvCur.start r) rs) ++ le16 r.index ++ evObj r.m.time r, rfl, ?_⟩
    simp only [List.length_append, evHeader_length, le16_len, evObj_length]
  cases cur with
  | none =>
    simp only [encodeEvents, evNext, evCost]
    exact fresh
  | some c =>
    simp only [encodeEvents, evNext, evCost]
    by_cases hc : evContinues c r = true
    · simp only [hc, if_true]
      refine ⟨le16 r.index ++ evObj c.cto r, by simp, ?_⟩
      simp only [List.length_append, le16_len, evObj_length]
    · simp only [hc]
      exact fresh

theorem evLoop_len (cap : Nat) : ∀ (l : List EvRec) (used : Nat) (cur : Option EvCur), used ≤ cap →
    used + (encodeEvents cur (evLoop cap l used cur).2.1).length ≤ cap := by
  intro l
  induction l with
  | nil => intro used cur h; simpa [evLoop, encodeEvents] using h
  | cons r rs ih =>
    intro used cur h
    unfold evLoop
    by_cases hs : r.st = .selected
    · simp only [hs, if_true]
      by_cases hfit : used + evCost cur r ≤ cap
      · simp only [hfit, if_true]
        obtain ⟨X, hX, hl⟩ := encodeEvents_cons cur r (evLoop cap rs (used + evCost cur r) (some (evNext cur r))).2.1
        rw [hX, List.length_append, hl]
        have := ih (used + evCost cur r) (some (evNext cur r)) hfit
        omega
      · simp only [hfit, if_false]
        simpa [encodeEvents] using h
    · simp only [hs, if_false]
      exact ih used cur h

theorem encodeStatic_cons (cur : Option StCur) (o : SObj) (os : List SObj) :
    ∃ X, encodeStatic cur (o :: os) = X ++ encodeStatic (some (stNext cur o)) os ∧ X.length = stCost cur o := by
  have fresh : ∃ X, [o.g, o.v, 0x01] ++ le16 o.idx ++ le16 (o.idx + stRunLen { g := o.g, v := o.v, last := o.idx, n := 1 } os) ++
        (if isBits o.g o.v = true then
           [packBits ((o :: os).take (min 8 (stRunLen { g := o.g, v := o.v, last := o.idx, n := 1 } os + 1)))]
         else stObjBytes o) ++
        encodeStatic (some { g := o.g, v := o.v, last := o.idx, n := 1 }) os =
        X ++ encodeStatic (some { g := o.g, v := o.v, last := o.idx, n := 1 }) os ∧
      X.length = 7 + (if isBits o.g o.v = true then 1 else stObjSize o.g o.v) := by
    refine ⟨_, rfl, ?_⟩
    by_cases hb : isBits o.g o.v = true <;> simp [hb, le16_len, stObjBytes_length] <;> omega
  cases cur with
  | none =>
    simp only [encodeStatic, stNext, stCost]
    exact fresh
  | some c =>
    simp only [encodeStatic, stNext, stCost]
    by_cases hc : stContinues c o = true
    · simp only [hc, if_true]
      refine ⟨_, rfl, ?_⟩
      by_cases hb : isBits o.g o.v = true
      · by_cases hn : c.n % 8 = 0 <;> simp [hb, hn]
      · simp [hb, stObjBytes_length]
    · simp only [hc]
      exact fresh

theorem stLoop_len (cap : Nat) : ∀ (objs : List SObj) (used : Nat) (cur : Option StCur), used ≤ cap →
    (stLoop cap objs used cur).2.1 = used + (encodeStatic cur (stLoop cap objs used cur).1).length ∧
    (stLoop cap objs used cur).2.1 ≤ cap := by
  intro objs
  induction objs with
  | nil => intro used cur h; simpa [stLoop, encodeStatic] using h
  | cons o os ih =>
    intro used cur h
    unfold stLoop
    by_cases hfit : used + stCost cur o ≤ cap
    · simp only [hfit, if_true]
      have ih' := ih (used + stCost cur o) (some (stNext cur o)) hfit
      rcases hres : stLoop cap os (used + stCost cur o) (some (stNext cur o)) with ⟨w, u, f⟩
      rw [hres] at ih'
      simp only [] at ih' ⊢
      obtain ⟨X, hX, hl⟩ := encodeStatic_cons cur o w
      rw [hX, List.length_append, hl]
      exact ⟨by omega, ih'.2⟩
    · simp only [hfit, if_false]
      simpa [encodeStatic] using h

theorem qLoop_len (db : Db) (cap : Nat) : ∀ (q : List SelItem) (used : Nat), used ≤ cap →
    (qLoop db cap q used).2.2 = used + ((qLoop db cap q used).1.flatMap (encodeStatic none)).length ∧
    (qLoop db cap q used).2.2 ≤ cap := by
  intro q
  induction q with
  | nil => intro used h; simpa [qLoop] using h
  | cons it its ih =>
    intro used h
    unfold qLoop
    have hl := stLoop_len cap (itemObjs db it) used none h
    rcases hres : stLoop cap (itemObjs db it) used none with ⟨w, u, f⟩
    rw [hres] at hl
    simp only [] at hl
    obtain ⟨l1, l2⟩ := hl
    cases f with
    | none =>
      simp only []
      have ih' := ih u l2
      rcases hq : qLoop db cap its u with ⟨ws, q', u'⟩
      rw [hq] at ih'
      simp only [] at ih' ⊢
      refine ⟨?_, ih'.2⟩
      rw [List.flatMap_cons, List.length_append]
      omega
    | some i =>
      simp only [List.flatMap_cons, List.flatMap_nil, List.append_nil]
      exact ⟨l1, l2⟩

/-- a response never exceeds the space it was given -/
theorem response_within_capacity (db : Db) (cap : Nat) : (db.writeResponse cap).2.1.length ≤ cap := by
  have hev : (encodeEvents none (db.writeEvents cap).2.1).length ≤ cap := by
    have h := evLoop_len cap db.events 0 none (Nat.zero_le _)
    rw [Nat.zero_add] at h
    exact h
  unfold Db.writeResponse
  simp only []
  split
  · have hq := qLoop_len (db.writeEvents cap).1 cap (db.writeEvents cap).1.queue _ hev
    rcases hres : qLoop (db.writeEvents cap).1 cap (db.writeEvents cap).1.queue
      (encodeEvents none (db.writeEvents cap).2.1).length with ⟨ws, q', u'⟩
    rw [hres] at hq
    simp only [] at hq ⊢
    rw [List.length_append]
    exact Nat.le_trans (Nat.le_of_eq hq.1.symm) hq.2
  · exact hev

theorem unsolicited_within_capacity (db : Db) (c1 c2 c3 : Bool) (cap : Nat) :
    (db.writeUnsolicited c1 c2 c3 cap).2.1.length ≤ cap := by
  unfold Db.writeUnsolicited
  simp only []
  split
  · simp
  · have h := evLoop_len cap
      (selectEvents (fun r => (c1 && r.cls == 1) || (c2 && r.cls == 2) || (c3 && r.cls == 3)) none none db.reset.events).1
      0 none (Nat.zero_le _)
    rw [Nat.zero_add] at h
    exact h

end Dnp3.DbProofs
