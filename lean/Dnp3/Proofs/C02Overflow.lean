import Dnp3.Proofs.Master
/-!
# C02 — an accepted response fragment with IIN2.3 demands the integrity poll (master session model)

`process_read_response` calls `association.process_iin(..)` for EVERY accepted fragment of a READ
response, final or not.  The outstation clears EVENT_BUFFER_OVERFLOW as a side effect of the confirm of
a non-final fragment (the buffer is no longer full), so the indication may be carried by non-final
fragments only; the integrity poll it demands is the only way the master learns the current value of
a point whose event was discarded.
-/
namespace Dnp3.Proofs.C02Overflow
open Dnp3 Dnp3.Master Dnp3.Proofs.Master

theorem demand_not_idle (s : AutoState) : s.demand.isIdle = false := by
  cases s <;> rfl

theorem demand_keeps_not_idle (s : AutoState) (h : s.isIdle = false) : s.demand = s := by
  cases s with
  | idle => exact absurd h (by decide)
  | pending => rfl
  | failed a b => rfl

theorem onRestartObserved_integrity (x : Assoc) (h : x.auto.integrity.isIdle = false) :
    x.onRestartObserved.auto.integrity.isIdle = false := by
  unfold Assoc.onRestartObserved
  split
  · exact demand_not_idle _
  · exact h

theorem onOverflow_integrity (x : Assoc) (hovf : x.cfg.ovf = true) : x.onOverflow.auto.integrity.isIdle = false := by
  unfold Assoc.onOverflow
  simp only [hovf, if_true]
  exact demand_not_idle _

theorem setEvents_integrity (x : Assoc) (ev : Nat) : (x.setEvents ev).auto.integrity = x.auto.integrity := by
  unfold Assoc.setEvents
  dsimp only
  split <;> rfl

/-- `process_iin` with IIN2.3 set, `auto_integrity_scan_on_buffer_overflow` configured: whatever the
    other bits and whatever the state of the automatic tasks, the integrity task is not idle afterwards -/
theorem processIin_overflow_integrity (x : Assoc) (i1 i2 : Nat) (hovf : x.cfg.ovf = true) (hb : i2 &&& 0x08 ≠ 0) :
    (x.processIin i1 i2).auto.integrity.isIdle = false := by
  unfold Assoc.processIin
  simp only [hb, ne_eq, not_false_eq_true, if_true, setEvents_integrity]
  apply onOverflow_integrity
  split <;> split <;>
    simp only [(onNeedTime_keep _).2.2, (onRestartObserved_keep _).2.2, hovf]

/-- without the bit (and without IIN1.7) `process_iin` leaves the integrity task alone -/
theorem processIin_no_trigger (x : Assoc) (i1 i2 : Nat) (h7 : i1 &&& 0x80 = 0) (hb : i2 &&& 0x08 = 0) :
    (x.processIin i1 i2).auto.integrity = x.auto.integrity := by
  unfold Assoc.processIin
  simp only [h7, hb, ne_eq, not_true_eq_false, if_false, setEvents_integrity]
  split <;> rfl

theorem completePoll_integrity (x : Assoc) (id now : Nat) : (x.completePoll id now).auto.integrity = x.auto.integrity := rfl

theorem getAssoc_emit (a : Acc) (o : MOut) (d : Nat) : (emit a o).1.getAssoc d = a.1.getAssoc d := rfl
theorem getAssoc_setMode (a : Acc) (m : Mode) (d : Nat) : (setMode a m).1.getAssoc d = a.1.getAssoc d := rfl
theorem getAssoc_complete (a : Acc) (uid : Nat) (o : Outcome) (d : Nat) : (complete a uid o).1.getAssoc d = a.1.getAssoc d := rfl

/-- `modAssoc` at the address looked up -/
theorem getAssoc_mod (a : Acc) (addr : Nat) (f : Assoc → Assoc) (hf : ∀ y, (f y).addr = y.addr) (y : Assoc)
    (hy : a.1.getAssoc addr = some y) : (modAssoc a addr f).1.getAssoc addr = some (f y) := by
  rw [getAssoc_modAssoc a addr f hf, hy]
  rfl

theorem deliverHeader_state (a : Acc) (who : Who) (h : ObjHdr) : (deliverHeader a who h).1 = a.1 := by
  unfold deliverHeader
  repeat' split
  all_goals rfl

theorem foldl_deliverHeader_state (who : Who) (hs : List ObjHdr) (a : Acc) :
    (hs.foldl (fun a h => deliverHeader a who h) a).1 = a.1 := by
  induction hs generalizing a with
  | nil => rfl
  | cons h t ih => rw [List.foldl_cons, ih, deliverHeader_state]

theorem deliver_state (a : Acc) (who : Who) (rt : ReadType) (r : Resp) (hs : List ObjHdr) :
    (deliver a who rt r hs).1 = a.1 := by
  unfold deliver
  simp only [emit, foldl_deliverHeader_state]

/-- what the end of a READ does to the integrity task of `dest`: only the integrity poll itself
    completes it -/
theorem readComplete_integrity (a : Acc) (dest : Nat) (t : ReadTask) (y : Assoc)
    (hy : a.1.getAssoc dest = some y) (hni : ∀ c, t ≠ .integrity c) :
    ∃ z, (readComplete a dest t).1.getAssoc dest = some z ∧ z.auto.integrity = y.auto.integrity := by
  cases t with
  | integrity c => exact absurd rfl (hni c)
  | poll id c =>
    refine ⟨y.completePoll id a.1.now, ?_, rfl⟩
    refine getAssoc_mod a dest _ ?_ y hy
    intro _; rfl
  | eventScan c =>
    refine ⟨y.doneAuto .eventScan, ?_, rfl⟩
    refine getAssoc_mod a dest _ ?_ y hy
    intro _; rfl
  | single uid c b =>
    exact ⟨y, by simp only [readComplete, getAssoc_complete, hy], rfl⟩

/-- the verdict `accept` is only given to a fragment from the polled outstation -/
theorem accept_src (dest seq src : Nat) (isFirst ae : Bool) (r : Resp) (c f : Bool)
    (hv : processReadResponse dest seq isFirst ae src r = .accept c f) : src = dest ∧ f = r.ctrl.fin := by
  unfold processReadResponse at hv
  repeat' split at hv
  all_goals first | (cases hv; done) | skip
  rename_i h _ _ _ _ _ _ _
  injection hv with h1 h2
  exact ⟨Classical.not_not.mp h, h2.symm⟩

/-- **an accepted response fragment with IIN2.3 set, final or not, demands the integrity task.**
    The master waits for (a fragment of) the response to a READ `t` polled from `dest`; the association
    has `auto_integrity_scan_on_buffer_overflow`; the fragment received is accepted by
    `process_read_response` (`accept`, with or without CON, FIN or not) and carries IIN2.3.  Then, when
    the fragment has been handled (IIN processed, measurements delivered, confirm sent, and — for a
    final fragment — the READ task completed), the association's integrity task is not idle: it is
    pending or waits for its retry instant.  The one exception is in the statement: the FINAL fragment
    of the integrity poll itself completes that very task (`on_integrity_scan_complete`). -/
theorem overflow_iin_demands_integrity (s : MState) (dest seq dl : Nat) (t : ReadTask) (isFirst : Bool)
    (src : Nat) (frag : List Nat) (r : Resp) (x : Assoc) (confirm final : Bool)
    (hm : s.mode = .waitRead dest t seq isFirst dl)
    (hp : parseResponse frag = some r)
    (hx : s.getAssoc dest = some x) (hovf : x.cfg.ovf = true)
    (hv : processReadResponse dest seq isFirst true src r = .accept confirm final)
    (hiin : r.iin2 &&& 0x08 ≠ 0)
    (hni : final = true → ∀ c, t ≠ .integrity c) :
    ∃ y, (onFragment (s, []) src frag).acc.1.getAssoc dest = some y ∧ y.auto.integrity.isIdle = false := by
  obtain ⟨hsrc, _⟩ := accept_src _ _ _ _ _ _ _ _ hv
  subst hsrc
  -- the association after `notify_link_activity` and `process_iin`
  let x1 := x.onLinkActivity s.now
  let x2 := x1.processIin r.iin1 r.iin2
  have h1 : (notifyLinkActivity (s, []) src).1.getAssoc src = some x1 := by
    refine getAssoc_mod (s, []) src _ ?_ x hx
    intro _; rfl
  have hsome : ((notifyLinkActivity (s, []) src).1.getAssoc src).isSome = true := by rw [h1]; rfl
  have h2 : (modAssoc (notifyLinkActivity (s, []) src) src (·.processIin r.iin1 r.iin2)).1.getAssoc src = some x2 :=
    getAssoc_mod _ src _ (fun y => processIin_addr y _ _) x1 h1
  have hx2 : x2.auto.integrity.isIdle = false :=
    processIin_overflow_integrity x1 _ _ hovf hiin
  unfold onFragment
  simp only [hm, hp, hsome, hv]
  cases final with
  | true =>
    simp only [if_true, Step.acc]
    -- the READ completes: `finishRead .. (.ok seq)`
    generalize hb : (if confirm = true then _ else _ : Acc) = b
    have hbA : b.1.getAssoc src = some x2 := by
      subst hb
      cases confirm <;> simp only [Bool.false_eq_true, if_false, if_true, getAssoc_emit, deliver_state] <;>
        first | exact h2 | (rw [show ∀ (a : Acc) w rt r hs, (deliver a w rt r hs).1.getAssoc src = a.1.getAssoc src from
                                  fun a w rt r hs => by rw [deliver_state]]; exact h2)
    unfold finishRead
    simp only [hbA, Option.isSome_some, if_true]
    obtain ⟨z, hz, hzi⟩ := readComplete_integrity b src t x2 hbA (hni rfl)
    exact ⟨z, hz, by rw [hzi]; exact hx2⟩
  | false =>
    simp only [Bool.false_eq_true, if_false]
    generalize hb : (if confirm = true then _ else _ : Acc) = b
    have hbA : b.1.getAssoc src = some x2 := by
      subst hb
      cases confirm <;> simp only [Bool.false_eq_true, if_false, if_true, getAssoc_emit, deliver_state] <;>
        first | exact h2 | (rw [show ∀ (a : Acc) w rt r hs, (deliver a w rt r hs).1.getAssoc src = a.1.getAssoc src from
                                  fun a w rt r hs => by rw [deliver_state]]; exact h2)
    simp only [hbA, Step.acc, getAssoc_setMode]
    refine ⟨{ x2 with seq := seq4Next x2.seq }, ?_, hx2⟩
    refine getAssoc_mod b src _ ?_ x2 hbA
    intro _; rfl

/-- the S20 shape at the level of `Master.step`: a NON-FINAL accepted fragment.  The whole step (the
    fragment is handled, the task blocks again waiting for the next fragment) leaves the master in
    `waitRead` with the integrity task of the polled association not idle.  (`hlive`: the channel has not
    been dropped by all its handles — otherwise the step goes on to shut the task down.) -/
theorem nonfinal_overflow_fragment_step (s : MState) (dest seq dl : Nat) (t : ReadTask) (isFirst : Bool)
    (src dst : Nat) (frag : List Nat) (r : Resp) (x : Assoc) (confirm : Bool)
    (hdst : dst = masterAddr) (hsrc : src < 0xFFF0) (hne : frag.isEmpty = false) (hlen : frag.length ≤ 2048)
    (hlive : ¬ (s.shutdownReq = true ∧ s.live = 0))
    (hm : s.mode = .waitRead dest t seq isFirst dl)
    (hp : parseResponse frag = some r)
    (hx : s.getAssoc dest = some x) (hovf : x.cfg.ovf = true)
    (hv : processReadResponse dest seq isFirst true src r = .accept confirm false)
    (hiin : r.iin2 &&& 0x08 ≠ 0) :
    ∃ y seq' dl', (Master.step s (.rx src dst frag)).1.getAssoc dest = some y ∧ y.auto.integrity.isIdle = false ∧
      (Master.step s (.rx src dst frag)).1.mode = .waitRead dest t seq' false dl' := by
  obtain ⟨y, hy, hyi⟩ := overflow_iin_demands_integrity s dest seq dl t isFirst src frag r x confirm false
    hm hp hx hovf hv hiin (fun h => absurd h (by decide))
  obtain ⟨hsd, _⟩ := accept_src _ _ _ _ _ _ _ _ hv
  subst hsd
  -- the step result is the `waiting` accumulator of `onFragment`
  have h1 : (notifyLinkActivity (s, []) src).1.getAssoc src = some (x.onLinkActivity s.now) := by
    refine getAssoc_mod (s, []) src _ ?_ x hx
    intro _; rfl
  have hsome : ((notifyLinkActivity (s, []) src).1.getAssoc src).isSome = true := by rw [h1]; rfl
  have h2 : (modAssoc (notifyLinkActivity (s, []) src) src (·.processIin r.iin1 r.iin2)).1.getAssoc src =
      some ((x.onLinkActivity s.now).processIin r.iin1 r.iin2) :=
    getAssoc_mod _ src _ (fun y => processIin_addr y _ _) _ h1
  have hw : ∃ a' seq' dl', onFragment (s, []) src frag = .waiting a' ∧ a'.1.shutdownReq = s.shutdownReq ∧
      a'.1.live = s.live ∧ a'.1.mode = .waitRead src t seq' false dl' := by
    unfold onFragment
    simp only [hm, hp, hsome, hv, Bool.false_eq_true, if_false]
    generalize hb : (if confirm = true then _ else _ : Acc) = b
    have hbA : b.1.getAssoc src = some ((x.onLinkActivity s.now).processIin r.iin1 r.iin2) ∧
        b.1.shutdownReq = s.shutdownReq ∧ b.1.live = s.live := by
      subst hb
      cases confirm <;> simp only [Bool.false_eq_true, if_false, if_true, emit, deliver_state] <;>
        exact ⟨h2, rfl, rfl⟩
    simp only [hbA.1]
    exact ⟨_, _, _, rfl, hbA.2.1, hbA.2.2, rfl⟩
  obtain ⟨a', seq', dl', hw, hsr, hlv, hmode⟩ := hw
  have hstep : Master.step s (.rx src dst frag) = a' := by
    unfold Master.step
    have hg : ¬ (dst ≠ masterAddr ∨ src ≥ 0xFFF0 ∨ frag.isEmpty = true ∨ frag.length > 2048) := by
      rw [hdst, hne]
      simp only [ne_eq, not_true_eq_false, false_or, Bool.false_eq_true, ge_iff_le, gt_iff_lt, not_or, Nat.not_le, Nat.not_lt]
      exact ⟨hsrc, hlen⟩
    simp only [hg, if_false, hw]
    show checkShutdown a' = a'
    unfold checkShutdown
    rw [hsr, hlv]
    simp only [hlive, if_false]
  rw [hw] at hy
  rw [hstep]
  exact ⟨y, seq', dl', hy, hyi, hmode⟩

end Dnp3.Proofs.C02Overflow
