import Dnp3.Proofs.C02SeriesMaster
import Dnp3.Proofs.C02MasterQuiet
/-!
# C02 — what the master confirms it has delivered (step level)

`master_confirm_means_accepted`: a CONFIRM among the outputs of ONE step of the master session model, any state, any
input: the input is an application fragment that parses as a response and the confirm is the one C15 prescribes for it
(`expectedConfirms`).  `read_confirm_delivered`: for a READ in flight, a solicited confirm `[0xC0 + seq, 0]` means the
fragment was accepted with CON and the step's outputs contain, in this order, `deliverBegin`, the handler calls of
every parsed object header of that fragment, `deliverEnd`, and then the CONFIRM.
-/
namespace Dnp3.Proofs.C02EventsMaster
open Dnp3 Dnp3.Master Dnp3.Proofs.Master Dnp3.Proofs.C02Overflow Dnp3.Proofs.C02Master Dnp3.Proofs.C02SeriesMaster
open Dnp3.Proofs.C02MasterQuiet

/-- a CONFIRM emitted by one step of the master session model answers the application fragment received in that step -/
theorem master_confirm_means_accepted (s : MState) (inp : MInput) (d c : Nat)
    (h : (d, c) ∈ confirmsOf (Master.step s inp).2) :
    ∃ src frag r, inp = .rx src masterAddr frag ∧ src < 0xFFF0 ∧ frag.isEmpty = false ∧ frag.length ≤ 2048 ∧
      parseResponse frag = some r ∧ (d, c) ∈ expectedConfirms s src r := by
  rw [step_confirms] at h
  cases inp with
  | rx src dst frag =>
    simp only at h
    split at h
    · cases h
    · rename_i hg
      simp only [ne_eq, ge_iff_le, gt_iff_lt, not_or, Decidable.not_not, Nat.not_le, Nat.not_lt, Bool.not_eq_true] at hg
      obtain ⟨rfl, h2, h3, h4⟩ := hg
      cases hp : parseResponse frag with
      | none => rw [hp] at h; cases h
      | some r => rw [hp] at h; exact ⟨src, frag, r, rfl, h2, h3, h4, hp, h⟩
  | _ => cases h

/-- the fragment handler on a fragment `process_read_response` accepts: everything after the confirm is quiet -/
theorem read_accept_quiet (s : MState) (dest : Nat) (t : ReadTask) (seq dl : Nat) (isFirst : Bool) (src : Nat)
    (frag : List Nat) (r : Resp) (con fin : Bool)
    (hm : s.mode = .waitRead dest t seq isFirst dl) (hp : parseResponse frag = some r)
    (hv : processReadResponse dest seq isFirst (s.getAssoc dest).isSome src r = .accept con fin) :
    src = dest ∧ con = r.ctrl.con ∧
    Quiet (acceptedAcc (s, []) dest t seq r (r.objects.getD [])) (onFragment (s, []) src frag).acc := by
  obtain ⟨hsrc, _⟩ := accept_src _ _ _ _ _ _ _ _ hv
  subst hsrc
  have hcon : con = r.ctrl.con := by
    unfold processReadResponse at hv
    repeat' split at hv
    all_goals first | (cases hv; done) | skip
    injection hv with h1 h2
    exact h1.symm
  subst hcon
  refine ⟨rfl, rfl, ?_⟩
  unfold onFragment
  simp only [hm, hp]
  rw [Dnp3.Proofs.Master.notify_getAssoc, hv]
  unfold acceptedAcc
  simp only
  generalize (if r.ctrl.con = true then _ else _ : Acc) = A
  split
  · simp only [Step.acc]; exact Quiet.finishRead _ _ _ _
  · split
    · simp only [Step.acc]; exact Quiet.finishRead _ _ _ _
    · simp only [Step.acc]; exact (Quiet.modAssoc _ _ _).trans (Quiet.setMode _ _)

/-- **a solicited CONFIRM during a READ means: accepted, delivered, then confirmed.**  The master waits for a
    fragment of the answer to a READ; one step emits the solicited confirm `[0xC0 + seq, 0]` to `dest`.  Then the
    input was a fragment from `dest` that parses as a solicited response with CON which `process_read_response`
    accepted, and the outputs of the step are: `deliverBegin`, the handler calls of EVERY parsed object header of
    that fragment (`headerCalls`, in order), `deliverEnd`, the CONFIRM, followed by outputs that are neither
    deliveries nor confirms. -/
theorem read_confirm_delivered (s : MState) (dest : Nat) (t : ReadTask) (seq dl : Nat) (isFirst : Bool) (inp : MInput)
    (hm : s.mode = .waitRead dest t seq isFirst dl)
    (h : (dest, 0xC0 + seq) ∈ confirmsOf (Master.step s inp).2) (hseq : seq < 16) :
    ∃ frag r hs fin l, inp = .rx dest masterAddr frag ∧ parseResponse frag = some r ∧ r.unsol = false ∧
      r.ctrl.con = true ∧ r.ctrl.seq = seq ∧ r.objects = some hs ∧
      processReadResponse dest seq isFirst (s.getAssoc dest).isSome dest r = .accept true fin ∧
      (Master.step s inp).2 = [.deliverBegin (whoOf dest t) (rtOf t) r.ctrl.toNat r.iin1 r.iin2] ++
        hs.flatMap (headerCalls (whoOf dest t)) ++ [.deliverEnd (whoOf dest t) (rtOf t), .tx dest [0xC0 + seq, 0]] ++ l ∧
      ∀ o ∈ l, QuietOut o := by
  obtain ⟨src, frag, r, rfl, h2, h3, h4, hp, hc⟩ := master_confirm_means_accepted s inp _ _ h
  -- the confirm is a solicited one: the unsolicited rule gives 0xD0 + _
  have hu : r.unsol = false := by
    cases hu : r.unsol with
    | false => rfl
    | true =>
      exfalso
      simp only [expectedConfirms, hm, hu, if_true] at hc
      split at hc
      · cases hc
      · split at hc
        · simp only [List.mem_singleton, Prod.mk.injEq] at hc
          omega
        · cases hc
  simp only [expectedConfirms, hm, hu, Bool.false_eq_true, if_false] at hc
  cases hv : processReadResponse dest seq isFirst (s.getAssoc dest).isSome src r with
  | unsolicited => rw [hv] at hc; cases hc
  | ignore => rw [hv] at hc; cases hc
  | fail e b => rw [hv] at hc; cases hc
  | accept con fin =>
    rw [hv] at hc
    cases con with
    | false => cases hc
    | true =>
      obtain ⟨hsrc, hcon, hq⟩ := read_accept_quiet s dest t seq dl isFirst src frag r true fin hm hp hv
      subst hsrc
      have hacc := (C15_read_accept src seq isFirst (s.getAssoc src).isSome r true fin).mp hv
      obtain ⟨hs, hobj⟩ : ∃ hs, r.objects = some hs := by
        cases ho : r.objects with
        | none => rw [ho] at hacc; simp at hacc
        | some hs => exact ⟨hs, rfl⟩
      have hq2 := hq.trans (step_rx_not_dropped_quiet s src frag h2 h3 h4)
      obtain ⟨l, hl, hql⟩ := hq2
      rw [acceptedAcc_outs, ← hcon, hobj] at hl
      refine ⟨frag, r, hs, fin, l, rfl, hp, hu, hcon.symm, hacc.2.2.1, hobj, hv, ?_, hql⟩
      rw [hl]
      simp
where
  C15_read_accept (dest seq : Nat) (isFirst assocExists : Bool) (r : Resp) (c f : Bool) :
      processReadResponse dest seq isFirst assocExists dest r = .accept c f ↔
        (r.unsol = false ∧ dest = dest ∧ r.ctrl.seq = seq ∧ r.ctrl.fir = isFirst ∧ (r.ctrl.fin = true ∨ r.ctrl.con = true) ∧
         badIin2 r.iin2 = false ∧ assocExists = true ∧ r.objects.isSome = true ∧ c = r.ctrl.con ∧ f = r.ctrl.fin) := by
    unfold processReadResponse
    constructor
    · intro h
      split at h <;> try contradiction
      split at h <;> try contradiction
      split at h <;> try contradiction
      split at h <;> try contradiction
      split at h <;> try contradiction
      split at h <;> try contradiction
      split at h <;> try contradiction
      split at h <;> try contradiction
      split at h <;> try contradiction
      injection h with hc hf
      cases hfir : r.ctrl.fir <;> cases hfin : r.ctrl.fin <;> cases hcon : r.ctrl.con <;> cases isFirst <;>
        simp_all [Option.isSome_iff_ne_none]
    · rintro ⟨h1, h2, h3, h4, h5, h6, h7, h8, h9, h10⟩
      subst h9 h10
      cases hfir : r.ctrl.fir <;> cases hfin : r.ctrl.fin <;> cases hcon : r.ctrl.con <;> cases isFirst <;>
        simp_all [Option.isSome_iff_ne_none]

end Dnp3.Proofs.C02EventsMaster
