import Dnp3.Proofs.OutstationSkel2
import Dnp3.Proofs.OutstationC14
/-!
# C14 — whole-trace theorems about unsolicited reporting

Over ALL runs `Outstation.run env (Outstation.start cfg evMax).1 ins` (outputs `traceOuts`):

* `unsol_trace_monitored`: the executable monitor `uMon` (null responses only until a confirmation, every
  unsolicited transmission is a series start followed by its `unsolWait` callback or a retry preceded by its
  `unsolTimeout _ true` callback, a retry is octet-for-octet the series' first transmission and the retry
  budget is respected) accepts every trace;
* `null_until_confirmed_trace`, `unsol_tx_accounted`, `retries_bounded_trace`: the same in plain terms;
* `one_outstanding_sol`: the solicited confirm wait counterpart of `one_outstanding`.

`Db.*` is opaque throughout.
-/
namespace Dnp3.Proofs.C14Trace
open Dnp3 Dnp3.Proofs.Frame Dnp3.Proofs.Iin Dnp3.Proofs.Skel Dnp3.Proofs.Skel2 Dnp3.Proofs.C14

attribute [local irreducible] Db.new Db.add Db.update Db.readSupported Db.select Db.writeResponse
  Db.writeUnsolicited Db.clearWritten Db.reset Db.unwrittenClasses Db.isOverflown

/-! ## 1. which function code a transmitted fragment carries -/

theorem writeAt_zero (buf data : List Nat) : writeAt buf 0 data = data ++ buf.drop data.length := by
  simp [writeAt]

theorem writeAt_zero_idem (buf data : List Nat) : writeAt (writeAt buf 0 data) 0 data = writeAt buf 0 data := by
  simp [writeAt_zero]

/-- the octets a response record is transmitted as: its header over the buffer, cut to its size -/
def fragBytes (buf : List Nat) (r : Resp) : List Nat := (writeAt buf 0 (respHeader r)).take (max 4 r.size)

theorem fragBytes_func (buf : List Nat) (r : Resp) : (fragBytes buf r).getD 1 0 = r.func := by
  unfold fragBytes
  rw [writeAt_zero]
  have h : 1 < max 4 r.size := by omega
  simp [respHeader, List.getD_eq_getElem?_getD, h]

theorem fragBytes_idem (buf : List Nat) (r : Resp) :
    fragBytes (writeAt buf 0 (respHeader r)) r = fragBytes buf r := by
  unfold fragBytes
  rw [writeAt_zero_idem]

theorem fragBytes_null_length (buf : List Nat) (r : Resp) (h : r.size = 0) : (fragBytes buf r).length = 4 := by
  unfold fragBytes
  rw [h]
  exact take_header_length _ _ rfl

theorem unsolBytes_eq (s : OState) (r : Resp) : unsolBytes s r = fragBytes s.unsolBuf r := rfl

/-- `writeSolicited`: one fragment carrying the function code of the response handed in; the state changes in
    `lastBroadcast` and `solBuf` only -/
theorem writeSolicited_out {a : Acc} {dst : Nat} {r : Resp} {a' : Acc} {r' : Resp}
    (h : writeSolicited a dst r = some (a', r')) :
    (∃ b, a'.2 = a.2 ++ [.tx dst b] ∧ b.getD 1 0 = r.func) ∧ r'.func = r.func ∧ keepWS a'.1 = keepWS a.1 := by
  obtain ⟨c1, c2, c3, _, _, _, hf, _, _, e⟩ := writeSolicited_eq a dst r a' r' h
  refine ⟨⟨_, by rw [e], ?_⟩, hf, (writeSolicited_keep a dst r a' r' h).1⟩
  rw [← hf]
  exact fragBytes_func _ _

/-! ### every response a request handler returns is a solicited response (function 0x81) -/

theorem handleWrite_func (a : Acc) (seq : Nat) (hs : List ObjHdr) : (handleWrite a seq hs).2.func = 0x81 := rfl

theorem handleFreeze_func (a : Acc) (seq : Nat) (k : FreezeKind) (hs : List ObjHdr) :
    (handleFreeze a seq k hs).2.func = 0x81 := rfl

theorem handleEnableDisable_func (a : Acc) (en : Bool) (seq : Nat) (hs : List ObjHdr) :
    (handleEnableDisable a en seq hs).2.func = 0x81 := by
  unfold handleEnableDisable
  split <;> rfl

theorem handleRestart_func (a : Acc) (seq : Nat) (name : Cb) : (handleRestart a seq name).2.func = 0x81 := by
  unfold handleRestart
  dsimp only
  split
  · rfl
  · split <;> rfl

theorem handleControls_func {a : Acc} {func seq fid : Nat} {hs : List ObjHdr} {raw : List Nat} {a' : Acc} {r : Resp}
    (h : handleControls a func seq fid hs raw = some (a', some r)) : r.func = 0x81 := by
  unfold handleControls at h
  split at h
  · split at h
    · cases h
    · cases h; rfl
  · split at h
    · cases h; rfl
    · split at h
      · dsimp only at h
        split at h
        · cases h; rfl
        · cases h; rfl
      · split at h
        · cases h; rfl
        · cases h

theorem handleNonRead_func {a : Acc} {func seq fid : Nat} {hs : List ObjHdr} {raw : List Nat} {a' : Acc} {r : Resp}
    (h : handleNonRead a func seq fid hs raw = some (a', some r)) : r.func = 0x81 := by
  delta handleNonRead at h
  have key : ∀ (res : Option (Acc × Option Resp)),
      (match res with
        | none => none
        | some (a, none) => some (a, none)
        | some (a, some r) =>
          some (a, some { r with iin2 := r.iin2 ||| (if objectsAllowed func then 0 else if raw.isEmpty then 0 else iin2ParamError) })) = some (a', some r) →
      ∃ r0, res = some (a', some r0) ∧ r.func = r0.func := by
    intro res hres
    split at hres
    · cases hres
    · cases hres
    · cases hres; exact ⟨_, rfl, rfl⟩
  obtain ⟨r0, hr, hf⟩ := key _ h
  clear h key
  rw [hf]
  clear hf
  by_cases hc0 : func = 2
  · rw [if_pos hc0] at hr; cases hr; exact handleWrite_func _ _ _
  rw [if_neg hc0] at hr
  by_cases hc1 : func = 23
  · rw [if_pos hc1] at hr; cases hr; rfl
  rw [if_neg hc1] at hr
  by_cases hc2 : func = 24
  · rw [if_pos hc2] at hr; cases hr; rfl
  rw [if_neg hc2] at hr
  by_cases hc3 : func = 13
  · rw [if_pos hc3] at hr; cases hr; exact handleRestart_func _ _ _
  rw [if_neg hc3] at hr
  by_cases hc4 : func = 14
  · rw [if_pos hc4] at hr; cases hr; exact handleRestart_func _ _ _
  rw [if_neg hc4] at hr
  by_cases hc5 : func = 3 ∨ func = 4 ∨ func = 5 ∨ func = 6
  · rw [if_pos hc5] at hr; exact handleControls_func hr
  rw [if_neg hc5] at hr
  by_cases hc6 : func = 7
  · rw [if_pos hc6] at hr; cases hr; exact handleFreeze_func _ _ _ _
  rw [if_neg hc6] at hr
  by_cases hc7 : func = 8
  · rw [if_pos hc7] at hr; cases hr
  rw [if_neg hc7] at hr
  by_cases hc8 : func = 9
  · rw [if_pos hc8] at hr; cases hr; exact handleFreeze_func _ _ _ _
  rw [if_neg hc8] at hr
  by_cases hc9 : func = 10
  · rw [if_pos hc9] at hr; cases hr
  rw [if_neg hc9] at hr
  by_cases hc10 : func = 11
  · rw [if_pos hc10] at hr; cases hr; rfl
  rw [if_neg hc10] at hr
  by_cases hc11 : func = 12
  · rw [if_pos hc11] at hr; cases hr
  rw [if_neg hc11] at hr
  by_cases hc12 : func = 20
  · rw [if_pos hc12] at hr; cases hr; exact handleEnableDisable_func _ _ _ _
  rw [if_neg hc12] at hr
  by_cases hc13 : func = 21
  · rw [if_pos hc13] at hr; cases hr; exact handleEnableDisable_func _ _ _ _
  rw [if_neg hc13] at hr
  cases hr; rfl

theorem formatReadResponse_func (s : OState) (fir : Bool) (seq iin2 : Nat) :
    (formatReadResponse s fir seq iin2).2.1.func = 0x81 := rfl

/-- the response a repeat is classified with is the stored one -/
theorem classify_repeatRead {s : OState} {f : Frag} {ctrl : AppCtrl} {func : Nat} {objs : Except Nat (List ObjHdr)}
    {resp : Option Resp} {hs : List ObjHdr} (h : classify s f ctrl func objs = .repeatRead resp hs) :
    ∃ last, s.lastReq = some last ∧ resp = last.response := by
  unfold classify at h
  split at h
  · split at h <;> cases h
  · split at h
    · cases h
    · split at h
      · cases h
      · dsimp only at h
        cases hl : s.lastReq with
        | none => rw [hl] at h; dsimp only at h; split at h <;> cases h
        | some last =>
          rw [hl] at h
          dsimp only at h
          by_cases hd : last.seq = ctrl.seq ∧ last.frag = f.data
          · rw [if_pos hd] at h
            dsimp only at h
            split at h
            · cases h; exact ⟨last, rfl, rfl⟩
            · cases h
          · rw [if_neg hd] at h
            dsimp only at h
            split at h <;> cases h

theorem classify_repeatNonRead {s : OState} {f : Frag} {ctrl : AppCtrl} {func : Nat} {objs : Except Nat (List ObjHdr)}
    {resp : Option Resp} (h : classify s f ctrl func objs = .repeatNonRead resp) :
    ∃ last, s.lastReq = some last ∧ resp = last.response := by
  unfold classify at h
  split at h
  · split at h <;> cases h
  · split at h
    · cases h
    · split at h
      · cases h
      · dsimp only at h
        cases hl : s.lastReq with
        | none => rw [hl] at h; dsimp only at h; split at h <;> cases h
        | some last =>
          rw [hl] at h
          dsimp only at h
          by_cases hd : last.seq = ctrl.seq ∧ last.frag = f.data
          · rw [if_pos hd] at h
            dsimp only at h
            split at h
            · cases h
            · cases h; exact ⟨last, rfl, rfl⟩
          · rw [if_neg hd] at h
            dsimp only at h
            split at h <;> cases h

/-! ## 2. the monitor -/

/-- an unsolicited series as the monitor sees it: destination and octets of its first transmission, the
    sequence number its `unsolWait` callback announced, the number of retries seen so far -/
structure USer where
  dst : Nat
  bytes : List Nat
  seq : Nat
  used : Nat
deriving DecidableEq, Repr

/-- what the monitor insists on seeing next -/
inductive Expect where
  | nothing
  /-- an unsolicited fragment that is not a retry was transmitted: its `unsolWait` callback must follow -/
  | startCb (dst : Nat) (bytes : List Nat)
  /-- `unsolTimeout q true` was reported: the retransmission must follow -/
  | retryTx (q : Nat)
deriving DecidableEq, Repr

structure UMon where
  /-- an `unsolConfirmed` callback was seen -/
  confirmed : Bool := false
  ser : Option USer := none
  expect : Expect := .nothing
deriving DecidableEq, Repr

/-- the fragment is an unsolicited response: function octet 0x82 -/
def isUnsolFrag (b : List Nat) : Bool := b.getD 1 0 == 0x82

/-- the retry budget `retries` (`none` = unlimited) allows one more retry after `used` of them -/
def retryAllowed (retries : Option Nat) (used : Nat) : Bool :=
  match retries with
  | none => true
  | some n => decide (used < n)

/-- **the unsolicited-reporting monitor** over the outputs of a run (`none` = the trace is rejected):
    * a fragment with function 0x82 that is not a retry must be followed at once by its `unsolWait seq`
      callback (and an `unsolWait` callback never comes without it): that is the start of a series;
    * as long as no `unsolConfirmed` was seen every unsolicited fragment has exactly 4 octets (a NULL response);
    * `unsolTimeout q true` must be followed at once by a transmission to the same destination of exactly the
      octets the series `q` started with, and at most `retries` times per series;
    * `unsolConfirmed q` / `unsolTimeout q false` refer to the series outstanding. -/
def uMon (retries : Option Nat) (m : UMon) (o : OOut) : Option UMon :=
  match m.expect with
  | .startCb d b =>
    match o with
    | .cb (.unsolWait seq) => some { m with ser := some ⟨d, b, seq, 0⟩, expect := .nothing }
    | _ => none
  | .retryTx q =>
    match o, m.ser with
    | .tx d b, some sr =>
      if d = sr.dst ∧ b = sr.bytes ∧ q = sr.seq ∧ retryAllowed retries sr.used = true ∧
          (m.confirmed = true ∨ b.length = 4) then
        some { m with ser := some { sr with used := sr.used + 1 }, expect := .nothing }
      else none
    | _, _ => none
  | .nothing =>
    match o with
    | .tx d b =>
      if isUnsolFrag b then
        (if m.confirmed = true ∨ b.length = 4 then some { m with expect := .startCb d b } else none)
      else some m
    | .cb (.unsolWait _) => none
    | .cb (.unsolTimeout q true) => some { m with expect := .retryTx q }
    | .cb (.unsolTimeout q false) =>
      (match m.ser with
       | some sr => if sr.seq = q then some { m with ser := none } else none
       | none => none)
    | .cb (.unsolConfirmed q) =>
      (match m.ser with
       | some sr => if sr.seq = q then some { m with ser := none, confirmed := true } else none
       | none => none)
    | _ => some m

/-- outputs the monitor ignores (in its resting state) -/
def plainOut : OOut → Bool
  | .tx _ b => !isUnsolFrag b
  | .cb (.unsolWait _) | .cb (.unsolTimeout ..) | .cb (.unsolConfirmed _) => false
  | _ => true

theorem uMon_plain (retries : Option Nat) (m : UMon) (o : OOut) (he : m.expect = .nothing) (hp : plainOut o = true) :
    uMon retries m o = some m := by
  unfold uMon
  rw [he]
  cases o with
  | tx d b =>
    have : isUnsolFrag b = false := by simpa [plainOut] using hp
    simp [this]
  | cb c => cases c <;> simp_all [plainOut]
  | txLink => rfl
  | line => rfl
  | panic => rfl

theorem runMon_plain (retries : Option Nat) (m : UMon) (l : List OOut) (he : m.expect = .nothing)
    (hp : ∀ o ∈ l, plainOut o = true) : runMon (uMon retries) m l = some m := by
  induction l with
  | nil => rfl
  | cons o l ih =>
    simp only [runMon]
    rw [uMon_plain retries m o he (hp o (by simp))]
    exact ih (fun o' ho' => hp o' (by simp [ho']))

/-- outputs of these kinds are ignored by the monitor -/
theorem plain_of_kind {o : OOut} {ks : List OKind} (h : OOut.kind o ∈ ks)
    (hk : ∀ k ∈ ks, k ≠ .tx ∧ k ≠ .unsolWait ∧ k ≠ .unsolTimeout ∧ k ≠ .unsolConfirmed) : plainOut o = true := by
  have := hk _ h
  cases o with
  | tx d b => simp [OOut.kind] at this
  | cb c => cases c <;> simp_all [OOut.kind, Cb.kind, plainOut]
  | txLink => rfl
  | line => rfl
  | panic => rfl

theorem plain_tx {d : Nat} {b : List Nat} (h : b.getD 1 0 = 0x81) : plainOut (.tx d b) = true := by
  show (!(b.getD 1 0 == 0x82)) = true
  rw [h]
  rfl

/-! ## 3. the relation between the session state and the monitor -/

/-- every stored response is a solicited response -/
def SolInv (s : OState) : Prop := ∀ lr r, s.lastReq = some lr → lr.response = some r → r.func = 0x81

/-- the retry counter `rt` of the wait is within the budget, `k` retries having been used -/
def RetOk (retries : Option Nat) (rt : Option Nat) (k : Nat) : Prop :=
  ∀ n, retries = some n → ∃ r, rt = some r ∧ k + r ≤ n

/-- while the task is blocked in the unsolicited confirm wait for `resp`, the monitor's series is that one -/
def SerMatch (retries : Option Nat) (s : OState) (m : UMon) : Prop :=
  ∀ resp isNull rt dl, s.mode = .unsolWait resp isNull rt dl →
    resp.func = 0x82 ∧
    (∃ k, m.ser = some ⟨s.cfg.master, fragBytes s.unsolBuf resp, resp.ctrl.seq, k⟩ ∧ RetOk retries rt k) ∧
    s.unsolBuf = writeAt s.unsolBuf 0 (respHeader resp) ∧
    (isNull = true → rt = some 0 ∧ resp.size = 0) ∧ (s.unsol = .nullRequired → isNull = true)

def Common (retries : Option Nat) (s : OState) (m : UMon) : Prop :=
  s.cfg.retries = retries ∧ SolInv s ∧ (m.confirmed = false → s.unsol = .nullRequired) ∧ m.expect = .nothing

/-- the invariant: in phase `.blk` the mode is genuine and the monitor's series matches it -/
def J (retries : Option Nat) : Ph → OState → UMon → Prop
  | .blk, s, m => Common retries s m ∧ SerMatch retries s m
  | .tl, s, m => Common retries s m

theorem J.common {retries : Option Nat} {ph : Ph} {s : OState} {m : UMon} (h : J retries ph s m) :
    Common retries s m := by
  cases ph with
  | blk => exact h.1
  | tl => exact h

/-- the fields the invariant reads -/
def kJ (s : OState) := (s.cfg, s.lastReq, s.unsol, s.mode, s.unsolBuf)

theorem Common.of_keep {retries : Option Nat} {s s' : OState} {m : UMon} (hk : kJ s' = kJ s)
    (h : Common retries s m) : Common retries s' m := by
  simp only [kJ, Prod.mk.injEq] at hk
  obtain ⟨h1, h2, h3, h4⟩ := h
  refine ⟨by rw [hk.1]; exact h1, ?_, by rw [hk.2.2.1]; exact h3, h4⟩
  intro lr r hl
  rw [hk.2.1] at hl
  exact h2 lr r hl

theorem SerMatch.of_keep {retries : Option Nat} {s s' : OState} {m : UMon} (hk : kJ s' = kJ s)
    (h : SerMatch retries s m) : SerMatch retries s' m := by
  simp only [kJ, Prod.mk.injEq] at hk
  intro resp isNull rt dl hm
  rw [hk.2.2.2.1] at hm
  have := h resp isNull rt dl hm
  rw [hk.1, hk.2.2.2.2, hk.2.2.1]
  exact this

theorem J.of_keep {retries : Option Nat} {ph : Ph} {s s' : OState} {m : UMon} (hk : kJ s' = kJ s)
    (h : J retries ph s m) : J retries ph s' m := by
  cases ph with
  | blk => exact ⟨h.1.of_keep hk, h.2.of_keep hk⟩
  | tl => exact Common.of_keep hk h

/-- a mode that is not the unsolicited confirm wait needs no series -/
theorem SerMatch.of_notUW {retries : Option Nat} {s : OState} {m : UMon}
    (h : ∀ resp isNull rt dl, s.mode ≠ .unsolWait resp isNull rt dl) : SerMatch retries s m :=
  fun resp isNull rt dl hm => absurd hm (h resp isNull rt dl)

theorem J.toTl {retries : Option Nat} {ph : Ph} {s : OState} {m : UMon} (h : J retries ph s m) : J retries .tl s m :=
  h.common

/-- events that append only outputs the monitor ignores and change the state compatibly -/
theorem MR.plain {retries : Option Nat} {x y : PA} {l : List OOut} (hl : y.2.2 = x.2.2 ++ l)
    (hp : ∀ o ∈ l, plainOut o = true)
    (hj : ∀ m, J retries x.1 x.2.1 m → J retries y.1 y.2.1 m) : MR (uMon retries) (J retries) x y :=
  ⟨l, hl, fun m h => ⟨m, runMon_plain retries m l h.common.2.2.2 hp, hj m h⟩⟩

/-! ## 4. per-event soundness of the monitor -/

theorem Common.of_eq {retries : Option Nat} {s s' : OState} {m : UMon} (hc : s'.cfg = s.cfg)
    (hl : s'.lastReq = s.lastReq) (hu : s'.unsol = s.unsol) (h : Common retries s m) : Common retries s' m := by
  obtain ⟨h1, h2, h3, h4⟩ := h
  refine ⟨by rw [hc]; exact h1, ?_, by rw [hu]; exact h3, h4⟩
  intro lr r hlr
  rw [hl] at hlr
  exact h2 lr r hlr

theorem kJ_of_keepWS {s s' : OState} (h : keepWS s' = keepWS s) : kJ s' = kJ s := by
  simp only [keepWS, kJ, Prod.mk.injEq] at h ⊢
  simp [h]

theorem kJ_of_keepNR {s s' : OState} (h : keepNR s' = keepNR s) : kJ s' = kJ s := by
  simp only [keepNR, kJ, Prod.mk.injEq] at h ⊢
  simp [h]

theorem kJ_of_keepBC {s s' : OState} (h : keepBC s' = keepBC s) : kJ s' = kJ s := by
  simp only [keepBC, kJ, Prod.mk.injEq] at h ⊢
  simp [h]

section
variable {retries : Option Nat}

/-- a solicited response written through `writeSolicited` -/
theorem wsol_mr (ph : Ph) {a : Acc} {dst : Nat} {r : Resp} {a' : Acc} {r' : Resp} (hf : r.func = 0x81)
    (hw : writeSolicited a dst r = some (a', r')) : MR (uMon retries) (J retries) (ph, a) (ph, a') := by
  obtain ⟨⟨b, hb, hb1⟩, _, hk⟩ := writeSolicited_out hw
  refine MR.plain hb ?_ (fun m h => J.of_keep (kJ_of_keepWS hk) h)
  intro o ho
  simp only [List.mem_singleton] at ho
  subst ho
  exact plain_tx (by rw [hb1, hf])

theorem idleStage1_sol {a : Acc} {f : Frag} {ctrl : AppCtrl} {func : Nat} {objs : Except Nat (List ObjHdr)}
    {raw : List Nat} {a1 : Acc} {lr : Option (LastReq × Bool)} (hs : SolInv a.1)
    (h : idleStage1 a f ctrl func objs raw = some (a1, lr)) :
    a1.1.lastReq = a.1.lastReq ∧ (∃ l, a1.2 = a.2 ++ l ∧ ∀ o ∈ l, plainOut o = true) ∧
    (∀ rec e r, lr = some (rec, e) → rec.response = some r → r.func = 0x81) := by
  unfold idleStage1 at h
  split at h
  · cases h
    refine ⟨rfl, ⟨[], by simp, by simp⟩, ?_⟩
    intro rec e r hl hr
    cases hl
    cases hr
    rfl
  · cases h
    refine ⟨rfl, ⟨[], by simp, by simp⟩, ?_⟩
    intro rec e r hl hr
    cases hl
    cases hr
    rfl
  · cases h
    refine ⟨rfl, ⟨[], by simp, by simp⟩, ?_⟩
    intro rec e r hl hr
    cases hl
    cases hr
    rfl
  · dsimp only at h
    split at h
    · cases h
    · rename_i a2 r2 hn
      cases h
      have fr := handleNonRead_frame _ _ _ _ _ _ _ _ hn
      obtain ⟨hk, l, el, hp⟩ := fr
      simp only [keepNR, Prod.mk.injEq] at hk
      refine ⟨hk.2.2.2.2.1, ⟨l, el, fun o ho => plain_of_kind (NRP_kind o (hp o ho)) (by simp)⟩, ?_⟩
      intro rec e r hl hr
      cases hl
      have hr' : r2 = some r := hr
      subst hr'
      exact handleNonRead_func hn
  · rename_i last hc
    dsimp only at h
    obtain ⟨lq, hlq, hresp⟩ := classify_repeatNonRead hc
    have key : ∀ s1 : OState,
        some ((s1, a.2), some ((⟨ctrl.seq, f.data, last, s1.lastReq.bind (·.series)⟩ : LastReq), true)) = some (a1, lr) →
        s1.lastReq = a.1.lastReq →
        a1.1.lastReq = a.1.lastReq ∧ (∃ l, a1.2 = a.2 ++ l ∧ ∀ o ∈ l, plainOut o = true) ∧
        (∀ rec e r, lr = some (rec, e) → rec.response = some r → r.func = 0x81) := by
      intro s1 he hs1
      cases he
      refine ⟨hs1, ⟨[], by simp, by simp⟩, ?_⟩
      intro rec e r hl hr
      cases hl
      have : lq.response = some r := by rw [← hresp]; exact hr
      exact hs lq r hlq this
    cases hsel : a.1.select with
    | none => rw [hsel] at h; exact key _ h rfl
    | some sel =>
      rw [hsel] at h
      dsimp only at h
      split at h
      · exact key _ h rfl
      · exact key _ h rfl
  · dsimp only at h
    split at h
    · cases h
    · rename_i a2 hp
      cases h
      have fr := (processBroadcast_frame _ _ _ _ _ _ _ _ hp).1
      obtain ⟨hk, l, el, hpl⟩ := fr
      simp only [keepBC, Prod.mk.injEq] at hk
      refine ⟨hk.2.2.2.2.1, ⟨l, el, fun o ho => plain_of_kind (hpl o ho) (by simp)⟩, ?_⟩
      intro rec e r hl
      cases hl
  · cases h
    refine ⟨rfl, ⟨[], by simp, by simp⟩, ?_⟩
    intro rec e r hl
    cases hl
  · cases h
    refine ⟨rfl, ⟨[], by simp, by simp⟩, ?_⟩
    intro rec e r hl
    cases hl

/-- `handleRequestFromIdle` keeps every stored response solicited and transmits solicited fragments only -/
theorem reqIdle_sol {a : Acc} {f : Frag} {ctrl : AppCtrl} {func : Nat} {objs : Except Nat (List ObjHdr)}
    {raw : List Nat} {a' : Acc} {ser : Option Series} (hs : SolInv a.1)
    (h : handleRequestFromIdle a f ctrl func objs raw = some (a', ser)) :
    SolInv a'.1 ∧ ∃ l, a'.2 = a.2 ++ l ∧ ∀ o ∈ l, plainOut o = true := by
  rw [handleRequestFromIdle_eq] at h
  cases h1 : idleStage1 a f ctrl func objs raw with
  | none => rw [h1] at h; cases h
  | some p =>
    obtain ⟨a1, lr⟩ := p
    rw [h1] at h
    obtain ⟨hl1, ⟨l1, el1, hp1⟩, hr1⟩ := idleStage1_sol hs h1
    have hs1 : SolInv a1.1 := by
      intro lr' r hlr
      rw [hl1] at hlr
      exact hs lr' r hlr
    unfold idleStage2 at h
    cases lr with
    | none => cases h; exact ⟨hs1, l1, el1, hp1⟩
    | some q =>
      obtain ⟨rec, echo⟩ := q
      dsimp only at h
      cases hresp : rec.response with
      | none =>
        rw [hresp] at h
        cases h
        refine ⟨?_, l1, el1, hp1⟩
        intro lr' r hlr hr
        cases hlr
        rw [hresp] at hr; cases hr
      | some r =>
        rw [hresp] at h
        have hf : r.func = 0x81 := hr1 rec echo r rfl hresp
        dsimp only at h
        cases echo with
        | true =>
          simp only [if_true] at h
          cases h
          refine ⟨?_, l1 ++ [.tx f.src (fragBytes a1.1.solBuf r)], by
            show a1.2 ++ [OOut.tx f.src (fragBytes a1.1.solBuf r)] = _
            rw [el1, List.append_assoc], ?_⟩
          · intro lr' r' hlr hr
            cases hlr
            rw [hresp] at hr; cases hr
            exact hf
          · intro o ho
            rcases List.mem_append.1 ho with ho | ho
            · exact hp1 o ho
            · simp only [List.mem_singleton] at ho
              subst ho
              exact plain_tx (by rw [fragBytes_func, hf])
        | false =>
          simp only [Bool.false_eq_true, if_false] at h
          split at h
          · cases h
          · rename_i a2 r2 hw
            cases h
            obtain ⟨⟨b, hb, hb1⟩, hf2, hk⟩ := writeSolicited_out hw
            refine ⟨?_, l1 ++ [.tx f.src b], by show a2.2 = _; rw [hb, el1, List.append_assoc], ?_⟩
            · intro lr' r' hlr hr
              cases hlr
              cases hr
              rw [hf2, hf]
            · intro o ho
              rcases List.mem_append.1 ho with ho | ho
              · exact hp1 o ho
              · simp only [List.mem_singleton] at ho
                subst ho
                exact plain_tx (by rw [hb1, hf])

theorem reqIdle_common {a : Acc} {f : Frag} {ctrl : AppCtrl} {func : Nat} {objs : Except Nat (List ObjHdr)}
    {raw : List Nat} {a' : Acc} {ser : Option Series} {m : UMon}
    (h : handleRequestFromIdle a f ctrl func objs raw = some (a', ser)) (hc : Common retries a.1 m) :
    Common retries a'.1 m ∧ ∃ l, a'.2 = a.2 ++ l ∧ ∀ o ∈ l, plainOut o = true := by
  obtain ⟨hs', hl⟩ := reqIdle_sol hc.2.1 h
  have w := reqIdle_mu _ _ _ _ _ _ _ _ h
  have hb : Base a a' := by
    obtain ⟨a1, lr, s1, s2⟩ := handleRequestFromIdle_cases _ _ _ _ _ _ _ _ h
    exact Base.trans s1.base s2.base
  exact ⟨⟨by rw [(base_now hb).2]; exact hc.1, hs', by rw [w.2.1]; exact hc.2.2.1, hc.2.2.2⟩, hl⟩

end

section
variable {retries : Option Nat}

theorem finishPass_out (a : Acc) (n : NextIdle) :
    ∃ l, (finishPass a n).2 = a.2 ++ l ∧ (∀ o ∈ l, plainOut o = true) ∧ (finishPass a n).1.cfg = a.1.cfg ∧
      (finishPass a n).1.lastReq = a.1.lastReq ∧ (finishPass a n).1.unsol = a.1.unsol ∧
      ∃ x, (finishPass a n).1.mode = .idle x := by
  unfold finishPass
  split
  · split
    · exact ⟨[], by simp, by simp, rfl, rfl, rfl, _, rfl⟩
    · exact ⟨[.txLink 0x49 a.1.cfg.master 1024], rfl, by simp [plainOut], rfl, rfl, rfl, _, rfl⟩
  · exact ⟨[], by simp, by simp, rfl, rfl, rfl, _, rfl⟩

theorem afterUnsolSeries_out (a : Acc) (isNull c : Bool) :
    ∃ l, (afterUnsolSeries a isNull c).1.2 = a.2 ++ l ∧ (∀ o ∈ l, plainOut o = true) ∧
      (afterUnsolSeries a isNull c).1.1.cfg = a.1.cfg ∧ (afterUnsolSeries a isNull c).1.1.lastReq = a.1.lastReq := by
  unfold afterUnsolSeries
  split
  · exact ⟨[], by simp, by simp, rfl, rfl⟩
  · split
    · rw [clearWrittenEvents_eq]
      refine ⟨_, rfl, ?_, rfl, rfl⟩
      intro o ho
      simp only [List.mem_append, List.mem_singleton, List.mem_map] at ho
      rcases ho with (rfl | ⟨_, _, rfl⟩) | rfl <;> rfl
    · exact ⟨[], by simp, by simp, rfl, rfl⟩

/-- the end of a series without confirmation keeps "no confirmation yet → a null response is required" -/
theorem common_after_failed {a : Acc} {m : UMon} {resp : Resp} {isNull : Bool} {rt : Option Nat} {dl : Nat}
    (hm : a.1.mode = .unsolWait resp isNull rt dl) (hj : J retries .blk a.1 m) :
    Common retries (afterUnsolSeries a isNull false).1.1 m := by
  obtain ⟨hc, hsm⟩ := hj
  obtain ⟨_, _, _, hcfg, hlr⟩ := afterUnsolSeries_out a isNull false
  obtain ⟨h1, h2, h3, h4⟩ := hc
  refine ⟨by rw [hcfg]; exact h1, ?_, ?_, h4⟩
  · intro lr r hl
    rw [hlr] at hl
    exact h2 lr r hl
  · intro hcf
    have := (hsm resp isNull rt dl hm).2.2.2.2 (h3 hcf)
    rw [afterUnsolSeries_null]
    exact ⟨this, rfl⟩

/-- the start of a series: `[tx master bytes, cb (unsolWait seq)]`, and the monitor's series is the new wait's -/
theorem startSeries_mr {a0 : Acc} {r : Resp} {isNull : Bool} {a' : Acc}
    (hs : startUnsolSeries a0 r isNull = some a') (hf : r.func = 0x82) (hsz : isNull = true → r.size = 0) :
    ∃ l, a'.2 = a0.2 ++ l ∧ ∀ m, Common retries a0.1 m → (m.confirmed = false → isNull = true) →
      (a0.1.unsol = .nullRequired → isNull = true) →
      ∃ m', runMon (uMon retries) m l = some m' ∧ J retries .blk a'.1 m' := by
  obtain ⟨c1, c2, c3, r', _, hr, e⟩ := startUnsolSeries_eq _ _ _ _ hs
  have hf' : r'.func = 0x82 := by rw [hr]; exact hf
  have hsz' : r'.size = r.size := by rw [hr]
  have hseq' : r'.ctrl = r.ctrl := by rw [hr]
  have hk := afterIin_eq a0.1
  refine ⟨_, by rw [e], ?_⟩
  intro m hc hconf hnull
  obtain ⟨h1, h2, h3, h4⟩ := hc
  have hB : isUnsolFrag (fragBytes (afterIin a0.1).unsolBuf r') = true := by
    unfold isUnsolFrag
    rw [fragBytes_func, hf']
    rfl
  have hlen : m.confirmed = true ∨ (fragBytes (afterIin a0.1).unsolBuf r').length = 4 := by
    cases hcf : m.confirmed with
    | true => exact Or.inl rfl
    | false =>
      right
      exact fragBytes_null_length _ _ (by rw [hsz']; exact hsz (hconf hcf))
  refine ⟨{ m with ser := some ⟨a0.1.cfg.master, fragBytes (afterIin a0.1).unsolBuf r', r.ctrl.seq, 0⟩ }, ?_, ?_⟩
  · show runMon (uMon retries) m [OOut.tx a0.1.cfg.master (fragBytes (afterIin a0.1).unsolBuf r'),
      OOut.cb (.unsolWait r.ctrl.seq)] = _
    simp only [runMon, uMon, h4, hB, if_true, hlen]
  · rw [e]
    refine ⟨⟨?_, ?_, ?_, h4⟩, ?_⟩
    · show (afterIin a0.1).cfg.retries = retries
      rw [hk]; exact h1
    · intro lr rr hl
      have hl' : (afterIin a0.1).lastReq = some lr := hl
      rw [hk] at hl'
      exact h2 lr rr hl'
    · intro hcf
      show (afterIin a0.1).unsol = _
      rw [hk]; exact h3 hcf
    · intro resp isNull' rt dl hmode
      cases hmode
      have hcfg : (afterIin a0.1).cfg = a0.1.cfg := by rw [hk]
      refine ⟨hf', ⟨0, ?_, ?_⟩, ?_, ?_, ?_⟩
      · show some _ = some (USer.mk (afterIin a0.1).cfg.master
          (fragBytes (writeAt (afterIin a0.1).unsolBuf 0 (respHeader r')) r') r'.ctrl.seq 0)
        rw [fragBytes_idem, hcfg, hseq']
      · intro n hn
        cases isNull with
        | true => exact ⟨0, rfl, by omega⟩
        | false =>
          refine ⟨n, ?_, by omega⟩
          show a0.1.cfg.retries = some n
          rw [h1]; exact hn
      · show writeAt (afterIin a0.1).unsolBuf 0 (respHeader r') = writeAt (writeAt (afterIin a0.1).unsolBuf 0 (respHeader r')) 0 (respHeader r')
        rw [writeAt_zero_idem]
      · intro hn
        subst hn
        exact ⟨rfl, by rw [hsz']; exact hsz rfl⟩
      · intro hn
        have hn' : (afterIin a0.1).unsol = .nullRequired := hn
        rw [hk] at hn'
        exact hnull hn'

end

section
variable {retries : Option Nat}

theorem jblk_of_common {s : OState} {m : UMon} (hc : Common retries s m)
    (hm : ∀ resp isNull rt dl, s.mode ≠ .unsolWait resp isNull rt dl) : J retries .blk s m :=
  ⟨hc, SerMatch.of_notUW hm⟩

theorem SerMatch.of_eq {s s' : OState} {m : UMon} (hmode : s'.mode = s.mode) (hc : s'.cfg = s.cfg)
    (hb : s'.unsolBuf = s.unsolBuf) (hu : s'.unsol = s.unsol) (h : SerMatch retries s m) : SerMatch retries s' m := by
  intro resp isNull rt dl hm
  rw [hmode] at hm
  have := h resp isNull rt dl hm
  rw [hc, hb, hu]
  exact this

theorem deferredFormat_func (s : OState) (d : Deferred) : (deferredFormat s d).2.1.func = 0x81 := rfl

theorem Common.of_mon {s : OState} {m m' : UMon} (h1 : m'.confirmed = m.confirmed) (h2 : m'.expect = m.expect)
    (h : Common retries s m) : Common retries s m' :=
  ⟨h.1, h.2.1, fun hc => h.2.2.1 (by rw [← h1]; exact hc), by rw [h2]; exact h.2.2.2⟩

/-- the monitor's series while the task is blocked in the unsolicited confirm wait -/
theorem ser_of_blk {a : Acc} {m : UMon} {resp : Resp} {isNull : Bool} {rt : Option Nat} {dl : Nat}
    (hj : J retries .blk a.1 m) (hm : a.1.mode = .unsolWait resp isNull rt dl) :
    ∃ k, m.ser = some ⟨a.1.cfg.master, fragBytes a.1.unsolBuf resp, resp.ctrl.seq, k⟩ ∧ RetOk retries rt k :=
  (hj.2 resp isNull rt dl hm).2.1

theorem MR.plainA {ph ph' : Ph} {a a' : Acc} (l : List OOut) (hl : a'.2 = a.2 ++ l)
    (hp : ∀ o ∈ l, plainOut o = true) (hj : ∀ m, J retries ph a.1 m → J retries ph' a'.1 m) :
    MR (uMon retries) (J retries) (ph, a) (ph', a') :=
  MR.plain (x := (ph, a)) (y := (ph', a')) hl hp hj

/-- as `MR.plainA`, the outputs being ignorable only under the invariant -/
theorem MR.plainJ {ph ph' : Ph} {a a' : Acc} (l : List OOut) (hl : a'.2 = a.2 ++ l)
    (hj : ∀ m, J retries ph a.1 m → (∀ o ∈ l, plainOut o = true) ∧ J retries ph' a'.1 m) :
    MR (uMon retries) (J retries) (ph, a) (ph', a') :=
  ⟨l, hl, fun m h => ⟨m, runMon_plain retries m l h.common.2.2.2 (hj m h).1, (hj m h).2⟩⟩

/-- a pure state change that keeps what the invariant reads -/
theorem MR.keep {ph : Ph} {a : Acc} {s' : OState} (hk : kJ s' = kJ a.1) :
    MR (uMon retries) (J retries) (ph, a) (ph, (s', a.2)) :=
  MR.plainA [] (by simp) (by simp) (fun _ h => J.of_keep hk h)

/-- **per event**: the monitor accepts what the event appends, and the invariant is carried along -/
theorem Ev2.mr {pf : Option Frag} {ph ph' : Ph} {a a' : Acc} (h : Ev2 pf ph a ph' a') :
    MR (uMon retries) (J retries) (ph, a) (ph', a') := by
  cases h with
  | house _ _ s' hh =>
    obtain ⟨n, l, p, hp, e⟩ := hh
    subst e
    exact MR.keep rfl
  | noteCb _ _ c hc =>
    refine MR.plainA [.cb c] rfl ?_ (fun m h => J.of_keep (s := a.1) rfl h)
    intro o ho
    simp only [List.mem_singleton] at ho
    subst ho
    cases c <;> simp_all [Cb.note, plainOut]
  | die _ _ =>
    refine MR.plainA [.panic] rfl (by simp [plainOut]) (fun m h => ?_)
    exact jblk_of_common (Common.of_eq (s := a.1) rfl rfl rfl h.common) (fun _ _ _ _ hm => by cases hm)
  | clrDeferred _ _ => exact MR.keep rfl
  | dbReset _ _ => exact MR.keep rfl
  | errResp _ _ src bc seq _ _ hw =>
    unfold writeErrorResponse at hw
    split at hw
    · cases hw; exact MR.refl _ _ _
    · split at hw
      · cases hw; exact MR.refl _ _ _
      · split at hw
        · cases hw
        · rename_i a2 r2 hws
          cases hw
          exact wsol_mr _ rfl hws
  | enter _ n hm => exact MR.plainA [] (by simp) (by simp) (fun m h => h.toTl)
  | reqIdle _ f ctrl func objs raw _ hq hh =>
    obtain ⟨a1, lr, s1, s2⟩ := handleRequestFromIdle_cases _ _ _ _ _ _ _ _ hh
    obtain ⟨_, _, l, el⟩ := Base.trans s1.base s2.base
    refine ⟨l, el, fun m hj => ?_⟩
    obtain ⟨hc', l', el', hp'⟩ := reqIdle_common hh hj
    have : l' = l := List.append_cancel_left (el'.symm.trans el)
    subst this
    exact ⟨m, runMon_plain retries m l' hj.2.2.2 hp', hc'⟩
  | reqIdleWait _ f ctrl func objs raw a1 sr hq hh =>
    obtain ⟨b1, lr, s1, s2⟩ := handleRequestFromIdle_cases _ _ _ _ _ _ _ _ hh
    obtain ⟨_, _, l, el⟩ := Base.trans s1.base s2.base
    refine ⟨l ++ [.cb (.solWait sr.ecsn)], by show a1.2 ++ [_] = _; rw [el, List.append_assoc], fun m hj => ?_⟩
    obtain ⟨hc', l', el', hp'⟩ := reqIdle_common hh hj
    have : l' = l := List.append_cancel_left (el'.symm.trans el)
    subst this
    refine ⟨m, runMon_plain retries m _ hj.2.2.2 ?_, ?_⟩
    · intro o ho
      rcases List.mem_append.1 ho with ho | ho
      · exact hp' o ho
      · simp only [List.mem_singleton] at ho; subst ho; rfl
    · exact jblk_of_common (Common.of_eq (s := a1.1) rfl rfl rfl hc') (fun _ _ _ _ hm => by cases hm)
  | chkStart _ _ hc =>
    cases checkUnsolicited_cases _ _ hc with
    | null a1 hu hn hs =>
      obtain ⟨l, el, c⟩ := startSeries_mr (retries := retries) hs rfl (fun _ => rfl)
      refine ⟨l, el, fun m hj => ?_⟩
      exact c m (Common.of_eq (s := a.1) rfl rfl rfl hj) (fun _ => rfl) (fun _ => rfl)
    | data dl a1 hu hr hd hen hz hs =>
      obtain ⟨l, el, c⟩ := startSeries_mr (retries := retries) hs rfl (fun h => by cases h)
      refine ⟨l, el, fun m hj => ?_⟩
      refine c m (Common.of_eq (s := a.1) rfl rfl rfl hj) (fun hcf => ?_) (fun hnull => ?_)
      · have := hj.2.2.1 hcf
        rw [hr] at this; cases this
      · have hnull' : a.1.unsol = .nullRequired := hnull
        rw [hr] at hnull'; cases hnull'
  | chkIdle _ _ n hc =>
    cases checkUnsolicited_cases _ _ hc with
    | unsupported => exact MR.refl _ _ _
    | tooEarly => exact MR.refl _ _ _
    | disabled => exact MR.refl _ _ _
    | noEvents => exact MR.plainA [] (by simp) (by simp) (fun m hj => Common.of_eq (s := a.1) rfl rfl rfl hj)
  | defWait _ n _ hd =>
    cases handleDeferredRead_cases _ _ _ hd with
    | awaiting d a2 r2 sr hdd hw =>
      obtain ⟨⟨b, hb, hb1⟩, hf2, hk⟩ := writeSolicited_out hw
      have hkk := kJ_of_keepWS hk
      simp only [kJ, Prod.mk.injEq] at hkk
      refine MR.plainA [.tx d.addr b, .cb (.solWait sr.ecsn)] (by
        show a2.2 ++ [_] = _
        rw [hb]; simp) ?_ (fun m hj => ?_)
      · intro o ho
        simp only [List.mem_cons, List.not_mem_nil, or_false] at ho
        rcases ho with rfl | rfl
        · exact plain_tx (by rw [hb1]; rfl)
        · rfl
      · refine jblk_of_common ⟨?_, ?_, ?_, hj.2.2.2⟩ (fun _ _ _ _ hm => by cases hm)
        · show a2.1.cfg.retries = retries
          rw [hkk.1]; exact hj.1
        · intro lr r hl hr
          cases hl
          cases hr
          rw [hf2]; rfl
        · intro hcf
          show a2.1.unsol = _
          rw [hkk.2.2.1]; exact hj.2.2.1 hcf
  | defDone _ n _ hd =>
    cases handleDeferredRead_cases _ _ _ hd with
    | none => exact MR.refl _ _ _
    | answered d a2 r2 hdd hw hcon hser =>
      obtain ⟨⟨b, hb, hb1⟩, hf2, hk⟩ := writeSolicited_out hw
      have hkk := kJ_of_keepWS hk
      simp only [kJ, Prod.mk.injEq] at hkk
      refine MR.plainA [.tx d.addr b] hb ?_ (fun m hj => ?_)
      · intro o ho
        simp only [List.mem_singleton] at ho
        subst ho
        exact plain_tx (by rw [hb1]; rfl)
      · refine ⟨?_, ?_, ?_, hj.2.2.2⟩
        · show a2.1.cfg.retries = retries
          rw [hkk.1]; exact hj.1
        · intro lr r hl hr
          cases hl
          cases hr
          rw [hf2]; rfl
        · intro hcf
          show a2.1.unsol = _
          rw [hkk.2.2.1]; exact hj.2.2.1 hcf
  | finishPass _ n =>
    obtain ⟨l, el, hp, hcfg, hlr, hun, x, hx⟩ := finishPass_out a n
    refine MR.plainA l el hp (fun m hj => ?_)
    exact jblk_of_common (Common.of_eq hcfg hlr hun hj) (fun _ _ _ _ hm => by rw [hx] at hm; cases hm)
  | solEcho _ sr dl c f ctrl func objs raw resp hs hm hq hc =>
    obtain ⟨last, hl, hresp⟩ := classify_repeatRead hc
    unfold solEchoAcc
    cases resp with
    | none =>
      refine MR.plainA [] (by simp) (by simp) (fun m hj => ?_)
      exact jblk_of_common (Common.of_eq (s := a.1) rfl rfl rfl hj.1) (fun _ _ _ _ hm => by cases hm)
    | some r =>
      refine MR.plainJ [.tx f.src (fragBytes a.1.solBuf r)] rfl (fun m hj => ⟨?_, ?_⟩)
      · intro o ho
        simp only [List.mem_singleton] at ho
        subst ho
        exact plain_tx (by rw [fragBytes_func]; exact hj.1.2.1 last r hl hresp.symm)
      · exact jblk_of_common (Common.of_eq (s := a.1) rfl rfl rfl hj.1) (fun _ _ _ _ hm => by cases hm)
  | solAbortNew _ sr dl c hm _ =>
    exact MR.plainA [.cb .solNewRequest] rfl (by simp [plainOut]) (fun m hj => Common.of_eq (s := a.1) rfl rfl rfl hj.1)
  | solAbortTimeout _ sr dl c hm _ =>
    exact MR.plainA [.cb (.solTimeout sr.ecsn)] rfl (by simp [plainOut])
      (fun m hj => Common.of_eq (s := a.1) rfl rfl rfl hj.1)
  | solConf _ sr dl c f ctrl objs raw hm hq hu hs =>
    rw [clearWrittenEvents_eq]
    refine MR.plainA ([OOut.cb (Cb.solConfirmed sr.ecsn)] ++
        ([OOut.cb Cb.beginConfirm] ++
          (List.map (fun id => OOut.cb (Cb.eventCleared id)) a.fst.db.clearWritten.snd.fst ++
            [OOut.cb
                (Cb.endConfirm a.fst.db.clearWritten.snd.snd.fst a.fst.db.clearWritten.snd.snd.snd.fst
                  a.fst.db.clearWritten.snd.snd.snd.snd)]))) (by simp only [List.append_assoc]) ?_
      (fun m hj => Common.of_eq (s := a.1) rfl rfl rfl hj.1)
    intro o ho
    simp only [List.mem_append, List.mem_singleton, List.mem_map] at ho
    rcases ho with rfl | rfl | ⟨_, _, rfl⟩ | rfl <;> rfl
  | solCont _ sr dl c f a7 r7 hm hfin hq hw =>
    obtain ⟨⟨b, hb, hb1⟩, hf2, hk⟩ := writeSolicited_out hw
    have hkk := kJ_of_keepWS hk
    simp only [kJ, Prod.mk.injEq] at hkk
    refine MR.plainA [.tx f.src b] hb ?_ (fun m hj => ?_)
    · intro o ho
      simp only [List.mem_singleton] at ho
      subst ho
      exact plain_tx (by rw [hb1]; rfl)
    · refine ⟨?_, ?_, ?_, hj.2.2.2⟩
      · show a7.1.cfg.retries = retries
        rw [hkk.1]; exact hj.1
      · intro lr r hl hr
        have hl' : a7.1.lastReq.map (fun lr => { lr with response := some r7 }) = some lr := hl
        cases hl7 : a7.1.lastReq with
        | none => rw [hl7] at hl'; cases hl'
        | some lr0 =>
          rw [hl7] at hl'
          cases hl'
          cases hr
          rw [hf2]; rfl
      · intro hcf
        show a7.1.unsol = _
        rw [hkk.2.2.1]; exact hj.2.2.1 hcf
  | solNext _ sr dl c sr' hm =>
    refine MR.plainA [] (by simp) (by simp) (fun m hj => ?_)
    exact jblk_of_common (Common.of_eq (s := a.1) rfl rfl rfl hj) (fun _ _ _ _ hm => by cases hm)
  | unsolConf _ resp isNull rt dl f ctrl objs raw hm hq hu hs =>
    obtain ⟨l2, el2, hp2, hcfg, hlr⟩ := afterUnsolSeries_out
      (emitCb ({ a.1 with lastBroadcast := if a.1.unsolReported then none else a.1.lastBroadcast }, a.2)
        (.unsolConfirmed resp.ctrl.seq)) isNull true
    refine ⟨[.cb (.unsolConfirmed resp.ctrl.seq)] ++ l2, by rw [el2]; simp [emitCb, emit], fun m hj => ?_⟩
    obtain ⟨k, hser, _⟩ := ser_of_blk hj hm
    refine ⟨{ m with ser := none, confirmed := true }, ?_, ?_⟩
    · rw [runMon_append_some (m1 := { m with ser := none, confirmed := true })]
      · exact runMon_plain retries _ l2 hj.1.2.2.2 hp2
      · simp only [runMon, uMon, hj.1.2.2.2, hser, if_true]
    · refine ⟨by rw [hcfg]; exact hj.1.1, ?_, fun hcf => by simp at hcf, hj.1.2.2.2⟩
      intro lr r hl
      rw [hlr] at hl
      exact hj.1.2.1 lr r hl
  | uwSolConfirm _ resp isNull rt dl f ctrl objs raw hm hq hu =>
    split
    · exact MR.keep rfl
    · exact MR.refl _ _ _
  | uwBcast _ resp isNull rt dl f mm ctrl func objs raw a1 hm hq hf hb hp =>
    obtain ⟨hk, l, el, hpl⟩ := (processBroadcast_frame _ _ _ _ _ _ _ _ hp).1
    have hkk : kJ a1.1 = kJ a.1 := kJ_of_keepBC hk
    exact MR.plainA l el (fun o ho => plain_of_kind (hpl o ho) (by simp))
      (fun m hj => J.of_keep (s := a.1) (s' := { a1.1 with unsolReported := false }) hkk hj)
  | uwMalformed _ resp isNull rt dl f ctrl func e raw _ r' hm hq hf hb hw => exact wsol_mr _ rfl hw
  | uwNonRead _ resp isNull rt dl f ctrl func hs raw a4 r4 a5 r5 hm hq hf0 hf1 hb hn hw =>
    obtain ⟨hk4, l4, el4, hp4⟩ := handleNonRead_frame _ _ _ _ _ _ _ _ hn
    have hkk4 : kJ a4.1 = kJ a.1 := kJ_of_keepNR hk4
    have hp4' : ∀ o ∈ l4, plainOut o = true := fun o ho => plain_of_kind (NRP_kind o (hp4 o ho)) (by simp)
    have key : ∃ l5, a5.2 = a4.2 ++ l5 ∧ (∀ o ∈ l5, plainOut o = true) ∧ kJ a5.1 = kJ a4.1 ∧
        ∀ r, r5 = some r → r.func = 0x81 := by
      rcases hw with ⟨_, e, e5⟩ | ⟨r, r', e4, hws, e5⟩
      · subst e; subst e5
        exact ⟨[], by simp, by simp, rfl, fun r h => by cases h⟩
      · subst e4; subst e5
        obtain ⟨⟨b, hb', hb1⟩, hf2, hk⟩ := writeSolicited_out hws
        have hfr : r.func = 0x81 := handleNonRead_func hn
        refine ⟨[.tx f.src b], hb', ?_, kJ_of_keepWS hk, fun r0 h0 => by cases h0; rw [hf2, hfr]⟩
        intro o ho
        simp only [List.mem_singleton] at ho
        subst ho
        exact plain_tx (by rw [hb1, hfr])
    obtain ⟨l5, el5, hp5, hkk5, hr5⟩ := key
    have hkk : kJ a5.1 = kJ a.1 := hkk5.trans hkk4
    simp only [kJ, Prod.mk.injEq] at hkk
    refine MR.plainA (l4 ++ l5) (by show a5.2 = _; rw [el5, el4, List.append_assoc]) ?_ (fun m hj => ?_)
    · intro o ho
      rcases List.mem_append.1 ho with ho | ho
      · exact hp4' o ho
      · exact hp5 o ho
    · refine ⟨⟨?_, ?_, ?_, hj.1.2.2.2⟩, SerMatch.of_eq (s := a.1) hkk.2.2.2.1 hkk.1 hkk.2.2.2.2 hkk.2.2.1 hj.2⟩
      · show a5.1.cfg.retries = retries
        rw [hkk.1]; exact hj.1.1
      · intro lr r hl hr
        cases hl
        exact hr5 r hr
      · intro hcf
        show a5.1.unsol = _
        rw [hkk.2.2.1]; exact hj.1.2.2.1 hcf
  | uwNonReadDie _ resp isNull rt dl f ctrl func hs raw a4 r hm hq hf0 hf1 hb hn hw =>
    obtain ⟨hk4, l4, el4, hp4⟩ := handleNonRead_frame _ _ _ _ _ _ _ _ hn
    have hkk4 : kJ a4.1 = kJ a.1 := kJ_of_keepNR hk4
    simp only [kJ, Prod.mk.injEq] at hkk4
    refine MR.plainA (l4 ++ [.panic]) (by show a4.2 ++ [_] = _; rw [el4, List.append_assoc]) ?_ (fun m hj => ?_)
    · intro o ho
      rcases List.mem_append.1 ho with ho | ho
      · exact plain_of_kind (NRP_kind o (hp4 o ho)) (by simp)
      · simp only [List.mem_singleton] at ho; subst ho; rfl
    · exact jblk_of_common (Common.of_eq (s := a.1) hkk4.1 hkk4.2.1 hkk4.2.2.1 hj.1) (fun _ _ _ _ hm => by cases hm)
  | uwDisable _ resp isNull rt dl f ctrl hs raw hm hq =>
    obtain ⟨l, el, hp, _, _⟩ := afterUnsolSeries_out a isNull false
    exact MR.plainA l el hp (fun m hj => common_after_failed hm hj)
  | deferSet _ resp isNull rt dl f ctrl hs raw hm hq hb => exact MR.keep rfl
  | uwEcho _ resp isNull rt dl f ctrl func objs raw last hm hq hc =>
    obtain ⟨lq, hl, hresp⟩ := classify_repeatNonRead hc
    unfold uwEchoAcc
    cases last with
    | none => exact MR.keep rfl
    | some r =>
      refine MR.plainJ [.tx f.src (fragBytes a.1.solBuf r)] rfl (fun m hj => ⟨?_, ?_⟩)
      · intro o ho
        simp only [List.mem_singleton] at ho
        subst ho
        exact plain_tx (by rw [fragBytes_func]; exact hj.1.2.1 lq r hl hresp.symm)
      · exact J.of_keep (s := a.1) rfl hj
  | uwTimeoutEnd _ resp isNull rt dl hm hpn hd =>
    obtain ⟨l2, el2, hp2, _, _⟩ := afterUnsolSeries_out (emitCb a (.unsolTimeout resp.ctrl.seq false)) isNull false
    refine ⟨[.cb (.unsolTimeout resp.ctrl.seq false)] ++ l2, by rw [el2]; simp [emitCb, emit], fun m hj => ?_⟩
    obtain ⟨k, hser, _⟩ := ser_of_blk hj hm
    refine ⟨{ m with ser := none }, ?_, ?_⟩
    · rw [runMon_append_some (m1 := { m with ser := none })]
      · exact runMon_plain retries _ l2 hj.1.2.2.2 hp2
      · simp only [runMon, uMon, hj.1.2.2.2, hser, if_true]
    · exact Common.of_mon (m := m) rfl rfl
        (common_after_failed (a := emitCb a (.unsolTimeout resp.ctrl.seq false)) (m := m) hm hj)
  | uwRetry _ resp isNull rt rt' dl hm hpn hd hrt =>
    refine ⟨[.cb (.unsolTimeout resp.ctrl.seq true), .tx a.1.cfg.master (fragBytes a.1.unsolBuf resp)],
      by simp [repeatUnsolicited, emitCb, emit, fragBytes], fun m hj => ?_⟩
    obtain ⟨hfunc, ⟨k, hser, hret⟩, hhdr, hnull, hun⟩ := hj.2 resp isNull rt dl hm
    -- a null response is never retried, so a confirmation was seen
    have hnn : isNull = false := by
      cases hin : isNull with
      | false => rfl
      | true =>
        have := (hnull hin).1
        rcases hrt with ⟨h1, _⟩ | ⟨n, h1, _⟩ <;> rw [h1] at this <;> cases this
    have hconf : m.confirmed = true := by
      cases hcf : m.confirmed with
      | true => rfl
      | false =>
        have := hun (hj.1.2.2.1 hcf)
        rw [hnn] at this; cases this
    have hallow : retryAllowed retries k = true := by
      unfold retryAllowed
      cases hr : retries with
      | none => rfl
      | some n =>
        obtain ⟨r, hr1, hr2⟩ := hret n hr
        rcases hrt with ⟨h1, _⟩ | ⟨n', h1, _⟩
        · rw [h1] at hr1; cases hr1
        · rw [h1] at hr1; cases hr1
          simp only [decide_eq_true_eq]; omega
    refine ⟨{ m with ser := some ⟨a.1.cfg.master, fragBytes a.1.unsolBuf resp, resp.ctrl.seq, k + 1⟩ }, ?_, ?_⟩
    · simp only [runMon, uMon, hj.1.2.2.2, hser, hallow, hconf, and_self, true_or, if_true]
    · refine ⟨Common.of_mon rfl rfl (Common.of_eq (s := a.1) rfl rfl rfl hj.1), ?_⟩
      intro resp' isNull' rt'' dl' hmode
      cases hmode
      refine ⟨hfunc, ⟨k + 1, ?_, ?_⟩, ?_, ?_, hun⟩
      · show some _ = some (USer.mk a.1.cfg.master (fragBytes (writeAt a.1.unsolBuf 0 (respHeader resp)) resp) _ _)
        rw [fragBytes_idem]
      · intro n hn
        obtain ⟨r, hr1, hr2⟩ := hret n hn
        rcases hrt with ⟨h1, _⟩ | ⟨n', h1, h2⟩
        · rw [h1] at hr1; cases hr1
        · rw [h1] at hr1; cases hr1
          exact ⟨n', h2, by omega⟩
      · show writeAt a.1.unsolBuf 0 (respHeader resp) = writeAt (writeAt a.1.unsolBuf 0 (respHeader resp)) 0 (respHeader resp)
        rw [writeAt_zero_idem]
      · intro hin
        rw [hnn] at hin; cases hin

end

/-! ## 5. every trace is accepted -/

section
variable {retries : Option Nat}

theorem kJ_of_keepDb {s s' : OState} (h : keepDb s' = keepDb s) : kJ s' = kJ s := by
  simp only [keepDb, kJ, Prod.mk.injEq] at h ⊢
  simp [h]

/-- the step prologue -/
theorem init_mr {env : OEnv} {s : OState} {inp : OInput} {pf : Option Frag} {s0 : OState} {o0 : List OOut}
    (h : StepInit env s inp pf s0 o0) (m : UMon) (hj : J retries .blk s m) :
    ∃ m0, runMon (uMon retries) m o0 = some m0 ∧ J retries .blk s0 m0 := by
  have hplain : ∀ o ∈ o0, plainOut o = true := fun o ho =>
    plain_of_kind (ks := [.line]) (by rw [h.keep.2 o ho]; simp) (by simp)
  refine ⟨m, runMon_plain retries m o0 hj.1.2.2.2 hplain, ?_⟩
  cases h with
  | rx => exact J.of_keep (s := s) rfl hj
  | tick => exact J.of_keep (s := s) rfl hj
  | txn items =>
    have hk := kJ_of_keepDb (txnFold_frame s items).1
    exact J.of_keep (s := s) (s' := { (txnFold s items).1 with notified := true }) hk hj
  | add => exact J.of_keep (s := s) rfl hj
  | cut =>
    refine jblk_of_common ⟨hj.1.1, ?_, hj.1.2.2.1, hj.1.2.2.2⟩ (fun _ _ _ _ hm => by cases hm)
    intro lr r hl
    cases hl

theorem script_mr (s : OState) (f : Script → Script) (m : UMon) (hj : J retries .blk s m) :
    J retries .blk { s with script := f s.script } m := J.of_keep (s := s) rfl hj

end

theorem solInv_of_none {s : OState} (h : s.lastReq = none) : SolInv s := by
  intro lr r hl
  rw [h] at hl
  cases hl

theorem init_J (cfg : OCfg) (evMax : Nat) : J cfg.retries .blk (OState.init cfg evMax) {} :=
  jblk_of_common ⟨rfl, solInv_of_none rfl, fun _ => rfl, rfl⟩ (fun _ _ _ _ hm => by cases hm)

/-- **the unsolicited-reporting monitor accepts every trace** from `Outstation.start`, for every configuration,
    environment and input list; the monitor ends in its resting state (no callback / transmission owed) and the
    relation `J` between session state and monitor holds at the end of the run -/
theorem unsol_trace_accepted (cfg : OCfg) (evMax : Nat) (env : OEnv) (ins : List OInput) :
    ∃ m', runMon (uMon cfg.retries) {} (traceOuts cfg evMax env ins) = some m' ∧
      J cfg.retries .blk (Outstation.run env (Outstation.start cfg evMax).1 ins).1 m' :=
  mon_trace (uMon cfg.retries) (J cfg.retries) (fun _ _ _ h => Ev2.mr h) (fun _ _ _ _ _ _ h m hj => init_mr h m hj)
    script_mr cfg evMax {} (init_J cfg evMax) env ins

/-- **the unsolicited-reporting monitor `uMon` accepts every trace** (`unsol_trace_monitored`): for every
    configuration, environment and input list, running `uMon cfg.retries` over ALL outputs of the run from
    `Outstation.start cfg evMax` (`traceOuts`: those of the start-up pass, then those of every step, in order)
    never rejects, and ends with nothing owed (no `unsolWait` callback / retransmission outstanding).  What the
    monitor checks is spelled out at `uMon`; `null_until_confirmed_trace`, `unsol_tx_accounted` and
    `retries_bounded_trace` restate its verdict without the monitor. -/
theorem unsol_trace_monitored (cfg : OCfg) (evMax : Nat) (env : OEnv) (ins : List OInput) :
    ∃ m', runMon (uMon cfg.retries) {} (traceOuts cfg evMax env ins) = some m' ∧ m'.expect = .nothing := by
  obtain ⟨m', h, hj⟩ := unsol_trace_accepted cfg evMax env ins
  exact ⟨m', h, hj.1.2.2.2⟩

/-- every stored response of a reachable state is a solicited response -/
theorem solInv_run (cfg : OCfg) (evMax : Nat) (env : OEnv) (ins : List OInput) :
    SolInv (Outstation.run env (Outstation.start cfg evMax).1 ins).1 := by
  obtain ⟨m', _, hj⟩ := unsol_trace_accepted cfg evMax env ins
  exact hj.1.2.1

/-! ## 6. the monitor's verdict in plain terms -/

theorem runMon_split {M : Type} {mon : M → OOut → Option M} {m m' : M} {l1 l2 : List OOut}
    (h : runMon mon m (l1 ++ l2) = some m') : ∃ m1, runMon mon m l1 = some m1 ∧ runMon mon m1 l2 = some m' := by
  rw [runMon_append] at h
  cases h1 : runMon mon m l1 with
  | none => rw [h1] at h; cases h
  | some m1 => rw [h1] at h; exact ⟨m1, rfl, h⟩

theorem runMon_cons {M : Type} {mon : M → OOut → Option M} {m m' : M} {o : OOut} {l : List OOut}
    (h : runMon mon m (o :: l) = some m') : ∃ m1, mon m o = some m1 ∧ runMon mon m1 l = some m' := by
  simp only [runMon] at h
  cases h1 : mon m o with
  | none => rw [h1] at h; cases h
  | some m1 => rw [h1] at h; exact ⟨m1, rfl, h⟩

section
variable {retries : Option Nat}

/-- what the monitor does with a transmission of an unsolicited fragment -/
theorem uMon_unsolTx {m m' : UMon} {d : Nat} {b : List Nat} (h : uMon retries m (.tx d b) = some m')
    (hb : isUnsolFrag b = true) :
    (m.confirmed = true ∨ b.length = 4) ∧
    ((m.expect = .nothing ∧ m'.expect = .startCb d b ∧ m'.ser = m.ser ∧ m'.confirmed = m.confirmed) ∨
     (∃ q sr, m.expect = .retryTx q ∧ m.ser = some sr ∧ d = sr.dst ∧ b = sr.bytes ∧ q = sr.seq ∧
        retryAllowed retries sr.used = true ∧ m'.ser = some { sr with used := sr.used + 1 } ∧
        m'.expect = .nothing ∧ m'.confirmed = m.confirmed)) := by
  cases he : m.expect with
  | nothing =>
    simp only [uMon, he, hb, if_true] at h
    split at h
    · rename_i hc
      cases h
      exact ⟨hc, Or.inl ⟨rfl, rfl, rfl, rfl⟩⟩
    · cases h
  | startCb d' b' => simp only [uMon, he] at h; cases h
  | retryTx q =>
    cases hser : m.ser with
    | none => simp only [uMon, he, hser] at h; cases h
    | some sr =>
      simp only [uMon, he, hser] at h
      split at h
      · rename_i hc
        cases h
        exact ⟨hc.2.2.2.2, Or.inr ⟨q, sr, rfl, rfl, hc.1, hc.2.1, hc.2.2.1, hc.2.2.2.1, rfl, rfl, rfl⟩⟩
      · cases h

/-- only an `unsolConfirmed` callback sets `confirmed` -/
theorem uMon_confirmed {m m' : UMon} {o : OOut} (h : uMon retries m o = some m') :
    m'.confirmed = m.confirmed ∨ ∃ q, o = .cb (.unsolConfirmed q) := by
  unfold uMon at h
  split at h
  · split at h
    · cases h; exact Or.inl rfl
    · cases h
  · split at h
    · split at h
      · cases h; exact Or.inl rfl
      · cases h
    · cases h
  · split at h
    · split at h
      · split at h
        · cases h; exact Or.inl rfl
        · cases h
      · cases h; exact Or.inl rfl
    · cases h
    · cases h; exact Or.inl rfl
    · split at h
      · split at h
        · cases h; exact Or.inl rfl
        · cases h
      · cases h
    · exact Or.inr ⟨_, rfl⟩
    · cases h; exact Or.inl rfl

theorem runMon_not_confirmed {m m' : UMon} {l : List OOut} (h : runMon (uMon retries) m l = some m')
    (hc : m.confirmed = false) (hl : ∀ q, OOut.cb (.unsolConfirmed q) ∉ l) : m'.confirmed = false := by
  induction l generalizing m with
  | nil => cases h; exact hc
  | cons o l ih =>
    obtain ⟨m1, h1, h2⟩ := runMon_cons h
    refine ih h2 ?_ (fun q hq => hl q (by simp [hq]))
    rcases uMon_confirmed h1 with e | ⟨q, e⟩
    · rw [e]; exact hc
    · exact absurd (by simp [e]) (hl q)

/-- the monitor owes a retransmission only right after an `unsolTimeout q true` callback -/
theorem uMon_expect_retry {m m' : UMon} {o : OOut} {q : Nat} (h : uMon retries m o = some m')
    (he : m'.expect = .retryTx q) : o = .cb (.unsolTimeout q true) := by
  unfold uMon at h
  split at h
  · split at h
    · cases h; cases he
    · cases h
  · split at h
    · split at h
      · cases h; cases he
      · cases h
    · cases h
  · rename_i hn
    split at h
    · split at h
      · split at h
        · cases h; cases he
        · cases h
      · cases h; rw [hn] at he; cases he
    · cases h
    · cases h; cases he; rfl
    · split at h
      · split at h
        · cases h; rw [hn] at he; cases he
        · cases h
      · cases h
    · split at h
      · split at h
        · cases h; rw [hn] at he; cases he
        · cases h
      · cases h
    · cases h; rw [hn] at he; cases he

/-- the monitor owes an `unsolWait` callback only right after the transmission of an unsolicited fragment -/
theorem uMon_expect_start {m m' : UMon} {o : OOut} {d : Nat} {b : List Nat} (h : uMon retries m o = some m')
    (he : m'.expect = .startCb d b) : o = .tx d b := by
  unfold uMon at h
  split at h
  · split at h
    · cases h; cases he
    · cases h
  · split at h
    · split at h
      · cases h; cases he
      · cases h
    · cases h
  · rename_i hn
    split at h
    · split at h
      · split at h
        · cases h; cases he; rfl
        · cases h
      · cases h; rw [hn] at he; cases he
    · cases h
    · cases h; cases he
    · split at h
      · split at h
        · cases h; rw [hn] at he; cases he
        · cases h
      · cases h
    · split at h
      · split at h
        · cases h; rw [hn] at he; cases he
        · cases h
      · cases h
    · cases h; rw [hn] at he; cases he

theorem runMon_last {m m' : UMon} {l : List OOut} {o : OOut} (h : runMon (uMon retries) m (l ++ [o]) = some m') :
    ∃ m1, runMon (uMon retries) m l = some m1 ∧ uMon retries m1 o = some m' := by
  obtain ⟨m1, h1, h2⟩ := runMon_split h
  obtain ⟨m2, h3, h4⟩ := runMon_cons h2
  cases h4
  exact ⟨m1, h1, h3⟩

theorem runMon_expect_retry {m m' : UMon} {l : List OOut} {q : Nat} (h : runMon (uMon retries) m l = some m')
    (hm : m.expect = .nothing) (he : m'.expect = .retryTx q) : ∃ l', l = l' ++ [.cb (.unsolTimeout q true)] := by
  rcases List.eq_nil_or_concat l with e | ⟨l', o, e⟩
  · subst e; cases h; rw [hm] at he; cases he
  · rw [List.concat_eq_append] at e
    subst e
    obtain ⟨m1, _, h2⟩ := runMon_last h
    exact ⟨l', by rw [uMon_expect_retry h2 he]⟩

end

/-- callbacks that delimit an unsolicited series in the outputs: its start (`unsolWait`), its confirmation, its
    abandonment after the last timeout -/
def isSeriesMark : OOut → Bool
  | .cb (.unsolWait _) | .cb (.unsolConfirmed _) | .cb (.unsolTimeout _ false) => true
  | _ => false

/-- "timeout, retrying" -/
def isRetryCb : OOut → Bool
  | .cb (.unsolTimeout _ true) => true
  | _ => false

/-- a retransmission is owed -/
def pend (m : UMon) : Nat :=
  match m.expect with
  | .retryTx _ => 1
  | _ => 0

section
variable {retries : Option Nat}

/-- between series marks the monitor's series stays, counting the retries -/
theorem uMon_ser_step {m m' : UMon} {o : OOut} {sr : USer} (h : uMon retries m o = some m')
    (ho : isSeriesMark o = false) (hs : m.ser = some sr) :
    ∃ k', m'.ser = some { sr with used := k' } ∧
      sr.used + pend m + (if isRetryCb o = true then 1 else 0) = k' + pend m' ∧
      (∀ n, retries = some n → sr.used ≤ n → k' ≤ n) := by
  cases he : m.expect with
  | startCb d b =>
    cases o with
    | cb c => cases c <;> simp_all [uMon, isSeriesMark]
    | tx => simp [uMon, he] at h
    | txLink => simp [uMon, he] at h
    | line => simp [uMon, he] at h
    | panic => simp [uMon, he] at h
  | retryTx q =>
    cases o with
    | tx d b =>
      simp only [uMon, he, hs] at h
      split at h
      · rename_i hc
        cases h
        refine ⟨sr.used + 1, rfl, by simp [pend, he, isRetryCb], ?_⟩
        intro n hn _
        have := hc.2.2.2.1
        simp only [retryAllowed, hn, decide_eq_true_eq] at this
        omega
      · cases h
    | cb c => simp [uMon, he] at h
    | txLink => simp [uMon, he] at h
    | line => simp [uMon, he] at h
    | panic => simp [uMon, he] at h
  | nothing =>
    cases o with
    | tx d b =>
      simp only [uMon, he] at h
      split at h
      · split at h
        · cases h
          exact ⟨sr.used, by rw [hs], by simp [pend, he, isRetryCb], fun _ _ h => h⟩
        · cases h
      · cases h
        exact ⟨sr.used, by rw [hs], by simp [pend, he, isRetryCb], fun _ _ h => h⟩
    | cb c =>
      cases c with
      | unsolWait q => simp [isSeriesMark] at ho
      | unsolConfirmed q => simp [isSeriesMark] at ho
      | unsolTimeout q retry =>
        cases retry with
        | false => simp [isSeriesMark] at ho
        | true =>
          simp only [uMon, he] at h
          cases h
          exact ⟨sr.used, by rw [hs], by simp [pend, he, isRetryCb], fun _ _ h => h⟩
      | _ =>
        simp only [uMon, he] at h
        cases h
        exact ⟨sr.used, by rw [hs], by simp [pend, he, isRetryCb], fun _ _ h => h⟩
    | txLink =>
      simp only [uMon, he] at h
      cases h
      exact ⟨sr.used, by rw [hs], by simp [pend, he, isRetryCb], fun _ _ h => h⟩
    | line =>
      simp only [uMon, he] at h
      cases h
      exact ⟨sr.used, by rw [hs], by simp [pend, he, isRetryCb], fun _ _ h => h⟩
    | panic =>
      simp only [uMon, he] at h
      cases h
      exact ⟨sr.used, by rw [hs], by simp [pend, he, isRetryCb], fun _ _ h => h⟩

theorem runMon_ser {m m' : UMon} {l : List OOut} {sr : USer} (h : runMon (uMon retries) m l = some m')
    (hl : ∀ o ∈ l, isSeriesMark o = false) (hs : m.ser = some sr) :
    ∃ k', m'.ser = some { sr with used := k' } ∧
      sr.used + pend m + (l.filter isRetryCb).length = k' + pend m' ∧
      (∀ n, retries = some n → sr.used ≤ n → k' ≤ n) := by
  induction l generalizing m sr with
  | nil => cases h; exact ⟨sr.used, by rw [hs], by simp, fun _ _ h => h⟩
  | cons o l ih =>
    obtain ⟨m1, h1, h2⟩ := runMon_cons h
    obtain ⟨k1, hs1, hc1, hb1⟩ := uMon_ser_step h1 (hl o (by simp)) hs
    obtain ⟨k2, hs2, hc2, hb2⟩ := ih h2 (fun o' ho' => hl o' (by simp [ho'])) hs1
    refine ⟨k2, hs2, ?_, fun n hn hle => hb2 n hn (hb1 n hn hle)⟩
    simp only [List.filter_cons]
    cases hr : isRetryCb o with
    | true =>
      simp only [hr, if_true, List.length_cons] at hc1 ⊢
      simp only at hc2
      omega
    | false =>
      simp only [hr, Bool.false_eq_true, if_false] at hc1 ⊢
      simp only at hc2
      omega

end

theorem isUnsolFrag_iff (b : List Nat) : isUnsolFrag b = true ↔ b.getD 1 0 = 0x82 := by
  simp [isUnsolFrag]

/-- **C14.1 as a trace theorem** (`null_until_confirmed_trace`): in any run from `Outstation.start cfg evMax`
    (any configuration — with `cfg.unsolicited = false` nothing unsolicited is ever sent —, any environment, any
    inputs), every transmitted unsolicited response (function octet 0x82) that occurs before the first
    `unsolConfirmed` callback has exactly 4 octets: it is a NULL response. -/
theorem null_until_confirmed_trace (cfg : OCfg) (evMax : Nat) (env : OEnv) (ins : List OInput)
    (pre post : List OOut) (d : Nat) (b : List Nat)
    (hsplit : traceOuts cfg evMax env ins = pre ++ .tx d b :: post)
    (hpre : ∀ q, OOut.cb (.unsolConfirmed q) ∉ pre) (hf : b.getD 1 0 = 0x82) : b.length = 4 := by
  obtain ⟨m', h, _⟩ := unsol_trace_monitored cfg evMax env ins
  rw [hsplit] at h
  obtain ⟨m1, h1, h2⟩ := runMon_split h
  obtain ⟨m2, h3, _⟩ := runMon_cons h2
  have hc : m1.confirmed = false := runMon_not_confirmed h1 rfl hpre
  rcases (uMon_unsolTx h3 ((isUnsolFrag_iff b).2 hf)).1 with hcc | hl
  · rw [hc] at hcc; cases hcc
  · exact hl

/-- **every unsolicited transmission is accounted for** (`unsol_tx_accounted`): in any run, a transmitted
    fragment with function octet 0x82 is either the first transmission of a series — the very next output is its
    `unsolWait seq` callback — or a retry — the output just before it is `unsolTimeout q true`. -/
theorem unsol_tx_accounted (cfg : OCfg) (evMax : Nat) (env : OEnv) (ins : List OInput)
    (pre post : List OOut) (d : Nat) (b : List Nat)
    (hsplit : traceOuts cfg evMax env ins = pre ++ .tx d b :: post) (hf : b.getD 1 0 = 0x82) :
    (∃ seq post', post = .cb (.unsolWait seq) :: post') ∨
    (∃ q pre', pre = pre' ++ [.cb (.unsolTimeout q true)]) := by
  obtain ⟨m', h, hfin⟩ := unsol_trace_monitored cfg evMax env ins
  rw [hsplit] at h
  obtain ⟨m1, h1, h2⟩ := runMon_split h
  obtain ⟨m2, h3, h4⟩ := runMon_cons h2
  rcases (uMon_unsolTx h3 ((isUnsolFrag_iff b).2 hf)).2 with ⟨_, he2, _⟩ | ⟨q, sr, he1, _⟩
  · left
    cases post with
    | nil => cases h4; rw [he2] at hfin; cases hfin
    | cons o post' =>
      obtain ⟨m3, h5, _⟩ := runMon_cons h4
      cases o with
      | cb c =>
        cases c with
        | unsolWait seq => exact ⟨seq, post', rfl⟩
        | _ => simp [uMon, he2] at h5
      | tx => simp [uMon, he2] at h5
      | txLink => simp [uMon, he2] at h5
      | line => simp [uMon, he2] at h5
      | panic => simp [uMon, he2] at h5
  · right
    obtain ⟨pre', e⟩ := runMon_expect_retry h1 rfl he1
    exact ⟨q, pre', e⟩

/-- **C14.4 as a trace theorem** (`retries_bounded_trace`): in any run from `Outstation.start cfg evMax`, take
    any unsolicited series — its first transmission `tx d b0` immediately followed by the callback
    `unsolWait seq` — and any stretch `mid` of the outputs after it that contains no series mark (no further
    `unsolWait`, no `unsolConfirmed`, no `unsolTimeout _ false`; a disconnect or a DISABLE_UNSOLICITED may lie in
    it).  Then
    1. every `unsolTimeout q true` ("timeout, retrying") in `mid` is for that series (`q = seq`) and the very
       next output is a transmission to the same destination of exactly the octets `b0` of the first
       transmission — whatever happened to the IIN bits in between;
    2. with `cfg.retries = some n` there are at most `n` of them (so at most `1 + n` transmissions of the
       fragment); with `cfg.retries = none` there is no bound, and 1 still holds;
    3. every other fragment with function octet 0x82 in `mid` (not in last position) is such a retransmission:
       destination `d`, octets `b0`. -/
theorem retries_bounded_trace (cfg : OCfg) (evMax : Nat) (env : OEnv) (ins : List OInput)
    (pre mid rest : List OOut) (d : Nat) (b0 : List Nat) (seq : Nat)
    (hsplit : traceOuts cfg evMax env ins = pre ++ [.tx d b0, .cb (.unsolWait seq)] ++ mid ++ rest)
    (hmid : ∀ o ∈ mid, isSeriesMark o = false) :
    (∀ m1 q m2, mid = m1 ++ .cb (.unsolTimeout q true) :: m2 → q = seq ∧ ∃ t, m2 ++ rest = .tx d b0 :: t) ∧
    (∀ n, cfg.retries = some n → (mid.filter isRetryCb).length ≤ n) ∧
    (∀ m1 d' b' m2, mid = m1 ++ .tx d' b' :: m2 → b'.getD 1 0 = 0x82 → m2 ≠ [] → d' = d ∧ b' = b0) := by
  obtain ⟨m', h, hfin⟩ := unsol_trace_monitored cfg evMax env ins
  have hsplit' : traceOuts cfg evMax env ins = pre ++ (.tx d b0 :: .cb (.unsolWait seq) :: (mid ++ rest)) := by
    rw [hsplit]; simp
  rw [hsplit'] at h
  obtain ⟨mp, hp1, hp2⟩ := runMon_split h
  obtain ⟨ma, ha1, ha2⟩ := runMon_cons hp2
  obtain ⟨m0, hb1, hb2⟩ := runMon_cons ha2
  -- the state right after the `unsolWait seq` callback
  have hm0 : m0.ser = some ⟨d, b0, seq, 0⟩ ∧ m0.expect = .nothing := by
    cases hea : ma.expect with
    | nothing => simp [uMon, hea] at hb1
    | retryTx q => simp [uMon, hea] at hb1
    | startCb d' b' =>
      have := uMon_expect_start ha1 hea
      cases this
      simp only [uMon, hea] at hb1
      cases hb1
      exact ⟨rfl, rfl⟩
  -- part 1, used by part 3 as well
  have part1 : ∀ m1 q m2, mid = m1 ++ .cb (.unsolTimeout q true) :: m2 →
      q = seq ∧ ∃ t, m2 ++ rest = .tx d b0 :: t := by
    intro m1 q m2 e
    have hb2' : runMon (uMon cfg.retries) m0 (m1 ++ (.cb (.unsolTimeout q true) :: (m2 ++ rest))) = some m' := by
      rw [e] at hb2; simpa using hb2
    obtain ⟨x1, hx1, hx2⟩ := runMon_split hb2'
    obtain ⟨x2, hx3, hx4⟩ := runMon_cons hx2
    obtain ⟨k1, hs1, _, _⟩ := runMon_ser hx1 (fun o ho => hmid o (by rw [e]; simp [ho])) hm0.1
    -- the monitor rests when the callback arrives, and owes the retransmission afterwards
    have hx2e : x2.expect = .retryTx q ∧ x2.ser = x1.ser := by
      cases he1 : x1.expect with
      | nothing => simp only [uMon, he1] at hx3; cases hx3; exact ⟨rfl, rfl⟩
      | startCb d' b' => simp [uMon, he1] at hx3
      | retryTx q' => simp [uMon, he1] at hx3
    cases hrest : m2 ++ rest with
    | nil => rw [hrest] at hx4; cases hx4; rw [hx2e.1] at hfin; cases hfin
    | cons o t =>
      rw [hrest] at hx4
      obtain ⟨x3, hx5, _⟩ := runMon_cons hx4
      cases o with
      | tx d' b' =>
        simp only [uMon, hx2e.1, hx2e.2, hs1] at hx5
        split at hx5
        · rename_i hc
          exact ⟨hc.2.2.1, t, by rw [hc.1, hc.2.1]⟩
        · cases hx5
      | cb c => simp [uMon, hx2e.1] at hx5
      | txLink => simp [uMon, hx2e.1] at hx5
      | line => simp [uMon, hx2e.1] at hx5
      | panic => simp [uMon, hx2e.1] at hx5
  refine ⟨part1, ?_, ?_⟩
  · -- part 2: the count
    intro n hn
    obtain ⟨x1, hx1, hx2⟩ := runMon_split hb2
    obtain ⟨k1, hs1, hcount, hbound⟩ := runMon_ser hx1 hmid hm0.1
    have hk1 : k1 ≤ n := hbound n hn (Nat.zero_le n)
    have hp0 : pend m0 = 0 := by simp [pend, hm0.2]
    simp only [hp0] at hcount
    cases hex : x1.expect with
    | nothing =>
      have : pend x1 = 0 := by simp [pend, hex]
      omega
    | startCb d' b' =>
      have : pend x1 = 0 := by simp [pend, hex]
      omega
    | retryTx q =>
      have hp1 : pend x1 = 1 := by simp [pend, hex]
      -- the owed retransmission is the first output of `rest`, and it was allowed
      cases rest with
      | nil => cases hx2; rw [hex] at hfin; cases hfin
      | cons o t =>
        obtain ⟨x3, hx5, _⟩ := runMon_cons hx2
        cases o with
        | tx d' b' =>
          simp only [uMon, hex, hs1] at hx5
          split at hx5
          · rename_i hc
            have := hc.2.2.2.1
            simp only [retryAllowed, hn, decide_eq_true_eq] at this
            omega
          · cases hx5
        | cb c => simp [uMon, hex] at hx5
        | txLink => simp [uMon, hex] at hx5
        | line => simp [uMon, hex] at hx5
        | panic => simp [uMon, hex] at hx5
  · -- part 3: every other unsolicited fragment in `mid` is a retransmission
    intro m1 d' b' m2 e hf hne
    have hs : traceOuts cfg evMax env ins =
        (pre ++ [.tx d b0, .cb (.unsolWait seq)] ++ m1) ++ .tx d' b' :: (m2 ++ rest) := by
      rw [hsplit, e]; simp
    rcases unsol_tx_accounted cfg evMax env ins _ _ d' b' hs hf with ⟨q, post', hpost⟩ | ⟨q, pre', hpre⟩
    · -- the next output would be an `unsolWait` callback inside `mid`
      exfalso
      cases m2 with
      | nil => exact hne rfl
      | cons o m2' =>
        have : o = .cb (.unsolWait q) := by
          have := hpost
          simp only [List.cons_append, List.cons.injEq] at this
          exact this.1
        have hm := hmid o (by rw [e]; simp)
        rw [this] at hm
        simp [isSeriesMark] at hm
    · -- `m1` ends with the retry callback
      rcases List.eq_nil_or_concat m1 with e1 | ⟨m1', o, e1⟩
      · subst e1
        exfalso
        have : (pre ++ [OOut.tx d b0, OOut.cb (.unsolWait seq)] ++ ([] : List OOut)) =
            (pre ++ [OOut.tx d b0]) ++ [OOut.cb (.unsolWait seq)] := by simp
        rw [this] at hpre
        have := List.append_inj_right' hpre (by simp)
        simp at this
      · rw [List.concat_eq_append] at e1
        subst e1
        have : (pre ++ [OOut.tx d b0, OOut.cb (.unsolWait seq)] ++ (m1' ++ [o])) =
            (pre ++ [OOut.tx d b0, OOut.cb (.unsolWait seq)] ++ m1') ++ [o] := by simp
        rw [this] at hpre
        have ho := List.append_inj_right' hpre (by simp)
        simp only [List.cons.injEq, and_true] at ho
        subst ho
        obtain ⟨_, t, ht⟩ := part1 m1' q (.tx d' b' :: m2) (by rw [e]; simp)
        simp only [List.cons_append, List.cons.injEq, OOut.tx.injEq] at ht
        exact ⟨ht.1.1, ht.1.2⟩

/-! ## 7. `one_outstanding` for the solicited confirm wait -/

/-- outputs that neither open a solicited confirm wait (`solWait`) nor belong to unsolicited reporting
    (an unsolicited fragment, function octet 0x82, or one of the `unsol…` callbacks) -/
def solQuietOut : OOut → Bool
  | .cb (.solWait _) => false
  | .cb (.unsolWait _) | .cb (.unsolTimeout ..) | .cb (.unsolConfirmed _) => false
  | .tx _ b => !isUnsolFrag b
  | _ => true

/-- the callbacks that report why a solicited confirm wait ended -/
def isSolEnd : OOut → Bool
  | .cb (.solConfirmed _) | .cb (.solTimeout _) | .cb .solNewRequest => true
  | _ => false

/-- the task is blocked in a solicited confirm wait with continuation `c` (or is dead) -/
def SWInv (c : SolCont) (x : PA) : Prop :=
  x.1 = .blk ∧ SolInv x.2.1 ∧ ((∃ sr dl, x.2.1.mode = .solWait sr dl c) ∨ x.2.1.mode = .dead)

/-- the wait goes on quietly, or ended for a reason visible in the outputs -/
def SW (c : SolCont) (x y : PA) : Prop :=
  ∃ l, y.2.2 = x.2.2 ++ l ∧ (SWInv c x →
    (SWInv c y ∧ ∀ o ∈ l, solQuietOut o = true) ∨
    (∃ pre post, l = pre ++ post ∧ (∀ o ∈ pre, solQuietOut o = true) ∧ ∃ o ∈ pre, isSolEnd o = true))

theorem SW.refl (c : SolCont) (x : PA) : SW c x x := ⟨[], by simp, fun h => Or.inl ⟨h, by simp⟩⟩

theorem SW.trans {c : SolCont} {x y z : PA} (h1 : SW c x y) (h2 : SW c y z) : SW c x z := by
  obtain ⟨l1, e1, c1⟩ := h1
  obtain ⟨l2, e2, c2⟩ := h2
  refine ⟨l1 ++ l2, by rw [e2, e1, List.append_assoc], fun hx => ?_⟩
  rcases c1 hx with ⟨hy, q1⟩ | ⟨pre, post, e, q, m⟩
  · rcases c2 hy with ⟨hz, q2⟩ | ⟨pre, post, e, q, m⟩
    · left
      refine ⟨hz, fun o ho => ?_⟩
      rcases List.mem_append.1 ho with h | h
      · exact q1 o h
      · exact q2 o h
    · right
      refine ⟨l1 ++ pre, post, by rw [e, List.append_assoc], fun o ho => ?_, ?_⟩
      · rcases List.mem_append.1 ho with h | h
        · exact q1 o h
        · exact q o h
      · obtain ⟨o, ho, hm⟩ := m
        exact ⟨o, by simp [ho], hm⟩
  · right
    exact ⟨pre, post ++ l2, by rw [e, List.append_assoc], q, m⟩

theorem SW.of_false {c : SolCont} {x y : PA} {l : List OOut} (hl : y.2.2 = x.2.2 ++ l) (h : ¬ SWInv c x) : SW c x y :=
  ⟨l, hl, fun hx => absurd hx h⟩

theorem ev2_outs {pf : Option Frag} {ph ph' : Ph} {a a' : Acc} (h : Ev2 pf ph a ph' a') : ∃ l, a'.2 = a.2 ++ l :=
  (Ev2.toReach h).base.2.2

theorem quiet_of_kind {o : OOut} {ks : List OKind} (h : OOut.kind o ∈ ks)
    (hk : ∀ k ∈ ks, k ≠ .tx ∧ k ≠ .sol ∧ k ≠ .unsolWait ∧ k ≠ .unsolTimeout ∧ k ≠ .unsolConfirmed) :
    solQuietOut o = true := by
  have := hk _ h
  cases o with
  | tx d b => simp [OOut.kind] at this
  | cb c => cases c <;> simp_all [OOut.kind, Cb.kind, solQuietOut]
  | txLink => rfl
  | line => rfl
  | panic => rfl

theorem quiet_tx {d : Nat} {b : List Nat} (h : b.getD 1 0 = 0x81) : solQuietOut (.tx d b) = true := by
  show (!(b.getD 1 0 == 0x82)) = true
  rw [h]
  rfl

/-- per event -/
theorem Ev2.sw {c : SolCont} {pf : Option Frag} {ph ph' : Ph} {a a' : Acc} (h : Ev2 pf ph a ph' a') :
    SW c (ph, a) (ph', a') := by
  obtain ⟨l0, el0⟩ := ev2_outs h
  by_cases hx : SWInv c (ph, a)
  case neg => exact SW.of_false (x := (ph, a)) (y := (ph', a')) el0 hx
  obtain ⟨hph, hsol, hmode⟩ := hx
  have hph' : ph = .blk := hph
  subst hph'
  have hsol' : SolInv a.1 := hsol
  have hmode' : (∃ sr dl, a.1.mode = .solWait sr dl c) ∨ a.1.mode = .dead := hmode
  -- an event of another mode cannot happen
  have notIdle : ∀ n, a.1.mode ≠ .idle n := by
    intro n hn
    rcases hmode' with ⟨sr, dl, e⟩ | e <;> rw [hn] at e <;> cases e
  have notUW : ∀ resp isNull rt dl, a.1.mode ≠ .unsolWait resp isNull rt dl := by
    intro resp isNull rt dl hn
    rcases hmode' with ⟨sr, dl', e⟩ | e <;> rw [hn] at e <;> cases e
  -- a quiet event: state-only or quiet outputs, mode and stored responses kept
  have quiet : ∀ (l : List OOut), a'.2 = a.2 ++ l → (∀ o ∈ l, solQuietOut o = true) → ph' = .blk → SolInv a'.1 →
      ((∃ sr dl, a'.1.mode = .solWait sr dl c) ∨ a'.1.mode = .dead) → SW c (.blk, a) (ph', a') :=
    fun l el hq hp hs hm => ⟨l, el, fun _ => Or.inl ⟨⟨hp, hs, hm⟩, hq⟩⟩
  have ended : ∀ (l : List OOut), a'.2 = a.2 ++ l → (∀ o ∈ l, solQuietOut o = true) → (∃ o ∈ l, isSolEnd o = true) →
      SW c (.blk, a) (ph', a') :=
    fun l el hq hm => ⟨l, el, fun _ => Or.inr ⟨l, [], by simp, hq, hm⟩⟩
  cases h with
  | house _ _ s' hh =>
    obtain ⟨n, l, p, hp, e⟩ := hh
    subst e
    exact quiet [] (by simp) (by simp) rfl hsol' hmode'
  | noteCb _ _ cb hc =>
    refine quiet [.cb cb] rfl ?_ rfl hsol' hmode'
    intro o ho
    simp only [List.mem_singleton] at ho
    subst ho
    cases cb <;> simp_all [Cb.note, solQuietOut]
  | die _ _ => exact quiet [.panic] rfl (by simp [solQuietOut]) rfl hsol' (Or.inr rfl)
  | clrDeferred _ _ => exact quiet [] (by simp) (by simp) rfl hsol' hmode'
  | dbReset _ _ => exact quiet [] (by simp) (by simp) rfl hsol' hmode'
  | errResp _ _ src bc seq _ _ hw =>
    unfold writeErrorResponse at hw
    split at hw
    · cases hw; exact SW.refl _ _
    · split at hw
      · cases hw; exact SW.refl _ _
      · split at hw
        · cases hw
        · rename_i a2 r2 hws
          cases hw
          obtain ⟨⟨b, hb, hb1⟩, _, hk⟩ := writeSolicited_out hws
          have hkk := kJ_of_keepWS hk
          simp only [kJ, Prod.mk.injEq] at hkk
          refine quiet [.tx src b] hb ?_ rfl ?_ (by rw [hkk.2.2.2.1]; exact hmode')
          · intro o ho
            simp only [List.mem_singleton] at ho
            subst ho
            exact quiet_tx (by rw [hb1]; rfl)
          · intro lr r hl
            rw [hkk.2.1] at hl
            exact hsol' lr r hl
  | enter _ n hm => exact absurd hm (notIdle n)
  | solEcho _ sr dl c' f ctrl func objs raw resp hs hm hq hc =>
    obtain ⟨last, hl, hresp⟩ := classify_repeatRead hc
    have hcc : c' = c := by
      rcases hmode' with ⟨sr', dl', e⟩ | e
      · rw [hm] at e; cases e; rfl
      · rw [hm] at e; cases e
    subst hcc
    unfold solEchoAcc
    cases resp with
    | none => exact quiet [] (by simp [solEchoAcc]) (by simp) rfl hsol' (Or.inl ⟨_, _, rfl⟩)
    | some r =>
      refine quiet [.tx f.src (fragBytes a.1.solBuf r)] rfl ?_ rfl hsol' (Or.inl ⟨_, _, rfl⟩)
      intro o ho
      simp only [List.mem_singleton] at ho
      subst ho
      exact quiet_tx (by rw [fragBytes_func]; exact hsol' last r hl hresp.symm)
  | solAbortNew _ sr dl c' hm _ =>
    exact ended [.cb .solNewRequest] rfl (by simp [solQuietOut]) ⟨.cb .solNewRequest, by simp, rfl⟩
  | solAbortTimeout _ sr dl c' hm _ =>
    exact ended [.cb (.solTimeout sr.ecsn)] rfl (by simp [solQuietOut]) ⟨.cb (.solTimeout sr.ecsn), by simp, rfl⟩
  | solConf _ sr dl c' f ctrl objs raw hm hq hu hs =>
    refine ended ([OOut.cb (Cb.solConfirmed sr.ecsn)] ++
        ([OOut.cb Cb.beginConfirm] ++
          (List.map (fun id => OOut.cb (Cb.eventCleared id)) a.fst.db.clearWritten.snd.fst ++
            [OOut.cb
                (Cb.endConfirm a.fst.db.clearWritten.snd.snd.fst a.fst.db.clearWritten.snd.snd.snd.fst
                  a.fst.db.clearWritten.snd.snd.snd.snd)]))) (by rw [clearWrittenEvents_eq]; simp only [List.append_assoc]) ?_
      ⟨.cb (.solConfirmed sr.ecsn), by simp, rfl⟩
    intro o ho
    simp only [List.mem_append, List.mem_singleton, List.mem_map] at ho
    rcases ho with rfl | rfl | ⟨_, _, rfl⟩ | rfl <;> rfl
  | unsolConf _ resp isNull rt dl f ctrl objs raw hm => exact absurd hm (notUW _ _ _ _)
  | uwSolConfirm _ resp isNull rt dl f ctrl objs raw hm => exact absurd hm (notUW _ _ _ _)
  | uwBcast _ resp isNull rt dl f mm ctrl func objs raw a1 hm => exact absurd hm (notUW _ _ _ _)
  | uwMalformed _ resp isNull rt dl f ctrl func e raw _ r' hm => exact absurd hm (notUW _ _ _ _)
  | uwNonRead _ resp isNull rt dl f ctrl func hs raw a4 r4 a5 r5 hm => exact absurd hm (notUW _ _ _ _)
  | uwNonReadDie _ resp isNull rt dl f ctrl func hs raw a4 r hm => exact absurd hm (notUW _ _ _ _)
  | uwDisable _ resp isNull rt dl f ctrl hs raw hm => exact absurd hm (notUW _ _ _ _)
  | deferSet _ resp isNull rt dl f ctrl hs raw hm => exact absurd hm (notUW _ _ _ _)
  | uwEcho _ resp isNull rt dl f ctrl func objs raw last hm => exact absurd hm (notUW _ _ _ _)
  | uwTimeoutEnd _ resp isNull rt dl hm => exact absurd hm (notUW _ _ _ _)
  | uwRetry _ resp isNull rt rt' dl hm => exact absurd hm (notUW _ _ _ _)

theorem Reach2.sw {c : SolCont} {pf : Option Frag} {x y : PA} (h : Reach2 pf x y) : SW c x y :=
  Star.lift (SW.refl c) (fun _ _ _ => SW.trans) (fun _ _ r => Ev2.sw r) h

theorem stepInit_lastReq {env : OEnv} {s : OState} {inp : OInput} {pf : Option Frag} {s0 : OState} {o0 : List OOut}
    (h : StepInit env s inp pf s0 o0) (hc : inp ≠ .cut) : s0.lastReq = s.lastReq := by
  cases h with
  | rx => rfl
  | tick => rfl
  | txn items =>
    have := (txnFold_frame s items).1
    simp only [keepDb, Prod.mk.injEq] at this
    exact this.2.2.2.2.2.2.2.2.1
  | add => rfl
  | cut => exact absurd rfl hc

/-- **C14.3 for the solicited confirm wait** (`one_outstanding_sol`): a step that begins in the solicited confirm
    wait (`mode = solWait sr dl c`; `SolInv s`: every stored response is a solicited response, which holds in
    every reachable state, `solInv_reachable`) — whatever the input —
    * either emits nothing that opens another solicited confirm wait (`solWait`) and nothing unsolicited (no
      fragment with function octet 0x82, no `unsolWait` / `unsolTimeout` / `unsolConfirmed` callback), and the task
      still is in a solicited confirm wait with the same continuation (a repeated READ was echoed, a wrong or
      unexpected confirm noted, nothing happened) or has died;
    * or the input is a disconnect;
    * or the outputs split as `pre ++ post` with `pre` as quiet as that and containing the reason the wait
      ended: `solConfirmed` (the fragment was confirmed), `solTimeout`, or `solNewRequest`. -/
theorem one_outstanding_sol (env : OEnv) (s : OState) (inp : OInput) (sr : Series) (dl : Nat) (c : SolCont)
    (hm : s.mode = .solWait sr dl c) (hi : SolInv s) :
    ((∀ o ∈ (Outstation.step env s inp).2, solQuietOut o = true) ∧
      ((∃ sr' dl', (Outstation.step env s inp).1.mode = .solWait sr' dl' c) ∨
        (Outstation.step env s inp).1.mode = .dead)) ∨
    inp = .cut ∨
    (∃ pre post, (Outstation.step env s inp).2 = pre ++ post ∧ (∀ o ∈ pre, solQuietOut o = true) ∧
      ∃ o ∈ pre, isSolEnd o = true) := by
  rcases step_reach2 env s inp with ⟨f, _, e⟩ | e | ⟨pf, s0, o0, hinit, hr⟩
  · left; rw [e]; exact ⟨by simp, Or.inl ⟨sr, dl, hm⟩⟩
  · left; rw [e]; exact ⟨by simp, Or.inl ⟨sr, dl, hm⟩⟩
  · by_cases hc : inp = .cut
    · exact Or.inr (Or.inl hc)
    · have hm0 : s0.mode = .solWait sr dl c := by
        rcases hinit.mode with ⟨h, _, _⟩ | ⟨h, _, _⟩
        · exact h.trans hm
        · exact absurd h hc
      have hi0 : SolInv s0 := by
        intro lr r hl
        rw [stepInit_lastReq hinit hc] at hl
        exact hi lr r hl
      have ho0 : ∀ o ∈ o0, solQuietOut o = true := fun o ho =>
        quiet_of_kind (ks := [.line]) (by rw [hinit.keep.2 o ho]; simp) (by simp)
      obtain ⟨l, el, cl⟩ := Reach2.sw (c := c) hr
      have el' : (Outstation.step env s inp).2 = o0 ++ l := el
      rcases cl ⟨rfl, hi0, Or.inl ⟨sr, dl, hm0⟩⟩ with ⟨⟨_, _, hmode⟩, hq⟩ | ⟨pre, post, e, hq, hmk⟩
      · left
        refine ⟨?_, hmode⟩
        intro o ho
        rw [el'] at ho
        rcases List.mem_append.1 ho with h | h
        · exact ho0 o h
        · exact hq o h
      · right; right
        refine ⟨o0 ++ pre, post, by rw [el', e, List.append_assoc], ?_, ?_⟩
        · intro o ho
          rcases List.mem_append.1 ho with h | h
          · exact ho0 o h
          · exact hq o h
        · obtain ⟨o, ho, hmo⟩ := hmk
          exact ⟨o, by simp [ho], hmo⟩

/-- `SolInv` holds in every state reachable from construction -/
theorem solInv_reachable (cfg : OCfg) (evMax : Nat) (env : OEnv) (s : OState)
    (h : Outstation.Reachable cfg evMax env s) : SolInv s := by
  suffices ∃ m, J cfg.retries .blk s m from this.elim (fun m hj => hj.1.2.1)
  induction h with
  | start =>
    obtain ⟨l, _, c⟩ := Reach2.mr (mon := uMon cfg.retries) (J := J cfg.retries) (fun _ _ h => Ev2.mr h)
      (start_reach2 cfg evMax)
    obtain ⟨m', _, j⟩ := c {} (init_J cfg evMax)
    exact ⟨m', j⟩
  | step s i _ ih =>
    obtain ⟨m, hj⟩ := ih
    obtain ⟨m', _, j⟩ := mon_step (uMon cfg.retries) (J cfg.retries) (fun _ _ _ h => Ev2.mr h)
      (fun _ _ _ _ _ _ h m hj => init_mr h m hj) script_mr env s i m hj
    exact ⟨m', j⟩

/-- a dead task outputs nothing and stays dead -/
theorem step_dead_quiet (env : OEnv) (s : OState) (inp : OInput) (h : s.mode = .dead) :
    (Outstation.step env s inp).2 = [] ∧ (Outstation.step env s inp).1.mode = .dead := by
  cases inp <;> simp [Outstation.step, h]

theorem J_step {retries : Option Nat} (env : OEnv) (s : OState) (inp : OInput) (h : ∃ m, J retries .blk s m) :
    ∃ m, J retries .blk (Outstation.step env s inp).1 m := by
  obtain ⟨m, hj⟩ := h
  obtain ⟨m', _, j⟩ := mon_step (uMon retries) (J retries) (fun _ _ _ h => Ev2.mr h)
    (fun _ _ _ _ _ _ h m hj => init_mr h m hj) script_mr env s inp m hj
  exact ⟨m', j⟩

theorem one_outstanding_sol_from {retries : Option Nat} (env : OEnv) (c : SolCont) (ins : List OInput) (s : OState)
    (hj : ∃ m, J retries .blk s m)
    (hm : (∃ sr dl, s.mode = .solWait sr dl c) ∨ s.mode = .dead)
    (hcut : ∀ i ∈ ins, i ≠ .cut)
    (hend : ∀ l ∈ (Outstation.run env s ins).2, ∀ o ∈ l, isSolEnd o = false) :
    (∀ l ∈ (Outstation.run env s ins).2, ∀ o ∈ l, solQuietOut o = true) ∧
    ((∃ sr dl, (Outstation.run env s ins).1.mode = .solWait sr dl c) ∨ (Outstation.run env s ins).1.mode = .dead) := by
  induction ins generalizing s with
  | nil => exact ⟨by simp [Outstation.run], hm⟩
  | cons i is ih =>
    have hrun : Outstation.run env s (i :: is) =
        ((Outstation.run env (Outstation.step env s i).1 is).1,
          (Outstation.step env s i).2 :: (Outstation.run env (Outstation.step env s i).1 is).2) := rfl
    rw [hrun] at hend ⊢
    have hend1 : ∀ o ∈ (Outstation.step env s i).2, isSolEnd o = false := hend _ (by simp)
    have hend2 : ∀ l ∈ (Outstation.run env (Outstation.step env s i).1 is).2, ∀ o ∈ l, isSolEnd o = false :=
      fun l hl => hend l (by simp [hl])
    have key : (∀ o ∈ (Outstation.step env s i).2, solQuietOut o = true) ∧
        ((∃ sr dl, (Outstation.step env s i).1.mode = .solWait sr dl c) ∨ (Outstation.step env s i).1.mode = .dead) := by
      rcases hm with ⟨sr, dl, hms⟩ | hd
      · obtain ⟨m, hjm⟩ := hj
        rcases one_outstanding_sol env s i sr dl c hms hjm.1.2.1 with ⟨hq, hmode⟩ | hc | ⟨pre, post, e, _, o, ho, hmk⟩
        · exact ⟨hq, hmode⟩
        · exact absurd hc (hcut i (by simp))
        · have := hend1 o (by rw [e]; simp [ho])
          rw [hmk] at this; cases this
      · obtain ⟨h1, h2⟩ := step_dead_quiet env s i hd
        exact ⟨by rw [h1]; simp, Or.inr h2⟩
    obtain ⟨hq2, hm2⟩ := ih (Outstation.step env s i).1 (J_step env s i hj) key.2
      (fun j hjm => hcut j (by simp [hjm])) hend2
    refine ⟨?_, hm2⟩
    intro l hl
    simp only [List.mem_cons] at hl
    rcases hl with rfl | hl
    · exact key.1
    · exact hq2 l hl

/-- **C14.3 for the solicited confirm wait, over runs** (`one_outstanding_sol_run`): in any run from
    `Outstation.start cfg evMax`, once the task is in a solicited confirm wait (after the inputs `ins1`), then for
    any further inputs `ins2` without a disconnect, as long as no output reports the end of the wait (no
    `solConfirmed`, `solTimeout`, `solNewRequest` callback), NO output opens another solicited confirm wait
    (`solWait`) or belongs to unsolicited reporting (fragment with function octet 0x82, `unsolWait` /
    `unsolTimeout` / `unsolConfirmed`), and the task still is in a solicited confirm wait with the same
    continuation (or has died). -/
theorem one_outstanding_sol_run (cfg : OCfg) (evMax : Nat) (env : OEnv) (ins1 ins2 : List OInput)
    (sr : Series) (dl : Nat) (c : SolCont)
    (hm : (Outstation.run env (Outstation.start cfg evMax).1 ins1).1.mode = .solWait sr dl c)
    (hcut : ∀ i ∈ ins2, i ≠ .cut)
    (hend : ∀ l ∈ (Outstation.run env (Outstation.run env (Outstation.start cfg evMax).1 ins1).1 ins2).2,
      ∀ o ∈ l, isSolEnd o = false) :
    (∀ l ∈ (Outstation.run env (Outstation.run env (Outstation.start cfg evMax).1 ins1).1 ins2).2,
      ∀ o ∈ l, solQuietOut o = true) ∧
    ((∃ sr' dl', (Outstation.run env (Outstation.run env (Outstation.start cfg evMax).1 ins1).1 ins2).1.mode =
        .solWait sr' dl' c) ∨
      (Outstation.run env (Outstation.run env (Outstation.start cfg evMax).1 ins1).1 ins2).1.mode = .dead) := by
  obtain ⟨m', _, hj⟩ := unsol_trace_accepted cfg evMax env ins1
  exact one_outstanding_sol_from env c ins2 _ ⟨m', hj⟩ (Or.inl ⟨sr, dl, hm⟩) hcut hend

/-! ## 8. Examples: concrete, non-trivial instances (these EVALUATE the model, including the current `Db`) -/

deriving instance DecidableEq for OOut
deriving instance DecidableEq for NextIdle, SolCont, Resp, Mode

/-- unsolicited reporting on, two retries -/
def exCfg : OCfg := { unsolicited := true, retries := some 2 }

/-- the NULL response is confirmed, a point is added, class 1 is enabled, an event occurs, three confirm timeouts
    pass (two retries, then the series is abandoned), and after the retry delay the event is reported again -/
def exIns : List OInput :=
  [.rx 1 1024 [0xD0, 0], .add .binary 0 1, .rx 1 1024 [0xC1, 20, 60, 2, 6], .txn [.bin 0 true 1 0],
   .tick 5000, .tick 5000, .tick 5000, .tick 5000]

def exData : List Nat := [241, 130, 128, 0, 2, 1, 40, 1, 0, 0, 0, 129]

theorem exTrace : traceOuts exCfg 10 {} exIns =
    [OOut.tx 1 [240, 130, 128, 0], .cb (.unsolWait 0), .cb (.unsolConfirmed 0), .line "add 1",
     .tx 1 [193, 129, 128, 0], .line "upd created 0",
     .tx 1 exData, .cb (.unsolWait 1),
     .cb (.unsolTimeout 1 true), .tx 1 exData, .cb (.unsolTimeout 1 true), .tx 1 exData,
     .cb (.unsolTimeout 1 false),
     .tx 1 [242, 130, 128, 0, 2, 1, 40, 1, 0, 0, 0, 129], .cb (.unsolWait 2)] := by decide +kernel

-- the monitor is not vacuous: it rejects event data before a confirmation, a third retry when two are allowed,
-- a retry with other octets, and an `unsolWait` callback without a transmission
example : runMon (uMon (some 2)) {} [.tx 1 [240, 130, 128, 0, 2, 1], .cb (.unsolWait 0)] = none := by decide
example : runMon (uMon (some 2)) { confirmed := true }
    [.tx 1 exData, .cb (.unsolWait 1), .cb (.unsolTimeout 1 true), .tx 1 exData, .cb (.unsolTimeout 1 true), .tx 1 exData,
     .cb (.unsolTimeout 1 true), .tx 1 exData] = none := by decide
example : runMon (uMon none) { confirmed := true }
    [.tx 1 exData, .cb (.unsolWait 1), .cb (.unsolTimeout 1 true), .tx 1 [241, 130, 129, 0, 2, 1, 40, 1, 0, 0, 0, 129]] = none := by
  decide
example : runMon (uMon none) {} [.cb (.unsolWait 1)] = none := by decide

-- `null_until_confirmed_trace`: the first output of the run is an unsolicited fragment before any confirmation
example : ([240, 130, 128, 0] : List Nat).length = 4 :=
  null_until_confirmed_trace exCfg 10 {} exIns [] _ 1 [240, 130, 128, 0] (by rw [exTrace]; rfl) (by simp) rfl

-- `unsol_tx_accounted`: the series start of the event data (position 6), and its first retry (position 9)
example := unsol_tx_accounted exCfg 10 {} exIns
  [OOut.tx 1 [240, 130, 128, 0], .cb (.unsolWait 0), .cb (.unsolConfirmed 0), .line "add 1",
   .tx 1 [193, 129, 128, 0], .line "upd created 0"] _ 1 exData (by rw [exTrace]; rfl) rfl
example := unsol_tx_accounted exCfg 10 {} exIns
  [OOut.tx 1 [240, 130, 128, 0], .cb (.unsolWait 0), .cb (.unsolConfirmed 0), .line "add 1",
   .tx 1 [193, 129, 128, 0], .line "upd created 0", .tx 1 exData, .cb (.unsolWait 1),
   .cb (.unsolTimeout 1 true)] _ 1 exData (by rw [exTrace]; rfl) rfl

-- `retries_bounded_trace`: the series with sequence number 1; `mid` = its two retries
example := retries_bounded_trace exCfg 10 {} exIns
  [OOut.tx 1 [240, 130, 128, 0], .cb (.unsolWait 0), .cb (.unsolConfirmed 0), .line "add 1",
   .tx 1 [193, 129, 128, 0], .line "upd created 0"]
  [.cb (.unsolTimeout 1 true), .tx 1 exData, .cb (.unsolTimeout 1 true), .tx 1 exData]
  [.cb (.unsolTimeout 1 false), .tx 1 [242, 130, 128, 0, 2, 1, 40, 1, 0, 0, 0, 129], .cb (.unsolWait 2)]
  1 exData 1 (by rw [exTrace]; rfl) (by decide)

/-- as `exIns`, but while the event data awaits its confirmation a broadcast arrives (IIN1.0 is set from then on,
    as the solicited reply `… 129 …` in between shows) -/
def exInsIin : List OInput :=
  [.rx 1 1024 [0xD0, 0], .add .binary 0 1, .rx 1 1024 [0xC1, 20, 60, 2, 6], .txn [.bin 0 true 1 0],
   .rx 1 0xFFFF [0xC2, 24], .tick 5000, .rx 1 1024 [0xC3, 23], .tick 5000]

/-- **a retry is the first transmission, whatever the IIN history** (regression example for the D14-style re-OR,
    which is NOT present on this path): both retries carry IIN1 = 128 like the first transmission although the
    current IIN1 is 129 (broadcast received), as the solicited reply between them shows -/
theorem retry_identical_iin_history_example :
    (Outstation.run {} (Outstation.start exCfg 10).1 exInsIin).2.map txFrags =
      [[], [], [(1, [193, 129, 128, 0])], [(1, exData)], [], [(1, exData)],
       [(1, [195, 129, 129, 0, 52, 2, 7, 1, 0, 0])], [(1, exData)]] := by decide +kernel

/-- a READ of class 1 answered with an event: the task is in the solicited confirm wait -/
def exSolIns : List OInput := [.add .binary 0 1, .txn [.bin 0 true 1 0], .rx 1 1024 [0xC0, 1, 60, 2, 6]]
def exSolState : OState := (Outstation.run {} (Outstation.start {} 10).1 exSolIns).1

theorem exSolState_mode : exSolState.mode = .solWait ⟨0, true⟩ 5000 .fromRequest := by decide +kernel

-- `one_outstanding_sol` applies to it for every input; e.g. the confirmation ends the wait (`solConfirmed` in `pre`)
example (inp : OInput) := one_outstanding_sol {} exSolState inp ⟨0, true⟩ 5000 .fromRequest exSolState_mode
  (solInv_run {} 10 {} exSolIns)
example : (Outstation.step {} exSolState (.rx 1 1024 [0xC0, 0])).2 =
    [.cb (.solConfirmed 0), .cb .beginConfirm, .cb (.eventCleared 0), .cb (.endConfirm 0 0 0)] := by decide +kernel
-- `one_outstanding_sol_run`: a repeat of the READ, a wrong confirm and some time: nothing but the echo
example := one_outstanding_sol_run {} 10 {} exSolIns [.rx 1 1024 [0xC0, 1, 60, 2, 6], .rx 1 1024 [0xC3, 0], .tick 100]
  ⟨0, true⟩ 5000 .fromRequest exSolState_mode
  (by intro i hi; simp only [List.mem_cons, List.not_mem_nil, or_false] at hi; rcases hi with rfl | rfl | rfl <;> simp)
  (by decide +kernel)
-- … and a repeat of the READ is echoed, the wait goes on
example : (Outstation.step {} exSolState (.rx 1 1024 [0xC0, 1, 60, 2, 6])).2 =
    [.tx 1 [224, 129, 128, 0, 2, 1, 40, 1, 0, 0, 0, 129]] := by decide +kernel

end Dnp3.Proofs.C14Trace
