import Dnp3.Proofs.OutstationC03
/-!
# C03 (a), session level — `Db.clearWritten` is applied only at the two confirm points

Proofs of the statements announced in `OutstationC03.lean` part (a): the database effect of every
primitive event (`Ev.dbEffect`), and the step-level corollaries `clear_only_on_confirm`,
`Reach.noRelease`, `no_confirm_no_release`.  The database stays OPAQUE.
-/
namespace Dnp3.Proofs.C03
open Dnp3 Dnp3.Proofs.Frame Dnp3.Proofs.Skel

attribute [local irreducible] Db.new Db.add Db.update Db.readSupported Db.select Db.writeResponse
  Db.writeUnsolicited Db.clearWritten Db.reset Db.unwrittenClasses Db.isOverflown

/-! ## `NoRelease`, `NoConfirmCb` are preorders -/

theorem NoRelease.trans {a b c : Db} (h1 : NoRelease a b) (h2 : NoRelease b c) : NoRelease a c := by
  induction h2 with
  | refl => exact h1
  | select db h _ ih => exact .select db h ih
  | writeResponse db cap _ ih => exact .writeResponse db cap ih
  | writeUnsolicited db c1 c2 c3 cap _ ih => exact .writeUnsolicited db c1 c2 c3 cap ih
  | reset db _ ih => exact .reset db ih

example (db : Db) (h : ReadHdr) :
    NoRelease db ((db.select h).1.writeResponse 100).1.reset :=
  NoRelease.trans (.select _ h .refl) (.reset _ (.writeResponse _ 100 .refl))

theorem NoConfirmCb.refl (a : Acc) : NoConfirmCb a a := ⟨[], by simp, by simp⟩

theorem NoConfirmCb.trans {a b c : Acc} (h1 : NoConfirmCb a b) (h2 : NoConfirmCb b c) : NoConfirmCb a c := by
  obtain ⟨l1, e1, n1⟩ := h1
  obtain ⟨l2, e2, n2⟩ := h2
  refine ⟨l1 ++ l2, by rw [e2, e1, List.append_assoc], ?_⟩
  intro o ho
  rcases List.mem_append.1 ho with h | h
  · exact n1 o h
  · exact n2 o h

theorem NoConfirmCb.state (a : Acc) (s' : OState) : NoConfirmCb a (s', a.2) := ⟨[], by simp, by simp⟩

theorem NoConfirmCb.emit (a : Acc) (o : OOut) (h : OOut.kind o ≠ .confirm) : NoConfirmCb a (Dnp3.emit a o) :=
  ⟨[o], rfl, by simpa using h⟩

theorem NoConfirmCb.ofFrame {κ} {K : OState → κ} {ks : List OKind} {a b : Acc} (hf : Frame K (KP ks) a b)
    (hk : OKind.confirm ∉ ks) : NoConfirmCb a b := by
  obtain ⟨_, l, e, hp⟩ := hf
  refine ⟨l, e, ?_⟩
  intro o ho hc
  have : OOut.kind o ∈ ks := hp o ho
  rw [hc] at this
  exact hk this

/-- the first disjunct of `DbEffect`: only non-releasing database operations, no confirm callback -/
def NRel (a a' : Acc) : Prop := NoRelease a.1.db a'.1.db ∧ NoConfirmCb a a'

theorem NRel.refl (a : Acc) : NRel a a := ⟨.refl, NoConfirmCb.refl a⟩

theorem NRel.trans {a b c : Acc} (h1 : NRel a b) (h2 : NRel b c) : NRel a c :=
  ⟨NoRelease.trans h1.1 h2.1, NoConfirmCb.trans h1.2 h2.2⟩

theorem NRel.same {a b : Acc} (hd : b.1.db = a.1.db) (hc : NoConfirmCb a b) : NRel a b :=
  ⟨by rw [hd]; exact .refl, hc⟩

theorem NRel.ofFrame {κ} {K : OState → κ} {ks : List OKind} {a b : Acc} (hf : Frame K (KP ks) a b)
    (hd : b.1.db = a.1.db) (hk : OKind.confirm ∉ ks) : NRel a b :=
  NRel.same hd (NoConfirmCb.ofFrame hf hk)

/-! ## which frames keep the database -/

theorem keepNR_db {s s' : OState} (h : keepNR s' = keepNR s) : s'.db = s.db := by
  simp only [keepNR, Prod.mk.injEq] at h
  exact h.2.2.2.2.2.2.2.2.2.2.1

theorem keepBC_db {s s' : OState} (h : keepBC s' = keepBC s) : s'.db = s.db := by
  simp only [keepBC, Prod.mk.injEq] at h
  exact h.2.2.2.2.2.2.2.2.2.1

theorem keepWS_db {s s' : OState} (h : keepWS s' = keepWS s) : s'.db = s.db := by
  simp only [keepWS, Prod.mk.injEq] at h
  exact h.2.2.2.2.2.2.2.2.2.2.2.2.2.2.2.1

theorem writeSolicited_nrel (a : Acc) (dst : Nat) (r : Resp) (a' : Acc) (r' : Resp)
    (h : writeSolicited a dst r = some (a', r')) : NRel a a' :=
  NRel.ofFrame (writeSolicited_frame _ _ _ _ _ h) (keepWS_db (writeSolicited_keep _ _ _ _ _ h).1) (by decide)

theorem handleNonRead_nrel (a : Acc) (func seq fid : Nat) (hs : List ObjHdr) (raw : List Nat)
    (a' : Acc) (r : Option Resp) (h : handleNonRead a func seq fid hs raw = some (a', r)) : NRel a a' :=
  NRel.ofFrame ((handleNonRead_frame _ _ _ _ _ _ _ _ h).mono NRP_kind)
    (keepNR_db (handleNonRead_frame _ _ _ _ _ _ _ _ h).1) (by decide)

theorem processBroadcast_nrel (a : Acc) (f : Frag) (m : Nat) (ctrl : AppCtrl) (func : Nat)
    (objs : Except Nat (List ObjHdr)) (raw : List Nat) (a' : Acc)
    (h : processBroadcast a f m ctrl func objs raw = some a') : NRel a a' :=
  NRel.ofFrame (processBroadcast_frame _ _ _ _ _ _ _ _ h).1
    (keepBC_db (processBroadcast_frame _ _ _ _ _ _ _ _ h).1.1) (by decide)

theorem formatReadResponse_db (s : OState) (fir : Bool) (seq iin2 : Nat) :
    (formatReadResponse s fir seq iin2).1.db = (s.db.writeResponse (s.cfg.sol - 4)).1 := rfl

theorem formatReadResponse_noRelease (db0 : Db) (s : OState) (fir : Bool) (seq iin2 : Nat)
    (h : NoRelease db0 s.db) : NoRelease db0 (formatReadResponse s fir seq iin2).1.db := by
  rw [formatReadResponse_db]
  exact .writeResponse _ _ h

theorem dbSelectAll_noRelease (db0 db : Db) (hs : List ObjHdr) (h : NoRelease db0 db) :
    NoRelease db0 (dbSelectAll db hs).1 := by
  induction hs generalizing db with
  | nil => exact h
  | cons x xs ih =>
    show NoRelease db0 (dbSelectAll (db.select (toReadHdr x)).1 xs).1
    exact ih _ (.select _ _ h)

theorem selectFold_noRelease (db0 : Db) (hdrs : List ReadHdr) (p : Db × Nat) (h : NoRelease db0 p.1) :
    NoRelease db0 (hdrs.foldl (fun (p : Db × Nat) h => let (db', i) := p.1.select h; (db', p.2 ||| i)) p).1 := by
  induction hdrs generalizing p with
  | nil => exact h
  | cons x xs ih =>
    simp only [List.foldl_cons]
    exact ih _ (.select _ _ h)

theorem deferredSelect_noRelease (db : Db) (hdrs : List ReadHdr) :
    NoRelease db (deferredSelect db hdrs).1 := by
  unfold deferredSelect
  exact selectFold_noRelease db hdrs (db.reset, 0) (.reset _ .refl)

theorem deferredFormat_noRelease (s : OState) (d : Deferred) :
    NoRelease s.db (deferredFormat s d).1.db := by
  unfold deferredFormat
  exact formatReadResponse_noRelease _ _ _ _ _ (deferredSelect_noRelease _ _)

/-! ## `handleRequestFromIdle` -/

theorem readPrep_nrel (a : Acc) (hs : List ObjHdr) (seq : Nat) :
    NRel a ((formatReadResponse { a.1 with db := (dbSelectAll a.1.db hs).1 } true seq (dbSelectAll a.1.db hs).2).1, a.2) :=
  ⟨formatReadResponse_noRelease a.1.db { a.1 with db := (dbSelectAll a.1.db hs).1 } true seq (dbSelectAll a.1.db hs).2
    (dbSelectAll_noRelease _ _ _ .refl), NoConfirmCb.state a _⟩

theorem idleStage1_nrel (a : Acc) (f : Frag) (ctrl : AppCtrl) (func : Nat)
    (objs : Except Nat (List ObjHdr)) (raw : List Nat) (a1 : Acc) (lr : Option (LastReq × Bool))
    (heq : idleStage1 a f ctrl func objs raw = some (a1, lr)) : NRel a a1 := by
  unfold idleStage1 at heq
  split at heq
  · cases heq; exact NRel.refl _
  · rename_i hs hc
    cases heq
    exact readPrep_nrel a hs ctrl.seq
  · rename_i rr hs hc
    cases heq
    exact readPrep_nrel a hs ctrl.seq
  · dsimp only at heq
    split at heq
    · cases heq
    · rename_i a2 r hn
      cases heq
      exact handleNonRead_nrel _ _ _ _ _ _ _ _ hn
  · cases heq
    refine NRel.same ?_ (NoConfirmCb.state _ _)
    split
    · split <;> rfl
    · rfl
  · dsimp only at heq
    split at heq
    · cases heq
    · rename_i a2 hp
      cases heq
      exact processBroadcast_nrel _ _ _ _ _ _ _ _ hp
  · cases heq; exact NRel.refl _
  · cases heq; exact NRel.refl _

theorem idleStage2_nrel {a1 : Acc} {lr : Option (LastReq × Bool)} {f : Frag} {a' : Acc} (h : IdleStage2 a1 lr f a') :
    NRel a1 a' := by
  cases lr with
  | none => cases h; exact NRel.refl _
  | some p =>
    obtain ⟨lr, echo⟩ := p
    cases echo with
    | false =>
      rcases h with ⟨_, lr', e⟩ | ⟨r, a2, r2, lr', _, hw, e⟩
      · subst e; exact NRel.same rfl (NoConfirmCb.state _ _)
      · subst e
        exact NRel.trans (writeSolicited_nrel _ _ _ _ _ hw) (NRel.same rfl (NoConfirmCb.state _ _))
    | true =>
      rcases h with ⟨_, e⟩ | ⟨r, _, e⟩
      · subst e; exact NRel.same rfl (NoConfirmCb.state _ _)
      · subst e
        exact NRel.trans (NRel.ofFrame (repeatSolicited_frame _ _ _) rfl (by decide))
          (NRel.same rfl (NoConfirmCb.state _ _))

theorem handleRequestFromIdle_nrel (a : Acc) (f : Frag) (ctrl : AppCtrl) (func : Nat)
    (objs : Except Nat (List ObjHdr)) (raw : List Nat) (a' : Acc) (ser : Option Series)
    (h : handleRequestFromIdle a f ctrl func objs raw = some (a', ser)) : NRel a a' := by
  rw [handleRequestFromIdle_eq] at h
  cases h1 : idleStage1 a f ctrl func objs raw with
  | none => rw [h1] at h; cases h
  | some p =>
    obtain ⟨a1, lr⟩ := p
    rw [h1] at h
    exact NRel.trans (idleStage1_nrel _ _ _ _ _ _ _ _ h1) (idleStage2_nrel (idleStage2_cases _ _ _ _ _ h))

/-! ## `checkUnsolicited` -/

theorem startUnsolSeries_nrel (a : Acc) (r : Resp) (isNull : Bool) (a' : Acc)
    (h : startUnsolSeries a r isNull = some a') : NRel a a' := by
  refine NRel.ofFrame (startUnsolSeries_frame _ _ _ _ h) ?_ (by decide)
  obtain ⟨c1, c2, c3, r', _, _, e⟩ := startUnsolSeries_eq a r isNull a' h
  subst e
  rw [afterIin_eq]

theorem ChkCase.nrel {a : Acc} {res : Acc ⊕ (Acc × NextIdle)} (h : ChkCase a res) (a' : Acc)
    (hr : res = .inl a' ∨ ∃ n, res = .inr (a', n)) : NRel a a' := by
  cases h with
  | unsupported => rcases hr with hr | ⟨n, hr⟩ <;> cases hr; exact NRel.refl _
  | null a1 _ _ hs =>
    rcases hr with hr | ⟨n, hr⟩ <;> cases hr
    exact NRel.trans (b := ({ a.1 with unsolSeq := seq4Next a.1.unsolSeq }, a.2))
      (NRel.same rfl (NoConfirmCb.state a _)) (startUnsolSeries_nrel _ _ _ _ hs)
  | tooEarly => rcases hr with hr | ⟨n, hr⟩ <;> cases hr; exact NRel.refl _
  | disabled => rcases hr with hr | ⟨n, hr⟩ <;> cases hr; exact NRel.refl _
  | noEvents =>
    rcases hr with hr | ⟨n, hr⟩ <;> cases hr
    exact ⟨.writeUnsolicited _ _ _ _ _ .refl, NoConfirmCb.state a _⟩
  | data dl a1 _ _ _ _ _ hs =>
    rcases hr with hr | ⟨n, hr⟩ <;> cases hr
    refine NRel.trans ?_ (startUnsolSeries_nrel _ _ _ _ hs)
    exact ⟨.writeUnsolicited _ _ _ _ _ .refl, NoConfirmCb.state a _⟩

/-! ## `handleDeferredRead` -/

theorem DefCase.nrel {a : Acc} {next : NextIdle} {res : Acc ⊕ Acc} (h : DefCase a next res) (a' : Acc)
    (hr : res = .inl a' ∨ res = .inr a') : NRel a a' := by
  cases h with
  | none => rcases hr with hr | hr <;> cases hr; exact NRel.refl _
  | answered d a2 r2 _ hw _ _ =>
    rcases hr with hr | hr <;> cases hr
    refine NRel.trans (b := ((deferredFormat a.1 d).1, a.2)) ⟨deferredFormat_noRelease _ _, NoConfirmCb.state a _⟩ ?_
    exact NRel.trans (writeSolicited_nrel _ _ _ _ _ hw) (NRel.same rfl (NoConfirmCb.state _ _))
  | awaiting d a2 r2 sr _ hw =>
    rcases hr with hr | hr <;> cases hr
    refine NRel.trans (b := ((deferredFormat a.1 d).1, a.2)) ⟨deferredFormat_noRelease _ _, NoConfirmCb.state a _⟩ ?_
    refine NRel.trans (writeSolicited_nrel _ _ _ _ _ hw) ?_
    refine NRel.trans (NRel.same rfl (NoConfirmCb.state _ _)) ?_
    exact NRel.ofFrame (enterSolWait_frame _ _ _) rfl (by decide)

/-! ## the end of an unsolicited series -/

theorem afterUnsolSeries_unconfirmed (a : Acc) (isNull : Bool) : NRel a (afterUnsolSeries a isNull false).1 := by
  cases isNull with
  | true => exact NRel.same rfl (NoConfirmCb.state a _)
  | false => exact ⟨.reset _ .refl, NoConfirmCb.state a _⟩

theorem afterUnsolSeries_data_confirmed (a : Acc) :
    (afterUnsolSeries a false true).1 =
      ({ (clearWrittenEvents a).1 with unsol := .ready none }, (clearWrittenEvents a).2) := rfl

theorem finishPass_db (a : Acc) (n : NextIdle) : (finishPass a n).1.db = a.1.db := by
  unfold finishPass
  split
  · split <;> rfl
  · rfl

/-! ## every event -/

/-- the database effect of every primitive event of the session -/
theorem Ev.dbEffect {pf : Option Frag} {a a' : Acc} (h : Ev pf a a') : DbEffect pf a a' := by
  cases h with
  | house s' hh =>
    obtain ⟨n, l, lr, p, hp, e⟩ := hh
    subst e
    exact Or.inl (NRel.same rfl (NoConfirmCb.state a _))
  | plainCb c hc =>
    left
    refine NRel.same rfl (NoConfirmCb.emit a _ ?_)
    cases c <;> simp_all [Cb.plain, OOut.kind, Cb.kind]
  | die => exact Or.inl (NRel.same rfl ⟨[.panic], rfl, by simp [OOut.kind]⟩)
  | wsol dst r a' r' hw => exact Or.inl (writeSolicited_nrel _ _ _ _ _ hw)
  | rsol dst r => exact Or.inl (NRel.ofFrame (repeatSolicited_frame _ _ _) rfl (by decide))
  | dbReset => exact Or.inl ⟨.reset _ .refl, NoConfirmCb.state a _⟩
  | clrDeferred => exact Or.inl (NRel.same rfl (NoConfirmCb.state a _))
  | reqIdle f ctrl func objs raw a' ser hq hh => exact Or.inl (handleRequestFromIdle_nrel _ _ _ _ _ _ _ _ hh)
  | enterSol sr c => exact Or.inl (NRel.ofFrame (enterSolWait_frame _ _ _) rfl (by decide))
  | setSolWait sr dl c => exact Or.inl (NRel.same rfl (NoConfirmCb.state a _))
  | chkStart a' hc => exact Or.inl (ChkCase.nrel (checkUnsolicited_cases _ _ hc) a' (Or.inl rfl))
  | chkIdle a' n hc => exact Or.inl (ChkCase.nrel (checkUnsolicited_cases _ _ hc) a' (Or.inr ⟨n, rfl⟩))
  | defWait n a' hd => exact Or.inl (DefCase.nrel (handleDeferredRead_cases _ _ _ hd) a' (Or.inl rfl))
  | defDone n a' hd => exact Or.inl (DefCase.nrel (handleDeferredRead_cases _ _ _ hd) a' (Or.inr rfl))
  | finishPass n => exact Or.inl (NRel.ofFrame (finishPass_frame _ _) (finishPass_db _ _) (by decide))
  | solConf sr dl c f ctrl objs raw hm hq hu hs =>
    right
    refine ⟨⟨f, ctrl, objs, raw, hq, Or.inl ⟨sr, dl, c, hm, hu, hs⟩⟩, ?_, ?_⟩
    · rw [clearWrittenEvents_eq]
    · rw [clearWrittenEvents_eq]; simp
  | fmtRead fir seq iin2 =>
    exact Or.inl ⟨formatReadResponse_noRelease a.1.db a.1 fir seq iin2 .refl, NoConfirmCb.state a _⟩
  | unsolConf resp isNull retries dl f ctrl objs raw hm hq hu hs =>
    cases isNull with
    | true =>
      left
      exact NRel.same rfl ⟨[.cb (.unsolConfirmed resp.ctrl.seq)], rfl, by simp [OOut.kind, Cb.kind]⟩
    | false =>
      right
      refine ⟨⟨f, ctrl, objs, raw, hq, Or.inr ⟨resp, retries, dl, hm, hu, hs⟩⟩, ?_, ?_⟩
      · rw [afterUnsolSeries_data_confirmed, clearWrittenEvents_eq]; rfl
      · rw [afterUnsolSeries_data_confirmed, clearWrittenEvents_eq]; simp
  | uwSolConfirm resp isNull retries dl f ctrl objs raw _ _ _ =>
    left
    split
    · exact NRel.same rfl (NoConfirmCb.state a _)
    · exact NRel.refl _
  | bcast f m ctrl func objs raw a' _ _ _ hp => exact Or.inl (processBroadcast_nrel _ _ _ _ _ _ _ _ hp)
  | uwBcastSeen resp isNull retries dl f m ctrl func objs raw _ _ _ _ _ =>
    exact Or.inl (NRel.same rfl (NoConfirmCb.state a _))
  | nonRead f ctrl func hs raw a' r _ _ _ _ hn => exact Or.inl (handleNonRead_nrel _ _ _ _ _ _ _ _ hn)
  | uwDisable resp isNull retries dl f ctrl hs raw _ _ => exact Or.inl (afterUnsolSeries_unconfirmed _ _)
  | deferSet f ctrl hs raw _ _ => exact Or.inl (NRel.same rfl (NoConfirmCb.state a _))
  | uwTimeoutEnd resp isNull retries dl _ _ =>
    left
    refine NRel.trans (b := emitCb a (.unsolTimeout resp.ctrl.seq false)) ?_ (afterUnsolSeries_unconfirmed _ _)
    exact NRel.same rfl (NoConfirmCb.emit a _ (by simp [OOut.kind, Cb.kind]))
  | uwRetry resp isNull retries retries' dl _ _ _ =>
    left
    refine NRel.same rfl ⟨[.cb (.unsolTimeout resp.ctrl.seq true),
      .tx a.1.cfg.master ((writeAt a.1.unsolBuf 0 (respHeader resp)).take (max 4 resp.size))], ?_, ?_⟩
    · simp [repeatUnsolicited, emitCb, emit]
    · simp [OOut.kind, Cb.kind]

/-- one primitive event together with its database effect -/
def EvDb (pf : Option Frag) (a a' : Acc) : Prop := Ev pf a a' ∧ DbEffect pf a a'

theorem Reach.evDb {pf : Option Frag} {a a' : Acc} (h : Reach pf a a') : Star (EvDb pf) a a' := by
  induction h with
  | refl => exact .refl _
  | tail _ r ih => exact .tail ih ⟨r, Ev.dbEffect r⟩

/-- (a) every step of the session model that runs the session machinery is a chain of primitive events
    each of which either releases nothing (and emits no confirm callback) or is a confirm point applying
    exactly `clearWritten` -/
theorem clear_only_on_confirm (env : OEnv) (s : OState) (inp : OInput) :
    (∃ f, inp = .setScript f ∧ Outstation.step env s inp = ({ s with script := f s.script }, [])) ∨
    Outstation.step env s inp = (s, []) ∨
    ∃ pf s0 o0, StepInit env s inp pf s0 o0 ∧ Star (EvDb pf) (s0, o0) (Outstation.step env s inp) := by
  rcases step_reach env s inp with h | h | ⟨pf, s0, o0, hi, hr⟩
  · exact Or.inl h
  · exact Or.inr (Or.inl h)
  · exact Or.inr (Or.inr ⟨pf, s0, o0, hi, Reach.evDb hr⟩)

/-- a chain none of whose events is at a confirm point releases nothing and emits no confirm callback -/
theorem Reach.noRelease {pf : Option Frag} {a a' : Acc} (h : Reach pf a a')
    (hn : ∀ f ctrl objs raw, ¬ ReqOf pf f ctrl 0 objs raw) :
    NoRelease a.1.db a'.1.db ∧ NoConfirmCb a a' := by
  refine Star.lift (Q := NRel) NRel.refl (fun _ _ _ => NRel.trans) ?_ h
  intro b c hev
  rcases Ev.dbEffect hev with hq | ⟨⟨f, ctrl, objs, raw, hreq, _⟩, _⟩
  · exact hq
  · exact absurd hreq (hn f ctrl objs raw)

-- the hypothesis of `Reach.noRelease` holds e.g. of a step with no fragment, and of a READ request
example : ∀ f ctrl objs raw, ¬ ReqOf none f ctrl 0 objs raw := fun _ _ _ _ h => by cases h.1

/-- the function code of a parsed request is the second octet of the fragment -/
theorem parseRequest_func (c fn : Nat) (rest : List Nat) (ctrl : AppCtrl) (func : Nat)
    (objs : Except Nat (List ObjHdr)) (raw : List Nat)
    (h : parseRequest (c :: fn :: rest) = .request ctrl func objs raw) : func = fn := by
  unfold parseRequest at h
  dsimp only at h
  repeat' split at h
  all_goals first | (cases h; rfl) | cases h

example : ∀ f ctrl objs raw, ¬ ReqOf (some ⟨0, 1, none, [0xC1, 1, 60, 2, 6]⟩) f ctrl 0 objs raw := by
  intro f ctrl objs raw h
  obtain ⟨h1, h2⟩ := h
  cases h1
  have := parseRequest_func _ _ _ _ _ _ _ h2
  omega

/-- corollary at step level: a step whose fragment is not a CONFIRM (function code 0) releases no event: the
    database after the step arises from the database after the step's prologue (`StepInit`: the transaction /
    added point applied, `reset` for a disconnect) by non-releasing operations, and no confirm callback
    (`begin_confirm`, `event_cleared`, `end_confirm`) is emitted -/
theorem no_confirm_no_release (env : OEnv) (s : OState) (inp : OInput) :
    (∃ f, inp = .setScript f ∧ Outstation.step env s inp = ({ s with script := f s.script }, [])) ∨
    Outstation.step env s inp = (s, []) ∨
    ∃ pf s0 o0, StepInit env s inp pf s0 o0 ∧
      ((∀ f ctrl objs raw, ¬ ReqOf pf f ctrl 0 objs raw) →
        NoRelease s0.db (Outstation.step env s inp).1.db ∧
        ∀ o ∈ (Outstation.step env s inp).2, OOut.kind o ≠ .confirm) := by
  rcases step_reach env s inp with h | h | ⟨pf, s0, o0, hi, hr⟩
  · exact Or.inl h
  · exact Or.inr (Or.inl h)
  · refine Or.inr (Or.inr ⟨pf, s0, o0, hi, ?_⟩)
    intro hn
    obtain ⟨hdb, l, e, hl⟩ := Reach.noRelease hr hn
    refine ⟨hdb, ?_⟩
    intro o ho
    rw [e] at ho
    rcases List.mem_append.1 ho with h | h
    · have := hi.keep.2 o h
      rw [this]; decide
    · exact hl o h

end Dnp3.Proofs.C03
