import Dnp3.Proofs.C02Reach
import Dnp3.Proofs.C02Session
import Dnp3.Proofs.C02SeriesMaster
import Dnp3.Proofs.C02MasterQuiet
import Dnp3.Proofs.NoPanicOutstationDb
/-!
# C02 — a multi-fragment READ response series: database, outstation session, master session, and their
composition over an ideal wire

* database level (`dbAt`, `fragW`, `fragObjs`, `series_objects`, `class0_pending`): the static objects of the
  fragments of a series whose fragments are all confirmed, concatenated, are exactly what the request selected;
  for a class-0 READ of an idle `pair` database: every binary input, then every analog input, with its
  CURRENT value;
* per fragment (`parse_frag`, `deliver_frag`, `fragCalls_items`): the master's object parser and
  `extract_measurements` on the static part of one fragment;
* outstation session (`step_read_first`, `solWait_confirm`, `step_confirm`): `Outstation.step` on the READ
  request received while idle, and on the CONFIRM of a non-final fragment — exact outputs, next wait;
* composition (`Exchange`, `exchange_rounds`, `class0_series_converges`): see there.
-/
namespace Dnp3.Proofs.C02Series
open Dnp3 Dnp3.DbM Dnp3.DbProofs Dnp3.Proofs.C02Static Dnp3.Proofs.C02Reach


/-! ## database level: the fragments of a READ series whose fragments are all confirmed -/

/-- no event record is `Selected` or `Written` -/
def AllUnsel (db : Db) : Prop := ∀ r ∈ db.events, r.st = .unselected

theorem AllUnsel.noSel {db : Db} (h : AllUnsel db) : ∀ r ∈ db.events, r.st ≠ .selected := by
  intro r hr e; rw [h r hr] at e; cases e

/-- the database when fragment `k` (counted from 0) is about to be written: `k` fragments written, each confirmed -/
def dbAt (cap : Nat) (db1 : Db) : Nat → Db
  | 0 => db1
  | k + 1 => ((dbAt cap db1 k).writeResponse cap).1.clearWritten.1

/-- `write_response_headers` for fragment `k`: (database, octets, has_events, complete) -/
def fragW (cap : Nat) (db1 : Db) (k : Nat) : Db × List Nat × Bool × Bool := (dbAt cap db1 k).writeResponse cap

/-- the static objects of fragment `k`, one list per queue entry touched -/
def fragObjs (cap : Nat) (db1 : Db) (k : Nat) : List (List SObj) := writeStaticObjs (dbAt cap db1 k) cap

theorem writeResponse_allUnsel (db : Db) (cap : Nat) (h : AllUnsel db) :
    (db.writeResponse cap).1.events = db.events ∧ (db.writeResponse cap).2.2.1 = false ∧
    (db.writeResponse cap).2.1 = (writeStaticObjs db cap).flatMap (encodeStatic none) := by
  have hw := writeEvents_unselected db cap h.noSel
  refine ⟨?_, (writeResponse_unselected db cap h.noSel).2.1, ?_⟩
  · unfold Db.writeResponse
    rw [hw]
    rfl
  · unfold Db.writeResponse writeStaticObjs
    rw [hw]
    simp [encodeEvents]

theorem clearWritten_allUnsel (db : Db) (h : AllUnsel db) :
    db.clearWritten.1.events = db.events ∧ db.clearWritten.2.1 = [] := by
  obtain ⟨h1, h2, _⟩ := clear_spec db
  refine ⟨?_, ?_⟩
  · rw [h1]
    apply List.filter_eq_self.mpr
    intro r hr
    simp [isWritten, h r hr]
  · rw [h2]
    have : db.events.filter isWritten = [] := by
      apply List.filter_eq_nil_iff.mpr
      intro r hr
      simp [isWritten, h r hr]
    rw [this]; rfl

theorem dbAt_inv (cap : Nat) (db1 : Db) (hs : StaticSorted db1) (hu : AllUnsel db1) (k : Nat) :
    StaticSorted (dbAt cap db1 k) ∧ AllUnsel (dbAt cap db1 k) ∧
    (List.range k).flatMap (fun j => (fragObjs cap db1 j).flatten) ++ pending (dbAt cap db1 k) (dbAt cap db1 k).queue =
      pending db1 db1.queue := by
  induction k with
  | zero => exact ⟨hs, hu, by simp [dbAt]⟩
  | succ k ih =>
    obtain ⟨ih1, ih2, ih3⟩ := ih
    obtain ⟨w1, w2⟩ := sstep_conserves (dbAt cap db1 k) ih1 (.write cap)
    obtain ⟨c1, c2⟩ := sstep_conserves (sstep (dbAt cap db1 k) (.write cap)) w1 .clear
    have e : dbAt cap db1 (k + 1) = sstep (sstep (dbAt cap db1 k) (.write cap)) .clear := rfl
    refine ⟨e ▸ c1, ?_, ?_⟩
    · intro r hr
      rw [e] at hr
      have h1 := (writeResponse_allUnsel (dbAt cap db1 k) cap ih2).1
      have hu2 : AllUnsel ((dbAt cap db1 k).writeResponse cap).1 := by intro r hr; rw [h1] at hr; exact ih2 r hr
      have h2 := (clearWritten_allUnsel _ hu2).1
      show r.st = .unselected
      apply ih2 r
      rw [← h1, ← h2]
      exact hr
    · rw [List.range_succ, List.flatMap_append, List.append_assoc, e]
      simp only [List.flatMap_cons, List.flatMap_nil, List.append_nil]
      rw [← ih3]
      congr 1
      have c2' : pending (sstep (sstep (dbAt cap db1 k) (.write cap)) .clear) (sstep (sstep (dbAt cap db1 k) (.write cap)) .clear).queue =
          pending (sstep (dbAt cap db1 k) (.write cap)) (sstep (dbAt cap db1 k) (.write cap)).queue := by
        simpa [sobjs] using c2
      rw [c2']
      exact w2

/-- fragment `k` is complete exactly when nothing stays selected -/
theorem fragW_complete (cap : Nat) (db1 : Db) (hs : StaticSorted db1) (hu : AllUnsel db1) (k : Nat) :
    (fragW cap db1 k).2.2.2 = true ↔ (dbAt cap db1 (k + 1)).queue = [] := by
  obtain ⟨i1, i2, _⟩ := dbAt_inv cap db1 hs hu k
  obtain ⟨_, _, _, _, h5⟩ := writeResponse_static (dbAt cap db1 k) i1 cap
  have hq : (dbAt cap db1 (k + 1)).queue = ((dbAt cap db1 k).writeResponse cap).1.queue := by
    obtain ⟨_, _, _, _, _, _, _, h8, _⟩ := clear_spec ((dbAt cap db1 k).writeResponse cap).1
    exact h8
  have hev : ((dbAt cap db1 k).writeEvents cap).2.2 = true := by
    rw [writeEvents_unselected _ cap i2.noSel]
  unfold fragW
  rw [h5, hq]
  simp [hev]

/-- **the static objects of all fragments of a series that ends with fragment `n - 1`, concatenated, are exactly
    the objects the request selected** -/
theorem series_objects (cap : Nat) (db1 : Db) (hs : StaticSorted db1) (hu : AllUnsel db1) (n : Nat)
    (hend : (fragW cap db1 n).2.2.2 = true) :
    (List.range (n + 1)).flatMap (fun j => (fragObjs cap db1 j).flatten) = pending db1 db1.queue := by
  obtain ⟨_, _, h3⟩ := dbAt_inv cap db1 hs hu (n + 1)
  rw [(fragW_complete cap db1 hs hu n).mp hend] at h3
  simpa [pending] using h3

/-! ## what `select_class_zero` selects: every binary input, then every analog input, with the CURRENT value -/

theorem selectStatic_none_objs (db : Db) (t : PtType) (ht : t = .binary ∨ t = .analog)
    (hsv : ∀ p ∈ db.map t, p.2.svar = tyV t) (hs : KeysSorted (db.map t))
    (hroom : db.queue.length ≠ db.selCap) :
    ∃ qT, (db.selectStatic t none none).1.queue = db.queue ++ qT ∧ qT.length ≤ 1 ∧
      ∀ r' : Db, r'.map t = (db.selectStatic t none none).1.map t →
        (qT.map (itemObjs r')).flatten = objsOf t (db.map t) := by
  rw [selectStatic_none_fst db t hroom]
  cases hf : fullRange (db.map t) with
  | none =>
    refine ⟨[], by simp, by simp, ?_⟩
    intro r' _
    rw [fullRange_none hf]
    simp [objsOf]
  | some ab =>
    obtain ⟨a, b⟩ := ab
    refine ⟨[{ kind := kindOf t none, start := a, stop := b }], rfl, by simp, ?_⟩
    intro r' hr'
    have hm : r'.map t = snapshot a b (db.map t) := by
      rw [hr']; exact Db.map_setMap_same' db t _
    simp only [List.map_cons, List.map_nil, List.flatten_cons, List.flatten_nil, List.append_nil]
    rw [itemObjs_class0 r' t ht (by rw [hm]; exact snapshot_svar a b _ _ hsv), hm,
      snap_objs _ a b (fun i m => { idx := i, g := tyG t, v := tyV t, m := m }) _ (fullRange_bounds hs hf)]
    rfl

/-- the selection of a class-0 READ on an idle `pair` database -/
theorem class0_pending (db : Db) (hc : Class0Db db) (hq : db.queue = []) (hu : AllUnsel db) :
    pending db.selectClass0.1 db.selectClass0.1.queue = objsOf .binary db.bins ++ objsOf .analog db.ans ∧
    StaticSorted db.selectClass0.1 ∧ AllUnsel db.selectClass0.1 ∧ Class0Db db.selectClass0.1 := by
  obtain ⟨hs, hp, hcap, hk⟩ := hc
  have hroom : db.queue.length ≠ db.selCap := by rw [hq]; simp only [List.length_nil]; omega
  obtain ⟨qB, hqB, hlB, hB⟩ := selectStatic_none_objs db .binary (.inl rfl) hp.sv (hs .binary) hroom
  obtain ⟨f1, f2, f3⟩ := selectStatic_none_frame db .binary hroom
  have e : db.selectClass0.1 = ((db.selectStatic .binary none none).1.selectStatic .analog none none).1 := by
    rw [selectClass0_two_enabled db hp.empty hp.czb hp.cza]
  have hcl : Class0Db db.selectClass0.1 := by
    have := class0Db_step db (.select ⟨60, 1, 6, 0, 0⟩) (fun _ _ _ e => by cases e) ⟨hs, hp, hcap, hk⟩
    have hcz : (⟨60, 1, 6, 0, 0⟩ : ReadHdr).classify = .class0 := by decide
    simpa [DbProofs.step, Db.select, hcz] using this
  generalize hdb1 : (db.selectStatic .binary none none).1 = db1 at *
  have h1ans : db1.ans = db.ans := f3 .analog (by decide)
  have hroom1 : db1.queue.length ≠ db1.selCap := by
    rw [hqB, hq, f1]; simp only [List.nil_append]; omega
  have hs1 : KeysSorted (db1.map .analog) := by show KeysSorted db1.ans; rw [h1ans]; exact hs .analog
  have hsa1 : ∀ p ∈ db1.map .analog, p.2.svar = tyV .analog := by
    show ∀ p ∈ db1.ans, p.2.svar = 1; rw [h1ans]; exact hp.sa
  obtain ⟨qA, hqA, hlA, hA⟩ := selectStatic_none_objs db1 .analog (.inr rfl) hsa1 hs1 hroom1
  obtain ⟨g1, g2, g3⟩ := selectStatic_none_frame db1 .analog hroom1
  rw [e] at hcl ⊢
  generalize hdb2 : (db1.selectStatic .analog none none).1 = db2 at *
  have h2bins : db2.bins = db1.bins := g3 .binary (by decide)
  refine ⟨?_, hcl.1, ?_, hcl⟩
  · unfold pending
    rw [hqA, hqB, hq, List.nil_append, List.map_append, List.flatten_append, hB db2 h2bins, hA db2 rfl]
    show _ ++ objsOf .analog db1.ans = _
    rw [h1ans]
    rfl
  · intro r hr
    rw [g2, f2] at hr
    exact hu r hr

/-! ## one fragment through the master's parser and `extract_measurements` -/
section
open Dnp3.Master Dnp3.Proofs.C02Master

/-- the items of a `handle_*` call -/
def callItems : MOut → List (Nat × List Nat)
  | .deliverHdr _ _ _ _ items => items
  | _ => []

theorem runCalls_items (who : Who) (rs : List (List SObj)) :
    (rs.map (runCall who)).flatMap callItems = rs.flatten.map (fun o => (o.idx, stObjBytes o)) := by
  induction rs with
  | nil => rfl
  | cons r rs ih =>
    simp only [List.map_cons, List.flatMap_cons, List.flatten_cons, List.map_append, ih]
    congr 1
    cases r <;> rfl

/-- the handler calls for the static objects `ws` of one fragment: one per run of each queue entry's objects -/
def fragCalls (who : Who) (ws : List (List SObj)) : List MOut := (ws.flatMap runs).map (runCall who)

theorem fragCalls_items (who : Who) (ws : List (List SObj)) :
    (fragCalls who ws).flatMap callItems = ws.flatten.map (fun o => (o.idx, stObjBytes o)) := by
  unfold fragCalls
  rw [runCalls_items]
  congr 1
  induction ws with
  | nil => rfl
  | cons w ws ih => simp only [List.flatMap_cons, List.flatten_append, List.flatten_cons, ih, runs_flatten]

/-- parser ∘ range writer for the static part of one fragment -/
theorem parse_frag (ws : List (List SObj)) (hp : ∀ os ∈ ws, ∀ o ∈ os, Plain o ∧ o.idx < 65536) :
    ∀ f, (ws.flatMap (encodeStatic none)).length ≤ f →
      parseRespObjects f (ws.flatMap (encodeStatic none)) = some ((ws.flatMap runs).map runHdr) := by
  induction ws with
  | nil => intro f _; exact parse_nil f
  | cons os ws ih =>
    intro f hf
    simp only [List.flatMap_cons, List.map_append] at hf ⊢
    exact parse_encodeStatic _ os (Nat.le_refl _) (hp os (List.mem_cons_self ..)) _ _
      (ih (fun x hx => hp x (List.mem_cons_of_mem _ hx))) f hf

theorem deliver_frag (who : Who) (ws : List (List SObj)) (hp : ∀ os ∈ ws, ∀ o ∈ os, Plain o ∧ o.idx < 65536)
    (a : Master.Acc) :
    ((ws.flatMap runs).map runHdr).foldl (fun a h => deliverHeader a who h) a = (a.1, a.2 ++ fragCalls who ws) := by
  apply foldl_deliver_runs
  intro r hr
  obtain ⟨os, hos, hr⟩ := List.mem_flatMap.mp hr
  exact runs_ok _ os (Nat.le_refl _) (fun o ho => (hp os hos o ho).1) r hr

end

/-! ## the outstation session: READ from idle, CONFIRM of a non-final fragment -/
section
open Dnp3.Proofs.Iin Dnp3.Proofs.Frame Dnp3.Proofs.C02Session

theorem classify_confirm (s : OState) (f : Frag) (ctrl : AppCtrl) (objects : Except Nat (List ObjHdr))
    (hu : ctrl.uns = false) : classify s f ctrl 0 objects = .solConfirm ctrl.seq := by
  unfold classify
  simp [hu]

/-- the accumulator when the confirm of a solicited fragment has been matched and the events released -/
def confirmed (a : Acc) (ecsn : Nat) : Acc :=
  clearWrittenEvents ({ onLinkActivity a.1 with pending := none, lastBroadcast := none },
    a.2 ++ [.cb (.solConfirmed ecsn)])

theorem solWait_confirm_unfold (a : Acc) (sr : Series) (dl : Nat) (cont : SolCont) (f : Frag) (ctrl : AppCtrl)
    (objects : Except Nat (List ObjHdr)) (raw : List Nat)
    (hpop : popRequest a.1 = (a.1, .request f ctrl 0 objects raw))
    (huns : ctrl.uns = false) (hseq : ctrl.seq = sr.ecsn) (hfin : sr.fin = false) :
    solWaitOnFragment a sr dl cont =
      (match writeSolicited ((formatReadResponse (confirmed a sr.ecsn).1 false (seq4Next sr.ecsn) 0).1, (confirmed a sr.ecsn).2) f.src
          (formatReadResponse (confirmed a sr.ecsn).1 false (seq4Next sr.ecsn) 0).2.1 with
       | none => die (confirmed a sr.ecsn)
       | some (a6, r') =>
         match (formatReadResponse (confirmed a sr.ecsn).1 false (seq4Next sr.ecsn) 0).2.2 with
         | none => resumeAfterSol ({ a6.1 with lastReq := a6.1.lastReq.map (fun lr => { lr with response := some r' }) }, a6.2) cont
         | some sr' => .blocked ({ ({ a6.1 with lastReq := a6.1.lastReq.map (fun lr => { lr with response := some r' }) } : OState) with
                                    mode := .solWait sr' (a6.1.now + a6.1.cfg.ctimeout) cont }, a6.2)) := by
  unfold solWaitOnFragment
  rw [hpop]
  simp only [classify_confirm _ _ _ _ huns, hseq, ne_eq, not_true_eq_false, if_false, hfin, Bool.false_eq_true]
  rfl

theorem writeAt_length (buf : List Nat) (off : Nat) (data : List Nat) (h : off + data.length ≤ buf.length) :
    (writeAt buf off data).length = buf.length := by
  unfold writeAt
  simp only [List.length_append, List.length_take, List.length_drop]
  omega

theorem iin2Of_low (o c : Bool) : (0 ||| iin2Of o c) &&& 7 = 0 := by
  cases o <;> cases c <;> rfl

/-- what the confirm of a non-final fragment makes `sol_confirm_wait` do -/
theorem solWait_confirm (a : Acc) (sr : Series) (dl : Nat) (cont : SolCont) (f : Frag) (ctrl : AppCtrl)
    (objects : Except Nat (List ObjHdr)) (raw : List Nat)
    (hpop : popRequest a.1 = (a.1, .request f ctrl 0 objects raw))
    (huns : ctrl.uns = false) (hseq : ctrl.seq = sr.ecsn) (hfin : sr.fin = false)
    (hbuf : a.1.cfg.sol ≤ a.1.solBuf.length) (h4 : 4 ≤ a.1.cfg.sol)
    (c1 c2 c3 : Bool)
    (hu : (a.1.db.clearWritten.1.writeResponse (a.1.cfg.sol - 4)).1.unwrittenClasses = some (c1, c2, c3)) :
    ∃ (s' : OState) (i1 i2 : Nat), i2 &&& 7 = 0 ∧
      s'.db = (a.1.db.clearWritten.1.writeResponse (a.1.cfg.sol - 4)).1 ∧ s'.cfg = a.1.cfg ∧ s'.pending = none ∧
      s'.lastBroadcast = none ∧ s'.now = a.1.now ∧ s'.solBuf.length = a.1.solBuf.length ∧ s'.mode = a.1.mode ∧
      solWaitOnFragment a sr dl cont =
        (if ((a.1.db.clearWritten.1.writeResponse (a.1.cfg.sol - 4)).2.2.1 ||
              !(a.1.db.clearWritten.1.writeResponse (a.1.cfg.sol - 4)).2.2.2) = true then
           .blocked ({ s' with mode := (.solWait ⟨seq4Next sr.ecsn, (a.1.db.clearWritten.1.writeResponse (a.1.cfg.sol - 4)).2.2.2⟩
              (s'.now + s'.cfg.ctimeout) cont) },
             a.2 ++ [.cb (.solConfirmed sr.ecsn), .cb .beginConfirm] ++
              a.1.db.clearWritten.2.1.map (fun id => OOut.cb (.eventCleared id)) ++
              [.cb (.endConfirm a.1.db.clearWritten.2.2.1 a.1.db.clearWritten.2.2.2.1 a.1.db.clearWritten.2.2.2.2),
               .tx f.src ([(⟨false, (a.1.db.clearWritten.1.writeResponse (a.1.cfg.sol - 4)).2.2.2,
                   (a.1.db.clearWritten.1.writeResponse (a.1.cfg.sol - 4)).2.2.1 ||
                     !(a.1.db.clearWritten.1.writeResponse (a.1.cfg.sol - 4)).2.2.2, false, seq4Next sr.ecsn⟩ : AppCtrl).toNat,
                   0x81, i1, i2] ++ (a.1.db.clearWritten.1.writeResponse (a.1.cfg.sol - 4)).2.1)])
         else resumeAfterSol (s',
             a.2 ++ [.cb (.solConfirmed sr.ecsn), .cb .beginConfirm] ++
              a.1.db.clearWritten.2.1.map (fun id => OOut.cb (.eventCleared id)) ++
              [.cb (.endConfirm a.1.db.clearWritten.2.2.1 a.1.db.clearWritten.2.2.2.1 a.1.db.clearWritten.2.2.2.2),
               .tx f.src ([(⟨false, (a.1.db.clearWritten.1.writeResponse (a.1.cfg.sol - 4)).2.2.2,
                   (a.1.db.clearWritten.1.writeResponse (a.1.cfg.sol - 4)).2.2.1 ||
                     !(a.1.db.clearWritten.1.writeResponse (a.1.cfg.sol - 4)).2.2.2, false, seq4Next sr.ecsn⟩ : AppCtrl).toNat,
                   0x81, i1, i2] ++ (a.1.db.clearWritten.1.writeResponse (a.1.cfg.sol - 4)).2.1)]) cont) := by
  rw [solWait_confirm_unfold a sr dl cont f ctrl objects raw hpop huns hseq hfin]
  have hcapacity := (Dnp3.Props.Db.response_within_capacity a.1.db.clearWritten.1 (a.1.cfg.sol - 4)).1
  generalize hw : a.1.db.clearWritten.1.writeResponse (a.1.cfg.sol - 4) = w at hu hcapacity ⊢
  obtain ⟨db2, bytes, hasEv, complete⟩ := w
  simp only [] at hu hcapacity ⊢
  have hconf : confirmed a sr.ecsn = ({ onLinkActivity a.1 with pending := none, lastBroadcast := none, db := a.1.db.clearWritten.1 },
      a.2 ++ [.cb (.solConfirmed sr.ecsn)] ++ ([.cb .beginConfirm] ++ a.1.db.clearWritten.2.1.map (fun id => OOut.cb (.eventCleared id)) ++
        [.cb (.endConfirm a.1.db.clearWritten.2.2.1 a.1.db.clearWritten.2.2.2.1 a.1.db.clearWritten.2.2.2.2)])) := by
    unfold confirmed
    rw [clearWrittenEvents_eq]
    rfl
  rw [hconf]
  simp only [formatReadResponse]
  have hcfg : (onLinkActivity a.1).cfg = a.1.cfg := rfl
  simp only [hcfg, hw]
  generalize hws : writeSolicited _ _ _ = ws
  cases ws with
  | none =>
    have := Dnp3.Proofs.NoPanicOutstation.writeSolicited_none hws
    simp only [] at this
    rw [hu] at this
    cases this
  | some p =>
    obtain ⟨a6, r'⟩ := p
    obtain ⟨d1, d2, d3, _, hi1, hi2, hfn, hsz, hct, ha6⟩ := writeSolicited_eq _ _ _ _ _ hws
    simp only [afterIin] at hct ha6
    simp only [] at hi1 hi2 hfn hsz hct ha6
    have hct' : r'.ctrl = ⟨false, complete, hasEv || !complete, false, seq4Next sr.ecsn⟩ := by
      rw [hct]; simp
    have hsb : (onLinkActivity a.1).solBuf = a.1.solBuf := rfl
    have hlen : 4 + bytes.length ≤ a.1.solBuf.length := by omega
    have htx : (writeAt (writeAt a.1.solBuf 4 bytes) 0 (respHeader r')).take (max 4 r'.size) =
        [(⟨false, complete, hasEv || !complete, false, seq4Next sr.ecsn⟩ : AppCtrl).toNat, 129, r'.iin1, r'.iin2] ++ bytes := by
      rw [hsz, Dnp3.Proofs.C02Session.writeAt_hdr _ _ _ rfl hlen]
      simp only [respHeader, hct', hfn]
    refine ⟨{ a6.1 with lastReq := a6.1.lastReq.map (fun lr => { lr with response := some r' }) }, r'.iin1, r'.iin2,
      ?_, ?_, ?_, ?_, ?_, ?_, ?_, ?_, ?_⟩
    · rw [hi2]; exact iin2Of_low _ _
    · subst ha6; rfl
    · subst ha6; rfl
    · subst ha6; rfl
    · subst ha6; rfl
    · subst ha6; rfl
    · subst ha6
      show (writeAt (writeAt a.1.solBuf 4 bytes) 0 (respHeader r')).length = _
      rw [writeAt_length _ _ _ (by rw [writeAt_length _ _ _ (by omega)]; simp [respHeader]; omega),
        writeAt_length _ _ _ (by omega)]
    · subst ha6; rfl
    · subst ha6
      by_cases hc : (hasEv || !complete) = true
      · simp only [if_pos hc]
        show StepRes.blocked (_, _ ++ [OOut.tx f.src ((writeAt (writeAt a.1.solBuf 4 bytes) 0 (respHeader r')).take (max 4 r'.size))]) = _
        rw [htx]
        simp only [List.append_assoc, List.cons_append, List.nil_append]
      · simp only [if_neg hc]
        show resumeAfterSol (_, _ ++ [OOut.tx f.src ((writeAt (writeAt a.1.solBuf 4 bytes) 0 (respHeader r')).take (max 4 r'.size))]) cont = _
        rw [htx]
        simp only [List.append_assoc, List.cons_append, List.nil_append]

theorem ofNat_confirm : ∀ e : Fin 16, AppCtrl.ofNat (0xC0 + e.val) = ⟨true, true, false, false, e.val⟩ := by decide

theorem parseRequest_confirm (e : Nat) (he : e < 16) :
    parseRequest [0xC0 + e, 0] = .request ⟨true, true, false, false, e⟩ 0 (parseObjects false 0 []) [] := by
  have := ofNat_confirm ⟨e, he⟩
  simp only [] at this
  simp [parseRequest, this, knownFunction]

/-- the outstation awaits the confirm of a non-final fragment of a READ response with sequence number `e`;
    nothing is pending; `db` is its database -/
structure OWait (cfg : OCfg) (s : OState) (e : Nat) (db : Db) : Prop where
  hmode : ∃ dl cont, s.mode = .solWait ⟨e, false⟩ dl cont
  hpending : s.pending = none
  hcfg : s.cfg = cfg
  hbuf : cfg.sol ≤ s.solBuf.length
  hdb : s.db = db

open Dnp3.Proofs.Skel in
/-- **one step of the outstation session model on the CONFIRM it awaits**: the events written are released,
    the next fragment is formatted from the database and transmitted -/
theorem step_confirm (env : OEnv) (cfg : OCfg) (s : OState) (e : Nat) (db : Db) (src dst : Nat)
    (hw : OWait cfg s e db) (he : e < 16)
    (hdst : dst = env.outstation) (hsrc : src < 0xFFF0) (hrx : 2 ≤ env.rx)
    (hmaster : cfg.anymaster = true ∨ src = cfg.master) (h4 : 4 ≤ cfg.sol)
    (c1 c2 c3 : Bool) (hu : (db.clearWritten.1.writeResponse (cfg.sol - 4)).1.unwrittenClasses = some (c1, c2, c3)) :
    ∃ (i1 i2 : Nat) (s' : OState) (rest : List OOut), i2 &&& 7 = 0 ∧
      Outstation.step env s (.rx src dst [0xC0 + e, 0]) =
        (s', [.cb (.solConfirmed e), .cb .beginConfirm] ++ db.clearWritten.2.1.map (fun id => OOut.cb (.eventCleared id)) ++
          [.cb (.endConfirm db.clearWritten.2.2.1 db.clearWritten.2.2.2.1 db.clearWritten.2.2.2.2),
           .tx src ([(⟨false, (db.clearWritten.1.writeResponse (cfg.sol - 4)).2.2.2,
               (db.clearWritten.1.writeResponse (cfg.sol - 4)).2.2.1 || !(db.clearWritten.1.writeResponse (cfg.sol - 4)).2.2.2,
               false, seq4Next e⟩ : AppCtrl).toNat, 0x81, i1, i2] ++ (db.clearWritten.1.writeResponse (cfg.sol - 4)).2.1)] ++ rest) ∧
      ((db.clearWritten.1.writeResponse (cfg.sol - 4)).2.2.2 = false →
        rest = [] ∧ OWait cfg s' (seq4Next e) (db.clearWritten.1.writeResponse (cfg.sol - 4)).1) := by
  obtain ⟨⟨dl, cont, hmode⟩, hpend, hcfg, hbuf, hdb⟩ := hw
  subst hcfg hdb
  -- the state in which the session looks at the fragment
  let f : Frag := ⟨s.frameId, src, none, [0xC0 + e, 0]⟩
  let s1 : OState := { s with frameId := (s.frameId + 1) % 4294967296, pending := some f }
  have hstep : Outstation.step env s (.rx src dst [0xC0 + e, 0]) =
      finishStep (settle 8 (solWaitOnFragment (s1, []) ⟨e, false⟩ dl cont)) := by
    unfold Outstation.step
    have hnd : ¬ (s.mode matches .dead) := by rw [hmode]; simp
    simp only [hdst, if_true]
    have hg : ¬ (src ≥ 0xFFF0 ∨ ([0xC0 + e, 0] : List Nat).isEmpty = true ∨ ([0xC0 + e, 0] : List Nat).length > env.rx) := by
      simp only [List.isEmpty_cons, Bool.false_eq_true, List.length_cons, List.length_nil, false_or, not_or]
      omega
    simp only [hg, if_false, Option.isSome_none, Bool.false_eq_true, false_and]
    unfold dispatch
    simp only [hmode, Option.isSome_some, if_true, s1, f, Bool.false_eq_true, if_false]
  have hpop : popRequest s1 = (s1, .request f ⟨true, true, false, false, e⟩ 0 (parseObjects false 0 []) []) := by
    unfold popRequest
    have hm : ¬ (!s.cfg.anymaster ∧ src ≠ s.cfg.master) := by
      rcases hmaster with h | h
      · simp [h]
      · simp [h]
    simp only [s1, f, hm, if_false, parseRequest_confirm e he]
  obtain ⟨s2, i1, i2, hi2, hdb2, hcfg2, hpend2, _, hnow2, hlen2, hmode2, heq⟩ :=
    solWait_confirm (s1, []) ⟨e, false⟩ dl cont f ⟨true, true, false, false, e⟩ (parseObjects false 0 []) [] hpop rfl rfl rfl
      hbuf h4 c1 c2 c3 hu
  rw [hstep, heq]
  have e1 : s1.db = s.db := rfl
  have e2 : s1.cfg = s.cfg := rfl
  have e3 : f.src = src := rfl
  have e4 : s1.solBuf = s.solBuf := rfl
  simp only [List.nil_append, e1, e2, e3, e4] at hdb2 hcfg2 hlen2 ⊢
  by_cases hc : ((s.db.clearWritten.1.writeResponse (s.cfg.sol - 4)).2.2.1 ||
      !(s.db.clearWritten.1.writeResponse (s.cfg.sol - 4)).2.2.2) = true
  · rw [if_pos hc]
    refine ⟨i1, i2, { s2 with mode := (.solWait ⟨seq4Next e, (s.db.clearWritten.1.writeResponse (s.cfg.sol - 4)).2.2.2⟩
        (s2.now + s2.cfg.ctimeout) cont) }, [], hi2, ?_, ?_⟩
    · unfold settle
      simp only [hpend2, Option.isSome_none, Bool.and_false, Bool.false_eq_true, if_false, finishStep, List.append_nil]
    · intro hcomp
      refine ⟨rfl, ⟨s2.now + s2.cfg.ctimeout, cont, ?_⟩, hpend2, hcfg2, ?_, hdb2⟩
      · show Mode.solWait _ _ _ = _
        rw [hcomp]
      · show s.cfg.sol ≤ s2.solBuf.length
        rw [hlen2]; exact hbuf
  · rw [if_neg hc]
    generalize houts : ([OOut.cb (Cb.solConfirmed e), OOut.cb Cb.beginConfirm] ++
        List.map (fun id => OOut.cb (Cb.eventCleared id)) s.db.clearWritten.2.1 ++ _ : List OOut) = outs
    have hp0 : PendOk none ((s2, outs) : Acc) := Or.inl hpend2
    have hr := settle_reach hp0 8 _ (resumeAfterSol_reach hp0 _ cont (Star.refl _))
    obtain ⟨_, _, l, hl⟩ := Reach.base hr
    refine ⟨i1, i2, (finishStep (settle 8 (resumeAfterSol (s2, outs) cont))).1, l, hi2, ?_, ?_⟩
    · refine Prod.ext rfl ?_
      show _ = _
      rw [hl, ← houts]
    · intro hcomp
      rw [hcomp] at hc
      simp at hc

/-- `read_from_idle` with the series opened and the fields the next round needs -/
theorem read_from_idle_series (a : Acc) (f : Frag) (ctrl : AppCtrl) (func : Nat) (objects : Except Nat (List ObjHdr))
    (raw : List Nat) (hs : List ObjHdr)
    (hcl : classify a.1 f ctrl func objects = .newRead hs ∨ ∃ x, classify a.1 f ctrl func objects = .repeatRead x hs)
    (hbuf : a.1.cfg.sol ≤ a.1.solBuf.length) (h4 : 4 ≤ a.1.cfg.sol) (hnb : a.1.lastBroadcast = none)
    (a' : Acc) (series : Option Series)
    (h : handleRequestFromIdle a f ctrl func objects raw = some (a', series)) :
    ∃ i1 i2, i2 &&& 7 = 0 ∧
      a'.2 = a.2 ++ [.tx f.src ([(⟨true, ((dbSelectAll a.1.db hs).1.writeResponse (a.1.cfg.sol - 4)).2.2.2,
          ((dbSelectAll a.1.db hs).1.writeResponse (a.1.cfg.sol - 4)).2.2.1 ||
            !((dbSelectAll a.1.db hs).1.writeResponse (a.1.cfg.sol - 4)).2.2.2, false,
          ctrl.seq⟩ : AppCtrl).toNat, 0x81, i1, (dbSelectAll a.1.db hs).2 ||| i2] ++
        ((dbSelectAll a.1.db hs).1.writeResponse (a.1.cfg.sol - 4)).2.1)] ∧
      a'.1.db = ((dbSelectAll a.1.db hs).1.writeResponse (a.1.cfg.sol - 4)).1 ∧
      series = (if (((dbSelectAll a.1.db hs).1.writeResponse (a.1.cfg.sol - 4)).2.2.1 ||
            !((dbSelectAll a.1.db hs).1.writeResponse (a.1.cfg.sol - 4)).2.2.2) = true
          then some ⟨ctrl.seq, ((dbSelectAll a.1.db hs).1.writeResponse (a.1.cfg.sol - 4)).2.2.2⟩ else none) ∧
      a'.1.cfg = a.1.cfg ∧ a'.1.pending = a.1.pending ∧ a'.1.solBuf.length = a.1.solBuf.length ∧
      a'.1.mode = a.1.mode ∧ a'.1.now = a.1.now := by
  unfold handleRequestFromIdle at h
  have h' : (match (some ((let (db, iin2) := dbSelectAll a.1.db hs
        let (s, r, series) := formatReadResponse { a.1 with db := db } true ctrl.seq iin2
        ((s, a.2), some (⟨ctrl.seq, f.data, some r, series⟩, false))) : Acc × Option (LastReq × Bool)) : Option (Acc × Option (LastReq × Bool))) with
      | none => none
      | some (a, none) => some (a, none)
      | some (a, some (lr, echo)) =>
        match lr.response with
        | none => some (({ a.1 with lastReq := some lr }, a.2), lr.series)
        | some r =>
          if echo then
            let a := repeatSolicited a f.src r
            some (({ a.1 with lastReq := some lr }, a.2), lr.series)
          else
          match writeSolicited a f.src r with
          | none => none
          | some (a, r) =>
            let series := if r.ctrl.con ∧ lr.series.isNone then some ⟨r.ctrl.seq, true⟩ else lr.series
            some (({ a.1 with lastReq := some { lr with response := some r, series := series } }, a.2), series)) =
      some (a', series) := by
    rcases hcl with hcl | ⟨x, hcl⟩ <;> (rw [hcl] at h; exact h)
  clear h hcl
  have h := h'
  clear h'
  simp only [formatReadResponse] at h
  generalize hsel : dbSelectAll a.1.db hs = sel at h ⊢
  obtain ⟨db1, iin2⟩ := sel
  simp only [] at h ⊢
  have hcapacity := (Dnp3.Props.Db.response_within_capacity db1 (a.1.cfg.sol - 4)).1
  generalize hw : db1.writeResponse (a.1.cfg.sol - 4) = w at h hcapacity ⊢
  obtain ⟨db2, bytes, hasEv, complete⟩ := w
  simp only [writeSolicited, Bool.false_eq_true, if_false] at h hcapacity ⊢
  split at h
  · cases h
  · rename_i a2 r heq
    split at heq
    · cases heq
    · rename_i s1 i1 i2 hg
      simp only [Option.some.injEq, Prod.mk.injEq] at heq h
      obtain ⟨rfl, rfl⟩ := heq
      obtain ⟨rfl, rfl⟩ := h
      obtain ⟨_, _, _, f4, _⟩ := getResponseIin_frame _ _ _ _ hg
      obtain ⟨d1, d2, d3, _, hs1, _, _⟩ := Dnp3.Proofs.Iin.getResponseIin_some _ _ _ _ hg
      have haft : afterIin { a.1 with db := db2, solBuf := writeAt a.1.solBuf 4 bytes } =
          { a.1 with db := db2, solBuf := writeAt a.1.solBuf 4 bytes } := by
        unfold afterIin
        simp only [hnb]
      rw [haft] at hs1
      subst hs1
      have hlen : 4 + bytes.length ≤ a.1.solBuf.length := by omega
      simp only [hnb, reduceCtorEq, if_false]
      refine ⟨0 ||| i1, i2, f4, ?_, rfl, ?_, rfl, rfl, ?_, rfl, rfl⟩
      · simp only [repeatSolicited, emit, respHeader]
        rw [writeAt_hdr _ _ _ rfl hlen]
      · by_cases hc : (hasEv || !complete) = true
        · simp [hc]
        · simp [hc]
      · show (writeAt (writeAt a.1.solBuf 4 bytes) 0 _).length = _
        rw [writeAt_length _ _ _ (by rw [writeAt_length _ _ _ (by omega)]; simp [respHeader]; omega),
          writeAt_length _ _ _ (by omega)]

theorem classify_read (s : OState) (f : Frag) (ctrl : AppCtrl) (hs : List ObjHdr) (hb : f.broadcast = none) :
    classify s f ctrl 1 (.ok hs) = .newRead hs ∨ ∃ x, classify s f ctrl 1 (.ok hs) = .repeatRead x hs := by
  unfold classify
  simp only [hb, Nat.succ_ne_zero, if_false]
  split
  · right; exact ⟨_, rfl⟩
  · left; rfl

open Dnp3.Proofs.Skel Dnp3.Proofs.NoPanicOutstation in
/-- **one step of the outstation session model on a READ request received while idle**: the selections are
    made, the first fragment is formatted from the database and transmitted -/
theorem step_read_first (env : OEnv) (cfg : OCfg) (s : OState) (next : NextIdle) (src dst : Nat) (req : List Nat)
    (ctrl : AppCtrl) (hs : List ObjHdr) (raw : List Nat)
    (hmode : s.mode = .idle next) (hcfg : s.cfg = cfg)
    (hbuf : cfg.sol ≤ s.solBuf.length) (h4 : 4 ≤ cfg.sol) (hnb : s.lastBroadcast = none)
    (hcnt : CountersExact s.db)
    (hdst : dst = env.outstation) (hsrc : src < 0xFFF0) (hne : req.isEmpty = false) (hrx : req.length ≤ env.rx)
    (hmaster : cfg.anymaster = true ∨ src = cfg.master)
    (hreq : parseRequest req = .request ctrl 1 (.ok hs) raw) :
    ∃ (i1 i2 : Nat) (s' : OState) (rest : List OOut), i2 &&& 7 = 0 ∧
      Outstation.step env s (.rx src dst req) =
        (s', [.tx src ([(⟨true, ((dbSelectAll s.db hs).1.writeResponse (cfg.sol - 4)).2.2.2,
             ((dbSelectAll s.db hs).1.writeResponse (cfg.sol - 4)).2.2.1 || !((dbSelectAll s.db hs).1.writeResponse (cfg.sol - 4)).2.2.2,
             false, ctrl.seq⟩ : AppCtrl).toNat, 0x81, i1, (dbSelectAll s.db hs).2 ||| i2] ++
             ((dbSelectAll s.db hs).1.writeResponse (cfg.sol - 4)).2.1)] ++ rest) ∧
      (((dbSelectAll s.db hs).1.writeResponse (cfg.sol - 4)).2.2.2 = false →
        rest = [.cb (.solWait ctrl.seq)] ∧ OWait cfg s' ctrl.seq ((dbSelectAll s.db hs).1.writeResponse (cfg.sol - 4)).1) := by
  subst hcfg
  let f : Frag := ⟨s.frameId, src, none, req⟩
  let s1 : OState := { s with frameId := (s.frameId + 1) % 4294967296, pending := some f }
  let a0 : Acc := (onLinkActivity { s1 with notified := false, pending := none }, [])
  have hpop : popRequest { s1 with notified := false } = ({ s1 with notified := false }, .request f ctrl 1 (.ok hs) raw) := by
    unfold popRequest
    have hm : ¬ (!s.cfg.anymaster ∧ src ≠ s.cfg.master) := by
      rcases hmaster with h | h
      · simp [h]
      · simp [h]
    simp only [s1, f, hm, if_false, hreq]
  have hdisp : dispatch (s1, []) = runPass passFuel (s1, []) := by
    unfold dispatch
    have hm1 : (s1, ([] : List OOut)).1.mode = .idle next := hmode
    rw [hm1]
    have hw : idleWakes (s1, ([] : List OOut)).1 = true := by simp [idleWakes, s1]
    simp only [hw, if_true]
  have hpass : runPass passFuel (s1, []) = (match handleRequestFromIdle a0 f ctrl 1 (.ok hs) raw with
        | none => die a0
        | some (a, some series) => .blocked (enterSolWait a series .fromRequest)
        | some (a, none) => afterRequest (runPass 63) a) := by
    show runPass (63 + 1) (s1, []) = _
    rw [runPass]
    dsimp only
    rw [hpop]
    rfl
  have hstep : Outstation.step env s (.rx src dst req) =
      finishStep (settle 8 (match handleRequestFromIdle a0 f ctrl 1 (.ok hs) raw with
        | none => die a0
        | some (a, some series) => .blocked (enterSolWait a series .fromRequest)
        | some (a, none) => afterRequest (runPass 63) a)) := by
    rw [← hpass, ← hdisp]
    unfold Outstation.step
    simp only [hdst, if_true]
    have hg : ¬ (src ≥ 0xFFF0 ∨ req.isEmpty = true ∨ req.length > env.rx) := by
      rw [hne]
      simp only [Bool.false_eq_true, false_or, not_or]
      omega
    simp only [hg, if_false, Option.isSome_none, Bool.false_eq_true, false_and, hmode, s1, f]
  rw [hstep]
  cases hres : handleRequestFromIdle a0 f ctrl 1 (.ok hs) raw with
  | none =>
    exfalso
    have := (handleRequestFromIdle_spec a0 f ctrl 1 (.ok hs) raw).none hres
    exact no_counterUnderflow hcnt this
  | some p =>
    obtain ⟨a', series⟩ := p
    obtain ⟨i1, i2, hi2, htx, hdb, hser, hcfg', hpend', hlen', hmode', hnow'⟩ :=
      read_from_idle_series a0 f ctrl 1 (.ok hs) raw hs (classify_read _ _ _ _ rfl) hbuf h4 hnb a' series hres
    have e1 : a0.1.db = s.db := rfl
    have e2 : a0.1.cfg = s.cfg := rfl
    have e3 : f.src = src := rfl
    have e4 : a0.2 = [] := rfl
    have e5 : a0.1.pending = none := rfl
    have e6 : a0.1.solBuf = s.solBuf := rfl
    simp only [e1, e2, e3, e4, e5, e6, List.nil_append] at htx hdb hser hcfg' hlen' hpend'
    by_cases hc : (((dbSelectAll s.db hs).1.writeResponse (s.cfg.sol - 4)).2.2.1 ||
        !((dbSelectAll s.db hs).1.writeResponse (s.cfg.sol - 4)).2.2.2) = true
    · rw [if_pos hc] at hser
      subst hser
      refine ⟨i1, i2, (enterSolWait a' ⟨ctrl.seq, ((dbSelectAll s.db hs).1.writeResponse (s.cfg.sol - 4)).2.2.2⟩ .fromRequest).1,
        [.cb (.solWait ctrl.seq)], hi2, ?_, ?_⟩
      · simp only []
        unfold settle
        have hp : (enterSolWait a' ⟨ctrl.seq, ((dbSelectAll s.db hs).1.writeResponse (s.cfg.sol - 4)).2.2.2⟩ .fromRequest).1.pending = none := hpend'
        simp only [hp, Option.isSome_none, Bool.and_false, Bool.false_eq_true, if_false, finishStep]
        refine Prod.ext rfl ?_
        show a'.2 ++ [OOut.cb (.solWait ctrl.seq)] = _
        rw [htx]
      · intro hcomp
        refine ⟨rfl, ⟨a'.1.now + a'.1.cfg.ctimeout, .fromRequest, ?_⟩, hpend', hcfg', ?_, hdb⟩
        · show Mode.solWait _ _ _ = _
          rw [hcomp]
          rfl
        · show s.cfg.sol ≤ a'.1.solBuf.length
          rw [hlen']; exact hbuf
    · rw [if_neg hc] at hser
      subst hser
      simp only []
      have hp0 : PendOk none a' := Or.inl hpend'
      have hr := settle_reach hp0 8 _ (afterRequest_reach (runPass 63) (fun b hb => runPass_reach hp0 63 b hb) a' (Star.refl _))
      obtain ⟨_, _, l, hl⟩ := Reach.base hr
      refine ⟨i1, i2, (finishStep (settle 8 (afterRequest (runPass 63) a'))).1, l, hi2, ?_, ?_⟩
      · refine Prod.ext rfl ?_
        show _ = _
        rw [hl, htx]
      · intro hcomp
        rw [hcomp] at hc
        simp at hc

end

open Dnp3.Proofs.C02SeriesMaster
open Dnp3.Pair (masterAddr outstationAddr)

/-! ## the lock-step exchange over an ideal wire -/

/-- `k` applications of the 4-bit sequence successor -/
def seqAt (e : Nat) : Nat → Nat
  | 0 => e
  | k + 1 => seq4Next (seqAt e k)

theorem seq4Next_lt (e : Nat) (h : e < 16) : seq4Next e < 16 := by
  unfold seq4Next; split <;> omega

theorem seqAt_lt (e : Nat) (h : e < 16) (k : Nat) : seqAt e k < 16 := by
  induction k with
  | zero => exact h
  | succ k ih => exact seq4Next_lt _ ih

theorem seqAt_succ' (e k : Nat) : seqAt (seq4Next e) k = seqAt e (k + 1) := by
  induction k with
  | zero => rfl
  | succ k ih => simp only [seqAt, ih]

/-- the octets of a fragment of a READ response that carries no events: CON exactly when it is not final -/
def fragOct (fir fin : Bool) (e i1 i2 : Nat) (objs : List Nat) : List Nat :=
  [(⟨fir, fin, !fin, false, e⟩ : AppCtrl).toNat, 0x81, i1, i2] ++ objs

/-- **lock-step exchange of the non-final fragments of a READ response over an ideal wire.**
    `Exchange env who rt o m frag e calls oE mE fragE eE`: the outstation session is in state `o`, the master
    session in state `m`, the fragment `frag` (sequence number `e`) is in flight to the master.  Each round:
    `Master.step` on the fragment makes exactly the handler calls `deliverBegin, calls_k…, deliverEnd` and
    transmits the CONFIRM `[0xC0 + e, 0]`; `Outstation.step` on that CONFIRM transmits the next fragment first
    (the ideal wire hands each transmission to the peer, in order: (c)).  After `calls.length` rounds the states
    are `oE`, `mE` and `fragE` (sequence number `eE`) is in flight. -/
inductive Exchange (env : OEnv) (who : Master.Who) (rt : Master.ReadType) :
    OState → Master.MState → List Nat → Nat → List (List Master.MOut) → OState → Master.MState → List Nat → Nat → Prop
  | done (o : OState) (m : Master.MState) (frag : List Nat) (e : Nat) : Exchange env who rt o m frag e [] o m frag e
  | round (o o' oE : OState) (m m' mE : Master.MState) (frag frag' fragE : List Nat) (e eE c i1 i2 : Nat)
      (calls : List Master.MOut) (rest : List (List Master.MOut)) (oo : List OOut) :
      Master.step m (.rx outstationAddr masterAddr frag) =
        (m', [.deliverBegin who rt c i1 i2] ++ calls ++ [.deliverEnd who rt, .tx outstationAddr [0xC0 + e, 0]]) →
      Outstation.step env o (.rx masterAddr outstationAddr [0xC0 + e, 0]) = (o', oo) →
      (txFrags oo).head? = some (masterAddr, frag') →
      Exchange env who rt o' m' frag' (seq4Next e) rest oE mE fragE eE →
      Exchange env who rt o m frag e (calls :: rest) oE mE fragE eE

section
variable (env : OEnv) (cfg : OCfg) (db1 : Db) (t : Master.ReadTask)

/-- what the composition needs of the configuration and of the database after the request's selections -/
structure SeriesCtx : Prop where
  sorted : StaticSorted db1
  unsel : AllUnsel db1
  counters : CountersExact db1
  plain : ∀ o ∈ pending db1 db1.queue, Plain o ∧ o.idx < 65536
  haddr : env.outstation = outstationAddr
  hrx : 2 ≤ env.rx
  hmaster : cfg.anymaster = true ∨ masterAddr = cfg.master
  h4 : 4 ≤ cfg.sol
  hmax : cfg.sol ≤ 2048

variable {env cfg db1}

theorem dbAt_counters (cap : Nat) (db : Db) (h : CountersExact db) (k : Nat) : CountersExact (dbAt cap db k) := by
  induction k with
  | zero => exact h
  | succ k ih => exact counters_step _ .clear (counters_step _ (.write cap) ih)

theorem frag_facts (C : SeriesCtx env cfg db1) (k : Nat) :
    (fragW (cfg.sol - 4) db1 k).2.2.1 = false ∧
    (fragW (cfg.sol - 4) db1 k).2.1 = (fragObjs (cfg.sol - 4) db1 k).flatMap (encodeStatic none) ∧
    (∀ os ∈ fragObjs (cfg.sol - 4) db1 k, ∀ o ∈ os, Plain o ∧ o.idx < 65536) ∧
    CountersExact (dbAt (cfg.sol - 4) db1 k) ∧ CountersExact (fragW (cfg.sol - 4) db1 k).1 ∧
    AllUnsel (fragW (cfg.sol - 4) db1 k).1 ∧
    (fragW (cfg.sol - 4) db1 k).2.1.length ≤ cfg.sol - 4 := by
  obtain ⟨i1, i2, _⟩ := dbAt_inv (cfg.sol - 4) db1 C.sorted C.unsel k
  obtain ⟨w1, w2, w3⟩ := writeResponse_allUnsel (dbAt (cfg.sol - 4) db1 k) (cfg.sol - 4) i2
  have hcnt : CountersExact (dbAt (cfg.sol - 4) db1 k) := dbAt_counters _ _ C.counters k
  refine ⟨w2, w3, ?_, hcnt, counters_step _ (.write (cfg.sol - 4)) hcnt, ?_, (Dnp3.Props.Db.response_within_capacity _ _).1⟩
  · intro os hos o ho
    apply C.plain
    obtain ⟨_, _, h3⟩ := dbAt_inv (cfg.sol - 4) db1 C.sorted C.unsel (k + 1)
    rw [← h3]
    apply List.mem_append_left
    rw [List.range_succ, List.flatMap_append]
    apply List.mem_append_right
    simp only [List.flatMap_cons, List.flatMap_nil, List.append_nil]
    exact List.mem_flatten.mpr ⟨os, hos, ho⟩
  · intro r hr
    show r.st = .unselected
    apply i2 r
    rw [← w1]; exact hr

theorem headerCalls_frag (who : Master.Who) (ws : List (List SObj)) (hp : ∀ os ∈ ws, ∀ o ∈ os, Plain o ∧ o.idx < 65536) :
    ((ws.flatMap runs).map runHdr).flatMap (Dnp3.Proofs.C02Master.headerCalls who) = fragCalls who ws := by
  have h1 := deliver_frag who ws hp (default, [])
  have h2 := foldl_deliverHeader_eq who ((ws.flatMap runs).map runHdr) (default, [])
  rw [h1] at h2
  simpa using (congrArg Prod.snd h2).symm

theorem txFrags_confirmOuts (e : Nat) (c1 c2 c3 : Nat) (dst : Nat) (b : List Nat) (rest : List OOut) :
    (txFrags ([OOut.cb (.solConfirmed e), .cb .beginConfirm] ++ ([] : List Nat).map (fun id => OOut.cb (.eventCleared id)) ++
      [.cb (.endConfirm c1 c2 c3), .tx dst b] ++ rest)).head? = some (dst, b) := by
  simp [txFrags]

/-- one round of the exchange: the master receives the non-final fragment `k`, the outstation its CONFIRM -/
theorem one_round (C : SeriesCtx env cfg db1) (k : Nat) (o : OState) (mst : Master.MState) (e i1 i2 : Nat) (isFirst : Bool)
    (ho : OWait cfg o e (fragW (cfg.sol - 4) db1 k).1) (hm : MWait mst outstationAddr t e isFirst)
    (he : e < 16) (hi2 : i2 &&& 7 = 0) :
    ∃ (m' : Master.MState) (o' : OState) (oo : List OOut) (c j1 j2 : Nat), j2 &&& 7 = 0 ∧
      Master.step mst (.rx outstationAddr masterAddr (fragOct isFirst false e i1 i2 (fragW (cfg.sol - 4) db1 k).2.1)) =
        (m', [.deliverBegin (Master.whoOf outstationAddr t) (Master.rtOf t) c i1 i2] ++
          fragCalls (Master.whoOf outstationAddr t) (fragObjs (cfg.sol - 4) db1 k) ++
          [.deliverEnd (Master.whoOf outstationAddr t) (Master.rtOf t), .tx outstationAddr [0xC0 + e, 0]]) ∧
      MWait m' outstationAddr t (seq4Next e) false ∧
      Outstation.step env o (.rx masterAddr outstationAddr [0xC0 + e, 0]) = (o', oo) ∧
      (txFrags oo).head? = some (masterAddr,
        fragOct false (fragW (cfg.sol - 4) db1 (k + 1)).2.2.2 (seq4Next e) j1 j2 (fragW (cfg.sol - 4) db1 (k + 1)).2.1) ∧
      ((fragW (cfg.sol - 4) db1 (k + 1)).2.2.2 = false → OWait cfg o' (seq4Next e) (fragW (cfg.sol - 4) db1 (k + 1)).1) := by
  obtain ⟨f1, f2, f3, _, f5, f6, f7⟩ := frag_facts C k
  obtain ⟨g1, g2, g3, _, g5, _, _⟩ := frag_facts C (k + 1)
  -- the master
  have hctrl : AppCtrl.ofNat (AppCtrl.toNat ⟨isFirst, false, true, false, e⟩) = ⟨isFirst, false, true, false, e⟩ :=
    Dnp3.Proofs.C02Session.ofNat_toNat isFirst false true false ⟨e, he⟩
  have hparse : Master.parseRespObjects (fragW (cfg.sol - 4) db1 k).2.1.length (fragW (cfg.sol - 4) db1 k).2.1 =
      some (((fragObjs (cfg.sol - 4) db1 k).flatMap runs).map runHdr) := by
    rw [f2]
    exact parse_frag _ f3 _ (Nat.le_refl _)
  have hmax := C.hmax
  obtain ⟨m', hstep, hm'⟩ := step_read_nonfinal mst outstationAddr t e isFirst _ i1 i2 _ _ hm hctrl hi2 hparse
    (by decide) (by omega)
  rw [headerCalls_frag _ _ f3] at hstep
  -- the outstation
  obtain ⟨b1, b2, b3, hu, _⟩ := class_bits_exact_of_counters _ g5
  obtain ⟨j1, j2, o', rest, hj2, hos, hnext⟩ := step_confirm env cfg o e (fragW (cfg.sol - 4) db1 k).1 masterAddr outstationAddr
    ho he C.haddr.symm (by decide) C.hrx C.hmaster C.h4 b1 b2 b3 hu
  have hcl := (clearWritten_allUnsel _ f6).2
  have hw : (fragW (cfg.sol - 4) db1 k).1.clearWritten.1.writeResponse (cfg.sol - 4) = fragW (cfg.sol - 4) db1 (k + 1) := rfl
  rw [hw, hcl, g1] at hos
  rw [hw] at hnext
  refine ⟨m', o', _, _, j1, j2, hj2, hstep, hm', hos, ?_, fun h => (hnext h).2⟩
  simp only [Bool.false_or]
  exact txFrags_confirmOuts _ _ _ _ _ _ _
/-- **any number of rounds**: fragments `k … k + m` are non-final, fragment `k + m + 1` is the final one -/
theorem exchange_rounds (C : SeriesCtx env cfg db1) (m : Nat) : ∀ (k : Nat) (o : OState) (mst : Master.MState)
    (e i1 i2 : Nat) (isFirst : Bool),
    OWait cfg o e (fragW (cfg.sol - 4) db1 k).1 → MWait mst outstationAddr t e isFirst → e < 16 → i2 &&& 7 = 0 →
    (∀ j, j ≤ m → (fragW (cfg.sol - 4) db1 (k + j)).2.2.2 = false) →
    (fragW (cfg.sol - 4) db1 (k + m + 1)).2.2.2 = true →
    ∃ (oE : OState) (mE : Master.MState) (j1 j2 : Nat), j2 &&& 7 = 0 ∧
      Exchange env (Master.whoOf outstationAddr t) (Master.rtOf t) o mst
        (fragOct isFirst false e i1 i2 (fragW (cfg.sol - 4) db1 k).2.1) e
        ((List.range (m + 1)).map fun j => fragCalls (Master.whoOf outstationAddr t) (fragObjs (cfg.sol - 4) db1 (k + j)))
        oE mE (fragOct false true (seqAt e (m + 1)) j1 j2 (fragW (cfg.sol - 4) db1 (k + m + 1)).2.1) (seqAt e (m + 1)) ∧
      MWait mE outstationAddr t (seqAt e (m + 1)) false := by
  induction m with
  | zero =>
    intro k o mst e i1 i2 isFirst ho hm he hi2 hnf hfin
    obtain ⟨m', o', oo, c, j1, j2, hj2, hms, hm', hos, htx, _⟩ := one_round (t := t) C k o mst e i1 i2 isFirst ho hm he hi2
    simp only [Nat.add_zero] at hfin
    rw [hfin] at htx
    refine ⟨o', m', j1, j2, hj2, ?_, hm'⟩
    exact Exchange.round o o' o' mst m' m' _ _ _ e _ c i1 i2 _ [] oo hms hos htx (Exchange.done ..)
  | succ m ih =>
    intro k o mst e i1 i2 isFirst ho hm he hi2 hnf hfin
    obtain ⟨m', o', oo, c, j1, j2, hj2, hms, hm', hos, htx, hnext⟩ := one_round (t := t) C k o mst e i1 i2 isFirst ho hm he hi2
    have hk1 : (fragW (cfg.sol - 4) db1 (k + 1)).2.2.2 = false := hnf 1 (by omega)
    rw [hk1] at htx
    obtain ⟨oE, mE, l1, l2, hl2, hex, hmE⟩ := ih (k + 1) o' m' (seq4Next e) j1 j2 false (hnext hk1) hm' (seq4Next_lt e he) hj2
      (fun j hj => by have := hnf (j + 1) (by omega); rwa [show k + (j + 1) = k + 1 + j by omega] at this)
      (by rwa [show k + (m + 1) + 1 = k + 1 + m + 1 by omega] at hfin)
    rw [seqAt_succ'] at hex hmE
    rw [show k + 1 + m + 1 = k + (m + 1) + 1 by omega] at hex
    refine ⟨oE, mE, l1, l2, hl2, ?_, hmE⟩
    have hl : ((List.range (m + 1 + 1)).map fun j => fragCalls (Master.whoOf outstationAddr t) (fragObjs (cfg.sol - 4) db1 (k + j))) =
        fragCalls (Master.whoOf outstationAddr t) (fragObjs (cfg.sol - 4) db1 k) ::
          ((List.range (m + 1)).map fun j => fragCalls (Master.whoOf outstationAddr t) (fragObjs (cfg.sol - 4) db1 (k + 1 + j))) := by
      rw [List.range_succ_eq_map, List.map_cons, List.map_map]
      congr 1
      apply List.map_congr_left
      intro j _
      simp only [Function.comp, Nat.succ_eq_add_one]
      rw [show k + (j + 1) = k + 1 + j by omega]
    rw [hl]
    exact Exchange.round o o' oE mst m' mE _ _ _ e _ c i1 i2 _ _ oo hms hos htx hex
end

theorem flatMap_congr' {α β : Type} (l : List α) (f g : α → List β) (h : ∀ x ∈ l, f x = g x) :
    l.flatMap f = l.flatMap g := by
  induction l with
  | nil => rfl
  | cons x xs ih =>
    simp only [List.flatMap_cons]
    rw [h x (List.mem_cons_self ..), ih (fun y hy => h y (List.mem_cons_of_mem _ hy))]

/-- the final fragment at the master's fragment handler: accepted, delivered, not confirmed, the READ ends -/
theorem final_fragment (mE : Master.MState) (t : Master.ReadTask) (e i1 i2 : Nat) (isFirst : Bool) (ws : List (List SObj))
    (hm : MWait mE outstationAddr t e isFirst) (he : e < 16) (hi2 : i2 &&& 7 = 0)
    (hp : ∀ os ∈ ws, ∀ o ∈ os, Plain o ∧ o.idx < 65536) :
    ∃ (A : Master.Acc) (c : Nat),
      Master.onFragment (mE, []) outstationAddr (fragOct isFirst true e i1 i2 (ws.flatMap (encodeStatic none))) =
        .appDone (Master.finishRead A outstationAddr t (.ok e)) outstationAddr t.taskType 1 (.ok e) ∧
      A.2 = [.deliverBegin (Master.whoOf outstationAddr t) (Master.rtOf t) c i1 i2] ++
        fragCalls (Master.whoOf outstationAddr t) ws ++ [.deliverEnd (Master.whoOf outstationAddr t) (Master.rtOf t)] := by
  obtain ⟨⟨dl, hmode⟩, ⟨x, hx, _⟩, _⟩ := hm
  have hctrl : AppCtrl.ofNat (AppCtrl.toNat ⟨isFirst, true, false, false, e⟩) = ⟨isFirst, true, false, false, e⟩ :=
    Dnp3.Proofs.C02Session.ofNat_toNat isFirst true false false ⟨e, he⟩
  have hparse := parse_frag ws hp _ (Nat.le_refl _)
  have h := onFragment_read_accept (mE, []) outstationAddr t e dl isFirst _ i1 i2 _ _ true false x hmode hx hctrl
    (.inl rfl) hi2 hparse
  simp only [if_true] at h
  refine ⟨_, (⟨isFirst, true, false, false, e⟩ : AppCtrl).toNat, h, ?_⟩
  rw [acceptedAcc_outs, headerCalls_frag _ _ hp, hctrl]
  simp

/-- … and the whole `Master.step` on it: the delivery bracket first, then only outputs that are neither deliveries
    nor CONFIRMs (`QuietOut`: task bookkeeping, the next task's request, …) -/
theorem final_fragment_step (mE : Master.MState) (t : Master.ReadTask) (e i1 i2 : Nat) (isFirst : Bool) (ws : List (List SObj))
    (hm : MWait mE outstationAddr t e isFirst) (he : e < 16) (hi2 : i2 &&& 7 = 0)
    (hp : ∀ os ∈ ws, ∀ o ∈ os, Plain o ∧ o.idx < 65536) (hlen : 4 + (ws.flatMap (encodeStatic none)).length ≤ 2048) :
    ∃ (mF : Master.MState) (c : Nat) (l : List Master.MOut),
      Master.step mE (.rx outstationAddr masterAddr (fragOct isFirst true e i1 i2 (ws.flatMap (encodeStatic none)))) =
        (mF, [.deliverBegin (Master.whoOf outstationAddr t) (Master.rtOf t) c i1 i2] ++
          fragCalls (Master.whoOf outstationAddr t) ws ++ [.deliverEnd (Master.whoOf outstationAddr t) (Master.rtOf t)] ++ l) ∧
      ∀ o ∈ l, Dnp3.Proofs.C02MasterQuiet.QuietOut o := by
  obtain ⟨A, c, hA1, hA2⟩ := final_fragment mE t e i1 i2 isFirst ws hm he hi2 hp
  have hq := Dnp3.Proofs.C02MasterQuiet.step_rx_not_dropped_quiet mE outstationAddr
    (fragOct isFirst true e i1 i2 (ws.flatMap (encodeStatic none))) (by decide) rfl
    (by simp only [fragOct, List.cons_append, List.nil_append, List.length_cons]; omega)
  rw [hA1] at hq
  obtain ⟨l, hl, hql⟩ := (Dnp3.Proofs.C02MasterQuiet.Quiet.finishRead A outstationAddr t (.ok e)).trans hq
  refine ⟨_, c, l, Prod.ext rfl ?_, hql⟩
  exact hl.trans (by rw [hA2])

/-- **a class-0 READ answered in ANY number of fragments converges** — the two session models composed over an
    ideal wire (every transmission reaches the peer, in order, before anything else happens: the glue (c) that
    `wire_is_fifo` / `wire_invariant` provide in the pair model, plus "no timer fires, no update, no other
    input", is what this statement assumes instead of deriving it from `Pair.step`).

    Outstation session state `so`: idle, no broadcast to report, buffers as configured, a `pair`
    database (`Class0Db`) with exact counters, no READ in progress (`queue = []`), every event record
    `Unselected`.  The request `req` is a READ whose headers select what `select_class_zero` selects
    (`hsel`; e.g. `[60, 1, 6]`, or the integrity poll `60,2 60,3 60,4 60,1` on an empty event buffer).
    Master session state `sm`: waiting for the first fragment of the answer to that request (`MWait … true`).
    The answer takes `n + 1` fragments (`hnf`, `hfin`: the database's `write_response_headers` is complete
    for the first time at fragment `n`; capacity `cfg.sol - 4`).  Then there are states and IIN octets with:
    1. `Outstation.step` on the request transmits fragment 0 first (FIR, FIN iff `n = 0`, CON iff not FIN);
    2. `n` rounds of `Exchange`: `Master.step` on fragment `k` emits EXACTLY `deliverBegin`, the calls
       `fragCalls (fragObjs k)`, `deliverEnd`, CONFIRM; `Outstation.step` on that CONFIRM transmits fragment `k + 1`
       first;
    3. `Master.step` on fragment `n` emits `deliverBegin`, `fragCalls (fragObjs n)`, `deliverEnd` and then only
       outputs that are neither deliveries nor CONFIRMs (`QuietOut`; the READ task has ended);
    4. the items of all handler calls of all fragments, concatenated, are `(index, wire octets of the CURRENT
       value)` of every binary input, then every analog input — each point exactly once, ascending. -/
theorem class0_series_converges (env : OEnv) (cfg : OCfg) (so : OState) (next : NextIdle) (sm : Master.MState)
    (t : Master.ReadTask) (req : List Nat) (ctrl : AppCtrl) (hs : List ObjHdr) (raw : List Nat) (n : Nat)
    (hmode : so.mode = .idle next) (hcfg : so.cfg = cfg)
    (hbuf : cfg.sol ≤ so.solBuf.length) (h4 : 4 ≤ cfg.sol) (hmax : cfg.sol ≤ 2048) (hnb : so.lastBroadcast = none)
    (hcnt : CountersExact so.db) (hc0 : Class0Db so.db) (hq : so.db.queue = []) (hu : AllUnsel so.db)
    (haddr : env.outstation = outstationAddr) (hrx : 2 ≤ env.rx) (hlen : req.length ≤ env.rx)
    (hmaster : cfg.anymaster = true ∨ masterAddr = cfg.master)
    (hreq : parseRequest req = .request ctrl 1 (.ok hs) raw) (hseq : ctrl.seq < 16)
    (hsel : dbSelectAll so.db hs = (so.db.selectClass0.1, 0))
    (hm : MWait sm outstationAddr t ctrl.seq true)
    (hnf : ∀ k, k < n → (fragW (cfg.sol - 4) so.db.selectClass0.1 k).2.2.2 = false)
    (hfin : (fragW (cfg.sol - 4) so.db.selectClass0.1 n).2.2.2 = true) :
    let db1 := so.db.selectClass0.1
    let who := Master.whoOf outstationAddr t
    let rt := Master.rtOf t
    let calls := fun k => fragCalls who (fragObjs (cfg.sol - 4) db1 k)
    ∃ (o0 oE : OState) (mE mF : Master.MState) (rest0 : List OOut) (i1 i2 j1 j2 c : Nat) (l : List Master.MOut),
      Outstation.step env so (.rx masterAddr outstationAddr req) =
        (o0, [.tx masterAddr (fragOct true (decide (n = 0)) ctrl.seq i1 i2 (fragW (cfg.sol - 4) db1 0).2.1)] ++ rest0) ∧
      Exchange env who rt o0 sm (fragOct true (decide (n = 0)) ctrl.seq i1 i2 (fragW (cfg.sol - 4) db1 0).2.1) ctrl.seq
        ((List.range n).map calls) oE mE
        (fragOct (decide (n = 0)) true (seqAt ctrl.seq n) j1 j2 (fragW (cfg.sol - 4) db1 n).2.1) (seqAt ctrl.seq n) ∧
      Master.step mE (.rx outstationAddr masterAddr
          (fragOct (decide (n = 0)) true (seqAt ctrl.seq n) j1 j2 (fragW (cfg.sol - 4) db1 n).2.1)) =
        (mF, [.deliverBegin who rt c j1 j2] ++ calls n ++ [.deliverEnd who rt] ++ l) ∧
      (∀ o ∈ l, Dnp3.Proofs.C02MasterQuiet.QuietOut o) ∧
      (List.range (n + 1)).flatMap (fun k => (calls k).flatMap callItems) =
        so.db.bins.map (fun p => (p.1, [p.2.current.wire .binary])) ++
        so.db.ans.map (fun p => (p.1, stObjBytes { idx := p.1, g := 30, v := 1, m := p.2.current })) := by
  intro db1 who rt calls
  obtain ⟨hpen, hs1, hu1, hc1⟩ := class0_pending so.db hc0 hq hu
  have hcnt1 : CountersExact db1 := by
    have := counters_step so.db (.select ⟨60, 1, 6, 0, 0⟩) hcnt
    have hcz : (⟨60, 1, 6, 0, 0⟩ : ReadHdr).classify = .class0 := by decide
    simpa [DbProofs.step, Db.select, hcz] using this
  have hplain : ∀ o ∈ pending db1 db1.queue, Plain o ∧ o.idx < 65536 := by
    intro o ho
    rw [hpen] at ho
    rcases List.mem_append.mp ho with ho | ho
    · exact objsOf_plain .binary (.inl rfl) so.db.bins (hc0.2.2.2 .binary) o ho
    · exact objsOf_plain .analog (.inr rfl) so.db.ans (hc0.2.2.2 .analog) o ho
  have C : SeriesCtx env cfg db1 := ⟨hs1, hu1, hcnt1, hplain, haddr, hrx, hmaster, h4, hmax⟩
  have hne : req.isEmpty = false := by
    cases req with
    | nil => simp [parseRequest] at hreq
    | cons _ _ => rfl
  -- the request leg
  obtain ⟨i1, i2, o0, rest0, hi2, hfirst, hnext0⟩ := step_read_first env cfg so next masterAddr outstationAddr req ctrl hs raw
    hmode hcfg hbuf h4 hnb hcnt haddr.symm (by decide) hne hlen hmaster hreq
  have e1 : (dbSelectAll so.db hs).1 = db1 := by rw [hsel]
  have e2 : (dbSelectAll so.db hs).2 = 0 := by rw [hsel]
  rw [e1, e2] at hfirst
  rw [e1] at hnext0
  have hw0 : db1.writeResponse (cfg.sol - 4) = fragW (cfg.sol - 4) db1 0 := rfl
  rw [hw0] at hfirst hnext0
  obtain ⟨f1, _⟩ := frag_facts C 0
  rw [f1] at hfirst
  simp only [Bool.false_or, Nat.zero_or] at hfirst
  -- contents
  have hitems : (List.range (n + 1)).flatMap (fun k => (calls k).flatMap callItems) =
      so.db.bins.map (fun p => (p.1, [p.2.current.wire .binary])) ++
      so.db.ans.map (fun p => (p.1, stObjBytes { idx := p.1, g := 30, v := 1, m := p.2.current })) := by
    have hobj := series_objects (cfg.sol - 4) db1 hs1 hu1 n hfin
    have : (List.range (n + 1)).flatMap (fun k => (calls k).flatMap callItems) =
        ((List.range (n + 1)).flatMap (fun j => (fragObjs (cfg.sol - 4) db1 j).flatten)).map (fun o => (o.idx, stObjBytes o)) := by
      rw [List.map_flatMap]
      apply flatMap_congr'
      intro k _
      exact fragCalls_items who _
    rw [this, hobj, hpen, List.map_append]
    simp only [objsOf, List.map_map]
    rfl
  cases n with
  | zero =>
    obtain ⟨_, f2, f3, _, _, _, f7⟩ := frag_facts C 0
    obtain ⟨mF, c, l, hA1, hA2⟩ := final_fragment_step sm t ctrl.seq i1 i2 true _ hm hseq hi2 f3 (by rw [← f2]; omega)
    rw [← f2] at hA1
    rw [hfin] at hfirst
    refine ⟨o0, o0, sm, mF, rest0, i1, i2, i1, i2, c, l, ?_, ?_, ?_, hA2, hitems⟩
    · simpa [fragOct] using hfirst
    · exact Exchange.done ..
    · simpa [seqAt] using hA1
  | succ m =>
    have h0 : (fragW (cfg.sol - 4) db1 0).2.2.2 = false := hnf 0 (by omega)
    rw [h0] at hfirst
    obtain ⟨_, ho0⟩ := hnext0 h0
    obtain ⟨oE, mE, j1, j2, hj2, hex, hmE⟩ := exchange_rounds (t := t) C m 0 o0 sm ctrl.seq i1 i2 true ho0 hm hseq hi2
      (fun j hj => by simpa using hnf j (by omega)) (by simpa using hfin)
    obtain ⟨_, f2, f3, _, _, _, f7⟩ := frag_facts C (m + 1)
    obtain ⟨mF, c, l, hA1, hA2⟩ := final_fragment_step mE t (seqAt ctrl.seq (m + 1)) j1 j2 false _ hmE (seqAt_lt _ hseq _) hj2 f3
      (by rw [← f2]; omega)
    rw [← f2] at hA1
    refine ⟨o0, oE, mE, mF, rest0, i1, i2, j1, j2, c, l, ?_, ?_, ?_, hA2, hitems⟩
    · simpa [fragOct] using hfirst
    · simpa using hex
    · simpa using hA1


open Dnp3.Proofs.C02Session in
section
/-! ## the requests that select what `select_class_zero` selects -/

/-- READ g60v1 (class 0) -/
theorem sel_class0 (db : Db) (hc0 : Class0Db db) (hq : db.queue = []) :
    dbSelectAll db [class0Hdr] = (db.selectClass0.1, 0) := by
  obtain ⟨e1, e2⟩ := dbSelectAll_class0 db
  have := selectClass0_iin db hq hc0.2.2.1 hc0.2.1.empty
  exact Prod.ext e1 (by rw [e2, this]; rfl)

/-- the headers of the master's integrity poll: g60v2, g60v3, g60v4, g60v1 (classes 1, 2, 3, 0) -/
def integrityHdrs : List ObjHdr := [⟨60, 2, 0x06, 0, 0, []⟩, ⟨60, 3, 0x06, 0, 0, []⟩, ⟨60, 4, 0x06, 0, 0, []⟩, class0Hdr]

theorem select_evClass_empty (db : Db) (he : db.events = []) (h : ReadHdr) (c : Nat) (lim : Option Nat)
    (hcl : h.classify = .evClass c lim) : db.select h = (db, 0) := by
  unfold Db.select
  rw [hcl]
  simp only [he]
  have : (selectEvents (fun r => r.cls == c) none lim []).1 = [] := by
    cases lim with
    | none => rfl
    | some k => cases k <;> rfl
  rw [this, ← he]

/-- the integrity poll on an EMPTY event buffer -/
theorem sel_integrity (db : Db) (hc0 : Class0Db db) (hq : db.queue = []) (he : db.events = []) :
    dbSelectAll db integrityHdrs = (db.selectClass0.1, 0) := by
  have h1 : db.select (toReadHdr ⟨60, 2, 0x06, 0, 0, []⟩) = (db, 0) := select_evClass_empty db he _ 1 none (by decide)
  have h2 : db.select (toReadHdr ⟨60, 3, 0x06, 0, 0, []⟩) = (db, 0) := select_evClass_empty db he _ 2 none (by decide)
  have h3 : db.select (toReadHdr ⟨60, 4, 0x06, 0, 0, []⟩) = (db, 0) := select_evClass_empty db he _ 3 none (by decide)
  have h4 := sel_class0 db hc0 hq
  simp only [integrityHdrs, dbSelectAll, h1, h2, h3] at h4 ⊢
  obtain ⟨a, b⟩ := Prod.mk.inj h4
  exact Prod.ext a (by simp only [Nat.zero_or]; exact b)

theorem parseRequest_class0 (e : Nat) (he : e < 16) :
    parseRequest [0xC0 + e, 1, 60, 1, 6] = .request ⟨true, true, false, false, e⟩ 1 (.ok [class0Hdr]) [60, 1, 6] := by
  have := ofNat_confirm ⟨e, he⟩
  simp only [] at this
  have hp : parseObjects true 3 [60, 1, 6] = .ok [class0Hdr] := rfl
  simp [parseRequest, this, knownFunction, hp]

theorem parseRequest_integrity (e : Nat) (he : e < 16) :
    parseRequest ([0xC0 + e, 1] ++ Master.classHeaders 15) =
      .request ⟨true, true, false, false, e⟩ 1 (.ok integrityHdrs) (Master.classHeaders 15) := by
  have := ofNat_confirm ⟨e, he⟩
  simp only [] at this
  have hc : Master.classHeaders 15 = [60, 2, 6, 60, 3, 6, 60, 4, 6, 60, 1, 6] := by decide
  have hp : parseObjects true 12 [60, 2, 6, 60, 3, 6, 60, 4, 6, 60, 1, 6] = .ok integrityHdrs := rfl
  rw [hc]
  simp [parseRequest, this, knownFunction, hp]

/-! ## a concrete instance: three fragments -/

theorem class0Db_run (n : Nat) (sel : Option Nat) (ops : List DbOp)
    (hops : ∀ op ∈ ops, ∀ t idx cls, op = .add t idx cls → t = .binary ∨ t = .analog) :
    Class0Db (DbProofs.run (Db.new (legacyEv n) sel) ops) := by
  have key : ∀ (ops : List DbOp) (db : Db), (∀ op ∈ ops, ∀ t idx cls, op = .add t idx cls → t = .binary ∨ t = .analog) →
      Class0Db db → Class0Db (DbProofs.run db ops) := by
    intro ops
    induction ops with
    | nil => intro db _ h; exact h
    | cons op ops ih =>
      intro db hops h
      exact ih _ (fun o ho => hops o (List.mem_cons_of_mem _ ho))
        (class0Db_step db op (hops op (List.mem_cons_self ..)) h)
  exact key ops _ hops (class0Db_new n sel)

/-- binaries 0, 1, 5 and analog 2, two of them updated (two events buffered, `Unselected`) -/
def exOps : List DbOp := [.add .binary 0 1, .add .binary 1 1, .add .binary 5 0, .add .analog 2 2,
  .update .binary 1 1 1 7, .update .analog 2 (-5) 1 8]
def exDb : Db := DbProofs.run (Db.new (legacyEv 10) none) exOps
/-- a 20-octet solicited buffer: 16 octets of objects per fragment -/
def exCfg : OCfg := { sol := 20 }
def exSo : OState := { OState.init exCfg (legacyEv 10) with db := exDb, mode := .idle .untilEvent }
/-- the master waits for the first fragment of the answer to its integrity poll, sequence number 3 -/
def exSm : Master.MState :=
  { assocs := [{ addr := 1024, cfg := {}, seq := 4 }], ring := [1024], mode := .waitRead 1024 (.integrity 15) 3 true 5000, live := 1 }

theorem exOps_ok : ∀ op ∈ exOps, ∀ t idx cls, op = .add t idx cls → t = .binary ∨ t = .analog := by
  intro op h t idx cls e
  subst e
  simp only [exOps, List.mem_cons, List.not_mem_nil, or_false, DbOp.add.injEq, reduceCtorEq] at h
  rcases h with ⟨rfl, _, _⟩ | ⟨rfl, _, _⟩ | ⟨rfl, _, _⟩ | ⟨rfl, _, _⟩
  · exact .inl rfl
  · exact .inl rfl
  · exact .inl rfl
  · exact .inr rfl

/-- every hypothesis of `class0_series_converges` holds for this pair of states, the request READ g60v1 with
    sequence number 3, and `n = 2`: the answer takes three fragments (binaries 0-1 / binary 5 / analog 2) -/
example :
    exSo.mode = .idle .untilEvent ∧ exSo.cfg = exCfg ∧ exCfg.sol ≤ exSo.solBuf.length ∧ 4 ≤ exCfg.sol ∧ exCfg.sol ≤ 2048 ∧
    exSo.lastBroadcast = none ∧ CountersExact exSo.db ∧ Class0Db exSo.db ∧ exSo.db.queue = [] ∧ AllUnsel exSo.db ∧
    ({} : OEnv).outstation = outstationAddr ∧ 2 ≤ ({} : OEnv).rx ∧ [0xC0 + 3, 1, 60, 1, 6].length ≤ ({} : OEnv).rx ∧
    (exCfg.anymaster = true ∨ masterAddr = exCfg.master) ∧
    parseRequest [0xC0 + 3, 1, 60, 1, 6] = .request ⟨true, true, false, false, 3⟩ 1 (.ok [class0Hdr]) [60, 1, 6] ∧
    dbSelectAll exSo.db [class0Hdr] = (exSo.db.selectClass0.1, 0) ∧
    MWait exSm outstationAddr (.integrity 15) 3 true ∧
    (∀ k, k < 2 → (fragW (exCfg.sol - 4) exSo.db.selectClass0.1 k).2.2.2 = false) ∧
    (fragW (exCfg.sol - 4) exSo.db.selectClass0.1 2).2.2.2 = true ∧
    (List.range 3).map (fun k => (fragObjs (exCfg.sol - 4) exSo.db.selectClass0.1 k).flatten.map (fun o => (o.g, o.idx))) =
      [[(1, 0), (1, 1)], [(1, 5)], [(30, 2)]] := by
  have hc0 : Class0Db exSo.db := class0Db_run 10 none exOps exOps_ok
  refine ⟨rfl, rfl, by decide, by decide, by decide, rfl, counters_run _ _ (new_counters _ _), hc0, by decide, by unfold AllUnsel; decide,
    rfl, by decide, by decide, .inr rfl, parseRequest_class0 3 (by decide), sel_class0 _ hc0 (by decide),
    ⟨⟨5000, rfl⟩, ⟨_, rfl, rfl⟩, by decide⟩, ?_, by decide +kernel, by decide +kernel⟩
  intro k hk
  have : k = 0 ∨ k = 1 := by omega
  rcases this with rfl | rfl <;> decide +kernel
end

end Dnp3.Proofs.C02Series
