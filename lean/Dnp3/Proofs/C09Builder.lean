import Dnp3.Model.RequestBuilder
import Dnp3.Model.ObjectIter
import Dnp3.Proofs.C09Walk
import Dnp3.Proofs.C09Iter
/-! helper lemmas about `write_prefixed_items` (C09, repair of D17) -/
namespace Dnp3.App
open Dnp3.Gen Dnp3.Gen.App

theorem leIdx_length (wide : Bool) (n : Nat) : (leIdx wide n).length = idxSize wide := by
  cases wide <;> rfl

theorem readIdx_leIdx (wide : Bool) (n : Nat) (rest : List Nat) : readIdx wide (leIdx wide n ++ rest) = some (n, rest) := by
  cases wide
  · rfl
  · simp only [readIdx, leIdx, le16, ↓reduceIte, List.cons_append, List.nil_append, readU16, Option.some.injEq,
      Prod.mk.injEq, and_true]
    omega

theorem itemOctets_cons (wide : Bool) (it : CmdItem) (items : List CmdItem) :
    itemOctets wide (it :: items) = leIdx wide it.1 ++ it.2 ++ itemOctets wide items := by
  simp [itemOctets]

theorem itemOctets_length (wide : Bool) (sz : Nat) (items : List CmdItem) (hsz : ∀ it ∈ items, it.2.length = sz) :
    (itemOctets wide items).length = (idxSize wide + sz) * items.length := by
  induction items with
  | nil => simp [itemOctets]
  | cons it items ih =>
    have h1 := hsz it (List.mem_cons_self ..)
    have h2 := ih (fun x hx => hsz x (List.mem_cons_of_mem _ hx))
    rw [itemOctets_cons]
    simp only [List.length_append, leIdx_length, h1, h2, List.length_cons, Nat.mul_succ]
    omega

/-- the item loop either writes every item (they fit, and the count stays expressible) or fails -/
theorem writeItems_spec (cap : Nat) (wide : Bool) (sz : Nat) (items : List CmdItem) (hsz : ∀ it ∈ items, it.2.length = sz) :
    ∀ pos count out, count ≤ maxCount wide → pos ≤ cap →
    writeItems cap wide pos count out items =
      if count + items.length ≤ maxCount wide ∧ pos + (idxSize wide + sz) * items.length ≤ cap
      then some (count + items.length, out ++ itemOctets wide items) else none := by
  induction items with
  | nil => intro pos count out hc hp; simp [writeItems, itemOctets, hc, hp]
  | cons it items ih =>
    intro pos count out hc hp
    obtain ⟨i, v⟩ := it
    have h1 : v.length = sz := hsz (i, v) (List.mem_cons_self ..)
    have ih' := ih (fun x hx => hsz x (List.mem_cons_of_mem _ hx))
    have hk : (idxSize wide + sz) * (items.length + 1) = (idxSize wide + sz) * items.length + (idxSize wide + sz) :=
      Nat.mul_succ _ _
    simp only [writeItems, h1, checkedNext, List.length_cons, hk]
    by_cases hA : pos + idxSize wide > cap
    · have : ¬ (count + (items.length + 1) ≤ maxCount wide ∧
          pos + ((idxSize wide + sz) * items.length + (idxSize wide + sz)) ≤ cap) := by omega
      simp [hA, this]
    · by_cases hB : pos + idxSize wide + sz > cap
      · have : ¬ (count + (items.length + 1) ≤ maxCount wide ∧
            pos + ((idxSize wide + sz) * items.length + (idxSize wide + sz)) ≤ cap) := by omega
        simp [hA, hB, this]
      · by_cases hC : count < maxCount wide
        · simp only [hA, hB, hC, ↓reduceIte]
          rw [ih' _ _ _ (by omega) (by omega), itemOctets_cons]
          have e1 : (count + 1 + items.length ≤ maxCount wide ∧
              pos + idxSize wide + sz + (idxSize wide + sz) * items.length ≤ cap) ↔
              (count + (items.length + 1) ≤ maxCount wide ∧
              pos + ((idxSize wide + sz) * items.length + (idxSize wide + sz)) ≤ cap) := by
            constructor <;> (intro h; constructor <;> omega)
          simp only [e1]
          split
          · simp only [List.append_assoc, Option.some.injEq, Prod.mk.injEq, and_true]; omega
          · rfl
        · have : ¬ (count + (items.length + 1) ≤ maxCount wide ∧
              pos + ((idxSize wide + sz) * items.length + (idxSize wide + sz)) ≤ cap) := by omega
          simp [hA, hB, hC, this]

/-- `write_prefixed_items`: written completely (exactly the header image after what was there), or a write error -/
theorem writePrefixedItems_spec (cap : Nat) (acc : List Nat) (g v : Nat) (wide : Bool) (sz : Nat) (items : List CmdItem)
    (hsz : ∀ it ∈ items, it.2.length = sz) :
    writePrefixedItems cap acc g v wide items =
      if items.length ≤ maxCount wide ∧ acc.length + 3 + idxSize wide + (idxSize wide + sz) * items.length ≤ cap
      then some (acc ++ prefixedImage g v wide items) else none := by
  unfold writePrefixedItems
  by_cases h3 : acc.length + 3 + idxSize wide > cap
  · have hn : ¬ (items.length ≤ maxCount wide ∧ acc.length + 3 + idxSize wide + (idxSize wide + sz) * items.length ≤ cap) := by
      omega
    simp only [hn, ↓reduceIte, h3]
    split
    · rfl
    · split <;> rfl
  · have h1 : ¬ acc.length + 2 > cap := by omega
    have h2 : ¬ acc.length + 3 > cap := by omega
    simp only [h1, h2, h3, ↓reduceIte]
    rw [writeItems_spec cap wide sz items hsz _ 0 [] (by simp) (by omega)]
    simp only [Nat.zero_add, List.nil_append]
    by_cases hc : items.length ≤ maxCount wide ∧ acc.length + 3 + idxSize wide + (idxSize wide + sz) * items.length ≤ cap
    · simp [hc, prefixedImage]
    · simp [hc]

/-- cutting the item octets back into items of `idxSize + SIZE` octets -/
theorem chunks_itemOctets (wide : Bool) (sz : Nat) (items : List CmdItem) (hsz : ∀ it ∈ items, it.2.length = sz) :
    chunks (idxSize wide + sz) (itemOctets wide items) = items.map fun it => leIdx wide it.1 ++ it.2 := by
  induction items with
  | nil =>
    rw [chunks]
    have : idxSize wide + sz ≠ 0 := by cases wide <;> simp [idxSize]
    have h0 : ¬ (0 = idxSize wide + sz) := by omega
    simp [itemOctets, h0]
  | cons it items ih =>
    have h1 := hsz it (List.mem_cons_self ..)
    have h2 := ih (fun x hx => hsz x (List.mem_cons_of_mem _ hx))
    have hlen : (leIdx wide it.1 ++ it.2).length = idxSize wide + sz := by simp [leIdx_length, h1]
    have hne : idxSize wide + sz ≠ 0 := by cases wide <;> simp [idxSize]
    rw [chunks, itemOctets_cons]
    have ht : List.take (idxSize wide + sz) (leIdx wide it.1 ++ it.2 ++ itemOctets wide items) = leIdx wide it.1 ++ it.2 := by
      rw [← hlen]; exact List.take_left
    have hd : List.drop (idxSize wide + sz) (leIdx wide it.1 ++ it.2 ++ itemOctets wide items) = itemOctets wide items := by
      rw [← hlen]; exact List.drop_left
    simp only [hne, ↓reduceDIte, ht, hd, hlen, h2, List.map_cons]

/-- `CountIterator<Prefix<I, V>>` over the item octets yields the items: index and octets -/
theorem iterPrefixed_itemOctets (wide : Bool) (sz : Nat) (items : List CmdItem) (hsz : ∀ it ∈ items, it.2.length = sz) :
    iterPrefixed wide sz (itemOctets wide items) = items.map fun it => ⟨some it.1, leIdx wide it.1 ++ it.2⟩ := by
  simp only [iterPrefixed, chunks_itemOctets wide sz items hsz, List.map_map]
  apply List.map_congr_left
  intro it _
  simp only [Function.comp, readIdx_leIdx, Option.map_some]

/-- a count the index type cannot express makes the item loop fail whatever the items are -/
theorem writeItems_count_overflow (cap : Nat) (wide : Bool) (items : List CmdItem) :
    ∀ pos count out, maxCount wide < count + items.length → items ≠ [] →
    writeItems cap wide pos count out items = none := by
  induction items with
  | nil => intro _ _ _ _ h; exact absurd rfl h
  | cons it items ih =>
    intro pos count out hc _
    obtain ⟨i, v⟩ := it
    simp only [writeItems, checkedNext]
    split
    · rfl
    · split
      · rfl
      · by_cases hC : count < maxCount wide
        · simp only [hC, ↓reduceIte]
          by_cases hnil : items = []
          · subst hnil; simp only [List.length_cons, List.length_nil] at hc; omega
          · exact ih _ _ _ (by simp only [List.length_cons] at hc; omega) hnil
        · simp only [hC, ↓reduceIte]

theorem writePrefixedItems_count_overflow (cap : Nat) (acc : List Nat) (g v : Nat) (wide : Bool) (items : List CmdItem)
    (h : maxCount wide < items.length) : writePrefixedItems cap acc g v wide items = none := by
  unfold writePrefixedItems
  have hne : items ≠ [] := by intro h0; subst h0; simp at h
  rw [writeItems_count_overflow cap wide items _ 0 [] (by omega) hne]
  split
  · rfl
  · split
    · rfl
    · split <;> rfl

/-- a fragment's object section that is exactly one header -/
theorem walk_single {isRead zls : Bool} {bs : List Nat} {r : HeaderRec}
    (h : parseOne isRead zls bs = .ok (r, [])) : walk isRead zls bs = .ok [r] := by
  have hne : bs.isEmpty = false := by
    cases bs with
    | nil => simp [parseOne] at h
    | cons _ _ => rfl
  rw [walk]
  simp only [hne, Bool.false_eq_true, ↓reduceIte]
  split
  · rename_i e he; rw [h] at he; cases he
  · rename_i r' rest he
    rw [h] at he
    injection he with he; injection he with h1 h2
    subst h1; subst h2
    rw [walk]
    simp

theorem takeE_append (p rest : List Nat) (n : Nat) (h : p.length = n) : takeE n (p ++ rest) = .ok (p, rest) := by
  subst h
  simp [takeE, take?]

theorem parseSpec_prefixed (wide : Bool) (n : Nat) (r : List Nat) :
    parseSpec (prefixQualifier wide) (leIdx wide n ++ r) = .ok (.countPrefix wide n, r) := by
  cases wide
  · rfl
  · have h := readIdx_leIdx true n r
    have e : prefixQualifier true = 40 := rfl
    rw [e]
    simp only [parseSpec, qAllObjects, qRange8, qRange16, qCount8, qCount16, qCountAndPrefix8, qCountAndPrefix16,
      Nat.reduceEqDiff, ↓reduceIte, parseCount, h]

/-- the parser reads a count-and-prefix header image back as the header that was written -/
theorem parseOne_prefixedImage (isRead zls : Bool) (g v : Nat) (wide : Bool) (items : List CmdItem) (rest : List Nat)
    (hl : lookup g v = some (.fixed g v)) (ht : tableGet prefixedTable (.fixed g v) = some (.prefFixed g v))
    (hsz : ∀ it ∈ items, it.2.length = fixedSize g v) :
    parseOne isRead zls (prefixedImage g v wide items ++ rest) =
      .ok (⟨.fixed g v, .countPrefix wide items.length, .prefFixed g v, itemOctets wide items⟩, rest) := by
  have hlen := itemOctets_length wide (fixedSize g v) items hsz
  simp only [prefixedImage, List.cons_append, List.nil_append, List.append_assoc, parseOne, hl, parseSpec_prefixed,
    parseBody, tableFor, ht, readPayload, Spec.nobj, Spec.wide, takeE_append _ _ _ hlen]

end Dnp3.App
