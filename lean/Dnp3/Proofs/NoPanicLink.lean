import Dnp3.Model.LinkParser
import Dnp3.Model.LinkReader
import Dnp3.Model.Transport
import Dnp3.Model.ObjectGrammar
import Dnp3.Model.ObjectIter
import Dnp3.Proofs.LinkParser
import Dnp3.Proofs.LinkReader
import Dnp3.Proofs.Transport
import Dnp3.Proofs.C09Walk
import Dnp3.Proofs.C09Iter
import Dnp3.Props.C09
/-!
# C01 — octets from the peer can never crash or wedge an endpoint: progress / termination facts

The models are total functions, so "a result for every input" holds by construction.  What is
proved here is that the *fuel* parameters of the models (which stand for the Rust loops) are never
the reason a loop stops, for ALL inputs (garbage included), i.e. every loop iteration makes
progress on a measure that is bounded by the amount of input:

* `parseDiscard_progress` / `parseDiscard_retries` — the discard-mode retry loop of `Parser::parse`;
* `parse_consumes_or_waits` — `Parser::parse` never un-reads, delivers a frame only after consuming
  an octet, and otherwise leaves the reader a non-empty window to read into;
* `reader_run_fuel_sufficient`, `RInv`, `rinv_feed`, `rinv_feedAll` — the loop of `read_frame`;
* `transport_read_fuel_sufficient`, `transport_drain_fuel_sufficient` — transport `Reader::read`;
* `run_never_wedges`, `feed_never_wedges` — the read loop stops only when all input is taken;
* `assembler_total`, `assembler_pop_bounded`, `ainv_tfeed` — `Assembler::append` stays inside its buffer;
* `walk_progress`, `iter_no_panic_partial`, `iter_overflow_witness` — the object walk / iterators.
-/
namespace Dnp3.Proofs.NoPanicLink
open Dnp3

/-! ## 1. `Parser::parse_impl` never un-reads: the unread rest is a suffix of the input -/

theorem suffix_cons_of_suffix {a : Nat} {r l : List Nat} (h : r <:+ l) : r <:+ a :: l :=
  h.trans (List.suffix_cons a l)

theorem parseBody_suffix (h : LHeader) (t : Nat) (bs rest : List Nat) (st' : PState) (r : PResult)
    (hr : parseBody h t bs = (st', rest, r)) : rest <:+ bs := by
  unfold parseBody at hr
  split at hr
  · cases hr; exact List.suffix_refl _
  · split at hr <;> (cases hr; exact List.drop_suffix _ _)

theorem checkBody_zero (bs : List Nat) : checkBody 0 bs = .ok [] := by
  unfold checkBody; rfl

/-- an error of `parse_body` leaves a body state that still waits for at least one octet -/
theorem parseBody_error_wf (h : LHeader) (t : Nat) (bs rest : List Nat) (st' : PState) (e : PErr)
    (hr : parseBody h t bs = (st', rest, .error e)) : wfState st' := by
  unfold parseBody at hr
  split at hr
  · cases hr
  · split at hr
    · cases hr
    · rename_i e' he
      cases hr
      show 0 < t
      cases t with
      | zero => rw [checkBody_zero] at he; cases he
      | succ t => exact Nat.succ_pos _

theorem parseHeader_suffix (bs rest : List Nat) (st' : PState) (r : PResult)
    (hr : parseHeader bs = (st', rest, r)) : rest <:+ bs ∧ (∀ e, r = .error e → wfState st') := by
  by_cases h8 : bs.length < 8
  · rw [parseHeader_short bs h8] at hr
    cases hr
    exact ⟨List.suffix_refl _, fun e he => by cases he⟩
  · obtain ⟨len, ctrl, d0, d1, s0, s1, c0, c1, r', hbs⟩ := list_ge8 bs (by omega)
    subst hbs
    rw [parseHeader_long] at hr
    have hsuf : r' <:+ len :: ctrl :: d0 :: d1 :: s0 :: s1 :: c0 :: c1 :: r' :=
      ⟨[len, ctrl, d0, d1, s0, s1, c0, c1], rfl⟩
    split at hr
    · cases hr; exact ⟨hsuf, fun _ _ => trivial⟩
    · split at hr
      · cases hr; exact ⟨hsuf, fun _ _ => trivial⟩
      · refine ⟨(parseBody_suffix _ _ _ _ _ _ hr).trans hsuf, ?_⟩
        intro e he; subst he
        exact parseBody_error_wf _ _ _ _ _ _ hr

theorem parseSync2_suffix (bs rest : List Nat) (st' : PState) (r : PResult)
    (hr : parseSync2 bs = (st', rest, r)) : rest <:+ bs ∧ (∀ e, r = .error e → wfState st') := by
  cases bs with
  | nil => simp only [parseSync2] at hr; cases hr; exact ⟨List.suffix_refl _, fun e he => by cases he⟩
  | cons x t =>
    simp only [parseSync2] at hr
    split at hr
    · cases hr; exact ⟨List.suffix_cons _ _, fun _ _ => trivial⟩
    · obtain ⟨h1, h2⟩ := parseHeader_suffix _ _ _ _ hr
      exact ⟨suffix_cons_of_suffix h1, h2⟩

theorem parseSync1_suffix (bs rest : List Nat) (st' : PState) (r : PResult)
    (hr : parseSync1 bs = (st', rest, r)) : rest <:+ bs ∧ (∀ e, r = .error e → wfState st') := by
  cases bs with
  | nil => simp only [parseSync1] at hr; cases hr; exact ⟨List.suffix_refl _, fun e he => by cases he⟩
  | cons x t =>
    simp only [parseSync1] at hr
    split at hr
    · cases hr; exact ⟨List.suffix_cons _ _, fun _ _ => trivial⟩
    · obtain ⟨h1, h2⟩ := parseSync2_suffix _ _ _ _ hr
      exact ⟨suffix_cons_of_suffix h1, h2⟩

/-- one call of `parse_impl`, any state, any octets: the unread rest is a suffix of the input -/
theorem parseImpl_suffix (st st' : PState) (bs rest : List Nat) (r : PResult)
    (hr : parseImpl st bs = (st', rest, r)) : rest <:+ bs := by
  cases st with
  | sync1 => exact (parseSync1_suffix _ _ _ _ hr).1
  | sync2 => exact (parseSync2_suffix _ _ _ _ hr).1
  | header => exact (parseHeader_suffix _ _ _ _ hr).1
  | body hd t => exact parseBody_suffix _ _ _ _ _ _ hr

/-- an error result leaves a well-formed state too (needed in close mode, where the error is
    returned to the reader) -/
theorem parseImpl_error_wf (st st' : PState) (bs rest : List Nat) (e : PErr) (hw : wfState st)
    (hr : parseImpl st bs = (st', rest, .error e)) : wfState st' := by
  cases st with
  | sync1 => exact (parseSync1_suffix _ _ _ _ hr).2 e rfl
  | sync2 => exact (parseSync2_suffix _ _ _ _ hr).2 e rfl
  | header => exact (parseHeader_suffix _ _ _ _ hr).2 e rfl
  | body hd t => exact parseBody_error_wf _ _ _ _ _ _ hr

theorem parseHeader_some_state (bs rest : List Nat) (st' : PState) (x : LHeader × List Nat)
    (hr : parseHeader bs = (st', rest, .ok (some x))) : st' = .sync1 := by
  by_cases h8 : bs.length < 8
  · rw [parseHeader_short bs h8] at hr; cases hr
  · obtain ⟨len, ctrl, d0, d1, s0, s1, c0, c1, r', hbs⟩ := list_ge8 bs (by omega)
    subst hbs
    rw [parseHeader_long] at hr
    split at hr
    · cases hr
    · split at hr
      · cases hr
      · obtain ⟨h', p⟩ := x
        exact (parseBody_some_inv _ _ _ _ _ _ _ hr).2.2.1

/-- after a delivered frame the parser is back in the frame-start state -/
theorem parseImpl_some_state (st st' : PState) (bs rest : List Nat) (x : LHeader × List Nat)
    (hr : parseImpl st bs = (st', rest, .ok (some x))) : st' = .sync1 := by
  cases st with
  | header => exact parseHeader_some_state _ _ _ _ hr
  | body hd t =>
    obtain ⟨h', p⟩ := x
    exact (parseBody_some_inv _ _ _ _ _ _ _ hr).2.2.1
  | sync2 =>
    cases bs with
    | nil => simp only [parseImpl, parseSync2] at hr; cases hr
    | cons a t =>
      simp only [parseImpl, parseSync2] at hr
      split at hr
      · cases hr
      · exact parseHeader_some_state _ _ _ _ hr
  | sync1 =>
    cases bs with
    | nil => simp only [parseImpl, parseSync1] at hr; cases hr
    | cons a t =>
      simp only [parseImpl, parseSync1] at hr
      split at hr
      · cases hr
      · cases t with
        | nil => simp only [parseSync2] at hr; cases hr
        | cons b t =>
          simp only [parseSync2] at hr
          split at hr
          · cases hr
          · exact parseHeader_some_state _ _ _ _ hr

/-- `parse_impl` on an empty cursor never fails, in any state (well-formed or not) -/
theorem parseImpl_nil_ok (st : PState) : ∃ st' r, parseImpl st [] = (st', [], .ok r) := by
  cases st with
  | sync1 => exact ⟨_, _, rfl⟩
  | sync2 => exact ⟨_, _, rfl⟩
  | header => exact ⟨_, _, rfl⟩
  | body hd t =>
    cases t with
    | zero => exact ⟨.sync1, some (hd, []), by simp [parseImpl, parseBody, checkBody_zero]⟩
    | succ t => exact ⟨.body hd (t + 1), none, by simp [parseImpl, parseBody]⟩

/-! ## 2. the discard-mode retry loop of `Parser::parse` -/

theorem parseDiscard_sync1_nil (k : Nat) : parseDiscard k .sync1 [] = (.sync1, [], .ok none) := by
  cases k <;> rfl

/-- any two fuels that cover the unread octets give the same result -/
theorem parseDiscard_fuel_irrel : ∀ (f1 f2 : Nat) (st : PState) (bs : List Nat),
    bs.length ≤ f1 → bs.length ≤ f2 → parseDiscard f1 st bs = parseDiscard f2 st bs := by
  intro f1
  induction f1 with
  | zero =>
    intro f2 st bs h1 h2
    have : bs = [] := List.length_eq_zero_iff.mp (by omega)
    subst this
    obtain ⟨st', r, hp⟩ := parseImpl_nil_ok st
    cases f2 <;> simp only [parseDiscard, hp]
  | succ k ih =>
    intro f2 st bs h1 h2
    cases f2 with
    | zero =>
      have : bs = [] := List.length_eq_zero_iff.mp (by omega)
      subst this
      obtain ⟨st', r, hp⟩ := parseImpl_nil_ok st
      simp only [parseDiscard, hp]
    | succ j =>
      simp only [parseDiscard]
      split
      · rfl
      · exact ih j .sync1 (bs.drop 1) (by rw [List.length_drop]; omega) (by rw [List.length_drop]; omega)

/-- what the retry loop returns: never an error; the unread rest is a suffix of the input; and if
    the first `parse_impl` failed (so at least one retry happened) at least one octet is gone -/
theorem parseDiscard_result : ∀ (fuel : Nat) (st st' : PState) (bs rest : List Nat) (r : PResult),
    parseDiscard fuel st bs = (st', rest, r) →
    rest <:+ bs ∧ (∃ x, r = .ok x) ∧
    (∀ s1 r1 e, parseImpl st bs = (s1, r1, .error e) → bs ≠ [] ∧ rest.length < bs.length) := by
  intro fuel
  induction fuel with
  | zero =>
    intro st st' bs rest r hr
    simp only [parseDiscard] at hr
    split at hr
    · rename_i s1 r1 x hpi
      cases hr
      refine ⟨parseImpl_suffix _ _ _ _ _ hpi, ⟨x, rfl⟩, ?_⟩
      intro s2 r2 e he; rw [hpi] at he; cases he
    · rename_i s1 r1 e hpi
      cases hr
      refine ⟨List.drop_suffix _ _, ⟨none, rfl⟩, ?_⟩
      intro _ _ _ _
      have hne : bs ≠ [] := by
        intro hnil; subst hnil
        obtain ⟨s2, x, hp⟩ := parseImpl_nil_ok st
        rw [hp] at hpi; cases hpi
      refine ⟨hne, ?_⟩
      have := List.length_pos_iff.mpr hne
      rw [List.length_drop]; omega
  | succ k ih =>
    intro st st' bs rest r hr
    simp only [parseDiscard] at hr
    split at hr
    · rename_i s1 r1 x hpi
      cases hr
      refine ⟨parseImpl_suffix _ _ _ _ _ hpi, ⟨x, rfl⟩, ?_⟩
      intro s2 r2 e he; rw [hpi] at he; cases he
    · rename_i s1 r1 e hpi
      obtain ⟨h1, h2, _⟩ := ih _ _ _ _ _ hr
      refine ⟨h1.trans (List.drop_suffix _ _), h2, ?_⟩
      intro _ _ _ _
      have hne : bs ≠ [] := by
        intro hnil; subst hnil
        obtain ⟨s2, x, hp⟩ := parseImpl_nil_ok st
        rw [hp] at hpi; cases hpi
      refine ⟨hne, ?_⟩
      have := List.length_pos_iff.mpr hne
      have := h1.length_le
      rw [List.length_drop] at this; omega

/-- **`parseDiscard_progress`.**  `Parser::parse` in discard mode calls the retry loop with
    fuel = number of unread octets.  (a) Any larger fuel gives the same result — the fuel is never
    the reason the loop stops; (b) the result is never an error and its unread rest is a suffix
    of the input; (c) if the first `parse_impl` failed, the input was non-empty and strictly
    fewer octets are left: every retry drops one octet, so there are at most `bs.length` retries
    (made explicit in `parseDiscard_retries`).  No hypothesis on the state or the octets. -/
theorem parseDiscard_progress (st : PState) (bs : List Nat) :
    (∀ n, parseDiscard (bs.length + n) st bs = parseDiscard bs.length st bs) ∧
    (∀ st' rest r, parseDiscard bs.length st bs = (st', rest, r) →
      (∃ pre, bs = pre ++ rest) ∧ (∃ x, r = .ok x) ∧
      (∀ s1 r1 e, parseImpl st bs = (s1, r1, .error e) → bs ≠ [] ∧ rest.length < bs.length)) := by
  refine ⟨fun n => parseDiscard_fuel_irrel _ _ _ _ (by omega) (Nat.le_refl _), ?_⟩
  intro st' rest r hr
  obtain ⟨⟨pre, hpre⟩, h2, h3⟩ := parseDiscard_result _ _ _ _ _ _ hr
  exact ⟨⟨pre, hpre.symm⟩, h2, h3⟩

example : parseImpl .sync1 [7, 5, 0x64] = (.sync1, [5, 0x64], .error (.start1 7)) ∧
    parseDiscard 3 .sync1 [7, 5, 0x64] = (.header, [], .ok none) := ⟨rfl, rfl⟩

/-- the retry loop, unrolled: with `k ≤ fuel` retries its result is the first non-failing
    `parse_impl` on the successive tails `bs, bs.drop 1, …` (state reset to `sync1` after the
    first failure), all earlier attempts having failed -/
theorem parseDiscard_retries_aux : ∀ (fuel : Nat) (st : PState) (bs : List Nat), bs.length ≤ fuel →
    ∃ k st' rest x, k ≤ bs.length ∧ parseDiscard fuel st bs = (st', rest, .ok x) ∧
      parseImpl (if k = 0 then st else .sync1) (bs.drop k) = (st', rest, .ok x) ∧
      (∀ j, j < k → ∃ s r e, parseImpl (if j = 0 then st else .sync1) (bs.drop j) = (s, r, .error e)) := by
  intro fuel
  induction fuel with
  | zero =>
    intro st bs hl
    have : bs = [] := List.length_eq_zero_iff.mp (by omega)
    subst this
    obtain ⟨st', x, hp⟩ := parseImpl_nil_ok st
    exact ⟨0, st', [], x, Nat.le_refl _, by simp only [parseDiscard, hp], by simpa using hp,
      fun j hj => by omega⟩
  | succ f ih =>
    intro st bs hl
    rcases hpi : parseImpl st bs with ⟨s1, r1, res⟩
    cases res with
    | ok x =>
      exact ⟨0, s1, r1, x, Nat.zero_le _, by simp only [parseDiscard, hpi], by simpa using hpi,
        fun j hj => by omega⟩
    | error e =>
      have hne : bs ≠ [] := by
        intro hnil; subst hnil
        obtain ⟨s2, x, hp⟩ := parseImpl_nil_ok st
        rw [hp] at hpi; cases hpi
      have hpos := List.length_pos_iff.mpr hne
      obtain ⟨k, st', rest, x, hk, hd, hpk, hfail⟩ :=
        ih .sync1 (bs.drop 1) (by rw [List.length_drop]; omega)
      rw [List.length_drop] at hk
      refine ⟨k + 1, st', rest, x, by omega, by simp only [parseDiscard, hpi]; exact hd, ?_, ?_⟩
      · rw [if_neg (by omega)]
        have : (if k = 0 then PState.sync1 else PState.sync1) = PState.sync1 := by split <;> rfl
        rw [this, List.drop_drop] at hpk
        rw [Nat.add_comm]; exact hpk
      · intro j hj
        cases j with
        | zero => exact ⟨s1, r1, e, by simpa using hpi⟩
        | succ j =>
          obtain ⟨s, r, e', he⟩ := hfail j (by omega)
          have : (if j = 0 then PState.sync1 else PState.sync1) = PState.sync1 := by split <;> rfl
          rw [this, List.drop_drop] at he
          refine ⟨s, r, e', ?_⟩
          rw [if_neg (by omega), Nat.add_comm]; exact he

/-- **number of retries ≤ number of unread octets**: `Parser::parse` in discard mode returns the
    result of attempt number `k ≤ bs.length` (0-based; attempt `j` runs on `bs.drop j`, in state
    `sync1` for `j > 0`), attempts `0..k-1` having failed -/
theorem parseDiscard_retries (st : PState) (bs : List Nat) :
    ∃ k st' rest x, k ≤ bs.length ∧ parse .discard st bs = (st', rest, .ok x) ∧
      parseImpl (if k = 0 then st else .sync1) (bs.drop k) = (st', rest, .ok x) ∧
      (∀ j, j < k → ∃ s r e, parseImpl (if j = 0 then st else .sync1) (bs.drop j) = (s, r, .error e)) :=
  parseDiscard_retries_aux bs.length st bs (Nat.le_refl _)

/-! ## 3. `Parser::parse`, either mode -/

/-- **`parse_consumes_or_waits`.**  For every mode, every well-formed parser state and every
    input: the unread rest is a suffix of the input (nothing is un-read, the cursor never leaves
    the buffer); the new state is well-formed again (also after an error); a delivered frame has
    consumed at least one octet and leaves the frame-start state; discard mode never returns an
    error; and when the parser asks for more (octets < 256, bounded state) at most 281 octets stay
    unread — less than the 293-octet minimum buffer — and the state stays bounded, which is what
    makes the reader's next read non-empty (`reader_wait_reads_nonempty`). -/
theorem parse_consumes_or_waits (m : ErrMode) (st st' : PState) (bs rest : List Nat) (r : PResult)
    (hw : wfState st) (hp : parse m st bs = (st', rest, r)) :
    (∃ pre, bs = pre ++ rest) ∧ wfState st' ∧
    (∀ x, r = .ok (some x) → rest.length < bs.length ∧ st' = .sync1) ∧
    (m = .discard → ∃ x, r = .ok x) ∧
    (r = .ok none → (∀ b ∈ bs, b < 256) → boundedState st → rest.length ≤ 281 ∧ boundedState st') := by
  have hshort : r = .ok none → (∀ b ∈ bs, b < 256) → boundedState st →
      rest.length ≤ 281 ∧ boundedState st' := by
    intro hr hb hbd; subst hr
    exact parse_none_short m st st' bs rest hb hbd hp
  cases m with
  | close =>
    have hp : parseImpl st bs = (st', rest, r) := hp
    obtain ⟨pre, hpre⟩ := parseImpl_suffix _ _ _ _ _ hp
    obtain ⟨_, f2, f3⟩ := parseImpl_facts _ _ _ _ _ hw hp
    refine ⟨⟨pre, hpre.symm⟩, ?_, ?_, (fun h => by cases h), hshort⟩
    · cases r with
      | error e => exact parseImpl_error_wf _ _ _ _ _ hw hp
      | ok o =>
        cases o with
        | none => exact f2 rfl
        | some x => rw [parseImpl_some_state _ _ _ _ _ hp]; trivial
    · intro x hx; subst hx
      exact ⟨f3 x rfl, parseImpl_some_state _ _ _ _ _ hp⟩
  | discard =>
    obtain ⟨k, st2, rest2, x, hk, hd, hpk, _⟩ := parseDiscard_retries st bs
    rw [hp] at hd
    cases hd
    have hw' : wfState (if k = 0 then st else .sync1) := by split; exact hw; trivial
    obtain ⟨pre, hpre⟩ := (parseImpl_suffix _ _ _ _ _ hpk).trans (List.drop_suffix k bs)
    obtain ⟨_, f2, f3⟩ := parseImpl_facts _ _ _ _ _ hw' hpk
    refine ⟨⟨pre, hpre.symm⟩, ?_, ?_, fun _ => ⟨x, rfl⟩, hshort⟩
    · cases x with
      | none => exact f2 rfl
      | some x => rw [parseImpl_some_state _ _ _ _ _ hpk]; trivial
    · intro y hy
      injection hy with hy; subst hy
      have := f3 y rfl
      rw [List.length_drop] at this
      exact ⟨by omega, parseImpl_some_state _ _ _ _ _ hpk⟩

example : wfState .sync1 ∧ parse .discard .sync1 [7, 5, 0x64] = (.header, [], .ok none) :=
  ⟨trivial, rfl⟩

example : wfState (.body ⟨0xC4, 1024, 1⟩ 6) ∧ boundedState (.body ⟨0xC4, 1024, 1⟩ 6) ∧
    ∀ b ∈ [1, 2, 3], b < 256 := ⟨by show 0 < 6; decide, by show 6 ≤ 282; decide, by decide⟩

/-! ## 4. the loop of `read_frame` (`Reader.run`) on arbitrary input -/

/-- `read_more_data` when it does not block: a non-empty prefix of the available octets is
    appended to the unread octets; nothing else changes except the cursors.  No hypotheses. -/
theorem readMore_some (r r' : Reader) (avail avail' : List Nat)
    (h : r.readMore avail = some (r', avail')) :
    ∃ n, 0 < n ∧ n ≤ avail.length ∧ avail' = avail.drop n ∧ r'.pending = r.pending ++ avail.take n ∧
      r'.pst = r.pst ∧ r'.emode = r.emode ∧ r'.rmode = r.rmode ∧ r'.cap = r.cap ∧ r'.dead = r.dead := by
  by_cases hfull : r.end_ = r.cap
  · simp only [Reader.readMore, hfull, if_true] at h
    split at h
    · cases h
    · rename_i hn
      injection h with h; injection h with h1 h2
      subst h1 h2
      exact ⟨_, by omega, by omega, rfl, rfl, rfl, rfl, rfl, rfl, rfl⟩
  · simp only [Reader.readMore, hfull, if_false] at h
    split at h
    · cases h
    · rename_i hn
      injection h with h; injection h with h1 h2
      subst h1 h2
      exact ⟨_, by omega, by omega, rfl, rfl, rfl, rfl, rfl, rfl, rfl⟩

/-- the termination measure of the read loop: every iteration either delivers a frame after
    consuming ≥ 1 unread octet, or moves ≥ 1 available octet into the buffer, or ends -/
def mu (r : Reader) (avail : List Nat) : Nat := 2 * avail.length + r.pending.length

/-- any two fuels above the measure give the same run — on every input, for every reader whose
    parser state is well-formed (no other hypothesis: cursors, capacity, octet values, error and
    read mode are arbitrary) -/
theorem run_fuel_irrel : ∀ (f1 f2 : Nat) (r : Reader) (avail : List Nat), wfState r.pst →
    mu r avail < f1 → mu r avail < f2 → Reader.run f1 r avail = Reader.run f2 r avail := by
  intro f1
  induction f1 with
  | zero => intro f2 r avail _ h1 _; omega
  | succ k ih =>
    intro f2 r avail hw h1 h2
    cases f2 with
    | zero => omega
    | succ j =>
      unfold mu at h1 h2
      obtain ⟨em, rm, cap, b, e, pend, pst, dead⟩ := r
      simp only at hw h1 h2
      cases dead with
      | true => simp only [Reader.run, if_true]
      | false =>
        by_cases h0 : e - b = 0
        · simp only [Reader.run, h0, if_true, Bool.false_eq_true, if_false]
          generalize hrm : Reader.readMore _ avail = o
          cases o with
          | none => rfl
          | some x =>
            obtain ⟨r', avail'⟩ := x
            obtain ⟨n, hn0, hn1, ha, hp, hpst, _⟩ := readMore_some _ _ _ _ hrm
            simp only at hp hpst
            have hm : mu r' avail' ≤ 2 * avail.length - 1 := by
              unfold mu; rw [hp, ha]; simp only [List.length_drop, List.length_append,
                List.length_take, List.length_nil]; omega
            exact ih j r' avail' (by rw [hpst]; exact hw) (by omega) (by omega)
        · rcases hparse : parse em pst pend with ⟨st', rest, res⟩
          obtain ⟨⟨pre, hpre⟩, hw', hsome, _, _⟩ := parse_consumes_or_waits _ _ _ _ _ _ hw hparse
          have hrl : rest.length ≤ pend.length := by
            rw [hpre]; simp only [List.length_append]; omega
          cases res with
          | error e => simp only [Reader.run, h0, hparse, if_false, Bool.false_eq_true]
          | ok o =>
            cases o with
            | some x =>
              obtain ⟨h, p⟩ := x
              simp only [Reader.run, h0, hparse, if_false, Bool.false_eq_true]
              have hlt := (hsome (h, p) rfl).1
              rw [ih j _ avail hw' (by unfold mu; simp only; omega) (by unfold mu; simp only; omega)]
            | none =>
              simp only [Reader.run, h0, hparse, if_false, Bool.false_eq_true]
              generalize hrm : Reader.readMore _ avail = o
              cases o with
              | none => rfl
              | some x =>
                obtain ⟨r'', avail'⟩ := x
                obtain ⟨n, hn0, hn1, ha, hp, hpst, _⟩ := readMore_some _ _ _ _ hrm
                have hwf : wfState r''.pst := by
                  rw [hpst]; split
                  · trivial
                  · exact hw'
                have hm : mu r'' avail' ≤ 2 * avail.length + pend.length - 1 := by
                  unfold mu; rw [hp, ha]
                  split <;> simp only [List.length_drop, List.length_append,
                    List.length_take, List.length_nil] <;> omega
                exact ih j r'' avail' hwf (by omega) (by omega)

/-- **`reader_run_fuel_sufficient`.**  For EVERY input (garbage included; no hypothesis on the
    octets, the cursors, the capacity or the modes — only that the parser state is well-formed,
    which `RInv` below maintains): the fuel `Reader.feed` gives the read loop is never exhausted —
    any larger fuel produces the same reader state and the same events.  So `Reader.feed` is the
    true fixpoint of the loop of `read_frame` iterated until a read blocks. -/
theorem reader_run_fuel_sufficient (r : Reader) (avail : List Nat) (hw : wfState r.pst) :
    ∀ n, Reader.run (3 * avail.length + r.pending.length + 4 + n) r avail =
         Reader.run (3 * avail.length + r.pending.length + 4) r avail :=
  fun n => run_fuel_irrel _ _ r avail hw (by unfold mu; omega) (by unfold mu; omega)

/-- the tight bound: `2·|avail| + |pending| + 1` iterations are always enough -/
theorem reader_run_fuel_tight (r : Reader) (avail : List Nat) (hw : wfState r.pst) :
    ∀ n, Reader.run (2 * avail.length + r.pending.length + 1 + n) r avail =
         Reader.run (2 * avail.length + r.pending.length + 1) r avail :=
  fun n => run_fuel_irrel _ _ r avail hw (by unfold mu; omega) (by unfold mu; omega)

/-- `Reader.feed` does not depend on its fuel constant -/
theorem feed_eq_run (r : Reader) (chunk : List Nat) (hw : wfState r.pst) (f : Nat)
    (hf : 2 * chunk.length + r.pending.length < f) : Reader.run f r chunk = r.feed chunk :=
  run_fuel_irrel _ _ r chunk hw (by unfold mu; omega) (by unfold mu; omega)

example : wfState (Reader.new .discard .stream 2048).pst := trivial

/-- the structural invariant of the link reader: consistent cursors inside a buffer that holds
    at least one maximal frame (+1), a well-formed and bounded parser state, octets in the buffer.
    (That the unread part is shorter than a maximal frame whenever the parser waits is a
    *consequence*, `parse_consumes_or_waits`, re-established by every `parse` call.) -/
structure RInv (r : Reader) : Prop where
  capBig : 293 ≤ r.cap
  be : r.begin_ ≤ r.end_
  ec : r.end_ ≤ r.cap
  plen : r.pending.length = r.end_ - r.begin_
  wf : wfState r.pst
  bounded : boundedState r.pst
  octets : ∀ b ∈ r.pending, b < 256

theorem rinv_new (em : ErrMode) (rm : ReadMode) (frag : Nat) : RInv (Reader.new em rm frag) where
  capBig := readBufferSize_ge frag
  be := Nat.le_refl _
  ec := Nat.zero_le _
  plen := rfl
  wf := trivial
  bounded := trivial
  octets := fun b hb => by cases hb

example : RInv (Reader.new .discard .stream 2048) := rinv_new _ _ _

theorem rinv_reset (r : Reader) (h : RInv r) : RInv r.reset where
  capBig := h.capBig
  be := Nat.le_refl _
  ec := Nat.zero_le _
  plen := rfl
  wf := trivial
  bounded := trivial
  octets := fun b hb => by cases hb

/-- `read_more_data` preserves the invariant when the unread part leaves room in the buffer,
    and it blocks only when nothing is available -/
theorem rinv_readMore (r : Reader) (avail : List Nat) (h : RInv r) (hroom : r.pending.length < r.cap)
    (ha : ∀ b ∈ avail, b < 256) :
    (avail ≠ [] → r.readMore avail ≠ none) ∧
    (∀ r' avail', r.readMore avail = some (r', avail') → RInv r' ∧ (∀ b ∈ avail', b < 256)) := by
  obtain ⟨_, h2⟩ := readMore_spec r avail h.be h.ec h.plen hroom
  constructor
  · intro hne
    obtain ⟨n, r', _, _, hrm, _⟩ := h2 hne
    rw [hrm]; exact fun h => by cases h
  · intro r' avail' hrm
    have hne : avail ≠ [] := by
      intro hnil; subst hnil
      simp [Reader.readMore] at hrm
    obtain ⟨n, r'', _, _, hrm', hp, hpst, _, _, _, hcap, hbe, hec, hpl⟩ := h2 hne
    rw [hrm] at hrm'
    injection hrm' with hrm'; injection hrm' with e1 e2
    subst e1 e2
    refine ⟨⟨by rw [hcap]; exact h.capBig, hbe, hec, hpl, by rw [hpst]; exact h.wf,
      by rw [hpst]; exact h.bounded, ?_⟩, fun b hb => ha b (List.mem_of_mem_drop hb)⟩
    intro b hb
    rw [hp] at hb
    rcases List.mem_append.mp hb with hb | hb
    · exact h.octets b hb
    · exact ha b (List.mem_of_mem_take hb)

/-- the reader after `parse_buffer` + `advance_read` -/
theorem rinv_after_parse (r : Reader) (st' : PState) (rest : List Nat) (o : Option (LHeader × List Nat))
    (h : RInv r) (hparse : parse r.emode r.pst r.pending = (st', rest, .ok o)) :
    RInv { r with pst := st', pending := rest, begin_ := r.begin_ + (r.pending.length - rest.length) } ∧
    (o = none → rest.length ≤ 281) := by
  obtain ⟨⟨pre, hpre⟩, hw', hsome, _, hnone⟩ := parse_consumes_or_waits _ _ _ _ _ _ h.wf hparse
  have hrl : rest.length ≤ r.pending.length := by
    rw [hpre]; simp only [List.length_append]; omega
  have hpl := h.plen
  have hbe := h.be
  refine ⟨⟨h.capBig, by show r.begin_ + _ ≤ r.end_; omega, h.ec,
    by show rest.length = r.end_ - (r.begin_ + _); omega, hw', ?_, ?_⟩, ?_⟩
  · cases o with
    | none => exact (hnone rfl h.octets h.bounded).2
    | some x => show boundedState st'; rw [(hsome x rfl).2]; trivial
  · intro b hb
    exact h.octets b (by rw [hpre]; exact List.mem_append_right _ hb)
  · intro ho; subst ho
    exact (hnone rfl h.octets h.bounded).1

/-- the invariant is preserved by the read loop, for every fuel and every input -/
theorem rinv_run : ∀ (f : Nat) (r : Reader) (avail : List Nat), RInv r → (∀ b ∈ avail, b < 256) →
    RInv (Reader.run f r avail).1 := by
  intro f
  induction f with
  | zero => intro r avail h _; exact h
  | succ k ih =>
    intro r avail h ha
    obtain ⟨em, rm, cap, b, e, pend, pst, dead⟩ := r
    cases dead with
    | true => simp only [Reader.run, if_true]; exact h
    | false =>
      by_cases h0 : e - b = 0
      · simp only [Reader.run, h0, if_true, Bool.false_eq_true, if_false]
        have hr0 : RInv { emode := em, rmode := rm, cap := cap, begin_ := 0, end_ := 0, pending := [],
                          pst := pst, dead := false } :=
          ⟨h.capBig, Nat.le_refl _, Nat.zero_le _, rfl, h.wf, h.bounded, fun b hb => by cases hb⟩
        obtain ⟨_, hrm2⟩ := rinv_readMore _ avail hr0 (by have := h.capBig; show 0 < cap; simp only at this; omega) ha
        generalize hrm : Reader.readMore _ avail = o at hrm2 ⊢
        cases o with
        | none => exact hr0
        | some x =>
          obtain ⟨r', avail'⟩ := x
          obtain ⟨hr', ha'⟩ := hrm2 r' avail' rfl
          exact ih r' avail' hr' ha'
      · rcases hparse : parse em pst pend with ⟨st', rest, res⟩
        cases res with
        | error err =>
          simp only [Reader.run, h0, hparse, if_false, Bool.false_eq_true]
          exact ⟨h.capBig, h.be, h.ec, h.plen, h.wf, h.bounded, h.octets⟩
        | ok o =>
          obtain ⟨hr1, hshort⟩ := rinv_after_parse _ st' rest o h hparse
          cases o with
          | some x =>
            obtain ⟨hd, p⟩ := x
            simp only [Reader.run, h0, hparse, if_false, Bool.false_eq_true]
            exact ih _ avail hr1 ha
          | none =>
            simp only [Reader.run, h0, hparse, if_false, Bool.false_eq_true]
            have hs := hshort rfl
            have hcap : 293 ≤ cap := h.capBig
            cases rm with
            | stream =>
              simp only [reduceCtorEq, if_false]
              obtain ⟨_, hrm2⟩ := rinv_readMore _ avail hr1 (by show rest.length < cap; omega) ha
              generalize hrm : Reader.readMore _ avail = o at hrm2 ⊢
              cases o with
              | none => exact hr1
              | some x =>
                obtain ⟨r', avail'⟩ := x
                obtain ⟨hr', ha'⟩ := hrm2 r' avail' rfl
                exact ih r' avail' hr' ha'
            | datagram =>
              simp only [if_true]
              have hr2 : RInv { emode := em, rmode := .datagram, cap := cap, begin_ := 0, end_ := 0,
                                pending := [], pst := .sync1, dead := false } :=
                ⟨h.capBig, Nat.le_refl _, Nat.zero_le _, rfl, trivial, trivial, fun b hb => by cases hb⟩
              obtain ⟨_, hrm2⟩ := rinv_readMore _ avail hr2 (by show 0 < cap; omega) ha
              generalize hrm : Reader.readMore _ avail = o at hrm2 ⊢
              cases o with
              | none => exact hr2
              | some x =>
                obtain ⟨r', avail'⟩ := x
                obtain ⟨hr', ha'⟩ := hrm2 r' avail' rfl
                exact ih r' avail' hr' ha'

/-- the invariant holds in every reachable reader state: `Reader.feed` preserves it … -/
theorem rinv_feed (r : Reader) (chunk : List Nat) (h : RInv r) (hc : ∀ b ∈ chunk, b < 256) :
    RInv (r.feed chunk).1 := rinv_run _ r chunk h hc

/-- … and so does any sequence of writes -/
theorem rinv_feedAll : ∀ (chunks : List (List Nat)) (r : Reader), RInv r →
    (∀ c ∈ chunks, ∀ b ∈ c, b < 256) → RInv (r.feedAll chunks).1 := by
  intro chunks
  induction chunks with
  | nil => intro r h _; exact h
  | cons c cs ih =>
    intro r h hc
    simp only [Reader.feedAll]
    exact ih _ (rinv_feed r c h (hc c (List.mem_cons_self ..)))
      (fun c' hc' => hc c' (List.mem_cons_of_mem _ hc'))

example : (∀ c ∈ [[5, 0x64, 0xFF], [1, 2, 3]], ∀ b ∈ c, b < 256) := by decide

/-- `reader_never_zero_read` restated on the invariant: after a "need more" parse result the
    following `read_more_data` offers the physical layer a non-empty window, so it can only come
    back empty-handed when nothing is available (the 4th clause of `parse_consumes_or_waits`) -/
theorem reader_wait_reads_nonempty (r : Reader) (st' : PState) (rest avail : List Nat) (h : RInv r)
    (hparse : parse r.emode r.pst r.pending = (st', rest, .ok none)) (ha : avail ≠ []) :
    rest.length ≤ 281 ∧
    ({ r with pst := st', pending := rest,
              begin_ := r.begin_ + (r.pending.length - rest.length) } : Reader).readMore avail ≠ none := by
  obtain ⟨⟨pre, hpre⟩, _⟩ := parse_consumes_or_waits _ _ _ _ _ _ h.wf hparse
  have hrl : rest.length ≤ r.pending.length := by
    rw [hpre]; simp only [List.length_append]; omega
  exact reader_never_zero_read r avail rest st' h.capBig h.be h.ec h.plen h.octets h.bounded hrl hparse ha

example : RInv { emode := .close, rmode := .stream, cap := 293, begin_ := 290, end_ := 293,
                 pending := [5, 100, 9] } ∧
    parse .close .sync1 [5, 100, 9] = (.header, [9], .ok none) :=
  ⟨⟨by decide, by decide, by decide, by decide, trivial, trivial, by decide⟩, rfl⟩

/-! ### the read loop never wedges: it stops only when every available octet has been taken -/

/-- `Reader.run` instrumented with a ghost output: the available octets NOT yet read into the
    buffer when the loop stops.  Same recursion, same results (`runL_run`). -/
def runL : Nat → Reader → List Nat → Reader × List LEvent × List Nat
  | 0, r, avail => (r, [], avail)
  | fuel+1, r, avail =>
    if r.dead then (r, [], avail) else
    if r.end_ - r.begin_ = 0 then
      let r := { r with begin_ := 0, end_ := 0, pending := [] }
      match r.readMore avail with
      | none => (r, [], avail)
      | some (r', avail') => runL fuel r' avail'
    else
      match parse r.emode r.pst r.pending with
      | (_, _, .error e) => ({ r with dead := true }, [.err e], avail)
      | (pst', rest, .ok (some (h, p))) =>
        let consumed := r.pending.length - rest.length
        let r' := { r with pst := pst', pending := rest, begin_ := r.begin_ + consumed }
        let (r'', evs, left) := runL fuel r' avail
        (r'', .frame h p :: evs, left)
      | (pst', rest, .ok none) =>
        let consumed := r.pending.length - rest.length
        let r' := { r with pst := pst', pending := rest, begin_ := r.begin_ + consumed }
        let r' := if r.rmode = .datagram then
                    { r' with begin_ := 0, end_ := 0, pending := [], pst := .sync1 } else r'
        match r'.readMore avail with
        | none => (r', [], avail)
        | some (r'', avail') => runL fuel r'' avail'

/-- the instrumentation does not change the run -/
theorem runL_run : ∀ (f : Nat) (r : Reader) (avail : List Nat),
    ((runL f r avail).1, (runL f r avail).2.1) = Reader.run f r avail := by
  intro f
  induction f with
  | zero => intro r avail; rfl
  | succ k ih =>
    intro r avail
    obtain ⟨em, rm, cap, b, e, pend, pst, dead⟩ := r
    cases dead with
    | true => simp only [runL, Reader.run, if_true]
    | false =>
      by_cases h0 : e - b = 0
      · simp only [runL, Reader.run, h0, if_true, Bool.false_eq_true, if_false]
        generalize Reader.readMore _ avail = o
        cases o with
        | none => rfl
        | some x => exact ih _ _
      · rcases hparse : parse em pst pend with ⟨st', rest, res⟩
        cases res with
        | error err => simp only [runL, Reader.run, h0, hparse, if_false, Bool.false_eq_true]
        | ok o =>
          cases o with
          | some x =>
            obtain ⟨hd, p⟩ := x
            simp only [runL, Reader.run, h0, hparse, if_false, Bool.false_eq_true]
            rw [← ih]
          | none =>
            simp only [runL, Reader.run, h0, hparse, if_false, Bool.false_eq_true]
            generalize Reader.readMore _ avail = o
            cases o with
            | none => rfl
            | some x => exact ih _ _

/-- one `read_more_data` step, everything the loop proofs need -/
theorem readMore_step (r : Reader) (avail : List Nat) (h : RInv r) (hroom : r.pending.length < r.cap)
    (ha : ∀ b ∈ avail, b < 256) :
    (r.readMore avail = none → avail = []) ∧
    (∀ r' avail', r.readMore avail = some (r', avail') →
      RInv r' ∧ (∀ b ∈ avail', b < 256) ∧ mu r' avail' + 1 ≤ mu r avail ∧
      r'.emode = r.emode ∧ r'.dead = r.dead) := by
  obtain ⟨h1, h2⟩ := rinv_readMore r avail h hroom ha
  constructor
  · intro hn
    cases avail with
    | nil => rfl
    | cons a t => exact absurd hn (h1 (List.cons_ne_nil _ _))
  · intro r' avail' hrm
    obtain ⟨hi, ha'⟩ := h2 r' avail' hrm
    obtain ⟨n, hn0, hn1, hav, hp, _, hem, _, _, hdd⟩ := readMore_some _ _ _ _ hrm
    refine ⟨hi, ha', ?_, hem, hdd⟩
    unfold mu; rw [hp, hav]
    simp only [List.length_drop, List.length_append, List.length_take]; omega

/-- **the read loop never wedges.**  For every reader satisfying `RInv` and every input (octets
    < 256), with the fuel of `Reader.feed` (any fuel above the measure): when the loop stops, either
    the session is over (`dead`: a close-mode parse error was returned) or EVERY available octet has
    been read into the buffer — the loop never stops with input it refuses to read (no zero-length
    read, no full buffer that cannot be shifted).  In discard mode the session never dies, so all
    input is always consumed. -/
theorem run_never_wedges : ∀ (f : Nat) (r : Reader) (avail : List Nat), RInv r →
    (∀ b ∈ avail, b < 256) → mu r avail < f →
    ((runL f r avail).1.dead = true ∨ (runL f r avail).2.2 = []) ∧
    (r.emode = .discard → r.dead = false → (runL f r avail).1.dead = false) := by
  intro f
  induction f with
  | zero => intro r avail _ _ h; omega
  | succ k ih =>
    intro r avail h ha hmu
    obtain ⟨em, rm, cap, b, e, pend, pst, dead⟩ := r
    cases dead with
    | true => simp only [runL, if_true]; exact ⟨Or.inl trivial, fun _ h => by cases h⟩
    | false =>
      have hcap : 293 ≤ cap := h.capBig
      by_cases h0 : e - b = 0
      · simp only [runL, h0, if_true, Bool.false_eq_true, if_false]
        have hr0 : RInv { emode := em, rmode := rm, cap := cap, begin_ := 0, end_ := 0, pending := [],
                          pst := pst, dead := false } :=
          ⟨h.capBig, Nat.le_refl _, Nat.zero_le _, rfl, h.wf, h.bounded, fun b hb => by cases hb⟩
        obtain ⟨hn, hs⟩ := readMore_step _ avail hr0 (by show 0 < cap; omega) ha
        generalize hrm : Reader.readMore _ avail = o at hn hs ⊢
        cases o with
        | none => exact ⟨Or.inr (hn rfl), fun _ _ => rfl⟩
        | some x =>
          obtain ⟨r', avail'⟩ := x
          obtain ⟨hr', ha', hm, hem, hdd⟩ := hs r' avail' rfl
          have hm0 : mu { emode := em, rmode := rm, cap := cap, begin_ := 0, end_ := 0, pending := [],
                          pst := pst, dead := false } avail ≤
              mu { emode := em, rmode := rm, cap := cap, begin_ := b, end_ := e, pending := pend,
                          pst := pst, dead := false } avail := by
            unfold mu; simp only [List.length_nil]; omega
          obtain ⟨i1, i2⟩ := ih r' avail' hr' ha' (by omega)
          exact ⟨i1, fun hd _ => i2 (by rw [hem]; exact hd) (by rw [hdd])⟩
      · rcases hparse : parse em pst pend with ⟨st', rest, res⟩
        obtain ⟨⟨pre, hpre⟩, _, hsome, hdisc, _⟩ := parse_consumes_or_waits _ _ _ _ _ _ h.wf hparse
        have hrl : rest.length ≤ pend.length := by
          rw [hpre]; simp only [List.length_append]; omega
        unfold mu at hmu; simp only at hmu
        cases res with
        | error err =>
          simp only [runL, h0, hparse, if_false, Bool.false_eq_true]
          refine ⟨Or.inl trivial, fun hd _ => ?_⟩
          obtain ⟨x, hx⟩ := hdisc hd
          cases hx
        | ok o =>
          obtain ⟨hr1, hshort⟩ := rinv_after_parse _ st' rest o h hparse
          cases o with
          | some x =>
            obtain ⟨hd, p⟩ := x
            simp only [runL, h0, hparse, if_false, Bool.false_eq_true]
            have hlt := (hsome (hd, p) rfl).1
            obtain ⟨i1, i2⟩ := ih _ avail hr1 ha (by unfold mu; simp only; omega)
            exact ⟨i1, fun hd _ => i2 hd rfl⟩
          | none =>
            simp only [runL, h0, hparse, if_false, Bool.false_eq_true]
            have hs281 := hshort rfl
            cases rm with
            | stream =>
              simp only [reduceCtorEq, if_false]
              obtain ⟨hn, hs⟩ := readMore_step _ avail hr1 (by show rest.length < cap; omega) ha
              generalize hrm : Reader.readMore _ avail = o at hn hs ⊢
              cases o with
              | none => exact ⟨Or.inr (hn rfl), fun _ _ => rfl⟩
              | some x =>
                obtain ⟨r', avail'⟩ := x
                obtain ⟨hr', ha', hm, hem, hdd⟩ := hs r' avail' rfl
                unfold mu at hm; simp only at hm
                obtain ⟨i1, i2⟩ := ih r' avail' hr' ha' (by unfold mu; omega)
                exact ⟨i1, fun hd _ => i2 (by rw [hem]; exact hd) (by rw [hdd])⟩
            | datagram =>
              simp only [if_true]
              have hr2 : RInv { emode := em, rmode := .datagram, cap := cap, begin_ := 0, end_ := 0,
                                pending := [], pst := .sync1, dead := false } :=
                ⟨h.capBig, Nat.le_refl _, Nat.zero_le _, rfl, trivial, trivial, fun b hb => by cases hb⟩
              obtain ⟨hn, hs⟩ := readMore_step _ avail hr2 (by show 0 < cap; omega) ha
              generalize hrm : Reader.readMore _ avail = o at hn hs ⊢
              cases o with
              | none => exact ⟨Or.inr (hn rfl), fun _ _ => rfl⟩
              | some x =>
                obtain ⟨r', avail'⟩ := x
                obtain ⟨hr', ha', hm, hem, hdd⟩ := hs r' avail' rfl
                unfold mu at hm; simp only [List.length_nil] at hm
                obtain ⟨i1, i2⟩ := ih r' avail' hr' ha' (by unfold mu; omega)
                exact ⟨i1, fun hd _ => i2 (by rw [hem]; exact hd) (by rw [hdd])⟩

/-- `Reader.feed` in the instrumented form: same reader, same events, plus the unread input -/
theorem feed_never_wedges (r : Reader) (chunk : List Nat) (h : RInv r) (hc : ∀ b ∈ chunk, b < 256) :
    ((runL (3 * chunk.length + r.pending.length + 4) r chunk).1,
      (runL (3 * chunk.length + r.pending.length + 4) r chunk).2.1) = r.feed chunk ∧
    ((r.feed chunk).1.dead = true ∨ (runL (3 * chunk.length + r.pending.length + 4) r chunk).2.2 = []) ∧
    (r.emode = .discard → r.dead = false → (r.feed chunk).1.dead = false) := by
  have h1 := runL_run (3 * chunk.length + r.pending.length + 4) r chunk
  obtain ⟨h2, h3⟩ := run_never_wedges (3 * chunk.length + r.pending.length + 4) r chunk h hc
    (by unfold mu; omega)
  have hfst : (r.feed chunk).1 = (runL (3 * chunk.length + r.pending.length + 4) r chunk).1 := by
    unfold Reader.feed; rw [← h1]
  exact ⟨h1, by rw [hfst]; exact h2, by rw [hfst]; exact h3⟩

example : RInv (Reader.new .close .datagram 249) ∧ ∀ b ∈ [5, 0x64, 0xFF, 0xFF], b < 256 :=
  ⟨rinv_new _ _ _, by decide⟩

/-! ## 5. transport `Reader::read` and the drain loop -/

/-- every recursive call of transport `read` has removed one queued link event: any two fuels
    above the queue length give the same result.  No hypotheses on the reader. -/
theorem tread_fuel_irrel : ∀ (f1 f2 : Nat) (t : TReader), t.queue.length < f1 → t.queue.length < f2 →
    TReader.read f1 t = TReader.read f2 t := by
  intro f1
  induction f1 with
  | zero => intro f2 t h1 _; omega
  | succ k ih =>
    intro f2 t h1 h2
    cases f2 with
    | zero => omega
    | succ j =>
      obtain ⟨cfg, link, sec, asm, pm, queue⟩ := t
      simp only at h1 h2
      cases queue with
      | nil => simp only [TReader.read]
      | cons ev rest =>
        simp only [List.length_cons] at h1 h2
        have key : ∀ t' : TReader, t'.queue = rest → TReader.read k t' = TReader.read j t' :=
          fun t' ht => ih j t' (by rw [ht]; omega) (by rw [ht]; omega)
        cases ev with
        | err e => simp only [TReader.read]
        | frame h payload =>
          simp only [TReader.read]
          repeat' split
          all_goals first
            | rfl
            | (rw [key _ rfl])

/-- **`transport_read_fuel_sufficient`.**  Transport `Reader::read` is called with fuel
    `queue.length + 2`; each recursive call has removed one queued link event, so any larger fuel
    gives the same result.  No hypotheses. -/
theorem transport_read_fuel_sufficient (t : TReader) :
    ∀ n, TReader.read (t.queue.length + 2 + n) t = TReader.read (t.queue.length + 2) t :=
  fun n => tread_fuel_irrel _ _ t (by omega) (by omega)

/-- the measure of the drain loop: queued link events, plus one for a completed fragment waiting
    to be popped, plus one for a pending link-status message -/
def dM (t : TReader) : Nat :=
  t.queue.length + (if t.asm.isComplete then 1 else 0) + (if t.pendingMsg.isSome then 1 else 0)

/-- something to `pop` -/
def flag (t : TReader) : Prop := t.asm.isComplete = true ∨ t.pendingMsg.isSome = true

def ReadOk (t0 : TReader) (res : TReader × List TOut × Option Bool) : Prop :=
  dM res.1 ≤ dM t0 ∧ (res.2.2 = some true → flag res.1) ∧ (flag t0 → flag res.1)

theorem ReadOk_rec {t0 t2 : TReader} {x : TReader × List TOut × Option Bool} {outs : List TOut}
    (h : ReadOk t2 x) (hm : dM t2 ≤ dM t0) (hf : flag t0 → flag t2) :
    ReadOk t0 (x.1, outs ++ x.2.1, x.2.2) :=
  ⟨Nat.le_trans h.1 hm, h.2.1, fun h0 => h.2.2 (hf h0)⟩

/-- transport `read` never increases the measure; when it returns `Ok` there is something to pop;
    and it never clears what there is to pop -/
theorem tread_measure : ∀ (f : Nat) (t : TReader), ReadOk t (TReader.read f t) := by
  intro f
  induction f with
  | zero => intro t; exact ⟨Nat.le_refl _, (fun h => by cases h), id⟩
  | succ k ih =>
    intro t
    obtain ⟨cfg, link, sec, asm, pm, queue⟩ := t
    cases hc : asm.isComplete with
    | true => simp only [TReader.read, hc, if_true]; exact ⟨Nat.le_refl _, fun _ => Or.inl hc, id⟩
    | false =>
      cases queue with
      | nil => simp only [TReader.read, hc, Bool.false_eq_true, if_false]; exact ⟨Nat.le_refl _, (fun h => by cases h), id⟩
      | cons ev rest =>
        cases ev with
        | err e =>
          simp only [TReader.read, hc, Bool.false_eq_true, if_false]
          exact ⟨by simp [dM], (fun h => by cases h), fun h => by simpa [flag, hc] using h⟩
        | frame h payload =>
          simp only [TReader.read, hc, Bool.false_eq_true, if_false]
          repeat' split
          all_goals first
            | (refine ReadOk_rec (ih _) ?_ ?_
               · simp [dM] <;> (try split) <;> omega
               · intro hf; simp [flag, hc] at hf ⊢ <;> simp [hf])
            | (rename_i hh; exact absurd hh (by decide))
            | (refine ⟨?_, fun _ => ?_, fun hf => ?_⟩
               · simp [dM, *] <;> (try split) <;> omega
               · simp [flag, *]
               · simp [flag, hc] at hf ⊢ <;> simp [*])
            | trace_state

theorem tpop_measure (t : TReader) (h : flag t) : dM t.pop.1 + 1 ≤ dM t := by
  obtain ⟨cfg, link, sec, asm, pm, queue⟩ := t
  cases pm with
  | some x => obtain ⟨s, q⟩ := x; simp [TReader.pop, dM]; exact Nat.le_refl _
  | none =>
    have hc : asm.isComplete = true := by simpa [flag] using h
    obtain ⟨st, fid, buf, cap⟩ := asm
    cases st with
    | complete fi len => simp [TReader.pop, Assembler.pop, dM, Assembler.isComplete]
    | empty => simp [Assembler.isComplete] at hc
    | running i s l => simp [Assembler.isComplete] at hc

/-- the drain loop: any two fuels ≥ the measure give the same result -/
theorem tdrain_fuel_irrel : ∀ (f1 f2 : Nat) (dbl : Bool) (t : TReader), dM t ≤ f1 → dM t ≤ f2 →
    TReader.drain f1 dbl t = TReader.drain f2 dbl t := by
  have hzero : ∀ (j : Nat) (dbl : Bool) (t : TReader), dM t = 0 → TReader.drain j dbl t = (t, []) := by
    intro j dbl t h0
    cases j with
    | zero => rfl
    | succ j =>
      obtain ⟨cfg, link, sec, asm, pm, queue⟩ := t
      have hq : queue = [] := by
        cases queue with
        | nil => rfl
        | cons a b => simp [dM] at h0
      have hc : asm.isComplete = false := by
        cases hh : asm.isComplete with
        | false => rfl
        | true => simp [dM, hh] at h0
      subst hq
      simp [TReader.drain, TReader.read, hc]
  intro f1
  induction f1 with
  | zero => intro f2 dbl t h1 _; rw [hzero 0 dbl t (by omega), hzero f2 dbl t (by omega)]
  | succ k ih =>
    intro f2 dbl t h1 h2
    cases f2 with
    | zero => rw [hzero 0 dbl t (by omega), hzero (k+1) dbl t (by omega)]
    | succ j =>
      simp only [TReader.drain]
      have hm1 := tread_measure (t.queue.length + 2) t
      rcases hrd : TReader.read (t.queue.length + 2) t with ⟨t1, o1, r1⟩
      rw [hrd] at hm1
      obtain ⟨hle1, hfl1, _⟩ := hm1
      cases r1 with
      | none => rfl
      | some b =>
        cases b with
        | false => rfl
        | true =>
          simp only at hle1 hfl1 ⊢
          have hf1 := hfl1 trivial
          cases dbl with
          | false =>
            simp only [Bool.false_eq_true, if_false]
            have := tpop_measure t1 hf1
            rw [ih j false t1.pop.1 (by omega) (by omega)]
          | true =>
            simp only [if_true]
            have hm2 := tread_measure (t1.queue.length + 2) t1
            rcases hrd2 : TReader.read (t1.queue.length + 2) t1 with ⟨t2, o2, r2⟩
            rw [hrd2] at hm2
            obtain ⟨hle2, _, hfl2⟩ := hm2
            simp only at hle2 hfl2 ⊢
            have := tpop_measure t2 (hfl2 hf1)
            rw [ih j true t2.pop.1 (by omega) (by omega)]

theorem dM_le (t : TReader) : dM t ≤ t.queue.length + 2 := by
  unfold dM; split <;> split <;> omega

/-- **`transport_drain_fuel_sufficient`.**  The drain loop (`read` until it blocks or fails, `pop`
    after every `Ok`) is called with fuel `queue.length + 2`.  Every `Ok` iteration strictly
    decreases `dM` = queued events + (a completed fragment to pop) + (a pending link-status
    message to pop): `read` never increases it and never clears what is to be popped, `pop` removes
    one.  At `dM = 0` the loop has nothing to do (`read` blocks without output), so fuel ≥ `dM`
    — in particular `queue.length + 2` — is never exhausted: any larger fuel gives the same result.
    Holds for every reader state, both for the single- and the double-`read` harness. -/
theorem transport_drain_fuel_sufficient (t : TReader) (dbl : Bool) :
    ∀ n, TReader.drain (t.queue.length + 2 + n) dbl t = TReader.drain (t.queue.length + 2) dbl t :=
  fun n => tdrain_fuel_irrel _ _ dbl t (by have := dM_le t; omega) (dM_le t)

/-! ## 6. the transport assembler stays inside its buffer -/

/-- the accumulated length recorded in the assembler state -/
def stLen : AState → Option Nat
  | .empty => none
  | .running _ _ l => some l
  | .complete _ l => some l

/-- the assembler invariant: the accumulated octets fit the buffer (`cap` = its fixed size), and
    the length recorded in a `running` / `complete` state is exactly the number accumulated -/
structure AInv (a : Assembler) : Prop where
  bufLe : a.buf.length ≤ a.cap
  recEq : ∀ l, stLen a.st = some l → l = a.buf.length

/-- `Assembler::append` at an offset inside what has been accumulated: the copy
    `buffer[acc .. acc + data.len()]` happens only when `acc + data.len() ≤ cap` -/
theorem append_inv (a : Assembler) (info : FrameInfo) (hdr : THeader) (acc : Nat) (data : List Nat)
    (hb : a.buf.length ≤ a.cap) (hacc : acc ≤ a.buf.length) :
    AInv (a.append info hdr acc data) ∧ (a.append info hdr acc data).cap = a.cap := by
  unfold Assembler.append
  simp only
  split
  · exact ⟨⟨hb, fun l hl => by cases hl⟩, rfl⟩
  · split
    · refine ⟨⟨?_, ?_⟩, rfl⟩
      · simp only [List.length_append, List.length_take]; omega
      · intro l hl; injection hl with hl; subst hl
        simp only [List.length_append, List.length_take]; omega
    · refine ⟨⟨?_, ?_⟩, rfl⟩
      · simp only [List.length_append, List.length_take]; omega
      · intro l hl; injection hl with hl; subst hl
        simp only [List.length_append, List.length_take]; omega

theorem ainv_clear (a : Assembler) (h : AInv a) : AInv { a with st := .empty } :=
  ⟨h.bufLe, fun l hl => by cases hl⟩

/-- **`assembler_total`.**  For every transport header and every payload, `assemble` keeps the
    invariant: it never stores more than `cap` octets (the buffer size never changes), every
    `append` it makes is at an offset inside the accumulated octets with the end inside the
    buffer (the slice-in-bounds fact behind `assembler.rs::append`), and the recorded length stays
    exact. -/
theorem assembler_total (a : Assembler) (info : FrameInfo) (hdr : THeader) (payload : List Nat)
    (h : AInv a) :
    AInv (a.assemble info hdr payload) ∧ (a.assemble info hdr payload).cap = a.cap ∧
    (a.assemble info hdr payload).buf.length ≤ a.cap := by
  have key : AInv (a.assemble info hdr payload) ∧ (a.assemble info hdr payload).cap = a.cap := by
    unfold Assembler.assemble
    simp only
    have h0 : AInv (if hdr.fir = true then { a with st := .empty } else a) ∧
        (if hdr.fir = true then { a with st := AState.empty } else a).cap = a.cap ∧
        (if hdr.fir = true then { a with st := AState.empty } else a).buf = a.buf := by
      split
      · exact ⟨ainv_clear a h, rfl, rfl⟩
      · exact ⟨h, rfl, rfl⟩
    generalize (if hdr.fir = true then { a with st := AState.empty } else a) = a0 at h0 ⊢
    obtain ⟨hi0, hc0, hb0⟩ := h0
    rw [← hc0]
    split
    · split
      · exact append_inv a0 info hdr 0 payload hi0.bufLe (Nat.zero_le _)
      · exact ⟨hi0, rfl⟩
    · split
      · exact append_inv { a0 with st := .empty } info hdr 0 payload hi0.bufLe (Nat.zero_le _)
      · split
        · exact ⟨hi0, rfl⟩
        · exact append_inv a0 info hdr 0 payload hi0.bufLe (Nat.zero_le _)
      · rename_i pinfo pseq len hst
        split
        · exact ⟨ainv_clear a0 hi0, rfl⟩
        · split
          · exact ⟨ainv_clear a0 hi0, rfl⟩
          · have := hi0.recEq len (by rw [hst]; rfl)
            exact append_inv a0 info hdr len payload hi0.bufLe (by omega)
  exact ⟨key.1, key.2, by have := key.1.bufLe; rw [key.2] at this; exact this⟩

example : AInv ({ cap := 2048 } : Assembler) := ⟨Nat.zero_le _, fun l hl => by cases hl⟩

/-- `Assembler::pop`: the fragment handed to the application is exactly the accumulated octets,
    at most `cap` of them, and the invariant is kept -/
theorem assembler_pop_bounded (a : Assembler) (h : AInv a) :
    AInv a.pop.1 ∧ a.pop.1.cap = a.cap ∧
    ∀ fi d, a.pop.2 = some (fi, d) → d = a.buf ∧ d.length ≤ a.cap := by
  unfold Assembler.pop
  split
  · rename_i fi len hst
    refine ⟨ainv_clear a h, rfl, ?_⟩
    intro fi' d hd
    injection hd with hd; injection hd with _ hd
    subst hd
    have := h.recEq len (by rw [hst]; rfl)
    have hb := h.bufLe
    subst this
    exact ⟨List.take_length, by simp only [List.take_length]; exact hb⟩
  · exact ⟨h, rfl, fun fi d hd => by cases hd⟩

/-! ### the assembler invariant holds in every reachable transport-reader state -/

def AOk (t0 : TReader) (res : TReader × List TOut × Option Bool) : Prop :=
  AInv res.1.asm ∧ res.1.asm.cap = t0.asm.cap ∧ ∀ fi d, TOut.frag fi d ∉ res.2.1

theorem AOk_rec {t0 t2 : TReader} {x : TReader × List TOut × Option Bool} {outs : List TOut}
    (h : AOk t2 x) (hc : t2.asm.cap = t0.asm.cap) (ho : ∀ fi d, TOut.frag fi d ∉ outs) :
    AOk t0 (x.1, outs ++ x.2.1, x.2.2) :=
  ⟨h.1, h.2.1.trans hc, fun fi d hm => by
    rcases List.mem_append.mp hm with hm | hm
    · exact ho fi d hm
    · exact h.2.2 fi d hm⟩

/-- transport `read` keeps the assembler invariant and never itself outputs a fragment -/
theorem ainv_tread : ∀ (f : Nat) (t : TReader), AInv t.asm → AOk t (TReader.read f t) := by
  intro f
  induction f with
  | zero => intro t h; exact ⟨h, rfl, fun _ _ hm => by cases hm⟩
  | succ k ih =>
    intro t hinv
    obtain ⟨cfg, link, sec, asm, pm, queue⟩ := t
    simp only at hinv
    cases hc : asm.isComplete with
    | true => simp only [TReader.read, hc, if_true]; exact ⟨hinv, rfl, fun _ _ hm => by cases hm⟩
    | false =>
      cases queue with
      | nil =>
        simp only [TReader.read, hc, Bool.false_eq_true, if_false]
        exact ⟨hinv, rfl, fun _ _ hm => by cases hm⟩
      | cons ev rest =>
        cases ev with
        | err e =>
          simp only [TReader.read, hc, Bool.false_eq_true, if_false]
          exact ⟨hinv, rfl, fun _ _ hm => by simp at hm⟩
        | frame h payload =>
          simp only [TReader.read, hc, Bool.false_eq_true, if_false]
          repeat' split
          all_goals first
            | (refine AOk_rec (ih _ hinv) rfl ?_
               intro _ _ hm; simp at hm)
            | (refine AOk_rec (ih _ (assembler_total asm _ _ _ hinv).1) (assembler_total asm _ _ _ hinv).2.1 ?_
               intro _ _ hm; simp at hm)
            | (exact ⟨hinv, rfl, fun _ _ hm => by simp at hm⟩)
            | (exact ⟨(assembler_total asm _ _ _ hinv).1, (assembler_total asm _ _ _ hinv).2.1,
                 fun _ _ hm => by simp at hm⟩)
            | trace_state

/-- transport `pop`: the invariant is kept and a popped fragment has at most `cap` octets -/
theorem ainv_tpop (t : TReader) (h : AInv t.asm) :
    AInv t.pop.1.asm ∧ t.pop.1.asm.cap = t.asm.cap ∧
    ∀ fi d, t.pop.2 = some (.frag fi d) → d.length ≤ t.asm.cap := by
  obtain ⟨cfg, link, sec, asm, pm, queue⟩ := t
  simp only at h
  cases pm with
  | some x =>
    obtain ⟨s, q⟩ := x
    exact ⟨h, rfl, fun fi d hd => by simp [TReader.pop] at hd⟩
  | none =>
    obtain ⟨h1, h2, h3⟩ := assembler_pop_bounded asm h
    refine ⟨h1, h2, ?_⟩
    intro fi d hd
    simp only [TReader.pop] at hd
    cases hp : asm.pop.2 with
    | none => rw [hp] at hd; cases hd
    | some x =>
      obtain ⟨fi', d'⟩ := x
      rw [hp] at hd
      simp only [Option.map_some, Option.some.injEq, TOut.frag.injEq] at hd
      obtain ⟨_, hd⟩ := hd
      subst hd
      exact (h3 fi' d' hp).2

/-- the drain loop: invariant kept; every fragment handed to the application fits the buffer -/
theorem ainv_tdrain : ∀ (f : Nat) (dbl : Bool) (t : TReader), AInv t.asm →
    AInv (TReader.drain f dbl t).1.asm ∧ (TReader.drain f dbl t).1.asm.cap = t.asm.cap ∧
    ∀ fi d, TOut.frag fi d ∈ (TReader.drain f dbl t).2 → d.length ≤ t.asm.cap := by
  intro f
  induction f with
  | zero => intro dbl t h; exact ⟨h, rfl, fun _ _ hm => by cases hm⟩
  | succ k ih =>
    intro dbl t h
    simp only [TReader.drain]
    have hr1 := ainv_tread (t.queue.length + 2) t h
    rcases hrd : TReader.read (t.queue.length + 2) t with ⟨t1, o1, r1⟩
    rw [hrd] at hr1
    obtain ⟨hi1, hc1, hn1⟩ := hr1
    simp only at hi1 hc1 hn1
    cases r1 with
    | none => exact ⟨hi1, hc1, fun fi d hm => absurd hm (hn1 fi d)⟩
    | some b =>
      cases b with
      | false => exact ⟨hi1, hc1, fun fi d hm => absurd hm (hn1 fi d)⟩
      | true =>
        simp only
        cases dbl with
        | false =>
          simp only [Bool.false_eq_true, if_false]
          obtain ⟨hp1, hp2, hp3⟩ := ainv_tpop t1 hi1
          obtain ⟨hd1, hd2, hd3⟩ := ih false t1.pop.1 hp1
          refine ⟨hd1, by rw [hd2, hp2, hc1], ?_⟩
          intro fi d hm
          simp only [List.append_nil, List.append_assoc, List.mem_append] at hm
          rcases hm with hm | hm | hm
          · exact absurd hm (hn1 fi d)
          · rw [← hc1]; exact hp3 fi d (by simpa using hm)
          · have := hd3 fi d hm; rw [hp2, hc1] at this; exact this
        | true =>
          simp only [if_true]
          have hr2 := ainv_tread (t1.queue.length + 2) t1 hi1
          rcases hrd2 : TReader.read (t1.queue.length + 2) t1 with ⟨t2, o2, r2⟩
          rw [hrd2] at hr2
          obtain ⟨hi2, hc2, hn2⟩ := hr2
          simp only at hi2 hc2 hn2 ⊢
          obtain ⟨hp1, hp2, hp3⟩ := ainv_tpop t2 hi2
          obtain ⟨hd1, hd2, hd3⟩ := ih true t2.pop.1 hp1
          refine ⟨hd1, by rw [hd2, hp2, hc2, hc1], ?_⟩
          intro fi d hm
          simp only [List.append_assoc, List.mem_append] at hm
          rcases hm with hm | hm | hm | hm
          · exact absurd hm (hn1 fi d)
          · exact absurd hm (hn2 fi d)
          · rw [← hc1, ← hc2]; exact hp3 fi d (by simpa using hm)
          · have := hd3 fi d hm; rw [hp2, hc2, hc1] at this; exact this

/-- **end to end**: octets arrive on the wire (`TReader.feed`): the assembler invariant is kept,
    and every fragment handed to the application has at most `cap` octets -/
theorem ainv_tfeed (t : TReader) (dbl : Bool) (chunk : List Nat) (h : AInv t.asm) :
    AInv (t.feed dbl chunk).1.asm ∧ (t.feed dbl chunk).1.asm.cap = t.asm.cap ∧
    ∀ fi d, TOut.frag fi d ∈ (t.feed dbl chunk).2 → d.length ≤ t.asm.cap := by
  unfold TReader.feed
  exact ainv_tdrain _ dbl _ h

example : AInv (TReader.new ⟨false, false, 1024⟩ .discard .stream 2048).asm :=
  ⟨Nat.zero_le _, fun l hl => by cases hl⟩

open Dnp3.App

/-! ## 7. the object-header walk and the lazy iterators -/

/-- **`walk_progress`** (re-export of `App.parseOne_length`, the `decreasing_by` argument of
    `walk` / `walkPrefix`): every accepted object header strictly shortens the input, so
    `ObjectParser::parse` is a well-founded recursion on the remaining octets — for every input. -/
theorem walk_progress {isRead zls : Bool} {bs rest : List Nat} {rec : HeaderRec}
    (h : parseOne isRead zls bs = .ok (rec, rest)) : rest.length < bs.length :=
  App.parseOne_length h

/-- sharper: every accepted header consumes at least its three fixed octets (group, variation,
    qualifier) -/
theorem walk_progress_three {isRead zls : Bool} {bs rest : List Nat} {rec : HeaderRec}
    (h : parseOne isRead zls bs = .ok (rec, rest)) : rest.length + 3 ≤ bs.length := by
  unfold parseOne at h
  repeat' split at h
  all_goals first
    | (cases h; done)
    | (rename_i hs; have := parseSpec_len hs; have := parseBody_len h; simp only [List.length_cons]; omega)

example : parseOne false false [1, 2, 0, 3, 4, 0x81, 0x01] =
    .ok (⟨.fixed 1 2, .range false 3 4, .fixed 1 2, [0x81, 0x01]⟩, []) := rfl

/-- hence an accepted object section of `n` octets holds at most `n / 3` headers -/
theorem walk_headers_bounded (isRead zls : Bool) (bs : List Nat) (recs : List HeaderRec)
    (h : walk isRead zls bs = .ok recs) : 3 * recs.length ≤ bs.length := by
  fun_induction walk isRead zls bs generalizing recs with
  | case1 bs hempty => injection h with h; subst h; simp
  | case2 bs hne e he => cases h
  | case3 bs hne r rest hp e hw ih => cases h
  | case4 bs hne r rest hp rs hw ih =>
    injection h with h; subst h
    have := walk_progress_three hp
    have := ih rs hw
    simp only [List.length_cons]; omega

/-- `RangedBytesIterator`: the guarded `index += 1` never overflows when the last index is at most
    65535 — for ANY payload (also one shorter than announced); `Dnp3.App.iterRangedBytes_no_panic` -/
theorem iterRangedBytes_ok (size : Nat) : ∀ (rem : Nat) (data : List Nat) (index : Nat),
    index + rem ≤ 65536 → ∃ items, iterRangedBytes size data index rem = .ok items :=
  Dnp3.App.iterRangedBytes_no_panic size

/-- `BitIterator` / `DoubleBitIterator`: the guarded `index += 1` never overflows when the last
    index is at most 65535 — for any packed octets -/
theorem iterBitsA_ok (perItem : Nat) (bytes : Array Nat) (count index pos : Nat)
    (h : index + (count - pos) ≤ 65536) : ∃ items, iterBitsA perItem bytes count index pos = .ok items := by
  fun_induction iterBitsA perItem bytes count index pos
  all_goals first
    | exact ⟨_, rfl⟩
    | omega
    | (rename_i he ih
       obtain ⟨items, hi⟩ := ih (by omega)
       rw [hi] at he; cases he)

/-- **`iter_no_panic`.**  Iterating an accepted header never panics, for every payload kind and
    ANY payload octets, provided the announced index range stays inside `u16` (last index ≤ 65535),
    which every accepted range header satisfies (`start ≤ stop ≤ 65535`).  Before the repair of D2
    (`fix:` 320622f) the octet-string case needed last index < 65535.
    Every other iterator is total by construction (`chunks`: well-founded on the remaining octets
    with `SIZE > 0`; `iterPrefixedBytes`, `iterRangedBytes`: structural on `remaining`;
    `iterBitsA`: well-founded on `count - pos`). -/
theorem iter_no_panic (r : HeaderRec)
    (hidx : r.kind = .octets ∨ r.kind = .bits ∨ r.kind = .dbits → r.spec.start + r.spec.nobj ≤ 65536) :
    iterPanics r = false := by
  obtain ⟨var, spec, kind, payload⟩ := r
  simp only at hidx
  unfold iterPanics iterate
  cases kind with
  | bits =>
    obtain ⟨items, hi⟩ := iterBitsA_ok 8 payload.toArray spec.nobj spec.start 0 (by have := hidx (Or.inr (Or.inl rfl)); omega)
    simp only [iterBits, hi]
  | dbits =>
    obtain ⟨items, hi⟩ := iterBitsA_ok 4 payload.toArray spec.nobj spec.start 0 (by have := hidx (Or.inr (Or.inr rfl)); omega)
    simp only [iterBits, hi]
  | octets =>
    obtain ⟨items, hi⟩ := iterRangedBytes_ok var.var spec.nobj payload spec.start (hidx (Or.inl rfl))
    simp only [hi]
  | fixed g v => cases spec <;> rfl
  | _ => rfl

example : (⟨.wild 110 1, .range true 65535 65535, .octets, [0x41]⟩ : HeaderRec).spec.start +
    (⟨.wild 110 1, .range true 65535 65535, .octets, [0x41]⟩ : HeaderRec).spec.nobj ≤ 65536 := by decide

/-- the former D2 witness is now iterated cleanly: `6E 01 01 FF FF FF FF 41` (g110v1, 16-bit range
    65535..65535) is accepted and yields its one object at index 65535 -/
theorem iter_end_of_index_space :
    parseOne false false [110, 1, 1, 255, 255, 255, 255, 0x41] =
      .ok (⟨.wild 110 1, .range true 65535 65535, .octets, [0x41]⟩, []) ∧
    iterate ⟨.wild 110 1, .range true 65535 65535, .octets, [0x41]⟩ = some (.ok [⟨some 65535, [0x41]⟩]) ∧
    iterPanics ⟨.wild 110 1, .range true 65535 65535, .octets, [0x41]⟩ = false :=
  ⟨Props.C09.ranged_bytes_header_accepted, Props.C09.ranged_bytes_iter_end_of_index_space.1, rfl⟩

end Dnp3.Proofs.NoPanicLink
