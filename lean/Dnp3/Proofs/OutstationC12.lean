import Dnp3.Model.OutstationTrace
import Dnp3.Proofs.Database
import Dnp3.Proofs.FreezeAtTime
/-!
# C12 — outstation replies are well-formed, correlated, bounded, and report rejections

Theorems about the outstation session model (`Dnp3.Model.Outstation`).  The database component
(`Dnp3.Model.Database`) is treated as opaque: no general theorem unfolds a `Db.*` definition; what
is needed from it is the explicit hypothesis `DbContract`.  Only the `example`s / evaluated
counterexamples in the last section run the current stub.

Contents
1. `Inv`, `TxShape`: invariant and shape of everything transmitted (`step_preserves_inv`,
   `step_tx_shape`, `run_tx_shape`, `trace_tx_shape`, `reachable_inv`).
2. `solicited_correlated_idle`, `idle_repeat_echo_verbatim` (D14 repaired), `solWait_confirm_continues`, `solContinuation_stores`, `continuation_correlated`,
   `nonread_response_correlated`, `rejection_flagged_header`.
3. `unsolicited_numbering`, `unsolicited_retry_verbatim`.
4. `silent_functions_nonread`, `silent_functions_partial`, `silent_confirm_idle`.
5. `rejection_flagged_*`, `rejection_header_broadcast_silent`, `popRequest_foreign` (D6 repaired),
   `parseObjects_error`, `write_accumulates`,
   `write_rejection_flagged` (full; D7 repaired), `rejection_flagged_write`,
   `rejection_flagged_freeze_at_time` (FREEZE_AT_TIME: `freezeAtRej`), `rejection_flagged_freeze_at_time_nonread`.
6. `handleControls_total`, `operate_echo_overflow_clean` (D1 repaired), `select_echo_overflow_clean` (D13) and evaluated counterexamples.
-/
namespace Dnp3.Proofs.C12
open Dnp3
open Dnp3.Proofs.FreezeAtTime

/-! ## Database contract (the database component is opaque) -/

/-- the only facts about the database the shape theorems need: response writers respect the
    capacity of the cursor they are given -/
structure DbContract : Prop where
  writeResponse_len : ∀ (db : Db) (cap : Nat), (db.writeResponse cap).2.1.length ≤ cap
  writeUnsolicited_len : ∀ (db : Db) (c1 c2 c3 : Bool) (cap : Nat),
    (db.writeUnsolicited c1 c2 c3 cap).2.1.length ≤ cap

/-! ## Control octet -/

theorem ofNat_toNat : ∀ (fir fin con uns : Bool) (seq : Nat), seq < 16 →
    AppCtrl.ofNat (AppCtrl.toNat ⟨fir, fin, con, uns, seq⟩) = ⟨fir, fin, con, uns, seq⟩ := by decide

theorem ofNat_toNat' (c : AppCtrl) (h : c.seq < 16) : AppCtrl.ofNat c.toNat = c := by
  cases c; exact ofNat_toNat _ _ _ _ _ h

theorem toNat_lt : ∀ (fir fin con uns : Bool) (seq : Nat), seq < 16 →
    AppCtrl.toNat ⟨fir, fin, con, uns, seq⟩ < 256 := by decide

theorem toNat_and_10 : ∀ (fir fin con uns : Bool) (seq : Nat), seq < 16 →
    (AppCtrl.toNat ⟨fir, fin, con, uns, seq⟩ &&& 0x10) = if uns then 0x10 else 0 := by decide

theorem toNat_and_F0 : ∀ (seq : Nat), seq < 16 →
    (AppCtrl.toNat ⟨true, true, true, true, seq⟩ &&& 0xF0) = 0xF0 := by decide

theorem toNat_and_0F : ∀ (fir fin con uns : Bool) (seq : Nat), seq < 16 →
    (AppCtrl.toNat ⟨fir, fin, con, uns, seq⟩ &&& 0x0F) = seq := by decide

theorem ofNat_seq_lt (b : Nat) : (AppCtrl.ofNat b).seq < 16 := by
  show b &&& 0x0F < 16
  exact Nat.lt_of_le_of_lt Nat.and_le_right (by decide)

theorem seq4Next_lt (s : Nat) (h : s < 16) : seq4Next s < 16 := by
  unfold seq4Next; split <;> omega

/-! ## Buffers -/

theorem writeAt_length (buf : List Nat) (off : Nat) (data : List Nat) (h : off + data.length ≤ buf.length) :
    (writeAt buf off data).length = buf.length := by
  simp [writeAt]; omega

/-- what `repeat_solicited` / `repeat_unsolicited` put on the wire: the 4 header octets of `r`
    followed by `max 4 size - 4` octets of the buffer -/
theorem writeAt_hdr_take (buf : List Nat) (r : Resp) (n : Nat) (h4 : 4 ≤ n) (hn : n ≤ buf.length) :
    ∃ rest, (writeAt buf 0 (respHeader r)).take n = respHeader r ++ rest ∧ rest.length = n - 4 := by
  refine ⟨(buf.drop 4).take (n - 4), ?_, ?_⟩
  · obtain ⟨m, rfl⟩ : ∃ m, n = m + 4 := ⟨n - 4, by omega⟩
    simp [writeAt, respHeader]
  · simp; omega

/-! ## Well-formed responses, well-formed outputs -/

/-- a solicited response as it is stored / sent -/
def SolResp (cfg : OCfg) (r : Resp) : Prop :=
  r.func = 0x81 ∧ r.ctrl.uns = false ∧ r.ctrl.seq < 16 ∧ r.size ≤ cfg.sol

/-- an unsolicited response as it is stored / sent -/
def UnsolResp (cfg : OCfg) (r : Resp) : Prop :=
  r.func = 0x82 ∧ r.ctrl.fir = true ∧ r.ctrl.fin = true ∧ r.ctrl.con = true ∧ r.ctrl.uns = true ∧
  r.ctrl.seq < 16 ∧ r.size ≤ cfg.unsol

/-- `bytes` is the transmission of response `r`: its header, then object octets up to `r.size` -/
def Carries (bytes : List Nat) (r : Resp) : Prop :=
  ∃ rest, bytes = respHeader r ++ rest ∧ bytes.length = max 4 r.size

/-- the structural fact behind C12: every transmitted fragment is the header of a well-formed
    solicited response, or of a well-formed unsolicited response sent to the configured master -/
def TxOk (cfg : OCfg) : OOut → Prop
  | .tx dst b => ∃ r, Carries b r ∧ (SolResp cfg r ∨ (UnsolResp cfg r ∧ dst = cfg.master))
  | _ => True

/-- octet-level reading of `TxOk` (C12 target 1): at least the 4 header octets; function octet 0x81 or
    0x82; a solicited response has the UNS bit clear and fits `cfg.sol`; an unsolicited response has
    FIR, FIN, CON, UNS all set, goes to the configured master and fits `cfg.unsol`; the control octet
    is an octet -/
def TxShape (cfg : OCfg) (dst : Nat) (b : List Nat) : Prop :=
  4 ≤ b.length ∧ b.getD 0 0 < 256 ∧
  ((b.getD 1 0 = 0x81 ∧ (b.getD 0 0 &&& 0x10) = 0 ∧ b.length ≤ cfg.sol) ∨
   (b.getD 1 0 = 0x82 ∧ (b.getD 0 0 &&& 0xF0) = 0xF0 ∧ dst = cfg.master ∧ b.length ≤ cfg.unsol))

theorem TxOk.shape {cfg : OCfg} {dst : Nat} {b : List Nat} (hs : 4 ≤ cfg.sol) (hu : 4 ≤ cfg.unsol)
    (h : TxOk cfg (.tx dst b)) : TxShape cfg dst b := by
  obtain ⟨r, ⟨rest, hb, hl⟩, hr⟩ := h
  rcases r with ⟨⟨fir, fin, con, uns, seq⟩, func, i1, i2, size⟩
  have hseq : seq < 16 := by
    rcases hr with h | h
    · exact h.2.2.1
    · exact h.1.2.2.2.2.2.1
  refine ⟨by omega, ?_, ?_⟩
  · subst hb; simpa [respHeader] using toNat_lt fir fin con uns seq hseq
  rcases hr with ⟨h1, h2, h3, h4⟩ | ⟨⟨h1, h2, h3, h4, h5, h6, h7⟩, hd⟩
  · left
    simp only at h1 h2 h3 h4
    subst h1 h2 hb
    refine ⟨by simp [respHeader], ?_, by simp only at hl; omega⟩
    simp [respHeader, toNat_and_10 _ _ _ _ _ h3]
  · right
    simp only at h1 h2 h3 h4 h5 h6 h7
    subst h1 h2 h3 h4 h5 hb
    refine ⟨by simp [respHeader], ?_, hd, by simp only at hl; omega⟩
    simp [respHeader, toNat_and_F0 _ h6]

/-! ## The invariant -/

/-- what is stored in `lastReq`: a well-formed solicited response; for a non-READ request it is the
    single fragment answering it (same sequence number, FIR, FIN).  For a READ it is the fragment of
    the response series sent last (D5 repaired: a continuation fragment replaces the first one).
    The series recorded with the request (D14 repaired: the echo of a repeated non-READ request re-opens
    the confirm wait recorded with it) is unfinished only for a READ -/
def StoredOk (cfg : OCfg) (lr : LastReq) : Prop :=
  lr.seq < 16 ∧ (∀ r, lr.response = some r →
    SolResp cfg r ∧ (lr.frag.getD 1 0 ≠ 1 → r.ctrl.seq = lr.seq ∧ r.ctrl.fir = true ∧ r.ctrl.fin = true)) ∧
  (∀ sr, lr.series = some sr → sr.fin = false → lr.frag.getD 1 0 = 1)

/-- the session invariant (buffer geometry, stored responses well-formed, sequence numbers in range;
    a solicited series that is not finished belongs to a READ) -/
def Inv (cfg : OCfg) (s : OState) : Prop :=
  s.cfg = cfg ∧ 10 ≤ cfg.sol ∧ 4 ≤ cfg.unsol ∧
  s.solBuf.length = cfg.sol ∧ s.unsolBuf.length = cfg.unsol ∧ s.unsolSeq < 16 ∧
  (∀ lr, s.lastReq = some lr → StoredOk cfg lr) ∧
  (∀ r n rt d, s.mode = .unsolWait r n rt d → UnsolResp cfg r) ∧
  (∀ d, s.deferred = some d → d.seq < 16 ∧ d.frag.getD 1 0 = 1) ∧
  (∀ sr dl c, s.mode = .solWait sr dl c → sr.fin = false → ∀ lr, s.lastReq = some lr → lr.frag.getD 1 0 = 1)

/-- invariant + everything emitted so far is well-formed -/
def Good (cfg : OCfg) (a : Acc) : Prop := Inv cfg a.1 ∧ ∀ o ∈ a.2, TxOk cfg o

theorem Good.emit {cfg : OCfg} {a : Acc} (h : Good cfg a) {o : OOut} (ho : TxOk cfg o) : Good cfg (emit a o) := by
  refine ⟨h.1, ?_⟩
  intro o' ho'
  simp only [Dnp3.emit, List.mem_append, List.mem_singleton] at ho'
  rcases ho' with ho' | rfl
  · exact h.2 _ ho'
  · exact ho

theorem Good.emitCb {cfg : OCfg} {a : Acc} (h : Good cfg a) (c : Cb) : Good cfg (emitCb a c) :=
  h.emit trivial

theorem Good.repeatSolicited {cfg : OCfg} {a : Acc} (h : Good cfg a) (dst : Nat) {r : Resp}
    (hr : SolResp cfg r) : Good cfg (repeatSolicited a dst r) := by
  obtain ⟨⟨hc, h10, hu4, hsl, hul, hrest⟩, ho⟩ := h
  have hsz : max 4 r.size ≤ a.1.solBuf.length := by have := hr.2.2.2; omega
  obtain ⟨rest, hb, hl⟩ := writeAt_hdr_take a.1.solBuf r (max 4 r.size) (by omega) hsz
  have hlen : (writeAt a.1.solBuf 0 (respHeader r)).length = cfg.sol := by
    rw [writeAt_length] <;> simp [respHeader, hsl]; omega
  show Good cfg (Dnp3.emit ({ a.1 with solBuf := writeAt a.1.solBuf 0 (respHeader r) }, a.2) _)
  refine Good.emit ?_ ?_
  · exact ⟨⟨hc, h10, hu4, hlen, hul, hrest⟩, ho⟩
  refine ⟨r, ⟨rest, hb, ?_⟩, Or.inl hr⟩
  rw [hb]; simp [respHeader, hl]; omega

theorem Good.repeatUnsolicited {cfg : OCfg} {a : Acc} (h : Good cfg a) {r : Resp}
    (hr : UnsolResp cfg r) : Good cfg (repeatUnsolicited a r) := by
  obtain ⟨⟨hc, h10, hu4, hsl, hul, hrest⟩, ho⟩ := h
  have hsz : max 4 r.size ≤ a.1.unsolBuf.length := by have := hr.2.2.2.2.2.2; omega
  obtain ⟨rest, hb, hl⟩ := writeAt_hdr_take a.1.unsolBuf r (max 4 r.size) (by omega) hsz
  have hlen : (writeAt a.1.unsolBuf 0 (respHeader r)).length = cfg.unsol := by
    rw [writeAt_length] <;> simp [respHeader, hul]; omega
  show Good cfg (Dnp3.emit ({ a.1 with unsolBuf := writeAt a.1.unsolBuf 0 (respHeader r) }, a.2) _)
  refine Good.emit ?_ ?_
  · exact ⟨⟨hc, h10, hu4, hsl, hlen, hrest⟩, ho⟩
  refine ⟨r, ⟨rest, hb, ?_⟩, Or.inr ⟨hr, by rw [hc]⟩⟩
  rw [hb]; simp [respHeader, hl]; omega

theorem foldl_inv {α β : Type} (P : β → Prop) (f : β → α → β) (h : ∀ b a, P b → P (f b a)) :
    ∀ (l : List α) (b : β), P b → P (List.foldl f b l)
  | [], _, hb => hb
  | x :: l, b, hb => foldl_inv P f h l (f b x) (h b x hb)

/-- `get_response_iin` touches `lastBroadcast` only -/
theorem getResponseIin_state {s s' : OState} {i1 i2 : Nat} (h : getResponseIin s = some (s', i1, i2)) :
    s' = s ∨ s' = { s with lastBroadcast := none } := by
  unfold getResponseIin at h
  split at h
  · simp at h
  · cases hb : s.lastBroadcast with
    | none => simp [hb] at h; exact Or.inl h.1.symm
    | some m =>
      simp only [hb] at h
      by_cases hm : m = 1
      · simp [hm] at h; exact Or.inl h.1.symm
      · simp [hm] at h; exact Or.inr h.1.symm

theorem Good.getResponseIin {cfg : OCfg} {s s' : OState} {out : List OOut} {i1 i2 : Nat}
    (h : Good cfg (s, out)) (hg : getResponseIin s = some (s', i1, i2)) : Good cfg (s', out) := by
  rcases getResponseIin_state hg with rfl | rfl <;> exact h

theorem Good.writeSolicited {cfg : OCfg} {a a' : Acc} {dst : Nat} {r r' : Resp} (h : Good cfg a)
    (hr : SolResp cfg r) (hw : writeSolicited a dst r = some (a', r')) :
    Good cfg a' ∧ SolResp cfg r' ∧ r'.ctrl.seq = r.ctrl.seq ∧ r'.ctrl.fir = r.ctrl.fir ∧
      r'.ctrl.fin = r.ctrl.fin ∧ r'.size = r.size := by
  unfold Dnp3.writeSolicited at hw
  split at hw
  · simp at hw
  · rename_i s i1 i2 hg
    simp only [Option.some.injEq, Prod.mk.injEq] at hw
    obtain ⟨rfl, rfl⟩ := hw
    have hs : Good cfg (s, a.2) := Good.getResponseIin (s := a.1) h hg
    split
    · exact ⟨hs.repeatSolicited dst ⟨hr.1, hr.2.1, hr.2.2.1, hr.2.2.2⟩, ⟨hr.1, hr.2.1, hr.2.2.1, hr.2.2.2⟩, rfl, rfl, rfl, rfl⟩
    · exact ⟨hs.repeatSolicited dst ⟨hr.1, hr.2.1, hr.2.2.1, hr.2.2.2⟩, ⟨hr.1, hr.2.1, hr.2.2.1, hr.2.2.2⟩, rfl, rfl, rfl, rfl⟩

theorem Good.writeUnsolicited {cfg : OCfg} {a a' : Acc} {r r' : Resp} (h : Good cfg a)
    (hr : UnsolResp cfg r) (hw : writeUnsolicited a r = some (a', r')) :
    Good cfg a' ∧ UnsolResp cfg r' ∧ r'.ctrl = r.ctrl := by
  unfold Dnp3.writeUnsolicited at hw
  split at hw
  · simp at hw
  · rename_i s i1 i2 hg
    simp only [Option.some.injEq, Prod.mk.injEq] at hw
    obtain ⟨rfl, rfl⟩ := hw
    have hs : Good cfg (s, a.2) := Good.getResponseIin (s := a.1) h hg
    exact ⟨hs.repeatUnsolicited hr, hr, rfl⟩

/-- close goals of the form `Good cfg (… only callbacks emitted, only untracked fields changed …)` -/
macro "good" : tactic => `(tactic| repeat (first | assumption | apply Good.emitCb))

/-- split all `if`/`match`, looking through `let`/`have` -/
macro "splits" : tactic => `(tactic| repeat' (first | split | (dsimp only; split)))

theorem Good.nextStatus {cfg : OCfg} {s : OState} {out : List OOut} (h : Good cfg (s, out)) :
    Good cfg ((nextStatus s).1, out) := by
  unfold Dnp3.nextStatus; split <;> good

theorem Good.handleWriteIin {cfg : OCfg} {a : Acc} (h : Good cfg a) (start stop : Nat) (data : List Nat) :
    Good cfg (handleWriteIin a start stop data).1 := by
  unfold Dnp3.handleWriteIin
  apply foldl_inv (fun p : Acc × Nat => Good cfg p.1) _ _ _ _ h
  intro p i hp
  dsimp only
  split
  · split <;> good
  · good

theorem Good.handleWriteHeader {cfg : OCfg} {a : Acc} (h : Good cfg a) (hd : ObjHdr) :
    Good cfg (handleWriteHeader a hd).1 := by
  unfold Dnp3.handleWriteHeader
  splits
  all_goals first | exact h.handleWriteIin _ _ _ | good

/-- responses of the non-READ handlers: single fragment, same sequence number, no confirm -/
def NonReadResp (cfg : OCfg) (seq : Nat) (r : Resp) : Prop :=
  SolResp cfg r ∧ r.ctrl.seq = seq ∧ r.ctrl.fir = true ∧ r.ctrl.fin = true

theorem emptySolicited_ok {cfg : OCfg} {seq : Nat} (h : seq < 16) (i : Nat) :
    NonReadResp cfg seq (emptySolicited seq i) :=
  ⟨⟨rfl, rfl, h, Nat.zero_le _⟩, rfl, rfl, rfl⟩

theorem singleResponse_ok {cfg : OCfg} {seq : Nat} (h : seq < 16) (i : Nat) {size : Nat} (hs : size ≤ cfg.sol) :
    NonReadResp cfg seq (singleResponse seq i size) :=
  ⟨⟨rfl, rfl, h, hs⟩, rfl, rfl, rfl⟩

theorem Good.handleWrite {cfg : OCfg} {a : Acc} (h : Good cfg a) (seq : Nat) (hs : List ObjHdr) :
    Good cfg (handleWrite a seq hs).1 ∧ ∃ i, (handleWrite a seq hs).2 = emptySolicited seq i := by
  unfold Dnp3.handleWrite
  refine ⟨?_, _, rfl⟩
  apply foldl_inv (fun p : Acc × Nat => Good cfg p.1) _ _ _ _ h
  intro p hd hp
  exact hp.handleWriteHeader hd

theorem Good.handleFreezeHeader {cfg : OCfg} {a : Acc} (h : Good cfg a) (k : FreezeKind) (hd : ObjHdr) :
    Good cfg (handleFreezeHeader a k hd).1 := by
  unfold Dnp3.handleFreezeHeader
  splits <;> good

theorem Good.handleFreeze {cfg : OCfg} {a : Acc} (h : Good cfg a) (seq : Nat) (k : FreezeKind) (hs : List ObjHdr) :
    Good cfg (handleFreeze a seq k hs).1 ∧ ∃ i, (handleFreeze a seq k hs).2 = emptySolicited seq i := by
  unfold Dnp3.handleFreeze
  refine ⟨?_, _, rfl⟩
  apply foldl_inv (fun p : Acc × Nat => Good cfg p.1) _ _ _ _ h
  intro p hd hp
  exact hp.handleFreezeHeader k hd

theorem Good.handleFreezeAtTime {cfg : OCfg} {a : Acc} (h : Good cfg a) (seq : Nat) (hs : List ObjHdr) :
    Good cfg (handleFreezeAtTime a seq hs).1 ∧ ∃ i, (handleFreezeAtTime a seq hs).2 = emptySolicited seq i :=
  ⟨handleFreezeAtTime_inv (Good cfg) (fun _ hd hb => hb.handleFreezeHeader .atTime hd) a seq hs h, _, rfl⟩

theorem Good.handleEnableDisable {cfg : OCfg} {a : Acc} (h : Good cfg a) (en : Bool) (seq : Nat) (hs : List ObjHdr) :
    Good cfg (handleEnableDisable a en seq hs).1 ∧ ∃ i, (handleEnableDisable a en seq hs).2 = emptySolicited seq i := by
  unfold Dnp3.handleEnableDisable
  split
  · exact ⟨h, _, rfl⟩
  · refine ⟨?_, _, rfl⟩
    apply foldl_inv (fun p : OState × Nat => Good cfg (p.1, a.2)) _ _ _ _ h
    intro p hd hp
    splits <;> good

theorem Good.countOfOne {cfg : OCfg} {a : Acc} (h : Good cfg a) {seq : Nat} (hseq : seq < 16) (g v value : Nat) :
    Good cfg (countOfOne a seq g v value).1 ∧ NonReadResp cfg seq (countOfOne a seq g v value).2 := by
  obtain ⟨⟨hc, h10, hu4, hsl, hrest⟩, ho⟩ := h
  unfold Dnp3.countOfOne
  refine ⟨⟨⟨hc, h10, hu4, ?_, hrest⟩, ho⟩, singleResponse_ok hseq _ h10⟩
  show (writeAt _ _ _).length = _
  rw [writeAt_length] <;> simp [hsl]; omega

theorem Good.handleRestart {cfg : OCfg} {a : Acc} (h : Good cfg a) {seq : Nat} (hseq : seq < 16) (name : Cb) :
    Good cfg (handleRestart a seq name).1 ∧ NonReadResp cfg seq (handleRestart a seq name).2 := by
  unfold Dnp3.handleRestart
  splits
  · exact ⟨h.emitCb _, emptySolicited_ok hseq _⟩
  · exact (h.emitCb _).countOfOne hseq _ _ _
  · exact (h.emitCb _).countOfOne hseq _ _ _

/-! ### control echoes -/

/-- the status decision for one control object (handler callback, TooManyOps, or fixed status) -/
def ctlStatus (kind : Option CtlKind) (fixedStatus : Nat) (maxctl : Option Nat) (h : ObjHdr)
    (ix obj : List Nat) (r : CtlRun) : CtlRun × Nat × Bool :=
  match kind with
  | none => (r, fixedStatus, false)
  | some k =>
    if (match maxctl with | none => true | some m => r.num < m) then
      let (s', st) := nextStatus r.acc.1
      let acc : Acc := (s', r.acc.2)
      let acc := if r.started then acc else emitCb acc .beginFragment
      let acc := emitCb acc (.control k h.group h.var (idxVal ix) obj st)
      ({ r with acc := acc, started := true }, st, true)
    else (r, 8, false)

theorem go_nil (kind : Option CtlKind) (fixedStatus : Nat) (maxctl : Option Nat) (h : ObjHdr)
    (isz : Nat) (hdrBytes : List Nat) (r : CtlRun) (count : Nat) (hdrOut body : List Nat) :
    ctlHeader.go kind fixedStatus maxctl h isz hdrBytes [] r count hdrOut body =
      { r with out := r.out ++ hdrOut ++ body } := by
  unfold ctlHeader.go; rfl

theorem go_cons (kind : Option CtlKind) (fixedStatus : Nat) (maxctl : Option Nat) (h : ObjHdr)
    (isz : Nat) (hdrBytes : List Nat) (ix obj : List Nat) (rest : List (List Nat × List Nat))
    (r : CtlRun) (count : Nat) (hdrOut body : List Nat) :
    ctlHeader.go kind fixedStatus maxctl h isz hdrBytes ((ix, obj) :: rest) r count hdrOut body =
      if r.overflow then { r with out := r.out ++ hdrOut ++ body } else
      let q := ctlStatus kind fixedStatus maxctl h ix obj r
      if kind = some .donr then
        ctlHeader.go kind fixedStatus maxctl h isz hdrBytes rest { q.1 with num := q.1.num + 1 } count hdrOut body
      else
        let newHdr := if count = 0 then hdrBytes ++ (if isz = 1 then [0] else [0, 0]) else hdrOut
        let item := ix ++ withStatus obj q.2.1
        let total := q.1.out.length + newHdr.length + body.length + item.length
        if total > q.1.cap then
          { q.1 with overflow := true, out := q.1.out ++ hdrOut ++ body, num := q.1.num + 1,
                     status := firstError q.1.status q.2.1 }
        else
          let c := count + 1
          let cnt := if isz = 1 then [c % 256] else [c % 256, c / 256 % 256]
          ctlHeader.go kind fixedStatus maxctl h isz hdrBytes rest
            { q.1 with num := q.1.num + 1, status := firstError q.1.status q.2.1 } c (hdrBytes ++ cnt) (body ++ item) := by
  rw [ctlHeader.go.eq_def]
  unfold ctlStatus
  cases kind with
  | none => rfl
  | some k =>
    rcases r with ⟨acc, out, cap, started, num, status, overflow⟩
    cases maxctl with
    | none => cases overflow <;> rfl
    | some m =>
      dsimp only

theorem ctlStatus_facts {cfg : OCfg} (kind : Option CtlKind) (fixedStatus : Nat) (maxctl : Option Nat) (h : ObjHdr)
    (ix obj : List Nat) (r : CtlRun) (hg : Good cfg r.acc) :
    Good cfg (ctlStatus kind fixedStatus maxctl h ix obj r).1.acc ∧
    (ctlStatus kind fixedStatus maxctl h ix obj r).1.cap = r.cap ∧
    (ctlStatus kind fixedStatus maxctl h ix obj r).1.out = r.out ∧
    (ctlStatus kind fixedStatus maxctl h ix obj r).1.overflow = r.overflow := by
  unfold ctlStatus
  cases kind with
  | none => exact ⟨hg, rfl, rfl, rfl⟩
  | some k =>
    dsimp only
    by_cases hm : (match maxctl with | none => true | some m => decide (r.num < m)) = true
    · rw [if_pos hm]
      refine ⟨?_, rfl, rfl, rfl⟩
      have := Good.nextStatus (s := r.acc.1) (out := r.acc.2) hg
      dsimp only
      split <;> good
    · rw [if_neg hm]
      exact ⟨hg, rfl, rfl, rfl⟩

/-- a control run whose accumulator is good and whose echo fits its capacity -/
def CtlOk (cfg : OCfg) (cap : Nat) (r : CtlRun) : Prop :=
  Good cfg r.acc ∧ r.cap = cap ∧ r.out.length ≤ cap

theorem go_inv {cfg : OCfg} (kind : Option CtlKind) (fixedStatus : Nat) (maxctl : Option Nat) (h : ObjHdr)
    (isz : Nat) (hdrBytes : List Nat) (cap : Nat) :
    ∀ (items : List (List Nat × List Nat)) (r : CtlRun) (count : Nat) (hdrOut body : List Nat),
      Good cfg r.acc → r.cap = cap → r.out.length + hdrOut.length + body.length ≤ cap →
      (count ≠ 0 → hdrOut.length = hdrBytes.length + (if isz = 1 then 1 else 2)) →
      CtlOk cfg cap (ctlHeader.go kind fixedStatus maxctl h isz hdrBytes items r count hdrOut body) := by
  intro items
  induction items with
  | nil =>
    intro r count hdrOut body hg hc hl _
    rw [go_nil]
    refine ⟨hg, hc, ?_⟩
    simp; omega
  | cons it rest ih =>
    intro r count hdrOut body hg hc hl hh
    obtain ⟨ix, obj⟩ := it
    rw [go_cons]
    split
    · refine ⟨hg, hc, ?_⟩
      simp; omega
    · obtain ⟨qg, qc, qo, _⟩ := ctlStatus_facts kind fixedStatus maxctl h ix obj r hg
      generalize ctlStatus kind fixedStatus maxctl h ix obj r = q at qg qc qo ⊢
      dsimp only
      by_cases hk : kind = some CtlKind.donr
      · rw [if_pos hk]
        exact ih _ _ _ _ qg (qc.trans hc) (by simpa [qo] using hl) hh
      · rw [if_neg hk]
        by_cases hfit : q.1.out.length + (if count = 0 then hdrBytes ++ (if isz = 1 then [0] else [0, 0]) else hdrOut).length
              + body.length + (ix ++ withStatus obj q.2.1).length > q.1.cap
        · rw [if_pos hfit]
          refine ⟨qg, qc.trans hc, ?_⟩
          simp [qo]; omega
        · rw [if_neg hfit]
          refine ih _ _ _ _ qg (qc.trans hc) ?_ ?_
          · rw [qc, hc] at hfit
            simp only [List.length_append] at hfit ⊢
            have : (if isz = 1 then [(count + 1) % 256] else [(count + 1) % 256, (count + 1) / 256 % 256]).length
                = (if isz = 1 then 1 else 2) := by split <;> rfl
            rw [this]
            by_cases h0 : count = 0
            · simp only [h0, if_true, List.length_append] at hfit
              have : (if isz = 1 then [0] else [0, 0] : List Nat).length = (if isz = 1 then 1 else 2) := by split <;> rfl
              rw [this] at hfit; omega
            · simp only [h0, if_false] at hfit
              rw [hh h0] at hfit; omega
          · intro _
            simp only [List.length_append]
            split <;> rfl

theorem CtlOk.ctlHeader {cfg : OCfg} {cap : Nat} (kind : Option CtlKind) (fixedStatus : Nat) (maxctl : Option Nat)
    (h : ObjHdr) {r : CtlRun} (hr : CtlOk cfg cap r) : CtlOk cfg cap (ctlHeader kind fixedStatus maxctl h r) := by
  unfold Dnp3.ctlHeader
  exact go_inv kind fixedStatus maxctl h _ _ cap _ r 0 [] [] hr.1 hr.2.1 (by simpa using hr.2.2) (by simp)

theorem CtlOk.ctlAll {cfg : OCfg} {cap : Nat} (kind : Option CtlKind) (fixedStatus : Nat) (maxctl : Option Nat)
    (hs : List ObjHdr) {r : CtlRun} (hr : CtlOk cfg cap r) : CtlOk cfg cap (ctlAll kind fixedStatus maxctl hs r) := by
  unfold Dnp3.ctlAll
  apply foldl_inv (CtlOk cfg cap) _ _ _ _ hr
  intro r h hr
  split
  · exact hr
  · exact hr.ctlHeader _ _ _ _

theorem CtlOk.ctlFinish {cfg : OCfg} {cap : Nat} {r : CtlRun} (hr : CtlOk cfg cap r) : CtlOk cfg cap (ctlFinish r) := by
  unfold Dnp3.ctlFinish
  split
  · exact ⟨hr.1.emitCb _, hr.2.1, hr.2.2⟩
  · exact hr

theorem ctlFinish_out (r : CtlRun) : (ctlFinish r).out = r.out := by
  unfold Dnp3.ctlFinish; split <;> rfl

theorem ctlFinish_overflow (r : CtlRun) : (ctlFinish r).overflow = r.overflow := by
  unfold Dnp3.ctlFinish; split <;> rfl

theorem ctlFinish_status (r : CtlRun) : (ctlFinish r).status = r.status := by
  unfold Dnp3.ctlFinish; split <;> rfl

/-- writing `data` (which fits) behind the response header keeps the invariant -/
theorem Good.writeSol4 {cfg : OCfg} {s : OState} {out : List OOut} (h : Good cfg (s, out)) {data : List Nat}
    (hd : data.length ≤ cfg.sol - 4) : Good cfg ({ s with solBuf := writeAt s.solBuf 4 data }, out) := by
  obtain ⟨⟨hc, h10, hu4, hsl, hrest⟩, ho⟩ := h
  refine ⟨⟨hc, h10, hu4, ?_, hrest⟩, ho⟩
  show (writeAt _ _ _).length = _
  dsimp only at hsl
  rw [writeAt_length] <;> omega

theorem CtlOk.init {cfg : OCfg} {a : Acc} (h : Good cfg a) (cap : Nat) : CtlOk cfg cap { acc := a, cap := cap } :=
  ⟨h, rfl, Nat.zero_le _⟩

theorem Good.handleControls {cfg : OCfg} {a a' : Acc} (h : Good cfg a) {func seq frameId : Nat} (hseq : seq < 16)
    {hs : List ObjHdr} {raw : List Nat} {ro : Option Resp}
    (hc : handleControls a func seq frameId hs raw = some (a', ro)) :
    Good cfg a' ∧ ∀ r, ro = some r → NonReadResp cfg seq r := by
  have hcfg : a.1.cfg = cfg := h.1.1
  unfold Dnp3.handleControls at hc
  split at hc
  · simp only [Option.some.injEq, Prod.mk.injEq] at hc
    obtain ⟨rfl, rfl⟩ := hc
    refine ⟨h, ?_⟩
    intro r hr
    split at hr
    · simp at hr
    · simp only [Option.some.injEq] at hr; subst hr; exact emptySolicited_ok hseq _
  · rw [hcfg] at hc
    have key : ∀ (kind : Option CtlKind) (fs : Nat) (mc : Option Nat), CtlOk cfg (cfg.sol - 4)
        (ctlFinish (ctlAll kind fs mc hs { acc := a, cap := cfg.sol - 4 })) :=
      fun kind fs mc => ((CtlOk.init h _).ctlAll kind fs mc hs).ctlFinish
    have fin : ∀ (r : CtlRun), CtlOk cfg (cfg.sol - 4) (ctlFinish r) →
        Good cfg ({ (ctlFinish r).acc.1 with solBuf := writeAt (ctlFinish r).acc.1.solBuf 4 (ctlFinish r).out }, (ctlFinish r).acc.2) ∧
        ∀ i, NonReadResp cfg seq (singleResponse seq i (4 + (ctlFinish r).out.length)) := by
      intro r hr
      have h10 := h.1.2.1
      exact ⟨Good.writeSol4 (s := (ctlFinish r).acc.1) hr.1 hr.2.2, fun i => singleResponse_ok hseq _ (by have := hr.2.2; omega)⟩
    dsimp only at hc
    split at hc
    · -- SELECT
      simp only [Option.some.injEq, Prod.mk.injEq] at hc
      obtain ⟨rfl, rfl⟩ := hc
      have hk := key (some .select) 0 a.1.cfg.maxctl
      rw [hcfg] at hk
      have h10 := h.1.2.1
      refine ⟨?_, ?_⟩
      · apply Good.writeSol4 (hd := hk.2.2)
        split
        · exact hk.1
        · exact hk.1
      · intro r hr
        simp only [Option.some.injEq] at hr; subst hr
        exact singleResponse_ok hseq _ (by have := hk.2.2; omega)
    · split at hc
      · -- OPERATE
        split at hc
        · simp only [Option.some.injEq, Prod.mk.injEq] at hc
          obtain ⟨rfl, rfl⟩ := hc
          rename_i st _
          have := fin _ (key none st none)
          exact ⟨this.1, fun r hr => by simp only [Option.some.injEq] at hr; subst hr; exact this.2 _⟩
        · simp only [Option.some.injEq, Prod.mk.injEq] at hc
          obtain ⟨rfl, rfl⟩ := hc
          have hk := key (some .sbo) 0 a.1.cfg.maxctl
          rw [hcfg] at hk
          have := fin _ hk
          exact ⟨this.1, fun r hr => by simp only [Option.some.injEq] at hr; subst hr; exact this.2 _⟩
      · split at hc
        · -- DIRECT_OPERATE
          simp only [Option.some.injEq, Prod.mk.injEq] at hc
          obtain ⟨rfl, rfl⟩ := hc
          have hk := key (some .dop) 0 a.1.cfg.maxctl
          rw [hcfg] at hk
          have := fin _ hk
          exact ⟨this.1, fun r hr => by simp only [Option.some.injEq] at hr; subst hr; exact this.2 _⟩
        · -- DIRECT_OPERATE_NR
          simp only [Option.some.injEq, Prod.mk.injEq] at hc
          obtain ⟨rfl, rfl⟩ := hc
          have hk := key (some .donr) 0 a.1.cfg.maxctl
          rw [hcfg] at hk
          exact ⟨hk.1, fun r hr => by simp at hr⟩

/-- the dispatch table of `handle_non_read` (before the "objects not allowed" IIN2 patch) -/
def nonReadRes (a : Acc) (func seq frameId : Nat) (hs : List ObjHdr) (raw : List Nat) : Option (Acc × Option Resp) :=
  if func = 2 then some ((handleWrite a seq hs).1, some (handleWrite a seq hs).2)
  else if func = 23 then some ((countOfOne a seq 52 2 a.1.script.delayMs).1, some (countOfOne a seq 52 2 a.1.script.delayMs).2)
  else if func = 24 then some (({ a.1 with lastRecorded := some a.1.now }, a.2), some (emptySolicited seq 0))
  else if func = 13 then some ((handleRestart a seq .coldRestart).1, some (handleRestart a seq .coldRestart).2)
  else if func = 14 then some ((handleRestart a seq .warmRestart).1, some (handleRestart a seq .warmRestart).2)
  else if func = 3 ∨ func = 4 ∨ func = 5 ∨ func = 6 then handleControls a func seq frameId hs raw
  else if func = 7 then some ((handleFreeze a seq .immediate hs).1, some (handleFreeze a seq .immediate hs).2)
  else if func = 8 then some ((handleFreeze a seq .immediate hs).1, none)
  else if func = 9 then some ((handleFreeze a seq .clear hs).1, some (handleFreeze a seq .clear hs).2)
  else if func = 10 then some ((handleFreeze a seq .clear hs).1, none)
  else if func = 11 then some ((handleFreezeAtTime a seq hs).1, some (handleFreezeAtTime a seq hs).2)
  else if func = 12 then some ((handleFreezeAtTime a seq hs).1, none)
  else if func = 20 then some ((handleEnableDisable a true seq hs).1, some (handleEnableDisable a true seq hs).2)
  else if func = 21 then some ((handleEnableDisable a false seq hs).1, some (handleEnableDisable a false seq hs).2)
  else some (a, some (emptySolicited seq iin2NoFunc))

/-- IIN2 bits added when a function that takes no objects is sent some -/
def extraIin2 (func : Nat) (raw : List Nat) : Nat :=
  if objectsAllowed func then 0 else if raw.isEmpty then 0 else iin2ParamError

theorem handleNonRead_eq (a : Acc) (func seq frameId : Nat) (hs : List ObjHdr) (raw : List Nat) :
    handleNonRead a func seq frameId hs raw =
      match nonReadRes a func seq frameId hs raw with
      | none => none
      | some (a, none) => some (a, none)
      | some (a, some r) => some (a, some { r with iin2 := r.iin2 ||| extraIin2 func raw }) := rfl

theorem Good.nonReadRes {cfg : OCfg} {a a' : Acc} (h : Good cfg a) {func seq frameId : Nat} (hseq : seq < 16)
    {hs : List ObjHdr} {raw : List Nat} {ro : Option Resp}
    (hn : nonReadRes a func seq frameId hs raw = some (a', ro)) :
    Good cfg a' ∧ ∀ r, ro = some r → NonReadResp cfg seq r := by
  have e := @emptySolicited_ok cfg seq hseq
  have fromEmpty : ∀ {p : Acc × Resp}, (Good cfg p.1 ∧ ∃ i, p.2 = emptySolicited seq i) →
      Good cfg p.1 ∧ ∀ r, some p.2 = some r → NonReadResp cfg seq r := by
    rintro p ⟨hp, i, hi⟩
    refine ⟨hp, fun r hr => ?_⟩
    simp only [Option.some.injEq] at hr; subst hr; rw [hi]; exact e i
  have fromNR : ∀ {p : Acc × Resp}, (Good cfg p.1 ∧ NonReadResp cfg seq p.2) →
      Good cfg p.1 ∧ ∀ r, some p.2 = some r → NonReadResp cfg seq r := by
    rintro p ⟨hp, hi⟩
    refine ⟨hp, fun r hr => ?_⟩
    simp only [Option.some.injEq] at hr; subst hr; exact hi
  unfold Dnp3.Proofs.C12.nonReadRes at hn
  have noResp : ∀ r, (none : Option Resp) = some r → NonReadResp cfg seq r := fun r hr => by simp at hr
  by_cases c0 : func = 2
  · rw [if_pos c0] at hn; simp only [Option.some.injEq, Prod.mk.injEq] at hn; obtain ⟨rfl, rfl⟩ := hn
    exact fromEmpty (h.handleWrite seq hs)
  rw [if_neg c0] at hn
  by_cases c1 : func = 23
  · rw [if_pos c1] at hn; simp only [Option.some.injEq, Prod.mk.injEq] at hn; obtain ⟨rfl, rfl⟩ := hn
    exact fromNR (h.countOfOne hseq _ _ _)
  rw [if_neg c1] at hn
  by_cases c2 : func = 24
  · rw [if_pos c2] at hn; simp only [Option.some.injEq, Prod.mk.injEq] at hn; obtain ⟨rfl, rfl⟩ := hn
    exact fromEmpty (p := (_, _)) ⟨h, 0, rfl⟩
  rw [if_neg c2] at hn
  by_cases c3 : func = 13
  · rw [if_pos c3] at hn; simp only [Option.some.injEq, Prod.mk.injEq] at hn; obtain ⟨rfl, rfl⟩ := hn
    exact fromNR (h.handleRestart hseq _)
  rw [if_neg c3] at hn
  by_cases c4 : func = 14
  · rw [if_pos c4] at hn; simp only [Option.some.injEq, Prod.mk.injEq] at hn; obtain ⟨rfl, rfl⟩ := hn
    exact fromNR (h.handleRestart hseq _)
  rw [if_neg c4] at hn
  by_cases c5 : func = 3 ∨ func = 4 ∨ func = 5 ∨ func = 6
  · rw [if_pos c5] at hn; exact h.handleControls hseq hn
  rw [if_neg c5] at hn
  by_cases c6 : func = 7
  · rw [if_pos c6] at hn; simp only [Option.some.injEq, Prod.mk.injEq] at hn; obtain ⟨rfl, rfl⟩ := hn
    exact fromEmpty (h.handleFreeze seq _ hs)
  rw [if_neg c6] at hn
  by_cases c7 : func = 8
  · rw [if_pos c7] at hn; simp only [Option.some.injEq, Prod.mk.injEq] at hn; obtain ⟨rfl, rfl⟩ := hn
    exact ⟨(h.handleFreeze seq _ hs).1, noResp⟩
  rw [if_neg c7] at hn
  by_cases c8 : func = 9
  · rw [if_pos c8] at hn; simp only [Option.some.injEq, Prod.mk.injEq] at hn; obtain ⟨rfl, rfl⟩ := hn
    exact fromEmpty (h.handleFreeze seq _ hs)
  rw [if_neg c8] at hn
  by_cases c9 : func = 10
  · rw [if_pos c9] at hn; simp only [Option.some.injEq, Prod.mk.injEq] at hn; obtain ⟨rfl, rfl⟩ := hn
    exact ⟨(h.handleFreeze seq _ hs).1, noResp⟩
  rw [if_neg c9] at hn
  by_cases c10 : func = 11
  · rw [if_pos c10] at hn; simp only [Option.some.injEq, Prod.mk.injEq] at hn; obtain ⟨rfl, rfl⟩ := hn
    exact fromEmpty (h.handleFreezeAtTime seq hs)
  rw [if_neg c10] at hn
  by_cases c11 : func = 12
  · rw [if_pos c11] at hn; simp only [Option.some.injEq, Prod.mk.injEq] at hn; obtain ⟨rfl, rfl⟩ := hn
    exact ⟨(h.handleFreezeAtTime seq hs).1, noResp⟩
  rw [if_neg c11] at hn
  by_cases c12 : func = 20
  · rw [if_pos c12] at hn; simp only [Option.some.injEq, Prod.mk.injEq] at hn; obtain ⟨rfl, rfl⟩ := hn
    exact fromEmpty (h.handleEnableDisable _ seq hs)
  rw [if_neg c12] at hn
  by_cases c13 : func = 21
  · rw [if_pos c13] at hn; simp only [Option.some.injEq, Prod.mk.injEq] at hn; obtain ⟨rfl, rfl⟩ := hn
    exact fromEmpty (h.handleEnableDisable _ seq hs)
  rw [if_neg c13] at hn
  simp only [Option.some.injEq, Prod.mk.injEq] at hn; obtain ⟨rfl, rfl⟩ := hn
  exact fromEmpty (p := (_, _)) ⟨h, _, rfl⟩

theorem Good.handleNonRead {cfg : OCfg} {a a' : Acc} (h : Good cfg a) {func seq frameId : Nat} (hseq : seq < 16)
    {hs : List ObjHdr} {raw : List Nat} {ro : Option Resp}
    (hn : handleNonRead a func seq frameId hs raw = some (a', ro)) :
    Good cfg a' ∧ ∀ r, ro = some r → NonReadResp cfg seq r := by
  rw [handleNonRead_eq] at hn
  split at hn
  · simp at hn
  · rename_i a1 hres
    simp only [Option.some.injEq, Prod.mk.injEq] at hn
    obtain ⟨rfl, rfl⟩ := hn
    exact ⟨(h.nonReadRes hseq hres).1, fun r hr => by simp at hr⟩
  · rename_i a1 r1 hres
    simp only [Option.some.injEq, Prod.mk.injEq] at hn
    obtain ⟨rfl, rfl⟩ := hn
    refine ⟨(h.nonReadRes hseq hres).1, fun r hr => ?_⟩
    simp only [Option.some.injEq] at hr; subst hr
    exact (h.nonReadRes hseq hres).2 r1 rfl

/-! ## request parsing facts -/

theorem parseRequest_request {d : List Nat} {ctrl : AppCtrl} {func : Nat} {objects : Except Nat (List ObjHdr)}
    {raw : List Nat} (h : parseRequest d = .request ctrl func objects raw) :
    ∃ c, d = c :: func :: raw ∧ ctrl = AppCtrl.ofNat c ∧ ctrl.fir = true ∧ ctrl.fin = true ∧
      (ctrl.uns = true → func = 0) ∧ knownFunction func = true ∧ func ≠ 129 ∧ func ≠ 130 ∧
      objects = parseObjects (func = 1) raw.length raw := by
  unfold parseRequest at h
  split at h
  · rename_i c f objs
    dsimp only at h
    split at h
    · simp at h
    · split at h
      · split at h <;> simp at h
      · split at h
        · simp at h
        · split at h
          · simp at h
          · rename_i h1 h2 h3 h4
            simp only [ReqParse.request.injEq] at h
            obtain ⟨rfl, rfl, rfl, rfl⟩ := h
            refine ⟨c, rfl, rfl, ?_, ?_, ?_, ?_, ?_, ?_, rfl⟩
            · revert h3; cases (AppCtrl.ofNat c).fir <;> simp
            · revert h3; cases (AppCtrl.ofNat c).fir <;> simp
            · intro hu; by_cases hf : f = 0
              · exact hf
              · exact absurd (by simp [hu, hf]) h4
            · simpa using h1
            · intro hf; exact h2 (Or.inl hf)
            · intro hf; exact h2 (Or.inr hf)
  · simp at h

theorem parseRequest_seq_lt {d : List Nat} {ctrl : AppCtrl} {func : Nat} {objects : Except Nat (List ObjHdr)}
    {raw : List Nat} (h : parseRequest d = .request ctrl func objects raw) : ctrl.seq < 16 := by
  obtain ⟨c, _, rfl, _⟩ := parseRequest_request h
  exact ofNat_seq_lt c

theorem parseRequest_func {d : List Nat} {ctrl : AppCtrl} {func : Nat} {objects : Except Nat (List ObjHdr)}
    {raw : List Nat} (h : parseRequest d = .request ctrl func objects raw) : d.getD 1 0 = func := by
  obtain ⟨c, rfl, _⟩ := parseRequest_request h
  rfl

theorem parseRequest_headerError_seq {d : List Nat} {seq : Nat} (h : parseRequest d = .headerError seq) :
    ∃ c rest, d = c :: rest ∧ seq = (AppCtrl.ofNat c).seq := by
  unfold parseRequest at h
  split at h
  · rename_i c f objs
    refine ⟨c, f :: objs, rfl, ?_⟩
    dsimp only at h
    repeat' (split at h)
    all_goals first | (simp only [ReqParse.headerError.injEq] at h; exact h.symm) | simp at h
  · simp at h

/-! ## `pop_request` -/

theorem popRequest_state (s : OState) : (popRequest s).1 = s ∨ (popRequest s).1 = { s with pending := none } := by
  unfold popRequest
  splits <;> simp

theorem Good.popRequest {cfg : OCfg} {s : OState} {out : List OOut} (h : Good cfg (s, out)) :
    Good cfg ((popRequest s).1, out) := by
  rcases popRequest_state s with e | e <;> rw [e] <;> exact h

theorem popRequest_error {s : OState} {src : Nat} {bc : Bool} {seq : Nat}
    (h : (popRequest s).2 = .error src bc (some seq)) :
    seq < 16 ∧ ∃ f, s.pending = some f ∧ src = f.src ∧ parseRequest f.data = .headerError seq ∧
      bc = f.broadcast.isSome ∧ (s.cfg.anymaster = true ∨ f.src = s.cfg.master) := by
  unfold popRequest at h
  split at h
  · simp at h
  · rename_i f hf
    split at h
    · simp at h
    · rename_i hm
      have hacc : s.cfg.anymaster = true ∨ f.src = s.cfg.master := by
        by_cases ha : s.cfg.anymaster = true
        · exact Or.inl ha
        · by_cases hne : f.src = s.cfg.master
          · exact Or.inr hne
          · exact absurd ⟨by simpa using ha, hne⟩ hm
      split at h
      · simp at h
      · rename_i sq hp
        simp only [Popped.error.injEq, Option.some.injEq] at h
        obtain ⟨rfl, rfl, rfl⟩ := h
        obtain ⟨c, rest, _, rfl⟩ := parseRequest_headerError_seq hp
        exact ⟨ofNat_seq_lt c, f, hf, rfl, hp, rfl, hacc⟩
      · simp at h

theorem popRequest_request {s : OState} {f : Frag} {ctrl : AppCtrl} {func : Nat} {objects : Except Nat (List ObjHdr)}
    {raw : List Nat} (h : (popRequest s).2 = .request f ctrl func objects raw) :
    s.pending = some f ∧ parseRequest f.data = .request ctrl func objects raw ∧ (popRequest s).1 = s ∧
      (s.cfg.anymaster = true ∨ f.src = s.cfg.master) := by
  unfold popRequest at h ⊢
  split at h
  · simp at h
  · rename_i f' hf
    rw [hf]
    split at h
    · simp at h
    · rename_i hm
      split at h
      · simp at h
      · simp at h
      · rename_i c fn ob rw hp
        simp only [Popped.request.injEq] at h
        obtain ⟨rfl, rfl, rfl, rfl, rfl⟩ := h
        rw [hp]
        simp only [hm, if_false]
        refine ⟨trivial, trivial, trivial, ?_⟩
        by_cases ha : s.cfg.anymaster = true
        · exact Or.inl ha
        · by_cases hne : f'.src = s.cfg.master
          · exact Or.inr hne
          · exact absurd ⟨by simpa using ha, hne⟩ hm

/-! ## `classify` -/

theorem classify_repeat {s : OState} {f : Frag} {ctrl : AppCtrl} {func : Nat} {objects : Except Nat (List ObjHdr)}
    {resp : Option Resp}
    (h : (∃ hs, classify s f ctrl func objects = .repeatRead resp hs) ∨
         classify s f ctrl func objects = .repeatNonRead resp) :
    ∃ lr, s.lastReq = some lr ∧ lr.seq = ctrl.seq ∧ lr.frag = f.data ∧ resp = lr.response := by
  unfold classify at h
  split at h
  · split at h <;> simp at h
  · split at h
    · simp at h
    · split at h
      · simp at h
      · dsimp only at h
        cases hl : s.lastReq with
        | none => simp [hl] at h; split at h <;> simp at h
        | some lr =>
          simp only [hl] at h
          by_cases hd : lr.seq = ctrl.seq ∧ lr.frag = f.data
          · simp only [hd, and_self, if_true] at h
            refine ⟨lr, rfl, hd.1, hd.2, ?_⟩
            split at h <;> simp at h <;> first | exact h.symm | exact h.1.symm
          · simp only [hd, if_false] at h
            split at h <;> simp at h

theorem classify_func {s : OState} {f : Frag} {ctrl : AppCtrl} {func : Nat} {objects : Except Nat (List ObjHdr)} :
    (∀ hs, classify s f ctrl func objects = .newRead hs → func = 1) ∧
    (∀ r hs, classify s f ctrl func objects = .repeatRead r hs → func = 1) ∧
    (∀ hs, classify s f ctrl func objects = .newNonRead hs → func ≠ 1) ∧
    (∀ r, classify s f ctrl func objects = .repeatNonRead r → func ≠ 1) := by
  unfold classify
  refine ⟨?_, ?_, ?_, ?_⟩ <;> intros <;> rename_i h <;> revert h <;> splits <;> simp_all

/-! ## setters of tracked fields -/

/-- no solicited series is open: a `.solWait` mode, if any, is that of a series whose last fragment was sent
    (in particular any mode that is not `.solWait`) -/
def NoOpen (m : Mode) : Prop := ∀ sr dl c, m = .solWait sr dl c → sr.fin = true

theorem NoOpen.elim {m : Mode} (h : NoOpen m) {sr : Series} {dl : Nat} {c : SolCont} (hm : m = .solWait sr dl c)
    (hf : sr.fin = false) {P : Prop} : P :=
  absurd (h sr dl c hm) (by rw [hf]; decide)

theorem NoOpen.idle (n : NextIdle) : NoOpen (.idle n) := fun _ _ _ h => by cases h

theorem NoOpen.unsolWait (r : Resp) (n : Bool) (rt : Option Nat) (d : Nat) : NoOpen (.unsolWait r n rt d) :=
  fun _ _ _ h => by cases h

theorem Good.setMode {cfg : OCfg} {a : Acc} (h : Good cfg a) (m : Mode)
    (hm : ∀ r n rt d, m = .unsolWait r n rt d → UnsolResp cfg r)
    (hs : ∀ sr dl c, m = .solWait sr dl c → sr.fin = false → ∀ lr, a.1.lastReq = some lr → lr.frag.getD 1 0 = 1) :
    Good cfg ({ a.1 with mode := m }, a.2) := by
  obtain ⟨⟨h1, h2, h3, h4, h5, h6, h7, _, h9, _⟩, ho⟩ := h
  exact ⟨⟨h1, h2, h3, h4, h5, h6, h7, hm, h9, hs⟩, ho⟩

/-- the confirm wait on the same series goes on (new deadline) -/
theorem Good.reSolWait {cfg : OCfg} {a : Acc} (h : Good cfg a) {sr : Series} {dl : Nat} {c : SolCont}
    (hm : a.1.mode = .solWait sr dl c) (dl' : Nat) (c' : SolCont) :
    Good cfg ({ a.1 with mode := .solWait sr dl' c' }, a.2) := by
  refine h.setMode _ (fun _ _ _ _ hm' => by cases hm') (fun sr' _ _ hm' hf => ?_)
  simp only [Mode.solWait.injEq] at hm'
  obtain ⟨rfl, _, _⟩ := hm'
  exact h.1.2.2.2.2.2.2.2.2.2 _ _ _ hm hf

theorem Good.setLastReq {cfg : OCfg} {a : Acc} (h : Good cfg a) (lr : Option LastReq)
    (hl : ∀ l, lr = some l → StoredOk cfg l)
    (hs : ∀ sr dl c, a.1.mode = .solWait sr dl c → sr.fin = false → ∀ l, lr = some l → l.frag.getD 1 0 = 1) :
    Good cfg ({ a.1 with lastReq := lr }, a.2) := by
  obtain ⟨⟨h1, h2, h3, h4, h5, h6, _, h8, h9, _⟩, ho⟩ := h
  exact ⟨⟨h1, h2, h3, h4, h5, h6, hl, h8, h9, hs⟩, ho⟩

theorem Good.setDeferred {cfg : OCfg} {a : Acc} (h : Good cfg a) (d : Option Deferred)
    (hd : ∀ x, d = some x → x.seq < 16 ∧ x.frag.getD 1 0 = 1) : Good cfg ({ a.1 with deferred := d }, a.2) := by
  obtain ⟨⟨h1, h2, h3, h4, h5, h6, h7, h8, _, h10⟩, ho⟩ := h
  exact ⟨⟨h1, h2, h3, h4, h5, h6, h7, h8, hd, h10⟩, ho⟩

theorem Good.clearDeferred {cfg : OCfg} {a : Acc} (h : Good cfg a) : Good cfg ({ a.1 with deferred := none }, a.2) :=
  h.setDeferred none (fun x hx => by simp at hx)

theorem Good.setUnsolSeq {cfg : OCfg} {a : Acc} (h : Good cfg a) {n : Nat} (hn : n < 16) :
    Good cfg ({ a.1 with unsolSeq := n }, a.2) := by
  obtain ⟨⟨h1, h2, h3, h4, h5, _, h7, h8, h9⟩, ho⟩ := h
  exact ⟨⟨h1, h2, h3, h4, h5, hn, h7, h8, h9⟩, ho⟩

theorem Good.writeUnsol4 {cfg : OCfg} {s : OState} {out : List OOut} (h : Good cfg (s, out)) {data : List Nat}
    (hd : data.length ≤ cfg.unsol - 4) : Good cfg ({ s with unsolBuf := writeAt s.unsolBuf 4 data }, out) := by
  obtain ⟨⟨hc, h10, hu4, hsl, hul, hrest⟩, ho⟩ := h
  refine ⟨⟨hc, h10, hu4, hsl, ?_, hrest⟩, ho⟩
  show (writeAt _ _ _).length = _
  dsimp only at hul
  rw [writeAt_length] <;> omega

/-! ## `mode` and `lastReq` are not touched by the handlers

`Inv` relates `mode` to `lastReq`; `lastReq` is stored after a handler ran, so the proofs need to know
that the handler left `mode` alone. -/

/-- the accumulator's `mode` is `m` -/
def ModeIs (m : Mode) (a : Acc) : Prop := a.1.mode = m

theorem ModeIs.emitCb {m : Mode} {a : Acc} (h : ModeIs m a) (c : Cb) : ModeIs m (emitCb a c) := h

theorem ModeIs.nextStatus {m : Mode} {s : OState} {out : List OOut} (h : ModeIs m (s, out)) :
    ModeIs m ((nextStatus s).1, out) := by
  unfold Dnp3.nextStatus; split <;> exact h

theorem ModeIs.handleWriteIin {m : Mode} {a : Acc} (h : ModeIs m a) (start stop : Nat) (data : List Nat) :
    ModeIs m (handleWriteIin a start stop data).1 := by
  unfold Dnp3.handleWriteIin
  apply foldl_inv (fun p : Acc × Nat => ModeIs m p.1) _ _ _ _ h
  intro p i hp
  dsimp only
  split
  · split <;> exact hp
  · exact hp

theorem ModeIs.handleWriteHeader {m : Mode} {a : Acc} (h : ModeIs m a) (hd : ObjHdr) :
    ModeIs m (handleWriteHeader a hd).1 := by
  unfold Dnp3.handleWriteHeader
  splits
  all_goals first | exact h.handleWriteIin _ _ _ | exact h

theorem ModeIs.handleWrite {m : Mode} {a : Acc} (h : ModeIs m a) (seq : Nat) (hs : List ObjHdr) :
    ModeIs m (handleWrite a seq hs).1 := by
  unfold Dnp3.handleWrite
  apply foldl_inv (fun p : Acc × Nat => ModeIs m p.1) _ _ _ _ h
  intro p hd hp
  exact hp.handleWriteHeader hd

theorem ModeIs.handleFreezeHeader {m : Mode} {a : Acc} (h : ModeIs m a) (k : FreezeKind) (hd : ObjHdr) :
    ModeIs m (handleFreezeHeader a k hd).1 := by
  unfold Dnp3.handleFreezeHeader
  splits <;> exact h

theorem ModeIs.handleFreeze {m : Mode} {a : Acc} (h : ModeIs m a) (seq : Nat) (k : FreezeKind) (hs : List ObjHdr) :
    ModeIs m (handleFreeze a seq k hs).1 := by
  unfold Dnp3.handleFreeze
  apply foldl_inv (fun p : Acc × Nat => ModeIs m p.1) _ _ _ _ h
  intro p hd hp
  exact hp.handleFreezeHeader k hd

theorem ModeIs.handleFreezeAtTime {m : Mode} {a : Acc} (h : ModeIs m a) (seq : Nat) (hs : List ObjHdr) :
    ModeIs m (handleFreezeAtTime a seq hs).1 :=
  handleFreezeAtTime_inv (ModeIs m) (fun _ hd hb => hb.handleFreezeHeader .atTime hd) a seq hs h

theorem ModeIs.handleEnableDisable {m : Mode} {a : Acc} (h : ModeIs m a) (en : Bool) (seq : Nat) (hs : List ObjHdr) :
    ModeIs m (handleEnableDisable a en seq hs).1 := by
  unfold Dnp3.handleEnableDisable
  split
  · exact h
  · apply foldl_inv (fun p : OState × Nat => ModeIs m (p.1, a.2)) _ _ _ _ h
    intro p hd hp
    splits <;> exact hp

theorem ModeIs.countOfOne {m : Mode} {a : Acc} (h : ModeIs m a) (seq g v value : Nat) :
    ModeIs m (countOfOne a seq g v value).1 := h

theorem ModeIs.handleRestart {m : Mode} {a : Acc} (h : ModeIs m a) (seq : Nat) (name : Cb) :
    ModeIs m (handleRestart a seq name).1 := by
  unfold Dnp3.handleRestart
  splits <;> exact h

theorem ModeIs.ctlStatus {m : Mode} (kind : Option CtlKind) (fixedStatus : Nat) (maxctl : Option Nat)
    (h : ObjHdr) (ix obj : List Nat) (r : CtlRun) (hg : ModeIs m r.acc) :
    ModeIs m (C12.ctlStatus kind fixedStatus maxctl h ix obj r).1.acc := by
  unfold C12.ctlStatus
  cases kind with
  | none => exact hg
  | some k =>
    dsimp only
    have : ModeIs m ((Dnp3.nextStatus r.acc.1).1, r.acc.2) := ModeIs.nextStatus (s := r.acc.1) (out := r.acc.2) hg
    repeat' split
    all_goals (dsimp only; first | exact this | exact hg)

theorem ModeIs.go {m : Mode} (kind : Option CtlKind) (fixedStatus : Nat) (maxctl : Option Nat) (h : ObjHdr)
    (isz : Nat) (hdrBytes : List Nat) :
    ∀ (items : List (List Nat × List Nat)) (r : CtlRun) (count : Nat) (hdrOut body : List Nat),
      ModeIs m r.acc →
      ModeIs m (ctlHeader.go kind fixedStatus maxctl h isz hdrBytes items r count hdrOut body).acc := by
  intro items
  induction items with
  | nil => intro r count hdrOut body hg; rw [go_nil]; exact hg
  | cons it rest ih =>
    intro r count hdrOut body hg
    obtain ⟨ix, obj⟩ := it
    rw [go_cons]
    split
    · exact hg
    · have qg := ModeIs.ctlStatus kind fixedStatus maxctl h ix obj r hg
      generalize C12.ctlStatus kind fixedStatus maxctl h ix obj r = q at qg ⊢
      dsimp only
      by_cases hk : kind = some CtlKind.donr
      · rw [if_pos hk]; exact ih _ _ _ _ qg
      · rw [if_neg hk]
        by_cases hfit : q.1.out.length + (if count = 0 then hdrBytes ++ (if isz = 1 then [0] else [0, 0]) else hdrOut).length
              + body.length + (ix ++ withStatus obj q.2.1).length > q.1.cap
        · rw [if_pos hfit]; exact qg
        · rw [if_neg hfit]; exact ih _ _ _ _ qg

theorem ModeIs.ctlAll {m : Mode} (kind : Option CtlKind) (fixedStatus : Nat) (maxctl : Option Nat)
    (hs : List ObjHdr) {r : CtlRun} (hr : ModeIs m r.acc) :
    ModeIs m (ctlAll kind fixedStatus maxctl hs r).acc := by
  unfold Dnp3.ctlAll
  apply foldl_inv (fun r : CtlRun => ModeIs m r.acc) _ _ _ _ hr
  intro r h hr
  split
  · exact hr
  · unfold ctlHeader; exact ModeIs.go _ _ _ _ _ _ _ _ _ _ _ hr

theorem ModeIs.ctlFinish {m : Mode} {r : CtlRun} (hr : ModeIs m r.acc) : ModeIs m (ctlFinish r).acc := by
  unfold Dnp3.ctlFinish
  split
  · exact hr.emitCb _
  · exact hr

theorem ModeIs.handleControls {m : Mode} {a a' : Acc} (h : ModeIs m a) {func seq frameId : Nat}
    {hs : List ObjHdr} {raw : List Nat} {ro : Option Resp}
    (hc : handleControls a func seq frameId hs raw = some (a', ro)) : ModeIs m a' := by
  have key : ∀ (kind : Option CtlKind) (fs : Nat) (mc : Option Nat) (cap : Nat),
      ModeIs m (Dnp3.ctlFinish (Dnp3.ctlAll kind fs mc hs { acc := a, cap := cap })).acc :=
    fun kind fs mc cap => ModeIs.ctlFinish (ModeIs.ctlAll kind fs mc hs (r := ({ acc := a, cap := cap } : CtlRun)) h)
  unfold Dnp3.handleControls at hc
  split at hc
  · simp only [Option.some.injEq, Prod.mk.injEq] at hc
    obtain ⟨rfl, _⟩ := hc; exact h
  · dsimp only at hc
    split at hc
    · simp only [Option.some.injEq, Prod.mk.injEq] at hc
      obtain ⟨rfl, _⟩ := hc
      have := key (some .select) 0 a.1.cfg.maxctl (a.1.cfg.sol - 4)
      unfold ModeIs at this ⊢
      dsimp only
      split <;> exact this
    · split at hc
      · split at hc
        · simp only [Option.some.injEq, Prod.mk.injEq] at hc
          obtain ⟨rfl, _⟩ := hc
          exact key none _ none (a.1.cfg.sol - 4)
        · simp only [Option.some.injEq, Prod.mk.injEq] at hc
          obtain ⟨rfl, _⟩ := hc
          exact key (some .sbo) 0 a.1.cfg.maxctl (a.1.cfg.sol - 4)
      · split at hc
        · simp only [Option.some.injEq, Prod.mk.injEq] at hc
          obtain ⟨rfl, _⟩ := hc
          exact key (some .dop) 0 a.1.cfg.maxctl (a.1.cfg.sol - 4)
        · simp only [Option.some.injEq, Prod.mk.injEq] at hc
          obtain ⟨rfl, _⟩ := hc
          exact key (some .donr) 0 a.1.cfg.maxctl (a.1.cfg.sol - 4)

theorem ModeIs.nonReadRes {m : Mode} {a a' : Acc} (h : ModeIs m a) {func seq frameId : Nat}
    {hs : List ObjHdr} {raw : List Nat} {ro : Option Resp}
    (hn : nonReadRes a func seq frameId hs raw = some (a', ro)) : ModeIs m a' := by
  unfold C12.nonReadRes at hn
  by_cases c0 : func = 2
  · rw [if_pos c0] at hn; simp only [Option.some.injEq, Prod.mk.injEq] at hn; obtain ⟨rfl, _⟩ := hn
    exact h.handleWrite seq hs
  rw [if_neg c0] at hn
  by_cases c1 : func = 23
  · rw [if_pos c1] at hn; simp only [Option.some.injEq, Prod.mk.injEq] at hn; obtain ⟨rfl, _⟩ := hn
    exact h
  rw [if_neg c1] at hn
  by_cases c2 : func = 24
  · rw [if_pos c2] at hn; simp only [Option.some.injEq, Prod.mk.injEq] at hn; obtain ⟨rfl, _⟩ := hn
    exact h
  rw [if_neg c2] at hn
  by_cases c3 : func = 13
  · rw [if_pos c3] at hn; simp only [Option.some.injEq, Prod.mk.injEq] at hn; obtain ⟨rfl, _⟩ := hn
    exact h.handleRestart _ _
  rw [if_neg c3] at hn
  by_cases c4 : func = 14
  · rw [if_pos c4] at hn; simp only [Option.some.injEq, Prod.mk.injEq] at hn; obtain ⟨rfl, _⟩ := hn
    exact h.handleRestart _ _
  rw [if_neg c4] at hn
  by_cases c5 : func = 3 ∨ func = 4 ∨ func = 5 ∨ func = 6
  · rw [if_pos c5] at hn; exact h.handleControls hn
  rw [if_neg c5] at hn
  by_cases c6 : func = 7
  · rw [if_pos c6] at hn; simp only [Option.some.injEq, Prod.mk.injEq] at hn; obtain ⟨rfl, _⟩ := hn
    exact h.handleFreeze _ _ _
  rw [if_neg c6] at hn
  by_cases c7 : func = 8
  · rw [if_pos c7] at hn; simp only [Option.some.injEq, Prod.mk.injEq] at hn; obtain ⟨rfl, _⟩ := hn
    exact h.handleFreeze _ _ _
  rw [if_neg c7] at hn
  by_cases c8 : func = 9
  · rw [if_pos c8] at hn; simp only [Option.some.injEq, Prod.mk.injEq] at hn; obtain ⟨rfl, _⟩ := hn
    exact h.handleFreeze _ _ _
  rw [if_neg c8] at hn
  by_cases c9 : func = 10
  · rw [if_pos c9] at hn; simp only [Option.some.injEq, Prod.mk.injEq] at hn; obtain ⟨rfl, _⟩ := hn
    exact h.handleFreeze _ _ _
  rw [if_neg c9] at hn
  by_cases c10 : func = 11
  · rw [if_pos c10] at hn; simp only [Option.some.injEq, Prod.mk.injEq] at hn; obtain ⟨rfl, _⟩ := hn
    exact h.handleFreezeAtTime _ _
  rw [if_neg c10] at hn
  by_cases c11 : func = 12
  · rw [if_pos c11] at hn; simp only [Option.some.injEq, Prod.mk.injEq] at hn; obtain ⟨rfl, _⟩ := hn
    exact h.handleFreezeAtTime _ _
  rw [if_neg c11] at hn
  by_cases c12 : func = 20
  · rw [if_pos c12] at hn; simp only [Option.some.injEq, Prod.mk.injEq] at hn; obtain ⟨rfl, _⟩ := hn
    exact h.handleEnableDisable _ _ _
  rw [if_neg c12] at hn
  by_cases c13 : func = 21
  · rw [if_pos c13] at hn; simp only [Option.some.injEq, Prod.mk.injEq] at hn; obtain ⟨rfl, _⟩ := hn
    exact h.handleEnableDisable _ _ _
  rw [if_neg c13] at hn
  simp only [Option.some.injEq, Prod.mk.injEq] at hn; obtain ⟨rfl, _⟩ := hn
  exact h

/-- `handle_non_read` leaves `mode` alone -/
theorem handleNonRead_mode {a a' : Acc} {func seq frameId : Nat} {hs : List ObjHdr} {raw : List Nat}
    {ro : Option Resp} (hn : handleNonRead a func seq frameId hs raw = some (a', ro)) : a'.1.mode = a.1.mode := by
  have h : ModeIs a.1.mode a := rfl
  rw [handleNonRead_eq] at hn
  split at hn
  · simp at hn
  · rename_i a1 hres
    simp only [Option.some.injEq, Prod.mk.injEq] at hn
    obtain ⟨rfl, _⟩ := hn
    exact h.nonReadRes hres
  · rename_i a1 r1 hres
    simp only [Option.some.injEq, Prod.mk.injEq] at hn
    obtain ⟨rfl, _⟩ := hn
    exact h.nonReadRes hres

theorem popRequest_mode (s : OState) : (popRequest s).1.mode = s.mode ∧ (popRequest s).1.lastReq = s.lastReq := by
  rcases popRequest_state s with e | e <;> rw [e] <;> exact ⟨rfl, rfl⟩

theorem getResponseIin_mode {s s' : OState} {i1 i2 : Nat} (h : getResponseIin s = some (s', i1, i2)) :
    s'.mode = s.mode ∧ s'.lastReq = s.lastReq := by
  rcases getResponseIin_state h with rfl | rfl <;> exact ⟨rfl, rfl⟩

/-- `write_solicited` leaves `mode` and `lastReq` alone -/
theorem writeSolicited_mode {a a' : Acc} {dst : Nat} {r r' : Resp} (hw : writeSolicited a dst r = some (a', r')) :
    a'.1.mode = a.1.mode ∧ a'.1.lastReq = a.1.lastReq := by
  unfold Dnp3.writeSolicited at hw
  split at hw
  · simp at hw
  · rename_i s i1 i2 hg
    simp only [Option.some.injEq, Prod.mk.injEq] at hw
    obtain ⟨rfl, _⟩ := hw
    have hh := getResponseIin_mode hg
    exact ⟨hh.1, hh.2⟩

theorem formatReadResponse_mode (s : OState) (fir : Bool) (seq iin2 : Nat) :
    (formatReadResponse s fir seq iin2).1.mode = s.mode ∧ (formatReadResponse s fir seq iin2).1.lastReq = s.lastReq :=
  ⟨rfl, rfl⟩

theorem foldl_emitCb_state (g : Nat → Cb) : ∀ (ids : List Nat) (b : Acc),
    (ids.foldl (fun a id => emitCb a (g id)) b).1 = b.1
  | [], _ => rfl
  | _ :: ids, _ => foldl_emitCb_state g ids _

theorem clearWrittenEvents_mode (a : Acc) :
    (clearWrittenEvents a).1.mode = a.1.mode ∧ (clearWrittenEvents a).1.lastReq = a.1.lastReq := by
  unfold Dnp3.clearWrittenEvents
  dsimp only
  show (List.foldl (fun a id => emitCb a (Cb.eventCleared id)) _ _).1.mode = _ ∧
    (List.foldl (fun a id => emitCb a (Cb.eventCleared id)) _ _).1.lastReq = _
  rw [foldl_emitCb_state]
  exact ⟨rfl, rfl⟩

/-! ## READ responses -/

theorem Good.formatReadResponse {cfg : OCfg} (hdb : DbContract) {s : OState} {out : List OOut}
    (h : Good cfg (s, out)) (fir : Bool) {seq : Nat} (hseq : seq < 16) (iin2 : Nat) :
    Good cfg ((formatReadResponse s fir seq iin2).1, out) ∧
    SolResp cfg (formatReadResponse s fir seq iin2).2.1 ∧
    (formatReadResponse s fir seq iin2).2.1.ctrl.seq = seq ∧
    (formatReadResponse s fir seq iin2).2.1.ctrl.fir = fir ∧
    (∀ sr, (formatReadResponse s fir seq iin2).2.2 = some sr → sr.ecsn = seq) := by
  have hc : s.cfg = cfg := h.1.1
  have h10 := h.1.2.1
  unfold Dnp3.formatReadResponse
  have hl := hdb.writeResponse_len s.db (s.cfg.sol - 4)
  generalize s.db.writeResponse (s.cfg.sol - 4) = w at hl ⊢
  obtain ⟨db, bytes, he, cp⟩ := w
  dsimp only at hl ⊢
  rw [hc] at hl
  refine ⟨Good.writeSol4 (s := { s with db := db }) h hl, ⟨rfl, rfl, hseq, by dsimp only; omega⟩, rfl, rfl, ?_⟩
  intro sr hsr
  split at hsr
  · simp only [Option.some.injEq] at hsr; subst hsr; rfl
  · simp at hsr

/-! ## broadcast, confirm bookkeeping, error responses -/

theorem Good.processBroadcast {cfg : OCfg} {a a' : Acc} (h : Good cfg a) {f : Frag} {mode : Nat} {ctrl : AppCtrl}
    (hseq : ctrl.seq < 16) {func : Nat} {objects : Except Nat (List ObjHdr)} {raw : List Nat}
    (hp : processBroadcast a f mode ctrl func objects raw = some a') : Good cfg a' := by
  unfold Dnp3.processBroadcast at hp
  have h0 : Good cfg ({ a.1 with lastBroadcast := some mode }, a.2) := h
  generalize ({ a.1 with lastBroadcast := some mode }, a.2) = a0 at h0 hp
  dsimp only at hp
  split at hp
  · simp only [Option.some.injEq] at hp; subst hp; exact h0.emitCb _
  · split at hp
    · simp only [Option.some.injEq] at hp; subst hp; exact h0.emitCb _
    · rename_i hs
      by_cases c2 : func = 2
      · rw [if_pos c2] at hp; simp only [Option.some.injEq] at hp; subst hp
        exact (h0.handleWrite _ _).1.emitCb _
      rw [if_neg c2] at hp
      by_cases c6 : func = 6
      · rw [if_pos c6] at hp
        split at hp
        · simp at hp
        · rename_i a1 ro hc
          simp only [Option.some.injEq] at hp; subst hp
          exact (h0.handleControls hseq hc).1.emitCb _
      rw [if_neg c6] at hp
      by_cases c8 : func = 8
      · rw [if_pos c8] at hp; simp only [Option.some.injEq] at hp; subst hp
        exact (h0.handleFreeze _ _ _).1.emitCb _
      rw [if_neg c8] at hp
      by_cases c10 : func = 10
      · rw [if_pos c10] at hp; simp only [Option.some.injEq] at hp; subst hp
        exact (h0.handleFreeze _ _ _).1.emitCb _
      rw [if_neg c10] at hp
      by_cases c12 : func = 12
      · rw [if_pos c12] at hp; simp only [Option.some.injEq] at hp; subst hp
        exact (h0.handleFreezeAtTime _ _).1.emitCb _
      rw [if_neg c12] at hp
      by_cases c24 : func = 24
      · rw [if_pos c24] at hp; simp only [Option.some.injEq] at hp; subst hp
        exact Good.emitCb (a := ({ a0.1 with lastRecorded := some a0.1.now }, a0.2)) h0 _
      rw [if_neg c24] at hp
      by_cases c21 : func = 21
      · rw [if_pos c21] at hp; simp only [Option.some.injEq] at hp; subst hp
        exact (h0.handleEnableDisable _ _ _).1.emitCb _
      rw [if_neg c21] at hp
      by_cases c20 : func = 20
      · rw [if_pos c20] at hp; simp only [Option.some.injEq] at hp; subst hp
        exact (h0.handleEnableDisable _ _ _).1.emitCb _
      rw [if_neg c20] at hp
      simp only [Option.some.injEq] at hp; subst hp
      exact h0.emitCb _

theorem Good.clearWrittenEvents {cfg : OCfg} {a : Acc} (h : Good cfg a) : Good cfg (clearWrittenEvents a) := by
  unfold Dnp3.clearWrittenEvents
  dsimp only
  apply Good.emitCb
  apply foldl_inv (Good cfg)
  · intro b id hb; exact hb.emitCb _
  · exact Good.emitCb (a := a) h _

theorem Good.writeErrorResponse {cfg : OCfg} {a a' : Acc} (h : Good cfg a) {dst : Nat} {bc : Bool} {seq : Option Nat}
    (hseq : ∀ n, seq = some n → n < 16) (hw : writeErrorResponse a dst bc seq = some a') : Good cfg a' := by
  unfold Dnp3.writeErrorResponse at hw
  split at hw
  · simp only [Option.some.injEq] at hw; subst hw; exact h
  split at hw
  · simp only [Option.some.injEq] at hw; subst hw; exact h
  · rename_i n
    split at hw
    · simp at hw
    · rename_i a1 r1 hws
      simp only [Option.some.injEq] at hw; subst hw
      exact (h.writeSolicited (emptySolicited_ok (hseq n rfl) _).1 hws).1

/-- the classification / execution part of `handle_one_request_from_idle` (before the response is sent) -/
def idleResult (a : Acc) (f : Frag) (ctrl : AppCtrl) (func : Nat)
    (objects : Except Nat (List ObjHdr)) (raw : List Nat) : Option (Acc × Option (LastReq × Bool)) :=
  let seq := ctrl.seq
  match classify a.1 f ctrl func objects with
  | .malformed e => some (a, some (⟨seq, f.data, some (emptySolicited seq e), none⟩, false))
  | .newRead hs | .repeatRead _ hs =>
    let (db, iin2) := dbSelectAll a.1.db hs
    let (s, r, series) := formatReadResponse { a.1 with db := db } true seq iin2
    some ((s, a.2), some (⟨seq, f.data, some r, series⟩, false))
  | .newNonRead hs =>
    match handleNonRead a func seq f.id hs raw with
    | none => none
    | some (a, r) => some (a, some (⟨seq, f.data, r, none⟩, false))
  | .repeatNonRead last =>
    let s := a.1
    let s := match s.select with
      | some sel =>
        if func = 3 ∧ sel.seq = seq ∧ (sel.frameId + 1) % 4294967296 = f.id ∧ sel.objects = raw then
          { s with select := some { sel with frameId := f.id } }
        else s
      | none => s
    some ((s, a.2), some (⟨seq, f.data, last, s.lastReq.bind (·.series)⟩, true))
  | .broadcast mode =>
    match processBroadcast a f mode ctrl func objects raw with
    | none => none
    | some a => some (a, none)
  | .solConfirm _ | .unsolConfirm _ => some (a, none)

theorem handleRequestFromIdle_eq (a : Acc) (f : Frag) (ctrl : AppCtrl) (func : Nat)
    (objects : Except Nat (List ObjHdr)) (raw : List Nat) :
    handleRequestFromIdle a f ctrl func objects raw =
      match idleResult a f ctrl func objects raw with
      | none => none
      | some (a, none) => some (a, none)
      | some (a, some (lr, echo)) =>
        match lr.response with
        | none => some (({ a.1 with lastReq := some lr }, a.2), lr.series)
        | some r =>
          if echo then
            some (({ (repeatSolicited a f.src r).1 with lastReq := some lr }, (repeatSolicited a f.src r).2), lr.series)
          else
          match writeSolicited a f.src r with
          | none => none
          | some (a, r) =>
            let series := if r.ctrl.con ∧ lr.series.isNone then some ⟨r.ctrl.seq, true⟩ else lr.series
            some (({ a.1 with lastReq := some { lr with response := some r, series := series } }, a.2), series) := rfl

/-- what `idleResult` hands to the writer -/
def PreStored (cfg : OCfg) (f : Frag) (ctrl : AppCtrl) (func : Nat) (lr : LastReq) : Prop :=
  lr.seq = ctrl.seq ∧ lr.frag = f.data ∧
  ∀ r, lr.response = some r → SolResp cfg r ∧ r.ctrl.seq = ctrl.seq ∧ r.ctrl.fir = true ∧ (func ≠ 1 → r.ctrl.fin = true)

theorem Good.idleResult {cfg : OCfg} (hdb : DbContract) {a a' : Acc} (h : Good cfg a) {f : Frag} {ctrl : AppCtrl}
    {func : Nat} {objects : Except Nat (List ObjHdr)} {raw : List Nat} (hseq : ctrl.seq < 16)
    (hfn : f.data.getD 1 0 = func) {olr : Option (LastReq × Bool)}
    (hi : idleResult a f ctrl func objects raw = some (a', olr)) :
    Good cfg a' ∧ ∀ lr e, olr = some (lr, e) → PreStored cfg f ctrl func lr := by
  unfold Dnp3.Proofs.C12.idleResult at hi
  dsimp only at hi
  have noLr : ∀ lr e, (none : Option (LastReq × Bool)) = some (lr, e) → PreStored cfg f ctrl func lr :=
    fun lr e hl => by simp at hl
  split at hi
  · -- malformed
    simp only [Option.some.injEq, Prod.mk.injEq] at hi
    obtain ⟨rfl, rfl⟩ := hi
    refine ⟨h, fun lr e hl => ?_⟩
    simp only [Option.some.injEq, Prod.mk.injEq] at hl; obtain ⟨rfl, rfl⟩ := hl
    refine ⟨rfl, rfl, fun r hr => ?_⟩
    simp only [Option.some.injEq] at hr; subst hr
    exact ⟨(emptySolicited_ok hseq _).1, rfl, rfl, fun _ => rfl⟩
  · -- new read
    rename_i hs hcl
    simp only [Option.some.injEq, Prod.mk.injEq] at hi
    obtain ⟨rfl, rfl⟩ := hi
    have hf := Good.formatReadResponse hdb (s := { a.1 with db := (dbSelectAll a.1.db hs).1 }) (out := a.2) h true hseq
      (dbSelectAll a.1.db hs).2
    refine ⟨hf.1, fun lr e hl => ?_⟩
    simp only [Option.some.injEq, Prod.mk.injEq] at hl; obtain ⟨rfl, rfl⟩ := hl
    refine ⟨rfl, rfl, fun r hr => ?_⟩
    simp only [Option.some.injEq] at hr; subst hr
    exact ⟨hf.2.1, hf.2.2.1, hf.2.2.2.1, fun hne => absurd (classify_func.1 _ hcl) hne⟩
  · -- repeated read
    rename_i r0 hs hcl
    simp only [Option.some.injEq, Prod.mk.injEq] at hi
    obtain ⟨rfl, rfl⟩ := hi
    have hf := Good.formatReadResponse hdb (s := { a.1 with db := (dbSelectAll a.1.db hs).1 }) (out := a.2) h true hseq
      (dbSelectAll a.1.db hs).2
    refine ⟨hf.1, fun lr e hl => ?_⟩
    simp only [Option.some.injEq, Prod.mk.injEq] at hl; obtain ⟨rfl, rfl⟩ := hl
    refine ⟨rfl, rfl, fun r hr => ?_⟩
    simp only [Option.some.injEq] at hr; subst hr
    exact ⟨hf.2.1, hf.2.2.1, hf.2.2.2.1, fun hne => absurd (classify_func.2.1 _ _ hcl) hne⟩
  · -- new non-read
    split at hi
    · simp at hi
    · rename_i a1 r1 hn
      simp only [Option.some.injEq, Prod.mk.injEq] at hi
      obtain ⟨rfl, rfl⟩ := hi
      have hg := h.handleNonRead hseq hn
      refine ⟨hg.1, fun lr e hl => ?_⟩
      simp only [Option.some.injEq, Prod.mk.injEq] at hl; obtain ⟨rfl, rfl⟩ := hl
      refine ⟨rfl, rfl, fun r hr => ?_⟩
      dsimp only at hr
      have := hg.2 r hr
      exact ⟨this.1, this.2.1, this.2.2.1, fun _ => this.2.2.2⟩
  · -- repeated non-read
    rename_i last hcl
    simp only [Option.some.injEq, Prod.mk.injEq] at hi
    obtain ⟨rfl, rfl⟩ := hi
    obtain ⟨lr0, hl0, hs0, hf0, rfl⟩ := classify_repeat (Or.inr hcl)
    have hst := h.1.2.2.2.2.2.2.1 lr0 hl0
    refine ⟨?_, fun lr e hl => ?_⟩
    · splits <;> exact h
    · simp only [Option.some.injEq, Prod.mk.injEq] at hl; obtain ⟨rfl, rfl⟩ := hl
      refine ⟨rfl, rfl, fun r hr => ?_⟩
      dsimp only at hr
      obtain ⟨h1, h234⟩ := hst.2.1 r hr
      obtain ⟨h2, h3, h4⟩ := h234 (by rw [hf0, hfn]; exact classify_func.2.2.2 _ hcl)
      exact ⟨h1, h2.trans hs0, h3, fun _ => h4⟩
  · -- broadcast
    split at hi
    · simp at hi
    · rename_i a1 hp
      simp only [Option.some.injEq, Prod.mk.injEq] at hi
      obtain ⟨rfl, rfl⟩ := hi
      exact ⟨h.processBroadcast hseq hp, noLr⟩
  · simp only [Option.some.injEq, Prod.mk.injEq] at hi
    obtain ⟨rfl, rfl⟩ := hi
    exact ⟨h, noLr⟩
  · simp only [Option.some.injEq, Prod.mk.injEq] at hi
    obtain ⟨rfl, rfl⟩ := hi
    exact ⟨h, noLr⟩

theorem PreStored.stored {cfg : OCfg} {f : Frag} {ctrl : AppCtrl} {func : Nat} {lr : LastReq}
    (hseq : ctrl.seq < 16) (hfn : f.data.getD 1 0 = func) (h : PreStored cfg f ctrl func lr)
    (hser : ∀ sr, lr.series = some sr → sr.fin = false → func = 1) : StoredOk cfg lr := by
  obtain ⟨h1, h2, h3⟩ := h
  refine ⟨h1 ▸ hseq, fun r hr => ?_, fun sr hs hf => by rw [h2, hfn]; exact hser sr hs hf⟩
  obtain ⟨a1, a2, a3, a4⟩ := h3 r hr
  exact ⟨a1, fun hne => ⟨a2.trans h1.symm, a3, a4 (by rw [h2, hfn] at hne; exact hne)⟩⟩

/-- the record `idleResult` hands to the writer is that of the fragment; only a READ starts a series, and the
    series kept with an echoed record (`hst`: the invariant of the stored request) is unfinished only for a READ -/
theorem idleResult_lr {a a1 : Acc} {f : Frag} {ctrl : AppCtrl} {func : Nat} {objects : Except Nat (List ObjHdr)}
    {raw : List Nat} {lr : LastReq} {e : Bool} (hfn : f.data.getD 1 0 = func)
    (hst : ∀ lr0, a.1.lastReq = some lr0 → ∀ sr, lr0.series = some sr → sr.fin = false → lr0.frag.getD 1 0 = 1)
    (hi : idleResult a f ctrl func objects raw = some (a1, some (lr, e))) :
    lr.frag = f.data ∧ (∀ sr, lr.series = some sr → sr.fin = false → func = 1) ∧ a1.1.mode = a.1.mode := by
  unfold Dnp3.Proofs.C12.idleResult at hi
  dsimp only at hi
  split at hi
  · simp only [Option.some.injEq, Prod.mk.injEq] at hi
    obtain ⟨rfl, rfl, rfl⟩ := hi
    exact ⟨rfl, fun sr h => by simp at h, rfl⟩
  · rename_i hs hcl
    simp only [Option.some.injEq, Prod.mk.injEq] at hi
    obtain ⟨rfl, rfl, rfl⟩ := hi
    exact ⟨rfl, fun _ _ _ => classify_func.1 _ hcl, rfl⟩
  · rename_i r0 hs hcl
    simp only [Option.some.injEq, Prod.mk.injEq] at hi
    obtain ⟨rfl, rfl, rfl⟩ := hi
    exact ⟨rfl, fun _ _ _ => classify_func.2.1 _ _ hcl, rfl⟩
  · split at hi
    · simp at hi
    · rename_i a2 r1 hn
      simp only [Option.some.injEq, Prod.mk.injEq] at hi
      obtain ⟨rfl, rfl, rfl⟩ := hi
      exact ⟨rfl, fun sr h => by simp at h, handleNonRead_mode hn⟩
  · rename_i last hcl
    simp only [Option.some.injEq, Prod.mk.injEq] at hi
    obtain ⟨rfl, rfl, rfl⟩ := hi
    obtain ⟨lr0, hl0, _, hf0, _⟩ := classify_repeat (Or.inr hcl)
    refine ⟨rfl, fun sr hsr hf => ?_, ?_⟩
    · have hl : ∀ s' : OState, s'.lastReq = a.1.lastReq → s'.lastReq.bind (·.series) = some sr → func = 1 := by
        intro s' hs' hb
        rw [hs', hl0] at hb
        have := hst lr0 hl0 sr hb hf
        rw [hf0, hfn] at this
        exact this
      refine hl _ ?_ hsr
      splits <;> rfl
    · dsimp only
      splits <;> rfl
  · split at hi
    · simp at hi
    · simp at hi
  · simp at hi
  · simp at hi

/-- a series that `handle_one_request_from_idle` leaves open (`fin` clear) is that of a READ, and that
    READ is what `lastReq` holds (`hst`: the invariant of the stored request, for the echo of a repeated request) -/
theorem handleRequestFromIdle_open {a a' : Acc} {f : Frag} {ctrl : AppCtrl} {func : Nat}
    {objects : Except Nat (List ObjHdr)} {raw : List Nat} (hfn : f.data.getD 1 0 = func)
    (hst : ∀ lr0, a.1.lastReq = some lr0 → ∀ sr, lr0.series = some sr → sr.fin = false → lr0.frag.getD 1 0 = 1)
    {sr : Series}
    (hh : handleRequestFromIdle a f ctrl func objects raw = some (a', some sr)) (hfin : sr.fin = false) :
    ∀ lr, a'.1.lastReq = some lr → lr.frag.getD 1 0 = 1 := by
  rw [handleRequestFromIdle_eq] at hh
  split at hh
  · simp at hh
  · simp at hh
  · rename_i a1 lr e hi
    obtain ⟨hfrag, hser, _⟩ := idleResult_lr hfn hst hi
    have hread : ∀ s0, lr.series = some s0 → s0.fin = false → lr.frag.getD 1 0 = 1 := fun s0 h0 hf0 => by
      rw [hfrag, hfn]; exact hser s0 h0 hf0
    split at hh
    · simp only [Option.some.injEq, Prod.mk.injEq] at hh
      obtain ⟨rfl, hs⟩ := hh
      intro l hl
      simp only [Option.some.injEq] at hl; subst hl
      exact hread sr hs hfin
    · split at hh
      · -- echo of the stored response: the record, with the series kept in it, is stored again
        simp only [Option.some.injEq, Prod.mk.injEq] at hh
        obtain ⟨rfl, hs⟩ := hh
        intro l hl
        simp only [Option.some.injEq] at hl; subst hl
        exact hread sr hs hfin
      · split at hh
        · simp at hh
        · rename_i a2 r2 hw
          simp only [Option.some.injEq, Prod.mk.injEq] at hh
          obtain ⟨rfl, hs⟩ := hh
          intro l hl
          simp only [Option.some.injEq] at hl; subst hl
          split at hs
          · simp only [Option.some.injEq] at hs; subst hs; simp at hfin
          · exact hread sr hs hfin

/-- `hm`: the request is handled from the idle state — no solicited series is open (`runPass` is only
    entered with `mode = .idle _`) -/
theorem Good.handleRequestFromIdle {cfg : OCfg} (hdb : DbContract) {a a' : Acc} (h : Good cfg a) (hm : NoOpen a.1.mode)
    {f : Frag} {ctrl : AppCtrl} {func : Nat} {objects : Except Nat (List ObjHdr)} {raw : List Nat}
    (hreq : parseRequest f.data = .request ctrl func objects raw) {series : Option Series}
    (hh : handleRequestFromIdle a f ctrl func objects raw = some (a', series)) : Good cfg a' := by
  have hseq := parseRequest_seq_lt hreq
  have hfn := parseRequest_func hreq
  rw [handleRequestFromIdle_eq] at hh
  split at hh
  · simp at hh
  · rename_i a1 hi
    simp only [Option.some.injEq, Prod.mk.injEq] at hh
    obtain ⟨rfl, rfl⟩ := hh
    exact (h.idleResult hdb hseq hfn hi).1
  · rename_i a1 lr e hi
    obtain ⟨hg, hp⟩ := h.idleResult hdb hseq hfn hi
    have hps := hp lr e rfl
    have hlr := idleResult_lr hfn (fun lr0 hl0 => (h.1.2.2.2.2.2.2.1 lr0 hl0).2.2) hi
    have hm1 : NoOpen a1.1.mode := hlr.2.2 ▸ hm
    split at hh
    · simp only [Option.some.injEq, Prod.mk.injEq] at hh
      obtain ⟨rfl, rfl⟩ := hh
      exact hg.setLastReq _ (fun l hl => by
        simp only [Option.some.injEq] at hl; subst hl; exact hps.stored hseq hfn hlr.2.1)
        (fun _ _ _ hmo hf => hm1.elim hmo hf)
    · rename_i r hr
      split at hh
      · -- echo: the stored response goes out verbatim, the record is stored again
        simp only [Option.some.injEq, Prod.mk.injEq] at hh
        obtain ⟨rfl, rfl⟩ := hh
        exact (hg.repeatSolicited f.src (hps.2.2 r hr).1).setLastReq _ (fun l hl => by
          simp only [Option.some.injEq] at hl; subst hl; exact hps.stored hseq hfn hlr.2.1)
          (fun _ _ _ hmo hf => hm1.elim hmo hf)
      · split at hh
        · simp at hh
        · rename_i a2 r2 hw
          simp only [Option.some.injEq, Prod.mk.injEq] at hh
          obtain ⟨rfl, rfl⟩ := hh
          obtain ⟨b1, b2, b3, b4⟩ := hps.2.2 r hr
          obtain ⟨g2, s2, e1, e2, e3, _⟩ := hg.writeSolicited b1 hw
          have hm2 : NoOpen a2.1.mode := (writeSolicited_mode hw).1 ▸ hm1
          refine g2.setLastReq _ (fun l hl => ?_) (fun _ _ _ hmo hf => hm2.elim hmo hf)
          simp only [Option.some.injEq] at hl; subst hl
          refine ⟨hps.1 ▸ hseq, fun r' hr' => ?_, fun sr hs hf => ?_⟩
          · simp only [Option.some.injEq] at hr'; subst hr'
            refine ⟨s2, fun hne => ⟨(e1.trans b2).trans hps.1.symm, e2.trans b3, e3.trans (b4 ?_)⟩⟩
            rw [show ({ lr with response := some r2, series := _ } : LastReq).frag = lr.frag from rfl, hps.2.1, hfn] at hne
            exact hne
          · dsimp only at hs
            split at hs
            · simp only [Option.some.injEq] at hs; subst hs; simp at hf
            · show lr.frag.getD 1 0 = 1
              rw [hps.2.1, hfn]; exact hlr.2.1 sr hs hf

/-- a step result whose accumulator is good -/
def GoodRes (cfg : OCfg) (r : StepRes) : Prop := Good cfg (finishStep r)

theorem GoodRes.blocked {cfg : OCfg} {a : Acc} (h : Good cfg a) : GoodRes cfg (.blocked a) := h

theorem GoodRes.die {cfg : OCfg} {a : Acc} (h : Good cfg a) : GoodRes cfg (die a) := by
  unfold Dnp3.die
  exact Good.emit (h.setMode .dead (fun _ _ _ _ hm => by cases hm) (fun _ _ _ hm => by cases hm)) trivial

/-- `hs`: a series that is not finished is that of the READ in `lastReq` -/
theorem Good.enterSolWait {cfg : OCfg} {a : Acc} (h : Good cfg a) (series : Series) (cont : SolCont)
    (hs : series.fin = false → ∀ lr, a.1.lastReq = some lr → lr.frag.getD 1 0 = 1) :
    Good cfg (enterSolWait a series cont) := by
  unfold Dnp3.enterSolWait
  refine (h.emitCb _).setMode _ (fun _ _ _ _ hm => by cases hm) (fun sr _ _ hm hf => ?_)
  simp only [Mode.solWait.injEq] at hm
  obtain ⟨rfl, _, _⟩ := hm
  exact hs hf

theorem Good.startUnsolSeries {cfg : OCfg} {a a' : Acc} (h : Good cfg a) {r : Resp} (hr : UnsolResp cfg r)
    {isNull : Bool} (hs : startUnsolSeries a r isNull = some a') : Good cfg a' := by
  unfold Dnp3.startUnsolSeries at hs
  split at hs
  · simp at hs
  · rename_i a1 r1 hw
    simp only [Option.some.injEq] at hs; subst hs
    obtain ⟨g1, u1, _⟩ := h.writeUnsolicited hr hw
    refine (g1.emitCb _).setMode _ (fun r n rt d hm => ?_) (fun _ _ _ hm => by cases hm)
    simp only [Mode.unsolWait.injEq] at hm
    obtain ⟨rfl, _⟩ := hm
    exact u1

theorem unsolHeader_ok {cfg : OCfg} {seq size : Nat} (hs : seq < 16) (hz : size ≤ cfg.unsol) :
    UnsolResp cfg (unsolHeader seq size) := ⟨rfl, rfl, rfl, rfl, rfl, hs, hz⟩

/-- "`x` is a good outcome" for the sum-typed results of `check_unsolicited` -/
def GoodSum {β : Type} (cfg : OCfg) (proj : β → Acc) : Acc ⊕ β → Prop
  | .inl a => Good cfg a
  | .inr b => Good cfg (proj b)

theorem Good.checkUnsolicited {cfg : OCfg} (hdb : DbContract) {a : Acc} (h : Good cfg a)
    {x : Acc ⊕ (Acc × NextIdle)} (hc : checkUnsolicited a = some x) : GoodSum cfg Prod.fst x := by
  have hcfg : a.1.cfg = cfg := h.1.1
  have hu4 := h.1.2.2.1
  have hsq : a.1.unsolSeq < 16 := h.1.2.2.2.2.2.1
  unfold Dnp3.checkUnsolicited at hc
  dsimp only at hc
  have hl := hdb.writeUnsolicited_len a.1.db a.1.en1 a.1.en2 a.1.en3 (a.1.cfg.unsol - 4)
  generalize a.1.db.writeUnsolicited a.1.en1 a.1.en2 a.1.en3 (a.1.cfg.unsol - 4) = w at hl hc
  obtain ⟨db, bytes, count⟩ := w
  dsimp only at hl hc
  rw [hcfg] at hl
  have hg : Good cfg ({ a.1 with db := db, unsolBuf := writeAt a.1.unsolBuf 4 bytes }, a.2) :=
    Good.writeUnsol4 (s := { a.1 with db := db }) h hl
  repeat' (split at hc)
  all_goals first
    | (simp at hc; done)
    | (simp only [Option.some.injEq] at hc; subst hc
       first
        | exact h
        | exact hg
        | exact Good.startUnsolSeries (h.setUnsolSeq (seq4Next_lt _ hsq)) (unsolHeader_ok (size := 0) hsq (Nat.zero_le _)) ‹_›
        | exact Good.startUnsolSeries (hg.setUnsolSeq (seq4Next_lt _ hsq)) (unsolHeader_ok (size := 4 + bytes.length) hsq (by omega)) ‹_›)

theorem Good.afterUnsolSeries {cfg : OCfg} {a : Acc} (h : Good cfg a) (isNull confirmed : Bool) :
    Good cfg (afterUnsolSeries a isNull confirmed).1 := by
  unfold Dnp3.afterUnsolSeries
  split
  · exact h
  · split
    · exact h.clearWrittenEvents
    · exact h

theorem Good.handleDeferredRead {cfg : OCfg} (hdb : DbContract) {a : Acc} (h : Good cfg a) {next : NextIdle}
    {x : Acc ⊕ Acc} (hd : handleDeferredRead a next = some x) : GoodSum cfg id x := by
  unfold Dnp3.handleDeferredRead at hd
  split at hd
  · simp only [Option.some.injEq] at hd; subst hd; exact h
  · rename_i d hdef
    obtain ⟨hdseq, hdfrag⟩ := h.1.2.2.2.2.2.2.2.2.1 d hdef
    dsimp only at hd
    generalize hsel : List.foldl _ (a.1.db.reset, 0) d.hdrs = sel at hd
    have h0 : Good cfg ({ a.1 with db := sel.1, deferred := none, notified := true }, a.2) :=
      Good.clearDeferred (a := ({ a.1 with db := sel.1, notified := true }, a.2)) h
    have hf := Good.formatReadResponse hdb h0 true hdseq (d.iin2 ||| sel.2)
    generalize Dnp3.formatReadResponse _ true d.seq (d.iin2 ||| sel.2) = fr at hf hd
    obtain ⟨s1, r1, series⟩ := fr
    dsimp only at hf hd
    split at hd
    · simp at hd
    · rename_i a2 r2 hw
      obtain ⟨g2, s2, e1, e2, e3, _⟩ := hf.1.writeSolicited hf.2.1 hw
      have g3 : Good cfg ({ a2.1 with lastReq := some ⟨d.seq, d.frag, some r2, series⟩ }, a2.2) := by
        refine g2.setLastReq _ (fun l hl => ?_) (fun _ _ _ _ _ l hl => by
          simp only [Option.some.injEq] at hl; subst hl; exact hdfrag)
        simp only [Option.some.injEq] at hl; subst hl
        refine ⟨hdseq, fun r' hr' => ?_, fun _ _ _ => hdfrag⟩
        simp only [Option.some.injEq] at hr'; subst hr'
        exact ⟨s2, fun hne => absurd hdfrag hne⟩
      split at hd
      · simp only [Option.some.injEq] at hd; subst hd
        exact g3.enterSolWait _ _ (fun _ l hl => by
          simp only [Option.some.injEq] at hl; subst hl; exact hdfrag)
      · simp only [Option.some.injEq] at hd; subst hd
        exact g3

theorem Good.finishPass {cfg : OCfg} {a : Acc} (h : Good cfg a) (next : NextIdle) : Good cfg (finishPass a next) := by
  unfold Dnp3.finishPass
  refine Good.setMode ?_ _ (fun _ _ _ _ hm => by cases hm) (fun _ _ _ hm => by cases hm)
  split
  · split
    · exact h
    · exact Good.emit (a := a) h trivial
  · exact h

theorem finishPass_noOpen (a : Acc) (next : NextIdle) : NoOpen (finishPass a next).1.mode := by
  unfold Dnp3.finishPass
  exact NoOpen.idle _

theorem GoodRes.afterDeferred {cfg : OCfg} {k : Acc → StepRes}
    (hk : ∀ a, Good cfg a → NoOpen a.1.mode → GoodRes cfg (k a))
    {a : Acc} (h : Good cfg a) (next : NextIdle) : GoodRes cfg (afterDeferred k a next) := by
  unfold Dnp3.afterDeferred
  dsimp only
  split
  · exact hk _ (h.finishPass next) (finishPass_noOpen a next)
  · exact h.finishPass next

theorem GoodRes.afterUnsol {cfg : OCfg} (hdb : DbContract) {k : Acc → StepRes}
    (hk : ∀ a, Good cfg a → NoOpen a.1.mode → GoodRes cfg (k a)) {a : Acc} (h : Good cfg a) (next : NextIdle) :
    GoodRes cfg (afterUnsol k a next) := by
  unfold Dnp3.afterUnsol
  split
  · exact GoodRes.die h
  · rename_i a1 hd; exact h.handleDeferredRead hdb hd
  · rename_i a1 hd; exact GoodRes.afterDeferred hk (h.handleDeferredRead hdb hd) next

theorem GoodRes.afterRequest {cfg : OCfg} (hdb : DbContract) {k : Acc → StepRes}
    (hk : ∀ a, Good cfg a → NoOpen a.1.mode → GoodRes cfg (k a)) {a : Acc} (h : Good cfg a) :
    GoodRes cfg (afterRequest k a) := by
  unfold Dnp3.afterRequest
  split
  · exact GoodRes.die h
  · rename_i a1 hc; exact h.checkUnsolicited hdb hc
  · rename_i a1 next hc; exact GoodRes.afterUnsol hdb hk (h.checkUnsolicited hdb hc) next

/-- `hm`: a pass of the idle loop starts with no solicited series open (its callers enter it with
    `mode = .idle _`) -/
theorem GoodRes.runPass {cfg : OCfg} (hdb : DbContract) : ∀ (fuel : Nat) (a : Acc), Good cfg a → NoOpen a.1.mode →
    GoodRes cfg (runPass fuel a)
  | 0, a, h, _ => by
    unfold Dnp3.runPass; exact h.emitCb _
  | fuel+1, a, h, hm => by
    have ih := GoodRes.runPass (cfg := cfg) hdb fuel
    unfold Dnp3.runPass
    dsimp only
    have h0 : Good cfg ({ a.1 with notified := false }, a.2) := h
    have hp := h0.popRequest
    have he := @popRequest_error { a.1 with notified := false }
    have hr := @popRequest_request { a.1 with notified := false }
    have hpm : NoOpen (popRequest { a.1 with notified := false }).1.mode :=
      (popRequest_mode { a.1 with notified := false }).1 ▸ hm
    generalize popRequest { a.1 with notified := false } = pr at hp he hr hpm
    obtain ⟨s1, p⟩ := pr
    dsimp only at hp he hr ⊢
    split
    · exact GoodRes.afterRequest hdb ih (a := ({ s1 with pending := none }, a.2)) hp
    · rename_i src bc seq
      have hp' : Good cfg (onLinkActivity { s1 with pending := none }, a.2) := hp
      split
      · exact GoodRes.die hp'
      · rename_i a1 hw
        refine GoodRes.afterRequest hdb ih (hp'.writeErrorResponse ?_ hw)
        intro n hn; subst hn; exact (he rfl).1
    · rename_i f ctrl func objects raw
      have hp' : Good cfg (onLinkActivity { s1 with pending := none }, a.2) := hp
      have hreq := (hr rfl).2.1
      split
      · exact GoodRes.die hp'
      · rename_i a1 series hh
        exact (hp'.handleRequestFromIdle hdb hpm hreq hh).enterSolWait _ _
          (handleRequestFromIdle_open (parseRequest_func hreq) (fun lr0 hl0 => (hp'.1.2.2.2.2.2.2.1 lr0 hl0).2.2) hh)
      · rename_i a1 hh
        exact GoodRes.afterRequest hdb ih (hp'.handleRequestFromIdle hdb hpm hreq hh)

theorem GoodRes.resumeAfterSol {cfg : OCfg} (hdb : DbContract) {a : Acc} (h : Good cfg a) (cont : SolCont) :
    GoodRes cfg (resumeAfterSol a cont) := by
  unfold Dnp3.resumeAfterSol
  split
  · exact GoodRes.afterRequest hdb (GoodRes.runPass hdb _) h
  · exact GoodRes.afterDeferred (GoodRes.runPass hdb _) h.clearDeferred _

theorem GoodRes.abortSeries {cfg : OCfg} (hdb : DbContract) {a : Acc} (h : Good cfg a) (cont : SolCont) :
    GoodRes cfg (abortSeries a cont) := by
  unfold Dnp3.abortSeries
  exact GoodRes.resumeAfterSol hdb (a := ({ a.1 with db := a.1.db.reset }, a.2)) h cont

theorem GoodRes.solWaitTimeout {cfg : OCfg} (hdb : DbContract) {a : Acc} (h : Good cfg a) (series : Series)
    (cont : SolCont) : GoodRes cfg (solWaitTimeout a series cont) := by
  unfold Dnp3.solWaitTimeout
  exact GoodRes.abortSeries hdb (h.emitCb _) cont

theorem GoodRes.finishUnsol {cfg : OCfg} (hdb : DbContract) {a : Acc} (h : Good cfg a) (isNull confirmed : Bool) :
    GoodRes cfg (finishUnsol a isNull confirmed) := by
  unfold Dnp3.finishUnsol
  exact GoodRes.afterUnsol hdb (GoodRes.runPass hdb _) (h.afterUnsolSeries isNull confirmed) _

/-- the stored response of a READ is replaced by the fragment just sent (D5 repaired) -/
theorem Good.storeResponse {cfg : OCfg} {a : Acc} (h : Good cfg a) {r : Resp} (hr : SolResp cfg r)
    (hread : ∀ lr, a.1.lastReq = some lr → lr.frag.getD 1 0 = 1) :
    Good cfg ({ a.1 with lastReq := a.1.lastReq.map (fun lr => { lr with response := some r }) }, a.2) ∧
    ∀ lr, a.1.lastReq.map (fun lr => { lr with response := some r }) = some lr → lr.frag.getD 1 0 = 1 := by
  have key : ∀ l, a.1.lastReq.map (fun lr => { lr with response := some r }) = some l →
      ∃ lr0, a.1.lastReq = some lr0 ∧ l = { lr0 with response := some r } := by
    intro l hl
    cases h0 : a.1.lastReq with
    | none => rw [h0] at hl; simp at hl
    | some lr0 =>
      rw [h0] at hl
      simp only [Option.map_some, Option.some.injEq] at hl
      exact ⟨lr0, rfl, hl.symm⟩
  have hread' : ∀ lr, a.1.lastReq.map (fun lr => { lr with response := some r }) = some lr → lr.frag.getD 1 0 = 1 := by
    intro l hl
    obtain ⟨lr0, h0, rfl⟩ := key l hl
    exact hread lr0 h0
  refine ⟨h.setLastReq _ (fun l hl => ?_) (fun _ _ _ _ _ l hl => hread' l hl), hread'⟩
  obtain ⟨lr0, h0, rfl⟩ := key l hl
  refine ⟨(h.1.2.2.2.2.2.2.1 lr0 h0).1, fun r' hr' => ?_, fun _ _ _ => hread lr0 h0⟩
  simp only [Option.some.injEq] at hr'; subst hr'
  exact ⟨hr, fun hne => absurd (hread lr0 h0) hne⟩

/-- `hm`: `dispatch` enters with the mode that names the series being waited on -/
theorem GoodRes.solWaitOnFragment {cfg : OCfg} (hdb : DbContract) {a : Acc} (h : Good cfg a) (series : Series)
    (deadline : Nat) (cont : SolCont) (hm : a.1.mode = .solWait series deadline cont) :
    GoodRes cfg (solWaitOnFragment a series deadline cont) := by
  unfold Dnp3.solWaitOnFragment
  have hp := Good.popRequest (s := a.1) (out := a.2) h
  have hr := @popRequest_request a.1
  have hpm : (popRequest a.1).1.mode = .solWait series deadline cont := (popRequest_mode a.1).1.trans hm
  generalize popRequest a.1 = pr at hp hr hpm
  obtain ⟨s1, p⟩ := pr
  dsimp only at hp hr hpm ⊢
  have newReq : ∀ a : Acc, Good cfg a → GoodRes cfg (Dnp3.abortSeries (emitCb a .solNewRequest) cont) :=
    fun a ha => GoodRes.abortSeries hdb (ha.emitCb _) cont
  split
  · exact hp
  · exact newReq (onLinkActivity s1, a.2) hp
  · rename_i f ctrl func objects raw
    have hreq := (hr rfl).2.1
    have hseq := parseRequest_seq_lt hreq
    have hp' : Good cfg (onLinkActivity s1, a.2) := hp
    have hm2 : (onLinkActivity s1).mode = .solWait series deadline cont := hpm
    generalize onLinkActivity s1 = s2 at hp' hm2 ⊢
    split
    · exact newReq (s2, a.2) hp'
    · exact newReq (s2, a.2) hp'
    · exact newReq (s2, a.2) hp'
    · exact newReq (s2, a.2) hp'
    · exact newReq (s2, a.2) hp'
    · -- repeated READ: echo the stored response
      rename_i resp hs hcl
      obtain ⟨lr0, hl0, _, _, rfl⟩ := classify_repeat (Or.inl ⟨hs, hcl⟩)
      have hst := hp'.1.2.2.2.2.2.2.1 lr0 hl0
      have hp2 : Good cfg ({ s2 with pending := none }, a.2) := hp'
      have key : ∀ a' : Acc, Good cfg a' → a'.1.mode = .solWait series deadline cont →
          Good cfg ({ a'.1 with mode := .solWait series (a'.1.now + a'.1.cfg.ctimeout) cont }, a'.2) :=
        fun a' g hm' => g.reSolWait hm' _ _
      split
      · rename_i r hr
        exact key _ (hp2.repeatSolicited _ (hst.2.1 r hr).1) hm2
      · exact key _ hp2 hm2
    · exact GoodRes.blocked (Good.emitCb (a := ({ s2 with pending := none }, a.2)) hp' _)
    · -- solicited confirm
      rename_i seq hcl
      have hseq' : seq = ctrl.seq := by
        unfold classify at hcl
        revert hcl
        splits <;> simp_all
      have hp2 : Good cfg ({ s2 with pending := none }, a.2) := hp'
      split
      · exact GoodRes.blocked (hp2.emitCb _)
      · rename_i hecsn
        have hecsn : seq = series.ecsn := by
          by_cases hq : seq = series.ecsn
          · exact hq
          · exact absurd hq hecsn
        have hc := Good.clearWrittenEvents
          (a := ({ (emitCb ({ s2 with pending := none }, a.2) (.solConfirmed series.ecsn)).1 with lastBroadcast := none },
                  (emitCb ({ s2 with pending := none }, a.2) (.solConfirmed series.ecsn)).2)) (hp2.emitCb _)
        have hcm := (clearWrittenEvents_mode
          ({ (emitCb ({ s2 with pending := none }, a.2) (.solConfirmed series.ecsn)).1 with lastBroadcast := none },
                  (emitCb ({ s2 with pending := none }, a.2) (.solConfirmed series.ecsn)).2)).1.trans hm2
        split
        · exact GoodRes.resumeAfterSol hdb hc cont
        · rename_i hfin
          have hfin : series.fin = false := by simpa using hfin
          have hnext : seq4Next series.ecsn < 16 := seq4Next_lt _ (by rw [← hecsn, hseq']; exact hseq)
          have hf := Good.formatReadResponse hdb (s := (clearWrittenEvents _).1) (out := (clearWrittenEvents _).2) hc false hnext 0
          have hfm := (formatReadResponse_mode (clearWrittenEvents _).1 false (seq4Next series.ecsn) 0).1.trans hcm
          generalize Dnp3.formatReadResponse _ false (seq4Next series.ecsn) 0 = fr at hf hfm ⊢
          obtain ⟨s2, r2, next⟩ := fr
          dsimp only at hf hfm ⊢
          split
          · exact GoodRes.die hc
          · rename_i a3 r3 hw
            obtain ⟨g3, s3, _⟩ := hf.1.writeSolicited hf.2.1 hw
            -- the series is not finished: the stored request is the READ it answers
            have hm3 : a3.1.mode = .solWait series deadline cont := (writeSolicited_mode hw).1.trans hfm
            obtain ⟨g4, hread4⟩ := g3.storeResponse s3 (g3.1.2.2.2.2.2.2.2.2.2 _ _ _ hm3 hfin)
            split
            · exact GoodRes.resumeAfterSol hdb g4 cont
            · exact GoodRes.blocked (g4.setMode _ (fun _ _ _ _ hm => by cases hm) (fun _ _ _ _ _ => hread4))

theorem Good.deferredSet {cfg : OCfg} {s : OState} {out : List OOut} (h : Good cfg (s, out)) (f : Frag) {seq : Nat}
    (hseq : seq < 16) (hf : f.data.getD 1 0 = 1) (hs : List ObjHdr) : Good cfg (deferredSet s f seq hs, out) := by
  unfold Dnp3.deferredSet
  dsimp only
  refine Good.setDeferred (a := (s, out)) h _ (fun x hx => ?_)
  simp only [Option.some.injEq] at hx; subst hx
  exact ⟨hseq, hf⟩

/-- `hm`: no solicited series is open (`dispatch` enters with `mode = .unsolWait …`) -/
theorem GoodRes.unsolWaitOnFragment {cfg : OCfg} (hdb : DbContract) {a : Acc} (h : Good cfg a) (resp : Resp)
    (isNull : Bool) (hm : NoOpen a.1.mode) : GoodRes cfg (unsolWaitOnFragment a resp isNull) := by
  unfold Dnp3.unsolWaitOnFragment
  have hp := Good.popRequest (s := a.1) (out := a.2) h
  have he := @popRequest_error a.1
  have hr := @popRequest_request a.1
  have hpm : NoOpen (popRequest a.1).1.mode := (popRequest_mode a.1).1 ▸ hm
  generalize popRequest a.1 = pr at hp he hr hpm
  obtain ⟨s1, p⟩ := pr
  dsimp only at hp he hr hpm ⊢
  have hp1 : Good cfg ({ s1 with pending := none }, a.2) := hp
  split
  · exact hp1
  · rename_i src bc seq
    split
    · exact GoodRes.die hp1
    · rename_i a1 hw
      refine GoodRes.blocked (Good.writeErrorResponse hp1.clearDeferred ?_ hw)
      intro n hn; subst hn; exact (he rfl).1
  · rename_i f ctrl func objects raw
    have hreq := (hr rfl).2.1
    have hseq := parseRequest_seq_lt hreq
    have hfn := parseRequest_func hreq
    have hp2 : Good cfg (onLinkActivity { s1 with pending := none }, a.2) := hp
    have hm2 : NoOpen (onLinkActivity { s1 with pending := none }).mode := hpm
    generalize onLinkActivity { s1 with pending := none } = s2 at hp2 hm2 ⊢
    split
    · -- unsolicited confirm
      split
      · exact GoodRes.finishUnsol hdb (Good.emitCb
          (a := ({ s2 with lastBroadcast := if s2.unsolReported then none else s2.lastBroadcast }, a.2)) hp2 _) _ _
      · exact hp2
    · -- solicited confirm
      refine GoodRes.blocked ?_
      split
      · exact hp2
      · exact hp2
    · -- broadcast
      split
      · exact GoodRes.die hp2
      · rename_i a1 hb
        have g1 : Good cfg a1 := Good.processBroadcast hp2.clearDeferred hseq hb
        have g2 : Good cfg ({ a1.1 with unsolReported := false }, a1.2) := g1
        exact GoodRes.blocked g2
    · -- malformed
      split
      · exact GoodRes.die hp2
      · rename_i a1 r1 hw
        exact GoodRes.blocked (hp2.clearDeferred.writeSolicited (emptySolicited_ok hseq _).1 hw).1
    · -- new non-read
      rename_i hs hcl
      split
      · exact GoodRes.die hp2
      · rename_i a1 r1 hn
        obtain ⟨g1, n1⟩ := hp2.clearDeferred.handleNonRead hseq hn
        have hm1 : NoOpen a1.1.mode := handleNonRead_mode hn ▸ hm2
        split
        · rename_i hw
          exact GoodRes.die g1
        · rename_i a2 r2 hw
          have key : (Good cfg a2 ∧ NoOpen a2.1.mode) ∧ ∀ r, r2 = some r →
              SolResp cfg r ∧ r.ctrl.seq = ctrl.seq ∧ r.ctrl.fir = true ∧ r.ctrl.fin = true := by
            split at hw
            · simp only [Option.some.injEq, Prod.mk.injEq] at hw
              obtain ⟨rfl, rfl⟩ := hw
              exact ⟨⟨g1, hm1⟩, fun r hr => by simp at hr⟩
            · rename_i r0
              split at hw
              · simp at hw
              · rename_i a3 r3 hws
                simp only [Option.some.injEq, Prod.mk.injEq] at hw
                obtain ⟨rfl, rfl⟩ := hw
                obtain ⟨b1, b2, b3, b4⟩ := n1 r0 rfl
                obtain ⟨g3, s3, e1, e2, e3, _⟩ := g1.writeSolicited b1 hws
                refine ⟨⟨g3, (writeSolicited_mode hws).1 ▸ hm1⟩, fun r hr => ?_⟩
                simp only [Option.some.injEq] at hr; subst hr
                exact ⟨s3, e1.trans b2, e2.trans b3, e3.trans b4⟩
          have g4 : Good cfg ({ a2.1 with lastReq := some ⟨ctrl.seq, f.data, r2, none⟩ }, a2.2) := by
            refine key.1.1.setLastReq _ (fun l hl => ?_) (fun _ _ _ hmo hf => key.1.2.elim hmo hf)
            simp only [Option.some.injEq] at hl; subst hl
            refine ⟨hseq, fun r hr => ?_, fun sr hs => by simp at hs⟩
            obtain ⟨c1, c2, c3, c4⟩ := key.2 r hr
            exact ⟨c1, fun _ => ⟨c2, c3, c4⟩⟩
          split
          · exact GoodRes.finishUnsol hdb g4 _ _
          · exact g4
    · -- new READ: deferred
      rename_i hs hcl
      have := classify_func.1 _ hcl
      exact GoodRes.blocked (hp2.deferredSet f hseq (hfn.trans this) hs)
    · rename_i r0 hs hcl
      have := classify_func.2.1 _ _ hcl
      exact GoodRes.blocked (hp2.deferredSet f hseq (hfn.trans this) hs)
    · -- repeated non-read: echo
      rename_i last hcl
      obtain ⟨lr0, hl0, _, _, rfl⟩ := classify_repeat (Or.inr hcl)
      have hst := hp2.1.2.2.2.2.2.2.1 lr0 hl0
      refine GoodRes.blocked (Good.clearDeferred ?_)
      split
      · rename_i r hr
        exact hp2.repeatSolicited _ (hst.2.1 r hr).1
      · exact hp2

theorem GoodRes.unsolWaitTimeout {cfg : OCfg} (hdb : DbContract) {a : Acc} (h : Good cfg a) {resp : Resp}
    (hr : UnsolResp cfg resp) (isNull : Bool) (retries : Option Nat) :
    GoodRes cfg (unsolWaitTimeout a resp isNull retries) := by
  unfold Dnp3.unsolWaitTimeout
  rcases retries with _ | _ | n <;> dsimp only <;> repeat' split
  all_goals first
    | exact GoodRes.finishUnsol hdb (h.emitCb _) _ _
    | (refine GoodRes.blocked (Good.setMode ((h.emitCb _).repeatUnsolicited hr) _ (fun r n rt d hm => ?_)
         (fun _ _ _ hm => by cases hm))
       simp only [Mode.unsolWait.injEq] at hm
       obtain ⟨rfl, _⟩ := hm
       exact hr)

theorem GoodRes.dispatch {cfg : OCfg} (hdb : DbContract) {a : Acc} (h : Good cfg a) : GoodRes cfg (dispatch a) := by
  unfold Dnp3.dispatch
  split
  · exact h
  · rename_i next hm
    split
    · exact GoodRes.runPass hdb _ _ h (hm ▸ NoOpen.idle next)
    · exact h
  · rename_i series deadline cont hm
    split
    · exact GoodRes.solWaitOnFragment hdb h _ _ _ hm
    · split
      · exact GoodRes.solWaitTimeout hdb h _ _
      · exact h
  · rename_i resp isNull retries deadline hm
    split
    · exact GoodRes.unsolWaitOnFragment hdb h _ _ (hm ▸ NoOpen.unsolWait _ _ _ _)
    · split
      · exact GoodRes.unsolWaitTimeout hdb h (h.1.2.2.2.2.2.2.2.1 _ _ _ _ hm) _ _
      · exact h

theorem GoodRes.settle {cfg : OCfg} (hdb : DbContract) : ∀ (fuel : Nat) (r : StepRes), GoodRes cfg r →
    GoodRes cfg (settle fuel r)
  | 0, r, h => by unfold Dnp3.settle; exact h
  | fuel+1, r, h => by
    unfold Dnp3.settle
    split
    · exact h
    · dsimp only
      repeat' split
      all_goals first
        | exact h
        | exact GoodRes.settle hdb fuel _ (GoodRes.dispatch hdb h)

/-! ## The invariant holds initially and is preserved by every step -/

theorem Inv.init (cfg : OCfg) (evMax : Nat) (hsol : 10 ≤ cfg.sol) (hunsol : 4 ≤ cfg.unsol) :
    Inv cfg (OState.init cfg evMax) := by
  refine ⟨rfl, hsol, hunsol, ?_, ?_, ?_, ?_, ?_, ?_, ?_⟩
  · simp [OState.init]
  · simp [OState.init]
  · simp [OState.init]
  · intro lr h; simp [OState.init] at h
  · intro r n rt d h; simp [OState.init] at h
  · intro d h; simp [OState.init] at h
  · intro sr dl c h; simp [OState.init] at h

theorem Good.of_inv {cfg : OCfg} {s : OState} (h : Inv cfg s) : Good cfg (s, []) :=
  ⟨h, fun o ho => by simp at ho⟩

theorem Good.start {cfg : OCfg} (hdb : DbContract) (evMax : Nat) (hsol : 10 ≤ cfg.sol) (hunsol : 4 ≤ cfg.unsol) :
    Good cfg (Outstation.start cfg evMax) := by
  unfold Outstation.start
  exact GoodRes.settle hdb _ _ (GoodRes.runPass hdb _ _ (Good.of_inv (Inv.init cfg evMax hsol hunsol))
    (NoOpen.idle _))

theorem Good.step {cfg : OCfg} (hdb : DbContract) (env : OEnv) {s : OState} (h : Inv cfg s) (inp : OInput) :
    Good cfg (Outstation.step env s inp) := by
  have h0 := Good.of_inv h
  have run : ∀ a, Good cfg a → Good cfg (finishStep (settle 8 (dispatch a))) :=
    fun a ha => GoodRes.settle hdb _ _ (GoodRes.dispatch hdb ha)
  unfold Outstation.step
  split
  · -- the task is dead: nothing but the script changes
    rw [if_pos rfl]; cases inp <;> exact h0
  rw [if_neg Bool.false_ne_true]
  split
  · exact h0
  · -- rx
    splits
    all_goals first
      | exact h0
      | exact run _ h0
      | (dsimp only; exact run _ h0)
  · exact run ({ s with now := _ }, []) h0
  · -- txn
    rename_i items
    dsimp only
    have : Good cfg (List.foldl (fun (p : OState × List OOut) it =>
        (({ p.1 with db := (match it with
            | .bin idx v flags time => p.1.db.update .binary idx (if v then 1 else 0) flags time
            | .an idx v flags time => p.1.db.update .analog idx v flags time).1 },
          p.2 ++ [.line (updLine (match it with
            | .bin idx v flags time => p.1.db.update .binary idx (if v then 1 else 0) flags time
            | .an idx v flags time => p.1.db.update .analog idx v flags time).2)]) : OState × List OOut)) (s, []) items) := by
      apply foldl_inv (Good cfg) _ _ _ _ h0
      intro p it hp
      exact Good.emit (a := ({ p.1 with db := _ }, p.2)) hp trivial
    exact run ({ (List.foldl _ (s, []) items).1 with notified := true }, (List.foldl _ (s, []) items).2) this
  · -- add
    dsimp only
    refine run ({ s with db := _, notified := true }, [_]) ⟨h, fun o ho => ?_⟩
    simp only [List.mem_singleton] at ho; subst ho; trivial
  · -- cut
    split
    · exact h0
    · refine GoodRes.settle hdb _ _ (GoodRes.runPass hdb _ _ ?_ (NoOpen.idle _))
      refine ⟨?_, fun o ho => ?_⟩
      · obtain ⟨h1, h2, h3, h4, h5, h6, h7, h8, h9⟩ := h
        exact ⟨h1, h2, h3, h4, h5, h6, fun lr hl => by simp at hl, fun r n rt d hm => by simp at hm,
          fun d hd => by simp at hd, fun sr dl c hm => by simp at hm⟩
      · simp only [List.mem_singleton] at ho; subst ho; trivial

/-! ## C12 target 1: shape of everything transmitted -/

/-- the invariant is preserved by every step, from ANY state satisfying it -/
theorem step_preserves_inv {cfg : OCfg} (hdb : DbContract) (env : OEnv) {s : OState} (h : Inv cfg s) (inp : OInput) :
    Inv cfg (Outstation.step env s inp).1 := (Good.step hdb env h inp).1

/-- **tx_shape**: every `.tx` output of a step from a state satisfying the invariant is well-formed -/
theorem step_tx_shape {cfg : OCfg} (hdb : DbContract) (env : OEnv) {s : OState} (h : Inv cfg s) (inp : OInput)
    (dst : Nat) (b : List Nat) (hb : OOut.tx dst b ∈ (Outstation.step env s inp).2) : TxShape cfg dst b :=
  TxOk.shape (by have := h.2.1; omega) h.2.2.1 ((Good.step hdb env h inp).2 _ hb)

/-- the stronger structural form: the fragment is the header of a well-formed response record
    followed by `max 4 size - 4` buffer octets -/
theorem step_tx_ok {cfg : OCfg} (hdb : DbContract) (env : OEnv) {s : OState} (h : Inv cfg s) (inp : OInput)
    (dst : Nat) (b : List Nat) (hb : OOut.tx dst b ∈ (Outstation.step env s inp).2) :
    ∃ r, Carries b r ∧ (SolResp cfg r ∨ (UnsolResp cfg r ∧ dst = cfg.master)) :=
  (Good.step hdb env h inp).2 _ hb

theorem start_inv {cfg : OCfg} (hdb : DbContract) (evMax : Nat) (hsol : 10 ≤ cfg.sol) (hunsol : 4 ≤ cfg.unsol) :
    Inv cfg (Outstation.start cfg evMax).1 := (Good.start hdb evMax hsol hunsol).1

theorem start_tx_shape {cfg : OCfg} (hdb : DbContract) (evMax : Nat) (hsol : 10 ≤ cfg.sol) (hunsol : 4 ≤ cfg.unsol)
    (dst : Nat) (b : List Nat) (hb : OOut.tx dst b ∈ (Outstation.start cfg evMax).2) : TxShape cfg dst b :=
  TxOk.shape (by omega) hunsol ((Good.start hdb evMax hsol hunsol).2 _ hb)

theorem reachable_inv {cfg : OCfg} (hdb : DbContract) {evMax : Nat} {env : OEnv} (hsol : 10 ≤ cfg.sol)
    (hunsol : 4 ≤ cfg.unsol) {s : OState} (hr : Outstation.Reachable cfg evMax env s) : Inv cfg s := by
  induction hr with
  | start => exact start_inv hdb evMax hsol hunsol
  | step s i _ ih => exact step_preserves_inv hdb env ih i

/-- every fragment transmitted anywhere in any run from a state satisfying the invariant is well-formed -/
theorem run_tx_shape {cfg : OCfg} (hdb : DbContract) (env : OEnv) : ∀ (inputs : List OInput) (s : OState), Inv cfg s →
    Inv cfg (Outstation.run env s inputs).1 ∧
    ∀ outs ∈ (Outstation.run env s inputs).2, ∀ dst b, OOut.tx dst b ∈ outs → TxShape cfg dst b
  | [], s, h => ⟨h, fun outs ho => by simp [Outstation.run] at ho⟩
  | i :: is, s, h => by
    have hs := step_preserves_inv hdb env h i
    have ih := run_tx_shape hdb env is _ hs
    unfold Outstation.run
    refine ⟨ih.1, fun outs ho dst b hb => ?_⟩
    simp only [List.mem_cons] at ho
    rcases ho with rfl | ho
    · exact step_tx_shape hdb env h i dst b hb
    · exact ih.2 outs ho dst b hb

/-- whole-trace form: construct with any configuration whose buffers have the library's minimum
    sizes (the library enforces 249), run any inputs: every transmitted fragment is well-formed -/
theorem trace_tx_shape {cfg : OCfg} (hdb : DbContract) (env : OEnv) (evMax : Nat) (hsol : 10 ≤ cfg.sol)
    (hunsol : 4 ≤ cfg.unsol) (inputs : List OInput) :
    ∀ outs ∈ (Outstation.start cfg evMax).2 :: (Outstation.run env (Outstation.start cfg evMax).1 inputs).2,
      ∀ dst b, OOut.tx dst b ∈ outs → TxShape cfg dst b := by
  intro outs ho dst b hb
  simp only [List.mem_cons] at ho
  rcases ho with rfl | ho
  · exact start_tx_shape hdb evMax hsol hunsol dst b hb
  · exact (run_tx_shape hdb env inputs _ (start_inv hdb evMax hsol hunsol)).2 outs ho dst b hb

/-! ## What a response transmission looks like (no invariant needed) -/

/-- all bits of `m` are set in `x` -/
def HasBits (x m : Nat) : Prop := x &&& m = m

theorem HasBits.self (m : Nat) : HasBits m m := Nat.and_self m

theorem HasBits.or_left {x m : Nat} (h : HasBits x m) (y : Nat) : HasBits (x ||| y) m := by
  unfold HasBits at *
  apply Nat.eq_of_testBit_eq
  intro i
  have := congrArg (fun n => n.testBit i) h
  simp only [Nat.testBit_and, Nat.testBit_or] at this ⊢
  revert this
  cases x.testBit i <;> cases y.testBit i <;> cases m.testBit i <;> simp

theorem HasBits.or_right {x m : Nat} (h : HasBits x m) (y : Nat) : HasBits (y ||| x) m := by
  rw [Nat.or_comm]; exact h.or_left y

theorem HasBits.nonzero {x m : Nat} (h : HasBits x m) (hm : m ≠ 0) : x ≠ 0 := by
  intro hx; subst hx; unfold HasBits at h; simp at h; exact hm h.symm

theorem hdr_take (buf : List Nat) (r : Resp) (n : Nat) :
    (writeAt buf 0 (respHeader r)).take (max 4 n) = respHeader r ++ (buf.drop 4).take (max 4 n - 4) := by
  obtain ⟨m, hm⟩ : ∃ m, max 4 n = m + 4 := ⟨max 4 n - 4, by omega⟩
  rw [hm]
  simp [writeAt, respHeader]

/-- `outs'` extends `outs` by exactly one transmission: response `r` to `dst` -/
def SentOne (outs outs' : List OOut) (dst : Nat) (r : Resp) : Prop :=
  ∃ rest, outs' = outs ++ [.tx dst (respHeader r ++ rest)]

theorem repeatSolicited_out (a : Acc) (dst : Nat) (r : Resp) : SentOne a.2 (repeatSolicited a dst r).2 dst r :=
  ⟨(a.1.solBuf.drop 4).take (max 4 r.size - 4), by unfold Dnp3.repeatSolicited; simp only [emit, hdr_take]⟩

theorem repeatUnsolicited_out (a : Acc) (r : Resp) :
    SentOne a.2 (repeatUnsolicited a r).2 a.1.cfg.master r :=
  ⟨(a.1.unsolBuf.drop 4).take (max 4 r.size - 4), by unfold Dnp3.repeatUnsolicited; simp only [emit, hdr_take]⟩

/-- `write_solicited`: exactly one fragment goes out, to `dst`; sequence number, FIR, FIN, UNS,
    function, size are those of `r`; the IIN octets are ORed with the current ones -/
theorem writeSolicited_out {a a' : Acc} {dst : Nat} {r r' : Resp} (hw : writeSolicited a dst r = some (a', r')) :
    ∃ s' i1 i2, getResponseIin a.1 = some (s', i1, i2) ∧ SentOne a.2 a'.2 dst r' ∧
      r'.func = r.func ∧ r'.iin1 = r.iin1 ||| i1 ∧ r'.iin2 = r.iin2 ||| i2 ∧ r'.size = r.size ∧
      r'.ctrl.seq = r.ctrl.seq ∧ r'.ctrl.fir = r.ctrl.fir ∧ r'.ctrl.fin = r.ctrl.fin ∧ r'.ctrl.uns = r.ctrl.uns ∧
      r'.ctrl.con = (r.ctrl.con || decide (s'.lastBroadcast = some 1)) := by
  unfold Dnp3.writeSolicited at hw
  split at hw
  · simp at hw
  · rename_i s i1 i2 hg
    simp only [Option.some.injEq, Prod.mk.injEq] at hw
    obtain ⟨rfl, rfl⟩ := hw
    refine ⟨s, i1, i2, hg, repeatSolicited_out (s, a.2) dst _, ?_⟩
    by_cases hb : s.lastBroadcast = some 1
    · simp [hb]
    · simp [hb]

theorem writeSolicited_isSome {a : Acc} {x : OState × Nat × Nat} (hg : getResponseIin a.1 = some x) (dst : Nat) (r : Resp) :
    ∃ y, writeSolicited a dst r = some y := by
  unfold Dnp3.writeSolicited
  rw [hg]
  exact ⟨_, rfl⟩

theorem writeUnsolicited_out {a a' : Acc} {r r' : Resp} (hw : writeUnsolicited a r = some (a', r')) :
    ∃ s' i1 i2, getResponseIin a.1 = some (s', i1, i2) ∧ SentOne a.2 a'.2 s'.cfg.master r' ∧
      r'.func = r.func ∧ r'.ctrl = r.ctrl ∧ r'.size = r.size := by
  unfold Dnp3.writeUnsolicited at hw
  split at hw
  · simp at hw
  · rename_i s i1 i2 hg
    simp only [Option.some.injEq, Prod.mk.injEq] at hw
    obtain ⟨rfl, rfl⟩ := hw
    exact ⟨s, i1, i2, hg, repeatUnsolicited_out (s, a.2) _, rfl, rfl, rfl⟩

/-! ## C12 target 5: rejections are flagged -/

/-- (a) a unicast fragment (`broadcast = false`, the third argument: `f.broadcast.isSome` of the fragment,
    `popRequest_headerError`) whose application header is rejected (unknown function code, a response
    function code, FIR/FIN not both set, UNS on a non-confirm) is answered — when the IIN can be
    computed at all — with exactly one solicited response carrying the request's sequence number
    and IIN2.0 NO_FUNC_CODE_SUPPORT -/
theorem rejection_flagged_header {a : Acc} {dst seq : Nat} {x : OState × Nat × Nat}
    (hg : getResponseIin a.1 = some x) :
    ∃ a' r, writeErrorResponse a dst false (some seq) = some a' ∧ SentOne a.2 a'.2 dst r ∧
      r.func = 0x81 ∧ r.ctrl.seq = seq ∧ r.ctrl.fir = true ∧ r.ctrl.fin = true ∧ r.ctrl.uns = false ∧
      HasBits r.iin2 iin2NoFunc := by
  obtain ⟨⟨a1, r1⟩, hw⟩ := writeSolicited_isSome hg dst (emptySolicited seq iin2NoFunc)
  obtain ⟨s', i1, i2, _, hs, h1, _, h3, _, h5, h6, h7, h8, _⟩ := writeSolicited_out hw
  refine ⟨a1, r1, ?_, hs, h1, h5, h6, h7, h8, ?_⟩
  · unfold Dnp3.writeErrorResponse; simp only [hw, Bool.false_eq_true, if_false]
  · rw [h3]; exact (HasBits.self _).or_left _

/-- (a, complement; D6 repaired) a BROADCAST fragment whose application header is rejected is never answered:
    nothing is transmitted, nothing changes, and the session does not panic -/
theorem rejection_header_broadcast_silent (a : Acc) (dst : Nat) (seq : Option Nat) :
    writeErrorResponse a dst true seq = some a := by
  unfold Dnp3.writeErrorResponse; simp only [if_true]

/-- the header-error path is taken exactly for `parseRequest = .headerError` of a fragment from an accepted
    master (`hm`; D6 repaired: the fragments of any other master are dropped whatever they contain,
    `popRequest_foreign`); the `Bool` handed on says whether the fragment was a broadcast -/
theorem popRequest_headerError {s : OState} {f : Frag} {seq : Nat} (hp : s.pending = some f)
    (hm : s.cfg.anymaster = true ∨ f.src = s.cfg.master)
    (he : parseRequest f.data = .headerError seq) :
    popRequest s = (s, .error f.src f.broadcast.isSome (some seq)) := by
  unfold popRequest
  simp only [hp, he]
  have : ¬ ((!s.cfg.anymaster) = true ∧ f.src ≠ s.cfg.master) := by
    rintro ⟨h1, h2⟩
    rcases hm with h | h
    · simp [h] at h1
    · exact h2 h
  rw [if_neg this]

/-- (complement; D6 repaired) a pending fragment of a foreign master — well-formed request or header-level
    error alike — is dropped: nothing is handed to the session, so nothing is answered -/
theorem popRequest_foreign {s : OState} {f : Frag} (hp : s.pending = some f)
    (ha : s.cfg.anymaster = false) (hm : f.src ≠ s.cfg.master) :
    popRequest s = ({ s with pending := none }, .nothing) := by
  unfold popRequest
  simp only [hp]
  rw [if_pos ⟨by simp [ha], hm⟩]

/-- errors of an `Except Nat` computation are one of the three IIN2 rejection bits -/
def OkErr {α : Type} (x : Except Nat α) : Prop :=
  ∀ e, x = .error e → e = iin2NoFunc ∨ e = iin2ObjUnknown ∨ e = iin2ParamError

theorem OkErr.ok {α : Type} (a : α) : OkErr (Except.ok a : Except Nat α) := fun e h => by simp at h
theorem OkErr.e1 {α : Type} : OkErr (Except.error iin2NoFunc : Except Nat α) :=
  fun e h => by simp only [Except.error.injEq] at h; exact Or.inl h.symm
theorem OkErr.e2 {α : Type} : OkErr (Except.error iin2ObjUnknown : Except Nat α) :=
  fun e h => by simp only [Except.error.injEq] at h; exact Or.inr (Or.inl h.symm)
theorem OkErr.e4 {α : Type} : OkErr (Except.error iin2ParamError : Except Nat α) :=
  fun e h => by simp only [Except.error.injEq] at h; exact Or.inr (Or.inr h.symm)

theorem OkErr.cont {x : Except Nat (List ObjHdr)} (hx : OkErr x) (hd : ObjHdr) :
    OkErr (match x with
      | .ok hs => Except.ok (hd :: hs)
      | .error e => Except.error e) := by
  intro e h
  split at h
  · simp at h
  · rename_i e' 
    simp only [Except.error.injEq] at h; subst h
    exact hx _ rfl

/-! the pieces of `parseObjects` as standalone functions -/

def pCont (isRead : Bool) (fuel : Nat) (h : ObjHdr) (rest' : List Nat) : Except Nat (List ObjHdr) :=
  match parseObjects isRead fuel rest' with
  | .ok hs => .ok (h :: hs)
  | .error e => .error e

def pRanged (isRead : Bool) (fuel g v q : Nat) (info : VarInfo) (start stop : Nat) (rest' : List Nat) :
    Except Nat (List ObjHdr) :=
  if stop < start then .error iin2ParamError else
  match info.ranged with
  | none => .error iin2NoFunc
  | some sz =>
    let n := stop - start + 1
    let len := if isRead then 0 else match sz with | none => bitsToBytes n | some k => k * n
    if rest'.length < len then .error iin2ParamError
    else pCont isRead fuel ⟨g, v, q, start, stop, rest'.take len⟩ (rest'.drop len)

def pCounted (isRead : Bool) (fuel g v q : Nat) (info : VarInfo) (count : Nat) (rest' : List Nat) :
    Except Nat (List ObjHdr) :=
  match info.count with
  | none => .error iin2NoFunc
  | some k =>
    let len := k * count
    if rest'.length < len then .error iin2ParamError
    else pCont isRead fuel ⟨g, v, q, count, 0, rest'.take len⟩ (rest'.drop len)

def pPrefixed (isRead : Bool) (fuel g v q : Nat) (info : VarInfo) (isz count : Nat) (rest' : List Nat) :
    Except Nat (List ObjHdr) :=
  match info.prefixed with
  | none => .error iin2NoFunc
  | some k =>
    let len := (isz + k) * count
    if rest'.length < len then .error iin2ParamError
    else pCont isRead fuel ⟨g, v, q, count, 0, rest'.take len⟩ (rest'.drop len)

def pQual (isRead : Bool) (fuel g v q : Nat) (info : VarInfo) (rest : List Nat) : Except Nat (List ObjHdr) :=
  if q = 0x06 then
    if info.all then pCont isRead fuel ⟨g, v, q, 0, 0, []⟩ rest else .error iin2NoFunc
  else if q = 0x00 then
    match rest with
    | s :: e :: r => pRanged isRead fuel g v q info s e r
    | _ => .error iin2ParamError
  else if q = 0x01 then
    match rest with
    | s0 :: s1 :: e0 :: e1 :: r => pRanged isRead fuel g v q info (rdU16 s0 s1) (rdU16 e0 e1) r
    | _ => .error iin2ParamError
  else if q = 0x07 then
    match rest with
    | c :: r => pCounted isRead fuel g v q info c r
    | _ => .error iin2ParamError
  else if q = 0x08 then
    match rest with
    | c0 :: c1 :: r => pCounted isRead fuel g v q info (rdU16 c0 c1) r
    | _ => .error iin2ParamError
  else if q = 0x17 then
    match rest with
    | c :: r => pPrefixed isRead fuel g v q info 1 c r
    | _ => .error iin2ParamError
  else if q = 0x28 then
    match rest with
    | c0 :: c1 :: r => pPrefixed isRead fuel g v q info 2 (rdU16 c0 c1) r
    | _ => .error iin2ParamError
  else if q = 0x5B then .error iin2ParamError
  else .error iin2ParamError

theorem parseObjects_zero (isRead : Bool) (d : List Nat) : parseObjects isRead 0 d = .ok [] := by
  unfold parseObjects; rfl

theorem parseObjects_nil (isRead : Bool) (fuel : Nat) : parseObjects isRead fuel [] = .ok [] := by
  cases fuel <;> (unfold parseObjects; rfl)

theorem parseObjects_one (isRead : Bool) (fuel g : Nat) :
    parseObjects isRead (fuel + 1) [g] = .error iin2ParamError := by
  unfold parseObjects; rfl

theorem parseObjects_two (isRead : Bool) (fuel g v : Nat) :
    parseObjects isRead (fuel + 1) [g, v] =
      match varInfo g v with
      | none => .error iin2ObjUnknown
      | some _ => .error iin2ParamError := by
  rw [parseObjects]
  cases varInfo g v <;> rfl

theorem parseObjects_cons3 (isRead : Bool) (fuel g v q : Nat) (rest : List Nat) :
    parseObjects isRead (fuel + 1) (g :: v :: q :: rest) =
      match varInfo g v with
      | none => .error iin2ObjUnknown
      | some info => pQual isRead fuel g v q info rest := by
  rw [parseObjects]
  cases varInfo g v <;> rfl

/-- (b) object-header parse errors map to a nonzero IIN2 value in {NO_FUNC_CODE_SUPPORT,
    OBJECT_UNKNOWN, PARAMETER_ERROR} -/
theorem parseObjects_okErr (isRead : Bool) : ∀ (fuel : Nat) (d : List Nat), OkErr (parseObjects isRead fuel d) := by
  intro fuel
  induction fuel with
  | zero => intro d; rw [parseObjects_zero]; exact OkErr.ok _
  | succ n ih =>
    have hc : ∀ h rest, OkErr (pCont isRead n h rest) := fun h rest => OkErr.cont (ih rest) h
    have hr : ∀ g v q info s e r, OkErr (pRanged isRead n g v q info s e r) := by
      intro g v q info s e r; unfold pRanged
      splits
      all_goals first | exact OkErr.e1 | exact OkErr.e4 | exact hc _ _
    have hn : ∀ g v q info c r, OkErr (pCounted isRead n g v q info c r) := by
      intro g v q info c r; unfold pCounted
      splits
      all_goals first | exact OkErr.e1 | exact OkErr.e4 | exact hc _ _
    have hp : ∀ g v q info i c r, OkErr (pPrefixed isRead n g v q info i c r) := by
      intro g v q info i c r; unfold pPrefixed
      splits
      all_goals first | exact OkErr.e1 | exact OkErr.e4 | exact hc _ _
    intro d
    rcases d with _ | ⟨g, _ | ⟨v, _ | ⟨q, rest⟩⟩⟩
    · rw [parseObjects_nil]; exact OkErr.ok _
    · rw [parseObjects_one]; exact OkErr.e4
    · rw [parseObjects_two]; split; exact OkErr.e2; exact OkErr.e4
    · rw [parseObjects_cons3]
      split
      · exact OkErr.e2
      · unfold pQual
        splits
        all_goals first | exact OkErr.e1 | exact OkErr.e4 | exact hc _ _ | exact hr _ _ _ _ _ _ _ | exact hn _ _ _ _ _ _ | exact hp _ _ _ _ _ _ _

theorem parseObjects_error (isRead : Bool) (fuel : Nat) (d : List Nat) (e : Nat)
    (h : parseObjects isRead fuel d = .error e) :
    (e = iin2NoFunc ∨ e = iin2ObjUnknown ∨ e = iin2ParamError) ∧ e ≠ 0 := by
  have := parseObjects_okErr isRead fuel d e h
  refine ⟨this, ?_⟩
  rcases this with rfl | rfl | rfl <;> decide

/-! ### from the handler's response record to the wire -/

/-- if the idle path produced a response record `r`, exactly one fragment is transmitted, to the
    requester, with `r`'s sequence number / FIR / FIN / UNS / function and with every IIN2 bit of `r`;
    the echo of a stored response (`e = true`, D14 repaired) is `r` itself, verbatim -/
theorem idle_sends {a a' a1 : Acc} {f : Frag} {ctrl : AppCtrl} {func : Nat} {objects : Except Nat (List ObjHdr)}
    {raw : List Nat} {series : Option Series} {lr : LastReq} {e : Bool} {r : Resp}
    (hi : idleResult a f ctrl func objects raw = some (a1, some (lr, e))) (hr : lr.response = some r)
    (hh : handleRequestFromIdle a f ctrl func objects raw = some (a', series)) :
    ∃ r', SentOne a1.2 a'.2 f.src r' ∧ r'.func = r.func ∧ r'.ctrl.seq = r.ctrl.seq ∧ r'.ctrl.fir = r.ctrl.fir ∧
      r'.ctrl.fin = r.ctrl.fin ∧ r'.ctrl.uns = r.ctrl.uns ∧ (∀ m, HasBits r.iin2 m → HasBits r'.iin2 m) ∧
      a'.1.lastReq = some { lr with response := some r', series := series } ∧
      (e = true → r' = r ∧ series = lr.series) := by
  rw [handleRequestFromIdle_eq, hi] at hh
  dsimp only at hh
  rw [hr] at hh
  dsimp only at hh
  cases e with
  | true =>
    simp only [if_true, Option.some.injEq, Prod.mk.injEq] at hh
    obtain ⟨rfl, rfl⟩ := hh
    refine ⟨r, repeatSolicited_out a1 f.src r, rfl, rfl, rfl, rfl, rfl, fun m hm => hm, ?_, fun _ => ⟨rfl, rfl⟩⟩
    show some lr = some _
    cases lr
    simp only at hr
    subst hr
    rfl
  | false =>
    simp only [Bool.false_eq_true, if_false] at hh
    split at hh
    · simp at hh
    · rename_i a2 r2 hw
      simp only [Option.some.injEq, Prod.mk.injEq] at hh
      obtain ⟨rfl, rfl⟩ := hh
      obtain ⟨s', i1, i2, _, hs, h1, _, h3, _, h5, h6, h7, h8, _⟩ := writeSolicited_out hw
      exact ⟨r2, hs, h1, h5, h6, h7, h8, fun m hm => by rw [h3]; exact hm.or_left _, rfl, fun h => by cases h⟩

/-- …and it is sent whenever the IIN can be computed (`unwritten_classes` does not underflow) -/
theorem idle_sends_isSome {a a1 : Acc} {f : Frag} {ctrl : AppCtrl} {func : Nat} {objects : Except Nat (List ObjHdr)}
    {raw : List Nat} {lr : LastReq} {e : Bool} {r : Resp} {x : OState × Nat × Nat}
    (hi : idleResult a f ctrl func objects raw = some (a1, some (lr, e))) (hr : lr.response = some r)
    (hg : getResponseIin a1.1 = some x) :
    ∃ y, handleRequestFromIdle a f ctrl func objects raw = some y := by
  rw [handleRequestFromIdle_eq, hi]
  dsimp only
  rw [hr]
  dsimp only
  cases e with
  | true => simp only [if_true]; exact ⟨_, rfl⟩
  | false =>
    simp only [Bool.false_eq_true, if_false]
    obtain ⟨⟨a2, r2⟩, hw⟩ := writeSolicited_isSome hg f.src r
    rw [hw]
    exact ⟨_, rfl⟩

/-- if the idle path produced no response record, nothing is transmitted -/
theorem idle_silent {a a' a1 : Acc} {f : Frag} {ctrl : AppCtrl} {func : Nat} {objects : Except Nat (List ObjHdr)}
    {raw : List Nat} {series : Option Series} {olr : Option (LastReq × Bool)}
    (hi : idleResult a f ctrl func objects raw = some (a1, olr))
    (hr : ∀ lr e, olr = some (lr, e) → lr.response = none)
    (hh : handleRequestFromIdle a f ctrl func objects raw = some (a', series)) : a'.2 = a1.2 := by
  rw [handleRequestFromIdle_eq, hi] at hh
  cases olr with
  | none =>
    simp only [Option.some.injEq, Prod.mk.injEq] at hh
    rw [← hh.1]
  | some p =>
    obtain ⟨lr, e⟩ := p
    dsimp only at hh
    rw [hr lr e rfl] at hh
    simp only [Option.some.injEq, Prod.mk.injEq] at hh
    rw [← hh.1]

/-- D14 repaired: a repeat of the last non-READ request (same sequence number, same octets) handled from idle
    is answered with the STORED response record verbatim (`repeat_solicited`: no IIN re-OR, no forced CON) —
    exactly one transmission, to the requester; nothing is executed again; the record of the request stays as it
    is, and the series recorded with it is the confirm wait that is entered again -/
theorem idle_repeat_echo_verbatim {a a' : Acc} {f : Frag} {ctrl : AppCtrl} {func : Nat}
    {objects : Except Nat (List ObjHdr)} {raw : List Nat} {series : Option Series} {r : Resp}
    (hc : classify a.1 f ctrl func objects = .repeatNonRead (some r))
    (hh : handleRequestFromIdle a f ctrl func objects raw = some (a', series)) :
    SentOne a.2 a'.2 f.src r ∧ a'.1.lastReq = a.1.lastReq ∧ series = a.1.lastReq.bind (·.series) := by
  obtain ⟨lr0, hl0, hs0, hf0, hr0⟩ := classify_repeat (Or.inr hc)
  have key : ∀ S : OState, S.lastReq = a.1.lastReq →
      (some (({ (repeatSolicited (S, a.2) f.src r).1 with
                lastReq := some ⟨ctrl.seq, f.data, some r, S.lastReq.bind (·.series)⟩ },
              (repeatSolicited (S, a.2) f.src r).2), S.lastReq.bind (·.series)) = some (a', series)) →
      SentOne a.2 a'.2 f.src r ∧ a'.1.lastReq = a.1.lastReq ∧ series = a.1.lastReq.bind (·.series) := by
    intro S hS h
    simp only [Option.some.injEq, Prod.mk.injEq] at h
    obtain ⟨rfl, rfl⟩ := h
    refine ⟨repeatSolicited_out (S, a.2) f.src r, ?_, by rw [hS]⟩
    show some _ = _
    rw [hS, hl0]
    cases lr0
    simp only at hs0 hf0 hr0
    subst hs0 hf0 hr0
    rfl
  rw [handleRequestFromIdle_eq] at hh
  unfold idleResult at hh
  rw [hc] at hh
  simp only [if_true] at hh
  refine key _ ?_ hh
  splits <;> rfl

/-! ### (b) malformed object headers -/

theorem classify_malformed {s : OState} {f : Frag} {ctrl : AppCtrl} {func : Nat} {e : Nat}
    (hf : func ≠ 0) (hb : f.broadcast = none) : classify s f ctrl func (.error e) = .malformed e := by
  unfold classify; simp [hf, hb]

/-- (b) a unicast request whose object headers do not parse is answered with the parse error's
    IIN2 bit (`e ∈ {1,2,4}`, nonzero by `parseObjects_error`) and the request's sequence number -/
theorem rejection_flagged_objects {a a' : Acc} {f : Frag} {ctrl : AppCtrl} {func : Nat} {e : Nat}
    {raw : List Nat} {series : Option Series} (hf : func ≠ 0) (hb : f.broadcast = none)
    (hh : handleRequestFromIdle a f ctrl func (.error e) raw = some (a', series)) :
    ∃ r, SentOne a.2 a'.2 f.src r ∧ r.func = 0x81 ∧ r.ctrl.seq = ctrl.seq ∧ r.ctrl.fir = true ∧
      r.ctrl.fin = true ∧ r.ctrl.uns = false ∧ HasBits r.iin2 e := by
  have hi : idleResult a f ctrl func (.error e) raw =
      some (a, some (⟨ctrl.seq, f.data, some (emptySolicited ctrl.seq e), none⟩, false)) := by
    unfold idleResult; rw [classify_malformed hf hb]
  obtain ⟨r', hs, h1, h2, h3, h4, h5, h6, _⟩ := idle_sends hi rfl hh
  exact ⟨r', hs, h1, h2, h3, h4, h5, h6 e (HasBits.self e)⟩

theorem rejection_flagged_objects_isSome {a : Acc} {f : Frag} {ctrl : AppCtrl} {func : Nat} {e : Nat}
    {raw : List Nat} {x : OState × Nat × Nat} (hf : func ≠ 0) (hb : f.broadcast = none)
    (hg : getResponseIin a.1 = some x) :
    ∃ y, handleRequestFromIdle a f ctrl func (.error e) raw = some y := by
  have hi : idleResult a f ctrl func (.error e) raw =
      some (a, some (⟨ctrl.seq, f.data, some (emptySolicited ctrl.seq e), none⟩, false)) := by
    unfold idleResult; rw [classify_malformed hf hb]
  exact idle_sends_isSome hi rfl hg

/-! ### the non-READ path: from `handleNonRead`'s record to the wire -/

theorem idle_newNonRead_sends {a a' a1 : Acc} {f : Frag} {ctrl : AppCtrl} {func : Nat}
    {objects : Except Nat (List ObjHdr)} {raw : List Nat} {series : Option Series} {hs : List ObjHdr} {r : Resp}
    (hc : classify a.1 f ctrl func objects = .newNonRead hs)
    (hn : handleNonRead a func ctrl.seq f.id hs raw = some (a1, some r))
    (hh : handleRequestFromIdle a f ctrl func objects raw = some (a', series)) :
    ∃ r', SentOne a1.2 a'.2 f.src r' ∧ r'.func = r.func ∧ r'.ctrl.seq = r.ctrl.seq ∧ r'.ctrl.fir = r.ctrl.fir ∧
      r'.ctrl.fin = r.ctrl.fin ∧ r'.ctrl.uns = r.ctrl.uns ∧ (∀ m, HasBits r.iin2 m → HasBits r'.iin2 m) := by
  have hi : idleResult a f ctrl func objects raw = some (a1, some (⟨ctrl.seq, f.data, some r, none⟩, false)) := by
    unfold idleResult; rw [hc]; dsimp only; rw [hn]
  obtain ⟨r', h0, h1, h2, h3, h4, h5, h6, _⟩ := idle_sends hi rfl hh
  exact ⟨r', h0, h1, h2, h3, h4, h5, h6⟩

theorem idle_newNonRead_silent {a a' a1 : Acc} {f : Frag} {ctrl : AppCtrl} {func : Nat}
    {objects : Except Nat (List ObjHdr)} {raw : List Nat} {series : Option Series} {hs : List ObjHdr}
    (hc : classify a.1 f ctrl func objects = .newNonRead hs)
    (hn : handleNonRead a func ctrl.seq f.id hs raw = some (a1, none))
    (hh : handleRequestFromIdle a f ctrl func objects raw = some (a', series)) :
    a'.2 = a1.2 ∧ series = none := by
  have hi : idleResult a f ctrl func objects raw = some (a1, some (⟨ctrl.seq, f.data, none, none⟩, false)) := by
    unfold idleResult; rw [hc]; dsimp only; rw [hn]
  refine ⟨idle_silent hi (fun lr e hl => by
    simp only [Option.some.injEq, Prod.mk.injEq] at hl; obtain ⟨rfl, _⟩ := hl; rfl) hh, ?_⟩
  rw [handleRequestFromIdle_eq, hi] at hh
  simp only [Option.some.injEq, Prod.mk.injEq] at hh
  exact hh.2.symm

/-! ### (c) unsupported function, (d) controls with a foreign header -/

/-- (c) a function code the session does not implement (default branch of `handle_non_read`:
    anything but 2–14, 20, 21, 23, 24) yields NO_FUNC_CODE_SUPPORT -/
theorem rejection_flagged_unsupported (a : Acc) (func seq frameId : Nat) (hs : List ObjHdr) (raw : List Nat)
    (hf : func ∉ [2, 3, 4, 5, 6, 7, 8, 9, 10, 11, 12, 13, 14, 20, 21, 23, 24]) :
    ∃ r, handleNonRead a func seq frameId hs raw = some (a, some r) ∧ r.ctrl.seq = seq ∧
      HasBits r.iin2 iin2NoFunc := by
  have h : nonReadRes a func seq frameId hs raw = some (a, some (emptySolicited seq iin2NoFunc)) := by
    simp only [List.mem_cons, List.not_mem_nil, or_false, not_or] at hf
    unfold nonReadRes
    simp [hf]
  rw [handleNonRead_eq, h]
  exact ⟨_, rfl, rfl, (HasBits.self _).or_left _⟩

/-- (d) SELECT / OPERATE / DIRECT_OPERATE containing a header that is not a control header:
    nothing is executed, PARAMETER_ERROR -/
theorem rejection_flagged_controls (a : Acc) (func seq frameId : Nat) (hs : List ObjHdr) (raw : List Nat)
    (hf : func = 3 ∨ func = 4 ∨ func = 5) (hbad : hs.all isControlHdr = false) :
    ∃ r, handleNonRead a func seq frameId hs raw = some (a, some r) ∧ r.ctrl.seq = seq ∧
      HasBits r.iin2 iin2ParamError := by
  have h : nonReadRes a func seq frameId hs raw = some (a, some (emptySolicited seq iin2ParamError)) := by
    unfold nonReadRes handleControls
    rcases hf with rfl | rfl | rfl <;> simp [hbad]
  rw [handleNonRead_eq, h]
  exact ⟨_, rfl, rfl, (HasBits.self _).or_left _⟩

/-! ### (e) per-header rejections that are ORed: FREEZE, ENABLE/DISABLE UNSOLICITED, READ -/

theorem foldl_or_init {α : Type} (g : α → Nat) (m : Nat) : ∀ (l : List α) (init : Nat), HasBits init m →
    HasBits (l.foldl (fun i h => i ||| g h) init) m
  | [], _, h => h
  | _ :: l, _, h => foldl_or_init g m l _ (h.or_left _)

theorem foldl_or_mem {α : Type} (g : α → Nat) (m : Nat) : ∀ (l : List α) (init : Nat) (x : α), x ∈ l →
    HasBits (g x) m → HasBits (l.foldl (fun i h => i ||| g h) init) m
  | y :: l, init, x, hx, hm => by
    simp only [List.mem_cons] at hx
    rcases hx with rfl | hx
    · exact foldl_or_init g m l _ (hm.or_right _)
    · exact foldl_or_mem g m l _ x hx hm

/-- a FREEZE header the session rejects -/
def freezeRej (h : ObjHdr) : Nat :=
  if h.group = 20 ∧ h.var = 0 ∧ h.qual = 0x06 then 0
  else if h.group = 20 ∧ h.var = 0 ∧ (h.qual = 0x00 ∨ h.qual = 0x01) then 0
  else iin2NoFunc

theorem handleFreezeHeader_iin (a : Acc) (k : FreezeKind) (h : ObjHdr) : (handleFreezeHeader a k h).2 = freezeRej h := by
  unfold handleFreezeHeader freezeRej
  splits <;> rfl

theorem handleFreeze_iin2 (seq : Nat) (k : FreezeKind) : ∀ (hs : List ObjHdr) (a : Acc),
    (handleFreeze a seq k hs).2.iin2 = hs.foldl (fun i h => i ||| freezeRej h) 0 := by
  have gen : ∀ (hs : List ObjHdr) (a : Acc) (i0 : Nat),
      (hs.foldl (fun (p : Acc × Nat) h => ((handleFreezeHeader p.1 k h).1, p.2 ||| (handleFreezeHeader p.1 k h).2)) (a, i0)).2 =
      hs.foldl (fun i h => i ||| freezeRej h) i0 := by
    intro hs
    induction hs with
    | nil => intro a i0; rfl
    | cons h hs ih => intro a i0; simp only [List.foldl_cons]; rw [ih, handleFreezeHeader_iin]
  intro hs a
  exact gen hs a 0

/-- (e1) FREEZE family: any rejected header sets NO_FUNC_CODE_SUPPORT in the response record -/
theorem rejection_flagged_freeze (a : Acc) (seq : Nat) (k : FreezeKind) (hs : List ObjHdr) (h : ObjHdr) (hm : h ∈ hs)
    (hrej : freezeRej h = iin2NoFunc) : HasBits (handleFreeze a seq k hs).2.iin2 iin2NoFunc := by
  rw [handleFreeze_iin2]
  exact foldl_or_mem freezeRej _ hs 0 h hm (by rw [hrej]; exact HasBits.self _)

/-- a g50v2 (time and interval) header with exactly one object: it arms FREEZE_AT_TIME -/
def isFreezeTiming (h : ObjHdr) : Bool := h.group = 50 ∧ h.var = 2 ∧ h.a = 1

/-- what one header of a FREEZE_AT_TIME request contributes to IIN2; `timing` = a valid g50v2 header came
    before it: PARAMETER_ERROR for a g50v2 header whose count is not 1 and for any other header that is
    not preceded by a valid g50v2, else the verdict of the freeze itself -/
def freezeAtRej (timing : Bool) (h : ObjHdr) : Nat :=
  if h.group = 50 ∧ h.var = 2 then (if h.a = 1 then 0 else iin2ParamError)
  else if timing then freezeRej h else iin2ParamError

theorem freezeAtTimeStep_snd (p : Acc × Nat × Bool) (h : ObjHdr) :
    (freezeAtTimeStep p h).2 = (p.2.1 ||| freezeAtRej p.2.2 h, p.2.2 || isFreezeTiming h) := by
  obtain ⟨a, i, t⟩ := p
  unfold freezeAtTimeStep freezeAtRej isFreezeTiming
  by_cases hg : h.group = 50 ∧ h.var = 2
  · by_cases ha : h.a = 1
    · simp [hg, ha]
    · simp [hg, ha]
  · cases t
    · have : ¬ (h.group = 50 ∧ h.var = 2 ∧ h.a = 1) := fun c => hg ⟨c.1, c.2.1⟩
      simp [hg, this]
    · simp [hg, handleFreezeHeader_iin]

theorem freezeAtTime_foldl_timing : ∀ (hs : List ObjHdr) (p : Acc × Nat × Bool),
    (hs.foldl freezeAtTimeStep p).2.2 = (p.2.2 || hs.any isFreezeTiming)
  | [], p => by simp
  | h :: hs, p => by
    rw [List.foldl_cons, freezeAtTime_foldl_timing hs, freezeAtTimeStep_snd]
    simp [Bool.or_assoc]

theorem freezeAtTime_foldl_mono (m : Nat) : ∀ (hs : List ObjHdr) (p : Acc × Nat × Bool), HasBits p.2.1 m →
    HasBits (hs.foldl freezeAtTimeStep p).2.1 m
  | [], _, h => h
  | hd :: hs, p, h => by
    rw [List.foldl_cons]
    refine freezeAtTime_foldl_mono m hs _ ?_
    rw [freezeAtTimeStep_snd]
    exact h.or_left _

/-- (e1') FREEZE_AT_TIME: for ANY header `h` of the request — at any position — every IIN2 bit of its
    verdict `freezeAtRej` (given whether a valid g50v2 header precedes it) is set in the response record -/
theorem rejection_flagged_freeze_at_time (a : Acc) (seq : Nat) (pre : List ObjHdr) (h : ObjHdr) (post : List ObjHdr)
    (m : Nat) (hrej : HasBits (freezeAtRej (pre.any isFreezeTiming) h) m) :
    HasBits (handleFreezeAtTime a seq (pre ++ h :: post)).2.iin2 m := by
  rw [handleFreezeAtTime_eq]
  show HasBits (List.foldl freezeAtTimeStep (a, 0, false) (pre ++ h :: post)).2.1 m
  rw [List.foldl_append, List.foldl_cons]
  refine freezeAtTime_foldl_mono m post _ ?_
  rw [freezeAtTimeStep_snd, freezeAtTime_foldl_timing]
  exact hrej.or_right _

/-- the same at the level of `handle_non_read`: the response record of FREEZE_AT_TIME (11) carries the
    request's sequence number and every IIN2 bit any of its headers was rejected with -/
theorem rejection_flagged_freeze_at_time_nonread (a : Acc) (seq frameId : Nat) (pre : List ObjHdr) (h : ObjHdr)
    (post : List ObjHdr) (raw : List Nat) (m : Nat) (hrej : HasBits (freezeAtRej (pre.any isFreezeTiming) h) m) :
    ∃ a' r, handleNonRead a 11 seq frameId (pre ++ h :: post) raw = some (a', some r) ∧ r.ctrl.seq = seq ∧
      HasBits r.iin2 m := by
  have hn : nonReadRes a 11 seq frameId (pre ++ h :: post) raw =
      some ((handleFreezeAtTime a seq (pre ++ h :: post)).1, some (handleFreezeAtTime a seq (pre ++ h :: post)).2) := by
    simp [nonReadRes]
  rw [handleNonRead_eq, hn]
  exact ⟨_, _, rfl, rfl, (rejection_flagged_freeze_at_time a seq pre h post m hrej).or_left _⟩

-- hypotheses of `rejection_flagged_freeze_at_time`: a counter header with no g50v2 before it, a g50v2 with
-- count 2, and an analog header after a valid g50v2
example : freezeAtRej (([] : List ObjHdr).any isFreezeTiming) ⟨20, 0, 6, 0, 0, []⟩ = iin2ParamError := by decide
example : freezeAtRej (([] : List ObjHdr).any isFreezeTiming) ⟨50, 2, 7, 2, 0, []⟩ = iin2ParamError := by decide
example : freezeAtRej ([(⟨50, 2, 7, 1, 0, []⟩ : ObjHdr)].any isFreezeTiming) ⟨30, 0, 6, 0, 0, []⟩ = iin2NoFunc := by decide
-- an accepted request (g50v2 count 1, then all counters) adds no IIN2 bit
example (a : Acc) : (handleFreezeAtTime a 3 [⟨50, 2, 7, 1, 0, []⟩, ⟨20, 0, 6, 0, 0, []⟩]).2.iin2 = 0 := by
  simp [handleFreezeAtTime, handleFreezeHeader, emptySolicited]

/-- an ENABLE/DISABLE UNSOLICITED header the session rejects -/
def enableRej (h : ObjHdr) : Nat :=
  if h.group = 60 ∧ h.qual = 0x06 ∧ (h.var = 2 ∨ h.var = 3 ∨ h.var = 4) then 0 else iin2NoFunc

theorem handleEnableDisable_iin2 (a : Acc) (en : Bool) (seq : Nat) (hs : List ObjHdr) :
    (handleEnableDisable a en seq hs).2.iin2 =
      if a.1.cfg.unsolicited then hs.foldl (fun i h => i ||| enableRej h) 0 else iin2NoFunc := by
  unfold handleEnableDisable
  by_cases hu : a.1.cfg.unsolicited = true
  · simp only [hu, Bool.not_true, Bool.false_eq_true, if_false, if_true]
    have gen : ∀ (hs : List ObjHdr) (s : OState) (i0 : Nat),
        (hs.foldl (fun (p : OState × Nat) h =>
          if h.group = 60 ∧ h.qual = 0x06 ∧ h.var = 2 then ({ p.1 with en1 := en }, p.2)
          else if h.group = 60 ∧ h.qual = 0x06 ∧ h.var = 3 then ({ p.1 with en2 := en }, p.2)
          else if h.group = 60 ∧ h.qual = 0x06 ∧ h.var = 4 then ({ p.1 with en3 := en }, p.2)
          else (p.1, p.2 ||| iin2NoFunc)) (s, i0)).2 = hs.foldl (fun i h => i ||| enableRej h) i0 := by
      intro hs
      induction hs with
      | nil => intro s i0; rfl
      | cons h hs ih =>
        intro s i0
        simp only [List.foldl_cons]
        by_cases h2 : h.group = 60 ∧ h.qual = 0x06 ∧ h.var = 2
        · have he : enableRej h = 0 := by unfold enableRej; simp [h2.1, h2.2.1, h2.2.2]
          rw [if_pos h2, ih, he, Nat.or_zero]
        · rw [if_neg h2]
          by_cases h3 : h.group = 60 ∧ h.qual = 0x06 ∧ h.var = 3
          · have he : enableRej h = 0 := by unfold enableRej; simp [h3.1, h3.2.1, h3.2.2]
            rw [if_pos h3, ih, he, Nat.or_zero]
          · rw [if_neg h3]
            by_cases h4 : h.group = 60 ∧ h.qual = 0x06 ∧ h.var = 4
            · have he : enableRej h = 0 := by unfold enableRej; simp [h4.1, h4.2.1, h4.2.2]
              rw [if_pos h4, ih, he, Nat.or_zero]
            · have he : enableRej h = iin2NoFunc := by
                unfold enableRej
                have : ¬ (h.group = 60 ∧ h.qual = 0x06 ∧ (h.var = 2 ∨ h.var = 3 ∨ h.var = 4)) := by
                  rintro ⟨g1, g2, g3 | g3 | g3⟩
                  · exact h2 ⟨g1, g2, g3⟩
                  · exact h3 ⟨g1, g2, g3⟩
                  · exact h4 ⟨g1, g2, g3⟩
                rw [if_neg this]
              rw [if_neg h4, ih, he]
    exact gen hs a.1 0
  · simp [hu, emptySolicited]

/-- (e2) ENABLE/DISABLE UNSOLICITED: any rejected header (or unsolicited not configured) sets
    NO_FUNC_CODE_SUPPORT -/
theorem rejection_flagged_enable (a : Acc) (en : Bool) (seq : Nat) (hs : List ObjHdr)
    (hrej : a.1.cfg.unsolicited = false ∨ ∃ h ∈ hs, enableRej h = iin2NoFunc) :
    HasBits (handleEnableDisable a en seq hs).2.iin2 iin2NoFunc := by
  rw [handleEnableDisable_iin2]
  rcases hrej with hu | ⟨h, hm, hr⟩
  · simp only [hu, Bool.false_eq_true, if_false]; exact HasBits.self _
  · split
    · exact foldl_or_mem enableRej _ hs 0 h hm (by rw [hr]; exact HasBits.self _)
    · exact HasBits.self _

/-- the IIN2 contributions of `Db.select` along the headers of a READ (database threaded) -/
def selectIins (db : Db) : List ObjHdr → List Nat
  | [] => []
  | h :: hs => (db.select (toReadHdr h)).2 :: selectIins (db.select (toReadHdr h)).1 hs

/-- (e3) READ: every IIN2 bit any header's `select` reports is in the READ response's IIN2 -/
theorem dbSelectAll_bits (m : Nat) : ∀ (hs : List ObjHdr) (db : Db) (i : Nat), i ∈ selectIins db hs → HasBits i m →
    HasBits (dbSelectAll db hs).2 m
  | h :: hs, db, i, hi, hm => by
    unfold dbSelectAll
    simp only [selectIins, List.mem_cons] at hi
    rcases hi with rfl | hi
    · exact hm.or_left _
    · exact (dbSelectAll_bits m hs _ i hi hm).or_right _

theorem rejection_flagged_read {a a' : Acc} {f : Frag} {ctrl : AppCtrl} {func : Nat}
    {objects : Except Nat (List ObjHdr)} {raw : List Nat} {series : Option Series} {hs : List ObjHdr}
    (hc : classify a.1 f ctrl func objects = .newRead hs ∨ ∃ r0, classify a.1 f ctrl func objects = .repeatRead r0 hs)
    (hh : handleRequestFromIdle a f ctrl func objects raw = some (a', series)) :
    ∃ r, SentOne a.2 a'.2 f.src r ∧ r.func = 0x81 ∧ r.ctrl.seq = ctrl.seq ∧ r.ctrl.fir = true ∧ r.ctrl.uns = false ∧
      ∀ i ∈ selectIins a.1.db hs, ∀ m, HasBits i m → HasBits r.iin2 m := by
  have hi : idleResult a f ctrl func objects raw =
      some (((formatReadResponse { a.1 with db := (dbSelectAll a.1.db hs).1 } true ctrl.seq (dbSelectAll a.1.db hs).2).1, a.2),
        some (⟨ctrl.seq, f.data,
          some (formatReadResponse { a.1 with db := (dbSelectAll a.1.db hs).1 } true ctrl.seq (dbSelectAll a.1.db hs).2).2.1,
          (formatReadResponse { a.1 with db := (dbSelectAll a.1.db hs).1 } true ctrl.seq (dbSelectAll a.1.db hs).2).2.2⟩, false)) := by
    unfold idleResult
    rcases hc with hc | ⟨r0, hc⟩ <;> rw [hc]
  obtain ⟨r', h0, h1, h2, h3, _, h5, h6, _⟩ := idle_sends hi rfl hh
  refine ⟨r', h0, h1, h2, h3, h5, fun i hi m hm => h6 m ?_⟩
  exact dbSelectAll_bits m hs a.1.db i hi hm

/-! ### (f) WRITE: the IIN2 results of ALL headers are accumulated (D7 repaired: `iin2 |= …`) -/

/-- the fold step of `handleWrite` -/
def writeStep (p : Acc × Nat) (h : ObjHdr) : Acc × Nat :=
  ((handleWriteHeader p.1 h).1, p.2 ||| (handleWriteHeader p.1 h).2)

theorem handleWrite_fold (a : Acc) (seq : Nat) (hs : List ObjHdr) :
    handleWrite a seq hs = ((hs.foldl writeStep (a, 0)).1, emptySolicited seq (hs.foldl writeStep (a, 0)).2) := rfl

/-- exact characterisation: every further header ORs its result into the response IIN2 -/
theorem write_accumulates (a : Acc) (seq : Nat) (pre : List ObjHdr) (h : ObjHdr) :
    (handleWrite a seq (pre ++ [h])).2.iin2 =
      (handleWrite a seq pre).2.iin2 ||| (handleWriteHeader (handleWrite a seq pre).1 h).2 := by
  simp only [handleWrite_fold, List.foldl_append, List.foldl_cons, List.foldl_nil]
  rfl

theorem write_no_header (a : Acc) (seq : Nat) : (handleWrite a seq []).2.iin2 = 0 := rfl

/-- bits once accumulated are never lost by the headers that follow -/
theorem writeStep_foldl_mono (m : Nat) : ∀ (l : List ObjHdr) (p : Acc × Nat), HasBits p.2 m →
    HasBits (l.foldl writeStep p).2 m
  | [], _, h => h
  | x :: l, p, h => writeStep_foldl_mono m l (writeStep p x) (h.or_left _)

/-- **write_rejection_flagged** (full statement): for ANY header `h` of a WRITE — at any position,
    whatever precedes and follows it — every IIN2 bit that handling `h` returns (in the state the
    preceding headers left) is set in the IIN2 of the response record -/
theorem write_rejection_flagged (a : Acc) (seq : Nat) (pre : List ObjHdr) (h : ObjHdr) (post : List ObjHdr)
    (m : Nat) (hrej : HasBits (handleWriteHeader (handleWrite a seq pre).1 h).2 m) :
    HasBits (handleWrite a seq (pre ++ h :: post)).2.iin2 m := by
  simp only [handleWrite_fold, List.foldl_append, List.foldl_cons] at hrej ⊢
  exact writeStep_foldl_mono m post _ (hrej.or_right _)

/-- single-header WRITEs report exactly their header's result -/
theorem write_single_header (a : Acc) (seq : Nat) (h : ObjHdr) :
    (handleWrite a seq [h]).2.iin2 = (handleWriteHeader a h).2 := by
  have := write_accumulates a seq [] h
  rw [write_no_header, Nat.zero_or] at this
  exact this

/-- a WRITE header the session has no handler for is rejected with NO_FUNC_CODE_SUPPORT -/
theorem handleWriteHeader_unsupported (a : Acc) (h : ObjHdr)
    (h1 : ¬ (h.group = 80 ∧ h.var = 1 ∧ h.qual = 0x00)) (h2 : ¬ (h.group = 50 ∧ h.var = 1 ∧ h.qual = 0x07))
    (h3 : ¬ (h.group = 50 ∧ h.var = 3 ∧ h.qual = 0x07)) : (handleWriteHeader a h).2 = iin2NoFunc := by
  unfold handleWriteHeader; simp [h1, h2, h3]

theorem handleWrite_resp (a : Acc) (seq : Nat) (hs : List ObjHdr) :
    (handleWrite a seq hs).2 = emptySolicited seq (handleWrite a seq hs).2.iin2 := rfl

/-- (f) at the level of `handle_non_read`: the response record of a WRITE request carries the
    request's sequence number and every IIN2 bit any of its headers returned -/
theorem rejection_flagged_write (a : Acc) (seq frameId : Nat) (pre : List ObjHdr) (h : ObjHdr) (post : List ObjHdr)
    (raw : List Nat) (m : Nat) (hrej : HasBits (handleWriteHeader (handleWrite a seq pre).1 h).2 m) :
    ∃ a' r, handleNonRead a 2 seq frameId (pre ++ h :: post) raw = some (a', some r) ∧ r.ctrl.seq = seq ∧
      HasBits r.iin2 m := by
  have hn : nonReadRes a 2 seq frameId (pre ++ h :: post) raw =
      some ((handleWrite a seq (pre ++ h :: post)).1, some (handleWrite a seq (pre ++ h :: post)).2) := by
    simp [nonReadRes]
  rw [handleNonRead_eq, hn]
  exact ⟨_, _, rfl, rfl, (write_rejection_flagged a seq pre h post m hrej).or_left _⟩

/-- the former D7 witness `c1 02 | 50 01 00 04 04 00 | 50 01 00 07 07 00`: first header rejected,
    second accepted -/
def d7Fragment : List Nat := [0xC1, 0x02, 0x50, 0x01, 0x00, 0x04, 0x04, 0x00, 0x50, 0x01, 0x00, 0x07, 0x07, 0x00]

def d7Hdr1 : ObjHdr := ⟨80, 1, 0, 4, 4, [0]⟩
def d7Hdr2 : ObjHdr := ⟨80, 1, 0, 7, 7, [0]⟩

theorem d7Fragment_parses :
    parseRequest d7Fragment = .request ⟨true, true, false, false, 1⟩ 2 (.ok [d7Hdr1, d7Hdr2]) (d7Fragment.drop 2) := by
  rfl

theorem d7Hdr1_rejected (a : Acc) : (handleWriteHeader a d7Hdr1).2 = iin2ParamError := by
  simp [handleWriteHeader, d7Hdr1, handleWriteIin, bitAt, iin2ParamError, List.range, List.range.loop]

theorem d7Hdr2_accepted (a : Acc) : (handleWriteHeader a d7Hdr2).2 = 0 := by
  simp [handleWriteHeader, d7Hdr2, handleWriteIin, bitAt, List.range, List.range.loop]

/-- regression instance of `write_rejection_flagged` (the former D7 counterexample): the rejected
    first header's PARAMETER_ERROR is in the response record although the second header succeeds —
    in ANY state -/
theorem write_rejection_flagged_d7 (a : Acc) :
    HasBits (handleWrite a 1 [d7Hdr1, d7Hdr2]).2.iin2 iin2ParamError := by
  have := write_rejection_flagged a 1 [] d7Hdr1 [d7Hdr2] iin2ParamError
    (by rw [show (handleWrite a 1 []).1 = a from rfl, d7Hdr1_rejected]; exact HasBits.self _)
  exact this

/-! ## Handlers only emit callbacks (they never transmit) -/

/-- relative to the output list `base`, `a` has only appended callbacks -/
def CbOnly (base : List OOut) (a : Acc) : Prop := ∃ l, a.2 = base ++ l ∧ ∀ o ∈ l, ∃ c, o = OOut.cb c

theorem CbOnly.refl (a : Acc) : CbOnly a.2 a := ⟨[], by simp, fun o ho => by simp at ho⟩

theorem CbOnly.emitCb {base : List OOut} {a : Acc} (h : CbOnly base a) (c : Cb) : CbOnly base (emitCb a c) := by
  obtain ⟨l, hl, hc⟩ := h
  refine ⟨l ++ [.cb c], by simp [Dnp3.emitCb, emit, hl], fun o ho => ?_⟩
  simp only [List.mem_append, List.mem_singleton] at ho
  rcases ho with ho | rfl
  · exact hc o ho
  · exact ⟨c, rfl⟩

theorem CbOnly.trans {base : List OOut} {a b : Acc} (h1 : CbOnly base a) (h2 : CbOnly a.2 b) : CbOnly base b := by
  obtain ⟨l1, e1, c1⟩ := h1
  obtain ⟨l2, e2, c2⟩ := h2
  refine ⟨l1 ++ l2, by rw [e2, e1, List.append_assoc], fun o ho => ?_⟩
  simp only [List.mem_append] at ho
  rcases ho with ho | ho
  · exact c1 o ho
  · exact c2 o ho

theorem txFrags_append (x y : List OOut) : txFrags (x ++ y) = txFrags x ++ txFrags y := by
  unfold txFrags; exact List.filterMap_append

theorem txFrags_cbs (l : List OOut) (hc : ∀ o ∈ l, ∃ c, o = OOut.cb c) : txFrags l = [] := by
  unfold txFrags
  rw [List.filterMap_eq_nil_iff]
  intro o ho
  obtain ⟨c, rfl⟩ := hc o ho
  rfl

theorem CbOnly.noTx {base : List OOut} {a : Acc} (h : CbOnly base a) : txFrags a.2 = txFrags base := by
  obtain ⟨l, hl, hc⟩ := h
  rw [hl, txFrags_append, txFrags_cbs l hc, List.append_nil]

macro "cbonly" : tactic => `(tactic| repeat (first | assumption | apply CbOnly.emitCb))

theorem CbOnly.handleWriteIin {base : List OOut} {a : Acc} (h : CbOnly base a) (start stop : Nat) (data : List Nat) :
    CbOnly base (handleWriteIin a start stop data).1 := by
  unfold Dnp3.handleWriteIin
  apply foldl_inv (fun p : Acc × Nat => CbOnly base p.1) _ _ _ _ h
  intro p i hp
  dsimp only
  split
  · split <;> cbonly
  · cbonly

theorem CbOnly.handleWriteHeader {base : List OOut} {a : Acc} (h : CbOnly base a) (hd : ObjHdr) :
    CbOnly base (handleWriteHeader a hd).1 := by
  unfold Dnp3.handleWriteHeader
  splits
  all_goals first | exact h.handleWriteIin _ _ _ | cbonly

theorem CbOnly.handleWrite {base : List OOut} {a : Acc} (h : CbOnly base a) (seq : Nat) (hs : List ObjHdr) :
    CbOnly base (handleWrite a seq hs).1 := by
  unfold Dnp3.handleWrite
  apply foldl_inv (fun p : Acc × Nat => CbOnly base p.1) _ _ _ _ h
  intro p hd hp
  exact hp.handleWriteHeader hd

theorem CbOnly.handleFreezeHeader {base : List OOut} {a : Acc} (h : CbOnly base a) (k : FreezeKind) (hd : ObjHdr) :
    CbOnly base (handleFreezeHeader a k hd).1 := by
  unfold Dnp3.handleFreezeHeader
  splits <;> cbonly

theorem CbOnly.handleFreeze {base : List OOut} {a : Acc} (h : CbOnly base a) (seq : Nat) (k : FreezeKind)
    (hs : List ObjHdr) : CbOnly base (handleFreeze a seq k hs).1 := by
  unfold Dnp3.handleFreeze
  apply foldl_inv (fun p : Acc × Nat => CbOnly base p.1) _ _ _ _ h
  intro p hd hp
  exact hp.handleFreezeHeader k hd

theorem CbOnly.handleFreezeAtTime {base : List OOut} {a : Acc} (h : CbOnly base a) (seq : Nat)
    (hs : List ObjHdr) : CbOnly base (handleFreezeAtTime a seq hs).1 :=
  handleFreezeAtTime_inv (CbOnly base) (fun _ hd hb => hb.handleFreezeHeader .atTime hd) a seq hs h

theorem CbOnly.handleEnableDisable {base : List OOut} {a : Acc} (h : CbOnly base a) (en : Bool) (seq : Nat)
    (hs : List ObjHdr) : CbOnly base (handleEnableDisable a en seq hs).1 := by
  unfold Dnp3.handleEnableDisable
  split
  · exact h
  · exact h

theorem CbOnly.countOfOne {base : List OOut} {a : Acc} (h : CbOnly base a) (seq g v value : Nat) :
    CbOnly base (countOfOne a seq g v value).1 := h

theorem CbOnly.handleRestart {base : List OOut} {a : Acc} (h : CbOnly base a) (seq : Nat) (name : Cb) :
    CbOnly base (handleRestart a seq name).1 := by
  unfold Dnp3.handleRestart
  splits
  · exact h.emitCb _
  · exact (h.emitCb _).countOfOne _ _ _ _
  · exact (h.emitCb _).countOfOne _ _ _ _

theorem CbOnly.ctlStatus {base : List OOut} (kind : Option CtlKind) (fixedStatus : Nat) (maxctl : Option Nat)
    (h : ObjHdr) (ix obj : List Nat) (r : CtlRun) (hg : CbOnly base r.acc) :
    CbOnly base (C12.ctlStatus kind fixedStatus maxctl h ix obj r).1.acc := by
  unfold C12.ctlStatus
  cases kind with
  | none => exact hg
  | some k =>
    dsimp only
    have : CbOnly base ((nextStatus r.acc.1).1, r.acc.2) := hg
    repeat' split
    all_goals (dsimp only; cbonly)

theorem CbOnly.go {base : List OOut} (kind : Option CtlKind) (fixedStatus : Nat) (maxctl : Option Nat) (h : ObjHdr)
    (isz : Nat) (hdrBytes : List Nat) :
    ∀ (items : List (List Nat × List Nat)) (r : CtlRun) (count : Nat) (hdrOut body : List Nat),
      CbOnly base r.acc →
      CbOnly base (ctlHeader.go kind fixedStatus maxctl h isz hdrBytes items r count hdrOut body).acc := by
  intro items
  induction items with
  | nil => intro r count hdrOut body hg; rw [go_nil]; exact hg
  | cons it rest ih =>
    intro r count hdrOut body hg
    obtain ⟨ix, obj⟩ := it
    rw [go_cons]
    split
    · exact hg
    · have qg := CbOnly.ctlStatus kind fixedStatus maxctl h ix obj r hg
      generalize C12.ctlStatus kind fixedStatus maxctl h ix obj r = q at qg ⊢
      dsimp only
      by_cases hk : kind = some CtlKind.donr
      · rw [if_pos hk]; exact ih _ _ _ _ qg
      · rw [if_neg hk]
        by_cases hfit : q.1.out.length + (if count = 0 then hdrBytes ++ (if isz = 1 then [0] else [0, 0]) else hdrOut).length
              + body.length + (ix ++ withStatus obj q.2.1).length > q.1.cap
        · rw [if_pos hfit]; exact qg
        · rw [if_neg hfit]; exact ih _ _ _ _ qg

theorem CbOnly.ctlAll {base : List OOut} (kind : Option CtlKind) (fixedStatus : Nat) (maxctl : Option Nat)
    (hs : List ObjHdr) {r : CtlRun} (hr : CbOnly base r.acc) :
    CbOnly base (ctlAll kind fixedStatus maxctl hs r).acc := by
  unfold Dnp3.ctlAll
  apply foldl_inv (fun r : CtlRun => CbOnly base r.acc) _ _ _ _ hr
  intro r h hr
  split
  · exact hr
  · unfold ctlHeader; exact CbOnly.go _ _ _ _ _ _ _ _ _ _ _ hr

theorem CbOnly.ctlFinish {base : List OOut} {r : CtlRun} (hr : CbOnly base r.acc) : CbOnly base (ctlFinish r).acc := by
  unfold Dnp3.ctlFinish
  split
  · exact hr.emitCb _
  · exact hr

theorem CbOnly.handleControls {base : List OOut} {a a' : Acc} (h : CbOnly base a) {func seq frameId : Nat}
    {hs : List ObjHdr} {raw : List Nat} {ro : Option Resp}
    (hc : handleControls a func seq frameId hs raw = some (a', ro)) : CbOnly base a' := by
  have key : ∀ (kind : Option CtlKind) (fs : Nat) (mc : Option Nat) (cap : Nat),
      CbOnly base (Dnp3.ctlFinish (Dnp3.ctlAll kind fs mc hs { acc := a, cap := cap })).acc :=
    fun kind fs mc cap => CbOnly.ctlFinish (CbOnly.ctlAll kind fs mc hs (r := ({ acc := a, cap := cap } : CtlRun)) h)
  unfold Dnp3.handleControls at hc
  split at hc
  · simp only [Option.some.injEq, Prod.mk.injEq] at hc
    obtain ⟨rfl, _⟩ := hc; exact h
  · dsimp only at hc
    split at hc
    · simp only [Option.some.injEq, Prod.mk.injEq] at hc
      obtain ⟨rfl, _⟩ := hc
      have := key (some .select) 0 a.1.cfg.maxctl (a.1.cfg.sol - 4)
      exact this
    · split at hc
      · split at hc
        · simp only [Option.some.injEq, Prod.mk.injEq] at hc
          obtain ⟨rfl, _⟩ := hc
          exact key none _ none (a.1.cfg.sol - 4)
        · simp only [Option.some.injEq, Prod.mk.injEq] at hc
          obtain ⟨rfl, _⟩ := hc
          exact key (some .sbo) 0 a.1.cfg.maxctl (a.1.cfg.sol - 4)
      · split at hc
        · simp only [Option.some.injEq, Prod.mk.injEq] at hc
          obtain ⟨rfl, _⟩ := hc
          exact key (some .dop) 0 a.1.cfg.maxctl (a.1.cfg.sol - 4)
        · simp only [Option.some.injEq, Prod.mk.injEq] at hc
          obtain ⟨rfl, _⟩ := hc
          exact key (some .donr) 0 a.1.cfg.maxctl (a.1.cfg.sol - 4)

theorem CbOnly.nonReadRes {base : List OOut} {a a' : Acc} (h : CbOnly base a) {func seq frameId : Nat}
    {hs : List ObjHdr} {raw : List Nat} {ro : Option Resp}
    (hn : nonReadRes a func seq frameId hs raw = some (a', ro)) : CbOnly base a' := by
  unfold C12.nonReadRes at hn
  by_cases c0 : func = 2
  · rw [if_pos c0] at hn; simp only [Option.some.injEq, Prod.mk.injEq] at hn; obtain ⟨rfl, _⟩ := hn
    exact h.handleWrite seq hs
  rw [if_neg c0] at hn
  by_cases c1 : func = 23
  · rw [if_pos c1] at hn; simp only [Option.some.injEq, Prod.mk.injEq] at hn; obtain ⟨rfl, _⟩ := hn
    exact h
  rw [if_neg c1] at hn
  by_cases c2 : func = 24
  · rw [if_pos c2] at hn; simp only [Option.some.injEq, Prod.mk.injEq] at hn; obtain ⟨rfl, _⟩ := hn
    exact h
  rw [if_neg c2] at hn
  by_cases c3 : func = 13
  · rw [if_pos c3] at hn; simp only [Option.some.injEq, Prod.mk.injEq] at hn; obtain ⟨rfl, _⟩ := hn
    exact h.handleRestart _ _
  rw [if_neg c3] at hn
  by_cases c4 : func = 14
  · rw [if_pos c4] at hn; simp only [Option.some.injEq, Prod.mk.injEq] at hn; obtain ⟨rfl, _⟩ := hn
    exact h.handleRestart _ _
  rw [if_neg c4] at hn
  by_cases c5 : func = 3 ∨ func = 4 ∨ func = 5 ∨ func = 6
  · rw [if_pos c5] at hn; exact h.handleControls hn
  rw [if_neg c5] at hn
  by_cases c6 : func = 7
  · rw [if_pos c6] at hn; simp only [Option.some.injEq, Prod.mk.injEq] at hn; obtain ⟨rfl, _⟩ := hn
    exact h.handleFreeze _ _ _
  rw [if_neg c6] at hn
  by_cases c7 : func = 8
  · rw [if_pos c7] at hn; simp only [Option.some.injEq, Prod.mk.injEq] at hn; obtain ⟨rfl, _⟩ := hn
    exact h.handleFreeze _ _ _
  rw [if_neg c7] at hn
  by_cases c8 : func = 9
  · rw [if_pos c8] at hn; simp only [Option.some.injEq, Prod.mk.injEq] at hn; obtain ⟨rfl, _⟩ := hn
    exact h.handleFreeze _ _ _
  rw [if_neg c8] at hn
  by_cases c9 : func = 10
  · rw [if_pos c9] at hn; simp only [Option.some.injEq, Prod.mk.injEq] at hn; obtain ⟨rfl, _⟩ := hn
    exact h.handleFreeze _ _ _
  rw [if_neg c9] at hn
  by_cases c10 : func = 11
  · rw [if_pos c10] at hn; simp only [Option.some.injEq, Prod.mk.injEq] at hn; obtain ⟨rfl, _⟩ := hn
    exact h.handleFreezeAtTime _ _
  rw [if_neg c10] at hn
  by_cases c11 : func = 12
  · rw [if_pos c11] at hn; simp only [Option.some.injEq, Prod.mk.injEq] at hn; obtain ⟨rfl, _⟩ := hn
    exact h.handleFreezeAtTime _ _
  rw [if_neg c11] at hn
  by_cases c12 : func = 20
  · rw [if_pos c12] at hn; simp only [Option.some.injEq, Prod.mk.injEq] at hn; obtain ⟨rfl, _⟩ := hn
    exact h.handleEnableDisable _ _ _
  rw [if_neg c12] at hn
  by_cases c13 : func = 21
  · rw [if_pos c13] at hn; simp only [Option.some.injEq, Prod.mk.injEq] at hn; obtain ⟨rfl, _⟩ := hn
    exact h.handleEnableDisable _ _ _
  rw [if_neg c13] at hn
  simp only [Option.some.injEq, Prod.mk.injEq] at hn; obtain ⟨rfl, _⟩ := hn
  exact h

theorem handleNonRead_acc {a a' : Acc} {func seq frameId : Nat} {hs : List ObjHdr} {raw : List Nat} {ro : Option Resp}
    (hn : handleNonRead a func seq frameId hs raw = some (a', ro)) :
    ∃ ro', nonReadRes a func seq frameId hs raw = some (a', ro') ∧ (ro = none ↔ ro' = none) := by
  rw [handleNonRead_eq] at hn
  split at hn
  · simp at hn
  · rename_i a1 hres
    simp only [Option.some.injEq, Prod.mk.injEq] at hn
    obtain ⟨rfl, rfl⟩ := hn
    exact ⟨none, hres, Iff.rfl⟩
  · rename_i a1 r1 hres
    simp only [Option.some.injEq, Prod.mk.injEq] at hn
    obtain ⟨rfl, rfl⟩ := hn
    exact ⟨some r1, hres, by simp⟩

/-- `handle_non_read` never transmits: it only appends application callbacks -/
theorem CbOnly.handleNonRead {base : List OOut} {a a' : Acc} (h : CbOnly base a) {func seq frameId : Nat}
    {hs : List ObjHdr} {raw : List Nat} {ro : Option Resp}
    (hn : handleNonRead a func seq frameId hs raw = some (a', ro)) : CbOnly base a' := by
  obtain ⟨ro', hres, _⟩ := handleNonRead_acc hn
  exact h.nonReadRes hres

/-- `process_broadcast` never transmits -/
theorem CbOnly.processBroadcast {base : List OOut} {a a' : Acc} (h : CbOnly base a) {f : Frag} {mode : Nat}
    {ctrl : AppCtrl} {func : Nat} {objects : Except Nat (List ObjHdr)} {raw : List Nat}
    (hp : processBroadcast a f mode ctrl func objects raw = some a') : CbOnly base a' := by
  unfold Dnp3.processBroadcast at hp
  have h0 : CbOnly base ({ a.1 with lastBroadcast := some mode }, a.2) := h
  generalize ({ a.1 with lastBroadcast := some mode }, a.2) = a0 at h0 hp
  dsimp only at hp
  split at hp
  · simp only [Option.some.injEq] at hp; subst hp; exact h0.emitCb _
  · split at hp
    · simp only [Option.some.injEq] at hp; subst hp; exact h0.emitCb _
    · rename_i hs
      by_cases c2 : func = 2
      · rw [if_pos c2] at hp; simp only [Option.some.injEq] at hp; subst hp
        exact (h0.handleWrite _ _).emitCb _
      rw [if_neg c2] at hp
      by_cases c6 : func = 6
      · rw [if_pos c6] at hp
        split at hp
        · simp at hp
        · rename_i a1 ro hc
          simp only [Option.some.injEq] at hp; subst hp
          exact (h0.handleControls hc).emitCb _
      rw [if_neg c6] at hp
      by_cases c8 : func = 8
      · rw [if_pos c8] at hp; simp only [Option.some.injEq] at hp; subst hp
        exact (h0.handleFreeze _ _ _).emitCb _
      rw [if_neg c8] at hp
      by_cases c10 : func = 10
      · rw [if_pos c10] at hp; simp only [Option.some.injEq] at hp; subst hp
        exact (h0.handleFreeze _ _ _).emitCb _
      rw [if_neg c10] at hp
      by_cases c12 : func = 12
      · rw [if_pos c12] at hp; simp only [Option.some.injEq] at hp; subst hp
        exact (h0.handleFreezeAtTime _ _).emitCb _
      rw [if_neg c12] at hp
      by_cases c24 : func = 24
      · rw [if_pos c24] at hp; simp only [Option.some.injEq] at hp; subst hp
        exact CbOnly.emitCb (a := ({ a0.1 with lastRecorded := some a0.1.now }, a0.2)) h0 _
      rw [if_neg c24] at hp
      by_cases c21 : func = 21
      · rw [if_pos c21] at hp; simp only [Option.some.injEq] at hp; subst hp
        exact (h0.handleEnableDisable _ _ _).emitCb _
      rw [if_neg c21] at hp
      by_cases c20 : func = 20
      · rw [if_pos c20] at hp; simp only [Option.some.injEq] at hp; subst hp
        exact (h0.handleEnableDisable _ _ _).emitCb _
      rw [if_neg c20] at hp
      simp only [Option.some.injEq] at hp; subst hp
      exact h0.emitCb _

/-- the execution part of the idle path never transmits -/
theorem CbOnly.idleResult {base : List OOut} {a a' : Acc} (h : CbOnly base a) {f : Frag} {ctrl : AppCtrl}
    {func : Nat} {objects : Except Nat (List ObjHdr)} {raw : List Nat} {olr : Option (LastReq × Bool)}
    (hi : idleResult a f ctrl func objects raw = some (a', olr)) : CbOnly base a' := by
  unfold C12.idleResult at hi
  dsimp only at hi
  split at hi
  · simp only [Option.some.injEq, Prod.mk.injEq] at hi; obtain ⟨rfl, _⟩ := hi; exact h
  · simp only [Option.some.injEq, Prod.mk.injEq] at hi; obtain ⟨rfl, _⟩ := hi; exact h
  · simp only [Option.some.injEq, Prod.mk.injEq] at hi; obtain ⟨rfl, _⟩ := hi; exact h
  · split at hi
    · simp at hi
    · rename_i a1 r1 hn
      simp only [Option.some.injEq, Prod.mk.injEq] at hi; obtain ⟨rfl, _⟩ := hi
      exact h.handleNonRead hn
  · simp only [Option.some.injEq, Prod.mk.injEq] at hi; obtain ⟨rfl, _⟩ := hi
    splits <;> exact h
  · split at hi
    · simp at hi
    · rename_i a1 hp
      simp only [Option.some.injEq, Prod.mk.injEq] at hi; obtain ⟨rfl, _⟩ := hi
      exact h.processBroadcast hp
  · simp only [Option.some.injEq, Prod.mk.injEq] at hi; obtain ⟨rfl, _⟩ := hi; exact h
  · simp only [Option.some.injEq, Prod.mk.injEq] at hi; obtain ⟨rfl, _⟩ := hi; exact h

/-! ## C12 target 2: solicited responses are correlated with the request -/

/-- output `o`, if it is a transmission, is a solicited response to the request `(ctrl, func)` from `dst`:
    function 0x81, UNS clear, the request's sequence number, FIR, and FIN for any non-READ -/
def Correlated (dst : Nat) (ctrl : AppCtrl) (func : Nat) : OOut → Prop
  | .tx d b => d = dst ∧ ∃ r rest, b = respHeader r ++ rest ∧ r.func = 0x81 ∧ r.ctrl.uns = false ∧
      r.ctrl.seq = ctrl.seq ∧ r.ctrl.fir = true ∧ (func ≠ 1 → r.ctrl.fin = true)
  | _ => True

/-- octet-level reading: the control octet of a correlated response decodes to the request's
    sequence number with FIR set and UNS clear -/
theorem Correlated.octets {dst : Nat} {ctrl : AppCtrl} {func d : Nat} {b : List Nat} (hseq : ctrl.seq < 16)
    (h : Correlated dst ctrl func (.tx d b)) :
    d = dst ∧ b.getD 1 0 = 0x81 ∧ (AppCtrl.ofNat (b.getD 0 0)).seq = ctrl.seq ∧
      (AppCtrl.ofNat (b.getD 0 0)).fir = true ∧ (AppCtrl.ofNat (b.getD 0 0)).uns = false ∧
      (func ≠ 1 → (AppCtrl.ofNat (b.getD 0 0)).fin = true) := by
  obtain ⟨hd, r, rest, rfl, h1, h2, h3, h4, h5⟩ := h
  have : AppCtrl.ofNat ((respHeader r ++ rest).getD 0 0) = r.ctrl := by
    simp only [respHeader, List.cons_append, List.getD_cons_zero]
    exact ofNat_toNat' r.ctrl (h3 ▸ hseq)
  rw [this]
  exact ⟨hd, by simp [respHeader, h1], h3, h4, h2, h5⟩

/-- **solicited_correlated** (idle path): whatever `handle_one_request_from_idle` appends to the
    output is callbacks plus at most one transmission, and that transmission is correlated with
    the request (this includes the echo of a stored response for a repeated request, by the invariant) -/
theorem solicited_correlated_idle {cfg : OCfg} (hdb : DbContract) {a a' : Acc} (h : Good cfg a) {f : Frag}
    {ctrl : AppCtrl} {func : Nat} {objects : Except Nat (List ObjHdr)} {raw : List Nat}
    (hreq : parseRequest f.data = .request ctrl func objects raw) {series : Option Series}
    (hh : handleRequestFromIdle a f ctrl func objects raw = some (a', series)) :
    ∃ l, a'.2 = a.2 ++ l ∧ (∀ o ∈ l, Correlated f.src ctrl func o) ∧ (txFrags l).length ≤ 1 := by
  have hseq := parseRequest_seq_lt hreq
  have hfn := parseRequest_func hreq
  cases hi : idleResult a f ctrl func objects raw with
  | none => rw [handleRequestFromIdle_eq, hi] at hh; simp at hh
  | some p =>
    obtain ⟨a1, olr⟩ := p
    obtain ⟨l1, e1, c1⟩ := CbOnly.idleResult (CbOnly.refl a) hi
    have cbCorr : ∀ o ∈ l1, Correlated f.src ctrl func o := fun o ho => by
      obtain ⟨c, rfl⟩ := c1 o ho; trivial
    have hpre := (h.idleResult hdb hseq hfn hi).2
    by_cases hsil : ∀ lr e, olr = some (lr, e) → lr.response = none
    · have := idle_silent hi hsil hh
      exact ⟨l1, this ▸ e1, cbCorr, by rw [txFrags_cbs l1 c1]; simp⟩
    · have : ∃ lr e r, olr = some (lr, e) ∧ lr.response = some r := by
        cases olr with
        | none => exact absurd (fun lr e hl => by simp at hl) hsil
        | some p =>
          obtain ⟨lr, e⟩ := p
          cases hr : lr.response with
          | none => exact absurd (fun lr' e' hl => by
              simp only [Option.some.injEq, Prod.mk.injEq] at hl; obtain ⟨rfl, _⟩ := hl; exact hr) hsil
          | some r => exact ⟨lr, e, r, rfl, hr⟩
      obtain ⟨lr, e, r, rfl, hr⟩ := this
      obtain ⟨r', ⟨rest, hs⟩, h1, h2, h3, h4, h5, _, _⟩ := idle_sends hi hr hh
      obtain ⟨p1, p2, p3, p4⟩ := (hpre lr e rfl).2.2 r hr
      refine ⟨l1 ++ [.tx f.src (respHeader r' ++ rest)], by rw [hs, e1, List.append_assoc], fun o ho => ?_, ?_⟩
      · simp only [List.mem_append, List.mem_singleton] at ho
        rcases ho with ho | rfl
        · exact cbCorr o ho
        · exact ⟨rfl, r', rest, rfl, h1.trans p1.1, h5.trans p1.2.1, h2.trans p2, h3.trans p3,
            fun hne => h4.trans (p4 hne)⟩
      · rw [txFrags_append, txFrags_cbs l1 c1]; simp [txFrags]

/-! ## C12 target 4: functions that must not be answered -/

/-- DIRECT_OPERATE_NR (6), IMMED_FREEZE_NR (8), FREEZE_CLEAR_NR (10), FREEZE_AT_TIME_NR (12):
    `handle_non_read` returns no response record, whatever the headers (when it does not panic) -/
theorem silent_functions_nonread {a a' : Acc} {func seq frameId : Nat} {hs : List ObjHdr} {raw : List Nat}
    {ro : Option Resp} (hf : func = 6 ∨ func = 8 ∨ func = 10 ∨ func = 12)
    (hn : handleNonRead a func seq frameId hs raw = some (a', ro)) : ro = none ∧ CbOnly a.2 a' := by
  refine ⟨?_, CbOnly.handleNonRead (CbOnly.refl a) hn⟩
  obtain ⟨ro', hres, hiff⟩ := handleNonRead_acc hn
  rw [hiff]
  unfold nonReadRes at hres
  rcases hf with rfl | rfl | rfl | rfl
  · simp only [show (6 : Nat) ≠ 2 by decide, show (6 : Nat) ≠ 23 by decide, show (6 : Nat) ≠ 24 by decide,
      show (6 : Nat) ≠ 13 by decide, show (6 : Nat) ≠ 14 by decide, if_false, or_true, if_true] at hres
    unfold handleControls at hres
    split at hres
    · simp at hres; exact hres.2.symm
    · simp at hres; exact hres.2.symm
  · simp at hres; exact hres.2.symm
  · simp at hres; exact hres.2.symm
  · simp at hres; exact hres.2.symm

/-- the no-response functions never panic except … never: `handle_non_read` always returns -/
theorem silent_functions_nonread_total (a : Acc) (func seq frameId : Nat) (hs : List ObjHdr) (raw : List Nat)
    (hf : func = 6 ∨ func = 8 ∨ func = 10 ∨ func = 12) :
    ∃ a', handleNonRead a func seq frameId hs raw = some (a', none) := by
  have : ∃ a', nonReadRes a func seq frameId hs raw = some (a', none) := by
    unfold nonReadRes
    rcases hf with rfl | rfl | rfl | rfl
    · simp only [show (6 : Nat) ≠ 2 by decide, show (6 : Nat) ≠ 23 by decide, show (6 : Nat) ≠ 24 by decide,
        show (6 : Nat) ≠ 13 by decide, show (6 : Nat) ≠ 14 by decide, if_false, or_true, if_true]
      unfold handleControls
      split
      · exact ⟨a, by simp⟩
      · exact ⟨(ctlFinish (ctlAll (some CtlKind.donr) 0 a.1.cfg.maxctl hs { acc := a, cap := a.1.cfg.sol - 4 })).acc, by simp⟩
    · exact ⟨(handleFreeze a seq FreezeKind.immediate hs).1, by simp⟩
    · exact ⟨(handleFreeze a seq FreezeKind.clear hs).1, by simp⟩
    · exact ⟨(handleFreezeAtTime a seq hs).1, by simp⟩
  obtain ⟨a', h⟩ := this
  exact ⟨a', by rw [handleNonRead_eq, h]⟩

/-- **silent_functions** (idle path, `_partial`: the request is not byte-identical and
    same-sequence with the stored previous request): a unicast request with a no-response function
    code whose objects parse transmits nothing — only application callbacks are emitted — and no
    confirm wait is entered.
    Missing for the full statement: for a *repeat* of the previous request the session echoes the
    stored response record; that record is `none` when the previous identical fragment was handled
    as a no-response function, but proving it needs an extra invariant tying `lastReq.response` to
    the function code inside `lastReq.frag` (the stored record can be `some` only if the identical
    earlier fragment was answered, which for these function codes happens only on the malformed
    path, and malformed fragments are classified before the repeat check). -/
theorem silent_functions_partial {a a' : Acc} {f : Frag} {ctrl : AppCtrl} {func : Nat} {hs : List ObjHdr}
    {raw : List Nat} {series : Option Series} (hf : func = 6 ∨ func = 8 ∨ func = 10 ∨ func = 12)
    (hb : f.broadcast = none)
    (hnodup : ∀ lr, a.1.lastReq = some lr → ¬ (lr.seq = ctrl.seq ∧ lr.frag = f.data))
    (hh : handleRequestFromIdle a f ctrl func (.ok hs) raw = some (a', series)) :
    series = none ∧ CbOnly a.2 a' ∧ txFrags a'.2 = txFrags a.2 := by
  have hc : classify a.1 f ctrl func (.ok hs) = .newNonRead hs := by
    unfold classify
    have h0 : func ≠ 0 := by rcases hf with rfl | rfl | rfl | rfl <;> decide
    have h1 : func ≠ 1 := by rcases hf with rfl | rfl | rfl | rfl <;> decide
    simp only [h0, if_false, hb]
    cases hl : a.1.lastReq with
    | none => simp [h1]
    | some lr => simp [hnodup lr hl, h1]
  obtain ⟨a1, hn⟩ := silent_functions_nonread_total a func ctrl.seq f.id hs raw hf
  obtain ⟨e1, e2⟩ := idle_newNonRead_silent hc hn hh
  have hcb : CbOnly a.2 a' := by
    obtain ⟨l, hl, hc⟩ := (silent_functions_nonread hf hn).2
    exact ⟨l, e1 ▸ hl, hc⟩
  exact ⟨e2, hcb, hcb.noTx⟩

/-- CONFIRM (function 0) in the idle state: nothing happens at all — no output, no state change
    (the sequence number is not even recorded) -/
theorem silent_confirm_idle (a : Acc) (f : Frag) (ctrl : AppCtrl) (objects : Except Nat (List ObjHdr)) (raw : List Nat) :
    handleRequestFromIdle a f ctrl 0 objects raw = some (a, none) := by
  have hi : idleResult a f ctrl 0 objects raw = some (a, none) := by
    unfold idleResult classify
    by_cases hu : ctrl.uns = true <;> simp [hu]
  rw [handleRequestFromIdle_eq, hi]

/-! ## C12 target 3: unsolicited responses are numbered consecutively, retries are verbatim -/

theorem getResponseIin_fields {s s' : OState} {i1 i2 : Nat} (h : getResponseIin s = some (s', i1, i2)) :
    s'.cfg = s.cfg ∧ s'.unsolSeq = s.unsolSeq ∧ s'.unsolBuf = s.unsolBuf ∧ s'.now = s.now := by
  rcases getResponseIin_state h with rfl | rfl <;> exact ⟨rfl, rfl, rfl, rfl⟩

/-- starting a series: exactly one fragment goes to the configured master, with the control field
    and function of `r`; the session stores that very record for retries -/
theorem startUnsolSeries_out {a a' : Acc} {r : Resp} {isNull : Bool} (hs : startUnsolSeries a r isNull = some a') :
    ∃ r' rest retries, a'.2 = a.2 ++ [.tx a.1.cfg.master (respHeader r' ++ rest), .cb (.unsolWait r.ctrl.seq)] ∧
      r'.ctrl = r.ctrl ∧ r'.func = r.func ∧ r'.size = r.size ∧ a'.1.unsolSeq = a.1.unsolSeq ∧
      a'.1.mode = .unsolWait r' isNull retries (a.1.now + a.1.cfg.ctimeout) := by
  unfold Dnp3.startUnsolSeries at hs
  split at hs
  · simp at hs
  · rename_i a1 r1 hw
    simp only [Option.some.injEq] at hs; subst hs
    unfold Dnp3.writeUnsolicited at hw
    split at hw
    · simp at hw
    · rename_i s i1 i2 hg
      simp only [Option.some.injEq, Prod.mk.injEq] at hw
      obtain ⟨rfl, rfl⟩ := hw
      obtain ⟨e1, e2, e3, e4⟩ := getResponseIin_fields hg
      obtain ⟨rest, hrest⟩ := repeatUnsolicited_out (s, a.2) { r with iin1 := r.iin1 ||| i1, iin2 := r.iin2 ||| i2 }
      refine ⟨{ r with iin1 := r.iin1 ||| i1, iin2 := r.iin2 ||| i2 }, rest, (if isNull then some 0 else s.cfg.retries),
        ?_, rfl, rfl, rfl, ?_, ?_⟩
      · simp only [Dnp3.emitCb, emit, hrest, e1, List.append_assoc, List.cons_append, List.nil_append]
      · exact e2
      · simp only [Dnp3.emitCb, emit, Dnp3.repeatUnsolicited, e1, e4]

/-- **unsolicited_numbering** (new responses): when `check_unsolicited` starts a series it sends one
    unsolicited response (0x82, FIR FIN CON UNS) numbered with the current `unsolSeq`, to the
    configured master, and advances `unsolSeq` by `seq4Next`; when it starts none, nothing is
    transmitted and the counter is unchanged -/
theorem unsolicited_numbering {a : Acc} {x : Acc ⊕ (Acc × NextIdle)} (hc : checkUnsolicited a = some x) :
    match x with
    | .inl a' => ∃ r rest isNull retries,
        a'.2 = a.2 ++ [.tx a.1.cfg.master (respHeader r ++ rest), .cb (.unsolWait a.1.unsolSeq)] ∧
        r.ctrl = ⟨true, true, true, true, a.1.unsolSeq⟩ ∧ r.func = 0x82 ∧
        a'.1.unsolSeq = seq4Next a.1.unsolSeq ∧
        a'.1.mode = .unsolWait r isNull retries (a.1.now + a.1.cfg.ctimeout)
    | .inr (a', _) => a'.2 = a.2 ∧ a'.1.unsolSeq = a.1.unsolSeq := by
  unfold Dnp3.checkUnsolicited at hc
  dsimp only at hc
  repeat' (split at hc)
  all_goals first
    | (simp at hc; done)
    | (simp only [Option.some.injEq] at hc; subst hc
       first
        | exact ⟨rfl, rfl⟩
        | (rename_i hs
           obtain ⟨r', rest, retries, h1, h2, h3, _, h5, h6⟩ := startUnsolSeries_out hs
           exact ⟨r', rest, _, retries, h1, h2, h3, h5, h6⟩))

/-- **unsolicited retries are verbatim**: a retry after a confirm timeout re-sends the stored
    response record unchanged (same control octet, same function, same size) to the configured
    master, keeps it stored, and does not touch the numbering -/
theorem unsolicited_retry_verbatim (a : Acc) (resp : Resp) (isNull : Bool) (retries : Option Nat)
    (hd : a.1.deferred = none) (hr : retries ≠ some 0) :
    ∃ a' rest retries', unsolWaitTimeout a resp isNull retries = .blocked a' ∧
      a'.2 = a.2 ++ [.cb (.unsolTimeout resp.ctrl.seq true), .tx a.1.cfg.master (respHeader resp ++ rest)] ∧
      a'.1.mode = .unsolWait resp isNull retries' (a.1.now + a.1.cfg.ctimeout) ∧
      a'.1.unsolSeq = a.1.unsolSeq := by
  obtain ⟨rest, hrest⟩ := repeatUnsolicited_out (emitCb a (.unsolTimeout resp.ctrl.seq true)) resp
  unfold Dnp3.unsolWaitTimeout
  rcases retries with _ | _ | n
  · refine ⟨({ (repeatUnsolicited (emitCb a (.unsolTimeout resp.ctrl.seq true)) resp).1 with
        mode := .unsolWait resp isNull (none) (a.1.now + a.1.cfg.ctimeout) },
        (repeatUnsolicited (emitCb a (.unsolTimeout resp.ctrl.seq true)) resp).2), rest, none, ?_, ?_, ?_, ?_⟩
    · simp only [hd, Option.isSome_none, Bool.false_eq_true, if_false, Bool.not_true]
      rfl
    · show (repeatUnsolicited (emitCb a (.unsolTimeout resp.ctrl.seq true)) resp).2 = _
      rw [hrest]; simp [Dnp3.emitCb, emit]
    · rfl
    · rfl
  · exact absurd rfl hr
  · refine ⟨({ (repeatUnsolicited (emitCb a (.unsolTimeout resp.ctrl.seq true)) resp).1 with
        mode := .unsolWait resp isNull (some n) (a.1.now + a.1.cfg.ctimeout) },
        (repeatUnsolicited (emitCb a (.unsolTimeout resp.ctrl.seq true)) resp).2), rest, some n, ?_, ?_, ?_, ?_⟩
    · simp only [hd, Option.isSome_none, Bool.false_eq_true, if_false, Bool.not_true]
      rfl
    · show (repeatUnsolicited (emitCb a (.unsolTimeout resp.ctrl.seq true)) resp).2 = _
      rw [hrest]; simp [Dnp3.emitCb, emit]
    · rfl
    · rfl

/-! ## C12 target 6: control echoes that do not fit — D1 repaired, known finding D13 -/

/-- the control run an OPERATE performs: `respond_with_status` when the select check fails,
    otherwise `operate_with_response` -/
def operateRun (a : Acc) (seq frameId : Nat) (hs : List ObjHdr) (raw : List Nat) : CtlRun :=
  match (match a.1.select with
      | none => some 2
      | some sel => matchOperate sel a.1.cfg.stimeout a.1.now seq frameId raw) with
  | some st => ctlAll none st none hs { acc := a, cap := a.1.cfg.sol - 4 }
  | none => ctlAll (some .sbo) 0 a.1.cfg.maxctl hs { acc := a, cap := a.1.cfg.sol - 4 }

/-- the control functions always return (no `unwrap` on a `WriteError` is left: D1 repaired) -/
theorem handleControls_total (a : Acc) (func seq frameId : Nat) (hs : List ObjHdr) (raw : List Nat) :
    ∃ a' ro, handleControls a func seq frameId hs raw = some (a', ro) := by
  unfold handleControls
  split
  · exact ⟨_, _, rfl⟩
  · dsimp only
    split
    · exact ⟨_, _, rfl⟩
    · split
      · split <;> exact ⟨_, _, rfl⟩
      · split <;> exact ⟨_, _, rfl⟩

/-- **D1 repaired** (was `operate_echo_overflow_panics`: `handleControls a 4 … = none ↔ overflow`): an OPERATE
    whose headers are all control headers and whose echo does not fit the solicited transmit buffer is answered
    like a SELECT / DIRECT_OPERATE in the same situation (`select_echo_overflow_clean`, D13): the truncated echo
    (`size = 4 + out.length`), the request's sequence number and a clean IIN2; the select state is the one the
    control run left (the session does not touch it) -/
theorem operate_echo_overflow_clean (a : Acc) (seq frameId : Nat) (hs : List ObjHdr) (raw : List Nat)
    (hall : hs.all isControlHdr = true)
    (hov : (operateRun a seq frameId hs raw).overflow = true) :
    ∃ a' r, handleControls a 4 seq frameId hs raw = some (a', some r) ∧ r.iin2 = 0 ∧ r.ctrl.seq = seq ∧
      r.size = 4 + (operateRun a seq frameId hs raw).out.length ∧
      a'.1.select = (ctlFinish (operateRun a seq frameId hs raw)).acc.1.select := by
  unfold handleControls
  unfold operateRun at hov ⊢
  simp only [hall, Bool.not_true, Bool.false_eq_true, if_false, show (4 : Nat) ≠ 3 by decide, if_true]
  cases hsel : a.1.select with
  | none =>
    simp only [hsel] at hov
    simp only [hov, Bool.not_true, Bool.false_eq_true, false_and, if_false, ctlFinish_out]
    exact ⟨_, _, rfl, rfl, rfl, rfl, rfl⟩
  | some sel =>
    simp only [hsel] at hov
    cases hm : matchOperate sel a.1.cfg.stimeout a.1.now seq frameId raw with
    | some st =>
      simp only [hm] at hov
      simp only [hm, hov, Bool.not_true, Bool.false_eq_true, false_and, if_false, ctlFinish_out]
      exact ⟨_, _, rfl, rfl, rfl, rfl, rfl⟩
    | none =>
      simp only [hm] at hov
      simp only [hm, hov, Bool.not_true, Bool.false_eq_true, false_and, if_false, ctlFinish_out]
      exact ⟨_, _, rfl, rfl, rfl, rfl, rfl⟩

/-- **D13**: SELECT and DIRECT_OPERATE whose echo does not fit do not fail: they answer with the
    truncated echo (`size = 4 + out.length`) and a clean IIN2 from the handler (0), even when a
    status was PARAMETER-worthy; SELECT does not arm the select state -/
theorem select_echo_overflow_clean (a : Acc) (func seq frameId : Nat) (hs : List ObjHdr) (raw : List Nat)
    (hf : func = 3 ∨ func = 5) (hall : hs.all isControlHdr = true)
    (hov : (ctlAll (some (if func = 3 then CtlKind.select else CtlKind.dop)) 0 a.1.cfg.maxctl hs
              { acc := a, cap := a.1.cfg.sol - 4 }).overflow = true) :
    ∃ a' r, handleControls a func seq frameId hs raw = some (a', some r) ∧ r.iin2 = 0 ∧ r.ctrl.seq = seq ∧
      r.size = 4 + (ctlAll (some (if func = 3 then CtlKind.select else CtlKind.dop)) 0 a.1.cfg.maxctl hs
              { acc := a, cap := a.1.cfg.sol - 4 }).out.length ∧
      (func = 3 → a'.1.select = (ctlFinish (ctlAll (some CtlKind.select) 0 a.1.cfg.maxctl hs
              { acc := a, cap := a.1.cfg.sol - 4 })).acc.1.select) := by
  unfold handleControls
  rcases hf with rfl | rfl
  · simp only [if_true] at hov
    simp only [hall, Bool.not_true, Bool.false_eq_true, if_false, if_true, ctlFinish_overflow, hov,
      Bool.not_true, false_and, ctlFinish_out]
    exact ⟨_, _, rfl, rfl, rfl, rfl, fun _ => rfl⟩
  · simp only [show (5 : Nat) ≠ 3 by decide, if_false] at hov
    simp only [hall, Bool.not_true, Bool.false_eq_true, if_false, show (5 : Nat) ≠ 3 by decide,
      show (5 : Nat) ≠ 4 by decide, if_true, hov, false_and, ctlFinish_out]
    exact ⟨_, _, rfl, rfl, rfl, rfl, fun h => absurd h (by decide)⟩

/-- 62 analog output commands g41v2 (qualifier 0x17, indices 0…61, value 0, status 0) -/
def d1Header : ObjHdr := ⟨41, 2, 0x17, 62, 0, (List.range 62).flatMap fun i => [i, 0, 0, 0]⟩

/-- regression instance (the former D1 counterexample): with the minimum transmit buffer (249 octets) an OPERATE carrying 62
    g41v2 commands (echo 4 + 62·4 = 252 > 245 octets), here without a SELECT, used to panic the task; it is
    answered with the NO_SELECT echo of 60 of the 62 objects (4 + 4 + 60·4 = 248 octets) and IIN2 = 0.
    Evaluated; involves no database function. -/
theorem operate_echo_truncated_d1 :
    (handleControls (OState.init { sol := 249 } 0, []) 4 1 0 [d1Header] []).map
        (fun p => p.2.map (fun r => (r.iin2, r.size))) = some (some (0, 248)) := by
  decide +kernel

/-- **D13 counterexample**: the same request as DIRECT_OPERATE is answered with a truncated echo of
    60 of the 62 objects (4 + 4 + 60·4 = 248 octets; the 61st does not fit 249) and IIN2 = 0 -/
theorem direct_operate_echo_truncated_d1 :
    (handleControls (OState.init { sol := 249 } 0, []) 5 1 0 [d1Header] []).map
        (fun p => p.2.map (fun r => (r.iin2, r.size))) = some (some (0, 248)) := by
  decide +kernel

/-! ## C12 target 2, continued: continuation fragments of a multi-fragment READ response -/

theorem formatReadResponse_fields (s : OState) (fir : Bool) (seq iin2 : Nat) :
    (formatReadResponse s fir seq iin2).2.1.ctrl.seq = seq ∧ (formatReadResponse s fir seq iin2).2.1.ctrl.fir = fir ∧
    (formatReadResponse s fir seq iin2).2.1.func = 0x81 ∧ (formatReadResponse s fir seq iin2).2.1.ctrl.uns = false ∧
    (formatReadResponse s fir seq iin2).2.1.iin2 = iin2 :=
  ⟨rfl, rfl, rfl, rfl, rfl⟩

theorem popRequest_eq_request {s : OState} {f : Frag} {ctrl : AppCtrl} {func : Nat}
    {objects : Except Nat (List ObjHdr)} {raw : List Nat} (hp : s.pending = some f)
    (hreq : parseRequest f.data = .request ctrl func objects raw)
    (hm : s.cfg.anymaster = true ∨ f.src = s.cfg.master) :
    popRequest s = (s, .request f ctrl func objects raw) := by
  unfold popRequest
  simp only [hp, hreq]
  have : ¬ ((!s.cfg.anymaster) = true ∧ f.src ≠ s.cfg.master) := by
    rintro ⟨h1, h2⟩
    rcases hm with h | h
    · simp [h] at h1
    · exact h2 h
  rw [if_neg this]

/-- the next fragment of a solicited series, as `sol_confirm_wait` writes it after a matching CONFIRM -/
def solContinuation (a : Acc) (f : Frag) (series : Series) (cont : SolCont) : StepRes :=
  let a1 := clearWrittenEvents
    ({ onLinkActivity a.1 with pending := none, lastBroadcast := none }, a.2 ++ [.cb (.solConfirmed series.ecsn)])
  let fr := formatReadResponse a1.1 false (seq4Next series.ecsn) 0
  match writeSolicited (fr.1, a1.2) f.src fr.2.1 with
  | none => die a1
  | some (a2, r2) =>
    -- the fragment just sent becomes the stored response of the READ (D5 repaired)
    let a2 : Acc := ({ a2.1 with lastReq := a2.1.lastReq.map (fun lr => { lr with response := some r2 }) }, a2.2)
    match fr.2.2 with
    | none => resumeAfterSol a2 cont
    | some sr => .blocked ({ a2.1 with mode := .solWait sr (a2.1.now + a2.1.cfg.ctimeout) cont }, a2.2)

/-- CONFIRM in a solicited confirm wait: it is never answered itself; with the expected sequence
    number on a non-final fragment it lets the series continue with `solContinuation` -/
theorem solWait_confirm_continues (a : Acc) (series : Series) (dl : Nat) (cont : SolCont) (f : Frag) (ctrl : AppCtrl)
    (objects : Except Nat (List ObjHdr)) (raw : List Nat)
    (hp : a.1.pending = some f) (hreq : parseRequest f.data = .request ctrl 0 objects raw)
    (hm : a.1.cfg.anymaster = true ∨ f.src = a.1.cfg.master) (hu : ctrl.uns = false)
    (hs : ctrl.seq = series.ecsn) (hfin : series.fin = false) :
    solWaitOnFragment a series dl cont = solContinuation a f series cont := by
  unfold solWaitOnFragment solContinuation
  rw [popRequest_eq_request hp hreq hm]
  have hc : classify (onLinkActivity a.1) f ctrl 0 objects = .solConfirm ctrl.seq := by
    unfold classify; simp [hu]
  simp only [hc, hs, hfin, ne_eq, not_true_eq_false, if_false, Bool.false_eq_true, emitCb, emit]
  rfl

/-- what `write_solicited` does to the output and to the solicited buffer: one transmission, the header of the
    returned record written over the buffer, `max 4 size` octets of it sent -/
theorem writeSolicited_tx {a a' : Acc} {dst : Nat} {r r' : Resp} (hw : writeSolicited a dst r = some (a', r')) :
    a'.2 = a.2 ++ [.tx dst (a'.1.solBuf.take (max 4 r'.size))] ∧
    a'.1.solBuf = writeAt a.1.solBuf 0 (respHeader r') := by
  unfold Dnp3.writeSolicited at hw
  split at hw
  · simp at hw
  · rename_i s i1 i2 hg
    simp only [Option.some.injEq, Prod.mk.injEq] at hw
    obtain ⟨rfl, rfl⟩ := hw
    refine ⟨rfl, ?_⟩
    rcases getResponseIin_state hg with rfl | rfl <;> rfl

/-- D5 repaired: after a continuation fragment is sent, the stored response of the last request IS that
    fragment's response record (so a repeated READ echoes the fragment that awaits the confirm).
    `a1`, `fr` are the intermediate values of `solContinuation`; `(a2, r2)` is what `write_solicited` returned -/
theorem solContinuation_stores {a : Acc} {f : Frag} {series : Series} {cont : SolCont} {a1 a2 : Acc}
    {fr : OState × Resp × Option Series} {r2 : Resp}
    (ha1 : a1 = clearWrittenEvents
      ({ onLinkActivity a.1 with pending := none, lastBroadcast := none }, a.2 ++ [.cb (.solConfirmed series.ecsn)]))
    (hfr : fr = formatReadResponse a1.1 false (seq4Next series.ecsn) 0)
    (hw : writeSolicited (fr.1, a1.2) f.src fr.2.1 = some (a2, r2)) :
    -- exactly the continuation fragment goes out: the header of `r2` over the solicited buffer …
    a2.2 = a1.2 ++ [.tx f.src (a2.1.solBuf.take (max 4 r2.size))] ∧
    a2.1.solBuf = writeAt fr.1.solBuf 0 (respHeader r2) ∧
    -- … `lastReq` is still the request the series answers …
    a2.1.lastReq = a.1.lastReq ∧
    -- … and the session goes on with `r2` stored as its response
    solContinuation a f series cont =
      (let a3 : Acc := ({ a2.1 with lastReq := a.1.lastReq.map (fun lr => { lr with response := some r2 }) }, a2.2)
       match fr.2.2 with
       | none => resumeAfterSol a3 cont
       | some sr => .blocked ({ a3.1 with mode := .solWait sr (a3.1.now + a3.1.cfg.ctimeout) cont }, a3.2)) ∧
    -- in particular, when more fragments follow, the wait for the next CONFIRM is entered in that state
    ∀ sr, fr.2.2 = some sr → ∃ a', solContinuation a f series cont = .blocked a' ∧
      a'.1.mode = .solWait sr (a2.1.now + a2.1.cfg.ctimeout) cont ∧
      a'.1.lastReq = a.1.lastReq.map (fun lr => { lr with response := some r2 }) ∧
      a'.1.solBuf = a2.1.solBuf ∧ a'.2 = a2.2 := by
  subst ha1; subst hfr
  have hl : a2.1.lastReq = a.1.lastReq := by
    rw [(writeSolicited_mode hw).2]
    show (formatReadResponse _ false (seq4Next series.ecsn) 0).1.lastReq = _
    rw [(formatReadResponse_mode _ _ _ _).2, (clearWrittenEvents_mode _).2]
    rfl
  have hc : solContinuation a f series cont =
      (let a3 : Acc := ({ a2.1 with lastReq := a.1.lastReq.map (fun lr => { lr with response := some r2 }) }, a2.2)
       match (formatReadResponse (clearWrittenEvents
          ({ onLinkActivity a.1 with pending := none, lastBroadcast := none },
            a.2 ++ [.cb (.solConfirmed series.ecsn)])).1 false (seq4Next series.ecsn) 0).2.2 with
       | none => resumeAfterSol a3 cont
       | some sr => .blocked ({ a3.1 with mode := .solWait sr (a3.1.now + a3.1.cfg.ctimeout) cont }, a3.2)) := by
    unfold solContinuation
    dsimp only
    rw [hw]
    dsimp only
    rw [hl]
  refine ⟨(writeSolicited_tx hw).1, (writeSolicited_tx hw).2, hl, hc, fun sr hsr => ?_⟩
  rw [hc]
  dsimp only
  rw [hsr]
  exact ⟨_, rfl, rfl, rfl, rfl, rfl⟩

/-- re-writing the header a buffer already starts with changes nothing: the echo `repeat_solicited` sends for
    the record stored by `solContinuation_stores` is, octet for octet, the continuation fragment -/
theorem repeatSolicited_verbatim (a : Acc) (dst : Nat) (r : Resp) {buf0 : List Nat}
    (hb : a.1.solBuf = writeAt buf0 0 (respHeader r)) :
    (repeatSolicited a dst r).2 = a.2 ++ [.tx dst (a.1.solBuf.take (max 4 r.size))] ∧
    (repeatSolicited a dst r).1.solBuf = a.1.solBuf := by
  have : writeAt a.1.solBuf 0 (respHeader r) = a.1.solBuf := by
    rw [hb]; simp [writeAt]
  unfold Dnp3.repeatSolicited
  simp only [emit, this, and_self]

/-- a CONFIRM with another sequence number, or an unsolicited CONFIRM, is dropped with a callback
    and nothing is transmitted -/
theorem solWait_confirm_wrong_seq (a : Acc) (series : Series) (dl : Nat) (cont : SolCont) (f : Frag) (ctrl : AppCtrl)
    (objects : Except Nat (List ObjHdr)) (raw : List Nat)
    (hp : a.1.pending = some f) (hreq : parseRequest f.data = .request ctrl 0 objects raw)
    (hm : a.1.cfg.anymaster = true ∨ f.src = a.1.cfg.master) (hs : ctrl.uns = true ∨ ctrl.seq ≠ series.ecsn) :
    ∃ c, solWaitOnFragment a series dl cont =
      .blocked ({ onLinkActivity a.1 with pending := none }, a.2 ++ [.cb c]) := by
  unfold solWaitOnFragment
  rw [popRequest_eq_request hp hreq hm]
  by_cases hu : ctrl.uns = true
  · have hc : classify (onLinkActivity a.1) f ctrl 0 objects = .unsolConfirm ctrl.seq := by
      unfold classify; simp [hu]
    simp only [hc, emitCb, emit]
    exact ⟨_, rfl⟩
  · have hc : classify (onLinkActivity a.1) f ctrl 0 objects = .solConfirm ctrl.seq := by
      unfold classify; simp [hu]
    have hne : ctrl.seq ≠ series.ecsn := by
      rcases hs with h | h
      · exact absurd h hu
      · exact h
    simp only [hc, hne, ne_eq, not_false_eq_true, if_true, emitCb, emit]
    exact ⟨_, rfl⟩

/-- **continuation fragments are correlated**: the fragment `solContinuation` transmits carries
    `seq4Next` of the confirmed sequence number, FIR clear, UNS clear, function 0x81, to the confirmer -/
theorem continuation_correlated {s : OState} {out : List OOut} {ecsn dst : Nat} {a2 : Acc} {r2 : Resp}
    (hw : writeSolicited ((formatReadResponse s false (seq4Next ecsn) 0).1, out) dst
            (formatReadResponse s false (seq4Next ecsn) 0).2.1 = some (a2, r2)) :
    SentOne out a2.2 dst r2 ∧ r2.func = 0x81 ∧ r2.ctrl.seq = seq4Next ecsn ∧ r2.ctrl.fir = false ∧
      r2.ctrl.uns = false := by
  obtain ⟨s', i1, i2, _, hs, h1, _, _, _, h5, h6, _, h8, _⟩ := writeSolicited_out hw
  obtain ⟨f1, f2, f3, f4, _⟩ := formatReadResponse_fields s false (seq4Next ecsn) 0
  exact ⟨hs, h1.trans f3, h5.trans f1, h6.trans f2, h8.trans f4⟩

/-- the response to any non-READ request — wherever `handle_non_read` + `write_solicited` are
    composed (idle path, unsolicited confirm wait) — is one fragment with the request's sequence
    number, FIR and FIN, UNS clear, function 0x81; the handlers themselves only emit callbacks -/
theorem nonread_response_correlated {cfg : OCfg} {a a1 a2 : Acc} (h : Good cfg a) {func seq frameId dst : Nat}
    (hseq : seq < 16) {hs : List ObjHdr} {raw : List Nat} {r r2 : Resp}
    (hn : handleNonRead a func seq frameId hs raw = some (a1, some r))
    (hw : writeSolicited a1 dst r = some (a2, r2)) :
    CbOnly a.2 a1 ∧ SentOne a1.2 a2.2 dst r2 ∧ r2.func = 0x81 ∧ r2.ctrl.seq = seq ∧ r2.ctrl.fir = true ∧
      r2.ctrl.fin = true ∧ r2.ctrl.uns = false ∧ ∀ m, HasBits r.iin2 m → HasBits r2.iin2 m := by
  obtain ⟨⟨p1, p2, _, _⟩, q2, q3, q4⟩ := (h.handleNonRead hseq hn).2 r rfl
  obtain ⟨s', i1, i2, _, hs', h1, _, h3, _, h5, h6, h7, h8, _⟩ := writeSolicited_out hw
  exact ⟨CbOnly.handleNonRead (CbOnly.refl a) hn, hs', h1.trans p1, h5.trans q2, h6.trans q3, h7.trans q4,
    h8.trans p2, fun m hm => by rw [h3]; exact hm.or_left _⟩

/-- a malformed request arriving during an unsolicited confirm wait is answered at once, and the
    answer is the error response for that request (then the wait goes on) -/
theorem unsolWait_malformed_answered (a : Acc) (resp : Resp) (isNull : Bool) (f : Frag) (ctrl : AppCtrl)
    (func e : Nat) (raw : List Nat) (hp : a.1.pending = some f)
    (hreq : parseRequest f.data = .request ctrl func (.error e) raw)
    (hm : a.1.cfg.anymaster = true ∨ f.src = a.1.cfg.master) (hf : func ≠ 0) (hb : f.broadcast = none) :
    unsolWaitOnFragment a resp isNull =
      match writeSolicited ({ onLinkActivity { a.1 with pending := none } with deferred := none }, a.2) f.src
              (emptySolicited ctrl.seq e) with
      | none => die (onLinkActivity { a.1 with pending := none }, a.2)
      | some (a', _) => .blocked a' := by
  unfold unsolWaitOnFragment
  rw [popRequest_eq_request hp hreq hm]
  simp only [classify_malformed hf hb]
  rfl

/-! ## Concrete instances of the hypotheses

Everything below this line EVALUATES the current database stub (`Db.*`); it is here to show the
hypotheses of the theorems above are satisfiable by non-trivial states, and must be re-checked
(not re-proved) when the database model lands. -/

/-- the database model satisfies the contract (`Dnp3.Proofs.Database`) -/
theorem dbContract : DbContract :=
  ⟨Dnp3.DbProofs.response_within_capacity, Dnp3.DbProofs.unsolicited_within_capacity⟩

def cfgU : OCfg := { unsolicited := true, sol := 249, unsol := 249 }
def master1 : Frag := ⟨0, 1, none, [0xC1, 1, 60, 1, 6]⟩

-- `Inv` (hypothesis of `step_preserves_inv`, `step_tx_shape`, `run_tx_shape`): the state after construction,
-- here with unsolicited responses enabled (so the state is inside a NULL-unsolicited confirm wait)
example : Inv cfgU (Outstation.start cfgU 0).1 := start_inv dbContract 0 (by decide) (by decide)
example : (Outstation.start cfgU 0).2.length = 2 := by decide +kernel
example : txFrags (Outstation.start cfgU 0).2 = [(1, [0xF0, 0x82, 0x80, 0x00])] := by decide +kernel

-- … and a state reached by a READ from the master while that wait is pending (deferred read stored)
example : Inv cfgU (Outstation.step {} (Outstation.start cfgU 0).1 (.rx 1 1024 [0xC1, 1, 60, 1, 6])).1 :=
  step_preserves_inv dbContract {} (start_inv dbContract 0 (by decide) (by decide)) _

-- `step_tx_shape` instance: class-0 READ answered from idle
example : txFrags (Outstation.step {} (Outstation.start {} 0).1 (.rx 1 1024 [0xC1, 1, 60, 1, 6])).2 =
    [(1, [0xC1, 0x81, 0x80, 0x00])] := by decide +kernel

-- `rejection_flagged_header` hypothesis
example : (getResponseIin (OState.init {} 0)).isSome = true := by decide +kernel

-- `popRequest_headerError` hypotheses (D6 repaired): function code 0x70 is unknown — a header error; from the
-- configured master (1), unicast, it is answered with IIN2.0 …
example : parseRequest [0xC1, 0x70] = .headerError 1 := by rfl
example : (OState.init {} 0).cfg.anymaster = true ∨ (⟨0, 1, none, [0xC1, 0x70]⟩ : Frag).src = (OState.init {} 0).cfg.master :=
  Or.inr rfl
example : txFrags (Outstation.step {} (Outstation.start {} 0).1 (.rx 1 1024 [0xC1, 0x70])).2 =
    [(1, [0xC1, 0x81, 0x80, 0x01])] := by decide +kernel
-- … `popRequest_foreign` hypotheses: from another master (2) it is dropped; `rejection_header_broadcast_silent`: sent
-- to the broadcast address 0xFFFF it is not answered either
example : (OState.init {} 0).cfg.anymaster = false ∧ (⟨0, 2, none, [0xC1, 0x70]⟩ : Frag).src ≠ (OState.init {} 0).cfg.master := by
  decide
example : txFrags (Outstation.step {} (Outstation.start {} 0).1 (.rx 2 1024 [0xC1, 0x70])).2 = [] := by decide +kernel
example : txFrags (Outstation.step {} (Outstation.start {} 0).1 (.rx 1 0xFFFF [0xC1, 0x70])).2 = [] := by decide +kernel

-- `idle_repeat_echo_verbatim` hypothesis (D14 repaired).  `d14State`: ASSIGN_CLASS (22, not implemented) seq 1 was
-- answered with IIN1 = 0x80, IIN2 = 0x01; then a class-1 event was recorded (IIN1.1 would now be set)
def d14State : OState :=
  (Outstation.run {} (Outstation.start {} 10).1
    [.rx 1 1024 [0xC1, 22], .add .binary 0 1, .txn [TxnItem.bin 0 true 1 5]]).1
example : (match classify d14State ⟨d14State.frameId, 1, none, [0xC1, 22]⟩ ⟨true, true, false, false, 1⟩ 22 (.ok []) with
    | .repeatNonRead (some r) => some (r.iin1, r.iin2)
    | _ => none) = some (0x80, 0x01) := by decide +kernel
-- the repeat is answered with the stored octets (IIN1 = 0x80), a new request (seq 2) with the current IIN1 = 0x82
example : txFrags (Outstation.step {} d14State (.rx 1 1024 [0xC1, 22])).2 = [(1, [0xC1, 0x81, 0x80, 0x01])] := by
  decide +kernel
example : txFrags (Outstation.step {} d14State (.rx 1 1024 [0xC2, 22])).2 = [(1, [0xC2, 0x81, 0x82, 0x01])] := by
  decide +kernel

-- `parseObjects_error` instances: unknown object, truncated header, qualifier not valid for the variation
example : parseObjects false 2 [99, 1] = .error iin2ObjUnknown := by rfl
example : parseObjects false 3 [1, 2, 0] = .error iin2ParamError := by rfl
example : parseObjects false 3 [12, 1, 6] = .error iin2NoFunc := by rfl

-- `rejection_flagged_objects`: WRITE with an unknown object from the master, idle
example : (handleRequestFromIdle (OState.init {} 0, []) ⟨0, 1, none, [0xC1, 2, 99, 1, 6]⟩
    ⟨true, true, false, false, 1⟩ 2 (.error iin2ObjUnknown) [99, 1, 6]).isSome = true := by decide +kernel
example : txFrags (Outstation.step {} (Outstation.start {} 0).1 (.rx 1 1024 [0xC1, 2, 99, 1, 6])).2 =
    [(1, [0xC1, 0x81, 0x80, 0x02])] := by decide +kernel

-- `rejection_flagged_unsupported`: ASSIGN_CLASS (22) is not implemented
example : (22 : Nat) ∉ [2, 3, 4, 5, 6, 7, 8, 9, 10, 11, 12, 13, 14, 20, 21, 23, 24] := by decide
example : txFrags (Outstation.step {} (Outstation.start {} 0).1 (.rx 1 1024 [0xC1, 22])).2 =
    [(1, [0xC1, 0x81, 0x80, 0x01])] := by decide +kernel

-- `rejection_flagged_controls`: SELECT with an analog-input header
example : [(⟨30, 1, 6, 0, 0, []⟩ : ObjHdr)].all isControlHdr = false := by decide

-- `rejection_flagged_freeze` / `rejection_flagged_enable`
example : freezeRej ⟨30, 0, 6, 0, 0, []⟩ = iin2NoFunc := by decide
example : enableRej ⟨60, 1, 6, 0, 0, []⟩ = iin2NoFunc := by decide
example : (OState.init {} 0).cfg.unsolicited = false := rfl

-- `write_rejection_flagged` hypothesis, and the former D7 witness at the step level: the rejected first
-- header's PARAMETER_ERROR is reported (IIN2 = 0x04) although the second header cleared IIN1.7
example (a : Acc) : HasBits (handleWriteHeader (handleWrite a 1 []).1 d7Hdr1).2 iin2ParamError := by
  rw [show (handleWrite a 1 []).1 = a from rfl, d7Hdr1_rejected]; exact HasBits.self _
example : txFrags (Outstation.step {} (Outstation.start {} 0).1 (.rx 1 1024 d7Fragment)).2 =
    [(1, [0xC1, 0x81, 0x00, 0x04])] := by decide +kernel

-- `silent_functions_partial`: FREEZE_AT_TIME_NR (12) from the master: nothing transmitted
example : txFrags (Outstation.step {} (Outstation.start {} 0).1 (.rx 1 1024 [0xC1, 12])).2 = [] := by decide +kernel
example : (OState.init {} 0).lastReq = none := rfl

-- `solicited_correlated_idle`: hypotheses
example : parseRequest master1.data =
    .request ⟨true, true, false, false, 1⟩ 1 (.ok [⟨60, 1, 6, 0, 0, []⟩]) [60, 1, 6] := by rfl
example : (handleRequestFromIdle ((Outstation.start {} 0).1, []) master1 ⟨true, true, false, false, 1⟩ 1
    (.ok [⟨60, 1, 6, 0, 0, []⟩]) [60, 1, 6]).isSome = true := by decide +kernel

-- `unsolicited_numbering`: construction with unsolicited enabled starts the NULL series with seq 0 …
example : (checkUnsolicited (OState.init cfgU 0, [])).map (fun x => match x with
      | .inl a' => some (a'.1.unsolSeq, txFrags a'.2)
      | .inr _ => none) = some (some (1, [(1, [0xF0, 0x82, 0x80, 0x00])])) := by decide +kernel

-- `unsolicited_retry_verbatim` hypotheses
example : (Outstation.start cfgU 0).1.deferred = none := by decide +kernel

-- `solWait_confirm_continues` hypotheses (a CONFIRM seq 3 pending while fragment 3 of a series awaits it)
example : parseRequest [0xC3, 0] = .request ⟨true, true, false, false, 3⟩ 0 (.ok []) [] := by rfl

-- `solContinuation_stores` (D5 repaired).  A READ of class 1 answered in two fragments (solicited buffer of 30
-- octets, 8 binary events); `d5State`: fragment 1 (seq 1, FIR, CON) awaits its CONFIRM
def d5State : OState :=
  (Outstation.run {} (Outstation.start { sol := 30, unsol := 30 } 100).1
    [.add .binary 0 1, .txn ((List.range 8).map fun i => TxnItem.bin 0 (i % 2 == 0) 1 i),
     .rx 1 1024 [0xC1, 1, 60, 2, 6]]).1
def d5Confirm : Frag := ⟨d5State.frameId, 1, none, [0xC1, 0]⟩
def d5A1 : Acc := clearWrittenEvents
  ({ onLinkActivity { d5State with pending := some d5Confirm } with pending := none, lastBroadcast := none },
   [.cb (.solConfirmed 1)])
def d5Fr : OState × Resp × Option Series := formatReadResponse d5A1.1 false (seq4Next 1) 0

example : (match d5State.mode with | .solWait sr _ _ => some (sr.ecsn, sr.fin) | _ => none) = some (1, false) := by
  decide +kernel
-- hypotheses `ha1`, `hfr` hold by `rfl` for `a := ({ d5State with pending := some d5Confirm }, [])`; `hw`:
example : (writeSolicited (d5Fr.1, d5A1.2) d5Confirm.src d5Fr.2.1).isSome = true := by decide +kernel
-- at the step level: the CONFIRM releases fragment 2 (seq 2, FIN, CON), and that fragment's record is stored …
example : txFrags (Outstation.step {} d5State (.rx 1 1024 [0xC1, 0])).2 =
    [(1, [0x62, 0x81, 0x80, 0x00, 2, 1, 40, 1, 0, 0, 0, 1])] := by decide +kernel
example : ((Outstation.step {} d5State (.rx 1 1024 [0xC1, 0])).1.lastReq.bind (·.response)).map
    (fun r => (r.ctrl.toNat, r.size)) = some (0x62, 12) := by decide +kernel
-- … so the READ repeated while fragment 2 awaits its CONFIRM is answered with fragment 2 again (`repeatSolicited_verbatim`)
example : txFrags (Outstation.step {} (Outstation.step {} d5State (.rx 1 1024 [0xC1, 0])).1
    (.rx 1 1024 [0xC1, 1, 60, 2, 6])).2 = [(1, [0x62, 0x81, 0x80, 0x00, 2, 1, 40, 1, 0, 0, 0, 1])] := by decide +kernel

-- `NoOpen` (hypothesis of `GoodRes.runPass`, `Good.handleRequestFromIdle`, `GoodRes.unsolWaitOnFragment`)
example : NoOpen (Outstation.start {} 0).1.mode := by
  intro sr dl c h
  have : (match (Outstation.start {} 0).1.mode with | .solWait .. => true | _ => false) = false := by decide +kernel
  rw [h] at this; cases this

-- `operate_echo_overflow_clean` hypotheses
example : [d1Header].all isControlHdr = true := by decide
example : (operateRun (OState.init { sol := 249 } 0, []) 1 0 [d1Header] []).overflow = true := by decide +kernel

-- `fits_and_parses` (evaluated instance only; the general round-trip theorem is NOT proved): the echo of a
-- DIRECT_OPERATE with two g41v2 commands (status octets 9 in the request, handler status 0) re-parses to the
-- same header with the status octets replaced
def echoHdr : ObjHdr := ⟨41, 2, 0x17, 2, 0, [5, 1, 0, 9, 7, 2, 0, 9]⟩
example : (ctlAll (some .dop) 0 none [echoHdr] { acc := (OState.init {} 0, []), cap := 2044 }).out =
    [41, 2, 0x17, 2, 5, 1, 0, 0, 7, 2, 0, 0] := by decide +kernel
example : parseObjects false 12 [41, 2, 0x17, 2, 5, 1, 0, 0, 7, 2, 0, 0] =
    .ok [⟨41, 2, 0x17, 2, 0, [5, 1, 0, 0, 7, 2, 0, 0]⟩] := by rfl

/-! ## Axioms -/

end Dnp3.Proofs.C12
