import Dnp3.Proofs.OutstationSkel
import Dnp3.Model.OutstationTrace
/-!
# C03, session level — where the session applies `Db.clearWritten` and `Db.reset`

The database is OPAQUE here (every `Db` operation is irreducible): the theorems are about which
database operations the session model (`Dnp3.Model.Outstation`) applies, and when.

(a) `clear_only_on_confirm`: every step is a chain of primitive events (`Skel.Ev`); each event either
    changes the database by non-releasing operations only (`select`, `writeResponse`,
    `writeUnsolicited`, `reset`) and emits no confirm callback, or it is one of the two confirm
    points — the fragment of this step is a solicited CONFIRM with the expected sequence number while a
    solicited series awaits it, or an unsolicited CONFIRM with the sequence number of the DATA series
    that awaits it — and then it applies exactly `clearWritten`.
(b) `step_sessClean` / `reachable_sessClean`: for every predicate `Clean` on databases that `reset`
    and `clearWritten` establish and that selection, updates, and responses that carried no event
    preserve (`CleanContract`; instance: "no record is `Written`", `noWritten_contract`), `Clean` holds
    of the database in every reachable state that is outside a response series (idle, or waiting for
    the confirm of a NULL unsolicited response).  Hence every series that ends without its confirm
    (solicited: timeout, new request; unsolicited: retries exhausted, DISABLE_UNSOLICITED, deferred
    READ; disconnect) has applied `reset` before the session is outside a series again
    (`abortSeries_resets`, `unsol_series_end_resets`, `cut_resets` are the exact sites).
-/
namespace Dnp3.Proofs.C03
open Dnp3 Dnp3.Proofs.Frame Dnp3.Proofs.Skel

-- the database interface is opaque in every proof of this file
attribute [local irreducible] Db.new Db.add Db.update Db.readSupported Db.select Db.writeResponse
  Db.writeUnsolicited Db.clearWritten Db.reset Db.unwrittenClasses Db.isOverflown

/-! ## (a) `clearWritten` only at the two confirm points -/

/-- `db` arises from `db0` by operations that release no event: READ selection, response writing, reset -/
inductive NoRelease (db0 : Db) : Db → Prop
  | refl : NoRelease db0 db0
  | select (db : Db) (h : ReadHdr) : NoRelease db0 db → NoRelease db0 (db.select h).1
  | writeResponse (db : Db) (cap : Nat) : NoRelease db0 db → NoRelease db0 (db.writeResponse cap).1
  | writeUnsolicited (db : Db) (c1 c2 c3 : Bool) (cap : Nat) :
      NoRelease db0 db → NoRelease db0 (db.writeUnsolicited c1 c2 c3 cap).1
  | reset (db : Db) : NoRelease db0 db → NoRelease db0 db.reset

/-- the accumulator is at a confirm point of the step whose fragment is `pf`: that fragment is a
    CONFIRM (function 0) and either a solicited series awaits exactly this sequence number, or a DATA
    unsolicited series does -/
def ConfirmPoint (pf : Option Frag) (a : Acc) : Prop :=
  ∃ f ctrl objs raw, ReqOf pf f ctrl 0 objs raw ∧
    ((∃ sr dl c, a.1.mode = .solWait sr dl c ∧ ctrl.uns = false ∧ ctrl.seq = sr.ecsn) ∨
     (∃ resp rt dl, a.1.mode = .unsolWait resp false rt dl ∧ ctrl.uns = true ∧ ctrl.seq = resp.ctrl.seq))

/-- only outputs other than the confirm callbacks (`begin_confirm`, `event_cleared`, `end_confirm`) are appended -/
def NoConfirmCb (a a' : Acc) : Prop := ∃ l, a'.2 = a.2 ++ l ∧ ∀ o ∈ l, OOut.kind o ≠ .confirm

/-- the database effect of one primitive event -/
def DbEffect (pf : Option Frag) (a a' : Acc) : Prop :=
  (NoRelease a.1.db a'.1.db ∧ NoConfirmCb a a') ∨
  (ConfirmPoint pf a ∧ a'.1.db = a.1.db.clearWritten.1 ∧ OOut.cb .beginConfirm ∈ a'.2)

-- TO PROVE (agent A):
-- theorem Ev.dbEffect {pf : Option Frag} {a a' : Acc} (h : Ev pf a a') : DbEffect pf a a'

/-! ## (b) outside a series the database is clean -/

/-- what the session needs of a "nothing is in flight" predicate on databases -/
structure CleanContract (Clean : Db → Prop) : Prop where
  new : ∀ evMax sel, Clean (Db.new evMax sel)
  reset : ∀ db : Db, Clean db.reset
  clear : ∀ db : Db, Clean db.clearWritten.1
  select : ∀ (db : Db) (h : ReadHdr), Clean db → Clean (db.select h).1
  update : ∀ (db : Db) (t : PtType) (idx : Nat) (v : Int) (f tm : Nat), Clean db → Clean (db.update t idx v f tm).1
  add : ∀ (db : Db) (t : PtType) (idx cls : Nat), Clean db → Clean (db.add t idx cls).1
  /-- a response that carried no event -/
  writeNoEvents : ∀ (db : Db) (cap : Nat), Clean db → (db.writeResponse cap).2.2.1 = false →
    Clean (db.writeResponse cap).1
  /-- an unsolicited attempt that found nothing to send -/
  unsolNone : ∀ (db : Db) (c1 c2 c3 : Bool) (cap : Nat), (db.writeUnsolicited c1 c2 c3 cap).2.2 = 0 →
    Clean (db.writeUnsolicited c1 c2 c3 cap).1

/-- the session is not inside a response series that carries data -/
def OutsideSeries (m : Mode) : Prop :=
  (∃ n, m = .idle n) ∨ (∃ r rt dl, m = .unsolWait r true rt dl)

def SessClean (Clean : Db → Prop) (s : OState) : Prop := OutsideSeries s.mode → Clean s.db

end Dnp3.Proofs.C03
