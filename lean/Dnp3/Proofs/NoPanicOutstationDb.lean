import Dnp3.Proofs.NoPanicOutstation
import Dnp3.Proofs.Database
/-!
# The counter-underflow cause of `outstation_step_panic_cause` is impossible (D3 repaired)

`Proofs/NoPanicOutstation.lean` treats the database as opaque and names two causes of a panic of the
session model: D1 and `CounterUnderflow s.db` (`Db.unwrittenClasses = none` on a database reachable from
`s.db` by the operations the session applies).  Here the database model is opened:

* `dbReach_iff_run`: `DbReach` is exactly the closure under the seven database operations `DbOp`
  (`add`, `update`, `select`, `write`, `unsol`, `clear`, `reset`) — the reachability of the component
  theorems (`DbProofs.run`);
* `dbReach_counters`: it preserves `CountersExact`; `no_counterUnderflow`: exact counters exclude the
  underflow; so every state whose database has exact counters — every state of every trace from
  construction (`reachable_dead_or_counters`) — panics through D1 only.
-/
namespace Dnp3.Proofs.NoPanicOutstation
open Dnp3 Dnp3.DbProofs

/-- one constructor of `DbReach` per database operation -/
theorem DbReach.step {db0 db : Db} (h : DbReach db0 db) (op : DbOp) : DbReach db0 (DbProofs.step db op) := by
  cases op with
  | add t idx cls => exact .add db t idx cls h
  | update t idx v f tm => exact .update db t idx v f tm h
  | select hd => exact .select db hd h
  | write cap => exact .writeResponse db cap h
  | unsol c1 c2 c3 cap => exact .writeUnsolicited db c1 c2 c3 cap h
  | clear => exact .clearWritten db h
  | reset => exact .reset db h

theorem DbReach.run {db0 db : Db} (h : DbReach db0 db) (ops : List DbOp) : DbReach db0 (DbProofs.run db ops) := by
  induction ops generalizing db with
  | nil => exact h
  | cons op ops ih => exact ih (h.step op)

/-- `DbReach db0` = the databases `run db0 ops`, `ops` any list of the seven database operations -/
theorem dbReach_iff_run (db0 db : Db) : DbReach db0 db ↔ ∃ ops : List DbOp, db = DbProofs.run db0 ops := by
  constructor
  · intro h
    induction h with
    | refl => exact ⟨[], rfl⟩
    | select db hd _ ih => obtain ⟨ops, rfl⟩ := ih; exact ⟨ops ++ [.select hd], by rw [run_append]; rfl⟩
    | writeResponse db cap _ ih => obtain ⟨ops, rfl⟩ := ih; exact ⟨ops ++ [.write cap], by rw [run_append]; rfl⟩
    | writeUnsolicited db c1 c2 c3 cap _ ih =>
      obtain ⟨ops, rfl⟩ := ih; exact ⟨ops ++ [.unsol c1 c2 c3 cap], by rw [run_append]; rfl⟩
    | clearWritten db _ ih => obtain ⟨ops, rfl⟩ := ih; exact ⟨ops ++ [.clear], by rw [run_append]; rfl⟩
    | reset db _ ih => obtain ⟨ops, rfl⟩ := ih; exact ⟨ops ++ [.reset], by rw [run_append]; rfl⟩
    | update db t idx v f tm _ ih =>
      obtain ⟨ops, rfl⟩ := ih; exact ⟨ops ++ [.update t idx v f tm], by rw [run_append]; rfl⟩
    | add db t idx cls _ ih => obtain ⟨ops, rfl⟩ := ih; exact ⟨ops ++ [.add t idx cls], by rw [run_append]; rfl⟩
  · rintro ⟨ops, rfl⟩
    exact DbReach.refl.run ops

/-- every operation the session applies keeps the counters exact -/
theorem dbReach_counters {db0 db : Db} (h0 : CountersExact db0) (h : DbReach db0 db) : CountersExact db := by
  obtain ⟨ops, rfl⟩ := (dbReach_iff_run db0 db).mp h
  exact counters_run db0 ops h0

/-- exact counters: `unwritten_classes` does not underflow -/
theorem unwrittenClasses_ne_none {db : Db} (h : CountersExact db) : db.unwrittenClasses ≠ none := by
  obtain ⟨b1, b2, b3, hb, _⟩ := class_bits_exact_of_counters db h
  rw [hb]; simp

/-- **`no_counterUnderflow`**: from a database with exact counters no database operation sequence
    reaches a state in which the checked subtraction of `unwritten_classes` fails -/
theorem no_counterUnderflow {db0 : Db} (h0 : CountersExact db0) : ¬ CounterUnderflow db0 := by
  rintro ⟨db, hr, hu⟩
  exact unwrittenClasses_ne_none (dbReach_counters h0 hr) hu

/-- … in particular from a fresh database, and from every database reachable from a fresh one -/
theorem no_counterUnderflow_of_fresh (evMax : Nat) (sel : Option Nat) {db : Db}
    (h : DbReach (Db.new evMax sel) db) : ¬ CounterUnderflow db :=
  no_counterUnderflow (dbReach_counters (new_counters evMax sel) h)

/-- **No panic except D1**, one step from ANY state whose database has exact counters -/
theorem outstation_step_no_panic_of_counters (env : OEnv) (s : OState) (i : OInput)
    (hdb : CountersExact s.db) (hp : OOut.panic ∈ (Outstation.step env s i).2) :
    ∃ data, ((∃ src dst, i = .rx src dst data) ∨ (∃ f, s.pending = some f ∧ f.data = data)) ∧
        OperateEchoOverflows s.cfg.sol data := by
  rcases outstation_step_panic_cause env s i hp with h | h
  · exact h
  · exact absurd h (no_counterUnderflow hdb)

/-- the invariant is kept by every step (or the task is dead, and then nothing ever runs again) -/
theorem step_dead_or_counters (env : OEnv) (s : OState) (i : OInput) (h : s.mode = .dead ∨ CountersExact s.db) :
    (Outstation.step env s i).1.mode = .dead ∨ CountersExact (Outstation.step env s i).1.db := by
  rcases h with h | h
  · exact Or.inl (step_of_dead env s i h).1
  · rcases step_dead_or_reach env s i with h' | h'
    · exact Or.inl h'
    · exact Or.inr (dbReach_counters h h')

/-- every state of every trace from construction: dead, or its database has exact counters -/
theorem reachable_dead_or_counters {cfg : OCfg} {evMax : Nat} {env : OEnv} {s : OState}
    (h : Outstation.Reachable cfg evMax env s) : s.mode = .dead ∨ CountersExact s.db := by
  induction h with
  | start =>
    rcases start_dead_or_reach cfg evMax with h | h
    · exact Or.inl h
    · exact Or.inr (dbReach_counters (new_counters evMax none) h)
  | step s i _ ih => exact step_dead_or_counters env s i ih

/-- **No panic except D1** on every trace from construction: if a step from a reachable state panics,
    the fragment being handled is an OPERATE of control headers whose echo overflows the solicited buffer -/
theorem outstation_reachable_no_panic_partial {cfg : OCfg} {evMax : Nat} {env : OEnv} {s : OState}
    (hr : Outstation.Reachable cfg evMax env s) (i : OInput)
    (hp : OOut.panic ∈ (Outstation.step env s i).2) :
    ∃ data, ((∃ src dst, i = .rx src dst data) ∨ (∃ f, s.pending = some f ∧ f.data = data)) ∧
        OperateEchoOverflows s.cfg.sol data := by
  rcases reachable_dead_or_counters hr with h | h
  · rw [(step_of_dead env s i h).2] at hp; cases hp
  · exact outstation_step_no_panic_of_counters env s i h hp

/-- no D1 fragment at hand ⇒ a step from a reachable state does not panic -/
theorem outstation_reachable_no_panic_of_fits {cfg : OCfg} {evMax : Nat} {env : OEnv} {s : OState}
    (hr : Outstation.Reachable cfg evMax env s) (i : OInput)
    (hfit : ∀ data, ((∃ src dst, i = .rx src dst data) ∨ (∃ f, s.pending = some f ∧ f.data = data)) →
      ¬ OperateEchoOverflows s.cfg.sol data) :
    OOut.panic ∉ (Outstation.step env s i).2 := by
  intro hp
  obtain ⟨data, hd, ho⟩ := outstation_reachable_no_panic_partial hr i hp
  exact hfit data hd ho

/-- the state in which the former D3 witness left the session is reachable from construction -/
theorem reachable_run {cfg : OCfg} {evMax : Nat} {env : OEnv} (is : List OInput) :
    ∀ {s : OState}, Outstation.Reachable cfg evMax env s → Outstation.Reachable cfg evMax env (Outstation.run env s is).1 := by
  induction is with
  | nil => intro s h; exact h
  | cons i is ih => intro s h; exact ih (.step s i h)

theorem d3State_reachable : Outstation.Reachable { unsolicited := true } 1 {} d3State :=
  reachable_run d3Inputs .start

end Dnp3.Proofs.NoPanicOutstation
