import Dnp3.Proofs.NoPanicOutstation
import Dnp3.Proofs.Database
/-!
# The outstation session model never panics (D1 and D3 repaired)

`Proofs/NoPanicOutstation.lean` treats the database as opaque and names the one cause of a panic the
session model has left: `CounterUnderflow s.db` (`Db.unwrittenClasses = none` on a database reachable from
`s.db` by the operations the session applies).  Here the database model is opened:

* `dbReach_iff_run`: `DbReach` is exactly the closure under the seven database operations `DbOp`
  (`add`, `update`, `select`, `write`, `unsol`, `clear`, `reset`) — the reachability of the component
  theorems (`DbProofs.run`);
* `dbReach_counters`: it preserves `CountersExact`; `no_counterUnderflow`: exact counters exclude the
  underflow; so a step from any state whose database has exact counters does not panic
  (`outstation_step_no_panic_of_counters`), every state of every trace from construction is alive with exact
  counters (`reachable_alive_counters`), and no step from such a state panics or kills the task
  (`outstation_reachable_no_panic`).
-/
namespace Dnp3.Proofs.NoPanicOutstation
open Dnp3 Dnp3.DbProofs

/-- one constructor of `DbReach` per database operation -/
theorem DbReach.step {db0 db : Db} (h : DbReach db0 db) (op : DbOp) : DbReach db0 (DbProofs.step db op) := by
  cases op with
  | add t idx cls => exact .add db t idx cls h
  | update t idx v f tm => exact .update db t idx v f tm h
  | select hd => exact .select db hd h
  | write cap => exact .writeResponse db cap h
  | unsol c1 c2 c3 cap => exact .writeUnsolicited db c1 c2 c3 cap h
  | clear => exact .clearWritten db h
  | reset => exact .reset db h

theorem DbReach.run {db0 db : Db} (h : DbReach db0 db) (ops : List DbOp) : DbReach db0 (DbProofs.run db ops) := by
  induction ops generalizing db with
  | nil => exact h
  | cons op ops ih => exact ih (h.step op)

/-- `DbReach db0` = the databases `run db0 ops`, `ops` any list of the seven database operations -/
theorem dbReach_iff_run (db0 db : Db) : DbReach db0 db ↔ ∃ ops : List DbOp, db = DbProofs.run db0 ops := by
  constructor
  · intro h
    induction h with
    | refl => exact ⟨[], rfl⟩
    | select db hd _ ih => obtain ⟨ops, rfl⟩ := ih; exact ⟨ops ++ [.select hd], by rw [run_append]; rfl⟩
    | writeResponse db cap _ ih => obtain ⟨ops, rfl⟩ := ih; exact ⟨ops ++ [.write cap], by rw [run_append]; rfl⟩
    | writeUnsolicited db c1 c2 c3 cap _ ih =>
      obtain ⟨ops, rfl⟩ := ih; exact ⟨ops ++ [.unsol c1 c2 c3 cap], by rw [run_append]; rfl⟩
    | clearWritten db _ ih => obtain ⟨ops, rfl⟩ := ih; exact ⟨ops ++ [.clear], by rw [run_append]; rfl⟩
    | reset db _ ih => obtain ⟨ops, rfl⟩ := ih; exact ⟨ops ++ [.reset], by rw [run_append]; rfl⟩
    | update db t idx v f tm _ ih =>
      obtain ⟨ops, rfl⟩ := ih; exact ⟨ops ++ [.update t idx v f tm], by rw [run_append]; rfl⟩
    | add db t idx cls _ ih => obtain ⟨ops, rfl⟩ := ih; exact ⟨ops ++ [.add t idx cls], by rw [run_append]; rfl⟩
  · rintro ⟨ops, rfl⟩
    exact DbReach.refl.run ops

/-- every operation the session applies keeps the counters exact -/
theorem dbReach_counters {db0 db : Db} (h0 : CountersExact db0) (h : DbReach db0 db) : CountersExact db := by
  obtain ⟨ops, rfl⟩ := (dbReach_iff_run db0 db).mp h
  exact counters_run db0 ops h0

/-- exact counters: `unwritten_classes` does not underflow -/
theorem unwrittenClasses_ne_none {db : Db} (h : CountersExact db) : db.unwrittenClasses ≠ none := by
  obtain ⟨b1, b2, b3, hb, _⟩ := class_bits_exact_of_counters db h
  rw [hb]; simp

/-- **`no_counterUnderflow`**: from a database with exact counters no database operation sequence
    reaches a state in which the checked subtraction of `unwritten_classes` fails -/
theorem no_counterUnderflow {db0 : Db} (h0 : CountersExact db0) : ¬ CounterUnderflow db0 := by
  rintro ⟨db, hr, hu⟩
  exact unwrittenClasses_ne_none (dbReach_counters h0 hr) hu

/-- … in particular from a fresh database, and from every database reachable from a fresh one -/
theorem no_counterUnderflow_of_fresh (evMax : Nat) (sel : Option Nat) {db : Db}
    (h : DbReach (Db.new evMax sel) db) : ¬ CounterUnderflow db :=
  no_counterUnderflow (dbReach_counters (new_counters evMax sel) h)

/-- **No panic**, one step from ANY state whose database has exact counters; a live task stays alive -/
theorem outstation_step_no_panic_of_counters (env : OEnv) (s : OState) (i : OInput)
    (hdb : CountersExact s.db) :
    OOut.panic ∉ (Outstation.step env s i).2 ∧ (s.mode ≠ .dead → (Outstation.step env s i).1.mode ≠ .dead) :=
  outstation_no_panic_of_db env s i (fun _ hr hu => no_counterUnderflow hdb ⟨_, hr, hu⟩)

/-- the start-up pass (construction until the task first blocks) does not panic and leaves the task alive,
    with a database with exact counters -/
theorem start_alive_counters (cfg : OCfg) (evMax : Nat) :
    OOut.panic ∉ (Outstation.start cfg evMax).2 ∧ (Outstation.start cfg evMax).1.mode ≠ .dead ∧
      CountersExact (Outstation.start cfg evMax).1.db := by
  have hnp : OOut.panic ∉ (Outstation.start cfg evMax).2 := fun hp =>
    no_counterUnderflow (new_counters evMax none) (start_panic_cause cfg evMax hp)
  have hal : (Outstation.start cfg evMax).1.mode ≠ .dead := fun hd => hnp (start_dead_only_by_panic cfg evMax hd)
  refine ⟨hnp, hal, ?_⟩
  rcases start_dead_or_reach cfg evMax with h | h
  · exact absurd h hal
  · exact dbReach_counters (new_counters evMax none) h

/-- the invariant is kept by every step -/
theorem step_alive_counters (env : OEnv) (s : OState) (i : OInput) (h : s.mode ≠ .dead ∧ CountersExact s.db) :
    (Outstation.step env s i).1.mode ≠ .dead ∧ CountersExact (Outstation.step env s i).1.db := by
  have hal := (outstation_step_no_panic_of_counters env s i h.2).2 h.1
  refine ⟨hal, ?_⟩
  rcases step_dead_or_reach env s i with h' | h'
  · exact absurd h' hal
  · exact dbReach_counters h.2 h'

/-- every state of every trace from construction: the task is alive and its database has exact counters -/
theorem reachable_alive_counters {cfg : OCfg} {evMax : Nat} {env : OEnv} {s : OState}
    (h : Outstation.Reachable cfg evMax env s) : s.mode ≠ .dead ∧ CountersExact s.db := by
  induction h with
  | start => exact (start_alive_counters cfg evMax).2
  | step s i _ ih => exact step_alive_counters env s i ih

/-- **No panic, unconditionally**, on every trace from construction: a step from a reachable state — any
    configuration, any event-buffer size, any history, any input — neither emits `panic` nor leaves the task dead -/
theorem outstation_reachable_no_panic {cfg : OCfg} {evMax : Nat} {env : OEnv} {s : OState}
    (hr : Outstation.Reachable cfg evMax env s) (i : OInput) :
    OOut.panic ∉ (Outstation.step env s i).2 ∧ (Outstation.step env s i).1.mode ≠ .dead := by
  obtain ⟨hal, hdb⟩ := reachable_alive_counters hr
  have := outstation_step_no_panic_of_counters env s i hdb
  exact ⟨this.1, this.2 hal⟩

/-- the state in which the former D3 witness left the session is reachable from construction -/
theorem reachable_run {cfg : OCfg} {evMax : Nat} {env : OEnv} (is : List OInput) :
    ∀ {s : OState}, Outstation.Reachable cfg evMax env s → Outstation.Reachable cfg evMax env (Outstation.run env s is).1 := by
  induction is with
  | nil => intro s h; exact h
  | cons i is ih => intro s h; exact ih (.step s i h)

theorem d3State_reachable : Outstation.Reachable { unsolicited := true } 1 {} d3State :=
  reachable_run d3Inputs .start

/-- the state in which the former D1 witness arrives (the freshly started session) is reachable -/
theorem d1State_reachable : Outstation.Reachable { sol := 249 } 10 {} d1State := .start

end Dnp3.Proofs.NoPanicOutstation
