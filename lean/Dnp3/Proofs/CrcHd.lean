import Dnp3.Model.LinkParser
import Dnp3.Proofs.CrcLinear
import Dnp3.Proofs.CrcSyndromeTable
/-!
# CRC-16/DNP detects every error of weight 1, 2 or 3 in every link-layer block

A link-layer block is `n ≤ 16` data octets followed by the two CRC octets (little endian); the header
block is `05 64` + 6 octets + CRC.  Main results:

* `crc_detects_le3`          : a body block hit by 1..3 bit errors fails the parser's CRC test.
* `header_crc_detects_le3`   : same for the 8 octets `LEN CTRL DST SRC CRC` of the header block.
* `header_parse_rejects_le3` : the 10-octet header hit by 1..3 bit errors anywhere (start octets
                               included) makes `parseSync1` return an error.
* `checkBody_rejects_le3`    : `checkBody` returns `.error .bodyCrc` on such a (single) block.

Chain: table = serial (`CrcLinear`), linearity (`crcIncS_xor`), syndrome of an error pattern is the xor
of the single-bit syndromes of its one bits (`syndrome_eq_xorSel`), the finite check
(`noSumPos3_synTable18`, `decide +kernel`).
-/
namespace Dnp3.Proofs.Crc
open Dnp3

/-! ## definitions of the statements -/

/-- number of one bits of an octet -/
def popcount8 (b : Nat) : Nat :=
  b % 2 + b / 2 % 2 + b / 4 % 2 + b / 8 % 2 + b / 16 % 2 + b / 32 % 2 + b / 64 % 2 + b / 128 % 2

/-- Hamming weight of an error pattern given as octets -/
def weight (e : List Nat) : Nat := (e.map popcount8).sum

example : popcount8 0xFF = 8 ∧ popcount8 0 = 0 ∧ popcount8 0x81 = 2 ∧ weight [0, 0x10, 0x03] = 3 := by
  decide

/-- a data block followed by its CRC, as the link layer writes it -/
def blockImage (d : List Nat) : List Nat := d ++ le16 (calcCrc d)

/-- the test `checkBody` applies to one block whose CRC register starts at `init`:
    data = all but the last two octets, CRC = last two octets, little endian -/
def blockValidFrom (init : Nat) (w : List Nat) : Prop :=
  ∃ lo hi, w.drop (w.length - 2) = [lo, hi] ∧
    rd16 lo hi = 0xFFFF ^^^ crcIncT init (w.take (w.length - 2))

/-- received body block is accepted by the parser's test (`checkBody`) -/
def blockValid (w : List Nat) : Prop :=
  ∃ lo hi, w.drop (w.length - 2) = [lo, hi] ∧ rd16 lo hi = calcCrc (w.take (w.length - 2))

/-- received header octets `LEN CTRL DSTlo DSThi SRClo SRChi CRClo CRChi` (the octets after `05 64`)
    are accepted by the test of `parseHeader` -/
def headerValid (w : List Nat) : Prop :=
  ∃ lo hi, w.drop (w.length - 2) = [lo, hi] ∧ rd16 lo hi = calcCrc0564 (w.take (w.length - 2))

theorem blockValid_iff_from (w : List Nat) : blockValid w ↔ blockValidFrom 0 w := Iff.rfl
theorem headerValid_iff_from (w : List Nat) : headerValid w ↔ blockValidFrom Gen.crcOf0564 w := Iff.rfl

/-! ## small xor facts -/

theorem xor_cancel_left {a x y : Nat} (h : a ^^^ x = a ^^^ y) : x = y := by
  have : a ^^^ (a ^^^ x) = a ^^^ (a ^^^ y) := by rw [h]
  rwa [← Nat.xor_assoc, ← Nat.xor_assoc, Nat.xor_self, Nat.zero_xor, Nat.zero_xor] at this

theorem mul256_xor (x y : Nat) : 256 * (x ^^^ y) = 256 * x ^^^ 256 * y := by
  have h : ∀ z, 256 * z = z <<< 8 := by intro z; rw [Nat.shiftLeft_eq]; omega
  rw [h, h, h, Nat.shiftLeft_xor_distrib]

theorem rd16_eq_xor {lo : Nat} (hlo : lo < 256) (hi : Nat) : rd16 lo hi = lo ^^^ 256 * hi := by
  have h := split_low_octet (rd16 lo hi)
  unfold rd16 at h ⊢
  have h1 : (lo + 256 * hi) % 256 = lo := by omega
  have h2 : (lo + 256 * hi) / 256 = hi := by omega
  rw [h1, h2] at h
  exact h

theorem rd16_xor {a b : Nat} (ha : a < 256) (hb : b < 256) (c d : Nat) :
    rd16 (a ^^^ b) (c ^^^ d) = rd16 a c ^^^ rd16 b d := by
  rw [rd16_eq_xor (Nat.xor_lt_two_pow (n := 8) ha hb), rd16_eq_xor ha, rd16_eq_xor hb, mul256_xor]
  ac_rfl

theorem rd16_le16 {c : Nat} (hc : c < 65536) : rd16 (c % 256) (c / 256 % 256) = c := by
  unfold rd16; omega

/-! ## the syndrome as a sum of octet contributions -/

theorem bs8pow_xor (m x y : Nat) : bs8pow m (x ^^^ y) = bs8pow m x ^^^ bs8pow m y := by
  induction m generalizing x y with
  | zero => rfl
  | succ m ih => simp only [bs8pow, bitStep8_xor, ih]

theorem bs8pow_zero (m : Nat) : bs8pow m 0 = 0 := by
  induction m with
  | zero => rfl
  | succ m ih => simp only [bs8pow, bitStep8_zero, ih]

theorem contrib_xor (k x y : Nat) : contrib k (x ^^^ y) = contrib k x ^^^ contrib k y := by
  cases k with
  | zero => simp only [contrib, mul256_xor]
  | succ k => simp only [contrib, bs8pow_xor]

theorem contrib_zero (k : Nat) : contrib k 0 = 0 := by
  cases k with
  | zero => rfl
  | succ k => simp only [contrib, bs8pow_zero]

/-- xor of the contributions of all octets of an error pattern -/
def contribSum : List Nat → Nat
  | [] => 0
  | b :: rest => contrib rest.length b ^^^ contribSum rest

theorem crcIncS_contribSum (r : Nat) (l : List Nat) (e0 e1 : Nat) :
    crcIncS r l ^^^ (e0 ^^^ 256 * e1) = bs8pow l.length r ^^^ contribSum (l ++ [e0, e1]) := by
  induction l generalizing r with
  | nil =>
    simp [crcIncS, bs8pow, contribSum, contrib]
  | cons b l ih =>
    have hstep : crcIncS r (b :: l) = crcIncS (bitStep8 (r ^^^ b)) l := rfl
    rw [hstep, ih]
    simp only [List.cons_append, contribSum, List.length_append, List.length_cons, List.length_nil,
      bs8pow, contrib, bitStep8_xor, bs8pow_xor]
    ac_rfl

/-- the syndrome of an error pattern `eD ++ [e0, e1]` (data part, CRC part) -/
theorem syndrome_eq_contribSum (eD : List Nat) {e0 : Nat} (h0 : e0 < 256) (e1 : Nat) :
    crcIncS 0 eD ^^^ rd16 e0 e1 = contribSum (eD ++ [e0, e1]) := by
  rw [rd16_eq_xor h0, crcIncS_contribSum, bs8pow_zero, Nat.zero_xor]

/-! ## octets as bits -/

/-- the bits of an octet, least significant first -/
def bitsOfByte (b : Nat) : List Bool :=
  [decide (b % 2 = 1), decide (b / 2 % 2 = 1), decide (b / 4 % 2 = 1), decide (b / 8 % 2 = 1),
   decide (b / 16 % 2 = 1), decide (b / 32 % 2 = 1), decide (b / 64 % 2 = 1),
   decide (b / 128 % 2 = 1)]

/-- the bits of an error pattern, first octet first, least significant bit first -/
def errBits (e : List Nat) : List Bool := e.flatMap bitsOfByte

/-- xor of the entries of `T` selected by `cs` -/
def xorSel : List Nat → List Bool → Nat
  | t :: T, c :: cs => (if c then t else 0) ^^^ xorSel T cs
  | _, _ => 0

theorem byte_as_bits : ∀ b : Fin 256, b.val =
    (if b.val % 2 = 1 then 1 else 0) ^^^ ((if b.val / 2 % 2 = 1 then 2 else 0) ^^^
    ((if b.val / 4 % 2 = 1 then 4 else 0) ^^^ ((if b.val / 8 % 2 = 1 then 8 else 0) ^^^
    ((if b.val / 16 % 2 = 1 then 16 else 0) ^^^ ((if b.val / 32 % 2 = 1 then 32 else 0) ^^^
    ((if b.val / 64 % 2 = 1 then 64 else 0) ^^^ (if b.val / 128 % 2 = 1 then 128 else 0))))))) := by
  decide +kernel

theorem contrib_as_bits (k : Nat) {b : Nat} (hb : b < 256) :
    contrib k b = xorSel (synRow k) (bitsOfByte b) := by
  have h := byte_as_bits ⟨b, hb⟩
  simp only at h
  conv => lhs; rw [h]
  simp only [contrib_xor, apply_ite (contrib k), contrib_zero, synRow, bitsOfByte, xorSel,
    decide_eq_true_eq, Nat.xor_zero]

theorem xorSel_row_append (k b : Nat) (T : List Nat) (cs : List Bool) :
    xorSel (synRow k ++ T) (bitsOfByte b ++ cs) = xorSel (synRow k) (bitsOfByte b) ^^^ xorSel T cs := by
  simp only [synRow, bitsOfByte, List.cons_append, List.nil_append, xorSel, Nat.xor_zero,
    Nat.xor_assoc]

theorem contribSum_eq_xorSel (e : List Nat) (he : ∀ b ∈ e, b < 256) :
    contribSum e = xorSel (synTable e.length) (errBits e) := by
  induction e with
  | nil => rfl
  | cons b e ih =>
    have hb : b < 256 := he b (by simp)
    simp only [contribSum, List.length_cons, synTable, errBits, List.flatMap_cons]
    rw [xorSel_row_append, ← contrib_as_bits _ hb, ih (fun x hx => he x (by simp [hx]))]
    rfl

/-- the syndrome of an error pattern is the xor of the single-bit syndromes of its one bits -/
theorem syndrome_eq_xorSel (eD : List Nat) (e0 e1 : Nat) (he : ∀ b ∈ eD ++ [e0, e1], b < 256) :
    crcIncS 0 eD ^^^ rd16 e0 e1 =
      xorSel (synTable (eD.length + 2)) (errBits (eD ++ [e0, e1])) := by
  have h0 : e0 < 256 := he e0 (by simp)
  rw [syndrome_eq_contribSum eD h0, contribSum_eq_xorSel _ he]
  simp

theorem popcount8_eq_count (b : Nat) : popcount8 b = (bitsOfByte b).count true := by
  unfold popcount8 bitsOfByte
  simp only [List.count_cons, List.count_nil, beq_iff_eq, decide_eq_true_eq]
  have h : ∀ x : Nat, x % 2 = (if x % 2 = 1 then 1 else 0) := by intro x; split <;> omega
  have := h b; have := h (b / 2); have := h (b / 4); have := h (b / 8); have := h (b / 16)
  have := h (b / 32); have := h (b / 64); have := h (b / 128)
  omega

theorem weight_eq_count (e : List Nat) : weight e = (errBits e).count true := by
  induction e with
  | nil => rfl
  | cons b e ih =>
    unfold weight errBits at *
    simp only [List.map_cons, List.sum_cons, List.flatMap_cons, List.count_append, ih,
      popcount8_eq_count]

theorem errBits_length (e : List Nat) : (errBits e).length = 8 * e.length := by
  induction e with
  | nil => rfl
  | cons b e ih =>
    unfold errBits at *
    simp only [List.flatMap_cons, List.length_append, ih, List.length_cons]
    simp [bitsOfByte]; omega

theorem synTable_length (n : Nat) : (synTable n).length = 8 * n := by
  induction n with
  | zero => rfl
  | succ n ih => simp only [synTable, List.length_append, ih]; simp [synRow]; omega

/-! ## the combinatorial lemma -/

theorem noSum_ne_zero {T : List Nat} {w target : Nat} (h : noSum T w target = true) :
    target ≠ 0 := by
  induction T generalizing w target with
  | nil => simpa [noSum] using h
  | cons t T ih =>
    cases w with
    | zero => simpa [noSum] using h
    | succ w =>
      simp only [noSum, Bool.and_eq_true] at h
      exact ih h.2

theorem xorSel_count_zero (T : List Nat) (cs : List Bool) (h : cs.count true = 0) :
    xorSel T cs = 0 := by
  induction T generalizing cs with
  | nil => cases cs <;> rfl
  | cons t T ih =>
    cases cs with
    | nil => rfl
    | cons c cs =>
      cases c with
      | true => simp at h
      | false =>
        simp only [xorSel, Bool.false_eq_true, if_false, Nat.zero_xor]
        exact ih cs (by simpa using h)

theorem noSum_sound {T : List Nat} {w target : Nat} (h : noSum T w target = true)
    (cs : List Bool) (hc : cs.count true ≤ w) : xorSel T cs ≠ target := by
  induction T generalizing w target cs with
  | nil =>
    have := noSum_ne_zero h
    cases cs <;> simp only [xorSel] <;> exact fun e => this e.symm
  | cons t T ih =>
    cases cs with
    | nil =>
      have := noSum_ne_zero h
      simp only [xorSel]; exact fun e => this e.symm
    | cons c cs =>
      cases c with
      | false =>
        simp only [xorSel, Bool.false_eq_true, if_false, Nat.zero_xor]
        have hc' : cs.count true ≤ w := by simpa using hc
        cases w with
        | zero =>
          rw [xorSel_count_zero T cs (by omega)]
          exact fun e => noSum_ne_zero h e.symm
        | succ w =>
          simp only [noSum, Bool.and_eq_true] at h
          exact ih h.2 cs hc'
      | true =>
        simp only [xorSel, if_true]
        have hc' : cs.count true + 1 ≤ w := by simpa using hc
        cases w with
        | zero => omega
        | succ w =>
          simp only [noSum, Bool.and_eq_true] at h
          have := ih h.1 cs (by omega)
          intro e
          apply this
          rw [← e, Nat.xor_comm t, Nat.xor_assoc, Nat.xor_self, Nat.xor_zero]

theorem noSumPos_sound {w : Nat} {T : List Nat} (h : noSumPos w T = true) (cs : List Bool)
    (hlen : cs.length ≤ T.length) (h1 : 1 ≤ cs.count true) (hw : cs.count true ≤ w) :
    xorSel T cs ≠ 0 := by
  induction T generalizing cs with
  | nil =>
    cases cs with
    | nil => simp at h1
    | cons _ _ => simp at hlen
  | cons t T ih =>
    cases cs with
    | nil => simp at h1
    | cons c cs =>
      simp only [noSumPos, Bool.and_eq_true] at h
      cases c with
      | false =>
        simp only [xorSel, Bool.false_eq_true, if_false, Nat.zero_xor]
        exact ih h.2 cs (by simpa using hlen) (by simpa using h1) (by simpa using hw)
      | true =>
        simp only [xorSel, if_true]
        have hw' : cs.count true + 1 ≤ w := by simpa using hw
        have := noSum_sound h.1 cs (by omega)
        intro e
        apply this
        have e2 : t ^^^ (t ^^^ xorSel T cs) = t ^^^ 0 := by rw [e]
        rwa [← Nat.xor_assoc, Nat.xor_self, Nat.zero_xor, Nat.xor_zero] at e2

theorem noSumPos_suffix (w : Nat) (A T : List Nat) (h : noSumPos w (A ++ T) = true) :
    noSumPos w T = true := by
  induction A with
  | nil => exact h
  | cons a A ih =>
    simp only [List.cons_append, noSumPos, Bool.and_eq_true] at h
    exact ih h.2

theorem synTable_suffix (n m : Nat) : ∃ A, synTable (n + m) = A ++ synTable n := by
  induction m with
  | zero => exact ⟨[], rfl⟩
  | succ m ih =>
    obtain ⟨A, hA⟩ := ih
    refine ⟨synRow (n + m) ++ A, ?_⟩
    show synRow (n + m) ++ synTable (n + m) = _
    rw [hA, List.append_assoc]

/-- the finite check, for every block length up to 18 octets -/
theorem noSumPos3_synTable {n : Nat} (hn : n ≤ 18) : noSumPos 3 (synTable n) = true := by
  obtain ⟨A, hA⟩ := synTable_suffix n (18 - n)
  have h18 : n + (18 - n) = 18 := by omega
  rw [h18] at hA
  exact noSumPos_suffix 3 A _ (hA ▸ noSumPos3_synTable18)

/-- the finite fact in readable form: selecting 1, 2 or 3 of the 144 single-bit syndromes of the
    longest block (by a Boolean mask) never xors to zero — i.e. they are non-zero, pairwise distinct,
    and no xor of two of them equals a third -/
theorem synTable18_no_dependency_le3 (cs : List Bool) (hlen : cs.length ≤ 144)
    (h1 : 1 ≤ cs.count true) (h3 : cs.count true ≤ 3) : xorSel (synTable 18) cs ≠ 0 :=
  noSumPos_sound noSumPos3_synTable18 cs (by rw [synTable_length]; omega) h1 h3

/-- an error pattern of weight 1, 2 or 3 over a block of at most 18 octets has a non-zero syndrome -/
theorem syndrome_ne_zero (eD : List Nat) (e0 e1 : Nat) (hlen : eD.length ≤ 16)
    (he : ∀ b ∈ eD ++ [e0, e1], b < 256)
    (hw : 1 ≤ weight (eD ++ [e0, e1]) ∧ weight (eD ++ [e0, e1]) ≤ 3) :
    crcIncS 0 eD ≠ rd16 e0 e1 := by
  intro heq
  have hz : crcIncS 0 eD ^^^ rd16 e0 e1 = 0 := by rw [heq, Nat.xor_self]
  rw [syndrome_eq_xorSel eD e0 e1 he] at hz
  rw [weight_eq_count] at hw
  refine noSumPos_sound (noSumPos3_synTable (n := eD.length + 2) (by omega)) _ ?_ hw.1 hw.2 hz
  rw [errBits_length, synTable_length]
  simp

example : crcIncS 0 [0x80, 0, 0] ≠ rd16 0x01 0x01 :=
  syndrome_ne_zero [0x80, 0, 0] 0x01 0x01 (by decide) (by decide) (by decide)

/-! ## validity of a corrupted block -/

theorem split_last_two {e : List Nat} {n : Nat} (he : e.length = n + 2) :
    ∃ eD e0 e1, e = eD ++ [e0, e1] ∧ eD.length = n := by
  have h1 : (e.drop n).length = 2 := by simp [he]
  match hd : e.drop n, h1 with
  | [e0, e1], _ =>
    refine ⟨e.take n, e0, e1, ?_, by simp [he]⟩
    rw [← hd, List.take_append_drop]

theorem blockValidFrom_append (init : Nat) (z : List Nat) (a b : Nat) :
    blockValidFrom init (z ++ [a, b]) ↔ rd16 a b = 0xFFFF ^^^ crcIncT init z := by
  have hl : (z ++ [a, b]).length - 2 = z.length := by simp
  unfold blockValidFrom
  rw [hl, List.drop_left, List.take_left]
  constructor
  · rintro ⟨lo, hi, h, hc⟩
    injection h with h1 h2
    injection h2 with h2 _
    subst h1 h2
    exact hc
  · intro h
    exact ⟨a, b, rfl, h⟩

theorem zipWith_xor_lt (d e : List Nat) (hd : ∀ b ∈ d, b < 256) (he : ∀ b ∈ e, b < 256) :
    ∀ b ∈ List.zipWith (· ^^^ ·) d e, b < 256 := by
  intro b hbm
  obtain ⟨i, hi1, hi2⟩ := List.getElem_of_mem hbm
  rw [List.getElem_zipWith] at hi2
  rw [← hi2]
  exact Nat.xor_lt_two_pow (n := 8) (hd _ (List.getElem_mem _)) (he _ (List.getElem_mem _))

/-- item 3: a block `d ++ CRC` (register starting at `init`) hit by the error pattern
    `eD ++ [e0, e1]` passes the CRC test iff the syndrome of the error pattern is zero, i.e. iff the
    plain register (start 0, no complement) over the data errors equals the error on the CRC octets -/
theorem valid_iff_syndrome {init : Nat} (hinit : init < 65536) (d : List Nat)
    (hb : ∀ b ∈ d, b < 256) (eD : List Nat) (hlen : eD.length = d.length) (hD : ∀ b ∈ eD, b < 256)
    {e0 : Nat} (h0 : e0 < 256) (e1 : Nat) :
    blockValidFrom init
        (List.zipWith (· ^^^ ·) (d ++ le16 (0xFFFF ^^^ crcIncT init d)) (eD ++ [e0, e1])) ↔
      crcIncS 0 eD = rd16 e0 e1 := by
  have hw2 : List.zipWith (· ^^^ ·) (d ++ le16 (0xFFFF ^^^ crcIncT init d)) (eD ++ [e0, e1]) =
      List.zipWith (· ^^^ ·) d eD ++
        [(0xFFFF ^^^ crcIncT init d) % 256 ^^^ e0, (0xFFFF ^^^ crcIncT init d) / 256 % 256 ^^^ e1] := by
    rw [List.zipWith_append hlen.symm]; rfl
  rw [hw2, blockValidFrom_append]
  -- table = serial, linearity
  rw [crcIncT_eq_serial _ _ hb, crcIncT_eq_serial _ _ (zipWith_xor_lt d eD hb hD)]
  have hc : 0xFFFF ^^^ crcIncS init d < 65536 :=
    Nat.xor_lt_two_pow (n := 16) (by decide) (crcIncS_lt d hinit hb)
  rw [rd16_xor (Nat.mod_lt _ (by decide)) h0, rd16_le16 hc]
  have hlin := crcIncS_xor init 0 d eD hlen.symm
  rw [Nat.xor_zero] at hlin
  rw [hlin, Nat.xor_assoc]
  constructor
  · intro h; exact (xor_cancel_left (xor_cancel_left h)).symm
  · intro h; rw [h]

example : blockValidFrom 0 (List.zipWith (· ^^^ ·) (blockImage [1, 2]) ([0, 0] ++ [0, 0])) :=
  (valid_iff_syndrome (init := 0) (by decide) [1, 2] (by decide) [0, 0] rfl (by decide)
    (e0 := 0) (by decide) 0).mpr (by decide)

/-- general form: register starting at `init`; an error pattern of weight 1..3 is never accepted -/
theorem detects_le3_from {init : Nat} (hinit : init < 65536) (d : List Nat) (hd : d.length ≤ 16)
    (hb : ∀ b ∈ d, b < 256) (e : List Nat) (he : e.length = d.length + 2) (heb : ∀ b ∈ e, b < 256)
    (hw : 1 ≤ weight e ∧ weight e ≤ 3) :
    ¬ blockValidFrom init
        (List.zipWith (· ^^^ ·) (d ++ le16 (0xFFFF ^^^ crcIncT init d)) e) := by
  obtain ⟨eD, e0, e1, rfl, hlen⟩ := split_last_two he
  have h0 : e0 < 256 := heb e0 (by simp)
  have hD : ∀ b ∈ eD, b < 256 := fun b hb' => heb b (by simp [hb'])
  rw [valid_iff_syndrome hinit d hb eD hlen hD h0 e1]
  exact syndrome_ne_zero eD e0 e1 (by omega) heb hw

/-! ## main theorems -/

/-- **Body blocks.**  A data block of at most 16 octets followed by its CRC, hit by an error pattern
    of weight 1, 2 or 3 (anywhere in data or CRC octets), fails the parser's CRC test. -/
theorem crc_detects_le3 (d : List Nat) (hd : d.length ≤ 16) (hb : ∀ b ∈ d, b < 256)
    (e : List Nat) (he : e.length = d.length + 2) (heb : ∀ b ∈ e, b < 256)
    (hw : 1 ≤ weight e ∧ weight e ≤ 3) :
    ¬ blockValid (List.zipWith (· ^^^ ·) (blockImage d) e) :=
  detects_le3_from (init := 0) (by decide) d hd hb e he heb hw

example : ¬ blockValid (List.zipWith (· ^^^ ·) (blockImage [0xC0, 0xC1, 0x01]) [0x01, 0, 0x80, 0, 0x04]) :=
  crc_detects_le3 _ (by decide) (by decide) _ (by decide) (by decide) (by decide)

/-- `CRC_OF_0564` is the register after the start octets (as `Props.C06.crc_of_0564`), so the header
    CRC is the CRC of the 8 octets `05 64 LEN CTRL DST SRC` -/
theorem calcCrc0564_eq (hf : List Nat) : calcCrc0564 hf = calcCrc ([0x05, 0x64] ++ hf) := by
  have h : crcIncT 0 [0x05, 0x64] = Gen.crcOf0564 := by decide +kernel
  unfold calcCrc0564 calcCrc crcIncT at *
  rw [List.foldl_append, h]

/-- **Header block**, errors within the 8 octets after the start octets.  `hf` are the six octets
    `LEN CTRL DSTlo DSThi SRClo SRChi`; the transmitted header is `05 64 ++ hf ++ CRC`. -/
theorem header_crc_detects_le3 (hf : List Nat) (hlen : hf.length = 6) (hb : ∀ b ∈ hf, b < 256)
    (e : List Nat) (he : e.length = 8) (heb : ∀ b ∈ e, b < 256)
    (hw : 1 ≤ weight e ∧ weight e ≤ 3) :
    ¬ headerValid (List.zipWith (· ^^^ ·) (hf ++ le16 (calcCrc0564 hf)) e) :=
  detects_le3_from (init := Gen.crcOf0564) (by decide) hf (by omega) hb e (by omega) heb hw

example : ¬ headerValid (List.zipWith (· ^^^ ·)
    ([5, 0xC0, 1, 0, 0, 4] ++ le16 (calcCrc0564 [5, 0xC0, 1, 0, 0, 4])) [0, 0, 3, 0, 0, 0, 0, 0x80]) :=
  header_crc_detects_le3 _ (by decide) (by decide) _ (by decide) (by decide) (by decide)

/-! ## the same results on the parser functions of `Dnp3/Model/LinkParser.lean` -/

/-- `blockValid` in index form -/
theorem blockValid_iff_getElem (w : List Nat) :
    blockValid w ↔ 2 ≤ w.length ∧
      rd16 (w[w.length - 2]!) (w[w.length - 1]!) = calcCrc (w.take (w.length - 2)) := by
  constructor
  · rintro ⟨lo, hi, h, hc⟩
    have hlen : (w.drop (w.length - 2)).length = 2 := by rw [h]; rfl
    have h2 : 2 ≤ w.length := by rw [List.length_drop] at hlen; omega
    refine ⟨h2, ?_⟩
    have hw : w = w.take (w.length - 2) ++ [lo, hi] := by rw [← h, List.take_append_drop]
    rw [← hc]
    generalize w.take (w.length - 2) = z at hw
    subst hw
    simp
  · rintro ⟨h2, hc⟩
    have hlen : (w.drop (w.length - 2)).length = 2 := by rw [List.length_drop]; omega
    match hd : w.drop (w.length - 2), hlen with
    | [lo, hi], _ =>
      refine ⟨lo, hi, hd, ?_⟩
      have hw : w = w.take (w.length - 2) ++ [lo, hi] := by rw [← hd, List.take_append_drop]
      rw [← hc]
      generalize w.take (w.length - 2) = z at hw
      subst hw
      simp

/-- `checkBody` on a single block that fails the CRC test reports `bodyCrc` -/
theorem checkBody_rejects (fuel : Nat) (blk : List Nat) (h3 : 3 ≤ blk.length)
    (h18 : blk.length ≤ 18) (hv : ¬ blockValid blk) :
    checkBody (fuel + 1) blk = .error .bodyCrc := by
  have hlen : (blk.drop (blk.length - 2)).length = 2 := by rw [List.length_drop]; omega
  match hd : blk.drop (blk.length - 2), hlen with
  | [lo, hi], _ =>
    have hne : rd16 lo hi ≠ calcCrc (blk.take (blk.length - 2)) := fun h => hv ⟨lo, hi, hd, h⟩
    match blk, h3 with
    | x :: xs, _ =>
      unfold checkBody
      simp only [List.take_of_length_le h18]
      rw [if_neg (by omega), hd]
      simp only [hne, ne_eq, not_false_eq_true, if_true]

/-- **Body blocks, on `checkBody`.**  A trailer consisting of one block of `1..16` data octets and its
    CRC, hit by 1, 2 or 3 bit errors, makes `checkBody` report a CRC error. -/
theorem checkBody_rejects_le3 (fuel : Nat) (d : List Nat) (hd1 : 1 ≤ d.length) (hd : d.length ≤ 16)
    (hb : ∀ b ∈ d, b < 256) (e : List Nat) (he : e.length = d.length + 2) (heb : ∀ b ∈ e, b < 256)
    (hw : 1 ≤ weight e ∧ weight e ≤ 3) :
    checkBody (fuel + 1) (List.zipWith (· ^^^ ·) (blockImage d) e) = .error .bodyCrc := by
  have hl : (List.zipWith (· ^^^ ·) (blockImage d) e).length = d.length + 2 := by
    simp [blockImage, le16, he]
  exact checkBody_rejects fuel _ (by omega) (by omega) (crc_detects_le3 d hd hb e he heb hw)

example : checkBody 5 (List.zipWith (· ^^^ ·) (blockImage [0xC0, 0xC1, 0x01]) [0x01, 0, 0x80, 0, 0x04])
    = .error .bodyCrc :=
  checkBody_rejects_le3 4 _ (by decide) (by decide) (by decide) _ (by decide) (by decide) (by decide)

theorem xor_eq_self_iff {a x : Nat} (h : a ^^^ x = a) : x = 0 :=
  xor_cancel_left (h.trans (Nat.xor_zero a).symm)

/-- **Header block, on the parser.**  The 10-octet link header `05 64 LEN CTRL DST SRC CRC` hit by 1, 2
    or 3 bit errors anywhere (start octets included), followed by anything, makes `parseSync1`
    (one call of `Parser::parse_impl` in the initial state) return an error. -/
theorem header_parse_rejects_le3 (hf : List Nat) (hlen : hf.length = 6) (hb : ∀ b ∈ hf, b < 256)
    (e : List Nat) (he : e.length = 10) (heb : ∀ b ∈ e, b < 256)
    (hw : 1 ≤ weight e ∧ weight e ≤ 3) (rest : List Nat) :
    ∃ err, (parseSync1 (List.zipWith (· ^^^ ·) ([0x05, 0x64] ++ hf ++ le16 (calcCrc0564 hf)) e
      ++ rest)).2.2 = .error err := by
  match hf, hlen with
  | [a0, a1, a2, a3, a4, a5], _ =>
    match e, he with
    | [x0, x1, x2, x3, x4, x5, x6, x7, x8, x9], _ =>
      have hdet := header_crc_detects_le3 [a0, a1, a2, a3, a4, a5] rfl hb
        [x2, x3, x4, x5, x6, x7, x8, x9] rfl (fun b hb' => heb b (List.mem_cons_of_mem _ (List.mem_cons_of_mem _ hb')))
      simp only [le16, List.cons_append, List.nil_append, List.zipWith_cons_cons,
        List.zipWith_nil_right, parseSync1] at hdet ⊢
      by_cases h0 : 5 ^^^ x0 = 5
      · have hx0 : x0 = 0 := xor_eq_self_iff h0
        simp only [h0, ne_eq, not_true_eq_false, if_false, parseSync2]
        by_cases h1 : 100 ^^^ x1 = 100
        · have hx1 : x1 = 0 := xor_eq_self_iff h1
          simp only [h1, ne_eq, not_true_eq_false, if_false, parseHeader]
          split
          · exact ⟨_, rfl⟩
          · split
            · exact ⟨_, rfl⟩
            · rename_i hcrc
              exfalso
              subst hx0 hx1
              have hw' : weight [0, 0, x2, x3, x4, x5, x6, x7, x8, x9] =
                  weight [x2, x3, x4, x5, x6, x7, x8, x9] := by
                simp [weight, popcount8]
              rw [hw'] at hw
              refine hdet hw ⟨_, _, rfl, ?_⟩
              simpa using hcrc
        · simp only [h1, not_false_eq_true, if_true]
          exact ⟨_, rfl⟩
      · simp only [h0, ne_eq, not_false_eq_true, if_true]
        exact ⟨_, rfl⟩

example : ∃ err, (parseSync1 (List.zipWith (· ^^^ ·)
    ([0x05, 0x64] ++ [5, 0xC0, 1, 0, 0, 4] ++ le16 (calcCrc0564 [5, 0xC0, 1, 0, 0, 4]))
    [0, 0, 0, 0, 3, 0, 0, 0, 0, 0x80] ++ [1, 2, 3])).2.2 = .error err :=
  header_parse_rejects_le3 _ (by decide) (by decide) _ (by decide) (by decide) (by decide) _

end Dnp3.Proofs.Crc
