import Dnp3.Model.MasterSession
/-! helper lemmas about the master session model -/
namespace Dnp3.Master

/-- the accumulator of a step result -/
def Step.acc : Step → Acc
  | .waiting a => a
  | .appDone a .. => a
  | .linkDone a .. => a
  | .loop a => a
  | .stop a _ => a

def Step.outs (s : Step) : List MOut := s.acc.2

/-- every application-layer CONFIRM among the outputs: (destination, control octet) -/
def confirmsOf (outs : List MOut) : List (Nat × Nat) :=
  outs.filterMap fun o => match o with
    | .tx d [c, 0] => some (d, c)
    | _ => none

end Dnp3.Master

namespace Dnp3.Proofs.Master
open Dnp3 Dnp3.Master

theorem confirmsOf_append (a b : List MOut) : confirmsOf (a ++ b) = confirmsOf a ++ confirmsOf b := by
  simp [confirmsOf, List.filterMap_append]

@[simp] theorem emit_outs (a : Acc) (o : MOut) : (emit a o).2 = a.2 ++ [o] := rfl
@[simp] theorem emit_state (a : Acc) (o : MOut) : (emit a o).1 = a.1 := rfl
@[simp] theorem modAssoc_outs (a : Acc) (addr : Nat) (f : Assoc → Assoc) : (modAssoc a addr f).2 = a.2 := rfl
@[simp] theorem setMode_outs (a : Acc) (m : Mode) : (setMode a m).2 = a.2 := rfl
@[simp] theorem notify_outs (a : Acc) (addr : Nat) : (notifyLinkActivity a addr).2 = a.2 := rfl

/-- outputs that are not transmissions do not add confirms -/
def NoTx (o : MOut) : Prop := ∀ d b, o ≠ .tx d b

theorem confirmsOf_emit_noTx (a : Acc) (o : MOut) (h : NoTx o) : confirmsOf (emit a o).2 = confirmsOf a.2 := by
  simp only [emit_outs, confirmsOf_append]
  have : confirmsOf [o] = [] := by
    cases o <;> simp_all [confirmsOf, NoTx]
  simp [this]

theorem complete_confirms (a : Acc) (uid : Nat) (o : Outcome) : confirmsOf (complete a uid o).2 = confirmsOf a.2 := by
  unfold complete
  exact confirmsOf_emit_noTx _ _ (by intro d b h; cases h)

theorem taskOnError_confirms (a : Acc) (dest : Nat) (t : Task) (e : TaskErr) :
    confirmsOf (taskOnError a dest t e).2 = confirmsOf a.2 := by
  unfold taskOnError
  split <;> try simp [complete_confirms]
  split <;> simp

theorem readComplete_confirms (a : Acc) (dest : Nat) (t : ReadTask) :
    confirmsOf (readComplete a dest t).2 = confirmsOf a.2 := by
  unfold readComplete
  split <;> simp [complete_confirms]

theorem finishRead_confirms (a : Acc) (dest : Nat) (t : ReadTask) (res : Except TaskErr Nat) :
    confirmsOf (finishRead a dest t res).2 = confirmsOf a.2 := by
  unfold finishRead
  split
  · split <;> simp [readComplete_confirms, taskOnError_confirms]
  · simp [taskOnError_confirms]

theorem deliverHeader_confirms (a : Acc) (who : Who) (h : ObjHdr) :
    confirmsOf (deliverHeader a who h).2 = confirmsOf a.2 := by
  unfold deliverHeader
  split
  · split
    · exact confirmsOf_emit_noTx _ _ (by intro d b h; cases h)
    · rfl
  · split
    · exact confirmsOf_emit_noTx _ _ (by intro d b h; cases h)
    · split
      · exact confirmsOf_emit_noTx _ _ (by intro d b h; cases h)
      · rfl

theorem foldl_deliverHeader_confirms (who : Who) (hs : List ObjHdr) (a : Acc) :
    confirmsOf (hs.foldl (fun a h => deliverHeader a who h) a).2 = confirmsOf a.2 := by
  induction hs generalizing a with
  | nil => rfl
  | cons h t ih => simp [List.foldl, ih, deliverHeader_confirms]

theorem deliver_confirms (a : Acc) (who : Who) (rt : ReadType) (r : Resp) (hs : List ObjHdr) :
    confirmsOf (deliver a who rt r hs).2 = confirmsOf a.2 := by
  unfold deliver
  rw [confirmsOf_emit_noTx _ _ (by intro d b h; cases h), foldl_deliverHeader_confirms,
    confirmsOf_emit_noTx _ _ (by intro d b h; cases h)]

theorem read_not_unsolicited (dest seq src : Nat) (isFirst ae : Bool) (r : Resp) (hu : r.unsol = false) :
    processReadResponse dest seq isFirst ae src r ≠ .unsolicited := by
  unfold processReadResponse
  simp only [hu, Bool.false_eq_true, if_false]
  repeat' split
  all_goals simp

theorem find_map_addr (l : List Assoc) (g : Assoc → Assoc) (hg : ∀ y, (g y).addr = y.addr) (dest : Nat) :
    ((l.map g).find? (·.addr = dest)).isSome = (l.find? (·.addr = dest)).isSome := by
  have h : ((fun x : Assoc => decide (x.addr = dest)) ∘ g) = (fun x => decide (x.addr = dest)) := by
    funext y
    simp [Function.comp, hg]
  rw [List.find?_map, Option.isSome_map, h]

theorem notify_getAssoc (s : MState) (src dest : Nat) :
    ((notifyLinkActivity (s, []) src).1.getAssoc dest).isSome = (s.getAssoc dest).isSome := by
  unfold notifyLinkActivity modAssoc MState.getAssoc
  exact find_map_addr s.assocs _ (by intro y; split <;> rfl) dest

theorem read_confirms (s : MState) (dest seq dl : Nat) (t : ReadTask) (isFirst : Bool)
    (src : Nat) (frag : List Nat) (r : Resp) (hm : s.mode = .waitRead dest t seq isFirst dl)
    (hp : parseResponse frag = some r) (hu : r.unsol = false) :
    confirmsOf (Step.outs (onFragment (s, []) src frag)) =
      (match processReadResponse dest seq isFirst (s.getAssoc dest).isSome src r with
       | .accept true _ => [(dest, 0xC0 + seq)]
       | _ => []) := by
  have hassoc := notify_getAssoc s src dest
  unfold onFragment
  simp only [hm, hp, hassoc]
  have hnu := read_not_unsolicited dest seq src isFirst (s.getAssoc dest).isSome r hu
  generalize hv : processReadResponse dest seq isFirst (s.getAssoc dest).isSome src r = v at hnu
  cases v with
  | unsolicited => exact absurd rfl hnu
  | ignore => simp [Step.outs, Step.acc, confirmsOf]
  | fail e b =>
    cases b <;>
      simp only [Step.outs, Step.acc, finishRead_confirms, modAssoc_outs, notify_outs, Bool.false_eq_true, if_false, if_true] <;>
      rfl
  | accept c f =>
    cases c <;> cases f <;>
      simp only [Step.outs, Bool.false_eq_true, if_false, if_true]
    · split <;> simp only [Step.acc, finishRead_confirms, deliver_confirms, modAssoc_outs, notify_outs, setMode_outs] <;>
        rfl
    · simp only [Step.acc, finishRead_confirms, deliver_confirms, modAssoc_outs, notify_outs]
      rfl
    · split <;>
        simp only [Step.acc, finishRead_confirms, deliver_confirms, modAssoc_outs, notify_outs, setMode_outs, emit_outs,
          confirmsOf_append] <;>
        rfl
    · simp only [Step.acc, finishRead_confirms, deliver_confirms, modAssoc_outs, notify_outs, emit_outs, confirmsOf_append]
      rfl

-- ===== BEGIN parsed fragments, mode frame (C15 / C16 / C17 helpers) =====

/-- what `parseResponse` puts into `objects` is the parse of `raw` -/
theorem parseResponse_objects (frag : List Nat) (r : Resp) (hp : parseResponse frag = some r) :
    r.objects = parseRespObjects r.raw.length r.raw := by
  unfold parseResponse at hp
  split at hp
  · dsimp only at hp
    repeat' split at hp
    all_goals first | (cases hp; rfl) | cases hp
  · cases hp

/-- a parsed fragment without objects has the empty (successful) object parse -/
theorem parseResponse_null_objects (frag : List Nat) (r : Resp) (hp : parseResponse frag = some r) (h : r.raw = []) :
    r.objects = some [] := by
  rw [parseResponse_objects frag r hp, h]
  rfl

theorem taskOnError_mode (a : Acc) (dest : Nat) (t : Task) (e : TaskErr) : (taskOnError a dest t e).1.mode = a.1.mode := by
  unfold taskOnError
  split <;> try rfl
  split <;> rfl

theorem foldl_taskOnError_mode (addr : Nat) (e : TaskErr) (q : List Task) (a : Acc) :
    (q.foldl (fun a t => taskOnError a addr t e) a).1.mode = a.1.mode := by
  induction q generalizing a with
  | nil => rfl
  | cons t ts ih => simp only [List.foldl]; rw [ih, taskOnError_mode]

/-- no message from a handle touches the session mode (hence no deadline) -/
theorem processMessage_mode (a : Acc) (c : Bool) (m : Msg) : (processMessage a c m).1.1.mode = a.1.mode := by
  unfold processMessage
  cases m with
  | enable on => rfl
  | addAssoc addr cfg => simp only; split <;> rfl
  | removeAssoc addr =>
    simp only
    split
    · exact foldl_taskOnError_mode _ _ _ _
    · rfl
  | queueTask addr t =>
    simp only
    split
    · exact taskOnError_mode _ _ _ _
    · split
      · exact taskOnError_mode _ _ _ _
      · split
        · rfl
        · exact taskOnError_mode _ _ _ _
  | addPoll addr period classes => simp only; split <;> rfl
  | removePoll addr id => rfl
  | demand addr id => rfl

-- ===== END parsed fragments, mode frame =====

end Dnp3.Proofs.Master

-- ===== BEGIN C19 keep-alive credit =====
namespace Dnp3.Master

/-- the keep-alive deadlines of all associations, in map order -/
def kaView (s : MState) : List (Nat × Option Nat) := s.assocs.map fun x => (x.addr, x.nextLinkStatus)

/-- `f` changes neither the address nor the keep-alive deadline of an association -/
def KeepsKa (f : Assoc → Assoc) : Prop := ∀ y, (f y).addr = y.addr ∧ (f y).nextLinkStatus = y.nextLinkStatus

end Dnp3.Master

namespace Dnp3.Proofs.Master
open Dnp3 Dnp3.Master

/-- generic frame lemma: an association update that keeps `addr` and `nextLinkStatus` keeps the view -/
theorem modAssoc_kaView (a : Acc) (addr : Nat) (f : Assoc → Assoc)
    (hf : ∀ y, (f y).addr = y.addr ∧ (f y).nextLinkStatus = y.nextLinkStatus) :
    kaView (modAssoc a addr f).1 = kaView a.1 := by
  unfold kaView modAssoc
  simp only [List.map_map]
  apply List.map_congr_left
  intro y _
  simp only [Function.comp]
  split
  · rw [(hf y).1, (hf y).2]
  · rfl

example : kaView (modAssoc (({ assocs := [{ addr := 7, cfg := {}, nextLinkStatus := some 5 }] } : MState), []) 7
    (fun y => { y with seq := 3 })).1 = [(7, some 5)] := by decide

theorem emit_kaView (a : Acc) (o : MOut) : kaView (emit a o).1 = kaView a.1 := rfl
theorem setMode_kaView (a : Acc) (m : Mode) : kaView (setMode a m).1 = kaView a.1 := rfl
theorem complete_kaView (a : Acc) (uid : Nat) (o : Outcome) : kaView (complete a uid o).1 = kaView a.1 := rfl
theorem rotate_kaView (a : Acc) (addr : Nat) : kaView (rotate a addr).1 = kaView a.1 := rfl

-- the functions handed to `modAssoc`

theorem keeps_onRestartObserved : KeepsKa Assoc.onRestartObserved := by
  intro y; unfold Assoc.onRestartObserved; split <;> exact ⟨rfl, rfl⟩

theorem keeps_onNeedTime : KeepsKa Assoc.onNeedTime := fun _ => ⟨rfl, rfl⟩

theorem keeps_onOverflow : KeepsKa Assoc.onOverflow := by
  intro y; unfold Assoc.onOverflow; split <;> exact ⟨rfl, rfl⟩

theorem keeps_setEvents (ev : Nat) : KeepsKa (·.setEvents ev) := by
  intro y; simp only [Assoc.setEvents]; split <;> exact ⟨rfl, rfl⟩

theorem keeps_ite (c : Prop) [Decidable c] (f : Assoc → Assoc) (hf : KeepsKa f) : KeepsKa fun y => if c then f y else y := by
  intro y; split
  · exact hf y
  · exact ⟨rfl, rfl⟩

theorem keeps_comp (f g : Assoc → Assoc) (hf : KeepsKa f) (hg : KeepsKa g) : KeepsKa fun y => g (f y) := by
  intro y
  exact ⟨(hg (f y)).1.trans (hf y).1, (hg (f y)).2.trans (hf y).2⟩

theorem keeps_processIin (iin1 iin2 : Nat) : KeepsKa (·.processIin iin1 iin2) := by
  have h1 := keeps_ite (iin1 &&& 0x80 ≠ 0) _ keeps_onRestartObserved
  have h2 := keeps_ite (iin1 &&& 0x10 ≠ 0) _ keeps_onNeedTime
  have h3 := keeps_ite (iin2 &&& 0x08 ≠ 0) _ keeps_onOverflow
  exact keeps_comp _ _ (keeps_comp _ _ (keeps_comp _ _ h1 h2) h3) (keeps_setEvents _)

theorem keeps_failAuto (id : AutoId) (now : Nat) : KeepsKa (·.failAuto id now) := fun _ => ⟨rfl, rfl⟩
theorem keeps_doneAuto (id : AutoId) : KeepsKa (·.doneAuto id) := fun _ => ⟨rfl, rfl⟩
theorem keeps_completePoll (id now : Nat) : KeepsKa (·.completePoll id now) := fun _ => ⟨rfl, rfl⟩

theorem keeps_autoResponse (k : AutoKind) (iin1 now : Nat) : KeepsKa (·.autoResponse k iin1 now) := by
  intro y
  cases k <;> simp only [Assoc.autoResponse]
  · split <;> exact ⟨rfl, rfl⟩
  · exact ⟨rfl, rfl⟩
  · exact ⟨rfl, rfl⟩

-- one lemma per helper of the session

theorem taskOnError_kaView (a : Acc) (dest : Nat) (t : Task) (e : TaskErr) :
    kaView (taskOnError a dest t e).1 = kaView a.1 := by
  unfold taskOnError
  split
  all_goals first
    | rfl
    | exact modAssoc_kaView _ _ _ (keeps_completePoll _ _)
    | exact modAssoc_kaView _ _ _ (keeps_failAuto _ _)
    | skip
  split
  · exact modAssoc_kaView _ _ _ (keeps_autoResponse _ _ _)
  · exact modAssoc_kaView _ _ _ (keeps_failAuto _ _)

theorem tsReportError_kaView (a : Acc) (dest : Nat) (uid : Option Nat) (o : Outcome) :
    kaView (tsReportError a dest uid o).1 = kaView a.1 := by
  unfold tsReportError
  split
  · exact modAssoc_kaView _ _ _ (keeps_failAuto _ _)
  · rfl

theorem readComplete_kaView (a : Acc) (dest : Nat) (t : ReadTask) :
    kaView (readComplete a dest t).1 = kaView a.1 := by
  unfold readComplete
  split
  · exact modAssoc_kaView _ _ _ (fun _ => ⟨rfl, rfl⟩)
  · exact modAssoc_kaView _ _ _ (keeps_completePoll _ _)
  · exact modAssoc_kaView _ _ _ (keeps_doneAuto _)
  · rfl

theorem finishRead_kaView (a : Acc) (dest : Nat) (t : ReadTask) (res : Except TaskErr Nat) :
    kaView (finishRead a dest t res).1 = kaView a.1 := by
  unfold finishRead
  split
  · split
    · exact readComplete_kaView _ _ _
    · exact taskOnError_kaView _ _ _ _
  · exact taskOnError_kaView _ _ _ _

theorem deliverHeader_kaView (a : Acc) (who : Who) (h : ObjHdr) :
    kaView (deliverHeader a who h).1 = kaView a.1 := by
  unfold deliverHeader
  repeat' split
  all_goals rfl

theorem foldl_kaView {β : Type} (g : Acc → β → Acc) (hg : ∀ a x, kaView (g a x).1 = kaView a.1) (l : List β) (a : Acc) :
    kaView (l.foldl g a).1 = kaView a.1 := by
  induction l generalizing a with
  | nil => rfl
  | cons x t ih => rw [List.foldl_cons, ih, hg]

theorem deliver_kaView (a : Acc) (who : Who) (rt : ReadType) (r : Resp) (hs : List ObjHdr) :
    kaView (deliver a who rt r hs).1 = kaView a.1 := by
  unfold deliver
  simp only [emit_kaView]
  rw [foldl_kaView _ (fun a h => deliverHeader_kaView a who h)]
  rfl

theorem doUnsolicited_kaView (a : Acc) (src : Nat) (r : Resp) :
    kaView (doUnsolicited a src r).1 = kaView a.1 := by
  unfold doUnsolicited
  split
  · rfl
  · have h0 := modAssoc_kaView a src _ (keeps_processIin r.iin1 r.iin2)
    generalize modAssoc a src (fun x => x.processIin r.iin1 r.iin2) = b at h0 ⊢
    rw [← h0]
    simp only
    split
    · rfl
    · rename_i x _
      generalize handleUnsolicited x.isIntegrityComplete x.lastUnsol r = d
      have h1 : kaView (if d.valid = true then modAssoc b src fun y => { y with lastUnsol := some r.key } else b).1 = kaView b.1 := by
        split
        · exact modAssoc_kaView _ _ _ (fun _ => ⟨rfl, rfl⟩)
        · rfl
      generalize (if d.valid = true then modAssoc b src fun y => { y with lastUnsol := some r.key } else b) = c at h1 ⊢
      rw [← h1]
      repeat' split
      all_goals simp only [emit_kaView, deliver_kaView]

theorem sendRequest_kaView (a : Acc) (dest func : Nat) (objs : List Nat) :
    kaView (sendRequest a dest func objs).1.1 = kaView a.1 := by
  unfold sendRequest
  split
  · rfl
  · simp only
    split
    · exact modAssoc_kaView _ _ _ (fun _ => ⟨rfl, rfl⟩)
    · exact (emit_kaView _ _).trans (modAssoc_kaView _ _ _ (fun _ => ⟨rfl, rfl⟩))

theorem runSingle_kaView (a : Acc) (dest : Nat) (t : NonReadTask) (tt : TaskType) (fc0 : Nat) :
    kaView (runSingle a dest t tt fc0).acc.1 = kaView a.1 := by
  unfold runSingle
  have h := sendRequest_kaView a dest t.function t.objects
  generalize sendRequest a dest t.function t.objects = p at h ⊢
  obtain ⟨b, res⟩ := p
  simp only at h
  rw [← h]
  cases res with
  | error e => exact taskOnError_kaView _ _ _ _
  | ok seq =>
    simp only
    split <;> rfl

theorem handleResponse_kaView (a : Acc) (dest : Nat) (t : NonReadTask) (r : Resp) :
    kaView (handleResponse a dest t r).1.1 = kaView a.1 := by
  unfold handleResponse
  have hd := modAssoc_kaView a dest _ (keeps_doneAuto .timeSync)
  simp only
  repeat' split
  all_goals first
    | rfl
    | exact modAssoc_kaView _ _ _ (keeps_autoResponse _ _ _)
    | exact tsReportError_kaView _ _ _ _
    | exact hd

/-- what crediting `src` at time `now` does to the deadlines -/
theorem notify_kaView (s : MState) (src : Nat) :
    kaView (notifyLinkActivity (s, []) src).1 =
      s.assocs.map fun x => (x.addr, if x.addr = src then x.cfg.ka.map (s.now + ·) else x.nextLinkStatus) := by
  unfold kaView notifyLinkActivity modAssoc
  simp only [List.map_map]
  apply List.map_congr_left
  intro y _
  simp only [Function.comp]
  split <;> rfl

/-- the tail of the `.waitRead` branch after the credit -/
theorem waitRead_tail_kaView (b : Acc) (dest seq src : Nat) (t : ReadTask) (r : Resp) (v : ReadVerdict) :
    kaView (match v with
      | .unsolicited => Step.waiting (doUnsolicited b src r)
      | .ignore => Step.waiting b
      | .fail e iinDone =>
        let a := if iinDone then modAssoc b dest (·.processIin r.iin1 r.iin2) else b
        Step.appDone (finishRead a dest t (.error e)) dest t.taskType 1 (.error e)
      | .accept confirm final =>
        let a := modAssoc b dest (·.processIin r.iin1 r.iin2)
        let a := deliver a (whoOf dest t) (rtOf t) r (r.objects.getD [])
        let a := if confirm then emit a (.tx dest [0xC0 + seq, 0]) else a
        if final then Step.appDone (finishRead a dest t (.ok seq)) dest t.taskType 1 (.ok seq)
        else
          match a.1.getAssoc dest with
          | none => Step.appDone (finishRead a dest t (.error .noAssociation)) dest t.taskType 1 (.error .noAssociation)
          | some x =>
            let a := modAssoc a dest fun y => { y with seq := seq4Next y.seq }
            Step.waiting (setMode a (.waitRead dest t x.seq false (a.1.now + x.cfg.rto)))).acc.1 = kaView b.1 := by
  have hI := modAssoc_kaView b dest _ (keeps_processIin r.iin1 r.iin2)
  cases v with
  | unsolicited => exact doUnsolicited_kaView _ _ _
  | ignore => rfl
  | fail e iinDone =>
    cases iinDone <;> simp only [Step.acc]
    · exact finishRead_kaView _ _ _ _
    · exact (finishRead_kaView _ _ _ _).trans hI
  | accept confirm final =>
    simp only
    have hD := deliver_kaView (modAssoc b dest (·.processIin r.iin1 r.iin2)) (whoOf dest t) (rtOf t) r (r.objects.getD [])
    rw [hI] at hD
    generalize deliver (modAssoc b dest (·.processIin r.iin1 r.iin2)) (whoOf dest t) (rtOf t) r (r.objects.getD []) = c at hD ⊢
    have hE : kaView (if confirm = true then emit c (.tx dest [0xC0 + seq, 0]) else c).1 = kaView b.1 := by
      split
      · exact hD
      · exact hD
    generalize (if confirm = true then emit c (.tx dest [0xC0 + seq, 0]) else c) = d at hE ⊢
    rw [← hE]
    split
    · simp only [Step.acc]
      exact finishRead_kaView _ _ _ _
    · split
      · simp only [Step.acc]
        exact finishRead_kaView _ _ _ _
      · simp only [Step.acc]
        exact (setMode_kaView _ _).trans (modAssoc_kaView _ _ _ (fun _ => ⟨rfl, rfl⟩))

/-- the tail of the `.waitNonRead` branch after the credit -/
theorem waitNonRead_tail_kaView (b : Acc) (dest seq src fc0 : Nat) (t : NonReadTask) (r : Resp) (v : NonReadVerdict) :
    kaView (match v with
      | .unsolicited => Step.waiting (doUnsolicited b src r)
      | .ignore => Step.waiting b
      | .fail e => Step.appDone (taskOnError b dest (.nonRead t) e) dest t.taskType fc0 (.error e)
      | .accept =>
        let a := if r.ctrl.con then emit b (.tx dest [0xC0 + seq, 0]) else b
        match a.1.getAssoc dest with
        | none => Step.appDone (taskOnError a dest (.nonRead t) .noAssociation) dest t.taskType fc0 (.error .noAssociation)
        | some _ =>
          let a := modAssoc a dest (·.processIin r.iin1 r.iin2)
          match handleResponse a dest t r with
          | (a, .error e) => Step.appDone a dest t.taskType fc0 (.error e)
          | (a, .ok none) => Step.appDone a dest t.taskType fc0 (.ok seq)
          | (a, .ok (some next)) => runSingle a dest next t.taskType fc0).acc.1 = kaView b.1 := by
  cases v with
  | unsolicited => exact doUnsolicited_kaView _ _ _
  | ignore => rfl
  | fail e => simp only [Step.acc]; exact taskOnError_kaView _ _ _ _
  | accept =>
    simp only
    have hE : kaView (if r.ctrl.con = true then emit b (.tx dest [0xC0 + seq, 0]) else b).1 = kaView b.1 := by
      split <;> rfl
    generalize (if r.ctrl.con = true then emit b (.tx dest [0xC0 + seq, 0]) else b) = c at hE ⊢
    rw [← hE]
    split
    · simp only [Step.acc]; exact taskOnError_kaView _ _ _ _
    · have hI := modAssoc_kaView c dest _ (keeps_processIin r.iin1 r.iin2)
      generalize modAssoc c dest (fun x => x.processIin r.iin1 r.iin2) = d at hI ⊢
      rw [← hI]
      have hH := handleResponse_kaView d dest t r
      generalize handleResponse d dest t r = p at hH ⊢
      obtain ⟨e, res⟩ := p
      simp only at hH
      rw [← hH]
      split
      · rename_i heq; cases heq; rfl
      · rename_i heq; cases heq; rfl
      · rename_i heq; cases heq; exact runSingle_kaView _ _ _ _ _

/-- MAIN (step level): whatever else the fragment causes (unsolicited handling, ending or continuing a task), the
    deadlines afterwards are those of "credit the source" — in EVERY online mode -/
theorem fragment_credits_source (s : MState) (src : Nat) (frag : List Nat) (r : Resp)
    (hp : parseResponse frag = some r) (hon : match s.mode with | .offline | .exited => False | _ => True) :
    kaView (onFragment (s, []) src frag).acc.1 = kaView (notifyLinkActivity (s, []) src).1 := by
  unfold onFragment
  cases hm : s.mode with
  | offline => simp [hm] at hon
  | exited => simp [hm] at hon
  | idle w =>
    simp only [hp, Step.acc]
    split
    · exact doUnsolicited_kaView _ _ _
    · rfl
  | waitLink d uid dl =>
    simp only [hp, Step.acc]
    split
    · exact doUnsolicited_kaView _ _ _
    · rfl
  | waitRead dest t seq isFirst dl =>
    simp only [hp]
    exact waitRead_tail_kaView (notifyLinkActivity (s, []) src) dest seq src t r _
  | waitNonRead dest t seq fc0 dl =>
    simp only [hp]
    exact waitNonRead_tail_kaView (notifyLinkActivity (s, []) src) dest seq src fc0 t r _

/-- complement 1: without a session nothing is credited -/
theorem fragment_offline_no_credit (s : MState) (src : Nat) (frag : List Nat)
    (hoff : match s.mode with | .offline | .exited => True | _ => False) :
    kaView (onFragment (s, []) src frag).acc.1 = kaView s := by
  unfold onFragment
  cases hm : s.mode <;> simp [hm] at hoff <;> rfl

/-- complement 2: a fragment that does not parse as a response is not credited to anybody -/
theorem fragment_unparsed_no_credit (s : MState) (src : Nat) (frag : List Nat) (hp : parseResponse frag = none) :
    kaView (onFragment (s, []) src frag).acc.1 = kaView s := by
  unfold onFragment
  cases hm : s.mode with
  | offline => rfl
  | exited => rfl
  | idle w => simp only [hp]; rfl
  | waitLink d uid dl => simp only [hp]; rfl
  | waitRead dest t seq isFirst dl => simp only [hp, Step.acc]; exact finishRead_kaView _ _ _ _
  | waitNonRead dest t seq fc0 dl => simp only [hp, Step.acc]; exact taskOnError_kaView _ _ _ _

/-- the D25 situation: a request to 1024 is outstanding, an unsolicited response arrives from 1025 — 1025's deadline is
    re-armed (now 100 + 3000), 1024's stays -/
def kaDemo : MState :=
  { now := 100, mode := .waitNonRead 1024 (.auto .disableUnsol 7) 0 21 5100, ring := [1024, 1025],
    assocs := [{ addr := 1024, cfg := { ka := some 2000 }, nextLinkStatus := some 1500 },
               { addr := 1025, cfg := { ka := some 3000 }, nextLinkStatus := some 1700 }] }

example : parseResponse [0xF0, 130, 0, 0] = some ⟨AppCtrl.ofNat 0xF0, true, 0, 0, [], some []⟩ ∧
    (match kaDemo.mode with | .offline | .exited => False | _ => True) ∧
    kaView (onFragment (kaDemo, []) 1025 [0xF0, 130, 0, 0]).acc.1 = [(1024, some 1500), (1025, some 3100)] :=
  ⟨rfl, trivial, by decide⟩

example : (match ({} : MState).mode with | .offline | .exited => True | _ => False) := trivial

example : parseResponse [0xC0, 1, 0x3C, 0x02, 0x06] = none ∧
    kaView (onFragment (kaDemo, []) 1025 [0xC0, 1, 0x3C, 0x02, 0x06]).acc.1 = [(1024, some 1500), (1025, some 1700)] :=
  ⟨rfl, by decide⟩

/-- link status frames: the same credit rule (the model always had it right) -/
theorem linkmsg_credits_source (s : MState) (src : Nat)
    (hon : match s.mode with | .offline | .exited => False | _ => True) :
    kaView (onLinkMsg (s, []) src).acc.1 = kaView (notifyLinkActivity (s, []) src).1 := by
  unfold onLinkMsg
  cases hm : s.mode <;> simp [hm] at hon <;> rfl

example : kaView (onLinkMsg (kaDemo, []) 1025).acc.1 = [(1024, some 1500), (1025, some 3100)] := by decide

-- ------------------------------------------------------------------------------------------
-- lift to `Master.step`: the scheduler and the end of a session keep the deadlines
-- ------------------------------------------------------------------------------------------

theorem startTask_kaView (a : Acc) (dest : Nat) (t : Task) : kaView (startTask a dest t).1.1 = kaView a.1 := by
  unfold startTask
  split
  · split
    · rfl
    · exact tsReportError_kaView _ _ _ _
  · rfl

theorem priorityTask_kaView (fuel : Nat) (a : Acc) (addr : Nat) : kaView (priorityTask fuel a addr).1.1 = kaView a.1 := by
  induction fuel generalizing a with
  | zero => rfl
  | succ n ih =>
    unfold priorityTask
    cases hx : a.1.getAssoc addr with
    | none => rfl
    | some x =>
      simp only
      cases hq : x.queue with
      | nil => rfl
      | cons t rest =>
        simp only
        have hm := modAssoc_kaView a addr (fun y => { y with queue := rest }) (fun _ => ⟨rfl, rfl⟩)
        have hb := startTask_kaView (modAssoc a addr fun y => { y with queue := rest }) addr t
        rw [hm] at hb
        cases hs : startTask (modAssoc a addr fun y => { y with queue := rest }) addr t with
        | mk b ot =>
          rw [hs] at hb
          cases ot with
          | some tk' => exact hb
          | none =>
            simp only
            rw [ih b]
            exact hb

theorem assocNextTask_kaView (fuel : Nat) (a : Acc) (addr : Nat) : kaView (assocNextTask fuel a addr).1.1 = kaView a.1 := by
  induction fuel generalizing a with
  | zero => rfl
  | succ n ih =>
    unfold assocNextTask
    cases hx : a.1.getAssoc addr with
    | none => rfl
    | some x =>
      simp only
      cases hn : x.getNextTask a.1.now with
      | none => rfl
      | notBefore t' => rfl
      | now tk =>
        simp only
        have hb := startTask_kaView a addr tk
        cases hs : startTask a addr tk with
        | mk b ot =>
          rw [hs] at hb
          cases ot with
          | some tk' => exact hb
          | none =>
            simp only
            rw [ih b]
            exact hb

theorem phase1_kaView (ring : List Nat) (a : Acc) : kaView (phase1 ring a).1.1 = kaView a.1 := by
  induction ring generalizing a with
  | nil => rfl
  | cons addr rest ih =>
    unfold phase1
    cases hx : a.1.getAssoc addr with
    | none => exact ih a
    | some x =>
      simp only
      have hp := priorityTask_kaView (x.queue.length + 1) a addr
      cases hs : priorityTask (x.queue.length + 1) a addr with
      | mk b ot =>
        rw [hs] at hp
        cases ot with
        | some t => exact hp
        | none =>
          simp only
          rw [ih b]
          exact hp

theorem phase2_kaView (ring : List Nat) (e : Option Nat) (a : Acc) : kaView (phase2 ring e a).1.1 = kaView a.1 := by
  induction ring generalizing e a with
  | nil => rfl
  | cons addr rest ih =>
    unfold phase2
    have hp := assocNextTask_kaView 8 a addr
    cases hs : assocNextTask 8 a addr with
    | mk b nx =>
      rw [hs] at hp
      cases nx with
      | now t => exact hp
      | notBefore t => simp only; rw [ih]; exact hp
      | none => simp only; rw [ih]; exact hp

theorem nextTask_kaView (a : Acc) : kaView (nextTask a).1.1 = kaView a.1 := by
  unfold nextTask
  have hp := phase1_kaView a.1.ring a
  cases hs : phase1 a.1.ring a with
  | mk b ox =>
    rw [hs] at hp
    cases ox with
    | some x => exact hp
    | none => simp only; rw [phase2_kaView]; exact hp

theorem endSession_kaView (a : Acc) (why : StopWhy) : kaView (endSession a why).1 = kaView a.1 := by
  unfold endSession
  have key : ∀ (d : Acc) (addr : Nat), kaView (modAssoc d addr fun y =>
      { y with queue := [], auto := {}, integrityDone := false, lastUnsol := none }).1 = kaView d.1 :=
    fun d addr => modAssoc_kaView d addr _ (fun _ => ⟨rfl, rfl⟩)
  have hf : ∀ (l : List Assoc) (b : Acc), kaView (l.foldl (fun a x =>
      let a := x.queue.foldl (fun a t => taskOnError a x.addr t why.err) a
      modAssoc a x.addr fun y => { y with queue := [], auto := {}, integrityDone := false, lastUnsol := none }) b).1 = kaView b.1 := by
    intro l b
    apply foldl_kaView
    intro c x
    simp only
    rw [key]
    exact foldl_kaView _ (fun c t => taskOnError_kaView c x.addr t why.err) _ _
  have h := hf a.1.assocs a
  simp only at h ⊢
  cases why <;> simp only [setMode_kaView, emit_kaView] <;> exact h

theorem notifyResult_kaView (a : Acc) (dest : Nat) (tt : TaskType) (fc : Nat) (res : Except TaskErr Nat) :
    kaView (notifyResult a dest tt fc res).1 = kaView a.1 := by
  unfold notifyResult
  split <;> rfl

theorem beginTask_kaView (a : Acc) (dest : Nat) (t : Task) : kaView (beginTask a dest t).acc.1 = kaView a.1 := by
  unfold beginTask
  split
  · rfl
  · rename_i x _
    cases t with
    | linkStatus uid => rfl
    | read rt =>
      simp only
      have h := sendRequest_kaView (emit a (.taskStart dest rt.taskType 1 x.seq)) dest 1 (classHeaders rt.classes)
      generalize sendRequest (emit a (.taskStart dest rt.taskType 1 x.seq)) dest 1 (classHeaders rt.classes) = p at h ⊢
      obtain ⟨b, res⟩ := p
      rw [emit_kaView] at h
      simp only at h
      rw [← h]
      cases res with
      | error e => simp only [Step.acc]; exact finishRead_kaView _ _ _ _
      | ok seq => rfl
    | nonRead nt =>
      simp only
      exact runSingle_kaView _ _ _ _ _

/-- the main loop of `run` never moves a keep-alive deadline -/
theorem resolve_kaView (fuel : Nat) (st : Step) : kaView (resolve fuel st).1 = kaView st.acc.1 := by
  induction fuel generalizing st with
  | zero => unfold resolve; cases st <;> rfl
  | succ n ih =>
    unfold resolve
    cases st with
    | waiting a => rfl
    | stop a why => exact endSession_kaView _ _
    | appDone a dest tt fc res =>
      simp only [Step.acc]
      have hn := notifyResult_kaView a dest tt fc res
      generalize notifyResult a dest tt fc res = b at hn ⊢
      rw [← hn]
      cases res with
      | ok v => simp only; rw [ih]; rfl
      | error e =>
        simp only
        split
        · exact endSession_kaView _ _
        · rw [ih]; rfl
    | linkDone a uid res =>
      simp only [Step.acc]
      have hc : kaView (match uid with
          | some u => complete a u (match res with | none => .ok | some e => .task e)
          | none => a).1 = kaView a.1 := by
        cases uid <;> rfl
      generalize (match uid with
          | some u => complete a u (match res with | none => .ok | some e => .task e)
          | none => a) = b at hc ⊢
      rw [← hc]
      split
      · exact endSession_kaView _ _
      · rw [ih]; rfl
    | loop a =>
      simp only [Step.acc]
      have hn := nextTask_kaView a
      generalize nextTask a = p at hn ⊢
      obtain ⟨b, nx⟩ := p
      simp only at hn
      rw [← hn]
      cases nx with
      | none => rfl
      | notBefore t =>
        simp only
        split
        · rw [ih]; rfl
        · rfl
      | now x =>
        obtain ⟨dest, task⟩ := x
        simp only
        rw [ih]
        exact beginTask_kaView _ _ _

theorem onMessage_none_kaView (a : Acc) : kaView (onMessage a none).acc.1 = kaView a.1 := by
  unfold onMessage
  simp only
  split
  · simp only [Step.acc]; exact finishRead_kaView _ _ _ _
  · simp only [Step.acc]; exact taskOnError_kaView _ _ _ _
  · rfl
  · rfl
  · split <;> rfl
  · rfl

theorem checkShutdown_kaView (a : Acc) : kaView (checkShutdown a).1 = kaView a.1 := by
  unfold checkShutdown
  split
  · split
    · rfl
    · rw [resolve_kaView]; exact onMessage_none_kaView a
  · rfl

/-- STRETCH (model step level): a fragment for the master from a unicast source re-arms exactly the source's deadline,
    whatever the session goes on to do afterwards (end of task, next task, keep-alive request, shutdown) -/
theorem step_rx_credits_source (s : MState) (src dst : Nat) (frag : List Nat) (r : Resp)
    (hdst : dst = masterAddr) (hsrc : src < 0xFFF0) (hne : frag ≠ []) (hlen : frag.length ≤ 2048)
    (hp : parseResponse frag = some r) (hon : match s.mode with | .offline | .exited => False | _ => True) :
    kaView (Master.step s (.rx src dst frag)).1 = kaView (notifyLinkActivity (s, []) src).1 := by
  unfold Master.step
  have hc : ¬ (dst ≠ masterAddr ∨ src ≥ 0xFFF0 ∨ frag.isEmpty = true ∨ frag.length > 2048) := by
    intro h
    rcases h with h | h | h | h
    · exact h hdst
    · omega
    · exact hne (List.isEmpty_iff.1 h)
    · omega
  simp only [hc, if_false]
  rw [checkShutdown_kaView, resolve_kaView]
  exact fragment_credits_source s src frag r hp hon

example : kaView (Master.step kaDemo (.rx 1025 masterAddr [0xF0, 130, 0, 0])).1 = [(1024, some 1500), (1025, some 3100)] := by
  decide

end Dnp3.Proofs.Master
-- ===== END C19 keep-alive credit =====

-- ===== BEGIN C15 step-level confirms =====
namespace Dnp3.Proofs.Master
open Dnp3 Dnp3.Master

/-! ## step-level "confirm exactly when" theorems (C15)

`confirmsOf (Step.outs (onFragment (s, []) src frag))` is computed for every mode: the confirms a fragment
causes are exactly the ones the decision functions (`processReadResponse`, `validateNonRead`,
`handleUnsolicited`) prescribe. -/

/-- example state: one association (address 10, default configuration) and the given mode -/
def exMaster (integrityDone : Bool) (mode : Mode) : MState :=
  { assocs := [{ addr := 10, cfg := {}, integrityDone := integrityDone }], ring := [10], mode := mode }


theorem confirmsOf_nil : confirmsOf [] = [] := rfl

theorem confirmsOf_tx_confirm (d c : Nat) : confirmsOf [MOut.tx d [c, 0]] = [(d, c)] := rfl

theorem confirmsOf_tx_request (d seq func : Nat) (objs : List Nat) (hf : func ≠ 0) :
    confirmsOf [MOut.tx d (requestBytes seq func objs)] = [] := by
  cases func with
  | zero => exact absurd rfl hf
  | succ n => cases objs <;> simp [confirmsOf, requestBytes]

example : confirmsOf [MOut.tx 10 (requestBytes 3 21 [0x3c, 0x02, 0x06])] = [] := confirmsOf_tx_request 10 3 21 _ (by decide)

theorem function_ne_zero (t : NonReadTask) : t.function ≠ 0 := by
  unfold NonReadTask.function
  split <;> try simp
  split <;> simp

theorem sendRequest_confirms (a : Acc) (dest func : Nat) (objs : List Nat) (hf : func ≠ 0) :
    confirmsOf (sendRequest a dest func objs).1.2 = confirmsOf a.2 := by
  unfold sendRequest
  split
  · rfl
  · dsimp only
    split
    · rfl
    · simp only [emit_outs, modAssoc_outs, confirmsOf_append, confirmsOf_tx_request _ _ _ _ hf, List.append_nil]

example : confirmsOf (sendRequest (exMaster true (.idle none), []) 10 21 [0x3c, 0x02, 0x06]).1.2 = [] :=
  sendRequest_confirms _ 10 21 _ (by decide)

theorem runSingle_confirms (a : Acc) (dest : Nat) (t : NonReadTask) (tt : TaskType) (fc0 : Nat) :
    confirmsOf (Step.outs (runSingle a dest t tt fc0)) = confirmsOf a.2 := by
  have h := sendRequest_confirms a dest t.function t.objects (function_ne_zero t)
  unfold runSingle
  generalize sendRequest a dest t.function t.objects = p at h
  obtain ⟨a', res⟩ := p
  cases res with
  | error e => simpa [Step.outs, Step.acc, taskOnError_confirms] using h
  | ok seq =>
    simp only
    split <;> simpa [Step.outs, Step.acc] using h

theorem tsReportError_confirms (a : Acc) (dest : Nat) (uid : Option Nat) (o : Outcome) :
    confirmsOf (tsReportError a dest uid o).2 = confirmsOf a.2 := by
  unfold tsReportError
  split <;> simp [complete_confirms]

theorem handleResponse_confirms (a : Acc) (dest : Nat) (t : NonReadTask) (r : Resp) :
    confirmsOf (handleResponse a dest t r).1.2 = confirmsOf a.2 := by
  unfold handleResponse
  repeat' split
  all_goals simp only [complete_confirms, tsReportError_confirms, modAssoc_outs]
  all_goals repeat' split
  all_goals simp only [tsReportError_confirms]


theorem nonread_not_unsolicited (dest seq src : Nat) (r : Resp) (hu : r.unsol = false) :
    validateNonRead dest seq src r ≠ .unsolicited := by
  unfold validateNonRead
  simp only [hu, Bool.false_eq_true, if_false]
  repeat' split
  all_goals simp

example : validateNonRead 10 3 10 ⟨AppCtrl.ofNat 0xE3, false, 0, 0, [], some []⟩ ≠ .unsolicited :=
  nonread_not_unsolicited 10 3 10 _ rfl

theorem nonread_confirms (s : MState) (dest seq fc0 dl : Nat) (t : NonReadTask) (src : Nat) (frag : List Nat) (r : Resp)
    (hm : s.mode = .waitNonRead dest t seq fc0 dl) (hp : parseResponse frag = some r) (hu : r.unsol = false) :
    confirmsOf (Step.outs (onFragment (s, []) src frag)) =
      (match validateNonRead dest seq src r with
       | .accept => if r.ctrl.con then [(dest, 0xC0 + seq)] else []
       | _ => []) := by
  unfold onFragment
  simp only [hm, hp]
  have hnu := nonread_not_unsolicited dest seq src r hu
  generalize hv : validateNonRead dest seq src r = v at hnu
  cases v with
  | unsolicited => exact absurd rfl hnu
  | ignore => simp only [Step.outs, Step.acc, notify_outs, confirmsOf_nil]
  | fail e => simp only [Step.outs, Step.acc, taskOnError_confirms, notify_outs, confirmsOf_nil]
  | accept =>
    simp only
    have h1 : confirmsOf (if r.ctrl.con = true then emit (notifyLinkActivity (s, []) src) (MOut.tx dest [0xC0 + seq, 0])
        else notifyLinkActivity (s, []) src).2 = if r.ctrl.con then [(dest, 0xC0 + seq)] else [] := by
      cases r.ctrl.con
      · simp only [Bool.false_eq_true, if_false, notify_outs, confirmsOf_nil]
      · simp only [if_true, emit_outs, notify_outs, List.nil_append, confirmsOf_tx_confirm]
    generalize (if r.ctrl.con = true then emit (notifyLinkActivity (s, []) src) (MOut.tx dest [0xC0 + seq, 0])
        else notifyLinkActivity (s, []) src) = a at h1
    rw [← h1]
    split
    · simp only [Step.outs, Step.acc, taskOnError_confirms]
    · have h := handleResponse_confirms (modAssoc a dest (·.processIin r.iin1 r.iin2)) dest t r
      generalize handleResponse (modAssoc a dest (·.processIin r.iin1 r.iin2)) dest t r = p at h
      obtain ⟨a', res⟩ := p
      cases res with
      | error e => simpa [Step.outs, Step.acc] using h
      | ok o =>
        cases o with
        | none => simpa [Step.outs, Step.acc] using h
        | some next => simpa [runSingle_confirms] using h


/-- a null response (FIR FIN CON, sequence 3) to the DISABLE_UNSOLICITED request in flight is confirmed -/
example : confirmsOf (Step.outs (onFragment (exMaster true (.waitNonRead 10 (.auto .disableUnsol 7) 3 21 5000), [])
    10 [0xE3, 129, 0, 0])) = [(10, 0xC3)] :=
  nonread_confirms _ 10 3 21 5000 (.auto .disableUnsol 7) 10 [0xE3, 129, 0, 0]
    ⟨AppCtrl.ofNat 0xE3, false, 0, 0, [], some []⟩ rfl rfl rfl

/-- the same response without CON, or with a stale sequence number, is not confirmed -/
example : confirmsOf (Step.outs (onFragment (exMaster true (.waitNonRead 10 (.auto .disableUnsol 7) 3 21 5000), [])
    10 [0xC3, 129, 0, 0])) = [] ∧
    confirmsOf (Step.outs (onFragment (exMaster true (.waitNonRead 10 (.auto .disableUnsol 7) 3 21 5000), [])
    10 [0xE2, 129, 0, 0])) = [] :=
  ⟨nonread_confirms _ 10 3 21 5000 (.auto .disableUnsol 7) 10 [0xC3, 129, 0, 0]
    ⟨AppCtrl.ofNat 0xC3, false, 0, 0, [], some []⟩ rfl rfl rfl,
   nonread_confirms _ 10 3 21 5000 (.auto .disableUnsol 7) 10 [0xE2, 129, 0, 0]
    ⟨AppCtrl.ofNat 0xE2, false, 0, 0, [], some []⟩ rfl rfl rfl⟩

theorem getAssoc_modAssoc (a : Acc) (addr : Nat) (f : Assoc → Assoc) (hf : ∀ y, (f y).addr = y.addr) :
    (modAssoc a addr f).1.getAssoc addr = (a.1.getAssoc addr).map f := by
  unfold modAssoc MState.getAssoc
  simp only
  induction a.1.assocs with
  | nil => rfl
  | cons y ys ih =>
    simp only [List.map_cons, List.find?_cons]
    by_cases hy : y.addr = addr
    · simp [hy, hf]
    · simp [hy, ih]

example : (modAssoc (exMaster true (.idle none), []) 10 (·.onLinkActivity 7)).1.getAssoc 10 =
    ((exMaster true (.idle none)).getAssoc 10).map (·.onLinkActivity 7) :=
  getAssoc_modAssoc _ 10 _ (fun _ => rfl)

theorem onRestartObserved_keep (x : Assoc) :
    x.onRestartObserved.addr = x.addr ∧ x.onRestartObserved.lastUnsol = x.lastUnsol ∧ x.onRestartObserved.cfg = x.cfg := by
  unfold Assoc.onRestartObserved
  split <;> exact ⟨rfl, rfl, rfl⟩

theorem onNeedTime_keep (x : Assoc) :
    x.onNeedTime.addr = x.addr ∧ x.onNeedTime.lastUnsol = x.lastUnsol ∧ x.onNeedTime.cfg = x.cfg := ⟨rfl, rfl, rfl⟩

theorem onOverflow_keep (x : Assoc) :
    x.onOverflow.addr = x.addr ∧ x.onOverflow.lastUnsol = x.lastUnsol ∧ x.onOverflow.cfg = x.cfg := by
  unfold Assoc.onOverflow
  split <;> exact ⟨rfl, rfl, rfl⟩

theorem setEvents_keep (x : Assoc) (ev : Nat) :
    (x.setEvents ev).addr = x.addr ∧ (x.setEvents ev).lastUnsol = x.lastUnsol ∧ (x.setEvents ev).cfg = x.cfg := by
  unfold Assoc.setEvents
  dsimp only
  split <;> exact ⟨rfl, rfl, rfl⟩

theorem processIin_keep (x : Assoc) (i1 i2 : Nat) :
    (x.processIin i1 i2).addr = x.addr ∧ (x.processIin i1 i2).lastUnsol = x.lastUnsol ∧
      (x.processIin i1 i2).cfg = x.cfg := by
  unfold Assoc.processIin
  dsimp only
  split <;> split <;> split <;>
    simp only [(setEvents_keep _ _).1, (setEvents_keep _ _).2.1, (setEvents_keep _ _).2.2, (onOverflow_keep _).1, (onOverflow_keep _).2.1, (onOverflow_keep _).2.2,
      (onNeedTime_keep _).1, (onNeedTime_keep _).2.1, (onNeedTime_keep _).2.2,
      (onRestartObserved_keep _).1, (onRestartObserved_keep _).2.1, (onRestartObserved_keep _).2.2, and_self]

theorem processIin_addr (x : Assoc) (i1 i2 : Nat) : (x.processIin i1 i2).addr = x.addr := (processIin_keep x i1 i2).1

theorem processIin_lastUnsol (x : Assoc) (i1 i2 : Nat) : (x.processIin i1 i2).lastUnsol = x.lastUnsol :=
  (processIin_keep x i1 i2).2.1

theorem onRestartObserved_onLinkActivity (x : Assoc) (n : Nat) :
    (x.onLinkActivity n).onRestartObserved = x.onRestartObserved.onLinkActivity n := by
  unfold Assoc.onRestartObserved Assoc.onLinkActivity
  dsimp only
  split <;> rfl

theorem onNeedTime_onLinkActivity (x : Assoc) (n : Nat) :
    (x.onLinkActivity n).onNeedTime = x.onNeedTime.onLinkActivity n := rfl

theorem onOverflow_onLinkActivity (x : Assoc) (n : Nat) :
    (x.onLinkActivity n).onOverflow = x.onOverflow.onLinkActivity n := by
  unfold Assoc.onOverflow Assoc.onLinkActivity
  dsimp only
  split <;> rfl

theorem setEvents_onLinkActivity (x : Assoc) (n ev : Nat) :
    (x.onLinkActivity n).setEvents ev = (x.setEvents ev).onLinkActivity n := by
  unfold Assoc.setEvents Assoc.onLinkActivity
  dsimp only
  split <;> rfl

theorem processIin_onLinkActivity (x : Assoc) (n i1 i2 : Nat) :
    (x.onLinkActivity n).processIin i1 i2 = (x.processIin i1 i2).onLinkActivity n := by
  unfold Assoc.processIin
  dsimp only
  split <;> split <;> split <;>
    simp only [onRestartObserved_onLinkActivity, onNeedTime_onLinkActivity, onOverflow_onLinkActivity,
      setEvents_onLinkActivity]


end Dnp3.Proofs.Master

namespace Dnp3.Master

/-- the decision `doUnsolicited` takes for `r` on association `x` -/
def unsolDecision (x : Assoc) (r : Resp) : UnsolDecision :=
  handleUnsolicited (x.processIin r.iin1 r.iin2).isIntegrityComplete (x.processIin r.iin1 r.iin2).lastUnsol r

end Dnp3.Master

namespace Dnp3.Proofs.Master
open Dnp3 Dnp3.Master

theorem unsolDecision_onLinkActivity (x : Assoc) (n : Nat) (r : Resp) :
    unsolDecision (x.onLinkActivity n) r = unsolDecision x r := by
  unfold unsolDecision
  rw [processIin_onLinkActivity]
  rfl

theorem doUnsolicited_confirms (a : Acc) (src : Nat) (r : Resp) :
    confirmsOf (doUnsolicited a src r).2 = confirmsOf a.2 ++
      (match a.1.getAssoc src with
       | none => []
       | some x => if (unsolDecision x r).confirm then [(src, 0xD0 + r.ctrl.seq)] else []) := by
  unfold doUnsolicited
  cases hx : a.1.getAssoc src with
  | none => simp
  | some x =>
    simp only
    rw [getAssoc_modAssoc a src _ (fun y => processIin_addr y _ _), hx]
    simp only [Option.map_some]
    have hd : handleUnsolicited (x.processIin r.iin1 r.iin2).isIntegrityComplete
        (x.processIin r.iin1 r.iin2).lastUnsol r = unsolDecision x r := rfl
    rw [hd]
    generalize unsolDecision x r = d
    obtain ⟨v, dup, dl, c⟩ := d
    have hu : ∀ b, confirmsOf [MOut.unsol src b r.ctrl.seq] = [] := fun _ => rfl
    cases v <;> cases dup <;> cases c <;> cases r.objects <;>
      simp only [Bool.false_eq_true, if_false, if_true, Bool.not_false, Bool.not_true, emit_outs, modAssoc_outs,
        confirmsOf_append, confirmsOf_tx_confirm, hu, List.append_nil, deliver_confirms]

theorem handleUnsolicited_invalid (ic : Bool) (l : Option UnsolKey) (r : Resp)
    (hv : (handleUnsolicited ic l r).valid = false) : handleUnsolicited ic l r = ⟨false, false, false, false⟩ := by
  unfold handleUnsolicited at hv ⊢
  repeat' split
  all_goals simp_all

example : handleUnsolicited true none ⟨AppCtrl.ofNat 0xF5, true, 0, 0, [99], none⟩ = ⟨false, false, false, false⟩ :=
  handleUnsolicited_invalid true none _ (by decide)

/-- a fragment the decision rejects (`valid = false`: objects do not parse, or non-empty before the integrity
    poll completed) only has its IIN processed: no delivery, no `unsol` callback, no confirm -/
theorem doUnsolicited_invalid (a : Acc) (src : Nat) (r : Resp) (x : Assoc) (hx : a.1.getAssoc src = some x)
    (hv : (unsolDecision x r).valid = false) :
    doUnsolicited a src r = modAssoc a src (·.processIin r.iin1 r.iin2) := by
  have hd := handleUnsolicited_invalid _ _ r hv
  unfold doUnsolicited
  simp only [hx]
  rw [getAssoc_modAssoc a src _ (fun y => processIin_addr y _ _), hx]
  simp only [Option.map_some, hd]
  rfl

/-- an unsolicited response whose objects do not parse (`[99]`) only has its IIN processed -/
example : doUnsolicited (exMaster true (.idle none), []) 10 ⟨AppCtrl.ofNat 0xF5, true, 0, 0, [99], none⟩ =
    modAssoc (exMaster true (.idle none), []) 10 (·.processIin 0 0) :=
  doUnsolicited_invalid _ 10 _ { addr := 10, cfg := {}, integrityDone := true } rfl (by decide)

theorem doUnsolicited_invalid_outs (a : Acc) (src : Nat) (r : Resp) (x : Assoc) (hx : a.1.getAssoc src = some x)
    (hv : (unsolDecision x r).valid = false) : (doUnsolicited a src r).2 = a.2 := by
  rw [doUnsolicited_invalid a src r x hx hv]; rfl

/-- events (g2v1, one item) before the integrity poll completed: nothing is delivered, reported or confirmed -/
example : (doUnsolicited (exMaster false (.idle none), []) 10
    ⟨AppCtrl.ofNat 0xF5, true, 0, 0, [2, 1, 0x17, 1, 0, 0x81], some [⟨2, 1, 0x17, 1, 0, [0, 0x81]⟩]⟩).2 = [] :=
  doUnsolicited_invalid_outs _ 10 _ { addr := 10, cfg := {}, integrityDone := false } rfl (by decide)

theorem doUnsolicited_invalid_assoc (a : Acc) (src : Nat) (r : Resp) (x : Assoc) (hx : a.1.getAssoc src = some x)
    (hv : (unsolDecision x r).valid = false) :
    (doUnsolicited a src r).1.getAssoc src = some (x.processIin r.iin1 r.iin2) := by
  rw [doUnsolicited_invalid a src r x hx hv, getAssoc_modAssoc a src _ (fun y => processIin_addr y _ _), hx]
  rfl

example : (doUnsolicited (exMaster true (.idle none), []) 10 ⟨AppCtrl.ofNat 0xF5, true, 0, 0, [99], none⟩).1.getAssoc 10 =
    some (Assoc.processIin { addr := 10, cfg := {}, integrityDone := true } 0 0) :=
  doUnsolicited_invalid_assoc _ 10 _ { addr := 10, cfg := {}, integrityDone := true } rfl (by decide)

theorem doUnsolicited_invalid_lastUnsol (a : Acc) (src : Nat) (r : Resp) (x : Assoc) (hx : a.1.getAssoc src = some x)
    (hv : (unsolDecision x r).valid = false) :
    ((doUnsolicited a src r).1.getAssoc src).map (·.lastUnsol) = some x.lastUnsol := by
  rw [doUnsolicited_invalid_assoc a src r x hx hv]
  simp only [Option.map_some, processIin_lastUnsol]

example : ((doUnsolicited (exMaster true (.idle none), []) 10
    ⟨AppCtrl.ofNat 0xF5, true, 0, 0, [99], none⟩).1.getAssoc 10).map (·.lastUnsol) = some none :=
  doUnsolicited_invalid_lastUnsol _ 10 _ { addr := 10, cfg := {}, integrityDone := true } rfl (by decide)

end Dnp3.Proofs.Master

namespace Dnp3.Master

/-- the confirm the property prescribes for an unsolicited response `r` received from `src` in state `s` -/
def unsolExpected (s : MState) (src : Nat) (r : Resp) : List (Nat × Nat) :=
  match s.getAssoc src with
  | none => []
  | some x => if (unsolDecision x r).confirm then [(src, 0xD0 + r.ctrl.seq)] else []

/-- the confirms the property prescribes for the parsed fragment `r` received from `src` in state `s` -/
def expectedConfirms (s : MState) (src : Nat) (r : Resp) : List (Nat × Nat) :=
  match s.mode with
  | .offline | .exited => []
  | mode =>
    if r.unsol then
      match s.getAssoc src with
      | none => []
      | some x => if (unsolDecision x r).confirm then [(src, 0xD0 + r.ctrl.seq)] else []
    else
      match mode with
      | .waitRead dest _ seq isFirst _ =>
        (match processReadResponse dest seq isFirst (s.getAssoc dest).isSome src r with
         | .accept true _ => [(dest, 0xC0 + seq)]
         | _ => [])
      | .waitNonRead dest _ seq _ _ =>
        (match validateNonRead dest seq src r with
         | .accept => if r.ctrl.con then [(dest, 0xC0 + seq)] else []
         | _ => [])
      | _ => []

end Dnp3.Master

namespace Dnp3.Proofs.Master
open Dnp3 Dnp3.Master

theorem notify_getAssoc_src (s : MState) (src : Nat) :
    (notifyLinkActivity (s, []) src).1.getAssoc src = (s.getAssoc src).map (·.onLinkActivity s.now) :=
  getAssoc_modAssoc (s, []) src _ (fun _ => rfl)

theorem unsol_step_confirms (s : MState) (src : Nat) (r : Resp) :
    confirmsOf (doUnsolicited (notifyLinkActivity (s, []) src) src r).2 = unsolExpected s src r := by
  rw [doUnsolicited_confirms, notify_getAssoc_src]
  unfold unsolExpected
  cases s.getAssoc src with
  | none => rfl
  | some x => simp only [Option.map_some, unsolDecision_onLinkActivity, notify_outs, confirmsOf_nil, List.nil_append]

theorem read_unsolicited (dest seq src : Nat) (isFirst ae : Bool) (r : Resp) (hu : r.unsol = true) :
    processReadResponse dest seq isFirst ae src r = .unsolicited := by
  unfold processReadResponse
  simp only [hu, if_true]

example : processReadResponse 10 3 true true 10 ⟨AppCtrl.ofNat 0xF5, true, 0, 0, [], some []⟩ = .unsolicited :=
  read_unsolicited 10 3 10 true true _ rfl

theorem nonread_unsolicited (dest seq src : Nat) (r : Resp) (hu : r.unsol = true) :
    validateNonRead dest seq src r = .unsolicited := by
  unfold validateNonRead
  simp only [hu, if_true]

example : validateNonRead 10 3 10 ⟨AppCtrl.ofNat 0xF5, true, 0, 0, [], some []⟩ = .unsolicited :=
  nonread_unsolicited 10 3 10 _ rfl

theorem confirm_exactly_when (s : MState) (src : Nat) (frag : List Nat) (r : Resp) (hp : parseResponse frag = some r) :
    confirmsOf (Step.outs (onFragment (s, []) src frag)) = expectedConfirms s src r := by
  cases hu : r.unsol with
  | false =>
    cases hm : s.mode with
    | waitRead dest t seq isFirst dl =>
      rw [read_confirms s dest seq dl t isFirst src frag r hm hp hu]
      simp only [expectedConfirms, hm, hu, Bool.false_eq_true, if_false] <;> rfl
    | waitNonRead dest t seq fc0 dl =>
      rw [nonread_confirms s dest seq fc0 dl t src frag r hm hp hu]
      simp only [expectedConfirms, hm, hu, Bool.false_eq_true, if_false]
    | _ =>
      unfold onFragment
      simp only [expectedConfirms, hm, hp, hu, Bool.false_eq_true, if_false, Step.outs, Step.acc, notify_outs, confirmsOf_nil]
  | true =>
    have hus := unsol_step_confirms s src r
    unfold unsolExpected at hus
    cases hm : s.mode with
    | waitRead dest t seq isFirst dl =>
      unfold onFragment
      simp only [expectedConfirms, hm, hp, hu, if_true, Step.outs, Step.acc, read_unsolicited _ _ _ _ _ r hu, hus]
    | waitNonRead dest t seq fc0 dl =>
      unfold onFragment
      simp only [expectedConfirms, hm, hp, hu, if_true, Step.outs, Step.acc, nonread_unsolicited _ _ _ r hu, hus]
    | _ =>
      unfold onFragment
      simp only [expectedConfirms, hm, hp, hu, if_true, Step.outs, Step.acc, hus, confirmsOf_nil]

/-- a null unsolicited response (FIR FIN CON UNS, sequence 5) is confirmed in every online mode, also while a
    non-READ request is in flight; an unsolicited response whose objects do not parse is not -/
example : confirmsOf (Step.outs (onFragment (exMaster true (.idle none), []) 10 [0xF5, 130, 0, 0])) = [(10, 0xD5)] ∧
    confirmsOf (Step.outs (onFragment (exMaster false (.waitNonRead 10 (.auto .disableUnsol 7) 3 21 5000), [])
      10 [0xF5, 130, 0, 0])) = [(10, 0xD5)] ∧
    confirmsOf (Step.outs (onFragment (exMaster true (.idle none), []) 10 [0xF5, 130, 0, 0, 99])) = [] :=
  ⟨confirm_exactly_when _ 10 _ ⟨AppCtrl.ofNat 0xF5, true, 0, 0, [], some []⟩ rfl,
   confirm_exactly_when _ 10 _ ⟨AppCtrl.ofNat 0xF5, true, 0, 0, [], some []⟩ rfl,
   confirm_exactly_when _ 10 _ ⟨AppCtrl.ofNat 0xF5, true, 0, 0, [99], none⟩ rfl⟩

/-- a solicited response in `waitNonRead`: the confirm goes to the task's destination with the request's sequence -/
example : confirmsOf (Step.outs (onFragment (exMaster true (.waitNonRead 10 (.auto .disableUnsol 7) 3 21 5000), [])
    10 [0xE3, 129, 0, 0])) = [(10, 0xC3)] :=
  confirm_exactly_when _ 10 _ ⟨AppCtrl.ofNat 0xE3, false, 0, 0, [], some []⟩ rfl

end Dnp3.Proofs.Master
-- ===== END C15 step-level confirms =====
