import Dnp3.Model.MasterSession
/-! helper lemmas about the master session model -/
namespace Dnp3.Master

/-- the accumulator of a step result -/
def Step.acc : Step → Acc
  | .waiting a => a
  | .appDone a .. => a
  | .linkDone a .. => a
  | .loop a => a
  | .stop a _ => a

def Step.outs (s : Step) : List MOut := s.acc.2

/-- every application-layer CONFIRM among the outputs: (destination, control octet) -/
def confirmsOf (outs : List MOut) : List (Nat × Nat) :=
  outs.filterMap fun o => match o with
    | .tx d [c, 0] => some (d, c)
    | _ => none

end Dnp3.Master

namespace Dnp3.Proofs.Master
open Dnp3 Dnp3.Master

theorem confirmsOf_append (a b : List MOut) : confirmsOf (a ++ b) = confirmsOf a ++ confirmsOf b := by
  simp [confirmsOf, List.filterMap_append]

@[simp] theorem emit_outs (a : Acc) (o : MOut) : (emit a o).2 = a.2 ++ [o] := rfl
@[simp] theorem emit_state (a : Acc) (o : MOut) : (emit a o).1 = a.1 := rfl
@[simp] theorem modAssoc_outs (a : Acc) (addr : Nat) (f : Assoc → Assoc) : (modAssoc a addr f).2 = a.2 := rfl
@[simp] theorem setMode_outs (a : Acc) (m : Mode) : (setMode a m).2 = a.2 := rfl
@[simp] theorem notify_outs (a : Acc) (addr : Nat) : (notifyLinkActivity a addr).2 = a.2 := rfl

/-- outputs that are not transmissions do not add confirms -/
def NoTx (o : MOut) : Prop := ∀ d b, o ≠ .tx d b

theorem confirmsOf_emit_noTx (a : Acc) (o : MOut) (h : NoTx o) : confirmsOf (emit a o).2 = confirmsOf a.2 := by
  simp only [emit_outs, confirmsOf_append]
  have : confirmsOf [o] = [] := by
    cases o <;> simp_all [confirmsOf, NoTx]
  simp [this]

theorem complete_confirms (a : Acc) (uid : Nat) (o : Outcome) : confirmsOf (complete a uid o).2 = confirmsOf a.2 := by
  unfold complete
  exact confirmsOf_emit_noTx _ _ (by intro d b h; cases h)

theorem taskOnError_confirms (a : Acc) (dest : Nat) (t : Task) (e : TaskErr) :
    confirmsOf (taskOnError a dest t e).2 = confirmsOf a.2 := by
  unfold taskOnError
  split <;> try simp [complete_confirms]
  split <;> simp

theorem readComplete_confirms (a : Acc) (dest : Nat) (t : ReadTask) :
    confirmsOf (readComplete a dest t).2 = confirmsOf a.2 := by
  unfold readComplete
  split <;> simp [complete_confirms]

theorem finishRead_confirms (a : Acc) (dest : Nat) (t : ReadTask) (res : Except TaskErr Nat) :
    confirmsOf (finishRead a dest t res).2 = confirmsOf a.2 := by
  unfold finishRead
  split
  · split <;> simp [readComplete_confirms, taskOnError_confirms]
  · simp [taskOnError_confirms]

theorem deliverHeader_confirms (a : Acc) (who : Who) (h : ObjHdr) :
    confirmsOf (deliverHeader a who h).2 = confirmsOf a.2 := by
  unfold deliverHeader
  split
  · split
    · exact confirmsOf_emit_noTx _ _ (by intro d b h; cases h)
    · rfl
  · split
    · exact confirmsOf_emit_noTx _ _ (by intro d b h; cases h)
    · split
      · exact confirmsOf_emit_noTx _ _ (by intro d b h; cases h)
      · rfl

theorem foldl_deliverHeader_confirms (who : Who) (hs : List ObjHdr) (a : Acc) :
    confirmsOf (hs.foldl (fun a h => deliverHeader a who h) a).2 = confirmsOf a.2 := by
  induction hs generalizing a with
  | nil => rfl
  | cons h t ih => simp [List.foldl, ih, deliverHeader_confirms]

theorem deliver_confirms (a : Acc) (who : Who) (rt : ReadType) (r : Resp) (hs : List ObjHdr) :
    confirmsOf (deliver a who rt r hs).2 = confirmsOf a.2 := by
  unfold deliver
  rw [confirmsOf_emit_noTx _ _ (by intro d b h; cases h), foldl_deliverHeader_confirms,
    confirmsOf_emit_noTx _ _ (by intro d b h; cases h)]

theorem read_not_unsolicited (dest seq src : Nat) (isFirst ae : Bool) (r : Resp) (hu : r.unsol = false) :
    processReadResponse dest seq isFirst ae src r ≠ .unsolicited := by
  unfold processReadResponse
  simp only [hu, Bool.false_eq_true, if_false]
  repeat' split
  all_goals simp

theorem find_map_addr (l : List Assoc) (g : Assoc → Assoc) (hg : ∀ y, (g y).addr = y.addr) (dest : Nat) :
    ((l.map g).find? (·.addr = dest)).isSome = (l.find? (·.addr = dest)).isSome := by
  have h : ((fun x : Assoc => decide (x.addr = dest)) ∘ g) = (fun x => decide (x.addr = dest)) := by
    funext y
    simp [Function.comp, hg]
  rw [List.find?_map, Option.isSome_map, h]

theorem notify_getAssoc (s : MState) (src dest : Nat) :
    ((notifyLinkActivity (s, []) src).1.getAssoc dest).isSome = (s.getAssoc dest).isSome := by
  unfold notifyLinkActivity modAssoc MState.getAssoc
  exact find_map_addr s.assocs _ (by intro y; split <;> rfl) dest

theorem read_confirms (s : MState) (dest seq dl : Nat) (t : ReadTask) (isFirst : Bool)
    (src : Nat) (frag : List Nat) (r : Resp) (hm : s.mode = .waitRead dest t seq isFirst dl)
    (hp : parseResponse frag = some r) (hu : r.unsol = false) :
    confirmsOf (Step.outs (onFragment (s, []) src frag)) =
      (match processReadResponse dest seq isFirst (s.getAssoc dest).isSome src r with
       | .accept true _ => [(dest, 0xC0 + seq)]
       | _ => []) := by
  have hassoc := notify_getAssoc s src dest
  unfold onFragment
  simp only [hm, hp, hassoc]
  have hnu := read_not_unsolicited dest seq src isFirst (s.getAssoc dest).isSome r hu
  generalize hv : processReadResponse dest seq isFirst (s.getAssoc dest).isSome src r = v at hnu
  cases v with
  | unsolicited => exact absurd rfl hnu
  | ignore => simp [Step.outs, Step.acc, confirmsOf]
  | fail e b =>
    cases b <;>
      simp only [Step.outs, Step.acc, finishRead_confirms, modAssoc_outs, notify_outs, Bool.false_eq_true, if_false, if_true] <;>
      rfl
  | accept c f =>
    cases c <;> cases f <;>
      simp only [Step.outs, Bool.false_eq_true, if_false, if_true]
    · split <;> simp only [Step.acc, finishRead_confirms, deliver_confirms, modAssoc_outs, notify_outs, setMode_outs] <;>
        rfl
    · simp only [Step.acc, finishRead_confirms, deliver_confirms, modAssoc_outs, notify_outs]
      rfl
    · split <;>
        simp only [Step.acc, finishRead_confirms, deliver_confirms, modAssoc_outs, notify_outs, setMode_outs, emit_outs,
          confirmsOf_append] <;>
        rfl
    · simp only [Step.acc, finishRead_confirms, deliver_confirms, modAssoc_outs, notify_outs, emit_outs, confirmsOf_append]
      rfl

end Dnp3.Proofs.Master
