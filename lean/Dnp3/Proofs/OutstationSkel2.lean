import Dnp3.Proofs.OutstationSkel
/-!
# A phase-labelled, provenance-carrying event skeleton of the outstation session

`Dnp3.Proofs.Skel.Ev` forgets (a) which response a solicited transmission carries and (b) where in a
`dispatch` an event can occur (its wait events only ask for `mode = unsolWait …`, which also holds for
the left-over mode while the pass that follows the end of a series is still running).  Whole-trace
theorems about the octets on the wire need both.  `Ev2 pf ph a ph' a'` refines `Ev`:

* a phase `Ph`: `.blk` — the task is blocked in (or is being dispatched from) `a.1.mode`, which is
  genuine; `.tl` — the idle pass is running (`mode` may be left over from a wait that just ended).
  Wait events start in `.blk`; the events of the idle pass live in `.tl`; events that set `mode`
  (and `die`) lead back to `.blk`;
* every solicited transmission comes with the model expression that produced the response.

`step_reach2` / `start_reach2`: whatever `Outstation.step` / `Outstation.start` compute is reached by a
chain of such events.  `Reach2.toReach` forgets the refinement (all per-event lemmas about `Ev` apply).
`mon_run`: a monitor over the outputs whose per-event soundness is shown accepts every trace.
-/
namespace Dnp3.Proofs.Skel2
open Dnp3 Dnp3.Proofs.Frame Dnp3.Proofs.Iin Dnp3.Proofs.Skel

attribute [local irreducible] Db.new Db.add Db.update Db.readSupported Db.select Db.writeResponse
  Db.writeUnsolicited Db.clearWritten Db.reset Db.unwrittenClasses Db.isOverflown

inductive Ph where | blk | tl
deriving DecidableEq, Repr

/-- housekeeping updates: `notified`, `nextLinkStatus`; `pending` may be consumed (`lastReq` is NOT touched) -/
def House2 (s s' : OState) : Prop :=
  ∃ n l p, (p = s.pending ∨ p = none) ∧ s' = { s with notified := n, nextLinkStatus := l, pending := p }

theorem House2.refl (s : OState) : House2 s s := ⟨_, _, _, Or.inl rfl, rfl⟩

theorem House2.trans {s1 s2 s3 : OState} (h1 : House2 s1 s2) (h2 : House2 s2 s3) : House2 s1 s3 := by
  obtain ⟨n1, l1, p1, hp1, e1⟩ := h1
  obtain ⟨n2, l2, p2, hp2, e2⟩ := h2
  subst e1
  subst e2
  refine ⟨n2, l2, p2, ?_, rfl⟩
  rcases hp2 with h | h
  · subst h; exact hp1
  · exact Or.inr h

theorem House2.notified (s : OState) (b : Bool) : House2 s { s with notified := b } := ⟨_, _, _, Or.inl rfl, rfl⟩
theorem House2.pendNone (s : OState) : House2 s { s with pending := none } := ⟨_, _, _, Or.inr rfl, rfl⟩
theorem House2.link (s : OState) : House2 s (onLinkActivity s) := ⟨_, _, _, Or.inl rfl, rfl⟩

theorem House2.toHouse {s s' : OState} (h : House2 s s') : House s s' := by
  obtain ⟨n, l, p, hp, e⟩ := h
  exact ⟨n, l, s.lastReq, p, hp, e⟩

theorem House2.mode {s s' : OState} (h : House2 s s') : s'.mode = s.mode := by
  obtain ⟨_, _, _, _, e⟩ := h; subst e; rfl

theorem popRequest_house2 (s : OState) : House2 s (popRequest s).1 := by
  unfold popRequest
  split
  · exact House2.refl _
  · split
    · exact House2.pendNone _
    · split
      · exact House2.refl _
      · exact House2.refl _
      · exact House2.refl _

/-- the fragment of this step has a header-level error (`TransportRequest::Error`) -/
def ErrFrag (pf : Option Frag) : Prop :=
  ∃ f, pf = some f ∧ (parseRequest f.data = .insufficient ∨ ∃ q, parseRequest f.data = .headerError q)

/-- callbacks that only note something -/
def Cb.note : Cb → Bool
  | .modelFuelExhausted | .solWrongSeq .. | .unexpectedConfirm .. => true
  | _ => false

/-- the response of a request handled in the unsolicited confirm wait was written (if there is one) -/
def NRWritten (a4 : Acc) (dst : Nat) (r4 : Option Resp) (a5 : Acc) (r5 : Option Resp) : Prop :=
  (r4 = none ∧ a5 = a4 ∧ r5 = none) ∨
  ∃ r r', r4 = some r ∧ writeSolicited a4 dst r = some (a5, r') ∧ r5 = some r'

/-- a READ repeated in the solicited confirm wait: fragment consumed, stored response echoed, timer restarted -/
def solEchoAcc (a : Acc) (sr : Series) (c : SolCont) (dst : Nat) (resp : Option Resp) : Acc :=
  let a1 : Acc := ({ a.1 with pending := none }, a.2)
  let a2 := match resp with | some r => repeatSolicited a1 dst r | none => a1
  ({ a2.1 with mode := .solWait sr (a2.1.now + a2.1.cfg.ctimeout) c }, a2.2)

/-- a non-READ request repeated in the unsolicited confirm wait: stored response echoed, deferred READ dropped -/
def uwEchoAcc (a : Acc) (dst : Nat) (last : Option Resp) : Acc :=
  let a1 := match last with | some r => repeatSolicited a dst r | none => a
  ({ a1.1 with deferred := none }, a1.2)

/-- one event of the session, with phases and provenance -/
inductive Ev2 (pf : Option Frag) : Ph → Acc → Ph → Acc → Prop
  -- phase-neutral housekeeping
  | house (ph : Ph) (a : Acc) (s' : OState) : House2 a.1 s' → Ev2 pf ph a ph (s', a.2)
  | noteCb (ph : Ph) (a : Acc) (c : Cb) : Cb.note c = true → Ev2 pf ph a ph (emitCb a c)
  | die (ph : Ph) (a : Acc) : Ev2 pf ph a .blk (emit ({ a.1 with mode := .dead }, a.2) .panic)
  | clrDeferred (ph : Ph) (a : Acc) : Ev2 pf ph a ph ({ a.1 with deferred := none }, a.2)
  | dbReset (ph : Ph) (a : Acc) : Ev2 pf ph a ph ({ a.1 with db := a.1.db.reset }, a.2)
  | errResp (ph : Ph) (a : Acc) (src : Nat) (bc : Bool) (seq : Option Nat) (a' : Acc) : ErrFrag pf →
      writeErrorResponse a src bc seq = some a' → Ev2 pf ph a ph a'
  -- the idle pass
  | enter (a : Acc) (n : NextIdle) : a.1.mode = .idle n → Ev2 pf .blk a .tl a
  | reqIdle (a : Acc) (f : Frag) (ctrl : AppCtrl) (func : Nat) (objs : Except Nat (List ObjHdr)) (raw : List Nat)
      (a' : Acc) : ReqOf pf f ctrl func objs raw →
      handleRequestFromIdle a f ctrl func objs raw = some (a', none) → Ev2 pf .tl a .tl a'
  | reqIdleWait (a : Acc) (f : Frag) (ctrl : AppCtrl) (func : Nat) (objs : Except Nat (List ObjHdr)) (raw : List Nat)
      (a' : Acc) (sr : Series) : ReqOf pf f ctrl func objs raw →
      handleRequestFromIdle a f ctrl func objs raw = some (a', some sr) →
      Ev2 pf .tl a .blk (enterSolWait a' sr .fromRequest)
  | chkStart (a a' : Acc) : checkUnsolicited a = some (.inl a') → Ev2 pf .tl a .blk a'
  | chkIdle (a a' : Acc) (n : NextIdle) : checkUnsolicited a = some (.inr (a', n)) → Ev2 pf .tl a .tl a'
  | defWait (a : Acc) (n : NextIdle) (a' : Acc) : handleDeferredRead a n = some (.inl a') → Ev2 pf .tl a .blk a'
  | defDone (a : Acc) (n : NextIdle) (a' : Acc) : handleDeferredRead a n = some (.inr a') → Ev2 pf .tl a .tl a'
  | finishPass (a : Acc) (n : NextIdle) : Ev2 pf .tl a .blk (finishPass a n)
  -- the solicited confirm wait
  | solEcho (a : Acc) (sr : Series) (dl : Nat) (c : SolCont) (f : Frag) (ctrl : AppCtrl) (func : Nat)
      (objs : Except Nat (List ObjHdr)) (raw : List Nat) (resp : Option Resp) (hs : List ObjHdr) :
      a.1.mode = .solWait sr dl c → ReqOf pf f ctrl func objs raw →
      classify a.1 f ctrl func objs = .repeatRead resp hs →
      Ev2 pf .blk a .blk (solEchoAcc a sr c f.src resp)
  | solAbortNew (a : Acc) (sr : Series) (dl : Nat) (c : SolCont) : a.1.mode = .solWait sr dl c →
      (ErrFrag pf ∨ ∃ f ctrl func objs raw, ReqOf pf f ctrl func objs raw ∧ func ≠ 0) →
      Ev2 pf .blk a .tl (emitCb a .solNewRequest)
  | solAbortTimeout (a : Acc) (sr : Series) (dl : Nat) (c : SolCont) : a.1.mode = .solWait sr dl c →
      a.1.pending = none → Ev2 pf .blk a .tl (emitCb a (.solTimeout sr.ecsn))
  | solConf (a : Acc) (sr : Series) (dl : Nat) (c : SolCont) (f : Frag) (ctrl : AppCtrl) (objs : Except Nat (List ObjHdr))
      (raw : List Nat) : a.1.mode = .solWait sr dl c → ReqOf pf f ctrl 0 objs raw → ctrl.uns = false →
      ctrl.seq = sr.ecsn →
      Ev2 pf .blk a .tl (clearWrittenEvents ({ a.1 with lastBroadcast := none }, a.2 ++ [.cb (.solConfirmed sr.ecsn)]))
  | solCont (a : Acc) (sr : Series) (dl : Nat) (c : SolCont) (f : Frag) (a7 : Acc) (r7 : Resp) :
      a.1.mode = .solWait sr dl c → sr.fin = false → (∃ ctrl objs raw, ReqOf pf f ctrl 0 objs raw) →
      writeSolicited ((formatReadResponse a.1 false (seq4Next sr.ecsn) 0).1, a.2) f.src
        (formatReadResponse a.1 false (seq4Next sr.ecsn) 0).2.1 = some (a7, r7) →
      Ev2 pf .tl a .tl ({ a7.1 with lastReq := a7.1.lastReq.map (fun lr => { lr with response := some r7 }) }, a7.2)
  | solNext (a : Acc) (sr : Series) (dl : Nat) (c : SolCont) (sr' : Series) : a.1.mode = .solWait sr dl c →
      Ev2 pf .tl a .blk ({ a.1 with mode := .solWait sr' (a.1.now + a.1.cfg.ctimeout) c }, a.2)
  -- the unsolicited confirm wait
  | unsolConf (a : Acc) (resp : Resp) (isNull : Bool) (retries : Option Nat) (dl : Nat) (f : Frag) (ctrl : AppCtrl)
      (objs : Except Nat (List ObjHdr)) (raw : List Nat) :
      a.1.mode = .unsolWait resp isNull retries dl → ReqOf pf f ctrl 0 objs raw → ctrl.uns = true →
      ctrl.seq = resp.ctrl.seq →
      Ev2 pf .blk a .tl (afterUnsolSeries (emitCb ({ a.1 with lastBroadcast := if a.1.unsolReported then none else a.1.lastBroadcast }, a.2)
        (.unsolConfirmed resp.ctrl.seq)) isNull true).1
  | uwSolConfirm (a : Acc) (resp : Resp) (isNull : Bool) (retries : Option Nat) (dl : Nat) (f : Frag) (ctrl : AppCtrl)
      (objs : Except Nat (List ObjHdr)) (raw : List Nat) :
      a.1.mode = .unsolWait resp isNull retries dl → ReqOf pf f ctrl 0 objs raw → ctrl.uns = false →
      Ev2 pf .blk a .blk (if a.1.lastBroadcast = some 1 then ({ a.1 with lastBroadcast := none }, a.2) else a)
  | uwBcast (a : Acc) (resp : Resp) (isNull : Bool) (retries : Option Nat) (dl : Nat) (f : Frag) (m : Nat)
      (ctrl : AppCtrl) (func : Nat) (objs : Except Nat (List ObjHdr)) (raw : List Nat) (a' : Acc) :
      a.1.mode = .unsolWait resp isNull retries dl → ReqOf pf f ctrl func objs raw → func ≠ 0 →
      f.broadcast = some m → processBroadcast a f m ctrl func objs raw = some a' →
      Ev2 pf .blk a .blk ({ a'.1 with unsolReported := false }, a'.2)
  | uwMalformed (a : Acc) (resp : Resp) (isNull : Bool) (retries : Option Nat) (dl : Nat) (f : Frag) (ctrl : AppCtrl)
      (func : Nat) (e : Nat) (raw : List Nat) (a' : Acc) (r' : Resp) :
      a.1.mode = .unsolWait resp isNull retries dl → ReqOf pf f ctrl func (.error e) raw → func ≠ 0 →
      f.broadcast = none → writeSolicited a f.src (emptySolicited ctrl.seq e) = some (a', r') →
      Ev2 pf .blk a .blk a'
  | uwNonRead (a : Acc) (resp : Resp) (isNull : Bool) (retries : Option Nat) (dl : Nat) (f : Frag) (ctrl : AppCtrl)
      (func : Nat) (hs : List ObjHdr) (raw : List Nat) (a4 : Acc) (r4 : Option Resp) (a5 : Acc) (r5 : Option Resp) :
      a.1.mode = .unsolWait resp isNull retries dl → ReqOf pf f ctrl func (.ok hs) raw → func ≠ 0 → func ≠ 1 →
      f.broadcast = none → handleNonRead a func ctrl.seq f.id hs raw = some (a4, r4) →
      NRWritten a4 f.src r4 a5 r5 →
      Ev2 pf .blk a .blk ({ a5.1 with lastReq := some ⟨ctrl.seq, f.data, r5, none⟩ }, a5.2)
  | uwNonReadDie (a : Acc) (resp : Resp) (isNull : Bool) (retries : Option Nat) (dl : Nat) (f : Frag) (ctrl : AppCtrl)
      (func : Nat) (hs : List ObjHdr) (raw : List Nat) (a4 : Acc) (r : Resp) :
      a.1.mode = .unsolWait resp isNull retries dl → ReqOf pf f ctrl func (.ok hs) raw → func ≠ 0 → func ≠ 1 →
      f.broadcast = none → handleNonRead a func ctrl.seq f.id hs raw = some (a4, some r) →
      writeSolicited a4 f.src r = none →
      Ev2 pf .blk a .blk (emit ({ a4.1 with mode := .dead }, a4.2) .panic)
  | uwDisable (a : Acc) (resp : Resp) (isNull : Bool) (retries : Option Nat) (dl : Nat) (f : Frag) (ctrl : AppCtrl)
      (hs : List ObjHdr) (raw : List Nat) :
      a.1.mode = .unsolWait resp isNull retries dl → ReqOf pf f ctrl 21 (.ok hs) raw →
      Ev2 pf .blk a .tl (afterUnsolSeries a isNull false).1
  | deferSet (a : Acc) (resp : Resp) (isNull : Bool) (retries : Option Nat) (dl : Nat) (f : Frag) (ctrl : AppCtrl)
      (hs : List ObjHdr) (raw : List Nat) : a.1.mode = .unsolWait resp isNull retries dl →
      ReqOf pf f ctrl 1 (.ok hs) raw → f.broadcast = none → Ev2 pf .blk a .blk (deferredSet a.1 f ctrl.seq hs, a.2)
  | uwEcho (a : Acc) (resp : Resp) (isNull : Bool) (retries : Option Nat) (dl : Nat) (f : Frag) (ctrl : AppCtrl)
      (func : Nat) (objs : Except Nat (List ObjHdr)) (raw : List Nat) (last : Option Resp) :
      a.1.mode = .unsolWait resp isNull retries dl → ReqOf pf f ctrl func objs raw →
      classify a.1 f ctrl func objs = .repeatNonRead last →
      Ev2 pf .blk a .blk (uwEchoAcc a f.src last)
  | uwTimeoutEnd (a : Acc) (resp : Resp) (isNull : Bool) (retries : Option Nat) (dl : Nat) :
      a.1.mode = .unsolWait resp isNull retries dl → a.1.pending = none →
      (a.1.deferred.isSome = true ∨ retries = some 0) →
      Ev2 pf .blk a .tl (afterUnsolSeries (emitCb a (.unsolTimeout resp.ctrl.seq false)) isNull false).1
  | uwRetry (a : Acc) (resp : Resp) (isNull : Bool) (retries retries' : Option Nat) (dl : Nat) :
      a.1.mode = .unsolWait resp isNull retries dl → a.1.pending = none → a.1.deferred = none →
      ((retries = none ∧ retries' = none) ∨ ∃ n, retries = some (n + 1) ∧ retries' = some n) →
      Ev2 pf .blk a .blk ({ (repeatUnsolicited (emitCb a (.unsolTimeout resp.ctrl.seq true)) resp).1 with
                  mode := .unsolWait resp isNull retries' (a.1.now + a.1.cfg.ctimeout) },
               (repeatUnsolicited (emitCb a (.unsolTimeout resp.ctrl.seq true)) resp).2)

abbrev PA := Ph × Acc

def R2 (pf : Option Frag) (x y : PA) : Prop := Ev2 pf x.1 x.2 y.1 y.2

abbrev Reach2 (pf : Option Frag) (x y : PA) : Prop := Star (R2 pf) x y

theorem Reach2.tail {pf : Option Frag} {x : PA} {ph ph' : Ph} {a a' : Acc} (h : Reach2 pf x (ph, a))
    (e : Ev2 pf ph a ph' a') : Reach2 pf x (ph', a') := Star.tail h (show R2 pf (ph, a) (ph', a') from e)

/-! ## forgetting the refinement -/

theorem writeErrorResponse_reach {pf : Option Frag} {a a' : Acc} {src : Nat} {bc : Bool} {seq : Option Nat}
    (hw : writeErrorResponse a src bc seq = some a') : Reach pf a a' := by
  unfold writeErrorResponse at hw
  split at hw
  · cases hw; exact Star.refl _
  · split at hw
    · cases hw; exact Star.refl _
    · split at hw
      · cases hw
      · rename_i a2 r2 hws
        cases hw
        exact Star.single (Ev.wsol _ _ _ _ _ hws)

theorem Ev2.toReach {pf : Option Frag} {ph ph' : Ph} {a a' : Acc} (h : Ev2 pf ph a ph' a') : Reach pf a a' := by
  cases h with
  | house _ _ s' hh => exact Star.single (Ev.house a s' hh.toHouse)
  | noteCb _ _ c hc => exact Star.single (Ev.plainCb a c (by cases c <;> simp_all [Cb.note, Cb.plain]))
  | die _ _ => exact Star.single (Ev.die a)
  | clrDeferred _ _ => exact Star.single (Ev.clrDeferred a)
  | dbReset _ _ => exact Star.single (Ev.dbReset a)
  | errResp _ _ src bc seq _ _ hw => exact writeErrorResponse_reach hw
  | enter _ n _ => exact Star.refl _
  | reqIdle _ f ctrl func objs raw _ hq hh => exact Star.single (Ev.reqIdle a f ctrl func objs raw _ _ hq hh)
  | reqIdleWait _ f ctrl func objs raw a1 sr hq hh =>
    exact Star.tail (Star.single (Ev.reqIdle a f ctrl func objs raw a1 _ hq hh)) (Ev.enterSol _ _ _)
  | chkStart _ _ hc => exact Star.single (Ev.chkStart a _ hc)
  | chkIdle _ _ n hc => exact Star.single (Ev.chkIdle a _ n hc)
  | defWait _ n _ hd => exact Star.single (Ev.defWait a n _ hd)
  | defDone _ n _ hd => exact Star.single (Ev.defDone a n _ hd)
  | finishPass _ n => exact Star.single (Ev.finishPass a n)
  | solEcho _ sr dl c f ctrl func objs raw resp hs hm hq hc =>
    have h1 : Reach pf a ({ a.1 with pending := none }, a.2) := Star.single (Ev.house a _ (House.pendNone _))
    unfold solEchoAcc
    cases resp with
    | none => exact Star.tail h1 (Ev.setSolWait _ _ _ _)
    | some r => exact Star.tail (Star.tail h1 (Ev.rsol _ _ _)) (Ev.setSolWait _ _ _ _)
  | solAbortNew _ sr dl c _ _ => exact Star.single (Ev.plainCb a _ rfl)
  | solAbortTimeout _ sr dl c _ _ => exact Star.single (Ev.plainCb a _ rfl)
  | solConf _ sr dl c f ctrl objs raw hm hq hu hs => exact Star.single (Ev.solConf a sr dl c f ctrl objs raw hm hq hu hs)
  | solCont _ sr dl c f a7 r7 hm hfin hq hw =>
    have h1 : Reach pf a ((formatReadResponse a.1 false (seq4Next sr.ecsn) 0).1, a.2) := Star.single (Ev.fmtRead a _ _ _)
    have h2 := Star.tail h1 (Ev.wsol _ _ _ _ _ hw)
    exact Star.tail h2 (Ev.house a7 _ (House.lastReq a7.1 _))
  | solNext _ sr dl c sr' _ => exact Star.single (Ev.setSolWait a _ _ _)
  | unsolConf _ resp isNull retries dl f ctrl objs raw hm hq hu hs =>
    exact Star.single (Ev.unsolConf a resp isNull retries dl f ctrl objs raw hm hq hu hs)
  | uwSolConfirm _ resp isNull retries dl f ctrl objs raw hm hq hu =>
    exact Star.single (Ev.uwSolConfirm a resp isNull retries dl f ctrl objs raw hm hq hu)
  | uwBcast _ resp isNull retries dl f m ctrl func objs raw a1 hm hq hf hb hp =>
    have h1 : Reach pf a a1 := Star.single (Ev.bcast a f m ctrl func objs raw a1 hq hf hb hp)
    have hf4 := processBroadcast_frame _ _ _ _ _ _ _ _ hp
    have hm4 : a1.1.mode = .unsolWait resp isNull retries dl := by
      have hk := hf4.1.1
      simp only [keepBC, Prod.mk.injEq] at hk
      rw [hk.2.2.2.1]; exact hm
    exact Star.tail h1 (Ev.uwBcastSeen a1 resp isNull retries dl f m ctrl func objs raw hm4 hq hf hb hf4.2)
  | uwMalformed _ resp isNull retries dl f ctrl func e raw _ r' _ _ _ _ hw => exact Star.single (Ev.wsol _ _ _ _ _ hw)
  | uwNonRead _ resp isNull retries dl f ctrl func hs raw a4 r4 a5 r5 hm hq hf0 hf1 hb hn hw =>
    have h1 : Reach pf a a4 := Star.single (Ev.nonRead a f ctrl func hs raw a4 r4 hq hf0 hf1 hb hn)
    have h2 : Reach pf a a5 := by
      rcases hw with ⟨_, e, _⟩ | ⟨r, r', _, hws, _⟩
      · subst e; exact h1
      · exact Star.tail h1 (Ev.wsol _ _ _ _ _ hws)
    exact Star.tail h2 (Ev.house a5 _ (House.lastReq a5.1 _))
  | uwNonReadDie _ resp isNull retries dl f ctrl func hs raw a4 r hm hq hf0 hf1 hb hn hw =>
    exact Star.tail (Star.single (Ev.nonRead a f ctrl func hs raw a4 _ hq hf0 hf1 hb hn)) (Ev.die a4)
  | uwDisable _ resp isNull retries dl f ctrl hs raw hm hq =>
    exact Star.single (Ev.uwDisable a resp isNull retries dl f ctrl hs raw hm hq)
  | deferSet _ resp isNull retries dl f ctrl hs raw _ hq hb => exact Star.single (Ev.deferSet a f ctrl hs raw hq hb)
  | uwEcho _ resp isNull retries dl f ctrl func objs raw last _ _ _ =>
    unfold uwEchoAcc
    cases last with
    | none => exact Star.single (Ev.clrDeferred a)
    | some r => exact Star.tail (Star.single (Ev.rsol a _ _)) (Ev.clrDeferred _)
  | uwTimeoutEnd _ resp isNull retries dl hm _ hd => exact Star.single (Ev.uwTimeoutEnd a resp isNull retries dl hm hd)
  | uwRetry _ resp isNull retries retries' dl hm _ hd hr =>
    exact Star.single (Ev.uwRetry a resp isNull retries retries' dl hm hd hr)

theorem Reach2.toReach {pf : Option Frag} {x y : PA} (h : Reach2 pf x y) : Reach pf x.2 y.2 := by
  induction h with
  | refl => exact Star.refl _
  | tail _ r ih => exact Star.trans ih (Ev2.toReach r)

theorem Reach2.base {pf : Option Frag} {x y : PA} (h : Reach2 pf x y) : Base x.2 y.2 := h.toReach.base

/-! ## the skeleton theorems -/

/-- the result of a continuation, in phase `.blk` -/
def AllB (pf : Option Frag) (x0 : PA) (r : StepRes) : Prop := Reach2 pf x0 (.blk, finishStep r)

section
variable {pf : Option Frag} {x0 : PA}

theorem die_reach2 {ph : Ph} {a : Acc} (h : Reach2 pf x0 (ph, a)) : AllB pf x0 (die a) :=
  h.tail (Ev2.die ph a)

theorem finishPass_idle (a : Acc) (n : NextIdle) : ∃ x, (finishPass a n).1.mode = .idle x := by
  unfold finishPass
  split
  · split
    · exact ⟨_, rfl⟩
    · exact ⟨_, rfl⟩
  · exact ⟨_, rfl⟩

theorem afterDeferred_reach2 (k : Acc → StepRes)
    (hk : ∀ a', Reach2 pf x0 (.blk, a') → (∃ n, a'.1.mode = .idle n) → AllB pf x0 (k a'))
    (a : Acc) (next : NextIdle) (h : Reach2 pf x0 (.tl, a)) : AllB pf x0 (afterDeferred k a next) := by
  unfold afterDeferred
  have h1 := h.tail (Ev2.finishPass a next)
  dsimp only
  split
  · exact hk _ h1 (finishPass_idle a next)
  · exact h1

theorem afterUnsol_reach2 (k : Acc → StepRes)
    (hk : ∀ a', Reach2 pf x0 (.blk, a') → (∃ n, a'.1.mode = .idle n) → AllB pf x0 (k a'))
    (a : Acc) (next : NextIdle) (h : Reach2 pf x0 (.tl, a)) : AllB pf x0 (afterUnsol k a next) := by
  unfold afterUnsol
  split
  · exact die_reach2 h
  · rename_i a' hd
    exact h.tail (Ev2.defWait a next a' hd)
  · rename_i a' hd
    exact afterDeferred_reach2 k hk _ _ (h.tail (Ev2.defDone a next a' hd))

theorem afterRequest_reach2 (k : Acc → StepRes)
    (hk : ∀ a', Reach2 pf x0 (.blk, a') → (∃ n, a'.1.mode = .idle n) → AllB pf x0 (k a'))
    (a : Acc) (h : Reach2 pf x0 (.tl, a)) : AllB pf x0 (afterRequest k a) := by
  unfold afterRequest
  split
  · exact die_reach2 h
  · rename_i a' hc
    exact h.tail (Ev2.chkStart a a' hc)
  · rename_i a' next hc
    exact afterUnsol_reach2 k hk _ _ (h.tail (Ev2.chkIdle a a' next hc))

theorem errFrag_of_pop {s : OState} {src : Nat} {bc : Bool} {seq : Option Nat}
    (h : (popRequest s).2 = .error src bc seq) (hpo : s.pending = none ∨ s.pending = pf) : ErrFrag pf := by
  obtain ⟨f, hp, _, _, _, _, hq⟩ := popRequest_error s src bc seq h
  refine ⟨f, ?_, ?_⟩
  · rcases hpo with e | e
    · rw [hp] at e; cases e
    · rw [← e]; exact hp
  · rcases hq with ⟨h1, _⟩ | ⟨q, h1, _⟩
    · exact Or.inl h1
    · exact Or.inr ⟨q, h1⟩

theorem runPass_reach2 (hp0 : PendOk pf x0.2) (fuel : Nat) (a : Acc) (h : Reach2 pf x0 (.blk, a))
    (hm : ∃ n, a.1.mode = .idle n) : AllB pf x0 (runPass fuel a) := by
  induction fuel generalizing a with
  | zero =>
    unfold runPass
    exact h.tail (Ev2.noteCb .blk a .modelFuelExhausted rfl)
  | succ fuel ih =>
    unfold runPass
    dsimp only
    obtain ⟨n0, hm0⟩ := hm
    have h0 : Reach2 pf x0 (.tl, a) := h.tail (Ev2.enter a n0 hm0)
    have h1 : Reach2 pf x0 (.tl, ({ a.1 with notified := false }, a.2)) :=
      h0.tail (Ev2.house .tl a _ (House2.notified _ _))
    have hpo : PendOk pf ({ a.1 with notified := false }, a.2) := PendOk.ofBase h1.base hp0
    generalize hpop : popRequest { a.1 with notified := false } = sp at *
    obtain ⟨s, p⟩ := sp
    have hh : House2 { a.1 with notified := false } s := by
      have := popRequest_house2 { a.1 with notified := false }; rw [hpop] at this; exact this
    have h2 : Reach2 pf x0 (.tl, ({ s with pending := none }, a.2)) :=
      h1.tail (Ev2.house .tl _ _ (House2.trans hh (House2.pendNone _)))
    have h3 : Reach2 pf x0 (.tl, (onLinkActivity { s with pending := none }, a.2)) :=
      h1.tail (Ev2.house .tl _ _ (House2.trans hh (House2.trans (House2.pendNone _) (House2.link _))))
    cases p with
    | nothing => exact afterRequest_reach2 _ ih _ h2
    | error src bc seq =>
      dsimp only
      have hef : ErrFrag pf := errFrag_of_pop (s := { a.1 with notified := false }) (by rw [hpop]) hpo
      split
      · exact die_reach2 h3
      · rename_i a' hw
        exact afterRequest_reach2 _ ih _ (h3.tail (Ev2.errResp .tl _ _ _ _ _ hef hw))
    | request f ctrl func objs raw =>
      dsimp only
      have hr := popRequest_request { a.1 with notified := false } f ctrl func objs raw (by rw [hpop])
      have hreq : ReqOf pf f ctrl func objs raw := by
        refine ⟨?_, hr.2.1⟩
        rcases hpo with e | e
        · rw [hr.1] at e; cases e
        · rw [← e]; exact hr.1
      split
      · exact die_reach2 h3
      · rename_i a' sr hq
        exact h3.tail (Ev2.reqIdleWait _ f ctrl func objs raw a' sr hreq hq)
      · rename_i a' hq
        exact afterRequest_reach2 _ ih _ (h3.tail (Ev2.reqIdle _ f ctrl func objs raw a' hreq hq))

theorem resumeAfterSol_reach2 (hp0 : PendOk pf x0.2) (a : Acc) (cont : SolCont) (h : Reach2 pf x0 (.tl, a)) :
    AllB pf x0 (resumeAfterSol a cont) := by
  unfold resumeAfterSol
  split
  · exact afterRequest_reach2 _ (fun a' h' hm' => runPass_reach2 hp0 _ a' h' hm') _ h
  · exact afterDeferred_reach2 _ (fun a' h' hm' => runPass_reach2 hp0 _ a' h' hm') _ _
      (h.tail (Ev2.clrDeferred .tl a))

theorem abortSeries_reach2 (hp0 : PendOk pf x0.2) (a : Acc) (cont : SolCont) (h : Reach2 pf x0 (.tl, a)) :
    AllB pf x0 (abortSeries a cont) := by
  unfold abortSeries
  exact resumeAfterSol_reach2 hp0 _ _ (h.tail (Ev2.dbReset .tl a))

theorem solWaitTimeout_reach2 (hp0 : PendOk pf x0.2) (a : Acc) (sr : Series) (dl : Nat) (cont : SolCont)
    (hm : a.1.mode = .solWait sr dl cont) (hpn : a.1.pending = none) (h : Reach2 pf x0 (.blk, a)) :
    AllB pf x0 (solWaitTimeout a sr cont) := by
  unfold solWaitTimeout
  exact abortSeries_reach2 hp0 _ _ (h.tail (Ev2.solAbortTimeout a sr dl cont hm hpn))

theorem solWaitOnFragment_reach2 (hp0 : PendOk pf x0.2) (a : Acc) (sr : Series) (dl : Nat) (cont : SolCont)
    (hm : a.1.mode = .solWait sr dl cont) (h : Reach2 pf x0 (.blk, a)) :
    AllB pf x0 (solWaitOnFragment a sr dl cont) := by
  unfold solWaitOnFragment
  dsimp only
  have hpo : PendOk pf a := PendOk.ofBase h.base hp0
  generalize hpop : popRequest a.1 = sp at *
  obtain ⟨s, p⟩ := sp
  have hh : House2 a.1 s := by
    have := popRequest_house2 a.1; rw [hpop] at this; exact this
  have h3 : Reach2 pf x0 (.blk, (onLinkActivity s, a.2)) := h.tail (Ev2.house .blk _ _ (House2.trans hh (House2.link _)))
  have hm3 : (onLinkActivity s).mode = .solWait sr dl cont := by
    show s.mode = _
    rw [hh.mode, hm]
  have newReq : (ErrFrag pf ∨ ∃ f ctrl func objs raw, ReqOf pf f ctrl func objs raw ∧ func ≠ 0) →
      AllB pf x0 (abortSeries (emitCb (onLinkActivity s, a.2) .solNewRequest) cont) := fun hprov =>
    abortSeries_reach2 hp0 _ _ (h3.tail (Ev2.solAbortNew _ sr dl cont hm3 hprov))
  cases p with
  | nothing => exact h.tail (Ev2.house .blk _ _ (House2.trans hh (House2.pendNone _)))
  | error src bc seq =>
    exact newReq (Or.inl (errFrag_of_pop (s := a.1) (by rw [hpop]) hpo))
  | request f ctrl func objs raw =>
    dsimp only
    have hr := popRequest_request a.1 f ctrl func objs raw (by rw [hpop])
    have hreq : ReqOf pf f ctrl func objs raw := by
      refine ⟨?_, hr.2.1⟩
      rcases hpo with e | e
      · rw [hr.1] at e; cases e
      · rw [← e]; exact hr.1
    have cf := classify_facts (onLinkActivity s) f ctrl func objs
    have nr : func ≠ 0 → AllB pf x0 (abortSeries (emitCb (onLinkActivity s, a.2) .solNewRequest) cont) :=
      fun hf => newReq (Or.inr ⟨f, ctrl, func, objs, raw, hreq, hf⟩)
    have h4 : Reach2 pf x0 (.blk, ({ onLinkActivity s with pending := none }, a.2)) :=
      h.tail (Ev2.house .blk _ _ (House2.trans hh (House2.trans (House2.link _) (House2.pendNone _))))
    split
    · rename_i e hc; rw [hc] at cf; exact nr cf.1
    · rename_i hs hc; rw [hc] at cf; simp only [ClassifyFacts] at cf; exact nr (by omega)
    · rename_i hs hc; rw [hc] at cf; simp only [ClassifyFacts] at cf; exact nr cf.1
    · rename_i last hc; rw [hc] at cf; simp only [ClassifyFacts] at cf; exact nr cf.1
    · rename_i m hc; rw [hc] at cf; simp only [ClassifyFacts] at cf; exact nr cf.1
    · -- repeatRead
      rename_i resp hs hc
      have := h3.tail (Ev2.solEcho _ sr dl cont f ctrl func objs raw resp hs hm3 hreq hc)
      unfold solEchoAcc at this
      cases resp with
      | none => exact this
      | some r => exact this
    · exact h4.tail (Ev2.noteCb .blk _ _ rfl)
    · rename_i seq hc
      rw [hc] at cf
      simp only [ClassifyFacts] at cf
      split
      · exact h4.tail (Ev2.noteCb .blk _ _ rfl)
      · rename_i hseq
        have hseq' : seq = sr.ecsn := Classical.not_not.1 hseq
        have hm4 : ({ onLinkActivity s with pending := none } : OState).mode = .solWait sr dl cont := hm3
        have hreq0 : ReqOf pf f ctrl 0 objs raw := by rw [← cf.1]; exact hreq
        have h5 := h4.tail (Ev2.solConf _ sr dl cont f ctrl objs raw hm4 hreq0 cf.2.1
          (by rw [← cf.2.2]; exact hseq'))
        split
        · exact resumeAfterSol_reach2 hp0 _ _ h5
        · rename_i hfin
          have hfin' : sr.fin = false := by
            cases hf : sr.fin with
            | false => rfl
            | true => exact absurd hf hfin
          have hm5 : (clearWrittenEvents ({ ({ onLinkActivity s with pending := none } : OState) with lastBroadcast := none },
              a.2 ++ [.cb (.solConfirmed sr.ecsn)])).1.mode = .solWait sr dl cont := by
            rw [clearWrittenEvents_eq]; exact hm3
          split
          · exact die_reach2 h5
          · rename_i a7 r7 hw
            have h8 := h5.tail (Ev2.solCont _ sr dl cont f a7 r7 hm5 hfin' ⟨ctrl, objs, raw, hreq0⟩ hw)
            have hm7 : a7.1.mode = .solWait sr dl cont := by
              rw [writeSolicited_mode _ _ _ _ _ hw]; exact hm5
            split
            · exact resumeAfterSol_reach2 hp0 _ _ h8
            · exact h8.tail (Ev2.solNext _ sr dl cont _ hm7)

theorem finishUnsol_reach2 (hp0 : PendOk pf x0.2) (a : Acc) (isNull c : Bool)
    (h : Reach2 pf x0 (.tl, (afterUnsolSeries a isNull c).1)) : AllB pf x0 (finishUnsol a isNull c) := by
  unfold finishUnsol
  exact afterUnsol_reach2 _ (fun a' h' hm' => runPass_reach2 hp0 _ a' h' hm') _ _ h

theorem unsolWaitOnFragment_reach2 (hp0 : PendOk pf x0.2) (a : Acc) (resp : Resp) (isNull : Bool)
    (retries : Option Nat) (dl : Nat) (hm : a.1.mode = .unsolWait resp isNull retries dl)
    (h : Reach2 pf x0 (.blk, a)) : AllB pf x0 (unsolWaitOnFragment a resp isNull) := by
  unfold unsolWaitOnFragment
  dsimp only
  have hpo : PendOk pf a := PendOk.ofBase h.base hp0
  generalize hpop : popRequest a.1 = sp at *
  obtain ⟨s, p⟩ := sp
  have hh : House2 a.1 s := by
    have := popRequest_house2 a.1; rw [hpop] at this; exact this
  have h1 : Reach2 pf x0 (.blk, ({ s with pending := none }, a.2)) :=
    h.tail (Ev2.house .blk _ _ (House2.trans hh (House2.pendNone _)))
  cases p with
  | nothing => exact h1
  | error src bc seq =>
    dsimp only
    have hef : ErrFrag pf := errFrag_of_pop (s := a.1) (by rw [hpop]) hpo
    split
    · exact die_reach2 h1
    · rename_i a' hw
      exact (h1.tail (Ev2.clrDeferred .blk _)).tail (Ev2.errResp .blk _ _ _ _ _ hef hw)
  | request f ctrl func objs raw =>
    dsimp only
    have hr := popRequest_request a.1 f ctrl func objs raw (by rw [hpop])
    have hreq : ReqOf pf f ctrl func objs raw := by
      refine ⟨?_, hr.2.1⟩
      rcases hpo with e | e
      · rw [hr.1] at e; cases e
      · rw [← e]; exact hr.1
    have hh2 : House2 a.1 (onLinkActivity { s with pending := none }) :=
      House2.trans hh (House2.trans (House2.pendNone _) (House2.link _))
    have h2 : Reach2 pf x0 (.blk, (onLinkActivity { s with pending := none }, a.2)) :=
      h.tail (Ev2.house .blk _ _ hh2)
    have hm2 : (onLinkActivity { s with pending := none }).mode = .unsolWait resp isNull retries dl := by
      rw [hh2.mode, hm]
    have cf := classify_facts (onLinkActivity { s with pending := none }) f ctrl func objs
    have h3 := h2.tail (Ev2.clrDeferred .blk _)
    have hm3 : ({ onLinkActivity { s with pending := none } with deferred := none } : OState).mode =
        .unsolWait resp isNull retries dl := hm2
    split
    · -- unsolConfirm
      rename_i seq hc
      rw [hc] at cf
      simp only [ClassifyFacts] at cf
      split
      · rename_i hseq
        subst hseq
        have hreq0 : ReqOf pf f ctrl 0 objs raw := by rw [← cf.1]; exact hreq
        apply finishUnsol_reach2 hp0
        exact h2.tail (Ev2.unsolConf _ resp isNull retries dl f ctrl objs raw hm2 hreq0 cf.2.1 cf.2.2.symm)
      · exact h2
    · -- solConfirm
      rename_i seq hc
      rw [hc] at cf
      simp only [ClassifyFacts] at cf
      have hreq0 : ReqOf pf f ctrl 0 objs raw := by rw [← cf.1]; exact hreq
      exact h2.tail (Ev2.uwSolConfirm _ resp isNull retries dl f ctrl objs raw hm2 hreq0 cf.2.1)
    · -- broadcast
      rename_i m hc
      rw [hc] at cf
      simp only [ClassifyFacts] at cf
      split
      · exact die_reach2 h2
      · rename_i a' hp
        exact h3.tail (Ev2.uwBcast _ resp isNull retries dl f m ctrl func objs raw a' hm3 hreq cf.1 cf.2 hp)
    · -- malformed
      rename_i e hc
      rw [hc] at cf
      simp only [ClassifyFacts] at cf
      split
      · exact die_reach2 h2
      · rename_i a' r' hw
        have hreq' : ReqOf pf f ctrl func (.error e) raw := by rw [← cf.2.2]; exact hreq
        exact h3.tail (Ev2.uwMalformed _ resp isNull retries dl f ctrl func e raw a' r' hm3 hreq' cf.1 cf.2.1 hw)
    · -- newNonRead
      rename_i hs hc
      rw [hc] at cf
      simp only [ClassifyFacts] at cf
      split
      · exact die_reach2 h2
      · rename_i a4 r4 hn
        have hreq' : ReqOf pf f ctrl func (.ok hs) raw := by rw [← cf.2.2.2]; exact hreq
        have hm4 : a4.1.mode = .unsolWait resp isNull retries dl := by
          rw [handleNonRead_mode _ _ _ _ _ _ _ _ hn]; exact hm2
        split
        · -- the response could not be written: the task dies
          rename_i hwr
          cases r4 with
          | none => exact absurd hwr (by simp)
          | some r =>
            dsimp only at hwr
            split at hwr
            · rename_i hws
              exact h3.tail (Ev2.uwNonReadDie _ resp isNull retries dl f ctrl func hs raw a4 r hm3 hreq' cf.1 cf.2.1
                cf.2.2.1 hn hws)
            · cases hwr
        · rename_i a5 r5 hwr
          have hw : NRWritten a4 f.src r4 a5 r5 ∧ a5.1.mode = .unsolWait resp isNull retries dl := by
            split at hwr
            · cases hwr; exact ⟨Or.inl ⟨rfl, rfl, rfl⟩, hm4⟩
            · split at hwr
              · cases hwr
              · rename_i r a6 r6 hws
                cases hwr
                exact ⟨Or.inr ⟨_, _, rfl, hws, rfl⟩, by rw [writeSolicited_mode _ _ _ _ _ hws]; exact hm4⟩
          have h6 := h3.tail (Ev2.uwNonRead _ resp isNull retries dl f ctrl func hs raw a4 r4 a5 r5 hm3 hreq' cf.1 cf.2.1
            cf.2.2.1 hn hw.1)
          split
          · rename_i h21
            apply finishUnsol_reach2 hp0
            have hreq21 : ReqOf pf f ctrl 21 (.ok hs) raw := by rw [← h21]; exact hreq'
            exact h6.tail (Ev2.uwDisable _ resp isNull retries dl f ctrl hs raw hw.2 hreq21)
          · exact h6
    · -- newRead
      rename_i hs hc
      rw [hc] at cf
      simp only [ClassifyFacts] at cf
      have hreq' : ReqOf pf f ctrl 1 (.ok hs) raw := by rw [← cf.1, ← cf.2.2]; exact hreq
      exact h2.tail (Ev2.deferSet _ resp isNull retries dl f ctrl hs raw hm2 hreq' cf.2.1)
    · -- repeatRead
      rename_i rr hs hc
      rw [hc] at cf
      simp only [ClassifyFacts] at cf
      have hreq' : ReqOf pf f ctrl 1 (.ok hs) raw := by rw [← cf.1, ← cf.2.2]; exact hreq
      exact h2.tail (Ev2.deferSet _ resp isNull retries dl f ctrl hs raw hm2 hreq' cf.2.1)
    · -- repeatNonRead
      rename_i last hc
      have := h2.tail (Ev2.uwEcho _ resp isNull retries dl f ctrl func objs raw last hm2 hreq hc)
      unfold uwEchoAcc at this
      cases last with
      | none => exact this
      | some r => exact this

end

section
variable {pf : Option Frag} {x0 : PA}

theorem unsolWaitTimeout_reach2 (hp0 : PendOk pf x0.2) (a : Acc) (resp : Resp) (isNull : Bool)
    (retries : Option Nat) (dl : Nat) (hm : a.1.mode = .unsolWait resp isNull retries dl)
    (hpn : a.1.pending = none) (h : Reach2 pf x0 (.blk, a)) :
    AllB pf x0 (unsolWaitTimeout a resp isNull retries) := by
  unfold unsolWaitTimeout
  cases hd : a.1.deferred with
  | some d =>
    simp only [Option.isSome_some, if_true, Bool.not_false]
    apply finishUnsol_reach2 hp0
    exact h.tail (Ev2.uwTimeoutEnd a resp isNull retries dl hm hpn (Or.inl (by rw [hd]; rfl)))
  | none =>
    simp only [Option.isSome_none, Bool.false_eq_true, if_false]
    match retries, hm with
    | none, hm =>
      simp only [Bool.not_true, Bool.false_eq_true, if_false]
      exact h.tail (Ev2.uwRetry a resp isNull none none dl hm hpn hd (Or.inl ⟨rfl, rfl⟩))
    | some 0, hm =>
      simp only [Bool.not_false, if_true]
      apply finishUnsol_reach2 hp0
      exact h.tail (Ev2.uwTimeoutEnd a resp isNull (some 0) dl hm hpn (Or.inr rfl))
    | some (n+1), hm =>
      simp only [Bool.not_true, Bool.false_eq_true, if_false]
      exact h.tail (Ev2.uwRetry a resp isNull (some (n+1)) (some n) dl hm hpn hd (Or.inr ⟨n, rfl, rfl⟩))

theorem pending_none_of_not_isSome {s : OState} (h : ¬ s.pending.isSome = true) : s.pending = none := by
  cases hp : s.pending with
  | none => rfl
  | some f => rw [hp] at h; exact absurd rfl h

theorem dispatch_reach2 (hp0 : PendOk pf x0.2) (a : Acc) (h : Reach2 pf x0 (.blk, a)) :
    AllB pf x0 (dispatch a) := by
  unfold dispatch
  split
  · exact h
  · rename_i n hm
    split
    · exact runPass_reach2 hp0 _ _ h ⟨n, hm⟩
    · exact h
  · rename_i sr dl cont hm
    split
    · exact solWaitOnFragment_reach2 hp0 a sr dl cont hm h
    · rename_i hp
      split
      · exact solWaitTimeout_reach2 hp0 _ _ dl _ hm (pending_none_of_not_isSome hp) h
      · exact h
  · rename_i resp isNull retries dl hm
    split
    · exact unsolWaitOnFragment_reach2 hp0 a resp isNull retries dl hm h
    · rename_i hp
      split
      · exact unsolWaitTimeout_reach2 hp0 a resp isNull retries dl hm (pending_none_of_not_isSome hp) h
      · exact h

theorem settle_reach2 (hp0 : PendOk pf x0.2) (n : Nat) (r : StepRes) (h : AllB pf x0 r) :
    AllB pf x0 (settle n r) := by
  induction n generalizing r with
  | zero => exact h
  | succ n ih =>
    unfold settle
    cases r with
    | panicked a => exact h
    | blocked a =>
      dsimp only
      split <;> split <;> first | exact ih _ (dispatch_reach2 hp0 a h) | exact h

end

/-! ## `Outstation.step` / `Outstation.start` in terms of events -/

theorem step_rx2 (env : OEnv) (s : OState) (src dst : Nat) (data : List Nat) :
    stepBody env s (.rx src dst data) = (s, []) ∨
    ∃ b, rxBroadcast env dst = some b ∧
      Reach2 (some ⟨s.frameId, src, b, data⟩) (.blk, (rxState s ⟨s.frameId, src, b, data⟩, []))
      (.blk, stepBody env s (.rx src dst data)) := by
  unfold stepBody
  dsimp only
  repeat' split
  all_goals first
    | exact Or.inl rfl
    | (rename_i b hb _ _
       right
       refine ⟨b, hb, ?_⟩
       have hp : PendOk (some ⟨s.frameId, src, b, data⟩) (rxState s ⟨s.frameId, src, b, data⟩, []) := Or.inr rfl
       exact settle_reach2 (x0 := (.blk, (rxState s ⟨s.frameId, src, b, data⟩, []))) hp 8 _
         (dispatch_reach2 (x0 := (.blk, (rxState s ⟨s.frameId, src, b, data⟩, []))) hp _ (Star.refl _)))

theorem step_tick2 (env : OEnv) (s : OState) (ms : Nat) :
    Reach2 s.pending (.blk, ({ s with now := s.now + ms }, [])) (.blk, stepBody env s (.tick ms)) := by
  unfold stepBody
  have hp : PendOk s.pending ({ s with now := s.now + ms }, []) := Or.inr rfl
  exact settle_reach2 (x0 := (.blk, ({ s with now := s.now + ms }, []))) hp 8 _
    (dispatch_reach2 (x0 := (.blk, ({ s with now := s.now + ms }, []))) hp _ (Star.refl _))

theorem step_txn2 (env : OEnv) (s : OState) (items : List TxnItem) :
    Reach2 s.pending (.blk, ({ (txnFold s items).1 with notified := true }, (txnFold s items).2))
      (.blk, stepBody env s (.txn items)) := by
  unfold stepBody
  have hk := (txnFold_frame s items).1
  have hp : PendOk s.pending ({ (txnFold s items).1 with notified := true }, (txnFold s items).2) := by
    right
    simp only [keepDb, Prod.mk.injEq] at hk
    exact hk.2.2.2.2.2.2.2.2.2.2.2.2.2.2.2.2.2.2.2.1
  exact settle_reach2 (x0 := (.blk, ({ (txnFold s items).1 with notified := true }, (txnFold s items).2))) hp 8 _
    (dispatch_reach2 (x0 := (.blk, ({ (txnFold s items).1 with notified := true }, (txnFold s items).2))) hp _ (Star.refl _))

theorem step_add2 (env : OEnv) (s : OState) (t : PtType) (idx cls : Nat) :
    Reach2 s.pending (.blk, ({ s with db := (s.db.add t idx cls).1, notified := true },
        [.line s!"add {if (s.db.add t idx cls).2 then 1 else 0}"]))
      (.blk, stepBody env s (.add t idx cls)) := by
  unfold stepBody
  have hp : PendOk s.pending ({ s with db := (s.db.add t idx cls).1, notified := true },
        [.line s!"add {if (s.db.add t idx cls).2 then 1 else 0}"]) := Or.inr rfl
  exact settle_reach2 (x0 := (.blk, ({ s with db := (s.db.add t idx cls).1, notified := true },
        [.line s!"add {if (s.db.add t idx cls).2 then 1 else 0}"]))) hp 8 _
    (dispatch_reach2 (x0 := (.blk, ({ s with db := (s.db.add t idx cls).1, notified := true },
        [.line s!"add {if (s.db.add t idx cls).2 then 1 else 0}"]))) hp _ (Star.refl _))

theorem step_cut2 (env : OEnv) (s : OState) :
    stepBody env s .cut = (s, []) ∨
    Reach2 none (.blk, (cutState s, [.line "session link stdio UnexpectedEof"])) (.blk, stepBody env s .cut) := by
  unfold stepBody
  dsimp only
  split
  · exact Or.inl rfl
  · right
    have hp : PendOk none (cutState s, [.line "session link stdio UnexpectedEof"]) := Or.inl rfl
    exact settle_reach2 (x0 := (.blk, (cutState s, [.line "session link stdio UnexpectedEof"]))) hp 8 _
      (runPass_reach2 (x0 := (.blk, (cutState s, [.line "session link stdio UnexpectedEof"]))) hp _ _ (Star.refl _)
        ⟨_, rfl⟩)

theorem start_reach2 (cfg : OCfg) (evMax : Nat) :
    Reach2 none (.blk, (OState.init cfg evMax, [])) (.blk, Outstation.start cfg evMax) := by
  unfold Outstation.start
  have hp : PendOk none (OState.init cfg evMax, []) := Or.inl rfl
  exact settle_reach2 (x0 := (.blk, (OState.init cfg evMax, []))) hp 8 _
    (runPass_reach2 (x0 := (.blk, (OState.init cfg evMax, []))) hp _ _ (Star.refl _) ⟨_, rfl⟩)

theorem stepBody_reach2 (env : OEnv) (s : OState) (inp : OInput) :
    (∃ f, inp = .setScript f ∧ stepBody env s inp = ({ s with script := f s.script }, [])) ∨
    (stepBody env s inp = (s, []) ∧ (inp matches .rx .. | .cut)) ∨
    ∃ pf s0 o0, StepInit env s inp pf s0 o0 ∧ Reach2 pf (.blk, (s0, o0)) (.blk, stepBody env s inp) := by
  cases inp with
  | setScript f => left; exact ⟨f, rfl, rfl⟩
  | rx src dst data =>
    rcases step_rx2 env s src dst data with e | ⟨b, hb, hr⟩
    · right; left; exact ⟨e, rfl⟩
    · right; right; exact ⟨_, _, _, .rx src dst data b hb, hr⟩
  | tick ms => right; right; exact ⟨_, _, _, .tick ms, step_tick2 env s ms⟩
  | txn items => right; right; exact ⟨_, _, _, .txn items, step_txn2 env s items⟩
  | add t idx cls => right; right; exact ⟨_, _, _, .add t idx cls, step_add2 env s t idx cls⟩
  | cut =>
    rcases step_cut2 env s with e | hr
    · right; left; exact ⟨e, rfl⟩
    · right; right; exact ⟨_, _, _, .cut, hr⟩

/-- every step either does nothing to the session (dropped frame, dead task, script change) or runs the
    session machinery from a `StepInit` start, in phase `.blk`, ending in phase `.blk` -/
theorem step_reach2 (env : OEnv) (s : OState) (inp : OInput) :
    (∃ f, inp = .setScript f ∧ Outstation.step env s inp = ({ s with script := f s.script }, [])) ∨
    Outstation.step env s inp = (s, []) ∨
    ∃ pf s0 o0, StepInit env s inp pf s0 o0 ∧ Reach2 pf (.blk, (s0, o0)) (.blk, Outstation.step env s inp) := by
  rcases step_cases env s inp with h | h | e
  · exact Or.inl h
  · exact Or.inr (Or.inl h)
  · rw [e]
    rcases stepBody_reach2 env s inp with h | ⟨h, _⟩ | h
    · exact Or.inl h
    · exact Or.inr (Or.inl h)
    · exact Or.inr (Or.inr h)

/-! ## monitors over the outputs -/

/-- run a monitor over a list of outputs; `none` = it rejected -/
def runMon {M : Type} (mon : M → OOut → Option M) : M → List OOut → Option M
  | m, [] => some m
  | m, o :: l => match mon m o with
    | none => none
    | some m' => runMon mon m' l

theorem runMon_append {M : Type} (mon : M → OOut → Option M) (m : M) (l1 l2 : List OOut) :
    runMon mon m (l1 ++ l2) = (runMon mon m l1).bind (fun m' => runMon mon m' l2) := by
  induction l1 generalizing m with
  | nil => rfl
  | cons o l ih =>
    simp only [List.cons_append, runMon]
    cases mon m o with
    | none => rfl
    | some m' => exact ih m'

theorem runMon_append_some {M : Type} {mon : M → OOut → Option M} {m m1 : M} {l1 l2 : List OOut}
    (h : runMon mon m l1 = some m1) : runMon mon m (l1 ++ l2) = runMon mon m1 l2 := by
  rw [runMon_append, h]; rfl

/-- `y` extends `x` by outputs the monitor accepts, and the state/monitor relation `J` is carried along -/
def MR {M : Type} (mon : M → OOut → Option M) (J : Ph → OState → M → Prop) (x y : PA) : Prop :=
  ∃ l, y.2.2 = x.2.2 ++ l ∧ ∀ m, J x.1 x.2.1 m → ∃ m', runMon mon m l = some m' ∧ J y.1 y.2.1 m'

theorem MR.refl {M : Type} (mon : M → OOut → Option M) (J : Ph → OState → M → Prop) (x : PA) : MR mon J x x :=
  ⟨[], by simp, fun m h => ⟨m, rfl, h⟩⟩

theorem MR.trans {M : Type} {mon : M → OOut → Option M} {J : Ph → OState → M → Prop} {x y z : PA}
    (h1 : MR mon J x y) (h2 : MR mon J y z) : MR mon J x z := by
  obtain ⟨l1, e1, c1⟩ := h1
  obtain ⟨l2, e2, c2⟩ := h2
  refine ⟨l1 ++ l2, by rw [e2, e1, List.append_assoc], ?_⟩
  intro m hj
  obtain ⟨m1, r1, j1⟩ := c1 m hj
  obtain ⟨m2, r2, j2⟩ := c2 m1 j1
  exact ⟨m2, by rw [runMon_append_some r1]; exact r2, j2⟩

theorem Reach2.mr {M : Type} {mon : M → OOut → Option M} {J : Ph → OState → M → Prop} {pf : Option Frag}
    (hev : ∀ x y, R2 pf x y → MR mon J x y) {x y : PA} (h : Reach2 pf x y) : MR mon J x y :=
  Star.lift (MR.refl mon J) (fun _ _ _ => MR.trans) hev h

section
variable {M : Type} (mon : M → OOut → Option M) (J : Ph → OState → M → Prop)
  (hev : ∀ pf x y, R2 pf x y → MR mon J x y)
  (hinit : ∀ env s inp pf s0 o0, StepInit env s inp pf s0 o0 → ∀ m, J .blk s m →
    ∃ m0, runMon mon m o0 = some m0 ∧ J .blk s0 m0)
  (hscript : ∀ s (f : Script → Script) m, J .blk s m → J .blk { s with script := f s.script } m)
include hev hinit hscript

/-- per step: a monitor whose soundness is shown per event and per step prologue accepts the step's outputs -/
theorem mon_step (env : OEnv) (s : OState) (inp : OInput) (m : M) (hj : J .blk s m) :
    ∃ m', runMon mon m (Outstation.step env s inp).2 = some m' ∧ J .blk (Outstation.step env s inp).1 m' := by
  rcases step_reach2 env s inp with ⟨f, _, e⟩ | e | ⟨pf, s0, o0, hi, hr⟩
  · rw [e]; exact ⟨m, rfl, hscript s f m hj⟩
  · rw [e]; exact ⟨m, rfl, hj⟩
  · obtain ⟨m0, r0, j0⟩ := hinit env s inp pf s0 o0 hi m hj
    obtain ⟨l, el, c⟩ := Reach2.mr (hev pf) hr
    obtain ⟨m', r', j'⟩ := c m0 j0
    have el' : (Outstation.step env s inp).2 = o0 ++ l := el
    exact ⟨m', by rw [el', runMon_append_some r0]; exact r', j'⟩

/-- … and every run -/
theorem mon_run (env : OEnv) (ins : List OInput) (s : OState) (m : M) (hj : J .blk s m) :
    ∃ m', runMon mon m (Outstation.run env s ins).2.flatten = some m' ∧ J .blk (Outstation.run env s ins).1 m' := by
  induction ins generalizing s m with
  | nil => exact ⟨m, rfl, hj⟩
  | cons i is ih =>
    obtain ⟨m1, r1, j1⟩ := mon_step mon J hev hinit hscript env s i m hj
    obtain ⟨m2, r2, j2⟩ := ih (Outstation.step env s i).1 m1 j1
    refine ⟨m2, ?_, j2⟩
    show runMon mon m ((Outstation.step env s i).2 :: (Outstation.run env (Outstation.step env s i).1 is).2).flatten = _
    rw [List.flatten_cons, runMon_append_some r1]
    exact r2

end

/-- all outputs of a run from construction, in order: those of the start-up pass, then those of every step -/
def traceOuts (cfg : OCfg) (evMax : Nat) (env : OEnv) (ins : List OInput) : List OOut :=
  (Outstation.start cfg evMax).2 ++ (Outstation.run env (Outstation.start cfg evMax).1 ins).2.flatten

/-- whole traces from `Outstation.start` -/
theorem mon_trace {M : Type} (mon : M → OOut → Option M) (J : Ph → OState → M → Prop)
    (hev : ∀ pf x y, R2 pf x y → MR mon J x y)
    (hinit : ∀ env s inp pf s0 o0, StepInit env s inp pf s0 o0 → ∀ m, J .blk s m →
      ∃ m0, runMon mon m o0 = some m0 ∧ J .blk s0 m0)
    (hscript : ∀ s (f : Script → Script) m, J .blk s m → J .blk { s with script := f s.script } m)
    (cfg : OCfg) (evMax : Nat) (m0 : M) (h0 : J .blk (OState.init cfg evMax) m0) (env : OEnv) (ins : List OInput) :
    ∃ m', runMon mon m0 (traceOuts cfg evMax env ins) = some m' ∧
      J .blk (Outstation.run env (Outstation.start cfg evMax).1 ins).1 m' := by
  obtain ⟨l, el, c⟩ := Reach2.mr (hev none) (start_reach2 cfg evMax)
  obtain ⟨m1, r1, j1⟩ := c m0 h0
  obtain ⟨m2, r2, j2⟩ := mon_run mon J hev hinit hscript env ins (Outstation.start cfg evMax).1 m1 j1
  have el' : (Outstation.start cfg evMax).2 = l := by simpa using el
  exact ⟨m2, by unfold traceOuts; rw [el', runMon_append_some r1]; exact r2, j2⟩

end Dnp3.Proofs.Skel2
