import Dnp3.Proofs.C02Overflow
import Dnp3.Proofs.C02Master
/-!
# C02 — the master session model over the fragments of a multi-fragment READ response

`onFragment_read_accept`: the fragment handler on ANY fragment `process_read_response` accepts (first or
not, final or not, with or without CON), as an equation.  `acceptedAcc_outs`: what it emits — `deliverBegin`,
the calls of `extract_measurements` for the parsed headers (`headerCalls`), `deliverEnd`, and the CONFIRM
`[0xC0 + seq, 0]` iff the fragment has CON.  `step_read_nonfinal`: the whole `Master.step` on a non-final
fragment (exact outputs; the master waits for the next fragment with the next sequence number: `MWait`).
`master_read_series`: any number of non-final fragments fed one after the other.
-/
namespace Dnp3.Proofs.C02SeriesMaster
open Dnp3 Dnp3.Master Dnp3.Proofs.Master Dnp3.Proofs.C02Overflow Dnp3.Proofs.C02Master

theorem processIin_seq (x : Assoc) (i1 i2 : Nat) : (x.processIin i1 i2).seq = x.seq := by
  unfold Assoc.processIin Assoc.setEvents Assoc.onOverflow Assoc.onNeedTime Assoc.onRestartObserved
  dsimp only
  repeat' split
  all_goals rfl

/-- the accumulator when an accepted fragment of a READ response has been handled up to its confirm:
    link activity noted, IIN processed, measurements delivered, CONFIRM transmitted if asked for -/
def acceptedAcc (a : Acc) (dest : Nat) (t : ReadTask) (seq : Nat) (r : Resp) (hs : List ObjHdr) : Acc :=
  if r.ctrl.con then
    emit (deliver (modAssoc (notifyLinkActivity a dest) dest (·.processIin r.iin1 r.iin2)) (whoOf dest t) (rtOf t) r hs)
      (.tx dest [0xC0 + seq, 0])
  else deliver (modAssoc (notifyLinkActivity a dest) dest (·.processIin r.iin1 r.iin2)) (whoOf dest t) (rtOf t) r hs

theorem acceptedAcc_assoc (a : Acc) (dest : Nat) (t : ReadTask) (seq : Nat) (r : Resp) (hs : List ObjHdr) (x : Assoc)
    (hx : a.1.getAssoc dest = some x) :
    (acceptedAcc a dest t seq r hs).1.getAssoc dest = some ((x.onLinkActivity a.1.now).processIin r.iin1 r.iin2) ∧
    (acceptedAcc a dest t seq r hs).1.shutdownReq = a.1.shutdownReq ∧ (acceptedAcc a dest t seq r hs).1.live = a.1.live ∧
    (acceptedAcc a dest t seq r hs).1.now = a.1.now := by
  have h1 : (notifyLinkActivity a dest).1.getAssoc dest = some (x.onLinkActivity a.1.now) := by
    refine getAssoc_mod a dest _ ?_ x hx
    intro _; rfl
  have h2 : (modAssoc (notifyLinkActivity a dest) dest (·.processIin r.iin1 r.iin2)).1.getAssoc dest =
      some ((x.onLinkActivity a.1.now).processIin r.iin1 r.iin2) :=
    getAssoc_mod _ dest _ (fun y => processIin_addr y _ _) _ h1
  unfold acceptedAcc
  split <;> simp only [emit, deliver_state] <;> exact ⟨h2, rfl, rfl, rfl⟩

/-- a fragment of the answer to the READ in flight that `process_read_response` accepts: FIR exactly on the
    first one, the expected sequence number, FIN or CON, acceptable IIN2, parsable objects -/
theorem onFragment_read_accept (a : Acc) (dest : Nat) (t : ReadTask) (seq dl : Nat) (isFirst : Bool)
    (c i1 i2 : Nat) (objs : List Nat) (hs : List ObjHdr) (fin con : Bool) (x : Assoc)
    (hmode : a.1.mode = .waitRead dest t seq isFirst dl)
    (hx : a.1.getAssoc dest = some x)
    (hctrl : AppCtrl.ofNat c = ⟨isFirst, fin, con, false, seq⟩)
    (hfc : fin = true ∨ con = true)
    (hi2 : i2 &&& 7 = 0)
    (hparse : parseRespObjects objs.length objs = some hs) :
    onFragment a dest ([c, 0x81, i1, i2] ++ objs) =
      if fin = true then
        .appDone (finishRead (acceptedAcc a dest t seq ⟨AppCtrl.ofNat c, false, i1, i2, objs, some hs⟩ hs) dest t (.ok seq))
          dest t.taskType 1 (.ok seq)
      else
        .waiting (setMode (modAssoc (acceptedAcc a dest t seq ⟨AppCtrl.ofNat c, false, i1, i2, objs, some hs⟩ hs) dest
            fun y => { y with seq := seq4Next y.seq })
          (.waitRead dest t x.seq false (a.1.now + x.cfg.rto))) := by
  have h1 : (notifyLinkActivity a dest).1.getAssoc dest = some (x.onLinkActivity a.1.now) := by
    refine getAssoc_mod a dest _ ?_ x hx
    intro _; rfl
  have h2 : (modAssoc (notifyLinkActivity a dest) dest (·.processIin i1 i2)).1.getAssoc dest =
      some ((x.onLinkActivity a.1.now).processIin i1 i2) :=
    getAssoc_mod _ dest _ (fun y => processIin_addr y _ _) _ h1
  unfold onFragment
  rw [hmode]
  have hp : parseResponse ([c, 0x81, i1, i2] ++ objs) = some ⟨AppCtrl.ofNat c, false, i1, i2, objs, some hs⟩ := by
    simp [parseResponse, hctrl, hparse]
  simp only [hp]
  have hv : processReadResponse dest seq isFirst ((notifyLinkActivity a dest).1.getAssoc dest).isSome dest
      ⟨AppCtrl.ofNat c, false, i1, i2, objs, some hs⟩ = .accept con fin := by
    rw [h1]
    rcases hfc with h | h <;> cases isFirst <;> cases fin <;> cases con <;>
      simp_all [processReadResponse, badIin2]
  simp only [hv]
  unfold acceptedAcc
  simp only [hctrl]
  cases fin with
  | true => simp only [if_true]; cases con <;> rfl
  | false =>
    simp only [Bool.false_eq_true, if_false]
    cases con with
    | false => simp at hfc
    | true =>
      simp only [if_true, emit, deliver_state, h2, processIin_seq, (processIin_keep _ _ _).2.2]
      rfl

theorem foldl_deliverHeader_eq (who : Who) (hs : List ObjHdr) (a : Acc) :
    hs.foldl (fun a h => deliverHeader a who h) a = (a.1, a.2 ++ hs.flatMap (headerCalls who)) := by
  induction hs generalizing a with
  | nil => simp
  | cons h hs ih =>
    simp only [List.foldl_cons, List.flatMap_cons]
    rw [deliverHeader_eq, ih]
    simp

/-- what an accepted fragment makes the master emit: the delivery bracket with one group of handler calls per
    parsed header, then the CONFIRM iff the fragment asks for one -/
theorem acceptedAcc_outs (a : Acc) (dest : Nat) (t : ReadTask) (seq : Nat) (r : Resp) (hs : List ObjHdr) :
    (acceptedAcc a dest t seq r hs).2 = a.2 ++ ([.deliverBegin (whoOf dest t) (rtOf t) r.ctrl.toNat r.iin1 r.iin2] ++
      hs.flatMap (headerCalls (whoOf dest t)) ++ [.deliverEnd (whoOf dest t) (rtOf t)] ++
      (if r.ctrl.con then [.tx dest [0xC0 + seq, 0]] else [])) := by
  unfold acceptedAcc deliver
  simp only [foldl_deliverHeader_eq]
  split <;> simp [emit, modAssoc, notifyLinkActivity]

/-- the master waits for a fragment (the first one iff `isFirst`) of the answer to the READ `t` it sent to
    `dest`, with sequence number `seq`; the association's counter is one ahead; the channel has a live handle -/
structure MWait (s : MState) (dest : Nat) (t : ReadTask) (seq : Nat) (isFirst : Bool) : Prop where
  mode : ∃ dl, s.mode = .waitRead dest t seq isFirst dl
  assoc : ∃ x, s.getAssoc dest = some x ∧ x.seq = seq4Next seq
  live : ¬ (s.shutdownReq = true ∧ s.live = 0)

/-- **one step of the master session model on a NON-FINAL fragment of the answer** (FIR iff first, CON, the
    expected sequence number, acceptable IIN2, parsable objects): exactly the delivery bracket and the CONFIRM
    are emitted, and the master waits for the next fragment with the next sequence number -/
theorem step_read_nonfinal (s : MState) (dest : Nat) (t : ReadTask) (seq : Nat) (isFirst : Bool)
    (c i1 i2 : Nat) (objs : List Nat) (hs : List ObjHdr)
    (hw : MWait s dest t seq isFirst)
    (hctrl : AppCtrl.ofNat c = ⟨isFirst, false, true, false, seq⟩)
    (hi2 : i2 &&& 7 = 0)
    (hparse : parseRespObjects objs.length objs = some hs)
    (hsrc : dest < 0xFFF0) (hlen : 4 + objs.length ≤ 2048) :
    ∃ s', Master.step s (.rx dest masterAddr ([c, 0x81, i1, i2] ++ objs)) =
        (s', [.deliverBegin (whoOf dest t) (rtOf t) (AppCtrl.ofNat c).toNat i1 i2] ++
          hs.flatMap (headerCalls (whoOf dest t)) ++ [.deliverEnd (whoOf dest t) (rtOf t), .tx dest [0xC0 + seq, 0]]) ∧
      MWait s' dest t (seq4Next seq) false := by
  obtain ⟨⟨dl, hmode⟩, ⟨x, hx, hxs⟩, hlive⟩ := hw
  have hfrag := onFragment_read_accept (s, []) dest t seq dl isFirst c i1 i2 objs hs false true x hmode hx hctrl
    (.inr rfl) hi2 hparse
  simp only [Bool.false_eq_true, if_false] at hfrag
  obtain ⟨hA, hsr, hlv, _⟩ := acceptedAcc_assoc (s, []) dest t seq ⟨AppCtrl.ofNat c, false, i1, i2, objs, some hs⟩ hs x hx
  have houts := acceptedAcc_outs (s, []) dest t seq ⟨AppCtrl.ofNat c, false, i1, i2, objs, some hs⟩ hs
  generalize hAcc : acceptedAcc (s, []) dest t seq ⟨AppCtrl.ofNat c, false, i1, i2, objs, some hs⟩ hs = A at *
  have hstep : Master.step s (.rx dest masterAddr ([c, 0x81, i1, i2] ++ objs)) =
      setMode (modAssoc A dest fun y => { y with seq := seq4Next y.seq }) (.waitRead dest t x.seq false (s.now + x.cfg.rto)) := by
    unfold Master.step
    have hg : ¬ (masterAddr ≠ masterAddr ∨ dest ≥ 0xFFF0 ∨ ([c, 0x81, i1, i2] ++ objs).isEmpty = true ∨
        ([c, 0x81, i1, i2] ++ objs).length > 2048) := by
      simp only [ne_eq, not_true_eq_false, false_or, ge_iff_le, gt_iff_lt, not_or, Nat.not_le, Nat.not_lt,
        List.cons_append, List.isEmpty_cons, Bool.false_eq_true, List.length_cons, List.nil_append]
      exact ⟨hsrc, by omega⟩
    simp only [hg, if_false, hfrag]
    have hres : ∀ X : Acc, resolve loopFuel (Step.waiting X) = X := fun _ => rfl
    rw [hres]
    unfold checkShutdown
    have e1 : (setMode (modAssoc A dest fun y => { y with seq := seq4Next y.seq })
        (.waitRead dest t x.seq false (s.now + x.cfg.rto))).1.shutdownReq = s.shutdownReq := hsr
    have e2 : (setMode (modAssoc A dest fun y => { y with seq := seq4Next y.seq })
        (.waitRead dest t x.seq false (s.now + x.cfg.rto))).1.live = s.live := hlv
    rw [e1, e2]
    simp only [hlive, if_false]
  refine ⟨(setMode (modAssoc A dest fun y => { y with seq := seq4Next y.seq })
      (.waitRead dest t x.seq false (s.now + x.cfg.rto))).1, ?_, ⟨s.now + x.cfg.rto, ?_⟩,
    ⟨{ ((x.onLinkActivity s.now).processIin i1 i2) with seq := seq4Next ((x.onLinkActivity s.now).processIin i1 i2).seq }, ?_, ?_⟩, ?_⟩
  · rw [hstep]
    refine Prod.ext rfl ?_
    show A.2 = _
    rw [houts, hctrl]
    simp
  · show Mode.waitRead dest t x.seq false (s.now + x.cfg.rto) = Mode.waitRead dest t (seq4Next seq) false _
    rw [hxs]
  · exact getAssoc_mod A dest (fun y => { y with seq := seq4Next y.seq }) (fun _ => rfl) _ hA
  · show seq4Next ((x.onLinkActivity s.now).processIin i1 i2).seq = _
    rw [processIin_seq]
    show seq4Next x.seq = _
    rw [hxs]
  · show ¬ (A.1.shutdownReq = true ∧ A.1.live = 0)
    rw [hsr, hlv]; exact hlive

end Dnp3.Proofs.C02SeriesMaster
