import Dnp3.Proofs.OutstationSkel
/-!
# C13 — internal indication bits tell the truth (session-level plumbing)

`Db.*` is opaque: no `Db` function is unfolded; every theorem holds for any database component
(the `EVAL` block at the end evaluates one concrete trace).
The relation of the class / overflow bits to the event buffer is the database component's job;
here: which state each IIN bit is copied from, and how `restart` / `lastBroadcast` evolve.

Broadcast bit (section 3).  D16 — "accepting an unsolicited confirm cleared `lastBroadcast` for every confirm
mode although no response had reported IIN1.0" — is REPAIRED: `OState.unsolReported` records whether the
unsolicited response awaiting its confirm carried IIN1.0 with no broadcast received since, and the
unsolicited confirm clears the record only then.  What is proved now:
* `broadcast_bit_rule` (all four former clauses, plus: an accepted unsolicited confirm changes
  `lastBroadcast` only if `unsolReported` was set) and its fifth clause alone, `unsol_confirm_keeps_unreported`;
* `confirm_clears_broadcast` (d): the unsolicited confirm clears the record iff `unsolReported`, else keeps it;
* `unsolReported_sound` / `_start` / `_reachable`: the invariant `ReportedOk` ("flag set while waiting ⇒ the
  awaited unsolicited response carried IIN1.0") is preserved by every step from every state;
* `broadcast_in_wait_resets_reported`: a broadcast processed during the unsolicited wait records its mode and
  resets the flag;
* `broadcast_never_dropped_by_unsol_confirm` (trace level): that record survives every quiet continuation of
  the run, the accepted unsolicited confirm included, so the next response reports it
  (`unsol_confirm_keeps_broadcast_example`: the concrete trace).
-/
namespace Dnp3.Proofs.C13
open Dnp3 Dnp3.Proofs.Frame Dnp3.Proofs.Iin Dnp3.Proofs.Skel

attribute [local irreducible] Db.new Db.add Db.update Db.readSupported Db.select Db.writeResponse
  Db.writeUnsolicited Db.clearWritten Db.reset Db.unwrittenClasses Db.isOverflown

/-! ## 1. `iin_of_fresh_response` -/

/-- Bit-by-bit content of what `getResponseIin` returns. -/
theorem getResponseIin_bits (s s' : OState) (i1 i2 : Nat) (h : getResponseIin s = some (s', i1, i2)) :
    ∃ c1 c2 c3, s.db.unwrittenClasses = some (c1, c2, c3) ∧
      i1.testBit 7 = s.restart ∧
      i1.testBit 1 = c1 ∧ i1.testBit 2 = c2 ∧ i1.testBit 3 = c3 ∧
      i1.testBit 0 = s.lastBroadcast.isSome ∧
      i1.testBit 4 = s.script.appIin.testBit 0 ∧
      i1.testBit 5 = s.script.appIin.testBit 1 ∧
      i1.testBit 6 = s.script.appIin.testBit 2 ∧
      i1 < 256 ∧
      i2.testBit 3 = s.db.isOverflown ∧
      i2.testBit 5 = s.script.appIin.testBit 3 ∧
      (∀ i, i ≠ 3 → i ≠ 5 → i2.testBit i = false) := by
  obtain ⟨c1, c2, c3, hu, _, h1, h2⟩ := getResponseIin_some s s' i1 i2 h
  subst h1 h2
  have b1 := iin1Of_bits s.lastBroadcast.isSome c1 c2 c3 (s.script.appIin.testBit 0) (s.script.appIin.testBit 1)
    (s.script.appIin.testBit 2) s.restart
  have b2 := iin2Of_bits s.db.isOverflown (s.script.appIin.testBit 3)
  exact ⟨c1, c2, c3, hu, b1.2.2.2.2.2.2.2.1, b1.2.1, b1.2.2.1, b1.2.2.2.1, b1.1, b1.2.2.2.2.1, b1.2.2.2.2.2.1,
    b1.2.2.2.2.2.2.1, b1.2.2.2.2.2.2.2.2, b2.1, b2.2.1, b2.2.2⟩

theorem take4_header (buf hdr : List Nat) (n : Nat) (hl : hdr.length = 4) :
    ((writeAt buf 0 hdr).take (max 4 n)).take 4 = hdr := by
  unfold writeAt
  rw [List.take_take]
  have : min 4 (max 4 n) = 4 := by omega
  rw [this]
  simp [hl]

/-- **C13.1** every freshly built solicited response: the transmitted header carries
    `r.iin ||| getResponseIin`, the latter sampled from the state at that moment. -/
theorem iin_of_fresh_response_sol (a : Acc) (dst : Nat) (r : Resp) (a' : Acc) (r' : Resp)
    (h : writeSolicited a dst r = some (a', r')) :
    ∃ s1 i1 i2 bytes, getResponseIin a.1 = some (s1, i1, i2) ∧
      r'.iin1 = r.iin1 ||| i1 ∧ r'.iin2 = r.iin2 ||| i2 ∧
      a'.2 = a.2 ++ [.tx dst bytes] ∧
      bytes.take 4 = [r'.ctrl.toNat, r'.func, r.iin1 ||| i1, r.iin2 ||| i2] := by
  obtain ⟨c1, c2, c3, hu, h1, h2, hf, hsz, hc, e⟩ := writeSolicited_eq a dst r a' r' h
  refine ⟨_, _, _, (writeAt (afterIin a.1).solBuf 0 (respHeader r')).take (max 4 r'.size),
    getResponseIin_eq a.1 c1 c2 c3 hu, h1, h2, ?_, ?_⟩
  · rw [e]
  · rw [take4_header _ _ _ rfl, respHeader, h1, h2]

/-- **C13.1** every freshly built unsolicited response, likewise. -/
theorem iin_of_fresh_response_unsol (a : Acc) (r : Resp) (a' : Acc) (r' : Resp)
    (h : writeUnsolicited a r = some (a', r')) :
    ∃ s1 i1 i2 bytes, getResponseIin a.1 = some (s1, i1, i2) ∧
      r'.iin1 = r.iin1 ||| i1 ∧ r'.iin2 = r.iin2 ||| i2 ∧
      a'.2 = a.2 ++ [.tx a.1.cfg.master bytes] ∧
      bytes.take 4 = [r'.ctrl.toNat, r'.func, r.iin1 ||| i1, r.iin2 ||| i2] := by
  obtain ⟨c1, c2, c3, hu, hr, e⟩ := writeUnsolicited_eq a r a' r' h
  refine ⟨_, _, _, (writeAt (afterIin a.1).unsolBuf 0 (respHeader r')).take (max 4 r'.size),
    getResponseIin_eq a.1 c1 c2 c3 hu, by rw [hr], by rw [hr], ?_, ?_⟩
  · rw [e]
  · rw [take4_header _ _ _ rfl, respHeader, hr]

/-- **C13.1** (`iin_of_fresh_response`): both kinds of fresh response, with the per-bit reading. -/
theorem iin_of_fresh_response (a : Acc) (dst : Nat) (r : Resp) (a' : Acc) (r' : Resp) (dst' : Nat)
    (h : writeSolicited a dst r = some (a', r') ∧ dst' = dst ∨
         writeUnsolicited a r = some (a', r') ∧ dst' = a.1.cfg.master) :
    ∃ i1 i2 bytes c1 c2 c3,
      a'.2 = a.2 ++ [.tx dst' bytes] ∧
      bytes.take 4 = [r'.ctrl.toNat, r'.func, r.iin1 ||| i1, r.iin2 ||| i2] ∧
      a.1.db.unwrittenClasses = some (c1, c2, c3) ∧
      (i1.testBit 7 = a.1.restart) ∧
      (i1.testBit 1 = c1) ∧ (i1.testBit 2 = c2) ∧ (i1.testBit 3 = c3) ∧
      (i2.testBit 3 = a.1.db.isOverflown) ∧
      (i1.testBit 0 = a.1.lastBroadcast.isSome) ∧
      (i1.testBit 4 = a.1.script.appIin.testBit 0) ∧
      (i1.testBit 5 = a.1.script.appIin.testBit 1) ∧
      (i1.testBit 6 = a.1.script.appIin.testBit 2) ∧
      (i2.testBit 5 = a.1.script.appIin.testBit 3) ∧
      i1 < 256 ∧ (∀ i, i ≠ 3 → i ≠ 5 → i2.testBit i = false) := by
  rcases h with ⟨h, hd⟩ | ⟨h, hd⟩
  · obtain ⟨s1, i1, i2, bytes, hg, _, _, ho, hb⟩ := iin_of_fresh_response_sol a dst r a' r' h
    obtain ⟨c1, c2, c3, hu, b⟩ := getResponseIin_bits _ _ _ _ hg
    subst hd
    exact ⟨i1, i2, bytes, c1, c2, c3, ho, hb, hu, b.1, b.2.1, b.2.2.1, b.2.2.2.1, b.2.2.2.2.2.2.2.2.2.1,
      b.2.2.2.2.1, b.2.2.2.2.2.1, b.2.2.2.2.2.2.1, b.2.2.2.2.2.2.2.1, b.2.2.2.2.2.2.2.2.2.2.1,
      b.2.2.2.2.2.2.2.2.1, b.2.2.2.2.2.2.2.2.2.2.2⟩
  · obtain ⟨s1, i1, i2, bytes, hg, _, _, ho, hb⟩ := iin_of_fresh_response_unsol a r a' r' h
    obtain ⟨c1, c2, c3, hu, b⟩ := getResponseIin_bits _ _ _ _ hg
    subst hd
    exact ⟨i1, i2, bytes, c1, c2, c3, ho, hb, hu, b.1, b.2.1, b.2.2.1, b.2.2.2.1, b.2.2.2.2.2.2.2.2.2.1,
      b.2.2.2.2.1, b.2.2.2.2.2.1, b.2.2.2.2.2.2.1, b.2.2.2.2.2.2.2.1, b.2.2.2.2.2.2.2.2.2.2.1,
      b.2.2.2.2.2.2.2.2.1, b.2.2.2.2.2.2.2.2.2.2.2⟩

/-- **C13.4** (`app_bits_mirror`): need-time, local-control, device-trouble, configuration-corrupt
    in a fresh response are exactly bits 0–3 of the application's answer at that moment. -/
theorem app_bits_mirror (a : Acc) (dst : Nat) (r : Resp) (a' : Acc) (r' : Resp)
    (h : writeSolicited a dst r = some (a', r') ∨ writeUnsolicited a r = some (a', r'))
    (hr1 : r.iin1 = 0) (hr2 : r.iin2 &&& 0x20 = 0) :
    r'.iin1.testBit 4 = a.1.script.appIin.testBit 0 ∧
    r'.iin1.testBit 5 = a.1.script.appIin.testBit 1 ∧
    r'.iin1.testBit 6 = a.1.script.appIin.testBit 2 ∧
    r'.iin2.testBit 5 = a.1.script.appIin.testBit 3 := by
  have hr2' : r.iin2.testBit 5 = false := by
    cases hb : r.iin2.testBit 5 with
    | false => rfl
    | true =>
      have := (and_two_pow_ne_zero r.iin2 5).2 hb
      exact absurd hr2 this
  have key : ∀ s1 i1 i2, getResponseIin a.1 = some (s1, i1, i2) → r'.iin1 = r.iin1 ||| i1 → r'.iin2 = r.iin2 ||| i2 →
      r'.iin1.testBit 4 = a.1.script.appIin.testBit 0 ∧
      r'.iin1.testBit 5 = a.1.script.appIin.testBit 1 ∧
      r'.iin1.testBit 6 = a.1.script.appIin.testBit 2 ∧
      r'.iin2.testBit 5 = a.1.script.appIin.testBit 3 := by
    intro s1 i1 i2 hg e1 e2
    obtain ⟨c1, c2, c3, hu, b⟩ := getResponseIin_bits _ _ _ _ hg
    rw [e1, e2, hr1]
    simp only [Nat.zero_or, Nat.testBit_or, hr2', Bool.false_or]
    exact ⟨b.2.2.2.2.2.1, b.2.2.2.2.2.2.1, b.2.2.2.2.2.2.2.1, b.2.2.2.2.2.2.2.2.2.2.1⟩
  rcases h with h | h
  · obtain ⟨s1, i1, i2, bytes, hg, e1, e2, _, _⟩ := iin_of_fresh_response_sol a dst r a' r' h
    exact key s1 i1 i2 hg e1 e2
  · obtain ⟨s1, i1, i2, bytes, hg, e1, e2, _, _⟩ := iin_of_fresh_response_unsol a r a' r' h
    exact key s1 i1 i2 hg e1 e2

/-! ## 2. `restart_bit_interval` -/

/-- an object header of a WRITE that clears the restart bit: g80v1, qualifier 0x00, whose range
    reaches index 7 with that bit zero (for parsed headers `start ≤ stop`, so this is `start ≤ 7 ≤ stop`) -/
def ClearsRestart (h : ObjHdr) : Prop :=
  h.group = 80 ∧ h.var = 1 ∧ h.qual = 0x00 ∧ ∃ i, i ≤ h.b - h.a ∧ h.a + i = 7 ∧ bitAt h.data i = false

/-- the fragment is a request with function code 2 (WRITE) having such a header -/
def WriteClears (pf : Option Frag) : Prop :=
  ∃ f ctrl hs raw h, pf = some f ∧ parseRequest f.data = .request ctrl 2 (.ok hs) raw ∧ h ∈ hs ∧ ClearsRestart h

/-- how `restart` and the `clearRestartIin` callback move together between two accumulators;
    `C` = what must be true if the callback was emitted -/
def RR (C : Prop) (a a' : Acc) : Prop :=
  ∃ l, a'.2 = a.2 ++ l ∧
    ((a'.1.restart = a.1.restart ∧ clearOut ∉ l) ∨ (a'.1.restart = false ∧ clearOut ∈ l ∧ C))

theorem RR.refl (C : Prop) (a : Acc) : RR C a a := ⟨[], by simp, Or.inl ⟨rfl, by simp⟩⟩

theorem RR.trans {C : Prop} {a b c : Acc} (h1 : RR C a b) (h2 : RR C b c) : RR C a c := by
  obtain ⟨l1, e1, c1⟩ := h1
  obtain ⟨l2, e2, c2⟩ := h2
  refine ⟨l1 ++ l2, by rw [e2, e1, List.append_assoc], ?_⟩
  rcases c2 with ⟨r2, n2⟩ | ⟨r2, m2, hc⟩
  · rcases c1 with ⟨r1, n1⟩ | ⟨r1, m1, hc⟩
    · exact Or.inl ⟨r2.trans r1, by simp [n1, n2]⟩
    · exact Or.inr ⟨r2.trans r1, by simp [m1], hc⟩
  · exact Or.inr ⟨r2, by simp [m2], hc⟩

theorem RR.mono {C C' : Prop} {a b : Acc} (h : RR C a b) (hc : C → C') : RR C' a b := by
  obtain ⟨l, e, c⟩ := h
  refine ⟨l, e, ?_⟩
  rcases c with c | ⟨r, m, hC⟩
  · exact Or.inl c
  · exact Or.inr ⟨r, m, hc hC⟩

theorem RR.keep {C : Prop} {a b : Acc} (hr : b.1.restart = a.1.restart) (l : List OOut) (e : b.2 = a.2 ++ l)
    (hn : clearOut ∉ l) : RR C a b := ⟨l, e, Or.inl ⟨hr, hn⟩⟩

/-- from a `Frame` whose projection determines `restart` and whose output kinds exclude `clear` -/
theorem RR.ofFrame {κ} {K : OState → κ} {ks : List OKind} {C : Prop} {a b : Acc} (h : Frame K (KP ks) a b)
    (hk : ∀ s s', K s' = K s → s'.restart = s.restart) (hc : OKind.clear ∉ ks) : RR C a b := by
  obtain ⟨k, l, e, p⟩ := h
  refine RR.keep (hk _ _ k) l e ?_
  intro hm
  have := p _ hm
  exact hc this

theorem RR.foldl2 {α β : Type} (f : Acc × β → α → Acc × β) (C : α → Prop)
    (hf : ∀ p x, RR (C x) p.1 (f p x).1) (l : List α) (p : Acc × β) :
    RR (∃ x ∈ l, C x) p.1 (l.foldl f p).1 := by
  induction l generalizing p with
  | nil => exact RR.refl _ _
  | cons x xs ih =>
    simp only [List.foldl_cons]
    refine RR.trans ((hf p x).mono (fun h => ⟨x, by simp, h⟩)) ((ih (f p x)).mono ?_)
    rintro ⟨y, hy, hc⟩
    exact ⟨y, by simp [hy], hc⟩

theorem handleWriteIin_rr (a : Acc) (start stop : Nat) (data : List Nat) :
    RR (∃ i, i ≤ stop - start ∧ start + i = 7 ∧ bitAt data i = false) a (handleWriteIin a start stop data).1 := by
  unfold handleWriteIin
  refine (RR.foldl2 _ (fun i => start + i = 7 ∧ bitAt data i = false) ?_ _ _).mono ?_
  · intro p i
    dsimp only
    by_cases h7 : start + i = 7
    · rw [if_pos h7]
      cases hb : bitAt data i with
      | true => simp only [if_true]; exact RR.refl _ _
      | false =>
        simp only [Bool.false_eq_true, if_false]
        exact ⟨[clearOut], rfl, Or.inr ⟨rfl, by simp, h7, trivial⟩⟩
    · rw [if_neg h7]; exact RR.refl _ _
  · rintro ⟨i, hi, hc⟩
    exact ⟨i, by have := List.mem_range.1 hi; omega, hc⟩

theorem handleWriteHeader_rr (a : Acc) (h : ObjHdr) : RR (ClearsRestart h) a (handleWriteHeader a h).1 := by
  have hf := handleWriteHeader_frame a h
  unfold handleWriteHeader at hf ⊢
  by_cases h80 : h.group = 80 ∧ h.var = 1 ∧ h.qual = 0x00
  · rw [if_pos h80]
    exact (handleWriteIin_rr a h.a h.b h.data).mono (fun hc => ⟨h80.1, h80.2.1, h80.2.2, hc⟩)
  · rw [if_neg h80] at hf ⊢
    -- no other header touches `restart` or emits the callback
    obtain ⟨hk, l, e, hp⟩ := hf
    have hne : h.group ≠ 80 ∨ h.var ≠ 1 ∨ h.qual ≠ 0 := by
      by_cases h1 : h.group = 80
      · by_cases h2 : h.var = 1
        · right; right; intro h3; exact h80 ⟨h1, h2, h3⟩
        · exact Or.inr (Or.inl h2)
      · exact Or.inl h1
    refine ⟨l, e, Or.inl ⟨?_, ?_⟩⟩
    · split
      · split <;> rfl
      · split
        · split
          · rfl
          · split
            · rfl
            · dsimp only; split <;> rfl
        · rfl
    · intro hm
      -- the time-write branches only emit `writeTime`
      have : ∀ (x : Acc × Nat) (l' : List OOut), x.1.2 = a.2 ++ l' → (∀ o ∈ l', o ≠ clearOut) → x.1.2 = a.2 ++ l →
          False := by
        intro x l' e1 hn e2
        have : l' = l := List.append_cancel_left (e1.symm.trans e2)
        subst this
        exact hn _ hm rfl
      split at e
      · split at e
        · exact this _ [.cb (.writeTime (u48le h.data))] rfl (by simp [clearOut]) e
        · exact this _ [] (by simp) (by simp) e
      · split at e
        · split at e
          · exact this _ [] (by simp) (by simp) e
          · split at e
            · exact this _ [] (by simp) (by simp) e
            · dsimp only at e
              split at e
              · exact this _ [] (by simp) (by simp) e
              · exact this _ [.cb (.writeTime _)] rfl (by simp [clearOut]) e
        · exact this _ [] (by simp) (by simp) e

theorem handleWrite_rr (a : Acc) (seq : Nat) (hs : List ObjHdr) :
    RR (∃ h ∈ hs, ClearsRestart h) a (handleWrite a seq hs).1 := by
  unfold handleWrite
  dsimp only
  exact RR.foldl2 (fun (p : Acc × Nat) h => ((handleWriteHeader p.1 h).1, p.2 ||| (handleWriteHeader p.1 h).2))
    ClearsRestart (fun p h => handleWriteHeader_rr p.1 h) hs (a, 0)

theorem RR.ofFrameP {κ} {K : OState → κ} {P : OOut → Prop} {C : Prop} {a b : Acc} (h : Frame K P a b)
    (hk : ∀ s s', K s' = K s → s'.restart = s.restart) (hc : ¬ P clearOut) : RR C a b := by
  obtain ⟨k, l, e, p⟩ := h
  exact RR.keep (hk _ _ k) l e (fun hm => hc (p _ hm))

theorem not_app_clear : ¬ AppP clearOut := by simp [AppP, clearOut, OOut.isApp, Cb.isApp]

theorem handleNonRead_rr (a : Acc) (func seq fid : Nat) (hs : List ObjHdr) (raw : List Nat)
    (a' : Acc) (r : Option Resp) (h : handleNonRead a func seq fid hs raw = some (a', r)) :
    RR (func = 2 ∧ ∃ h ∈ hs, ClearsRestart h) a a' := by
  cases handleNonRead_cases a func seq fid hs raw a' r h with
  | write h2 e => subst e; exact (handleWrite_rr a seq hs).mono (fun hc => ⟨h2, hc⟩)
  | enable _ e =>
    subst e
    exact RR.ofFrameP (handleEnableDisable_frame _ _ _ _)
      (fun s s' h => by simp only [keepEnOnly, Prod.mk.injEq] at h; exact h.2.2.1) (fun h => h)
  | disable _ e =>
    subst e
    exact RR.ofFrameP (handleEnableDisable_frame _ _ _ _)
      (fun s s' h => by simp only [keepEnOnly, Prod.mk.injEq] at h; exact h.2.2.1) (fun h => h)
  | control r0 _ e =>
    exact RR.ofFrameP (handleControls_frame _ _ _ _ _ _ _ _ e)
      (fun s s' h => by simp only [keepCtl2, Prod.mk.injEq] at h; exact h.2.1) not_app_clear
  | misc _ _ _ e =>
    exact RR.ofFrameP e (fun s s' h => by simp only [keepMisc, Prod.mk.injEq] at h; exact h.2.2.1) not_app_clear

theorem bccase_rr {a0 : Acc} {f : Frag} {ctrl : AppCtrl} {func : Nat} {objs : Except Nat (List ObjHdr)}
    {raw : List Nat} {a1 : Acc} (h : BCCase a0 f ctrl func objs raw a1) :
    RR (func = 2 ∧ ∃ hs, objs = .ok hs ∧ ∃ h ∈ hs, ClearsRestart h) a0 a1 := by
  cases h with
  | nothing => exact RR.refl _ _
  | write hs h2 ho => exact (handleWrite_rr a0 ctrl.seq hs).mono (fun hc => ⟨h2, hs, ho, hc⟩)
  | control hs a1 r _ _ hc =>
    exact RR.ofFrameP (handleControls_frame _ _ _ _ _ _ _ _ hc)
      (fun s s' h => by simp only [keepCtl2, Prod.mk.injEq] at h; exact h.2.1) not_app_clear
  | freeze hs k _ _ _ _ =>
    exact RR.ofFrameP (handleFreeze_frame _ _ _ _) (fun s s' h => by simp only [id] at h; rw [h]) not_app_clear
  | freezeAt hs _ _ =>
    exact RR.ofFrameP (handleFreezeAtTime_frame _ _ _) (fun s s' h => by simp only [id] at h; rw [h]) not_app_clear
  | record _ => exact RR.keep rfl [] (by simp) (by simp)
  | enable hs _ _ =>
    exact RR.ofFrameP (handleEnableDisable_frame _ _ _ _)
      (fun s s' h => by simp only [keepEnOnly, Prod.mk.injEq] at h; exact h.2.2.1) (fun h => h)
  | disable hs _ _ =>
    exact RR.ofFrameP (handleEnableDisable_frame _ _ _ _)
      (fun s s' h => by simp only [keepEnOnly, Prod.mk.injEq] at h; exact h.2.2.1) (fun h => h)

theorem processBroadcast_rr (a : Acc) (f : Frag) (m : Nat) (ctrl : AppCtrl) (func : Nat)
    (objs : Except Nat (List ObjHdr)) (raw : List Nat) (a' : Acc)
    (h : processBroadcast a f m ctrl func objs raw = some a') :
    RR (func = 2 ∧ ∃ hs, objs = .ok hs ∧ ∃ h ∈ hs, ClearsRestart h) a a' := by
  obtain ⟨a1, action, hc, e⟩ := processBroadcast_cases a f m ctrl func objs raw a' h
  subst e
  refine RR.trans (RR.keep (b := ({ a.1 with lastBroadcast := some m }, a.2)) rfl [] (by simp) (by simp)) ?_
  refine RR.trans (bccase_rr hc) ?_
  exact RR.keep rfl [.cb (.broadcast func action)] rfl (by simp [clearOut])

theorem writeSolicited_rr {C : Prop} (a : Acc) (dst : Nat) (r : Resp) (a' : Acc) (r' : Resp)
    (h : writeSolicited a dst r = some (a', r')) : RR C a a' :=
  RR.ofFrame (writeSolicited_frame a dst r a' r' h)
    (fun s s' h => by simp only [kR, Prod.mk.injEq] at h; exact h.2.2.1) (by simp)

theorem reqOf_unique {pf : Option Frag} {f f' : Frag} {ctrl ctrl' : AppCtrl} {func func' : Nat}
    {objs objs' : Except Nat (List ObjHdr)} {raw raw' : List Nat}
    (h : ReqOf pf f ctrl func objs raw) (h' : ReqOf pf f' ctrl' func' objs' raw') :
    f = f' ∧ ctrl = ctrl' ∧ func = func' ∧ objs = objs' ∧ raw = raw' := by
  obtain ⟨e1, p1⟩ := h
  obtain ⟨e2, p2⟩ := h'
  rw [e1] at e2
  cases e2
  rw [p1] at p2
  cases p2
  exact ⟨rfl, rfl, rfl, rfl, rfl⟩

theorem reqIdle_rr {pf : Option Frag} (a : Acc) (f : Frag) (ctrl : AppCtrl) (func : Nat)
    (objs : Except Nat (List ObjHdr)) (raw : List Nat) (a' : Acc) (ser : Option Series)
    (hq : ReqOf pf f ctrl func objs raw)
    (h : handleRequestFromIdle a f ctrl func objs raw = some (a', ser)) : RR (WriteClears pf) a a' := by
  obtain ⟨a1, lr, s1, s2⟩ := handleRequestFromIdle_cases _ _ _ _ _ _ _ _ h
  have r1 : RR (WriteClears pf) a a1 := by
    cases s1 with
    | confirm => exact RR.refl _ _
    | bcast m a1 _ _ hp =>
      refine (processBroadcast_rr _ _ _ _ _ _ _ _ hp).mono ?_
      rintro ⟨h2, hs, ho, hh, hm, hc⟩
      subst h2 ho
      exact ⟨f, ctrl, hs, raw, hh, hq.1, hq.2, hm, hc⟩
    | nonRead hs a1 r _ _ _ ho hn =>
      refine (handleNonRead_rr _ _ _ _ _ _ _ _ hn).mono ?_
      rintro ⟨h2, hh, hm, hc⟩
      subst h2 ho
      exact ⟨f, ctrl, hs, raw, hh, hq.1, hq.2, hm, hc⟩
    | prep s1 lr hk _ _ =>
      refine RR.keep ?_ [] (by simp) (by simp)
      simp only [keepRd, Prod.mk.injEq] at hk
      exact hk.2.2.2.2.1
    | echo s1 last hk _ _ _ _ =>
      refine RR.keep ?_ [] (by simp) (by simp)
      simp only [keepRd, Prod.mk.injEq] at hk
      exact hk.2.2.2.2.1
  refine RR.trans r1 ?_
  cases lr with
  | none => cases s2; exact RR.refl _ _
  | some p =>
    obtain ⟨lr, echo⟩ := p
    cases echo with
    | false =>
      rcases s2 with ⟨_, lr', e⟩ | ⟨r, a2, r2, lr', _, hw, e⟩
      · subst e; exact RR.keep rfl [] (by simp) (by simp)
      · subst e
        exact RR.trans (writeSolicited_rr _ _ _ _ _ hw) (RR.keep rfl [] (by simp) (by simp))
    | true =>
      rcases s2 with ⟨_, e⟩ | ⟨r, _, e⟩
      · subst e; exact RR.keep rfl [] (by simp) (by simp)
      · subst e
        refine RR.trans (b := repeatSolicited a1 f.src r) (RR.ofFrame (repeatSolicited_frame _ _ _) ?_ (by simp))
          (RR.keep rfl [] (by simp) (by simp))
        intro s s' h
        simp only [kR, Prod.mk.injEq] at h; exact h.2.2.1

/-- every event respects the restart discipline -/
theorem Ev.rr {pf : Option Frag} {a a' : Acc} (h : Ev pf a a') : RR (WriteClears pf) a a' := by
  have kRr : ∀ s s' : OState, kR s' = kR s → s'.restart = s.restart := fun s s' h => by
    simp only [kR, Prod.mk.injEq] at h; exact h.2.2.1
  have kR'r : ∀ s s' : OState, kR' s' = kR' s → s'.restart = s.restart := fun s s' h => by
    simp only [kR', Prod.mk.injEq] at h; exact h.2.1
  cases h with
  | house s' hh =>
    obtain ⟨n, l, lr, p, hp, e⟩ := hh
    subst e
    exact RR.keep rfl [] (by simp) (by simp)
  | plainCb c hc =>
    refine RR.keep rfl [.cb c] rfl ?_
    intro hm
    simp only [List.mem_singleton, clearOut, OOut.cb.injEq] at hm
    subst hm
    simp [Cb.plain] at hc
  | die => exact RR.keep rfl [.panic] rfl (by simp [clearOut])
  | wsol dst r a' r' hw => exact writeSolicited_rr _ _ _ _ _ hw
  | rsol dst r => exact RR.ofFrame (repeatSolicited_frame _ _ _) kRr (by simp)
  | dbReset => exact RR.keep rfl [] (by simp) (by simp)
  | clrDeferred => exact RR.keep rfl [] (by simp) (by simp)
  | reqIdle f ctrl func objs raw a' ser hq hh => exact reqIdle_rr _ _ _ _ _ _ _ _ hq hh
  | enterSol sr c => exact RR.ofFrame (enterSolWait_frame _ _ _) kRr (by simp)
  | setSolWait sr dl c => exact RR.keep rfl [] (by simp) (by simp)
  | chkStart a' hc => exact RR.ofFrame (checkUnsolicited_frame_inl _ _ hc) kRr (by simp)
  | chkIdle a' n hc => exact RR.ofFrame (checkUnsolicited_frame_inr _ _ _ hc) kRr (by simp)
  | defWait n a' hd => exact RR.ofFrame (handleDeferredRead_frame_inl _ _ _ hd) kRr (by simp)
  | defDone n a' hd => exact RR.ofFrame (handleDeferredRead_frame_inr _ _ _ hd) kRr (by simp)
  | finishPass n => exact RR.ofFrame (finishPass_frame _ _) kRr (by simp)
  | solConf sr dl c f ctrl objs raw _ _ _ _ =>
    refine RR.trans (b := ({ a.1 with lastBroadcast := none }, a.2 ++ [.cb (.solConfirmed sr.ecsn)])) ?_ ?_
    · exact RR.keep rfl [.cb (.solConfirmed sr.ecsn)] rfl (by simp [clearOut])
    · exact RR.ofFrame (clearWrittenEvents_frame _) kRr (by simp)
  | fmtRead fir seq iin2 => exact RR.keep rfl [] (by simp) (by simp)
  | unsolConf resp isNull retries dl f ctrl objs raw _ _ _ _ =>
    refine RR.trans (b := emitCb ({ a.1 with lastBroadcast := if a.1.unsolReported then none else a.1.lastBroadcast }, a.2)
      (.unsolConfirmed resp.ctrl.seq)) ?_ ?_
    · exact RR.keep rfl [.cb (.unsolConfirmed resp.ctrl.seq)] rfl (by simp [clearOut])
    · exact RR.ofFrame (afterUnsolSeries_frame _ _ _) kR'r (by simp)
  | uwSolConfirm resp isNull retries dl f ctrl objs raw _ _ _ =>
    split
    · exact RR.keep rfl [] (by simp) (by simp)
    · exact RR.refl _ _
  | bcast f m ctrl func objs raw a' hq _ _ hp =>
    refine (processBroadcast_rr _ _ _ _ _ _ _ _ hp).mono ?_
    rintro ⟨h2, hs, ho, hh, hm, hc⟩
    subst h2 ho
    exact ⟨f, ctrl, hs, raw, hh, hq.1, hq.2, hm, hc⟩
  | uwBcastSeen resp isNull retries dl f m ctrl func objs raw _ _ _ _ _ => exact RR.keep rfl [] (by simp) (by simp)
  | nonRead f ctrl func hs raw a' r hq _ _ _ hn =>
    refine (handleNonRead_rr _ _ _ _ _ _ _ _ hn).mono ?_
    rintro ⟨h2, hh, hm, hc⟩
    subst h2
    exact ⟨f, ctrl, hs, raw, hh, hq.1, hq.2, hm, hc⟩
  | uwDisable resp isNull retries dl f ctrl hs raw _ _ =>
    exact RR.ofFrame (afterUnsolSeries_frame _ _ _) kR'r (by simp)
  | deferSet f ctrl hs raw _ _ => exact RR.keep rfl [] (by simp) (by simp)
  | uwTimeoutEnd resp isNull retries dl _ _ =>
    refine RR.trans (b := emitCb a (.unsolTimeout resp.ctrl.seq false)) ?_ ?_
    · exact RR.keep rfl [.cb (.unsolTimeout resp.ctrl.seq false)] rfl (by simp [clearOut])
    · exact RR.ofFrame (afterUnsolSeries_frame _ _ _) kR'r (by simp)
  | uwRetry resp isNull retries retries' dl _ _ _ =>
    exact RR.keep rfl [.cb (.unsolTimeout resp.ctrl.seq true),
      .tx a.1.cfg.master ((writeAt a.1.unsolBuf 0 (respHeader resp)).take (max 4 resp.size))]
      (by simp [repeatUnsolicited, emitCb, emit]) (by simp [clearOut])

theorem Reach.rr {pf : Option Frag} {a a' : Acc} (h : Reach pf a a') : RR (WriteClears pf) a a' :=
  Star.lift (RR.refl _) (fun _ _ _ => RR.trans) (fun _ _ => Ev.rr) h

/-- a fragment whose octets parse as a WRITE (function 2) with a restart-clearing g80v1 header -/
def WriteClearsData (data : List Nat) : Prop :=
  ∃ ctrl hs raw h, parseRequest data = .request ctrl 2 (.ok hs) raw ∧ h ∈ hs ∧ ClearsRestart h

/-- the input that can clear `restart`: a received fragment (or, off the reachable path, one still
    held in `pending`) that is such a WRITE -/
def StepWriteClears (s : OState) : OInput → Prop
  | .rx _ _ data => WriteClearsData data
  | .tick _ | .txn _ | .add .. => ∃ f, s.pending = some f ∧ WriteClearsData f.data
  | .cut | .setScript _ => False

theorem writeClears_data {pf : Option Frag} (h : WriteClears pf) : ∃ f, pf = some f ∧ WriteClearsData f.data := by
  obtain ⟨f, ctrl, hs, raw, hh, e, p, hm, hc⟩ := h
  exact ⟨f, e, ctrl, hs, raw, hh, p, hm, hc⟩

/-- the per-step form all of C13.2 follows from -/
theorem restart_step (env : OEnv) (s : OState) (inp : OInput) :
    ((Outstation.step env s inp).1.restart = s.restart ∧ clearOut ∉ (Outstation.step env s inp).2) ∨
    ((Outstation.step env s inp).1.restart = false ∧ clearOut ∈ (Outstation.step env s inp).2 ∧
      StepWriteClears s inp) := by
  rcases step_reach env s inp with ⟨f, hi, e⟩ | e | ⟨pf, s0, o0, hinit, hr⟩
  · left; rw [e]; exact ⟨rfl, by simp⟩
  · left; rw [e]; exact ⟨rfl, by simp⟩
  · have hk := hinit.keep
    have hs0 : s0.restart = s.restart := by
      have := hk.1
      simp only [keepInit, Prod.mk.injEq] at this
      exact this.2.1
    have ho0 : clearOut ∉ o0 := by
      intro hm
      have := hk.2 _ hm
      simp [clearOut, OOut.kind, Cb.kind] at this
    obtain ⟨l, e, c⟩ := Reach.rr hr
    have e' : (Outstation.step env s inp).2 = o0 ++ l := e
    rcases c with ⟨hr1, hn⟩ | ⟨hr1, hm, hc⟩
    · left
      refine ⟨hr1.trans hs0, ?_⟩
      rw [e']
      simp only [List.mem_append, not_or]
      exact ⟨ho0, hn⟩
    · right
      refine ⟨hr1, by rw [e']; simp [hm], ?_⟩
      obtain ⟨f, ef, hd⟩ := writeClears_data hc
      cases hinit with
      | rx src dst data b hb => cases ef; exact hd
      | tick => exact ⟨f, ef, hd⟩
      | txn => exact ⟨f, ef, hd⟩
      | add => exact ⟨f, ef, hd⟩
      | cut => cases ef

/-- **C13.2** (`restart_bit_interval`), per step, for every state and every input:
    * set at construction;
    * never set again;
    * unchanged by a disconnect and by a script change — and by `.tick`, `.txn`, `.add` whenever no
      fragment is left pending (always so on the reachable path, see `restart_step` for the general form);
    * it falls only in a step that emits `clearRestartIin`;
    * that callback is emitted only when the fragment handled is a WRITE (function 2) carrying a
      g80v1 / qualifier 0x00 header whose range reaches index 7 with that bit zero — and then the bit
      is clear afterwards. -/
theorem restart_bit_interval (env : OEnv) (s : OState) (inp : OInput) (cfg : OCfg) (evMax : Nat) :
    (OState.init cfg evMax).restart = true ∧
    ((Outstation.step env s inp).1.restart = true → s.restart = true) ∧
    ((inp matches .cut | .setScript _) ∨ (s.pending = none ∧ (inp matches .tick _ | .txn _ | .add ..)) →
      (Outstation.step env s inp).1.restart = s.restart) ∧
    (s.restart = true → (Outstation.step env s inp).1.restart = false →
      OOut.cb .clearRestartIin ∈ (Outstation.step env s inp).2) ∧
    (OOut.cb .clearRestartIin ∈ (Outstation.step env s inp).2 →
      (Outstation.step env s inp).1.restart = false ∧ StepWriteClears s inp) := by
  have h := restart_step env s inp
  refine ⟨rfl, ?_, ?_, ?_, ?_⟩
  · intro ht
    rcases h with ⟨e, _⟩ | ⟨e, _⟩
    · rw [← e]; exact ht
    · rw [e] at ht; cases ht
  · intro hi
    rcases h with ⟨e, _⟩ | ⟨_, _, hw⟩
    · exact e
    · exfalso
      rcases hi with hi | ⟨hp, hi⟩
      · cases inp <;> simp_all [StepWriteClears]
      · cases inp <;> simp_all [StepWriteClears]
  · intro ht hf
    rcases h with ⟨e, _⟩ | ⟨_, hm, _⟩
    · rw [e, ht] at hf; cases hf
    · exact hm
  · intro hm
    rcases h with ⟨_, hn⟩ | ⟨e, _, hw⟩
    · exact absurd hm hn
    · exact ⟨e, hw⟩

/-- the start-up pass leaves the bit set and emits no `clearRestartIin` -/
theorem restart_at_start (cfg : OCfg) (evMax : Nat) :
    (Outstation.start cfg evMax).1.restart = true ∧ clearOut ∉ (Outstation.start cfg evMax).2 := by
  obtain ⟨l, e, c⟩ := Reach.rr (start_reach cfg evMax)
  rcases c with ⟨hr, hn⟩ | ⟨_, _, hw⟩
  · refine ⟨hr.trans rfl, ?_⟩
    rw [e]; simpa using hn
  · obtain ⟨f, e, _⟩ := writeClears_data hw
    cases e

/-- **C13.2, trace level**: over any input list, `restart` is set at the end iff it was set at the
    beginning and no step so far emitted `clearRestartIin` — i.e. it is true until the first such step
    and false from then on (apply to every prefix). -/
theorem restart_run (env : OEnv) (is : List OInput) (s : OState) :
    (Outstation.run env s is).1.restart = true ↔
      s.restart = true ∧ ∀ o ∈ (Outstation.run env s is).2, OOut.cb .clearRestartIin ∉ o := by
  induction is generalizing s with
  | nil => simp [Outstation.run]
  | cons i is ih =>
    simp only [Outstation.run]
    rw [ih]
    have h := restart_step env s i
    constructor
    · rintro ⟨h1, h2⟩
      rcases h with ⟨e, hn⟩ | ⟨e, _, _⟩
      · refine ⟨by rw [← e]; exact h1, ?_⟩
        intro o ho
        simp only [List.mem_cons] at ho
        rcases ho with rfl | ho
        · exact hn
        · exact h2 o ho
      · rw [e] at h1; cases h1
    · rintro ⟨h1, h2⟩
      have hn := h2 (Outstation.step env s i).2 (by simp)
      rcases h with ⟨e, _⟩ | ⟨_, hm, _⟩
      · exact ⟨by rw [e]; exact h1, fun o ho => h2 o (by simp [ho])⟩
      · exact absurd hm hn

/-- corollary for a whole history from construction -/
theorem restart_history (cfg : OCfg) (evMax : Nat) (env : OEnv) (is : List OInput) :
    (Outstation.run env (Outstation.start cfg evMax).1 is).1.restart = true ↔
      ∀ o ∈ (Outstation.run env (Outstation.start cfg evMax).1 is).2, OOut.cb .clearRestartIin ∉ o := by
  rw [restart_run]
  simp [(restart_at_start cfg evMax).1]

/-! ## 3. `broadcast_bit_rule` -/

/-- (a) a processed broadcast fragment records its confirm mode -/
theorem broadcast_recorded (a : Acc) (f : Frag) (m : Nat) (ctrl : AppCtrl) (func : Nat)
    (objs : Except Nat (List ObjHdr)) (raw : List Nat) (a' : Acc)
    (h : processBroadcast a f m ctrl func objs raw = some a') : a'.1.lastBroadcast = some m :=
  (processBroadcast_frame a f m ctrl func objs raw a' h).2

/-- (b) `getResponseIin` reports a recorded broadcast in IIN1 bit 0 and forgets it unless it is
    confirm-mandatory (mode 1); it touches nothing else -/
theorem broadcast_reported (s s' : OState) (i1 i2 : Nat) (h : getResponseIin s = some (s', i1, i2)) :
    i1.testBit 0 = s.lastBroadcast.isSome ∧
    s' = { s with lastBroadcast := if s.lastBroadcast = some 1 then some 1 else none } := by
  obtain ⟨c1, c2, c3, hu, b⟩ := getResponseIin_bits s s' i1 i2 h
  obtain ⟨_, _, _, _, hs, _, _⟩ := getResponseIin_some s s' i1 i2 h
  exact ⟨b.2.2.2.2.1, by rw [hs, afterIin_eq]⟩

/-- (c) while a confirm-mandatory broadcast is unreported-unconfirmed, every solicited response asks for a confirm -/
theorem broadcast_forces_con (a : Acc) (dst : Nat) (r : Resp) (a' : Acc) (r' : Resp)
    (h : writeSolicited a dst r = some (a', r')) (hb : a.1.lastBroadcast = some 1) :
    r'.ctrl.con = true ∧ a'.1.lastBroadcast = some 1 := by
  obtain ⟨c1, c2, c3, _, _, _, _, _, hc, e⟩ := writeSolicited_eq a dst r a' r' h
  have hl : (afterIin a.1).lastBroadcast = some 1 := by rw [afterIin_eq]; simp [hb]
  constructor
  · rw [hc, if_pos hl]
  · rw [e]; exact hl

/-- outputs that witness a legitimate change of `lastBroadcast`: a processed broadcast, an accepted
    unsolicited confirm, an accepted solicited confirm -/
def BcEvid (o : OOut) : Prop :=
  OOut.kind o = .bcast ∨ OOut.kind o = .unsolConfirmed ∨ ∃ e, o = .cb (.solConfirmed e)

/-- the fragment of this step is a solicited CONFIRM (function 0, UNS clear) -/
def IsSolConfirm (pf : Option Frag) : Prop :=
  ∃ f ctrl objs raw, pf = some f ∧ parseRequest f.data = .request ctrl 0 objs raw ∧ ctrl.uns = false

/-- the fragment of this step is a broadcast with confirm mode `m` -/
def BcastOf (pf : Option Frag) (m : Nat) : Prop := ∃ f, pf = some f ∧ f.broadcast = some m

/-- how `lastBroadcast` may move between two accumulators of one step -/
def BR (pf : Option Frag) (a a' : Acc) : Prop :=
  ∃ l, a'.2 = a.2 ++ l ∧
    (a'.1.lastBroadcast = a.1.lastBroadcast ∨ a'.1.lastBroadcast = none ∨
      ∃ m, BcastOf pf m ∧ a'.1.lastBroadcast = some m) ∧
    ((∀ o ∈ l, OOut.kind o ≠ .bcast) →
      a'.1.lastBroadcast = a.1.lastBroadcast ∨ a'.1.lastBroadcast = none) ∧
    (¬ IsSolConfirm pf → (∀ o ∈ l, ¬ BcEvid o) → a.1.lastBroadcast = some 1 → a'.1.lastBroadcast = some 1) ∧
    (¬ IsSolConfirm pf → (∀ o ∈ l, ¬ BcEvid o ∧ OOut.kind o ≠ .tx) → a'.1.lastBroadcast = a.1.lastBroadcast)

theorem BR.keep {pf : Option Frag} {a b : Acc} (hk : b.1.lastBroadcast = a.1.lastBroadcast) (l : List OOut)
    (e : b.2 = a.2 ++ l) : BR pf a b :=
  ⟨l, e, Or.inl hk, fun _ => Or.inl hk, fun _ _ h => by rw [hk]; exact h, fun _ _ => hk⟩

theorem BR.refl (pf : Option Frag) (a : Acc) : BR pf a a := BR.keep rfl [] (by simp)

theorem BR.trans {pf : Option Frag} {a b c : Acc} (h1 : BR pf a b) (h2 : BR pf b c) : BR pf a c := by
  obtain ⟨l1, e1, v1, s1, p1, n1⟩ := h1
  obtain ⟨l2, e2, v2, s2, p2, n2⟩ := h2
  refine ⟨l1 ++ l2, by rw [e2, e1, List.append_assoc], ?_, ?_, ?_, ?_⟩
  · rcases v2 with h | h | h
    · rw [h]; exact v1
    · exact Or.inr (Or.inl h)
    · exact Or.inr (Or.inr h)
  · intro hn
    have hn1 : ∀ o ∈ l1, OOut.kind o ≠ .bcast := fun o ho => hn o (by simp [ho])
    have hn2 : ∀ o ∈ l2, OOut.kind o ≠ .bcast := fun o ho => hn o (by simp [ho])
    rcases s2 hn2 with h | h
    · rw [h]; exact s1 hn1
    · exact Or.inr h
  · intro hc hn hb
    exact p2 hc (fun o ho => hn o (by simp [ho])) (p1 hc (fun o ho => hn o (by simp [ho])) hb)
  · intro hc hn
    rw [n2 hc (fun o ho => hn o (by simp [ho])), n1 hc (fun o ho => hn o (by simp [ho]))]

/-- a response was transmitted: the bit was reported (and forgotten unless confirm-mandatory) -/
theorem BR.report {pf : Option Frag} {a b : Acc}
    (hk : b.1.lastBroadcast = if a.1.lastBroadcast = some 1 then some 1 else none) (l : List OOut)
    (e : b.2 = a.2 ++ l) (ht : ∃ o ∈ l, OOut.kind o = .tx) : BR pf a b := by
  refine ⟨l, e, ?_, ?_, ?_, ?_⟩
  · by_cases h1 : a.1.lastBroadcast = some 1
    · left; rw [hk, if_pos h1, h1]
    · right; left; rw [hk, if_neg h1]
  · intro _
    by_cases h1 : a.1.lastBroadcast = some 1
    · left; rw [hk, if_pos h1, h1]
    · right; rw [hk, if_neg h1]
  · intro _ _ h1; rw [hk, if_pos h1]
  · intro _ hn
    obtain ⟨o, ho, hkind⟩ := ht
    exact absurd hkind (hn o ho).2

/-- cleared with a witness in the outputs -/
theorem BR.cleared {pf : Option Frag} {a b : Acc} (hk : b.1.lastBroadcast = none) (l : List OOut)
    (e : b.2 = a.2 ++ l) (ht : ∃ o ∈ l, BcEvid o) : BR pf a b := by
  obtain ⟨o, ho, hev⟩ := ht
  exact ⟨l, e, Or.inr (Or.inl hk), fun _ => Or.inr hk, fun _ hn _ => absurd hev (hn o ho),
    fun _ hn => absurd hev (hn o ho).1⟩

theorem writeSolicited_br {pf : Option Frag} (a : Acc) (dst : Nat) (r : Resp) (a' : Acc) (r' : Resp)
    (h : writeSolicited a dst r = some (a', r')) : BR pf a a' := by
  obtain ⟨c1, c2, c3, _, _, _, _, _, _, e⟩ := writeSolicited_eq a dst r a' r' h
  exact BR.report (writeSolicited_keep a dst r a' r' h).2 _ (by rw [e]) ⟨_, List.mem_cons_self, rfl⟩

theorem startUnsolSeries_br {pf : Option Frag} (a : Acc) (r : Resp) (isNull : Bool) (a' : Acc)
    (h : startUnsolSeries a r isNull = some a') : BR pf a a' := by
  obtain ⟨c1, c2, c3, r', _, _, e⟩ := startUnsolSeries_eq a r isNull a' h
  refine BR.report ?_ _ (by rw [e]) ⟨_, List.mem_cons_self, rfl⟩
  rw [e]
  show (afterIin a.1).lastBroadcast = _
  rw [afterIin_eq]

theorem processBroadcast_br {pf : Option Frag} (a : Acc) (f : Frag) (m : Nat) (ctrl : AppCtrl) (func : Nat)
    (objs : Except Nat (List ObjHdr)) (raw : List Nat) (a' : Acc) (hpf : pf = some f) (hb : f.broadcast = some m)
    (h : processBroadcast a f m ctrl func objs raw = some a') : BR pf a a' := by
  obtain ⟨a1, action, hc, e⟩ := processBroadcast_cases a f m ctrl func objs raw a' h
  have hl := (processBroadcast_frame a f m ctrl func objs raw a' h).2
  have hf := (processBroadcast_frame a f m ctrl func objs raw a' h).1
  obtain ⟨_, l, el, _⟩ := hf
  have hmem : OOut.cb (.broadcast func action) ∈ l := by
    have hf1 := (bccase_rr hc)
    obtain ⟨l1, e1, _⟩ := hf1
    have : a'.2 = a.2 ++ (l1 ++ [.cb (.broadcast func action)]) := by
      rw [e]; show a1.2 ++ _ = _; rw [e1, List.append_assoc]
    have : l = l1 ++ [.cb (.broadcast func action)] := List.append_cancel_left (el.symm.trans this)
    rw [this]; simp
  have hev : BcEvid (.cb (.broadcast func action)) := Or.inl rfl
  refine ⟨l, el, Or.inr (Or.inr ⟨m, ⟨f, hpf, hb⟩, hl⟩), ?_, ?_, ?_⟩
  · intro hn; exact absurd rfl (hn _ hmem)
  · intro _ hn; exact absurd hev (hn _ hmem)
  · intro _ hn; exact absurd hev (hn _ hmem).1

theorem BR.keepB {pf : Option Frag} {a b : Acc} (hk : b.1.lastBroadcast = a.1.lastBroadcast) (hb : Base a b) :
    BR pf a b := by
  obtain ⟨_, _, l, e⟩ := hb
  exact BR.keep hk l e

theorem handleNonRead_lb (a : Acc) (func seq fid : Nat) (hs : List ObjHdr) (raw : List Nat)
    (a' : Acc) (r : Option Resp) (h : handleNonRead a func seq fid hs raw = some (a', r)) :
    a'.1.lastBroadcast = a.1.lastBroadcast := by
  have := (handleNonRead_frame a func seq fid hs raw a' r h).1
  simp only [keepNR, Prod.mk.injEq] at this
  exact this.2.2.2.2.2.2.2.2.1

theorem afterUnsolSeries_lb (a : Acc) (isNull c : Bool) :
    (afterUnsolSeries a isNull c).1.1.lastBroadcast = a.1.lastBroadcast := by
  unfold afterUnsolSeries
  split
  · rfl
  · split
    · rw [clearWrittenEvents_eq]
    · rfl

theorem finishPass_lb (a : Acc) (n : NextIdle) : (finishPass a n).1.lastBroadcast = a.1.lastBroadcast := by
  unfold finishPass
  split
  · split <;> rfl
  · rfl

theorem chkCase_br {pf : Option Frag} {a : Acc} {res : Acc ⊕ (Acc × NextIdle)} (h : ChkCase a res) (a' : Acc)
    (hr : res = .inl a' ∨ ∃ n, res = .inr (a', n)) : BR pf a a' := by
  cases h with
  | unsupported => rcases hr with hr | ⟨n, hr⟩ <;> cases hr; exact BR.refl _ _
  | null a1 _ _ hs =>
    rcases hr with hr | ⟨n, hr⟩ <;> cases hr
    exact BR.trans (BR.keep (b := ({ a.1 with unsolSeq := seq4Next a.1.unsolSeq }, a.2)) rfl [] (by simp))
      (startUnsolSeries_br _ _ _ _ hs)
  | tooEarly => rcases hr with hr | ⟨n, hr⟩ <;> cases hr; exact BR.refl _ _
  | disabled => rcases hr with hr | ⟨n, hr⟩ <;> cases hr; exact BR.refl _ _
  | noEvents => rcases hr with hr | ⟨n, hr⟩ <;> cases hr; exact BR.keep rfl [] (by simp)
  | data dl a1 _ _ _ _ _ hs =>
    rcases hr with hr | ⟨n, hr⟩ <;> cases hr
    exact BR.trans (BR.keep (b := ({ afterDbWrite a.1 with unsolSeq := seq4Next a.1.unsolSeq }, a.2)) rfl [] (by simp))
      (startUnsolSeries_br _ _ _ _ hs)

theorem defCase_br {pf : Option Frag} {a : Acc} {next : NextIdle} {res : Acc ⊕ Acc} (h : DefCase a next res)
    (a' : Acc) (hr : res = .inl a' ∨ res = .inr a') : BR pf a a' := by
  cases h with
  | none => rcases hr with hr | hr <;> cases hr; exact BR.refl _ _
  | answered d a2 r2 _ hw _ _ =>
    rcases hr with hr | hr <;> cases hr
    refine BR.trans (BR.keep (b := ((deferredFormat a.1 d).1, a.2)) rfl [] (by simp)) ?_
    exact BR.trans (writeSolicited_br _ _ _ _ _ hw) (BR.keep rfl [] (by simp))
  | awaiting d a2 r2 sr _ hw =>
    rcases hr with hr | hr <;> cases hr
    refine BR.trans (BR.keep (b := ((deferredFormat a.1 d).1, a.2)) rfl [] (by simp)) ?_
    refine BR.trans (writeSolicited_br _ _ _ _ _ hw) ?_
    exact BR.keep rfl [.cb (.solWait sr.ecsn)] rfl

theorem reqIdle_br {pf : Option Frag} (a : Acc) (f : Frag) (ctrl : AppCtrl) (func : Nat)
    (objs : Except Nat (List ObjHdr)) (raw : List Nat) (a' : Acc) (ser : Option Series)
    (hq : ReqOf pf f ctrl func objs raw)
    (h : handleRequestFromIdle a f ctrl func objs raw = some (a', ser)) : BR pf a a' := by
  obtain ⟨a1, lr, s1, s2⟩ := handleRequestFromIdle_cases _ _ _ _ _ _ _ _ h
  have r1 : BR pf a a1 := by
    cases s1 with
    | confirm => exact BR.refl _ _
    | bcast m a1 _ hb hp => exact processBroadcast_br _ _ _ _ _ _ _ _ hq.1 hb hp
    | nonRead hs a1 r _ _ _ ho hn =>
      exact BR.keepB (handleNonRead_lb _ _ _ _ _ _ _ _ hn)
        (Base.ofFrame ((handleNonRead_frame _ _ _ _ _ _ _ _ hn).weaken kS_of_keepNR))
    | prep s1 lr hk _ _ =>
      refine BR.keep ?_ [] (by simp)
      simp only [keepRd, Prod.mk.injEq] at hk
      exact hk.2.2.2.2.2.2.2.2.2.2.2.2.2.1
    | echo s1 last hk _ _ _ _ =>
      refine BR.keep ?_ [] (by simp)
      simp only [keepRd, Prod.mk.injEq] at hk
      exact hk.2.2.2.2.2.2.2.2.2.2.2.2.2.1
  refine BR.trans r1 ?_
  cases lr with
  | none => cases s2; exact BR.refl _ _
  | some p =>
    obtain ⟨lr, echo⟩ := p
    cases echo with
    | false =>
      rcases s2 with ⟨_, lr', e⟩ | ⟨r, a2, r2, lr', _, hw, e⟩
      · subst e; exact BR.keep rfl [] (by simp)
      · subst e
        exact BR.trans (writeSolicited_br _ _ _ _ _ hw) (BR.keep rfl [] (by simp))
    | true =>
      -- the stored response goes out verbatim: `lastBroadcast` is neither reported nor touched
      rcases s2 with ⟨_, e⟩ | ⟨r, _, e⟩
      · subst e; exact BR.keep rfl [] (by simp)
      · subst e
        exact BR.keep rfl [.tx f.src ((writeAt a1.1.solBuf 0 (respHeader r)).take (max 4 r.size))]
          (by simp [repeatSolicited, emit])

/-- every event respects the broadcast-bit discipline -/
theorem Ev.br {pf : Option Frag} {a a' : Acc} (h : Ev pf a a') : BR pf a a' := by
  have hb := Ev.base h
  cases h with
  | house s' hh =>
    obtain ⟨n, l, lr, p, hp, e⟩ := hh
    subst e
    exact BR.keepB rfl hb
  | plainCb c hc => exact BR.keepB rfl hb
  | die => exact BR.keepB rfl hb
  | wsol dst r a' r' hw => exact writeSolicited_br _ _ _ _ _ hw
  | rsol dst r => exact BR.keepB rfl hb
  | dbReset => exact BR.keepB rfl hb
  | clrDeferred => exact BR.keepB rfl hb
  | reqIdle f ctrl func objs raw a' ser hq hh => exact reqIdle_br _ _ _ _ _ _ _ _ hq hh
  | enterSol sr c => exact BR.keepB rfl hb
  | setSolWait sr dl c => exact BR.keepB rfl hb
  | chkStart a' hc => exact chkCase_br (checkUnsolicited_cases _ _ hc) a' (Or.inl rfl)
  | chkIdle a' n hc => exact chkCase_br (checkUnsolicited_cases _ _ hc) a' (Or.inr ⟨n, rfl⟩)
  | defWait n a' hd => exact defCase_br (handleDeferredRead_cases _ _ _ hd) a' (Or.inl rfl)
  | defDone n a' hd => exact defCase_br (handleDeferredRead_cases _ _ _ hd) a' (Or.inr rfl)
  | finishPass n => exact BR.keepB (finishPass_lb _ _) hb
  | solConf sr dl c f ctrl objs raw _ _ _ _ =>
    rw [clearWrittenEvents_eq]
    exact BR.cleared rfl _ (by rw [List.append_assoc]) ⟨.cb (.solConfirmed sr.ecsn), by simp, Or.inr (Or.inr ⟨_, rfl⟩)⟩
  | fmtRead fir seq iin2 => exact BR.keepB rfl hb
  | unsolConf resp isNull retries dl f ctrl objs raw _ _ _ _ =>
    obtain ⟨_, _, l, e⟩ := Base.ofFrame ((afterUnsolSeries_frame
      (emitCb ({ a.1 with lastBroadcast := if a.1.unsolReported then none else a.1.lastBroadcast }, a.2)
        (.unsolConfirmed resp.ctrl.seq)) isNull true).weaken kS_of_kR')
    have hl := afterUnsolSeries_lb
      (emitCb ({ a.1 with lastBroadcast := if a.1.unsolReported then none else a.1.lastBroadcast }, a.2)
        (.unsolConfirmed resp.ctrl.seq)) isNull true
    have e' : (afterUnsolSeries
        (emitCb ({ a.1 with lastBroadcast := if a.1.unsolReported then none else a.1.lastBroadcast }, a.2)
          (.unsolConfirmed resp.ctrl.seq)) isNull true).1.2 = a.2 ++ ([.cb (.unsolConfirmed resp.ctrl.seq)] ++ l) := by
      rw [e]; simp [emitCb, emit]
    by_cases hur : a.1.unsolReported = true
    · -- the confirmed response had reported the record: cleared, with the `unsolConfirmed` callback as witness
      refine BR.cleared ?_ _ e' ⟨.cb (.unsolConfirmed resp.ctrl.seq), by simp, Or.inr (Or.inl rfl)⟩
      rw [hl]; show (if a.1.unsolReported = true then none else a.1.lastBroadcast) = none
      rw [if_pos hur]
    · -- it had not: the record is kept
      refine BR.keep ?_ _ e'
      rw [hl]; show (if a.1.unsolReported = true then none else a.1.lastBroadcast) = _
      rw [if_neg hur]
  | uwSolConfirm resp isNull retries dl f ctrl objs raw _ hq hu =>
    have hsc : IsSolConfirm pf := ⟨f, ctrl, objs, raw, hq.1, hq.2, hu⟩
    by_cases h1 : a.1.lastBroadcast = some 1
    · rw [if_pos h1]
      exact ⟨[], by simp, Or.inr (Or.inl rfl), fun _ => Or.inr rfl, fun hn => absurd hsc hn,
        fun hn => absurd hsc hn⟩
    · rw [if_neg h1]; exact BR.refl _ _
  | bcast f m ctrl func objs raw a' hq _ hbm hp => exact processBroadcast_br _ _ _ _ _ _ _ _ hq.1 hbm hp
  | uwBcastSeen resp isNull retries dl f m ctrl func objs raw _ _ _ _ _ => exact BR.keepB rfl hb
  | nonRead f ctrl func hs raw a' r hq _ _ _ hn => exact BR.keepB (handleNonRead_lb _ _ _ _ _ _ _ _ hn) hb
  | uwDisable resp isNull retries dl f ctrl hs raw _ _ => exact BR.keepB (afterUnsolSeries_lb _ _ _) hb
  | deferSet f ctrl hs raw _ _ => exact BR.keepB rfl hb
  | uwTimeoutEnd resp isNull retries dl _ _ => exact BR.keepB (afterUnsolSeries_lb _ _ _) hb
  | uwRetry resp isNull retries retries' dl _ _ _ => exact BR.keepB rfl hb

theorem Reach.br {pf : Option Frag} {a a' : Acc} (h : Reach pf a a') : BR pf a a' :=
  Star.lift (BR.refl _) (fun _ _ _ => BR.trans) (fun _ _ => Ev.br) h

/-! ### the unsolicited confirm and `unsolReported` (D16 repaired)

`OState.unsolReported` says whether the unsolicited response awaiting its confirm carried IIN1.0 and no
broadcast was received since it was written.  The relation `UR` below follows it through every event. -/

/-- a transmitted fragment whose IIN1.0 (broadcast received) is set -/
def ReportsBroadcast : OOut → Prop
  | .tx _ bytes => (bytes.getD 2 0).testBit 0 = true
  | _ => False

/-- an output that is neither a processed broadcast, nor an accepted solicited confirm, nor a transmitted
    fragment with IIN1.0 set -/
def Quiet (o : OOut) : Prop :=
  OOut.kind o ≠ .bcast ∧ (∀ e, o ≠ .cb (.solConfirmed e)) ∧ ¬ ReportsBroadcast o

/-- an output that is neither a processed broadcast, nor an accepted solicited confirm, nor the start of a
    new unsolicited series (`Cb.unsolWait`) -/
def Quiet1 (o : OOut) : Prop :=
  OOut.kind o ≠ .bcast ∧ (∀ e, o ≠ .cb (.solConfirmed e)) ∧ OOut.kind o ≠ .unsolWait

/-- if the flag is set while waiting, the unsolicited response awaiting its confirm carried IIN1.0 -/
def ReportedOk (s : OState) : Prop :=
  ∀ resp isNull retries dl, s.mode = .unsolWait resp isNull retries dl → s.unsolReported = true →
    resp.iin1.testBit 0 = true

def UR (pf : Option Frag) (a a' : Acc) : Prop :=
  ∃ l, a'.2 = a.2 ++ l ∧
    (ReportedOk a.1 → ReportedOk a'.1) ∧
    (¬ IsSolConfirm pf → (∀ o ∈ l, Quiet o) → a.1.unsolReported = false →
      a'.1.unsolReported = false ∧ a'.1.lastBroadcast = a.1.lastBroadcast) ∧
    (¬ IsSolConfirm pf → (∀ o ∈ l, Quiet1 o) → a.1.unsolReported = false → a.1.lastBroadcast = some 1 →
      a'.1.unsolReported = false ∧ a'.1.lastBroadcast = some 1)

theorem ReportedOk.of_eq {s s' : OState} (hm : s'.mode = s.mode) (hu : s'.unsolReported = s.unsolReported)
    (h : ReportedOk s) : ReportedOk s' := by
  intro resp isNull retries dl m u
  rw [hm] at m; rw [hu] at u
  exact h _ _ _ _ m u

theorem ReportedOk.of_notWait {s' : OState} (hm : ∀ r n t d, s'.mode ≠ .unsolWait r n t d) : ReportedOk s' :=
  fun r n t d m _ => absurd m (hm r n t d)

theorem UR.same {pf : Option Frag} {a b : Acc} (hm : b.1.mode = a.1.mode)
    (hu : b.1.unsolReported = a.1.unsolReported) (l : List OOut) (e : b.2 = a.2 ++ l)
    (hl : (∀ o ∈ l, Quiet o) → b.1.lastBroadcast = a.1.lastBroadcast)
    (hl1 : (∀ o ∈ l, Quiet1 o) → a.1.lastBroadcast = some 1 → b.1.lastBroadcast = some 1) : UR pf a b :=
  ⟨l, e, ReportedOk.of_eq hm hu, fun _ hq h0 => ⟨by rw [hu]; exact h0, hl hq⟩,
    fun _ hq h0 h1 => ⟨by rw [hu]; exact h0, hl1 hq h1⟩⟩

theorem UR.keep {pf : Option Frag} {a b : Acc} (hm : b.1.mode = a.1.mode)
    (hu : b.1.unsolReported = a.1.unsolReported) (hl : b.1.lastBroadcast = a.1.lastBroadcast)
    (l : List OOut) (e : b.2 = a.2 ++ l) : UR pf a b :=
  UR.same hm hu l e (fun _ => hl) (fun _ h1 => by rw [hl]; exact h1)

theorem UR.leave {pf : Option Frag} {a b : Acc} (hm : ∀ r n t d, b.1.mode ≠ .unsolWait r n t d)
    (hu : b.1.unsolReported = a.1.unsolReported) (hl : b.1.lastBroadcast = a.1.lastBroadcast)
    (l : List OOut) (e : b.2 = a.2 ++ l) : UR pf a b :=
  ⟨l, e, fun _ => ReportedOk.of_notWait hm, fun _ _ h0 => ⟨by rw [hu]; exact h0, hl⟩,
    fun _ _ h0 h1 => ⟨by rw [hu]; exact h0, by rw [hl]; exact h1⟩⟩

theorem UR.refl (pf : Option Frag) (a : Acc) : UR pf a a := UR.keep rfl rfl rfl [] (by simp)

theorem UR.trans {pf : Option Frag} {a b c : Acc} (h1 : UR pf a b) (h2 : UR pf b c) : UR pf a c := by
  obtain ⟨l1, e1, r1, q1, p1⟩ := h1
  obtain ⟨l2, e2, r2, q2, p2⟩ := h2
  refine ⟨l1 ++ l2, by rw [e2, e1, List.append_assoc], fun h => r2 (r1 h), ?_, ?_⟩
  · intro hc hq h0
    obtain ⟨u1, b1⟩ := q1 hc (fun o ho => hq o (by simp [ho])) h0
    obtain ⟨u2, b2⟩ := q2 hc (fun o ho => hq o (by simp [ho])) u1
    exact ⟨u2, b2.trans b1⟩
  · intro hc hq h0 hb
    obtain ⟨u1, b1⟩ := p1 hc (fun o ho => hq o (by simp [ho])) h0 hb
    exact p2 hc (fun o ho => hq o (by simp [ho])) u1 b1

theorem UR.keepB {pf : Option Frag} {a b : Acc} (hm : b.1.mode = a.1.mode)
    (hu : b.1.unsolReported = a.1.unsolReported) (hl : b.1.lastBroadcast = a.1.lastBroadcast) (hb : Base a b) :
    UR pf a b := by
  obtain ⟨_, _, l, e⟩ := hb
  exact UR.keep hm hu hl l e

theorem UR.leaveB {pf : Option Frag} {a b : Acc} (hm : ∀ r n t d, b.1.mode ≠ .unsolWait r n t d)
    (hu : b.1.unsolReported = a.1.unsolReported) (hl : b.1.lastBroadcast = a.1.lastBroadcast) (hb : Base a b) :
    UR pf a b := by
  obtain ⟨_, _, l, e⟩ := hb
  exact UR.leave hm hu hl l e

/-- the third octet of a fragment whose first four octets are known -/
theorem getD2_of_take4 (bytes : List Nat) (x0 x1 x2 x3 : Nat) (h : bytes.take 4 = [x0, x1, x2, x3]) :
    bytes.getD 2 0 = x2 := by
  match bytes, h with
  | b0 :: b1 :: b2 :: b3 :: _, h =>
    simp only [List.take_succ_cons, List.cons.injEq] at h
    simp [h.2.2.1]

theorem keepWS_mu {s s' : OState} (h : keepWS s' = keepWS s) :
    s'.mode = s.mode ∧ s'.unsolReported = s.unsolReported := by
  simp only [keepWS, Prod.mk.injEq] at h
  exact ⟨by simp [h], by simp [h]⟩

theorem keepNR_mu {s s' : OState} (h : keepNR s' = keepNR s) :
    s'.mode = s.mode ∧ s'.unsolReported = s.unsolReported ∧ s'.lastBroadcast = s.lastBroadcast := by
  simp only [keepNR, Prod.mk.injEq] at h
  exact ⟨by simp [h], by simp [h], by simp [h]⟩

theorem keepBC_mu {s s' : OState} (h : keepBC s' = keepBC s) :
    s'.mode = s.mode ∧ s'.unsolReported = s.unsolReported := by
  simp only [keepBC, Prod.mk.injEq] at h
  exact ⟨by simp [h], by simp [h]⟩

theorem keepRd_mu {s s' : OState} (h : keepRd s' = keepRd s) :
    s'.mode = s.mode ∧ s'.unsolReported = s.unsolReported ∧ s'.lastBroadcast = s.lastBroadcast := by
  simp only [keepRd, Prod.mk.injEq] at h
  exact ⟨by simp [h], by simp [h], by simp [h]⟩

theorem writeSolicited_ur {pf : Option Frag} (a : Acc) (dst : Nat) (r : Resp) (a' : Acc) (r' : Resp)
    (h : writeSolicited a dst r = some (a', r')) : UR pf a a' := by
  obtain ⟨s1, i1, i2, bytes, hg, e1, _, ho, hb⟩ := iin_of_fresh_response_sol a dst r a' r' h
  obtain ⟨c1, c2, c3, _, b⟩ := getResponseIin_bits _ _ _ _ hg
  have hk := writeSolicited_keep a dst r a' r' h
  obtain ⟨hm, hu⟩ := keepWS_mu hk.1
  refine UR.same hm hu [.tx dst bytes] ho ?_ (fun _ h1 => by rw [hk.2, if_pos h1])
  intro hq
  have hq1 : ¬ ReportsBroadcast (.tx dst bytes) := (hq _ (List.mem_singleton_self _)).2.2
  have hn : a.1.lastBroadcast = none := by
    cases hlb : a.1.lastBroadcast with
    | none => rfl
    | some m =>
      exfalso; apply hq1
      show (bytes.getD 2 0).testBit 0 = true
      rw [getD2_of_take4 _ _ _ _ _ hb, Nat.testBit_or, b.2.2.2.2.1, hlb]; simp
  rw [hk.2, hn]; rfl

theorem startUnsolSeries_ur {pf : Option Frag} (a : Acc) (r : Resp) (isNull : Bool) (a' : Acc)
    (h : startUnsolSeries a r isNull = some a') : UR pf a a' := by
  obtain ⟨c1, c2, c3, r', _, hr, e⟩ := startUnsolSeries_eq a r isNull a' h
  have b1 := (iin1Of_bits a.1.lastBroadcast.isSome c1 c2 c3 (a.1.script.appIin.testBit 0)
    (a.1.script.appIin.testBit 1) (a.1.script.appIin.testBit 2) a.1.restart).1
  refine ⟨_, (by rw [e]), ?_, ?_, ?_⟩
  · intro _ resp n t d m u
    rw [e] at m u
    cases m
    exact u
  · intro _ hq _
    have hq1 := (hq (.tx a.1.cfg.master ((writeAt (afterIin a.1).unsolBuf 0 (respHeader r')).take (max 4 r'.size)))
      (by simp)).2.2
    have h0 : r'.iin1.testBit 0 = false := by
      cases hb : r'.iin1.testBit 0 with
      | false => rfl
      | true =>
        exfalso; apply hq1
        show (List.getD _ 2 0).testBit 0 = true
        rw [getD2_of_take4 _ _ _ _ _ (take4_header _ (respHeader r') r'.size rfl)]
        exact hb
    have hn : a.1.lastBroadcast = none := by
      cases hlb : a.1.lastBroadcast with
      | none => rfl
      | some m =>
        rw [hr] at h0
        have : (r.iin1 ||| iin1Of a.1.lastBroadcast.isSome c1 c2 c3 (a.1.script.appIin.testBit 0)
          (a.1.script.appIin.testBit 1) (a.1.script.appIin.testBit 2) a.1.restart).testBit 0 = false := h0
        rw [Nat.testBit_or, b1, hlb] at this
        simp at this
    rw [e]
    refine ⟨h0, ?_⟩
    show (afterIin a.1).lastBroadcast = _
    rw [afterIin_eq, hn]; rfl
  · -- a new series: `Cb.unsolWait` is among the outputs
    intro _ hq
    exact absurd rfl (hq (.cb (.unsolWait r.ctrl.seq)) (by simp)).2.2

theorem afterUnsolSeries_mu (a : Acc) (isNull c : Bool) :
    (afterUnsolSeries a isNull c).1.1.mode = a.1.mode ∧
    (afterUnsolSeries a isNull c).1.1.unsolReported = a.1.unsolReported := by
  unfold afterUnsolSeries
  split
  · exact ⟨rfl, rfl⟩
  · split
    · rw [clearWrittenEvents_eq]; exact ⟨rfl, rfl⟩
    · exact ⟨rfl, rfl⟩

theorem finishPass_ur (a : Acc) (n : NextIdle) : (finishPass a n).1.unsolReported = a.1.unsolReported := by
  unfold finishPass
  split
  · split <;> rfl
  · rfl

theorem finishPass_notWait (a : Acc) (n : NextIdle) (r : Resp) (i : Bool) (t : Option Nat) (d : Nat) :
    (finishPass a n).1.mode ≠ .unsolWait r i t d := by
  intro h
  unfold finishPass at h
  cases h

theorem chkCase_ur {pf : Option Frag} {a : Acc} {res : Acc ⊕ (Acc × NextIdle)} (h : ChkCase a res) (a' : Acc)
    (hr : res = .inl a' ∨ ∃ n, res = .inr (a', n)) : UR pf a a' := by
  cases h with
  | unsupported => rcases hr with hr | ⟨n, hr⟩ <;> cases hr; exact UR.refl _ _
  | null a1 _ _ hs =>
    rcases hr with hr | ⟨n, hr⟩ <;> cases hr
    exact UR.trans (UR.keep (b := ({ a.1 with unsolSeq := seq4Next a.1.unsolSeq }, a.2)) rfl rfl rfl [] (by simp))
      (startUnsolSeries_ur _ _ _ _ hs)
  | tooEarly => rcases hr with hr | ⟨n, hr⟩ <;> cases hr; exact UR.refl _ _
  | disabled => rcases hr with hr | ⟨n, hr⟩ <;> cases hr; exact UR.refl _ _
  | noEvents => rcases hr with hr | ⟨n, hr⟩ <;> cases hr; exact UR.keep rfl rfl rfl [] (by simp)
  | data dl a1 _ _ _ _ _ hs =>
    rcases hr with hr | ⟨n, hr⟩ <;> cases hr
    exact UR.trans (UR.keep (b := ({ afterDbWrite a.1 with unsolSeq := seq4Next a.1.unsolSeq }, a.2)) rfl rfl rfl []
      (by simp)) (startUnsolSeries_ur _ _ _ _ hs)

theorem enterSolWait_ur {pf : Option Frag} (a : Acc) (sr : Series) (c : SolCont) : UR pf a (enterSolWait a sr c) :=
  UR.leave (fun _ _ _ _ h => by cases h) rfl rfl [.cb (.solWait sr.ecsn)] rfl

theorem defCase_ur {pf : Option Frag} {a : Acc} {next : NextIdle} {res : Acc ⊕ Acc} (h : DefCase a next res)
    (a' : Acc) (hr : res = .inl a' ∨ res = .inr a') : UR pf a a' := by
  cases h with
  | none => rcases hr with hr | hr <;> cases hr; exact UR.refl _ _
  | answered d a2 r2 _ hw _ _ =>
    rcases hr with hr | hr <;> cases hr
    refine UR.trans (UR.keep (b := ((deferredFormat a.1 d).1, a.2)) rfl rfl rfl [] (by simp)) ?_
    exact UR.trans (writeSolicited_ur _ _ _ _ _ hw) (UR.keep rfl rfl rfl [] (by simp))
  | awaiting d a2 r2 sr _ hw =>
    rcases hr with hr | hr <;> cases hr
    refine UR.trans (UR.keep (b := ((deferredFormat a.1 d).1, a.2)) rfl rfl rfl [] (by simp)) ?_
    refine UR.trans (writeSolicited_ur _ _ _ _ _ hw) ?_
    exact UR.trans (UR.keep (b := ({ a2.1 with lastReq := some ⟨d.seq, d.frag, some r2, (deferredFormat a.1 d).2.2⟩ }, a2.2))
      rfl rfl rfl [] (by simp)) (enterSolWait_ur _ _ _)

theorem processBroadcast_ur {pf : Option Frag} (a : Acc) (f : Frag) (m : Nat) (ctrl : AppCtrl) (func : Nat)
    (objs : Except Nat (List ObjHdr)) (raw : List Nat) (a' : Acc)
    (h : processBroadcast a f m ctrl func objs raw = some a') : UR pf a a' := by
  obtain ⟨a1, action, hc, e⟩ := processBroadcast_cases a f m ctrl func objs raw a' h
  obtain ⟨hk, l, el, _⟩ := (processBroadcast_frame a f m ctrl func objs raw a' h).1
  obtain ⟨hm, hu⟩ := keepBC_mu hk
  have hmem : OOut.cb (.broadcast func action) ∈ l := by
    obtain ⟨l1, e1, _⟩ := bccase_rr hc
    have : a'.2 = a.2 ++ (l1 ++ [.cb (.broadcast func action)]) := by
      rw [e]; show a1.2 ++ _ = _; rw [e1, List.append_assoc]
    have : l = l1 ++ [.cb (.broadcast func action)] := List.append_cancel_left (el.symm.trans this)
    rw [this]; simp
  exact UR.same hm hu l el (fun hq => absurd rfl (hq _ hmem).1) (fun hq => absurd rfl (hq _ hmem).1)

theorem reqIdle_ur {pf : Option Frag} (a : Acc) (f : Frag) (ctrl : AppCtrl) (func : Nat)
    (objs : Except Nat (List ObjHdr)) (raw : List Nat) (a' : Acc) (ser : Option Series)
    (h : handleRequestFromIdle a f ctrl func objs raw = some (a', ser)) : UR pf a a' := by
  obtain ⟨a1, lr, s1, s2⟩ := handleRequestFromIdle_cases _ _ _ _ _ _ _ _ h
  have r1 : UR pf a a1 := by
    cases s1 with
    | confirm => exact UR.refl _ _
    | bcast m a1 _ hb hp => exact processBroadcast_ur _ _ _ _ _ _ _ _ hp
    | nonRead hs a1 r _ _ _ ho hn =>
      obtain ⟨hm, hu, hl⟩ := keepNR_mu (handleNonRead_frame _ _ _ _ _ _ _ _ hn).1
      exact UR.keepB hm hu hl (Base.ofFrame ((handleNonRead_frame _ _ _ _ _ _ _ _ hn).weaken kS_of_keepNR))
    | prep s1 lr hk _ _ =>
      obtain ⟨hm, hu, hl⟩ := keepRd_mu hk
      exact UR.keep hm hu hl [] (by simp)
    | echo s1 last hk _ _ _ _ =>
      obtain ⟨hm, hu, hl⟩ := keepRd_mu hk
      exact UR.keep hm hu hl [] (by simp)
  refine UR.trans r1 ?_
  cases lr with
  | none => cases s2; exact UR.refl _ _
  | some p =>
    obtain ⟨lr, echo⟩ := p
    cases echo with
    | false =>
      rcases s2 with ⟨_, lr', e⟩ | ⟨r, a2, r2, lr', _, hw, e⟩
      · subst e; exact UR.keep rfl rfl rfl [] (by simp)
      · subst e
        exact UR.trans (writeSolicited_ur _ _ _ _ _ hw) (UR.keep rfl rfl rfl [] (by simp))
    | true =>
      rcases s2 with ⟨_, e⟩ | ⟨r, _, e⟩
      · subst e; exact UR.keep rfl rfl rfl [] (by simp)
      · subst e
        exact UR.keep rfl rfl rfl [.tx f.src ((writeAt a1.1.solBuf 0 (respHeader r)).take (max 4 r.size))]
          (by simp [repeatSolicited, emit])

/-- every event keeps `ReportedOk`, and leaves an unreported record alone unless its outputs say otherwise -/
theorem Ev.ur {pf : Option Frag} {a a' : Acc} (h : Ev pf a a') : UR pf a a' := by
  have hb := Ev.base h
  cases h with
  | house s' hh =>
    obtain ⟨n, l, lr, p, hp, e⟩ := hh
    subst e
    exact UR.keepB rfl rfl rfl hb
  | plainCb c hc => exact UR.keepB rfl rfl rfl hb
  | die => exact UR.leaveB (fun _ _ _ _ h => by cases h) rfl rfl hb
  | wsol dst r a' r' hw => exact writeSolicited_ur _ _ _ _ _ hw
  | rsol dst r => exact UR.keepB rfl rfl rfl hb
  | dbReset => exact UR.keepB rfl rfl rfl hb
  | clrDeferred => exact UR.keepB rfl rfl rfl hb
  | reqIdle f ctrl func objs raw a' ser hq hh => exact reqIdle_ur _ _ _ _ _ _ _ _ hh
  | enterSol sr c => exact enterSolWait_ur _ _ _
  | setSolWait sr dl c => exact UR.leaveB (fun _ _ _ _ h => by cases h) rfl rfl hb
  | chkStart a' hc => exact chkCase_ur (checkUnsolicited_cases _ _ hc) a' (Or.inl rfl)
  | chkIdle a' n hc => exact chkCase_ur (checkUnsolicited_cases _ _ hc) a' (Or.inr ⟨n, rfl⟩)
  | defWait n a' hd => exact defCase_ur (handleDeferredRead_cases _ _ _ hd) a' (Or.inl rfl)
  | defDone n a' hd => exact defCase_ur (handleDeferredRead_cases _ _ _ hd) a' (Or.inr rfl)
  | finishPass n => exact UR.leaveB (finishPass_notWait _ _) (finishPass_ur _ _) (finishPass_lb _ _) hb
  | solConf sr dl c f ctrl objs raw _ _ _ _ =>
    rw [clearWrittenEvents_eq]
    exact UR.same rfl rfl _ (by rw [List.append_assoc])
      (fun hq => absurd rfl ((hq (.cb (.solConfirmed sr.ecsn)) (by simp)).2.1 sr.ecsn))
      (fun hq => absurd rfl ((hq (.cb (.solConfirmed sr.ecsn)) (by simp)).2.1 sr.ecsn))
  | fmtRead fir seq iin2 => exact UR.keepB rfl rfl rfl hb
  | unsolConf resp isNull retries dl f ctrl objs raw _ _ _ _ =>
    obtain ⟨_, _, l, e⟩ := hb
    obtain ⟨hm, hu⟩ := afterUnsolSeries_mu
      (emitCb ({ a.1 with lastBroadcast := if a.1.unsolReported then none else a.1.lastBroadcast }, a.2)
        (.unsolConfirmed resp.ctrl.seq)) isNull true
    have hl := afterUnsolSeries_lb
      (emitCb ({ a.1 with lastBroadcast := if a.1.unsolReported then none else a.1.lastBroadcast }, a.2)
        (.unsolConfirmed resp.ctrl.seq)) isNull true
    have key : a.1.unsolReported = false →
        (afterUnsolSeries (emitCb ({ a.1 with lastBroadcast := if a.1.unsolReported then none else a.1.lastBroadcast }, a.2)
          (.unsolConfirmed resp.ctrl.seq)) isNull true).1.1.lastBroadcast = a.1.lastBroadcast := by
      intro h0
      have h0' : ¬ a.1.unsolReported = true := by rw [h0]; simp
      rw [hl]
      show (if a.1.unsolReported = true then none else a.1.lastBroadcast) = _
      rw [if_neg h0']
    exact ⟨l, e, ReportedOk.of_eq hm hu, fun _ _ h0 => ⟨hu.trans h0, key h0⟩,
      fun _ _ h0 h1 => ⟨hu.trans h0, (key h0).trans h1⟩⟩
  | uwSolConfirm resp isNull retries dl f ctrl objs raw _ hq hu =>
    have hsc : IsSolConfirm pf := ⟨f, ctrl, objs, raw, hq.1, hq.2, hu⟩
    refine ⟨[], by split <;> simp, ?_, fun hn => absurd hsc hn, fun hn => absurd hsc hn⟩
    split
    · exact ReportedOk.of_eq rfl rfl
    · exact id
  | bcast f m ctrl func objs raw a' hq _ hbm hp => exact processBroadcast_ur _ _ _ _ _ _ _ _ hp
  | uwBcastSeen resp isNull retries dl f m ctrl func objs raw _ _ _ _ _ =>
    exact ⟨[], by simp, fun _ _ _ _ _ _ u => (by cases u), fun _ _ _ => ⟨rfl, rfl⟩, fun _ _ _ h1 => ⟨rfl, h1⟩⟩
  | nonRead f ctrl func hs raw a' r hq _ _ _ hn =>
    obtain ⟨hm, hu, hl⟩ := keepNR_mu (handleNonRead_frame _ _ _ _ _ _ _ _ hn).1
    exact UR.keepB hm hu hl hb
  | uwDisable resp isNull retries dl f ctrl hs raw _ _ =>
    exact UR.keepB (afterUnsolSeries_mu _ _ _).1 (afterUnsolSeries_mu _ _ _).2 (afterUnsolSeries_lb _ _ _) hb
  | deferSet f ctrl hs raw _ _ => exact UR.keepB rfl rfl rfl hb
  | uwTimeoutEnd resp isNull retries dl _ _ =>
    exact UR.keepB (afterUnsolSeries_mu _ _ _).1 (afterUnsolSeries_mu _ _ _).2 (afterUnsolSeries_lb _ _ _) hb
  | uwRetry resp isNull retries retries' dl hmode _ _ =>
    obtain ⟨_, _, l, e⟩ := hb
    refine ⟨l, e, ?_, fun _ _ h0 => ⟨h0, rfl⟩, fun _ _ h0 h1 => ⟨h0, h1⟩⟩
    intro hok r n t d m u
    cases m
    exact hok _ _ _ _ hmode u

theorem Reach.ur {pf : Option Frag} {a a' : Acc} (h : Reach pf a a') : UR pf a a' :=
  Star.lift (UR.refl _) (fun _ _ _ => UR.trans) (fun _ _ => Ev.ur) h

/-- **C13.3** (`broadcast_bit_rule`), per step, for every state and input.  With `pf` the fragment the
    step examines:
    * `lastBroadcast` ends unchanged, or cleared, or equal to the confirm mode of the broadcast
      fragment `pf`;
    * it is *set* only in a step that processed a broadcast (`Cb.broadcast` in the outputs);
    * a confirm-mandatory record (`some 1`) persists unless the step shows an accepted solicited /
      unsolicited confirm or a new broadcast — or `pf` is a solicited CONFIRM (the silent
      "solicited confirm during the unsolicited wait" case);
    * nothing at all changes it in a step that transmits no response and shows none of those;
    * (D16 repaired) an accepted unsolicited confirm changes it only if `unsolReported` was set: from a
      state with `unsolReported = false`, a step that shows no processed broadcast, no accepted solicited
      confirm and no transmitted fragment with IIN1.0 set (`Quiet`; `pf` not a solicited CONFIRM) leaves
      `lastBroadcast` as it is and `unsolReported` clear — an `unsolConfirmed` callback, retransmissions
      of the unsolicited response and responses not reporting a broadcast are all allowed in that step;
    * (D16 repaired) likewise a confirm-mandatory record (`some 1`) with `unsolReported = false` persists
      through a step that shows no processed broadcast, no accepted solicited confirm and no new
      unsolicited series (`Quiet1`; `pf` not a solicited CONFIRM), even if the step accepts the unsolicited
      confirm and transmits responses that report the record. -/
theorem broadcast_bit_rule (env : OEnv) (s : OState) (inp : OInput) :
    ∃ pf, StepFrag env s inp pf ∧
      ((Outstation.step env s inp).1.lastBroadcast = s.lastBroadcast ∨
        (Outstation.step env s inp).1.lastBroadcast = none ∨
        ∃ m, BcastOf pf m ∧ (Outstation.step env s inp).1.lastBroadcast = some m) ∧
      ((∀ o ∈ (Outstation.step env s inp).2, OOut.kind o ≠ .bcast) →
        (Outstation.step env s inp).1.lastBroadcast = s.lastBroadcast ∨
        (Outstation.step env s inp).1.lastBroadcast = none) ∧
      (¬ IsSolConfirm pf → (∀ o ∈ (Outstation.step env s inp).2, ¬ BcEvid o) →
        s.lastBroadcast = some 1 → (Outstation.step env s inp).1.lastBroadcast = some 1) ∧
      (¬ IsSolConfirm pf → (∀ o ∈ (Outstation.step env s inp).2, ¬ BcEvid o ∧ OOut.kind o ≠ .tx) →
        (Outstation.step env s inp).1.lastBroadcast = s.lastBroadcast) ∧
      (¬ IsSolConfirm pf → (∀ o ∈ (Outstation.step env s inp).2, Quiet o) → s.unsolReported = false →
        (Outstation.step env s inp).1.unsolReported = false ∧
        (Outstation.step env s inp).1.lastBroadcast = s.lastBroadcast) ∧
      (¬ IsSolConfirm pf → (∀ o ∈ (Outstation.step env s inp).2, Quiet1 o) → s.unsolReported = false →
        s.lastBroadcast = some 1 →
        (Outstation.step env s inp).1.unsolReported = false ∧
        (Outstation.step env s inp).1.lastBroadcast = some 1) := by
  rcases step_reach env s inp with ⟨f, hi, e⟩ | e | ⟨pf, s0, o0, hinit, hr⟩
  · subst hi
    refine ⟨none, rfl, ?_⟩
    rw [e]
    exact ⟨Or.inl rfl, fun _ => Or.inl rfl, fun _ _ h => h, fun _ _ => rfl, fun _ _ h => ⟨h, rfl⟩,
        fun _ _ h h1 => ⟨h, h1⟩⟩
  · refine ⟨match inp with | .tick _ | .txn _ | .add .. => s.pending | _ => none, ?_, ?_⟩
    · cases inp <;> simp [StepFrag]
    · rw [e]
      exact ⟨Or.inl rfl, fun _ => Or.inl rfl, fun _ _ h => h, fun _ _ => rfl, fun _ _ h => ⟨h, rfl⟩,
        fun _ _ h h1 => ⟨h, h1⟩⟩
  · refine ⟨pf, hinit.frag, ?_⟩
    obtain ⟨hk, _⟩ := hinit.keep
    simp only [keepInit, Prod.mk.injEq] at hk
    have hlb : s0.lastBroadcast = s.lastBroadcast := hk.2.2.2.2.2.2.2.1
    have hur : s0.unsolReported = s.unsolReported := hk.2.2.2.2.2.2.2.2.2
    obtain ⟨l, el, v, st, p, n⟩ := Reach.br hr
    obtain ⟨l', el2, _, q, q1⟩ := Reach.ur hr
    have el' : (Outstation.step env s inp).2 = o0 ++ l := el
    have ell : l' = l := List.append_cancel_left (el2.symm.trans el)
    subst ell
    have sub : ∀ {P : OOut → Prop}, (∀ o ∈ (Outstation.step env s inp).2, P o) → ∀ o ∈ l', P o := by
      intro P h o ho
      exact h o (by rw [el']; simp [ho])
    have hlb' : ((s0, o0) : Acc).1.lastBroadcast = s.lastBroadcast := hlb
    have hur' : ((s0, o0) : Acc).1.unsolReported = s.unsolReported := hur
    rw [hlb'] at v st p n q q1
    rw [hur'] at q q1
    exact ⟨v, fun h => st (sub h), fun hc h => p hc (sub h), fun hc h => n hc (sub h), fun hc h => q hc (sub h),
      fun hc h => q1 hc (sub h)⟩

/-- **C13.3, D16 repaired** (`unsol_confirm_keeps_unreported`), per step, for every state and input: the fifth
    clause of `broadcast_bit_rule` on its own.  From a state with `unsolReported = false` (no broadcast
    indication was reported by the unsolicited response awaiting its confirm), a step that shows no
    processed broadcast, no accepted solicited confirm and transmits no fragment with IIN1.0 set, and
    whose fragment is not a solicited CONFIRM, keeps `lastBroadcast` — even when it accepts the
    unsolicited confirm (`Cb.unsolConfirmed` among its outputs is allowed by `Quiet`). -/
theorem unsol_confirm_keeps_unreported (env : OEnv) (s : OState) (inp : OInput)
    (hsc : ∀ pf, StepFrag env s inp pf → ¬ IsSolConfirm pf)
    (hq : ∀ o ∈ (Outstation.step env s inp).2, Quiet o) (h0 : s.unsolReported = false) :
    (Outstation.step env s inp).1.unsolReported = false ∧
    (Outstation.step env s inp).1.lastBroadcast = s.lastBroadcast := by
  obtain ⟨pf, hf, _, _, _, _, h5, _⟩ := broadcast_bit_rule env s inp
  exact h5 (hsc pf hf) hq h0

/-- the sixth clause of `broadcast_bit_rule` on its own: a confirm-mandatory record that the awaited unsolicited
    response did not report survives the step — the unsolicited confirm does not clear it, and the responses
    transmitted meanwhile report it (IIN1.0, CON forced: `broadcast_forces_con`) without clearing it -/
theorem unsol_confirm_keeps_mandatory (env : OEnv) (s : OState) (inp : OInput)
    (hsc : ∀ pf, StepFrag env s inp pf → ¬ IsSolConfirm pf)
    (hq : ∀ o ∈ (Outstation.step env s inp).2, Quiet1 o) (h0 : s.unsolReported = false)
    (h1 : s.lastBroadcast = some 1) :
    (Outstation.step env s inp).1.unsolReported = false ∧
    (Outstation.step env s inp).1.lastBroadcast = some 1 := by
  obtain ⟨pf, hf, _, _, _, _, _, h6⟩ := broadcast_bit_rule env s inp
  exact h6 (hsc pf hf) hq h0 h1

/-- (d) what the three accepted confirms do to the record: the solicited confirm (in the solicited wait)
    clears it; the unsolicited confirm clears it iff the confirmed response had reported it
    (`unsolReported`) and otherwise KEEPS it (D16 repaired: before, it was cleared unconditionally); a
    solicited confirm received in the unsolicited wait clears a confirm-mandatory record -/
theorem confirm_clears_broadcast (a : Acc) (o : List OOut) (c : Cb) (isNull : Bool) :
    (clearWrittenEvents ({ a.1 with lastBroadcast := none }, o)).1.lastBroadcast = none ∧
    (afterUnsolSeries (emitCb ({ a.1 with lastBroadcast := if a.1.unsolReported then none else a.1.lastBroadcast }, a.2) c)
      isNull true).1.1.lastBroadcast = (if a.1.unsolReported then none else a.1.lastBroadcast) ∧
    (if a.1.lastBroadcast = some 1 then (({ a.1 with lastBroadcast := none }, a.2) : Acc) else a).1.lastBroadcast ≠ some 1 := by
  refine ⟨by rw [clearWrittenEvents_eq], by rw [afterUnsolSeries_lb]; rfl, ?_⟩
  split
  · simp
  · assumption

/-! ### `unsolReported` is sound -/

/-- a step prologue keeps `ReportedOk` -/
theorem StepInit.reportedOk {env : OEnv} {s : OState} {inp : OInput} {pf : Option Frag} {s0 : OState}
    {o0 : List OOut} (h : StepInit env s inp pf s0 o0) (hok : ReportedOk s) : ReportedOk s0 := by
  have hk := h.keep.1
  simp only [keepInit, Prod.mk.injEq] at hk
  rcases h.mode with ⟨hm, _, _⟩ | ⟨_, hm, _⟩
  · exact ReportedOk.of_eq hm hk.2.2.2.2.2.2.2.2.2 hok
  · exact ReportedOk.of_notWait (fun _ _ _ _ e => by rw [hm] at e; cases e)

/-- **`unsolReported_sound`** (step level, every state, every input): `ReportedOk` — "if `unsolReported` is
    set while the session waits for an unsolicited confirm, the unsolicited response awaiting that confirm
    carried IIN1.0" — is preserved by `Outstation.step`. -/
theorem unsolReported_sound (env : OEnv) (s : OState) (inp : OInput) (h : ReportedOk s) :
    ReportedOk (Outstation.step env s inp).1 := by
  rcases step_reach env s inp with ⟨f, _, e⟩ | e | ⟨pf, s0, o0, hinit, hr⟩
  · rw [e]; exact ReportedOk.of_eq rfl rfl h
  · rw [e]; exact h
  · obtain ⟨_, _, r, _⟩ := Reach.ur hr
    exact r (StepInit.reportedOk hinit h)

/-- … and it holds after construction -/
theorem unsolReported_sound_start (cfg : OCfg) (evMax : Nat) : ReportedOk (Outstation.start cfg evMax).1 := by
  obtain ⟨_, _, r, _⟩ := Reach.ur (start_reach cfg evMax)
  exact r (ReportedOk.of_notWait (fun _ _ _ _ e => by cases e))

/-- hence in every state reachable from construction -/
theorem unsolReported_sound_reachable (cfg : OCfg) (evMax : Nat) (env : OEnv) (s : OState)
    (h : Outstation.Reachable cfg evMax env s) : ReportedOk s := by
  induction h with
  | start => exact unsolReported_sound_start cfg evMax
  | step s i _ ih => exact unsolReported_sound env s i ih

/-! ### a broadcast processed during the unsolicited wait -/

/-- the fragment of this step is a broadcast request (function code ≠ 0) with confirm mode `m` -/
def BcastReq (pf : Option Frag) (m : Nat) : Prop :=
  ∃ f ctrl func objs raw, ReqOf pf f ctrl func objs raw ∧ func ≠ 0 ∧ f.broadcast = some m

/-- a `Cb.broadcast` among the outputs: only from the step's own fragment, a broadcast request -/
def KO (pf : Option Frag) (a a' : Acc) : Prop :=
  ∃ l, a'.2 = a.2 ++ l ∧ ((∃ o ∈ l, OOut.kind o = .bcast) → ∃ m, BcastReq pf m)

theorem KO.none {pf : Option Frag} {a b : Acc} (l : List OOut) (e : b.2 = a.2 ++ l)
    (hn : ∀ o ∈ l, OOut.kind o ≠ .bcast) : KO pf a b :=
  ⟨l, e, fun ⟨o, ho, hk⟩ => absurd hk (hn o ho)⟩

theorem KO.refl (pf : Option Frag) (a : Acc) : KO pf a a := KO.none [] (by simp) (by simp)

theorem KO.trans {pf : Option Frag} {a b c : Acc} (h1 : KO pf a b) (h2 : KO pf b c) : KO pf a c := by
  obtain ⟨l1, e1, c1⟩ := h1
  obtain ⟨l2, e2, c2⟩ := h2
  refine ⟨l1 ++ l2, by rw [e2, e1, List.append_assoc], ?_⟩
  rintro ⟨o, ho, hk⟩
  rcases List.mem_append.1 ho with h | h
  · exact c1 ⟨o, h, hk⟩
  · exact c2 ⟨o, h, hk⟩

theorem KO.ofFrame {κ} {K : OState → κ} {ks : List OKind} {pf : Option Frag} {a b : Acc}
    (h : Frame K (KP ks) a b) (hc : OKind.bcast ∉ ks) : KO pf a b := by
  obtain ⟨_, l, e, p⟩ := h
  exact KO.none l e (fun o ho hk => hc (hk ▸ p o ho))

theorem KO.ofFrameP {κ} {K : OState → κ} {P : OOut → Prop} {pf : Option Frag} {a b : Acc} (h : Frame K P a b)
    (hc : ∀ o, P o → OOut.kind o ≠ .bcast) : KO pf a b := by
  obtain ⟨_, l, e, p⟩ := h
  exact KO.none l e (fun o ho => hc o (p o ho))

theorem nrp_not_bcast (o : OOut) (h : NRP o) : OOut.kind o ≠ .bcast := by
  have := NRP_kind o h
  intro hk
  simp [KP, hk] at this

theorem processBroadcast_ko {pf : Option Frag} (a : Acc) (f : Frag) (m : Nat) (ctrl : AppCtrl) (func : Nat)
    (objs : Except Nat (List ObjHdr)) (raw : List Nat) (a' : Acc) (hq : ReqOf pf f ctrl func objs raw)
    (h0 : func ≠ 0) (hb : f.broadcast = some m)
    (h : processBroadcast a f m ctrl func objs raw = some a') : KO pf a a' := by
  obtain ⟨_, l, e, _⟩ := (processBroadcast_frame a f m ctrl func objs raw a' h).1
  exact ⟨l, e, fun _ => ⟨m, f, ctrl, func, objs, raw, hq, h0, hb⟩⟩

theorem reqIdle_ko {pf : Option Frag} (a : Acc) (f : Frag) (ctrl : AppCtrl) (func : Nat)
    (objs : Except Nat (List ObjHdr)) (raw : List Nat) (a' : Acc) (ser : Option Series)
    (hq : ReqOf pf f ctrl func objs raw)
    (h : handleRequestFromIdle a f ctrl func objs raw = some (a', ser)) : KO pf a a' := by
  obtain ⟨a1, lr, s1, s2⟩ := handleRequestFromIdle_cases _ _ _ _ _ _ _ _ h
  have r1 : KO pf a a1 := by
    cases s1 with
    | confirm => exact KO.refl _ _
    | bcast m a1 h0 hb hp => exact processBroadcast_ko _ _ _ _ _ _ _ _ hq h0 hb hp
    | nonRead hs a1 r _ _ _ ho hn => exact KO.ofFrameP (handleNonRead_frame _ _ _ _ _ _ _ _ hn) nrp_not_bcast
    | prep s1 lr hk _ _ => exact KO.none [] (by simp) (by simp)
    | echo s1 last hk _ _ _ _ => exact KO.none [] (by simp) (by simp)
  refine KO.trans r1 ?_
  cases lr with
  | none => cases s2; exact KO.refl _ _
  | some p =>
    obtain ⟨lr, echo⟩ := p
    cases echo with
    | false =>
      rcases s2 with ⟨_, lr', e⟩ | ⟨r, a2, r2, lr', _, hw, e⟩
      · subst e; exact KO.none [] (by simp) (by simp)
      · subst e
        exact KO.trans (KO.ofFrame (writeSolicited_frame _ _ _ _ _ hw) (by simp)) (KO.none [] (by simp) (by simp))
    | true =>
      rcases s2 with ⟨_, e⟩ | ⟨r, _, e⟩
      · subst e; exact KO.none [] (by simp) (by simp)
      · subst e
        exact KO.trans (b := repeatSolicited a1 f.src r) (KO.ofFrame (repeatSolicited_frame _ _ _) (by simp))
          (KO.none [] (by simp) (by simp))

theorem Ev.ko {pf : Option Frag} {a a' : Acc} (h : Ev pf a a') : KO pf a a' := by
  cases h with
  | house s' hh => exact KO.none [] (by simp) (by simp)
  | plainCb c hc =>
    refine KO.none [.cb c] rfl ?_
    intro o ho
    simp only [List.mem_singleton] at ho
    subst ho
    cases c <;> simp [Cb.plain] at hc <;> simp [OOut.kind, Cb.kind]
  | die => exact KO.none [.panic] rfl (by simp [OOut.kind])
  | wsol dst r a' r' hw => exact KO.ofFrame (writeSolicited_frame _ _ _ _ _ hw) (by simp)
  | rsol dst r => exact KO.ofFrame (repeatSolicited_frame _ _ _) (by simp)
  | dbReset => exact KO.none [] (by simp) (by simp)
  | clrDeferred => exact KO.none [] (by simp) (by simp)
  | reqIdle f ctrl func objs raw a' ser hq hh => exact reqIdle_ko _ _ _ _ _ _ _ _ hq hh
  | enterSol sr c => exact KO.ofFrame (enterSolWait_frame _ _ _) (by simp)
  | setSolWait sr dl c => exact KO.none [] (by simp) (by simp)
  | chkStart a' hc => exact KO.ofFrame (checkUnsolicited_frame_inl _ _ hc) (by simp)
  | chkIdle a' n hc => exact KO.ofFrame (checkUnsolicited_frame_inr _ _ _ hc) (by simp)
  | defWait n a' hd => exact KO.ofFrame (handleDeferredRead_frame_inl _ _ _ hd) (by simp)
  | defDone n a' hd => exact KO.ofFrame (handleDeferredRead_frame_inr _ _ _ hd) (by simp)
  | finishPass n => exact KO.ofFrame (finishPass_frame _ _) (by simp)
  | solConf sr dl c f ctrl objs raw _ _ _ _ =>
    refine KO.trans (b := ({ a.1 with lastBroadcast := none }, a.2 ++ [.cb (.solConfirmed sr.ecsn)])) ?_ ?_
    · exact KO.none [.cb (.solConfirmed sr.ecsn)] rfl (by simp [OOut.kind, Cb.kind])
    · exact KO.ofFrame (clearWrittenEvents_frame _) (by simp)
  | fmtRead fir seq iin2 => exact KO.none [] (by simp) (by simp)
  | unsolConf resp isNull retries dl f ctrl objs raw _ _ _ _ =>
    refine KO.trans (b := emitCb ({ a.1 with lastBroadcast := if a.1.unsolReported then none else a.1.lastBroadcast }, a.2)
      (.unsolConfirmed resp.ctrl.seq)) ?_ ?_
    · exact KO.none [.cb (.unsolConfirmed resp.ctrl.seq)] rfl (by simp [OOut.kind, Cb.kind])
    · exact KO.ofFrame (afterUnsolSeries_frame _ _ _) (by simp)
  | uwSolConfirm resp isNull retries dl f ctrl objs raw _ _ _ =>
    split
    · exact KO.none [] (by simp) (by simp)
    · exact KO.refl _ _
  | bcast f m ctrl func objs raw a' hq h0 hb hp => exact processBroadcast_ko _ _ _ _ _ _ _ _ hq h0 hb hp
  | uwBcastSeen resp isNull retries dl f m ctrl func objs raw _ _ _ _ _ => exact KO.none [] (by simp) (by simp)
  | nonRead f ctrl func hs raw a' r hq _ _ _ hn =>
    exact KO.ofFrameP (handleNonRead_frame _ _ _ _ _ _ _ _ hn) nrp_not_bcast
  | uwDisable resp isNull retries dl f ctrl hs raw _ _ => exact KO.ofFrame (afterUnsolSeries_frame _ _ _) (by simp)
  | deferSet f ctrl hs raw _ _ => exact KO.none [] (by simp) (by simp)
  | uwTimeoutEnd resp isNull retries dl _ _ =>
    refine KO.trans (b := emitCb a (.unsolTimeout resp.ctrl.seq false)) ?_ ?_
    · exact KO.none [.cb (.unsolTimeout resp.ctrl.seq false)] rfl (by simp [OOut.kind, Cb.kind])
    · exact KO.ofFrame (afterUnsolSeries_frame _ _ _) (by simp)
  | uwRetry resp isNull retries retries' dl _ _ _ =>
    exact KO.none [.cb (.unsolTimeout resp.ctrl.seq true),
      .tx a.1.cfg.master ((writeAt a.1.unsolBuf 0 (respHeader resp)).take (max 4 resp.size))]
      (by simp [repeatUnsolicited, emitCb, emit]) (by simp [OOut.kind, Cb.kind])

theorem Reach.ko {pf : Option Frag} {a a' : Acc} (h : Reach pf a a') : KO pf a a' :=
  Star.lift (KO.refl _) (fun _ _ _ => KO.trans) (fun _ _ => Ev.ko) h



theorem settle_blocked_idle (n : Nat) (a : Acc) (h : a.1.pending = none) : settle n (.blocked a) = .blocked a := by
  cases n with
  | zero => rfl
  | succ n => unfold settle; simp [h]

theorem settle_panicked (n : Nat) (a : Acc) : settle n (.panicked a) = .panicked a := by
  cases n with
  | zero => rfl
  | succ n => unfold settle; rfl

/-- a step prologue other than a disconnect leaves the step's fragment pending -/
theorem StepInit.pending {env : OEnv} {s : OState} {inp : OInput} {pf : Option Frag} {s0 : OState} {o0 : List OOut}
    (h : StepInit env s inp pf s0 o0) : s0.pending = pf := by
  cases h with
  | rx => rfl
  | tick => rfl
  | txn items =>
    have := (txnFold_frame s items).1
    simp only [keepDb, Prod.mk.injEq] at this
    show (txnFold s items).1.pending = s.pending
    simp [this]
  | add => rfl
  | cut => rfl

theorem classify_broadcast (s : OState) (f : Frag) (ctrl : AppCtrl) (func : Nat) (objs : Except Nat (List ObjHdr))
    (m : Nat) (h0 : func ≠ 0) (hb : f.broadcast = some m) : classify s f ctrl func objs = .broadcast m := by
  unfold classify
  rw [if_neg h0, hb]

theorem popRequest_own (s : OState) (f : Frag) (ctrl : AppCtrl) (func : Nat) (objs : Except Nat (List ObjHdr))
    (raw : List Nat) (hp : s.pending = some f) (hq : parseRequest f.data = .request ctrl func objs raw)
    (hm : ¬ (s.cfg.anymaster = false ∧ f.src ≠ s.cfg.master)) :
    popRequest s = (s, .request f ctrl func objs raw) := by
  simp only [popRequest, hp, hq]
  rw [if_neg]
  intro h
  apply hm
  refine ⟨?_, h.2⟩
  have := h.1
  simpa using this



/-- **`broadcast_in_wait_resets_reported`** (step level, every state, every input): a step that starts in the
    unsolicited confirm wait and processes a broadcast (a `Cb.broadcast` among its outputs) has the broadcast
    fragment `pf` (confirm mode `m`) as its fragment, stays in the wait, records `lastBroadcast = some m`
    and ends with `unsolReported = false` — so the confirm of the unsolicited response that is being
    awaited, written before that broadcast, will not clear the record (`unsol_confirm_keeps_unreported`). -/
theorem broadcast_in_wait_resets_reported (env : OEnv) (s : OState) (inp : OInput) (resp : Resp) (isNull : Bool)
    (retries : Option Nat) (dl : Nat) (hm : s.mode = .unsolWait resp isNull retries dl)
    (hb : ∃ o ∈ (Outstation.step env s inp).2, OOut.kind o = .bcast) :
    ∃ pf m, StepFrag env s inp pf ∧ BcastOf pf m ∧
      (Outstation.step env s inp).1.mode = s.mode ∧
      (Outstation.step env s inp).1.unsolReported = false ∧
      (Outstation.step env s inp).1.lastBroadcast = some m := by
  rcases step_dispatch env s inp with ⟨f, _, e⟩ | e | hcut | ⟨pf, s0, o0, hinit, hnc, e⟩
  · rw [e] at hb; simp at hb
  · rw [e] at hb; simp at hb
  · subst hcut
    rcases step_reach env s .cut with ⟨f, hi, _⟩ | e | ⟨pf, s0, o0, hinit, hr⟩
    · cases hi
    · rw [e] at hb; simp at hb
    · exfalso
      obtain ⟨l, el, c⟩ := Reach.ko hr
      have ho0 := hinit.keep.2
      obtain ⟨o, ho, hk⟩ := hb
      rw [show (Outstation.step env s .cut).2 = o0 ++ l from el] at ho
      rcases List.mem_append.1 ho with h | h
      · have := ho0 o h; rw [hk] at this; cases this
      · obtain ⟨m, f, ctrl, func, objs, raw, hq, _, _⟩ := c ⟨o, h, hk⟩
        cases hinit
        cases hq.1
  · have hpend := StepInit.pending hinit
    have hp : PendOk pf (s0, o0) := Or.inr hpend
    have hr : Reach pf (s0, o0) (Outstation.step env s inp) := by
      rw [e]; exact settle_reach hp 8 _ (dispatch_reach hp _ (Star.refl _))
    obtain ⟨l, el, c⟩ := Reach.ko hr
    have ho0 := hinit.keep.2
    obtain ⟨m, f, ctrl, func, objs, raw, hq, h0, hbm⟩ : ∃ m, BcastReq pf m := by
      obtain ⟨o, ho, hk⟩ := hb
      rw [show (Outstation.step env s inp).2 = o0 ++ l from el] at ho
      rcases List.mem_append.1 ho with h | h
      · have := ho0 o h; rw [hk] at this; cases this
      · exact c ⟨o, h, hk⟩
    have hmode : s0.mode = .unsolWait resp isNull retries dl := by
      rcases hinit.mode with ⟨h, _, _⟩ | ⟨h, _, _⟩
      · rw [h, hm]
      · exact absurd h hnc
    have hp0 : s0.pending = some f := by rw [hpend]; exact hq.1
    refine ⟨pf, m, hinit.frag, ⟨f, hq.1, hbm⟩, ?_⟩
    have hd : dispatch (s0, o0) = unsolWaitOnFragment (s0, o0) resp isNull := by
      unfold dispatch
      simp only [hmode, hp0]
      simp
    by_cases hfm : s0.cfg.anymaster = false ∧ f.src ≠ s0.cfg.master
    · exfalso
      have : Outstation.step env s inp = ({ s0 with pending := none }, o0) := by
        rw [e, hd]; unfold unsolWaitOnFragment
        simp only [popRequest_foreign s0 f hp0 hfm]
        rw [settle_blocked_idle _ _ rfl]; rfl
      rw [this] at hb
      obtain ⟨o, ho, hk⟩ := hb
      have := ho0 o ho; rw [hk] at this; cases this
    · have hpop := popRequest_own s0 f ctrl func objs raw hp0 hq.2 hfm
      have hcl := classify_broadcast (onLinkActivity { s0 with pending := none }) f ctrl func objs m h0 hbm
      cases hpb : processBroadcast ({ onLinkActivity { s0 with pending := none } with deferred := none }, o0)
          f m ctrl func objs raw with
      | none =>
        exfalso
        have : Outstation.step env s inp =
            ({ onLinkActivity { s0 with pending := none } with mode := .dead }, o0 ++ [.panic]) := by
          rw [e, hd]; unfold unsolWaitOnFragment
          simp only [hpop, hcl, hpb]
          rw [die, settle_panicked]; rfl
        rw [this] at hb
        obtain ⟨o, ho, hk⟩ := hb
        rcases List.mem_append.1 ho with h | h
        · have := ho0 o h; rw [hk] at this; cases this
        · simp only [List.mem_singleton] at h; subst h; cases hk
      | some a' =>
        obtain ⟨⟨hk, _⟩, hlb⟩ := processBroadcast_frame _ _ _ _ _ _ _ _ hpb
        have hk' := hk
        simp only [keepBC, Prod.mk.injEq] at hk'
        have hpn : a'.1.pending = none := by simp [hk']; rfl
        have : Outstation.step env s inp = ({ a'.1 with unsolReported := false }, a'.2) := by
          rw [e, hd]; unfold unsolWaitOnFragment
          simp only [hpop, hcl, hpb]
          rw [settle_blocked_idle]
          · rfl
          · exact hpn
        rw [this]
        refine ⟨?_, rfl, hlb⟩
        show a'.1.mode = s.mode
        rw [hm, ← hmode]
        simp [hk']; rfl

/-! ### trace level: the record survives the unsolicited confirm -/

/-- a step that shows none of the events that legitimately consume or replace a broadcast record: its
    fragment is not a solicited CONFIRM and every output satisfies `Q` — `Quiet` (an accepted unsolicited
    confirm, retransmissions and responses without IIN1.0 are allowed) or, for a confirm-mandatory record,
    `Quiet1` (an accepted unsolicited confirm and every response short of a new unsolicited series are allowed) -/
def QuietStep (Q : OOut → Prop) (env : OEnv) (s : OState) (inp : OInput) : Prop :=
  (∀ pf, StepFrag env s inp pf → ¬ IsSolConfirm pf) ∧ ∀ o ∈ (Outstation.step env s inp).2, Q o

/-- every step of the run is a `QuietStep` -/
def QuietRun (Q : OOut → Prop) (env : OEnv) : OState → List OInput → Prop
  | _, [] => True
  | s, i :: is => QuietStep Q env s i ∧ QuietRun Q env (Outstation.step env s i).1 is

/-- trace form of `unsol_confirm_keeps_unreported`: along a quiet run from a state with
    `unsolReported = false` the record stays as it is, however many unsolicited confirms are accepted -/
theorem unreported_record_kept_run (env : OEnv) (is : List OInput) (s : OState) (h0 : s.unsolReported = false)
    (hq : QuietRun Quiet env s is) :
    (Outstation.run env s is).1.unsolReported = false ∧
    (Outstation.run env s is).1.lastBroadcast = s.lastBroadcast := by
  induction is generalizing s with
  | nil => exact ⟨h0, rfl⟩
  | cons i is ih =>
    obtain ⟨⟨hsc, hqo⟩, hrest⟩ := hq
    obtain ⟨h1, h2⟩ := unsol_confirm_keeps_unreported env s i hsc hqo h0
    obtain ⟨h3, h4⟩ := ih (Outstation.step env s i).1 h1 hrest
    simp only [Outstation.run]
    exact ⟨h3, h4.trans h2⟩

/-- trace form of `unsol_confirm_keeps_mandatory`: a confirm-mandatory record with `unsolReported = false`
    stays along a run without processed broadcast, accepted solicited confirm or new unsolicited series -/
theorem mandatory_record_kept_run (env : OEnv) (is : List OInput) (s : OState) (h0 : s.unsolReported = false)
    (hl : s.lastBroadcast = some 1) (hq : QuietRun Quiet1 env s is) :
    (Outstation.run env s is).1.unsolReported = false ∧
    (Outstation.run env s is).1.lastBroadcast = some 1 := by
  induction is generalizing s with
  | nil => exact ⟨h0, hl⟩
  | cons i is ih =>
    obtain ⟨⟨hsc, hqo⟩, hrest⟩ := hq
    obtain ⟨h1, h2⟩ := unsol_confirm_keeps_mandatory env s i hsc hqo h0 hl
    simp only [Outstation.run]
    exact ih (Outstation.step env s i).1 h1 h2 hrest

/-- **C13.3, trace level, D16 repaired** (`broadcast_never_dropped_by_unsol_confirm`): a broadcast processed
    while the session waits for an unsolicited confirm (first input `i0`: the step starts in `.unsolWait …` and
    shows a `Cb.broadcast`) leaves the record `lastBroadcast = some m` (`m` the confirm mode of that
    fragment), and the record is still there at the end of every quiet continuation `is` of the run —
    in particular after the unsolicited confirm of that wait has been accepted (`Cb.unsolConfirmed` is
    `Quiet`), after retransmissions of the unsolicited response, and after responses that do not carry
    IIN1.0.  So the next response built reports it (`broadcast_reported`, `iin_of_fresh_response`):
    `getResponseIin` of the final state returns IIN1 with bit 0 set.
    (Before the repair of D16 the unsolicited confirm dropped the record unreported.) -/
theorem broadcast_never_dropped_by_unsol_confirm (env : OEnv) (s : OState) (i0 : OInput) (is : List OInput)
    (resp : Resp) (isNull : Bool) (retries : Option Nat) (dl : Nat)
    (hm : s.mode = .unsolWait resp isNull retries dl)
    (hb : ∃ o ∈ (Outstation.step env s i0).2, OOut.kind o = .bcast)
    (hq : QuietRun Quiet env (Outstation.step env s i0).1 is) :
    ∃ pf m, StepFrag env s i0 pf ∧ BcastOf pf m ∧
      (Outstation.run env s (i0 :: is)).1.lastBroadcast = some m ∧
      (Outstation.run env s (i0 :: is)).1.unsolReported = false ∧
      ∀ s' i1 i2, getResponseIin (Outstation.run env s (i0 :: is)).1 = some (s', i1, i2) → i1.testBit 0 = true := by
  obtain ⟨pf, m, hf, hbm, _, hu, hl⟩ := broadcast_in_wait_resets_reported env s i0 resp isNull retries dl hm hb
  obtain ⟨h1, h2⟩ := unreported_record_kept_run env is _ hu hq
  have hfin : (Outstation.run env s (i0 :: is)).1 = (Outstation.run env (Outstation.step env s i0).1 is).1 := by
    simp only [Outstation.run]
  refine ⟨pf, m, hf, hbm, ?_, ?_, ?_⟩
  · rw [hfin, h2, hl]
  · rw [hfin, h1]
  · intro s' i1 i2 hg
    rw [(broadcast_reported _ _ _ _ hg).1, hfin, h2, hl]; rfl

/-- … and for a confirm-mandatory broadcast (destination 0xFFFE, mode 1) processed during the unsolicited
    wait the continuation may also transmit responses that report the record (they carry IIN1.0 and CON,
    `broadcast_forces_con`, and do not clear it): the record `some 1` is still there after the unsolicited
    confirm, as long as no solicited confirm is accepted, no new broadcast processed and no new unsolicited
    series started (`Quiet1`) -/
theorem mandatory_broadcast_never_dropped_by_unsol_confirm (env : OEnv) (s : OState) (i0 : OInput)
    (is : List OInput) (resp : Resp) (isNull : Bool) (retries : Option Nat) (dl : Nat)
    (hm : s.mode = .unsolWait resp isNull retries dl)
    (hb : ∃ o ∈ (Outstation.step env s i0).2, OOut.kind o = .bcast)
    (h1 : (Outstation.step env s i0).1.lastBroadcast = some 1)
    (hq : QuietRun Quiet1 env (Outstation.step env s i0).1 is) :
    ∃ pf, StepFrag env s i0 pf ∧ BcastOf pf 1 ∧
      (Outstation.run env s (i0 :: is)).1.lastBroadcast = some 1 ∧
      (Outstation.run env s (i0 :: is)).1.unsolReported = false ∧
      ∀ s' i1 i2, getResponseIin (Outstation.run env s (i0 :: is)).1 = some (s', i1, i2) → i1.testBit 0 = true := by
  obtain ⟨pf, m, hf, hbm, _, hu, hl⟩ := broadcast_in_wait_resets_reported env s i0 resp isNull retries dl hm hb
  have hm1 : m = 1 := by rw [hl] at h1; cases h1; rfl
  subst hm1
  obtain ⟨k1, k2⟩ := mandatory_record_kept_run env is _ hu h1 hq
  have hfin : (Outstation.run env s (i0 :: is)).1 = (Outstation.run env (Outstation.step env s i0).1 is).1 := by
    simp only [Outstation.run]
  refine ⟨pf, hf, hbm, ?_, ?_, ?_⟩
  · rw [hfin, k2]
  · rw [hfin, k1]
  · intro s' i1 i2 hg
    rw [(broadcast_reported _ _ _ _ hg).1, hfin, k2]; rfl

/-- `Quiet` as a Boolean test -/
def quietB : OOut → Bool
  | .cb (.broadcast ..) => false
  | .cb (.solConfirmed _) => false
  | .tx _ bytes => !(bytes.getD 2 0).testBit 0
  | _ => true

theorem quiet_iff (o : OOut) : Quiet o ↔ quietB o = true := by
  cases o with
  | cb c => cases c <;> simp [Quiet, quietB, OOut.kind, Cb.kind, ReportsBroadcast]
  | tx d b => simp [Quiet, quietB, OOut.kind, ReportsBroadcast]
  | txLink _ _ _ => simp [Quiet, quietB, OOut.kind, ReportsBroadcast]
  | line _ => simp [Quiet, quietB, OOut.kind, ReportsBroadcast]
  | panic => simp [Quiet, quietB, OOut.kind, ReportsBroadcast]

instance (o : OOut) : Decidable (Quiet o) := decidable_of_iff _ (quiet_iff o).symm

/-- `Quiet1` as a Boolean test -/
def quiet1B : OOut → Bool
  | .cb (.broadcast ..) => false
  | .cb (.solConfirmed _) => false
  | .cb (.unsolWait _) => false
  | _ => true

theorem quiet1_iff (o : OOut) : Quiet1 o ↔ quiet1B o = true := by
  cases o with
  | cb c => cases c <;> simp [Quiet1, quiet1B, OOut.kind, Cb.kind]
  | tx d b => simp [Quiet1, quiet1B, OOut.kind]
  | txLink _ _ _ => simp [Quiet1, quiet1B, OOut.kind]
  | line _ => simp [Quiet1, quiet1B, OOut.kind]
  | panic => simp [Quiet1, quiet1B, OOut.kind]

instance (o : OOut) : Decidable (Quiet1 o) := decidable_of_iff _ (quiet1_iff o).symm

/-- a received fragment that parses as anything but a solicited CONFIRM makes the first half of `QuietStep` true -/
theorem quietStep_rx (Q : OOut → Prop) (env : OEnv) (s : OState) (src dst : Nat) (data : List Nat) (ctrl : AppCtrl)
    (func : Nat) (objs : Except Nat (List ObjHdr)) (raw : List Nat)
    (hp : parseRequest data = .request ctrl func objs raw) (hn : func ≠ 0 ∨ ctrl.uns = true)
    (hq : ∀ o ∈ (Outstation.step env s (.rx src dst data)).2, Q o) : QuietStep Q env s (.rx src dst data) := by
  refine ⟨?_, hq⟩
  rintro pf hf ⟨f, ctrl', objs', raw', e, hp', hu⟩
  rcases hf with hf | ⟨b, _, hf⟩
  · rw [hf] at e; cases e
  · rw [hf] at e; cases e
    rw [hp] at hp'
    cases hp'
    rcases hn with hn | hn
    · exact hn rfl
    · rw [hn] at hu; cases hu

example : Quiet (.cb (.unsolConfirmed 3)) := by decide
example : Quiet1 (.cb (.unsolConfirmed 3)) ∧ Quiet1 (.tx 1 [0xE0, 0x81, 0x81, 0]) ∧ ¬ Quiet1 (.cb (.unsolWait 1)) := by decide
example : Quiet (.tx 1 [0xF0, 0x82, 0x80, 0]) := by decide
example : ¬ Quiet (.tx 1 [0xC0, 0x81, 0x81, 0]) := by decide

/-! ## examples: the hypotheses of the theorems above are satisfiable by concrete, non-trivial states
(the database stays a parameter: only its answer to `unwrittenClasses` is assumed) -/

/-- a session state with unsolicited support, restart still set, a confirm-mandatory broadcast recorded and
    the application reporting need-time + device-trouble -/
def exState (db : Db) : OState :=
  { cfg := { unsolicited := true, retries := some 2 }, script := { appIin := 5 }, lastBroadcast := some 1,
    solBuf := List.replicate 2048 0, unsolBuf := List.replicate 2048 0, db := db }

theorem writeSolicited_some (a : Acc) (dst : Nat) (r : Resp) (c : Bool × Bool × Bool)
    (h : a.1.db.unwrittenClasses = some c) : ∃ a' r', writeSolicited a dst r = some (a', r') := by
  obtain ⟨c1, c2, c3⟩ := c
  unfold writeSolicited
  rw [getResponseIin_eq a.1 c1 c2 c3 h]
  exact ⟨_, _, rfl⟩

theorem writeUnsolicited_some (a : Acc) (r : Resp) (c : Bool × Bool × Bool)
    (h : a.1.db.unwrittenClasses = some c) : ∃ a' r', writeUnsolicited a r = some (a', r') := by
  obtain ⟨c1, c2, c3⟩ := c
  unfold writeUnsolicited
  rw [getResponseIin_eq a.1 c1 c2 c3 h]
  exact ⟨_, _, rfl⟩

/-- `iin_of_fresh_response`, `app_bits_mirror`, `broadcast_forces_con`: a solicited response is built in `exState` -/
example (db : Db) (h : db.unwrittenClasses = some (true, false, true)) :
    ∃ a' r', writeSolicited (exState db, []) 1 (emptySolicited 3 0) = some (a', r') ∧
      (emptySolicited 3 0).iin1 = 0 ∧ (emptySolicited 3 0).iin2 &&& 0x20 = 0 ∧
      (exState db).lastBroadcast = some 1 := by
  obtain ⟨a', r', hw⟩ := writeSolicited_some (exState db, []) 1 (emptySolicited 3 0) _ h
  exact ⟨a', r', hw, rfl, rfl, rfl⟩

/-- … and what the theorems then say about it: restart, class 1, class 3, broadcast, need-time and
    device-trouble are set, class 2, local-control are clear, CON is forced -/
example (db : Db) (h : db.unwrittenClasses = some (true, false, true)) (a' : Acc) (r' : Resp)
    (hw : writeSolicited (exState db, []) 1 (emptySolicited 3 0) = some (a', r')) :
    r'.iin1.testBit 7 = true ∧ r'.iin1.testBit 1 = true ∧ r'.iin1.testBit 2 = false ∧ r'.iin1.testBit 0 = true ∧
    r'.iin1.testBit 4 = true ∧ r'.iin1.testBit 5 = false ∧ r'.iin1.testBit 6 = true ∧ r'.ctrl.con = true := by
  obtain ⟨s1, i1, i2, bytes, hg, e1, _, _, _⟩ := iin_of_fresh_response_sol _ _ _ _ _ hw
  obtain ⟨c1, c2, c3, hu, b⟩ := getResponseIin_bits _ _ _ _ hg
  have hc : (c1, c2, c3) = (true, false, true) := by
    have : (exState db, ([] : List OOut)).1.db.unwrittenClasses = some (true, false, true) := h
    rw [this] at hu; cases hu; rfl
  cases hc
  have hcon := (broadcast_forces_con _ _ _ _ _ hw rfl).1
  have m := app_bits_mirror _ 1 _ _ _ (Or.inl hw) rfl rfl
  have z : (emptySolicited 3 0).iin1 = 0 := rfl
  rw [e1, z, Nat.zero_or]
  refine ⟨b.1, b.2.1, b.2.2.1, b.2.2.2.2.1, ?_, ?_, ?_, hcon⟩
  · rw [b.2.2.2.2.2.1]; show Nat.testBit 5 0 = true; decide
  · rw [b.2.2.2.2.2.2.1]; show Nat.testBit 5 1 = false; decide
  · rw [b.2.2.2.2.2.2.2.1]; show Nat.testBit 5 2 = true; decide

/-- `iin_of_fresh_response` for an unsolicited response -/
example (db : Db) (h : db.unwrittenClasses = some (false, true, false)) :
    ∃ a' r', writeUnsolicited (exState db, []) (unsolHeader 4 0) = some (a', r') :=
  writeUnsolicited_some _ _ _ h

/-- `restart_bit_interval` / `StepWriteClears`: the octets `C3 02 50 01 00 07 07 00` (WRITE g80v1 [7..7] = 0) are
    a restart-clearing WRITE … -/
example : WriteClearsData [0xC3, 2, 80, 1, 0, 7, 7, 0] :=
  ⟨⟨true, true, false, false, 3⟩, [⟨80, 1, 0, 7, 7, [0]⟩], [80, 1, 0, 7, 7, 0], ⟨80, 1, 0, 7, 7, [0]⟩,
    by rfl, by simp, rfl, rfl, rfl, 0, by decide, rfl, by decide⟩

/-- … and a WRITE of `1` to the same bit is not -/
example : ¬ ClearsRestart ⟨80, 1, 0, 7, 7, [0x01]⟩ := by
  rintro ⟨_, _, _, i, hi, h7, hb⟩
  have : i = 0 := by simp at h7; omega
  subst this
  revert hb; decide

/-- `broadcast_bit_rule`: the classification predicates are inhabited: `C0 00` is a solicited CONFIRM … -/
example : IsSolConfirm (some ⟨0, 1, none, [0xC0, 0]⟩) :=
  ⟨_, ⟨true, true, false, false, 0⟩, .ok [], [], rfl, by rfl, rfl⟩

/-- … and a fragment received on 0xFFFE is a confirm-mandatory broadcast -/
example (env : OEnv) (h : env.outstation ≠ 0xFFFE) : rxBroadcast env 0xFFFE = some (some 1) := by
  unfold rxBroadcast
  rw [if_neg (fun e => h e.symm)]
  rfl

example : BcastOf (some ⟨0, 1, some 1, [0xC0, 2]⟩) 1 := ⟨_, rfl, rfl⟩

/-- `unsolReported_sound`: a state waiting for the confirm of an unsolicited response that carried IIN1.0
    (IIN1 = 0x81), with the flag set, satisfies `ReportedOk` … -/
example (db : Db) : ReportedOk { exState db with
    mode := .unsolWait ⟨⟨true, true, true, true, 0⟩, 0x82, 0x81, 0, 0⟩ false none 5000, unsolReported := true } := by
  intro r n t d m _
  cases m
  decide

/-- … and with IIN1 = 0x80 it does not -/
example (db : Db) : ¬ ReportedOk { exState db with
    mode := .unsolWait ⟨⟨true, true, true, true, 0⟩, 0x82, 0x80, 0, 0⟩ false none 5000, unsolReported := true } := by
  intro h
  have := h _ _ _ _ rfl rfl
  revert this; decide

-- BEGIN EVAL (concrete evaluation of the model, including the current `Db` component)
/-! ## D16 repaired, on a concrete trace

This section EVALUATES the model (including the current `Db` component).  An outstation with unsolicited
responses enabled starts by sending its null unsolicited response (IIN1 = 0x80, sequence number 0) and waits
for the confirm.  Then: a broadcast RECORD CURRENT TIME on 0xFFFF (confirm mode 0); the unsolicited
confirm; a DELAY MEASURE request. -/

def d16Start : OState := (Outstation.start { unsolicited := true } 10).1
def d16Bcast : OInput := .rx 1 0xFFFF [0xC1, 24]
def d16Confirm : OInput := .rx 1 1024 [0xD0, 0]
def d16Inputs : List OInput := [d16Bcast, d16Confirm, .rx 1 1024 [0xC0, 23]]

/-- the broadcast is processed in the wait, the unsolicited confirm is accepted and KEEPS the record
    (`some 0`, before the repair of D16: `none`), and the next response carries IIN1 = 0x81 -/
theorem unsol_confirm_keeps_broadcast_example :
    (Outstation.run {} d16Start d16Inputs).2.map cbs = [[.broadcast 24 .processed], [.unsolConfirmed 0], []] ∧
    (Outstation.run {} d16Start d16Inputs).2.map txFrags = [[], [], [(1, [192, 129, 129, 0, 52, 2, 7, 1, 0, 0])]] ∧
    (Outstation.run {} d16Start [d16Bcast]).1.lastBroadcast = some 0 ∧
    (Outstation.run {} d16Start [d16Bcast]).1.unsolReported = false ∧
    (Outstation.run {} d16Start [d16Bcast, d16Confirm]).1.lastBroadcast = some 0 ∧
    (Outstation.run {} d16Start d16Inputs).1.lastBroadcast = none := by
  decide +kernel

def isUnsolWait : Mode → Bool
  | .unsolWait .. => true
  | _ => false

theorem isUnsolWait_elim (m : Mode) (h : isUnsolWait m = true) : ∃ r n t d, m = .unsolWait r n t d := by
  cases m <;> simp [isUnsolWait] at h
  exact ⟨_, _, _, _, rfl⟩

/-- the hypotheses of `broadcast_in_wait_resets_reported`, `unsol_confirm_keeps_unreported` and
    `broadcast_never_dropped_by_unsol_confirm` hold on this trace: the first step starts in the unsolicited
    wait and shows a `Cb.broadcast`; the step that accepts the unsolicited confirm is a `QuietStep` -/
theorem d16_hypotheses :
    (∃ resp isNull retries dl, d16Start.mode = .unsolWait resp isNull retries dl) ∧
    (∃ o ∈ (Outstation.step {} d16Start d16Bcast).2, OOut.kind o = .bcast) ∧
    (Outstation.step {} d16Start d16Bcast).1.unsolReported = false ∧
    QuietRun Quiet {} (Outstation.step {} d16Start d16Bcast).1 [d16Confirm] ∧
    Cb.unsolConfirmed 0 ∈ cbs (Outstation.step {} (Outstation.step {} d16Start d16Bcast).1 d16Confirm).2 := by
  refine ⟨isUnsolWait_elim _ (by decide +kernel), by decide +kernel, by decide +kernel, ⟨?_, trivial⟩, by decide +kernel⟩
  exact quietStep_rx _ _ _ _ _ _ ⟨true, true, false, true, 0⟩ 0 (.ok []) [] (by rfl) (Or.inr rfl) (by decide +kernel)

/-- the same with a confirm-mandatory broadcast (0xFFFE) and a DELAY MEASURE request answered during the wait:
    that response and the one after the unsolicited confirm both carry IIN1 = 0x81 and CON (0xE0 / 0xE1), the
    record `some 1` survives the unsolicited confirm, and only the solicited confirm of a response that
    reported it clears it -/
def d16Inputs1 : List OInput :=
  [.rx 1 0xFFFE [0xC1, 24], .rx 1 1024 [0xC0, 23], d16Confirm, .rx 1 1024 [0xC1, 23], .rx 1 1024 [0xC1, 0]]

theorem unsol_confirm_keeps_mandatory_example :
    (Outstation.run {} d16Start d16Inputs1).2.map (fun l => (cbs l).filter (fun c => !Cb.isApp c)) =
      [[.broadcast 24 .processed], [], [.unsolConfirmed 0], [.solWait 1],
       [.solConfirmed 1, .beginConfirm, .endConfirm 0 0 0]] ∧
    (Outstation.run {} d16Start d16Inputs1).2.map txFrags =
      [[], [(1, [224, 129, 129, 0, 52, 2, 7, 1, 0, 0])], [], [(1, [225, 129, 129, 0, 52, 2, 7, 1, 0, 0])], []] ∧
    (List.range 6).map (fun n => (Outstation.run {} d16Start (d16Inputs1.take n)).1.lastBroadcast) =
      [none, some 1, some 1, some 1, some 1, none] := by
  decide +kernel

/-- the hypotheses of `unsol_confirm_keeps_mandatory` / `mandatory_broadcast_never_dropped_by_unsol_confirm`
    hold on it: both steps after the broadcast are `QuietStep Quiet1` -/
theorem d16_hypotheses_mandatory :
    (∃ o ∈ (Outstation.step {} d16Start (.rx 1 0xFFFE [0xC1, 24])).2, OOut.kind o = .bcast) ∧
    (Outstation.step {} d16Start (.rx 1 0xFFFE [0xC1, 24])).1.lastBroadcast = some 1 ∧
    QuietRun Quiet1 {} (Outstation.step {} d16Start (.rx 1 0xFFFE [0xC1, 24])).1 [.rx 1 1024 [0xC0, 23], d16Confirm] := by
  refine ⟨by decide +kernel, by decide +kernel, ?_, ?_, trivial⟩
  · exact quietStep_rx _ _ _ _ _ _ ⟨true, true, false, false, 0⟩ 23 (.ok []) [] (by rfl) (Or.inl (by decide))
      (by decide +kernel)
  · exact quietStep_rx _ _ _ _ _ _ ⟨true, true, false, true, 0⟩ 0 (.ok []) [] (by rfl) (Or.inr rfl) (by decide +kernel)
-- END EVAL

end Dnp3.Proofs.C13
